(* GarbledScope.v -- C17 for the scope family (--dist loadscope / loadfile / loadgroup: mode [MScope kind])
   WITHOUT the hypothesis "no undecodable report": arbitrary crashes, arbitrary Garbled reports, any collections.

   The ghost-run argument of GarbledCoupling.v / GarbledTheorems.v (load) on top of the crash invariant XInvC
   of CrashScopeTheorems.v: XInvC holds for a GHOST state in which a worker that sent an undecodable report
   died at that moment; real and ghost state agree on the controller state, the event queue and the result
   (relation GR of GarbledCoupling.v, reused; the worker commutation lemmas, WoN/SyncN, pfr_bad, pfr_down,
   GR_apply_outs, ... are imported from there).  Re-proved here: what mentions the scheduler-specific invariant
   (flag changes on a dead node, one lemma per label, the run).  *)
From XV Require Import Base Worker Ctl SchedLoad SchedSteal SchedScope SchedEach Sched DSession System
  NoHook DSessionProofs WorkerProofs LoadProofs FifoProofs ExactlyOnce ScopeProofs Coupling ScopeSystem
  ScopeCoupling CrashCoupling CrashTheorems CrashTokens CrashScope CrashScopeTheorems GarbledCoupling.
From Coq Require Import Permutation Sorted.
Open Scope nat_scope.

(* ====================================================================================== *)
(* 1. configurations with the same collections; flag changes on a dead node                *)
(* ====================================================================================== *)
Lemma XInvC_cfg c1 c2 kind coll0 s :
  c_numnodes c1 = c_numnodes c2 -> c_coll c1 = c_coll c2 -> XInvC c1 kind coll0 s -> XInvC c2 kind coll0 s.
Proof.
  intros E1 E2 [A1 A2 A3 A4 A5 A6 A7 A8]. constructor; rewrite <- ?E1, <- ?E2; assumption.
Qed.

Lemma gcfg_not_samef c B b : 0 < B -> ~ SAMEf (c_coll (gcfg c B b)).
Proof. intros HB HS. exact (gcfg_not_same c B b HB HS). Qed.

Section FlagsS.
Variable c : config.
Variable kind : scope_kind.
Variable coll0 : list string.
Notation XInvC := (XInvC c kind coll0).

(* the closed flag of a dead node may change *)
Lemma XInvC_dead_flag s n f f' :
  XInvC s -> mem_nat n (y_dead s) = true -> aget n (d_nt (y_d s)) = Some f ->
  n_sdsent f' = n_sdsent f -> n_down f' = n_down f ->
  XInvC (set_d s (d_set_nt (y_d s) (aset n f' (d_nt (y_d s))))).
Proof.
  intros X Hd Ef Hs Hdn. pose proof X as [Lo Hi (cs & DJd & NIs) Eq Eu Ea Er Edead].
  destruct (dj_els _ _ _ _ _ DJd) as (Els & J).
  assert (Ent : d_nt (y_d s) = sc_nt cs) by (unfold d_nt; rewrite Els; reflexivity).
  set (s' := set_d s (d_set_nt (y_d s) (aset n f' (d_nt (y_d s))))).
  assert (Ef' : aget n (sc_nt cs) = Some f) by (rewrite <- Ent; exact Ef).
  constructor.
  - exact Lo.
  - exact Hi.
  - exists (upd_flagc cs n f'). split; [apply (DJx_flag _ _ _ _ _ cs n f); auto|].
    intros k w Hw. change (y_w s') with (y_w s) in Hw. destruct (Nat.eq_dec k n) as [->|Hk].
    + destruct (NIs n w Hw) as (A & B & C & D). split; [exact A|]. split; [exact B|]. split; [exact C|].
      change (y_dead s') with (y_dead s). rewrite Hd in *. destruct D as [D1 D2 D3].
      constructor.
      * change (sigs s' n) with (sigs s n). eapply NDc_ext; [| |exact D1]; reflexivity.
      * destruct D2 as [pre g X1 X2 X3 X4 X5 X6 X7|q1 q2 X1 X2 X3 X4 X5 X6 X7|X1 X2 X3 X4 X5].
        -- cbn [proj l_nt] in X3. assert (g = f) by congruence. subst g.
           eapply (DS_wire _ _ _ _ pre f'); eauto;
             try (cbn [proj l_nt]; rewrite aget_upd_flagc, Nat.eqb_refl; reflexivity);
             try (rewrite Hdn; exact X4).
        -- eapply (DS_queue _ _ _ _ q1 q2); eauto.
        -- eapply DS_done; eauto.
      * exact D3.
    + apply (NodeInv_other s s' (proj coll0 cs) (proj coll0 (upd_flagc cs n f')) k w [] eq_refl eq_refl).
      * cbn [proj l_nt]. rewrite aget_upd_flagc. apply Nat.eqb_neq in Hk. rewrite Hk. reflexivity.
      * reflexivity.
      * reflexivity.
      * cbn. rewrite app_nil_r. reflexivity.
      * reflexivity.
      * apply no_errd_nil.
      * reflexivity.
      * reflexivity.
      * reflexivity.
      * apply NIs. exact Hw.
  - exact Eq.
  - exact Eu.
  - exact Ea.
  - exact Er.
  - exact Edead.
Qed.

(* the receiver thread tells a (ghost-)dead worker, which was running a test, to shut down *)
Lemma XInvC_dead_sdsent s n f wg cur nxt sc :
  ~ SAMEf (c_coll c) ->
  XInvC s -> mem_nat n (y_dead s) = true -> alist_get [] n (y_up s) <> [] ->
  aget n (y_w s) = Some wg -> wph wg = PRun cur nxt sc ->
  aget n (d_nt (y_d s)) = Some f ->
  XInvC (set_d s (d_set_nt (y_d s) (aset n (sd_mark f) (d_nt (y_d s))))).
Proof.
  intros NS X Hd Hup Hw Hph Ef. pose proof X as [Lo Hi (cs & DJd & NIs) Eq Eu Ea Er Edead].
  destruct (dj_els _ _ _ _ _ DJd) as (Els & J).
  assert (Ent : d_nt (y_d s) = sc_nt cs) by (unfold d_nt; rewrite Els; reflexivity).
  set (f' := sd_mark f).
  set (s' := set_d s (d_set_nt (y_d s) (aset n f' (d_nt (y_d s))))).
  assert (Ef' : aget n (sc_nt cs) = Some f) by (rewrite <- Ent; exact Ef).
  assert (Hdn : n_down f' = n_down f) by reflexivity.
  (* the collection is complete: the node has a book *)
  assert (CC : sc_collection_is_completed cs = true).
  { destruct (NIs n wg Hw) as (_ & _ & _ & D). rewrite Hd in D. destruct D as [_ D2 _].
    destruct D2 as [pre g X1 X2 X3 X4 X5 X6 (lost & X7)|q1 q2 X1 _ _ _ _ _ _|X1 _ _ _ _]; try contradiction.
    unfold owed_w, owed_main in X7. rewrite Hph in X7. rewrite proj_bk in X7.
    destruct (sc_coll cs) as [cl|] eqn:Ec.
    - destruct (sx_coll _ _ _ _ _ _ J cl Ec) as (_ & Y & _). exact Y.
    - exfalso. rewrite (bookn_coll_nonex _ _ _ _ _ cs n J Ec) in X7.
      symmetry in X7. apply app_eq_nil in X7. destruct X7 as (_ & X7). discriminate. }
  assert (KEY : forall m, aget m (sc_nt (upd_flagc cs n f')) <> None <-> aget m (sc_nt cs) <> None).
  { intros m. rewrite aget_upd_flagc. destruct (Nat.eqb m n) eqn:E; [|reflexivity].
    apply Nat.eqb_eq in E. subst m. rewrite Ef'. split; intros; discriminate. }
  constructor.
  - exact Lo.
  - exact Hi.
  - exists (upd_flagc cs n f'). split.
    + destruct DJd as ([Els0 J0 Jb K1 RS K2 EX RQ AL FN CCx ACT] & Jss & Jemp & Jmis).
      unfold s'. cbn [set_d y_d]. unfold d_set_nt. split; [|split; [exact Jss|split; [exact Jemp|exact Jmis]]].
      constructor; cbn [d_set_sched d_sched d_next_gw d_shouldstop d_shuttingdown d_active d_requeue d_failed_nodes].
      * unfold d_nt. rewrite Els. reflexivity.
      * apply SJx_set_nt; [exact J|]. intros m. apply (KEY m).
      * exact Jb.
      * intros Hc. exfalso.
        change (sc_collection_is_completed (upd_flagc cs n f')) with (sc_collection_is_completed cs) in Hc. congruence.
      * exact RS.
      * intros HS. contradiction.
      * exact EX.
      * exact RQ.
      * exact AL.
      * exact FN.
      * exact CCx.
      * exact ACT.
    + intros k w Hw'. change (y_w s') with (y_w s) in Hw'. destruct (Nat.eq_dec k n) as [->|Hk].
      * destruct (NIs n w Hw') as (A & B & C & D). split; [exact A|]. split; [exact B|]. split; [exact C|].
        change (y_dead s') with (y_dead s). rewrite Hd in *. destruct D as [D1 D2 D3].
        constructor.
        -- change (sigs s' n) with (sigs s n). eapply NDc_ext; [| |exact D1]; reflexivity.
        -- destruct D2 as [pre g X1 X2 X3 X4 X5 X6 X7|q1 q2 X1 X2 X3 X4 X5 X6 X7|X1 X2 X3 X4 X5].
           ++ cbn [proj l_nt] in X3. assert (g = f) by congruence. subst g.
              eapply (DS_wire _ _ _ _ pre f'); eauto;
                try (cbn [proj l_nt]; rewrite aget_upd_flagc, Nat.eqb_refl; reflexivity);
                try (rewrite Hdn; exact X4).
           ++ eapply (DS_queue _ _ _ _ q1 q2); eauto.
           ++ eapply DS_done; eauto.
        -- exact D3.
      * apply (NodeInv_other s s' (proj coll0 cs) (proj coll0 (upd_flagc cs n f')) k w [] eq_refl eq_refl).
        -- cbn [proj l_nt]. rewrite aget_upd_flagc. apply Nat.eqb_neq in Hk. rewrite Hk. reflexivity.
        -- reflexivity.
        -- reflexivity.
        -- cbn. rewrite app_nil_r. reflexivity.
        -- reflexivity.
        -- apply no_errd_nil.
        -- reflexivity.
        -- reflexivity.
        -- reflexivity.
        -- apply NIs. exact Hw'.
  - exact Eq.
  - exact Eu.
  - exact Ea.
  - exact Er.
  - exact Edead.
Qed.

Lemma ghost_wirex s n w : XInvC s -> mem_nat n (y_dead s) = true -> aget n (y_w s) = Some w ->
  alist_get [] n (y_up s) <> [] -> exists f, aget n (d_nt (y_d s)) = Some f /\ n_down f = false.
Proof.
  intros X Hd Hw Hup. pose proof X as [Lo Hi (cs & DJd & NIs) _ _ _ _ _].
  destruct (dj_els _ _ _ _ _ DJd) as (Els & J).
  destruct (NIs n w Hw) as (_ & _ & _ & D). rewrite Hd in D. destruct D as [_ D2 _].
  destruct D2 as [pre g X1 X2 X3 X4 _ _ _|q1 q2 X1 _ _ _ _ _ _|X1 _ _ _ _]; try contradiction.
  exists g. split; [|exact X4]. unfold d_nt. rewrite Els. exact X3.
Qed.
End FlagsS.

(* ====================================================================================== *)
(* 2. the ghost invariant                                                                  *)
(* ====================================================================================== *)
Definition GInvS (c : config) (kind : scope_kind) (B : nat) (s : sys) : Prop :=
  exists coll0 sg wo, XInvC (gcfg c B (c_strict c)) kind coll0 sg /\ GR s sg wo.

Section StepsS.
Variable c : config.
Variable kind : scope_kind.
Variable B : nat.
Hypothesis Hpos : 0 < c_numnodes c.
Hypothesis Hrq : c_requeue c = 0.
Notation cg := (gcfg c B (c_strict c)).
Notation GInvS := (GInvS c kind B).

Lemma HposG b : 0 < c_numnodes (gcfg c B b).
Proof. exact Hpos. Qed.
Lemma HrqG b : c_requeue (gcfg c B b) = 0.
Proof. exact Hrq. Qed.

Lemma gs_deliver s n0 cmd rest w0 :
  GInvS s -> mem_nat n0 (y_dead s) = false ->
  aget n0 (y_down s) = Some (cmd :: rest) -> aget n0 (y_w s) = Some w0 ->
  GInvS {| y_d := y_d s; y_evq := y_evq s; y_down := aset n0 rest (y_down s); y_up := y_up s;
           y_w := aset n0 (deliver w0 cmd) (y_w s); y_dead := y_dead s; y_result := y_result s |}.
Proof.
  intros (coll0 & sg & wo & X & R) Hd Ed Ew. pose proof R as [G1 G2 G3 G4 G5].
  destruct (in_dec Nat.eq_dec n0 wo) as [Hin|Hni].
  - exists coll0, sg, wo. split; [exact X|].
    apply (GR_local s sg wo _ sg wo n0 R); auto.
    + intros n Hn. same_tac Hn.
    + intros n Hn. apply same_at_refl.
    + tauto.
    + intros _. apply (WoN_ext s sg); auto; cbn [y_w y_d y_up].
      * intros _. rewrite aget_aset_eq. discriminate.
      * intros _. exists []. rewrite app_nil_r. reflexivity.
    + contradiction.
  - destruct (G5 n0 Hni) as [S1 S2 S3 S4]. rewrite Ew in S1. cbn in S1. rewrite Hd in S4.
    rewrite (alist_get_some [] _ _ _ Ed) in S2. apply alist_get_cons_aget in S2.
    exists coll0. eexists. exists wo.
    split; [exact (step_deliverx cg kind coll0 (HposG _) (HrqG _) sg n0 cmd rest (dgw w0) X S4 S2 S1)|].
    apply (GR_local s sg wo _ _ wo n0 R); auto.
    + intros n Hn. same_tac Hn.
    + intros n Hn. same_tac Hn.
    + tauto.
    + contradiction.
    + intros _. constructor; cbn [y_w y_down y_up y_dead]; rewrite ?aget_aset_eq, ?alist_get_aset_eq; auto.
      all: first [exact S3 | apply (sy_dead _ _ _ (G5 n0 Hni)) | reflexivity].
Qed.

(* the real process of a worker dies *)
Lemma gs_crash s n0 w0 :
  GInvS s -> mem_nat n0 (y_dead s) = false -> aget n0 (y_w s) = Some w0 -> wph w0 <> PExited ->
  GInvS (crash_worker c s n0).
Proof.
  intros (coll0 & sg & wo & X & R) Hd Ew Hph. pose proof R as [G1 G2 G3 G4 G5].
  destruct (in_dec Nat.eq_dec n0 wo) as [Hin|Hni].
  - (* a written-off worker dies: only its closed flag may change *)
    assert (XD : XInvC cg kind coll0 (set_d sg (y_d (crash_worker c s n0)))).
    { unfold crash_worker. cbn [y_d]. destruct (c_strict c); [|rewrite <- G1; rewrite set_d_same; exact X].
      destruct (aget n0 (d_nt (y_d s))) as [f|] eqn:Ef; [|rewrite <- G1; rewrite set_d_same; exact X].
      rewrite <- G1 in *. apply XInvC_dead_flag with (f := f); auto. apply (wo_dead _ _ _ (G4 n0 Hin)). }
    exists coll0, (set_d sg (y_d (crash_worker c s n0))), wo. split; [exact XD|].
    apply (GR_local s sg wo _ _ wo n0 R); auto.
    + intros k _. apply dn_crash.
    + intros n Hn. same_tac Hn.
    + intros n Hn. same_tac Hn.
    + tauto.
    + intros _. apply (WoN_ext s sg); auto; try apply (G4 n0 Hin).
      * apply dn_crash.
      * intros _. exists [UEnd]. unfold crash_worker. cbn [y_up]. apply alist_get_aset_eq.
    + contradiction.
  - destruct (G5 n0 Hni) as [S1 S2 S3 S4]. rewrite Ew in S1. cbn in S1. rewrite Hd in S4.
    assert (Hph' : wph (dgw w0) <> PExited) by (rewrite wph_dgw; destruct (wph w0); cbn; congruence).
    exists coll0, (crash_worker cg sg n0), wo.
    split; [exact (step_crashx cg kind coll0 (HposG _) (HrqG _) sg n0 (dgw w0) X S4 S1 Hph')|].
    apply (GR_local s sg wo _ _ wo n0 R); auto.
    + unfold crash_worker. cbn [y_d c_strict gcfg]. rewrite G1. reflexivity.
    + intros k _. apply dn_crash.
    + intros n Hn. same_tac Hn.
    + intros n Hn. same_tac Hn.
    + tauto.
    + contradiction.
    + intros _. unfold crash_worker. constructor; cbn [y_w y_down y_up y_dead]; rewrite ?alist_get_aset_eq; auto.
      * rewrite S1, Ew. reflexivity.
      * rewrite S3. reflexivity.
      * rewrite !mem_nat_cons, Nat.eqb_refl. reflexivity.
Qed.

Lemma gs_recvw s n0 w0 w' evs :
  GInvS s -> mem_nat n0 (y_dead s) = false -> aget n0 (y_w s) = Some w0 ->
  recv_step (c_oracle c n0) w0 = (w', evs) ->
  GInvS (push_up (set_w s n0 w') n0 (map (up_of_wevent c n0) evs)).
Proof.
  intros (coll0 & sg & wo & X & R) Hd Ew Es. pose proof R as [G1 G2 G3 G4 G5].
  destruct (in_dec Nat.eq_dec n0 wo) as [Hin|Hni].
  - exists coll0, sg, wo. split; [exact X|apply g_push_wo; auto].
  - destruct (G5 n0 Hni) as [S1 S2 S3 S4]. rewrite Ew in S1. cbn in S1. rewrite Hd in S4.
    pose proof X as [Lo Hi (cs & DJd & NIs) Eq Eu Ea Er Edead].
    destruct (NIs n0 (dgw w0) S1) as (Iw & Gw & NGw & D). rewrite S4 in D. destruct D as [D1 _ _ _ _ _].
    set (o' := dgo (c_oracle c n0)).
    assert (Es' : recv_step o' (dgw w0) = (dgw w', evs)).
    { unfold o'. rewrite recv_step_dgw, Es. reflexivity. }
    destruct (NI_recv o' _ _ _ _ _ _ _ Gw D1) as (Ev & Xn). rewrite Es' in Ev, Xn. cbn [fst snd] in Ev, Xn. subst evs.
    destruct (recv_step_nogarb _ _ _ _ Es' NGw) as (NG1 & NG2).
    exists coll0, (push_up (set_w sg n0 (dgw w')) n0 (map (up_of_wevent cg n0) [])), wo. split.
    + apply (step_pushx cg kind coll0 (HposG _) (HrqG _)) with (w0 := dgw w0); auto.
      * pose proof (recv_step_inv o' (dgw w0) Iw) as I1. rewrite Es' in I1. exact I1.
      * pose proof (recv_step_tokens o' (dgw w0) Gw) as (_ & G1'). rewrite Es' in G1'. exact G1'.
      * intros ls1 Y. cbn [flat_map]. rewrite app_nil_r.
        destruct (NI_recv o' _ _ _ _ _ _ _ Gw Y) as (_ & Z). rewrite Es' in Z. exact Z.
      * intros Hex. split; [|reflexivity]. rewrite (proj1 (recv_step_facts _ _ _ _ Es')). exact Hex.
    + apply (g_push_sync c B s sg wo n0 w' [] []); auto.
Qed.

Lemma gs_main s n0 w0 w' evs :
  GInvS s -> d_next_gw (y_d s) <= B -> mem_nat n0 (y_dead s) = false -> aget n0 (y_w s) = Some w0 ->
  main_step (c_oracle c n0) w0 = Some (w', evs) ->
  GInvS (push_up (set_w s n0 w') n0 (map (up_of_wevent c n0) evs)).
Proof.
  intros (coll0 & sg & wo & X & R) HB Hd Ew Es. pose proof R as [G1 G2 G3 G4 G5].
  destruct (in_dec Nat.eq_dec n0 wo) as [Hin|Hni].
  - exists coll0, sg, wo. split; [exact X|apply g_push_wo; auto].
  - destruct (G5 n0 Hni) as [S1 S2 S3 S4]. rewrite Ew in S1. cbn in S1. rewrite Hd in S4.
    pose proof X as [Lo Hi (cs & DJd & NIs) Eq Eu Ea Er Edead].
    pose proof (worker_ltx cg kind coll0 sg n0 _ X S1) as HnG. rewrite G1 in HnG.
    destruct (NIs n0 (dgw w0) S1) as (Iw & Gw & NGw & D). rewrite S4 in D. destruct D as [D1 D2 D3 D4 D5 D6].
    set (o' := dgo (c_oracle c n0)).
    assert (Es' : main_step o' (dgw w0) = Some (dgw w', map dge evs)).
    { unfold o'. rewrite main_step_dgw, Es. reflexivity. }
    assert (GB : existsb is_garbled evs = false \/ exists e, evs = [e] /\ is_garbled e = true).
    { destruct (main_step_one _ _ _ _ Es) as [->|(e & ->)]; [left; reflexivity|]. cbn.
      destruct (is_garbled e) eqn:E; [right; eauto|left; reflexivity]. }
    destruct GB as [NGe|(e & -> & Ge)].
    + (* an ordinary event *)
      assert (NGf : Forall (fun e => is_garbled e = false) evs).
      { apply Forall_forall. intros e He. destruct (is_garbled e) eqn:E; [|reflexivity].
        assert (existsb is_garbled evs = true) by (apply existsb_exists; eauto). congruence. }
      destruct (NI_main _ _ _ _ _ _ _ _ _ _ Iw D1 Es') as (_ & Hok).
      destruct (main_step_nogarb _ _ _ _ (dgo_nogarbled (c_oracle c n0)) Es' NGw) as (NG1 & NG2).
      destruct (main_step_frame _ _ _ _ Es') as (_ & Einb & _).
      exists coll0, (push_up (set_w sg n0 (dgw w')) n0 (map (up_of_wevent cg n0) (map dge evs))), wo. split.
      * apply (step_pushx cg kind coll0 (HposG _) (HrqG _)) with (w0 := dgw w0); auto.
        -- eapply main_step_inv; eauto.
        -- rewrite Einb. exact Gw.
        -- intros ls1 Y. exact (proj1 (NI_main _ _ _ _ _ _ _ _ _ _ Iw Y Es')).
        -- intros Hex. exfalso. exact (main_step_not_exited _ _ _ _ Es' Hex).
      * apply g_push_sync; auto. rewrite map_map. apply map_ext_in. intros e He.
        apply up_of_wevent_g; [lia|]. rewrite Forall_forall in NGf; auto.
    + (* a garbled report: the worker will be written off; its ghost dies now *)
      destruct (main_step_garbled _ _ _ _ Es Ge) as (cur & nxt & sc & Ph).
      assert (DN : dn n0 (y_d s) = false).
      { rewrite <- G1. unfold dn. destruct (dj_els _ _ _ _ _ DJd) as (Els & _).
        assert (Ent : d_nt (y_d sg) = sc_nt cs) by (unfold d_nt; rewrite Els; reflexivity). rewrite Ent.
        destruct (aget n0 (sc_nt cs)) as [f|] eqn:Ef; [|reflexivity]. destruct (n_down f) eqn:Edn; [|reflexivity].
        cbn [proj l_nt] in D6.
        destruct (D6 f Ef Edn) as (_ & P). rewrite wph_dgw, Ph in P. discriminate. }
      set (cg0 := gcfg c B false).
      assert (X0' : XInvC cg0 kind coll0 sg) by (apply (XInvC_cfg cg); [reflexivity|reflexivity|exact X]).
      assert (Hph' : wph (dgw w0) <> PExited) by (rewrite wph_dgw, Ph; discriminate).
      pose proof (step_crashx cg0 kind coll0 (HposG _) (HrqG _) sg n0 (dgw w0) X0' S4 S1 Hph') as XK.
      apply (XInvC_cfg cg0 cg) in XK; [|reflexivity|reflexivity].
      exists coll0, (crash_worker cg0 sg n0), (n0 :: wo). split; [exact XK|].
      apply (GR_local s sg wo _ _ (n0 :: wo) n0 R); auto.
      * intros n Hn. same_tac Hn.
      * intros n Hn. same_tac Hn.
      * intros n Hn. cbn. split; [intros [F|F]; [congruence|exact F]|auto].
      * intros _. constructor.
        -- cbn [push_up set_w y_w]. rewrite aget_aset_eq. discriminate.
        -- exists (dgw w0), cur, nxt, (map dge (e :: sc)). split; [exact S1|rewrite wph_dgw, Ph; reflexivity].
        -- unfold crash_worker. cbn [y_dead]. rewrite mem_nat_cons, Nat.eqb_refl. reflexivity.
        -- left. split; [exact DN|]. exists (alist_get [] n0 (y_up s)), []. split.
           ++ cbn [push_up set_w y_up]. rewrite alist_get_aset_eq. cbn [map]. rewrite (garbled_up c n0 e Ge). reflexivity.
           ++ unfold crash_worker. cbn [y_up]. rewrite alist_get_aset_eq, S3. reflexivity.
      * intros F. exfalso. apply F. left. reflexivity.
Qed.

Lemma wo_ltx coll0 s sg wo k : XInvC cg kind coll0 sg -> GR s sg wo -> In k wo -> k < d_next_gw (y_d s).
Proof.
  intros X R Hk. destruct (wo_g _ _ _ (gr_wo _ _ _ R k Hk)) as (wg & _ & _ & _ & Ewg & _).
  rewrite <- (gr_d _ _ _ R). exact (worker_ltx cg kind coll0 sg k wg X Ewg).
Qed.

(* the controller's main loop; the collection the ghost invariant is stated for is re-chosen (pickx) *)
Lemma gs_ctl s ev q d' outs r :
  GInvS s -> y_result s = None -> y_evq s = ev :: q -> d_loop_once ev (y_d s) = (d', outs, r) ->
  r = Ok tt /\ d_next_gw d' <= S (d_next_gw (y_d s)) /\
  forall rr, (forall e, rr <> Some (RError e)) -> (rr = None -> d_active d' <> []) ->
    GInvS (set_result (apply_outs (set_d (set_evq s q) d') outs) rr).
Proof.
  intros (coll00 & sg & wo & X00 & R) Eres Eq El. pose proof R as [G1 G2 G3 G4 G5].
  destruct (pickx_ok cg kind coll00 sg X00) as (X & HF).
  set (coll0 := pickx cg coll00 sg) in *.
  rewrite <- G1 in El. rewrite <- G3 in Eres. rewrite <- G2 in Eq.
  destruct (step_ctl_corex_g cg kind coll0 (HposG _) (HrqG _) sg ev q d' outs r X HF Eres Eq El) as (-> & _ & CORE).
  pose proof (loop_once_step _ _ _ _ _ El) as SR.
  destruct (step_rel_spawn _ _ _ SR) as (GW & SPI).
  destruct (loop_once_fifo _ _ _ _ _ 0 El) as ((_ & _ & _ & RK) & _).
  split; [reflexivity|]. split.
  { destruct SR as (_ & _ & _ & [(_ & E)|(_ & E & _)]); rewrite E, G1; lia. }
  intros rr H1 H2. exists coll0, (set_result (apply_outs (set_d (set_evq sg q) d') outs) rr), wo.
  split; [apply CORE; auto|].
  apply GR_set_result. apply GR_apply_outs.
  - apply GR_set_dq; [exact R|]. intros k Hk. pose proof (wo_ltx coll0 s sg wo k X R Hk) as Hlt.
    rewrite <- G1 in *. destruct (RK k) as [E|(E & _)]; [exact E|lia].
  - intros id sp Hin Hwo. destruct (SPI id sp Hin) as (A & _).
    pose proof (wo_ltx coll0 s sg wo id X R Hwo) as Hlt. rewrite <- G1 in Hlt. lia.
Qed.

Lemma gs_close s1 n0 : GInvS s1 -> GInvS (close_if_dead s1 n0).
Proof.
  intros (coll0 & sg & wo & X & R). pose proof R as [G1 G2 G3 G4 G5].
  assert (DNK : forall f, aget n0 (d_nt (y_d s1)) = Some f -> n_down f = true -> forall k,
            dn k (d_set_nt (y_d s1) (aset n0 {| n_spec := n_spec f; n_down := true; n_sdsent := n_sdsent f;
                                                n_closed := true |} (d_nt (y_d s1)))) = dn k (y_d s1)).
  { intros f Ef Edn k. destruct (Nat.eq_dec k n0) as [->|Hk].
    - rewrite dn_aset_eq, (dn_of_flag _ _ _ Ef), Edn. reflexivity.
    - apply dn_aset_neq. exact Hk. }
  destruct (in_dec Nat.eq_dec n0 wo) as [Hin|Hni].
  - unfold close_if_dead. destruct (mem_nat n0 (y_dead s1)) eqn:Hd; [|exists coll0, sg, wo; auto].
    destruct (aget n0 (d_nt (y_d s1))) as [f|] eqn:Ef; [|exists coll0, sg, wo; auto].
    destruct (n_down f) eqn:Edn; [|exists coll0, sg, wo; auto].
    exists coll0. eexists (set_d sg _), wo. split; [|apply GR_set_d; [exact R|apply DNK; auto]].
    rewrite <- G1 in *. apply XInvC_dead_flag with (f := f); auto. apply (wo_dead _ _ _ (G4 n0 Hin)).
  - exists coll0, (close_if_dead sg n0), wo. split; [apply close_if_dead_XInvC; exact X|].
    unfold close_if_dead. rewrite (sy_dead _ _ _ (G5 n0 Hni)), G1.
    destruct (mem_nat n0 (y_dead s1)); [|exact R].
    destruct (aget n0 (d_nt (y_d s1))) as [f|] eqn:Ef; [|exact R].
    destruct (n_down f) eqn:Edn; [|exact R].
    apply GR_set_d; [exact R|apply DNK; auto].
Qed.

Lemma gs_recv s n0 m rest d' outs r :
  GInvS s -> d_next_gw (y_d s) <= B -> aget n0 (y_up s) = Some (m :: rest) ->
  process_from_remote n0 m (y_d s) = (d', outs, r) ->
  d_next_gw d' = d_next_gw (y_d s) /\ exists evs, r = Ok evs /\
  GInvS (set_evq (apply_outs (set_d {| y_d := y_d s; y_evq := y_evq s; y_down := y_down s;
                                        y_up := aset n0 rest (y_up s); y_w := y_w s; y_dead := y_dead s;
                                        y_result := y_result s |} d') outs)
                  (y_evq s ++ evs)).
Proof.
  intros (coll0 & sg & wo & X & R) HB Eup Ep. pose proof R as [G1 G2 G3 G4 G5].
  pose proof (alist_get_some [] _ _ _ Eup) as Eup'.
  (* generic conclusion: the real state after the step, with any wire down for n0 *)
  assert (FIN : forall sg1 wo1 yd evs d2,
     XInvC cg kind coll0 sg1 -> y_d sg1 = d2 -> y_evq sg1 = y_evq s ++ evs -> y_result sg1 = y_result s ->
     (forall k, k <> n0 -> dn k d2 = dn k (y_d s)) ->
     (forall n, n <> n0 -> alist_get [] n yd = alist_get [] n (y_down s)) ->
     (forall n, n <> n0 -> same_at sg sg1 n) -> (forall n, n <> n0 -> (In n wo1 <-> In n wo)) ->
     let s' := {| y_d := d2; y_evq := y_evq s ++ evs; y_down := yd; y_up := aset n0 rest (y_up s);
                  y_w := y_w s; y_dead := y_dead s; y_result := y_result s |} in
     (In n0 wo1 -> WoN s' sg1 n0) -> (~ In n0 wo1 -> SyncN s' sg1 n0) -> GInvS s').
  { intros sg1 wo1 yd evs d2 X1 E1 E2 E3 Hdn Hyd Hsg Hwo s' Hw Hy. exists coll0, sg1, wo1. split; [exact X1|].
    apply (GR_local s sg wo s' sg1 wo1 n0 R); auto.
    intros n Hn. unfold same_at, s'. cbn [y_w y_down y_up y_dead]. rewrite alist_get_aset_neq by exact Hn. auto. }
  destruct (in_dec Nat.eq_dec n0 wo) as [Hin|Hni].
  - destruct (G4 n0 Hin) as [W1 W2 W3 W4]. destruct W2 as (wg & cur & nxt & sc & Ewg & Phg).
    destruct W4 as [(Hdn & pre & post & U1 & U2)|(Hdn & U2)].
    + rewrite Eup' in U1. destruct pre as [|m' pre'].
      * (* the garbled report is read: the worker is written off *)
        cbn [app] in U1. inv U1.
        assert (Hne : alist_get [] n0 (y_up sg) <> []) by (rewrite U2; discriminate).
        destruct (ghost_wirex cg kind coll0 sg n0 wg X W3 Ewg Hne) as (f & Ef & Hdf). rewrite G1 in Ef.
        destruct (d_node_shutdown n0 (y_d s)) as [[d1 o1] r1] eqn:Hs.
        destruct (d_node_shutdown_ok _ _ _ _ _ _ Ef Hs) as (-> & CASES).
        assert (HB0 : 0 < B). { pose proof (wo_ltx coll0 s sg wo n0 X R Hin). lia. }
        assert (XA : XInvC cg kind coll0 (set_d sg d1) /\ exists f1, aget n0 (d_nt d1) = Some f1 /\ n_down f1 = false /\
                     (forall k, dn k d1 = dn k (y_d s)) /\ d_next_gw d1 = d_next_gw (y_d s)).
        { destruct CASES as [(-> & _)|(-> & _)].
          - split; [rewrite <- G1, set_d_same; exact X|]. exists f. auto.
          - split.
            + rewrite <- G1 in *. eapply (XInvC_dead_sdsent cg kind coll0 sg n0 f wg cur nxt sc); eauto.
              apply gcfg_not_samef. exact HB0.
            + exists (sd_mark f). split; [rewrite d_nt_set; apply aget_aset_eq|]. split; [exact Hdf|].
              split; [|reflexivity]. intros k. destruct (Nat.eq_dec k n0) as [->|Hk].
              * rewrite dn_aset_eq, (dn_of_flag _ _ _ Ef). reflexivity.
              * apply dn_aset_neq. exact Hk. }
        destruct XA as (XA & f1 & Ef1 & Hdf1 & DN1 & GW1).
        destruct (process_from_remote n0 UEnd d1) as [[d2 o2] r2] eqn:Ep2.
        assert (EupA : aget n0 (y_up (set_d sg d1)) = Some [UEnd]).
        { cbn [set_d y_up]. apply alist_get_cons_aget. exact U2. }
        destruct (step_recvx cg kind coll0 (HposG _) (HrqG _) (set_d sg d1) n0 UEnd [] d2 o2 r2 XA EupA Ep2)
          as (-> & evs & -> & X' & _).
        rewrite (pfr_bad _ _ _ _ _ Ef Hdf Hs f1 Ef1 Hdf1 _ _ _ Ep2) in Ep. inv Ep.
        destruct (pfr_spec _ _ _ _ _ _ _ Ep2 Ef1) as (_ & GW2 & _ & DNo & DNn & _).
        split; [congruence|]. exists evs. split; [reflexivity|].
        assert (CL : forall yd, (forall n, n <> n0 -> alist_get [] n yd = alist_get [] n (y_down s)) ->
                 GInvS {| y_d := d'; y_evq := y_evq s ++ evs; y_down := yd; y_up := aset n0 post (y_up s);
                          y_w := y_w s; y_dead := y_dead s; y_result := y_result s |}).
        { intros yd Hyd. eapply (FIN _ wo yd evs d'); [exact X'|reflexivity| |exact G3| |exact Hyd| |tauto| |contradiction].
          - cbn [set_evq set_d y_evq]. rewrite G2. reflexivity.
          - intros k Hk. rewrite (DNo k Hk). apply DN1.
          - intros n Hn. same_tac Hn.
          - intros _. constructor; cbn [y_w y_d y_up set_evq set_d y_dead].
            + exact W1.
            + exists wg, cur, nxt, sc. auto.
            + exact W3.
            + right. split; [rewrite DNn; apply orb_true_r|apply alist_get_aset_eq]. }
        rewrite app_nil_r. destruct CASES as [(_ & ->)|(_ & [->| ->])]; cbn [apply_outs set_d set_evq y_evq y_d y_dead].
        -- apply CL. auto.
        -- apply CL. auto.
        -- destruct (mem_nat n0 (y_dead s)); cbn [apply_outs set_evq y_evq].
           ++ apply CL. auto.
           ++ apply CL. intros n Hn. cbn [y_down]. apply alist_get_aset_neq. exact Hn.
      * (* an audible message of a worker that will be written off *)
        cbn [app] in U1. inv U1.
        assert (EupG : aget n0 (y_up sg) = Some (m' :: pre' ++ [UEnd])) by (apply alist_get_cons_aget; exact U2).
        rewrite <- G1 in Ep.
        destruct (step_recvx cg kind coll0 (HposG _) (HrqG _) sg n0 m' _ d' outs r X EupG Ep) as (-> & evs & -> & X' & _).
        assert (Hne : alist_get [] n0 (y_up sg) <> []) by (rewrite U2; discriminate).
        destruct (ghost_wirex cg kind coll0 sg n0 wg X W3 Ewg Hne) as (f & Ef & Hdf).
        destruct (pfr_spec _ _ _ _ _ _ _ Ep Ef) as (_ & GW2 & _ & DNo & _ & _).
        split; [congruence|]. exists evs. split; [reflexivity|]. cbn [apply_outs set_d].
        eapply (FIN _ wo (y_down s) evs d'); [exact X'|reflexivity| |exact G3| |auto| |tauto| |contradiction].
        -- cbn [set_evq set_d y_evq]. rewrite G2. reflexivity.
        -- intros k Hk. rewrite (DNo k Hk), G1. reflexivity.
        -- intros n Hn. same_tac Hn.
        -- intros _. constructor; cbn [y_w y_d y_up set_evq set_d y_dead].
           ++ exact W1.
           ++ exists wg, cur, nxt, sc. auto.
           ++ exact W3.
           ++ left. assert (Hne' : alist_get [] n0 (y_up (set_evq (set_d {| y_d := y_d sg; y_evq := y_evq sg; y_down := y_down sg;
                  y_up := aset n0 (pre' ++ [UEnd]) (y_up sg); y_w := y_w sg; y_dead := y_dead sg; y_result := y_result sg |} d')
                  (y_evq sg ++ evs))) <> []).
              { cbn [set_evq set_d y_up]. rewrite alist_get_aset_eq. destruct pre'; discriminate. }
              destruct (ghost_wirex cg kind coll0 _ n0 wg X' W3 Ewg Hne') as (f2 & Ef2 & Hdf2). cbn [set_evq set_d y_d] in Ef2.
              split; [rewrite (dn_of_flag _ _ _ Ef2); exact Hdf2|]. exists pre', post.
              rewrite !alist_get_aset_eq. auto.
    + (* a written-off worker: the message is dropped *)
      unfold dn in Hdn. destruct (aget n0 (d_nt (y_d s))) as [f|] eqn:Ef; [|discriminate].
      rewrite (pfr_down _ _ _ _ Ef Hdn) in Ep. inv Ep. split; [reflexivity|]. exists []. split; [reflexivity|].
      cbn [apply_outs set_d].
      eapply (FIN sg wo (y_down s) [] (y_d s)); [exact X|exact G1|rewrite app_nil_r; exact G2|exact G3|auto|auto| |tauto| |contradiction].
      * intros n Hn. apply same_at_refl.
      * intros _. constructor; cbn [y_w y_d y_up y_dead].
        -- exact W1.
        -- exists wg, cur, nxt, sc. auto.
        -- exact W3.
        -- right. split; [rewrite (dn_of_flag _ _ _ Ef); exact Hdn|exact U2].
  - (* a worker in sync *)
    destruct (G5 n0 Hni) as [S1 S2 S3 S4]. rewrite Eup' in S3.
    assert (EupG : aget n0 (y_up sg) = Some (m :: rest)) by (apply alist_get_cons_aget; exact S3).
    rewrite <- G1 in Ep.
    destruct (step_recvx cg kind coll0 (HposG _) (HrqG _) sg n0 m rest d' outs r X EupG Ep) as (-> & evs & -> & X' & _).
    assert (GW2 : d_next_gw d' = d_next_gw (y_d sg) /\ forall k, k <> n0 -> dn k d' = dn k (y_d sg)).
    { destruct (aget n0 (d_nt (y_d sg))) as [f|] eqn:Ef.
      - destruct (pfr_spec _ _ _ _ _ _ _ Ep Ef) as (_ & A & _ & Bq & _ & _). auto.
      - exfalso. unfold process_from_remote in Ep. rewrite mbind_get, Ef in Ep. cbn in Ep. inv Ep. }
    destruct GW2 as (GW2 & DNo).
    split; [congruence|]. exists evs. split; [reflexivity|]. cbn [apply_outs set_d].
    eapply (FIN _ wo (y_down s) evs d'); [exact X'|reflexivity| |exact G3| |auto| |tauto|contradiction|].
    + cbn [set_evq set_d y_evq]. rewrite G2. reflexivity.
    + intros k Hk. rewrite (DNo k Hk), G1. reflexivity.
    + intros n Hn. same_tac Hn.
    + intros _. constructor; cbn [y_w y_down y_up y_dead set_evq set_d]; rewrite ?alist_get_aset_eq; auto.
Qed.
End StepsS.

(* ====================================================================================== *)
(* 3. the run; C17                                                                         *)
(* ====================================================================================== *)
Definition ErrGS (s : sys) : Prop := y_result s = Some (RError ERuntimeNoWorkers).

Section MainS.
Variable c : config.
Variable kind : scope_kind.
Hypothesis Hmode : c_mode c = MScope kind.
Hypothesis Hpos : 0 < c_numnodes c.
Hypothesis Hrq : c_requeue c = 0.

Lemma ginvs_res B s e : GInvS c kind B s -> y_result s <> Some (RError e).
Proof. intros (coll0 & sg & wo & X & R). rewrite <- (gr_r _ _ _ R). apply (xc_res _ _ _ _ X). Qed.

Lemma ginvs_init B : GInvS c kind B (sys_init c).
Proof.
  exists (c_coll c 0), (sys_init c), []. split.
  - exact (XInvC_init (gcfg c B (c_strict c)) kind (c_coll c 0) Hmode Hpos Hrq).
  - constructor; auto.
    + intros n [].
    + intros n _. constructor; auto. cbn [sys_init y_w].
      destruct (aget n (map (fun n0 => (n0, w_init)) (seq 0 (c_numnodes c)))) as [w|] eqn:E; [|reflexivity].
      apply aget_map_const in E. subst w. reflexivity.
Qed.

Lemma gs_step B s l s' o w :
  GInvS c kind B s -> d_next_gw (y_d s) <= B -> sys_step c s l = Some (s', o, w) ->
  (GInvS c kind B s' /\ d_next_gw (y_d s') <= S (d_next_gw (y_d s))) \/ ErrGS s'.
Proof.
  intros GI HB H. unfold sys_step in H. destruct (y_result s) eqn:Eres; [discriminate|].
  destruct l as [n0|n0|n0|n0| |n0].
  - destruct (mem_nat n0 (y_dead s)) eqn:Hd; [discriminate|].
    destruct (aget n0 (y_down s)) as [[|cmd rest]|] eqn:Ed; try discriminate.
    destruct (aget n0 (y_w s)) as [w0|] eqn:Ew; try discriminate.
    inv H. left. split; [|cbn; lia]. rewrite <- Eres. apply gs_deliver; assumption.
  - destruct (mem_nat n0 (y_dead s)) eqn:Hd; [discriminate|].
    destruct (aget n0 (y_w s)) as [w0|] eqn:Ew; try discriminate.
    destruct (negb (wcb w0)); [discriminate|].
    destruct (recv_step (c_oracle c n0) w0) as [w' evs] eqn:Es. inv H. left.
    split; [|cbn; lia]. eapply gs_recvw; eauto.
  - destruct (mem_nat n0 (y_dead s)) eqn:Hd; [discriminate|].
    destruct (aget n0 (y_w s)) as [w0|] eqn:Ew; try discriminate.
    destruct (dies_now c n0 w0) eqn:Edie.
    + inv H. left. split; [|rewrite (proj2 (crash_d c s n0)); lia].
      apply gs_crash with (w0 := w0); auto. unfold dies_now in Edie. destruct (wph w0); discriminate.
    + destruct (main_step (c_oracle c n0) w0) as [[w' evs]|] eqn:Es; [|discriminate]. inv H. left.
      split; [|cbn; lia]. eapply gs_main; eauto.
  - destruct (aget n0 (y_up s)) as [[|m rest]|] eqn:Eup; try discriminate.
    cbn [y_d] in H.
    destruct (process_from_remote n0 m (y_d s)) as [[d' outs] r] eqn:Ep.
    destruct (gs_recv c kind B Hpos Hrq s n0 m rest d' outs r GI HB Eup Ep) as (GW & evs & -> & GI').
    destruct (apply_outs_frame outs (set_d {| y_d := y_d s; y_evq := y_evq s; y_down := y_down s; y_up := aset n0 rest (y_up s);
                       y_w := y_w s; y_dead := y_dead s; y_result := y_result s |} d')) as (F1 & F2 & F3).
    destruct (close_if_dead_frame (set_evq (apply_outs (set_d {| y_d := y_d s; y_evq := y_evq s; y_down := y_down s; y_up := aset n0 rest (y_up s);
                       y_w := y_w s; y_dead := y_dead s; y_result := y_result s |} d') outs) (y_evq s ++ evs)) n0) as (_ & _ & _ & _ & _ & E).
    cbn [set_evq y_d] in E. rewrite F2 in E. cbn [set_d y_d] in E.
    rewrite <- Eres in H. rewrite F1 in H. cbn [set_d y_evq] in H.
    injection H as <- <- <-. left. split; [apply gs_close; exact GI'|].
    rewrite E. lia.
  - destruct (d_active (y_d s)) as [|a0 ar] eqn:Eact.
    { destruct (d_no_active (y_d s)) as [[d' outs] r]. inv H. right. reflexivity. }
    destruct (y_evq s) as [|ev q] eqn:Eevq; [discriminate|].
    destruct (d_loop_once ev (y_d s)) as [[d' outs] r] eqn:El.
    destruct (gs_ctl c kind B Hpos Hrq s ev q d' outs r GI Eres Eevq El) as (-> & GW & CORE).
    set (s1 := apply_outs (set_d (set_evq s q) d') outs) in *.
    assert (GW1 : forall rr, d_next_gw (y_d (set_result s1 rr)) <= S (d_next_gw (y_d s))).
    { intros rr. cbn [set_result y_d]. unfold s1. rewrite (proj1 (proj2 (apply_outs_frame _ _))). exact GW. }
    destruct (d_session_finished d') eqn:Efin.
    + inv H. left. split; [|apply GW1]. apply CORE.
      * intros e. destruct (d_shouldstop d'); discriminate.
      * destruct (d_shouldstop d'); discriminate.
    + destruct (d_active d') as [|b0 br] eqn:Eact'.
      * destruct (d_no_active d') as [[d2 outs2] r2]. inv H. right. reflexivity.
      * inv H. left.
        assert (Er1 : y_result s1 = None) by (unfold s1; rewrite apply_outs_result; cbn; exact Eres).
        rewrite <- (set_result_same' s1 None Er1). split; [|apply GW1]. apply CORE.
        -- intros e. discriminate.
        -- intros _. discriminate.
  - destruct (mem_nat n0 (y_dead s)) eqn:Hd; [discriminate|].
    destruct (aget n0 (y_w s)) as [w0|] eqn:Ew; try discriminate.
    destruct (wph w0) eqn:Eph; try discriminate; inv H; left;
      (split; [apply gs_crash with (w0 := w0); auto; rewrite Eph; discriminate|rewrite (proj2 (crash_d c s n0)); lia]).
Qed.

Lemma errs_stays ls : forall s, ErrGS s ->
  ErrGS (fold_left (fun s l => match sys_step c s l with Some (s', _, _) => s' | None => s end) ls s).
Proof.
  induction ls as [|l ls IH]; intros s A; cbn [fold_left]; [exact A|].
  assert (E : sys_step c s l = None) by (unfold sys_step; rewrite A; reflexivity).
  rewrite E. apply IH. exact A.
Qed.

Lemma gs_run_gen B ls : forall s,
  GInvS c kind B s \/ ErrGS s -> d_next_gw (y_d s) + length ls <= B ->
  let s' := fold_left (fun s l => match sys_step c s l with Some (s', _, _) => s' | None => s end) ls s in
  GInvS c kind B s' \/ ErrGS s'.
Proof.
  induction ls as [|l ls IH]; intros s Hs HB; cbn [fold_left]; [exact Hs|].
  cbn [length] in HB.
  destruct (sys_step c s l) as [[[s' o] w]|] eqn:E; [|apply IH; [exact Hs|lia]].
  destruct Hs as [Hs|Hr].
  - destruct (gs_step B s l s' o w Hs ltac:(lia) E) as [(A & Bd)|A].
    + apply IH; [left; exact A|lia].
    + right. apply errs_stays. exact A.
  - unfold sys_step in E. rewrite Hr in E. discriminate.
Qed.

(* every reachable state satisfies the ghost invariant, or the controller has raised "no active workers" *)
Theorem ginvs_run ls :
  GInvS c kind (c_numnodes c + length ls) (sys_run c ls) \/ ErrGS (sys_run c ls).
Proof.
  unfold sys_run. apply gs_run_gen; [left; apply ginvs_init|]. cbn. lia.
Qed.

(* C17, scope family, without no_garbled *)
Theorem garbled_scope_c17 ls : forall e, y_result (sys_run c ls) = Some (RError e) -> e = ERuntimeNoWorkers.
Proof.
  intros e H. destruct (ginvs_run ls) as [G|R].
  - exfalso. exact (ginvs_res _ _ e G H).
  - unfold ErrGS in R. congruence.
Qed.
End MainS.

Check ginvs_run.
Print Assumptions ginvs_run.
Check garbled_scope_c17.
Print Assumptions garbled_scope_c17.

(* ====================================================================================== *)
(* 4. non-vacuity: loadfile sessions in which worker 0 sends an undecodable report         *)
(* ====================================================================================== *)
Open Scope string_scope.
Open Scope list_scope.
(* --dist loadfile, collection csx_coll of CrashScopeTheorems.v (files a = 0 1 2, b = 3 4 5 6, c = 7); worker 0's
   second report for test 4 = "b::2" is undecodable *)
Definition gsx_cfg (strict : bool) (crash : nat -> nat -> bool) : config :=
  {| c_mode := MScope KFile; c_numnodes := 2; c_chunk := None; c_maxfail := 0%Z; c_max_restart := Some 4%Z;
     c_requeue := 0; c_coll := fun _ => csx_coll;
     c_oracle := fun n => {| reports_of := fun i => if Nat.eqb n 0 && Nat.eqb i 4 then [Passed; Garbled; Failed] else [Passed];
                             stops_after := fun _ => false; ncollected := 8; coll_reports := [] |};
     c_dur := fun _ => 0%Z; c_crash_in := crash; c_strict := strict; c_spec := fun _ => 0 |}.

(* the hypotheses of garbled_scope_c17 hold, no_garbled does not *)
Example gsx_hyps strict crash :
  c_mode (gsx_cfg strict crash) = MScope KFile /\ 0 < c_numnodes (gsx_cfg strict crash) /\
  c_requeue (gsx_cfg strict crash) = 0 /\ ~ no_garbled (gsx_cfg strict crash).
Proof.
  split; [reflexivity|]. split; [cbn; lia|]. split; [reflexivity|]. intros H. apply (H 0 4). cbn. auto.
Qed.

(* result; dead processes; tests started per worker; replacement ids; crash reports (test id, worker); group counter *)
Example gsx_run :
  csx_summary (gsx_cfg false (fun _ _ => false)) (rounds 100 crx_round) =
  (Some RFinished, [], [(0, [3; 4; 5; 6]); (1, [0; 1; 2; 7; 5; 6]); (2, [])], [2], [("b::2", 0)], 3).
Proof. vm_compute. reflexivity. Qed.
(* worker 0 is written off when its undecodable report is read (no process died: y_dead = []); the crash report
   names "b::2", the test with the undecodable report; the rest [5; 6] of file b goes back to the queue and is run
   by worker 1 -- and ALSO by the written-off worker 0, which goes on running: tests 5 and 6 are started twice
   (the recorded finding of the real code, as for load in GarbledTheorems.v; not a theorem target). *)

(* an undecodable report AND a process that dies (worker 1 on entering test 1 = "a::2") *)
Example gsx_run_crash :
  csx_summary (gsx_cfg false (fun n i => Nat.eqb n 1 && Nat.eqb i 1)) (rounds 100 crx_round) =
  (Some RFinished, [1], [(0, [3; 4; 5; 6]); (1, [0]); (2, [7; 2; 5; 6]); (3, [])], [2; 3],
   [("a::2", 1); ("b::2", 0)], 4).
Proof. vm_compute. reflexivity. Qed.

(* closed channels (c_strict) *)
Example gsx_run_strict :
  csx_summary (gsx_cfg true (fun _ _ => false)) (rounds 100 crx_round) =
  (Some RFinished, [], [(0, [3; 4; 5; 6]); (1, [0; 1; 2; 7; 5; 6]); (2, [])], [2], [("b::2", 0)], 3).
Proof. vm_compute. reflexivity. Qed.
