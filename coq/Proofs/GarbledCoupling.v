(* GarbledCoupling.v -- --dist load WITH worker crashes AND undecodable ("garbled") reports:
   the system invariant GInv, obtained from the crash invariant XInv (CrashTheorems.v) by a GHOST
   system state.

   In the ghost state sg of a real state s
     - the controller, its event queue and the result are the same as in s;
     - a worker that has not sent a garbled report is IN SYNC: same wires, same process state (up to
       the cleaning of the script of the running test: the ghost runs the de-garbled oracle);
     - a worker whose garbled report is on its up-wire or has been read (WRITTEN OFF) is DEAD in the
       ghost: it "died" when it sent the garbled report; its ghost up-wire is the audible prefix of the
       real one followed by the end marker (as long as the receiver thread has not read the garbled
       report), and empty afterwards.
   XInv holds for the ghost (for a configuration with the de-garbled oracle), so every statement of XInv
   about dead workers holds for written-off ones.  *)
From XV Require Import Base Worker Ctl SchedLoad SchedSteal SchedScope SchedEach Sched DSession System
  NoHook DSessionProofs WorkerProofs LoadProofs FifoProofs ExactlyOnce Coupling CrashCoupling CrashTheorems.
From Coq Require Import Permutation.
Open Scope nat_scope.

(* ====================================================================================== *)
(* 1. the de-garbled worker                                                                *)
(* ====================================================================================== *)
Definition dgoc (oc : outcome) : outcome := match oc with Garbled => Passed | x => x end.
Definition dge (e : wevent) : wevent :=
  match e with EReport i k oc => EReport i k (dgoc oc) | x => x end.
Definition dgph (p : phase) : phase :=
  match p with PRun cur nxt sc => PRun cur nxt (map dge sc) | x => x end.
Definition dgw (w : wst) : wst := upd_ph w (dgph (wph w)).
Definition dgo (o : oracle) : oracle :=
  {| reports_of := fun i => map dgoc (reports_of o i); stops_after := stops_after o;
     ncollected := ncollected o; coll_reports := coll_reports o |}.

Lemma dgo_nogarbled o i : ~ In Garbled (reports_of (dgo o) i).
Proof.
  cbn. intros H. apply in_map_iff in H. destruct H as (x & E & _). destruct x; discriminate.
Qed.

Lemma combine_map_r {A B C} (f : B -> C) : forall (l1 : list A) (l2 : list B),
  combine l1 (map f l2) = map (fun p => (fst p, f (snd p))) (combine l1 l2).
Proof. induction l1 as [|a l1 IH]; intros [|b l2]; cbn; try reflexivity. rewrite IH. reflexivity. Qed.

Lemma script_of_dgo o i : script_of (dgo o) i = map dge (script_of o i).
Proof.
  unfold script_of. cbn [reports_of dgo]. rewrite map_length, combine_map_r.
  cbn [app map dge]. f_equal. rewrite map_app, !map_map. cbn [map dge]. f_equal.
Qed.

Lemma dgw_init : dgw w_init = w_init.
Proof. reflexivity. Qed.

Lemma wph_dgw w : wph (dgw w) = dgph (wph w).
Proof. reflexivity. Qed.

Lemma dgw_deliver w c : deliver (dgw w) c = dgw (deliver w c).
Proof. reflexivity. Qed.

Lemma tl_map {A B} (f : A -> B) l : tl (map f l) = map f (tl l).
Proof. destruct l; reflexivity. Qed.

Lemma main_step_dgw o w :
  main_step (dgo o) (dgw w) =
  match main_step o w with Some (w', evs) => Some (dgw w', map dge evs) | None => None end.
Proof.
  destruct w as [q fl ph cb ib rp rep nt ran puts st pop].
  unfold main_step, dgw. cbn [wph upd_ph wq wcb].
  destruct ph as [|rest| | |cur|cur nxt|cur nxt sc|b|]; cbn [dgph]; try reflexivity.
  - destruct rest as [|[k f] rest]; reflexivity.
  - destruct q as [|[t [i|]] q']; [destruct cb|..]; reflexivity.
  - destruct q as [|nxt q']; reflexivity.
  - rewrite script_of_dgo, tl_map. reflexivity.
  - destruct sc as [|e sc]; cbn [map]; [|reflexivity].
    cbn [stops_after dgo]. destruct (stops_after o (snd cur)); [reflexivity|]. destruct (snd nxt); reflexivity.
Qed.

Lemma recv_next_dgw o inbox : forall w, recv_next (dgo o) (dgw w) inbox = dgw (recv_next o w inbox).
Proof.
  induction inbox as [|c r IH]; intros w; cbn [recv_next]; [reflexivity|].
  destruct c as [ixs| |s| |]; try reflexivity.
  - destruct ixs; [apply IH|reflexivity].
  - cbn [ncollected dgo]. destruct (seq 0 (ncollected o)); [apply IH|reflexivity].
  - unfold w_steal, dgw. cbn [wq upd_ph]. destruct (steal_q (wq w) s). reflexivity.
Qed.

Lemma recv_step_dgw o w :
  recv_step (dgo o) (dgw w) = (dgw (fst (recv_step o w)), snd (recv_step o w)).
Proof.
  destruct w as [q fl ph cb ib rp rep nt ran puts st pop].
  unfold recv_step, dgw. cbn [wcb upd_ph wreply wrpend upd_recv winbox wph].
  destruct (negb cb); [reflexivity|].
  destruct rp as [|it rest]; cbn [fst snd].
  - f_equal.
    exact (recv_next_dgw o ib (upd_recv {| wq := q; wflag := fl; wph := ph; wcb := cb; winbox := ib; wrpend := [];
             wreply := rep; wntag := nt; wran := ran; wputs := puts; wstolen := st; wpopped := pop |} ib [] None)).
  - reflexivity.
Qed.

Lemma dies_now_dgw c n w : dies_now c n (dgw w) = dies_now c n w.
Proof. unfold dies_now. rewrite wph_dgw. destruct (wph w); reflexivity. Qed.

Lemma main_step_one o w w' evs : main_step o w = Some (w', evs) -> evs = [] \/ exists e, evs = [e].
Proof.
  unfold main_step. intros H.
  destruct (wph w) as [|rest| | |cur|cur nxt|cur nxt sc|b|]; try (inv H; eauto; fail).
  - destruct rest as [|[k f] rest]; inv H; eauto.
  - destruct (wq w) as [|[t [i|]] q']; [destruct (wcb w)|..]; inv H; eauto.
  - destruct (wq w) as [|nxt q']; inv H; eauto.
  - destruct sc; inv H; eauto.
Qed.

Lemma garbled_up c n e : is_garbled e = true -> up_of_wevent c n e = UBad.
Proof. destruct e; try discriminate. destruct oc; try discriminate. reflexivity. Qed.

Lemma dge_not_garbled e : is_garbled (dge e) = false.
Proof. destruct e; try reflexivity. destruct oc; reflexivity. Qed.

Lemma dge_id e : is_garbled e = false -> dge e = e.
Proof. destruct e; try reflexivity. destruct oc; try reflexivity. discriminate. Qed.

(* ====================================================================================== *)
(* 2. the ghost configuration; flag changes on a dead node                                 *)
(* ====================================================================================== *)
(* the ghost configuration: de-garbled oracles; the collections agree with the real ones for every
   id below the bound B (no run of at most B - numnodes steps creates a larger id) and differ above:
   this switches off the facts of XInv that are conditional on "all workers collect the same list" *)
Definition gcoll (c : config) (B : nat) (n : nat) : list string :=
  if n <? B then c_coll c n else ""%string :: c_coll c 0.
Definition gcfg (c : config) (B : nat) (strict : bool) : config :=
  {| c_mode := c_mode c; c_numnodes := c_numnodes c; c_chunk := c_chunk c; c_maxfail := c_maxfail c;
     c_max_restart := c_max_restart c; c_requeue := c_requeue c; c_coll := gcoll c B;
     c_oracle := fun n => dgo (c_oracle c n); c_dur := c_dur c; c_crash_in := c_crash_in c;
     c_strict := strict; c_spec := c_spec c |}.

Lemma gcfg_not_same c B b : 0 < B -> ~ SAME (c_coll (gcfg c B b)).
Proof.
  intros HB HS. specialize (HS B). cbn [c_coll gcfg] in HS. unfold gcoll in HS.
  rewrite Nat.ltb_irrefl in HS. apply Nat.ltb_lt in HB. rewrite HB in HS.
  apply (f_equal (@length string)) in HS. cbn in HS. lia.
Qed.

Lemma XInv_cfg c1 c2 s :
  c_numnodes c1 = c_numnodes c2 -> c_coll c1 = c_coll c2 -> XInv c1 s -> XInv c2 s.
Proof.
  intros E1 E2 [A1 A2 A3 A4 A5 A6 A7 A8]. constructor; rewrite <- ?E1, <- ?E2; assumption.
Qed.

Lemma gcoll_lt c B n : n < B -> gcoll c B n = c_coll c n.
Proof. intros H. unfold gcoll. apply Nat.ltb_lt in H. rewrite H. reflexivity. Qed.

Lemma up_of_wevent_g c B b n e :
  n < B -> is_garbled e = false -> up_of_wevent (gcfg c B b) n (dge e) = up_of_wevent c n e.
Proof.
  intros Hn Hg. rewrite (dge_id e Hg). destruct e; try reflexivity.
  cbn. rewrite gcoll_lt by exact Hn. reflexivity.
Qed.

Section Flags.
Variable c : config.
Hypothesis Hpos : 0 < c_numnodes c.
Notation N := (c_numnodes c).
Notation X0 := (c_coll c).

(* the closed flag of a dead node may change *)
Lemma XInv_dead_flag s n f f' :
  XInv c s -> mem_nat n (y_dead s) = true -> aget n (d_nt (y_d s)) = Some f ->
  n_sdsent f' = n_sdsent f -> n_down f' = n_down f ->
  XInv c (set_d s (d_set_nt (y_d s) (aset n f' (d_nt (y_d s))))).
Proof.
  intros X Hd Ef Hs Hdn. pose proof X as [Lo Hi (ls & DJd & NIs) Eq Eu Ea Er Edead].
  pose proof DJd as ([Els J _ _ _ _ _ _ _ _] & _).
  assert (Ent : d_nt (y_d s) = l_nt ls) by (unfold d_nt; rewrite Els; reflexivity).
  set (s' := set_d s (d_set_nt (y_d s) (aset n f' (d_nt (y_d s))))).
  assert (Ef' : aget n (l_nt ls) = Some f) by (rewrite <- Ent; exact Ef).
  constructor.
  - exact Lo.
  - exact Hi.
  - exists (upd_flag ls n f'). split; [apply (DJ'_flag N X0 _ ls n f); auto|].
    intros k w Hw. change (y_w s') with (y_w s) in Hw. destruct (Nat.eq_dec k n) as [->|Hk].
    + destruct (NIs n w Hw) as (A & B & C & D). split; [exact A|]. split; [exact B|]. split; [exact C|].
      change (y_dead s') with (y_dead s). rewrite Hd in *. destruct D as [D1 D2 D3].
      constructor.
      * change (sigs s' n) with (sigs s n). eapply NDc_ext; [| |exact D1]; reflexivity.
      * destruct D2 as [pre g X1 X2 X3 X4 X5 X6 X7|q1 q2 X1 X2 X3 X4 X5 X6 X7|X1 X2 X3 X4 X5].
        -- eapply (DS_wire _ _ _ _ pre f'); eauto.
           ++ rewrite aget_upd_flag, Nat.eqb_refl. reflexivity.
           ++ rewrite Hdn. congruence.
        -- eapply (DS_queue _ _ _ _ q1 q2); eauto.
        -- eapply DS_done; eauto.
      * exact D3.
    + apply (NodeInv_other s s' ls (upd_flag ls n f') k w []); auto; try apply no_errd_nil.
      * rewrite aget_upd_flag. apply Nat.eqb_neq in Hk. rewrite Hk. reflexivity.
      * cbn. rewrite app_nil_r. reflexivity.
  - exact Eq.
  - exact Eu.
  - exact Ea.
  - exact Er.
  - exact Edead.
Qed.

(* the receiver thread tells a (ghost-)dead worker, which was running a test, to shut down *)
Lemma XInv_dead_sdsent s n f wg cur nxt sc :
  ~ SAME X0 ->
  XInv c s -> mem_nat n (y_dead s) = true -> alist_get [] n (y_up s) <> [] ->
  aget n (y_w s) = Some wg -> wph wg = PRun cur nxt sc ->
  aget n (d_nt (y_d s)) = Some f ->
  XInv c (set_d s (d_set_nt (y_d s) (aset n (sd_mark f) (d_nt (y_d s))))).
Proof.
  intros NS X Hd Hup Hw Hph Ef. pose proof X as [Lo Hi (ls & DJd & NIs) Eq Eu Ea Er Edead].
  pose proof DJd as ([Els J Jb K1 RS K2 EX RQ AL FN] & Jss & Jemp & Jmis).
  assert (Ent : d_nt (y_d s) = l_nt ls) by (unfold d_nt; rewrite Els; reflexivity).
  set (f' := sd_mark f).
  set (s' := set_d s (d_set_nt (y_d s) (aset n f' (d_nt (y_d s))))).
  assert (Ef' : aget n (l_nt ls) = Some f) by (rewrite <- Ent; exact Ef).
  assert (Hdn : n_down f' = n_down f) by reflexivity.
  (* the collection is complete: the node has a book *)
  assert (CC : l_collection_is_completed ls = true).
  { destruct (NIs n wg Hw) as (_ & _ & _ & D). rewrite Hd in D. destruct D as [_ D2 _].
    destruct D2 as [pre g X1 X2 X3 X4 X5 X6 (lost & X7)|q1 q2 X1 _ _ _ _ _ _|X1 _ _ _ _]; try contradiction.
    apply (lj_cc' _ _ _ _ J).
    unfold owed_w, owed_main in X7. rewrite Hph in X7.
    destruct (bk ls n) as [|i rest] eqn:Eb.
    - exfalso. symmetry in X7. apply app_eq_nil in X7. destruct X7 as (_ & X7). discriminate.
    - eapply books_nonempty_coll; [exact J|]. apply bk_cons'. exact Eb. }
  assert (KEY : forall m, aget m (l_nt (upd_flag ls n f')) <> None <-> aget m (l_nt ls) <> None).
  { intros m. rewrite aget_upd_flag. destruct (Nat.eqb m n) eqn:E; [|reflexivity].
    apply Nat.eqb_eq in E. subst m. rewrite Ef'. split; intros; discriminate. }
  constructor.
  - exact Lo.
  - exact Hi.
  - exists (upd_flag ls n f'). split.
    + unfold s'. cbn [set_d y_d]. unfold d_set_nt. split; [|split; [exact Jss|split; [exact Jemp|exact Jmis]]].
      constructor; cbn [d_set_sched d_sched d_next_gw d_shouldstop d_shuttingdown d_active d_requeue d_failed_nodes].
      * unfold d_nt. rewrite Els. reflexivity.
      * destruct J as [A1 A2 A3 A4 A5 A6 A7 A8 A9 A10 A11 A12]. constructor; auto.
        intros m. rewrite KEY. apply A2.
      * exact Jb.
      * intros Hc. exfalso. change (l_collection_is_completed (upd_flag ls n f')) with (l_collection_is_completed ls) in Hc.
        congruence.
      * exact RS.
      * intros HS. contradiction.
      * exact EX.
      * exact RQ.
      * exact AL.
      * exact FN.
    + intros k w Hw'. change (y_w s') with (y_w s) in Hw'. destruct (Nat.eq_dec k n) as [->|Hk].
      * destruct (NIs n w Hw') as (A & B & C & D). split; [exact A|]. split; [exact B|]. split; [exact C|].
        change (y_dead s') with (y_dead s). rewrite Hd in *. destruct D as [D1 D2 D3].
        constructor.
        -- change (sigs s' n) with (sigs s n). eapply NDc_ext; [| |exact D1]; reflexivity.
        -- destruct D2 as [pre g X1 X2 X3 X4 X5 X6 X7|q1 q2 X1 X2 X3 X4 X5 X6 X7|X1 X2 X3 X4 X5].
           ++ eapply (DS_wire _ _ _ _ pre f'); eauto.
              ** rewrite aget_upd_flag, Nat.eqb_refl. reflexivity.
              ** rewrite Hdn. congruence.
           ++ eapply (DS_queue _ _ _ _ q1 q2); eauto.
           ++ eapply DS_done; eauto.
        -- exact D3.
      * apply (NodeInv_other s s' ls (upd_flag ls n f') k w []); auto; try apply no_errd_nil.
        -- rewrite aget_upd_flag. apply Nat.eqb_neq in Hk. rewrite Hk. reflexivity.
        -- cbn. rewrite app_nil_r. reflexivity.
  - exact Eq.
  - exact Eu.
  - exact Ea.
  - exact Er.
  - exact Edead.
Qed.
End Flags.

(* ====================================================================================== *)
(* 3. the ghost relation                                                                   *)
(* ====================================================================================== *)
(* a worker in sync with its ghost *)
Record SyncN (s sg : sys) (n : nat) : Prop := {
  sy_w : aget n (y_w sg) = option_map dgw (aget n (y_w s));
  sy_dn : alist_get [] n (y_down sg) = alist_get [] n (y_down s);
  sy_up : alist_get [] n (y_up sg) = alist_get [] n (y_up s);
  sy_dead : mem_nat n (y_dead sg) = mem_nat n (y_dead s);
}.
(* a WRITTEN-OFF worker: its ghost died (while running a test) when the garbled report was sent.
   (a) the garbled report is still on the wire (the node is not down yet): the ghost wire is the audible
       prefix followed by the end marker;
   (b) the receiver thread has read it (the node is down): the ghost wire is empty; nothing is required
       of the real wire, of the real process, of the real wire down. *)
Record WoN (s sg : sys) (n : nat) : Prop := {
  wo_w : aget n (y_w s) <> None;
  wo_g : exists wg cur nxt sc, aget n (y_w sg) = Some wg /\ wph wg = PRun cur nxt sc;
  wo_dead : mem_nat n (y_dead sg) = true;
  wo_st : (dn n (y_d s) = false /\ exists pre post, alist_get [] n (y_up s) = pre ++ UBad :: post /\
                                     alist_get [] n (y_up sg) = pre ++ [UEnd]) \/
          (dn n (y_d s) = true /\ alist_get [] n (y_up sg) = []);
}.
Record GR (s sg : sys) (wo : list nat) : Prop := {
  gr_d : y_d sg = y_d s;
  gr_q : y_evq sg = y_evq s;
  gr_r : y_result sg = y_result s;
  gr_wo : forall n, In n wo -> WoN s sg n;
  gr_sy : forall n, ~ In n wo -> SyncN s sg n;
}.

Definition same_at (s s' : sys) (n : nat) : Prop :=
  aget n (y_w s') = aget n (y_w s) /\ alist_get [] n (y_down s') = alist_get [] n (y_down s) /\
  alist_get [] n (y_up s') = alist_get [] n (y_up s) /\ mem_nat n (y_dead s') = mem_nat n (y_dead s).

Lemma same_at_refl s n : same_at s s n.
Proof. unfold same_at. auto. Qed.

Lemma SyncN_ext s sg s' sg' n : same_at s s' n -> same_at sg sg' n -> SyncN s sg n -> SyncN s' sg' n.
Proof.
  intros (A1 & A2 & A3 & A4) (B1 & B2 & B3 & B4) [C1 C2 C3 C4].
  constructor; congruence.
Qed.

Lemma WoN_ext s sg s' sg' n :
  (aget n (y_w s) <> None -> aget n (y_w s') <> None) ->
  aget n (y_w sg') = aget n (y_w sg) ->
  mem_nat n (y_dead sg') = mem_nat n (y_dead sg) ->
  dn n (y_d s') = dn n (y_d s) ->
  (dn n (y_d s) = false -> exists suf, alist_get [] n (y_up s') = alist_get [] n (y_up s) ++ suf) ->
  alist_get [] n (y_up sg') = alist_get [] n (y_up sg) ->
  WoN s sg n -> WoN s' sg' n.
Proof.
  intros H1 H2 H3 H4 H5 H6 [A B C D]. constructor.
  - auto.
  - rewrite H2. exact B.
  - rewrite H3. exact C.
  - rewrite H4, H6. destruct D as [(D1 & pre & post & D2 & D3)|D]; [left|right; exact D].
    split; [exact D1|]. destruct (H5 D1) as (suf & E). exists pre, (post ++ suf).
    split; [|exact D3]. rewrite E, D2, <- app_assoc. reflexivity.
Qed.

Lemma WoN_same s sg s' sg' n :
  same_at s s' n -> same_at sg sg' n -> dn n (y_d s') = dn n (y_d s) -> WoN s sg n -> WoN s' sg' n.
Proof.
  intros (A1 & A2 & A3 & A4) (B1 & B2 & B3 & B4) Hd. apply WoN_ext; auto.
  - rewrite A1. auto.
  - intros _. exists []. rewrite app_nil_r. exact A3.
Qed.

(* a step that concerns one node only *)
Lemma GR_local s sg wo s' sg' wo' n0 :
  GR s sg wo ->
  y_d sg' = y_d s' -> y_evq sg' = y_evq s' -> y_result sg' = y_result s' ->
  (forall k, k <> n0 -> dn k (y_d s') = dn k (y_d s)) ->
  (forall n, n <> n0 -> same_at s s' n) -> (forall n, n <> n0 -> same_at sg sg' n) ->
  (forall n, n <> n0 -> (In n wo' <-> In n wo)) ->
  (In n0 wo' -> WoN s' sg' n0) -> (~ In n0 wo' -> SyncN s' sg' n0) ->
  GR s' sg' wo'.
Proof.
  intros [G1 G2 G3 G4 G5] E1 E2 E3 Hdn Hs Hg Hwo Hw Hy. constructor; auto.
  - intros n Hn. destruct (Nat.eq_dec n n0) as [->|Hne]; [auto|].
    apply (WoN_same s sg); auto. apply G4. apply Hwo; auto.
  - intros n Hn. destruct (Nat.eq_dec n n0) as [->|Hne]; [auto|].
    apply (SyncN_ext s sg); auto. apply G5. intros F. apply Hn. apply Hwo; auto.
Qed.

Lemma alist_get_cons_aget {V} n (m : amap (list V)) x l : alist_get [] n m = x :: l -> aget n m = Some (x :: l).
Proof. unfold alist_get. destruct (aget n m); intros E; [congruence|discriminate]. Qed.

Lemma set_d_same s : set_d s (y_d s) = s.
Proof. destruct s; reflexivity. Qed.

Lemma mem_nat_cons_neq n n0 l : n <> n0 -> mem_nat n (n0 :: l) = mem_nat n l.
Proof. intros H. rewrite mem_nat_cons. apply Nat.eqb_neq in H. rewrite H. reflexivity. Qed.

Lemma dn_crash c s n0 k : dn k (y_d (crash_worker c s n0)) = dn k (y_d s).
Proof. apply dn_same_sig. apply crash_d. Qed.

Ltac same_tac Hn :=
  unfold same_at, crash_worker, push_up, set_w, set_d, set_evq;
  cbn [y_w y_down y_up y_dead y_d y_evq];
  rewrite ?aget_aset_neq, ?alist_get_aset_neq, ?mem_nat_cons_neq by exact Hn; auto.

Definition GInv (c : config) (B : nat) (s : sys) : Prop :=
  exists sg wo, XInv (gcfg c B (c_strict c)) sg /\ GR s sg wo.

Section Steps.
Variable c : config.
Variable B : nat.
Hypothesis Hpos : 0 < c_numnodes c.
Notation cg := (gcfg c B (c_strict c)).

Lemma g_deliver s n0 cmd rest w0 :
  GInv c B s -> mem_nat n0 (y_dead s) = false ->
  aget n0 (y_down s) = Some (cmd :: rest) -> aget n0 (y_w s) = Some w0 ->
  GInv c B {| y_d := y_d s; y_evq := y_evq s; y_down := aset n0 rest (y_down s); y_up := y_up s;
              y_w := aset n0 (deliver w0 cmd) (y_w s); y_dead := y_dead s; y_result := y_result s |}.
Proof.
  intros (sg & wo & X & R) Hd Ed Ew. pose proof R as [G1 G2 G3 G4 G5].
  destruct (in_dec Nat.eq_dec n0 wo) as [Hin|Hni].
  - exists sg, wo. split; [exact X|].
    apply (GR_local s sg wo _ sg wo n0 R); auto.
    + intros n Hn. same_tac Hn.
    + intros n Hn. apply same_at_refl.
    + tauto.
    + intros _. apply (WoN_ext s sg); auto; cbn [y_w y_d y_up].
      * intros _. rewrite aget_aset_eq. discriminate.
      * intros _. exists []. rewrite app_nil_r. reflexivity.
    + contradiction.
  - destruct (G5 n0 Hni) as [S1 S2 S3 S4]. rewrite Ew in S1. cbn in S1. rewrite Hd in S4.
    rewrite (alist_get_some [] _ _ _ Ed) in S2. apply alist_get_cons_aget in S2.
    eexists. exists wo. split; [exact (step_deliver cg Hpos sg n0 cmd rest (dgw w0) X S4 S2 S1)|].
    apply (GR_local s sg wo _ _ wo n0 R); auto.
    + intros n Hn. same_tac Hn.
    + intros n Hn. same_tac Hn.
    + tauto.
    + contradiction.
    + intros _. constructor; cbn [y_w y_down y_up y_dead]; rewrite ?aget_aset_eq, ?alist_get_aset_eq; auto.
      all: first [exact S3 | apply (sy_dead _ _ _ (G5 n0 Hni)) | reflexivity].
Qed.

(* a written-off worker says something: nobody listens *)
Lemma g_push_wo s sg wo n0 w' ms :
  GR s sg wo -> In n0 wo -> GR (push_up (set_w s n0 w') n0 ms) sg wo.
Proof.
  intros R Hin. pose proof R as [G1 G2 G3 G4 G5]. apply (GR_local s sg wo _ sg wo n0 R); auto.
  - intros n Hn. same_tac Hn.
  - intros n Hn. apply same_at_refl.
  - tauto.
  - intros _. apply (WoN_ext s sg); auto; cbn [push_up set_w y_w y_d y_up]; try apply (gr_wo _ _ _ R _ Hin).
    + intros _. rewrite aget_aset_eq. discriminate.
    + intros _. exists ms. rewrite alist_get_aset_eq. reflexivity.
  - contradiction.
Qed.

Lemma g_push_sync s sg wo n0 w' evs evsg :
  GR s sg wo -> ~ In n0 wo ->
  map (up_of_wevent cg n0) evsg = map (up_of_wevent c n0) evs ->
  GR (push_up (set_w s n0 w') n0 (map (up_of_wevent c n0) evs))
     (push_up (set_w sg n0 (dgw w')) n0 (map (up_of_wevent cg n0) evsg)) wo.
Proof.
  intros R Hni E. rewrite E. pose proof R as [G1 G2 G3 G4 G5].
  apply (GR_local s sg wo _ _ wo n0 R); auto.
  - intros n Hn. same_tac Hn.
  - intros n Hn. same_tac Hn.
  - tauto.
  - contradiction.
  - intros _. destruct (G5 n0 Hni) as [S1 S2 S3 S4].
    constructor; cbn [push_up set_w y_w y_down y_up y_dead]; rewrite ?aget_aset_eq, ?alist_get_aset_eq; auto.
    rewrite S3. reflexivity.
Qed.

(* the real process of a worker dies *)
Lemma g_crash s n0 w0 :
  GInv c B s -> mem_nat n0 (y_dead s) = false -> aget n0 (y_w s) = Some w0 -> wph w0 <> PExited ->
  GInv c B (crash_worker c s n0).
Proof.
  intros (sg & wo & X & R) Hd Ew Hph. pose proof R as [G1 G2 G3 G4 G5].
  destruct (in_dec Nat.eq_dec n0 wo) as [Hin|Hni].
  - (* a written-off worker dies: only its closed flag may change *)
    assert (XD : XInv cg (set_d sg (y_d (crash_worker c s n0)))).
    { unfold crash_worker. cbn [y_d]. destruct (c_strict c); [|rewrite <- G1; rewrite set_d_same; exact X].
      destruct (aget n0 (d_nt (y_d s))) as [f|] eqn:Ef; [|rewrite <- G1; rewrite set_d_same; exact X].
      rewrite <- G1 in *. apply XInv_dead_flag with (f := f); auto. apply (wo_dead _ _ _ (G4 n0 Hin)). }
    exists (set_d sg (y_d (crash_worker c s n0))), wo. split; [exact XD|].
    apply (GR_local s sg wo _ _ wo n0 R); auto.
    + intros k _. apply dn_crash.
    + intros n Hn. same_tac Hn.
    + intros n Hn. same_tac Hn.
    + tauto.
    + intros _. apply (WoN_ext s sg); auto; try apply (G4 n0 Hin).
      * apply dn_crash.
      * intros _. exists [UEnd]. unfold crash_worker. cbn [y_up]. apply alist_get_aset_eq.
    + contradiction.
  - destruct (G5 n0 Hni) as [S1 S2 S3 S4]. rewrite Ew in S1. cbn in S1. rewrite Hd in S4.
    assert (Hph' : wph (dgw w0) <> PExited) by (rewrite wph_dgw; destruct (wph w0); cbn; congruence).
    exists (crash_worker cg sg n0), wo. split; [exact (step_crash cg Hpos sg n0 (dgw w0) X S4 S1 Hph')|].
    apply (GR_local s sg wo _ _ wo n0 R); auto.
    + unfold crash_worker. cbn [y_d c_strict gcfg]. rewrite G1. reflexivity.
    + intros k _. apply dn_crash.
    + intros n Hn. same_tac Hn.
    + intros n Hn. same_tac Hn.
    + tauto.
    + contradiction.
    + intros _. unfold crash_worker. constructor; cbn [y_w y_down y_up y_dead]; rewrite ?alist_get_aset_eq; auto.
      * rewrite S1, Ew. reflexivity.
      * rewrite S3. reflexivity.
      * rewrite !mem_nat_cons, Nat.eqb_refl. reflexivity.
Qed.
End Steps.

(* ====================================================================================== *)
(* 4. worker steps                                                                         *)
(* ====================================================================================== *)
Lemma main_step_garbled o w w' e :
  main_step o w = Some (w', [e]) -> is_garbled e = true -> exists cur nxt sc, wph w = PRun cur nxt (e :: sc).
Proof.
  unfold main_step. intros H Hg.
  destruct (wph w) as [|rest| | |cur|cur nxt|cur nxt sc|b|]; try (inv H; discriminate).
  - destruct rest as [|[k f] rest]; inv H; discriminate.
  - destruct (wq w) as [|[t [i|]] q']; [destruct (wcb w)|..]; inv H.
  - destruct (wq w) as [|nxt q']; inv H.
  - destruct sc as [|e' sc]; inv H; [discriminate|]. eauto.
Qed.

Section Steps2.
Variable c : config.
Variable B : nat.
Hypothesis Hpos : 0 < c_numnodes c.
Notation cg := (gcfg c B (c_strict c)).

Lemma g_recvw s n0 w0 w' evs :
  GInv c B s -> mem_nat n0 (y_dead s) = false -> aget n0 (y_w s) = Some w0 ->
  recv_step (c_oracle c n0) w0 = (w', evs) ->
  GInv c B (push_up (set_w s n0 w') n0 (map (up_of_wevent c n0) evs)).
Proof.
  intros (sg & wo & X & R) Hd Ew Es. pose proof R as [G1 G2 G3 G4 G5].
  destruct (in_dec Nat.eq_dec n0 wo) as [Hin|Hni].
  - exists sg, wo. split; [exact X|apply g_push_wo; auto].
  - destruct (G5 n0 Hni) as [S1 S2 S3 S4]. rewrite Ew in S1. cbn in S1. rewrite Hd in S4.
    pose proof X as [Lo Hi (ls & DJd & NIs) Eq Eu Ea Er Edead].
    destruct (NIs n0 (dgw w0) S1) as (Iw & Gw & NGw & D). rewrite S4 in D. destruct D as [D1 _ _ _ _ _].
    set (o' := dgo (c_oracle c n0)).
    assert (Es' : recv_step o' (dgw w0) = (dgw w', evs)).
    { unfold o'. rewrite recv_step_dgw, Es. reflexivity. }
    destruct (NI_recv o' _ _ _ _ _ _ _ Gw D1) as (Ev & Xn). rewrite Es' in Ev, Xn. cbn [fst snd] in Ev, Xn. subst evs.
    destruct (recv_step_nogarb _ _ _ _ Es' NGw) as (NG1 & NG2).
    exists (push_up (set_w sg n0 (dgw w')) n0 (map (up_of_wevent cg n0) [])), wo. split.
    + apply step_push with (w0 := dgw w0); auto.
      * pose proof (recv_step_inv o' (dgw w0) Iw) as I1. rewrite Es' in I1. exact I1.
      * pose proof (recv_step_tokens o' (dgw w0) Gw) as (_ & G1'). rewrite Es' in G1'. exact G1'.
      * intros ls1 Y. cbn [flat_map]. rewrite app_nil_r.
        destruct (NI_recv o' _ _ _ _ _ _ _ Gw Y) as (_ & Z). rewrite Es' in Z. exact Z.
      * intros Hex. split; [|reflexivity]. rewrite (proj1 (recv_step_facts _ _ _ _ Es')). exact Hex.
    + apply (g_push_sync c B s sg wo n0 w' [] []); auto.
Qed.

Lemma g_main s n0 w0 w' evs :
  GInv c B s -> d_next_gw (y_d s) <= B -> mem_nat n0 (y_dead s) = false -> aget n0 (y_w s) = Some w0 ->
  main_step (c_oracle c n0) w0 = Some (w', evs) ->
  GInv c B (push_up (set_w s n0 w') n0 (map (up_of_wevent c n0) evs)).
Proof.
  intros (sg & wo & X & R) HB Hd Ew Es. pose proof R as [G1 G2 G3 G4 G5].
  destruct (in_dec Nat.eq_dec n0 wo) as [Hin|Hni].
  - exists sg, wo. split; [exact X|apply g_push_wo; auto].
  - destruct (G5 n0 Hni) as [S1 S2 S3 S4]. rewrite Ew in S1. cbn in S1. rewrite Hd in S4.
    pose proof X as [Lo Hi (ls & DJd & NIs) Eq Eu Ea Er Edead].
    pose proof (worker_lt cg sg n0 _ X S1) as HnG. rewrite G1 in HnG.
    destruct (NIs n0 (dgw w0) S1) as (Iw & Gw & NGw & D). rewrite S4 in D. destruct D as [D1 D2 D3 D4 D5 D6].
    set (o' := dgo (c_oracle c n0)).
    assert (Es' : main_step o' (dgw w0) = Some (dgw w', map dge evs)).
    { unfold o'. rewrite main_step_dgw, Es. reflexivity. }
    assert (GB : existsb is_garbled evs = false \/ exists e, evs = [e] /\ is_garbled e = true).
    { destruct (main_step_one _ _ _ _ Es) as [->|(e & ->)]; [left; reflexivity|]. cbn.
      destruct (is_garbled e) eqn:E; [right; eauto|left; reflexivity]. }
    destruct GB as [NGe|(e & -> & Ge)].
    + (* an ordinary event *)
      assert (NGf : Forall (fun e => is_garbled e = false) evs).
      { apply Forall_forall. intros e He. destruct (is_garbled e) eqn:E; [|reflexivity].
        assert (existsb is_garbled evs = true) by (apply existsb_exists; eauto). congruence. }
      destruct (NI_main _ _ _ _ _ _ _ _ _ _ Iw D1 Es') as (_ & Hok).
      destruct (main_step_nogarb _ _ _ _ (dgo_nogarbled (c_oracle c n0)) Es' NGw) as (NG1 & NG2).
      destruct (main_step_frame _ _ _ _ Es') as (_ & Einb & _).
      exists (push_up (set_w sg n0 (dgw w')) n0 (map (up_of_wevent cg n0) (map dge evs))), wo. split.
      * apply step_push with (w0 := dgw w0); auto.
        -- eapply main_step_inv; eauto.
        -- rewrite Einb. exact Gw.
        -- intros ls1 Y. exact (proj1 (NI_main _ _ _ _ _ _ _ _ _ _ Iw Y Es')).
        -- intros Hex. exfalso. exact (main_step_not_exited _ _ _ _ Es' Hex).
      * apply g_push_sync; auto. rewrite map_map. apply map_ext_in. intros e He.
        apply up_of_wevent_g; [lia|]. rewrite Forall_forall in NGf; auto.
    + (* a garbled report: the worker will be written off; its ghost dies now *)
      destruct (main_step_garbled _ _ _ _ Es Ge) as (cur & nxt & sc & Ph).
      assert (DN : dn n0 (y_d s) = false).
      { rewrite <- G1. unfold dn. pose proof DJd as ([Els _ _ _ _ _ _ _ _ _] & _).
        assert (Ent : d_nt (y_d sg) = l_nt ls) by (unfold d_nt; rewrite Els; reflexivity). rewrite Ent.
        destruct (aget n0 (l_nt ls)) as [f|] eqn:Ef; [|reflexivity]. destruct (n_down f) eqn:Edn; [|reflexivity].
        destruct (D6 f eq_refl Edn) as (_ & P). rewrite wph_dgw, Ph in P. discriminate. }
      set (cg0 := gcfg c B false).
      assert (X0' : XInv cg0 sg) by (apply (XInv_cfg cg); [reflexivity|reflexivity|exact X]).
      assert (Hph' : wph (dgw w0) <> PExited) by (rewrite wph_dgw, Ph; discriminate).
      pose proof (step_crash cg0 Hpos sg n0 (dgw w0) X0' S4 S1 Hph') as XK.
      apply (XInv_cfg cg0 cg) in XK; [|reflexivity|reflexivity].
      exists (crash_worker cg0 sg n0), (n0 :: wo). split; [exact XK|].
      apply (GR_local s sg wo _ _ (n0 :: wo) n0 R); auto.
      * intros n Hn. same_tac Hn.
      * intros n Hn. same_tac Hn.
      * intros n Hn. cbn. split; [intros [F|F]; [congruence|exact F]|auto].
      * intros _. constructor.
        -- cbn [push_up set_w y_w]. rewrite aget_aset_eq. discriminate.
        -- exists (dgw w0), cur, nxt, (map dge (e :: sc)). split; [exact S1|rewrite wph_dgw, Ph; reflexivity].
        -- unfold crash_worker. cbn [y_dead]. rewrite mem_nat_cons, Nat.eqb_refl. reflexivity.
        -- left. split; [exact DN|]. exists (alist_get [] n0 (y_up s)), []. split.
           ++ cbn [push_up set_w y_up]. rewrite alist_get_aset_eq. cbn [map]. rewrite (garbled_up c n0 e Ge). reflexivity.
           ++ unfold crash_worker. cbn [y_up]. rewrite alist_get_aset_eq, S3. reflexivity.
      * intros F. exfalso. apply F. left. reflexivity.
Qed.
End Steps2.

(* ====================================================================================== *)
(* 5. the controller's main loop                                                           *)
(* ====================================================================================== *)
Lemma GR_apply_outs wo outs : forall s sg,
  GR s sg wo -> (forall id sp, In (OHook (HSpawn id sp)) outs -> ~ In id wo) ->
  GR (apply_outs s outs) (apply_outs sg outs) wo.
Proof.
  induction outs as [|x outs IH]; intros s sg R Hsp; [exact R|].
  assert (Hsp' : forall id sp, In (OHook (HSpawn id sp)) outs -> ~ In id wo)
    by (intros id sp H; apply (Hsp id sp); right; exact H).
  pose proof R as [G1 G2 G3 G4 G5].
  destruct x as [h|n cm| |]; cbn [apply_outs]; try (apply IH; assumption).
  - destruct h; try (apply IH; assumption).
    apply IH; [|exact Hsp'].
    assert (Hni : ~ In newid wo) by (apply (Hsp newid spec); left; reflexivity).
    apply (GR_local s sg wo _ _ wo newid R); auto.
    + intros n Hn. same_tac Hn.
    + intros n Hn. same_tac Hn.
    + tauto.
    + contradiction.
    + intros _. constructor; cbn [y_w y_down y_up y_dead]; rewrite ?aget_aset_eq, ?alist_get_aset_eq; auto.
      apply (sy_dead _ _ _ (G5 _ Hni)).
  - apply IH; [|exact Hsp'].
    destruct (in_dec Nat.eq_dec n wo) as [Hin|Hni].
    + rewrite (wo_dead _ _ _ (G4 n Hin)).
      destruct (mem_nat n (y_dead s)); [exact R|].
      apply (GR_local s sg wo _ sg wo n R); auto.
      * intros k Hk. same_tac Hk.
      * intros k Hk. apply same_at_refl.
      * tauto.
      * intros _. apply (WoN_ext s sg); auto; try apply (G4 n Hin).
        intros _. exists []. rewrite app_nil_r. reflexivity.
      * contradiction.
    + rewrite (sy_dead _ _ _ (G5 n Hni)). destruct (mem_nat n (y_dead s)) eqn:Hd; [exact R|].
      apply (GR_local s sg wo _ _ wo n R); auto.
      * intros k Hk. same_tac Hk.
      * intros k Hk. same_tac Hk.
      * tauto.
      * contradiction.
      * intros _. destruct (G5 n Hni) as [S1 S2 S3 S4].
        constructor; cbn [y_w y_down y_up y_dead]; rewrite ?alist_get_aset_eq; auto. rewrite S2. reflexivity.
Qed.

Lemma GR_set_dq s sg wo d' q :
  GR s sg wo -> (forall k, In k wo -> dn k d' = dn k (y_d s)) ->
  GR (set_d (set_evq s q) d') (set_d (set_evq sg q) d') wo.
Proof.
  intros [G1 G2 G3 G4 G5] Hdn. constructor; cbn [set_d set_evq y_d y_evq y_result]; auto.
  - intros n Hn. apply (WoN_same s sg); auto; try (unfold same_at; cbn; auto; fail).
  - intros n Hn. apply (SyncN_ext s sg); auto; unfold same_at; cbn; auto.
Qed.

Lemma GR_set_result s sg wo rr : GR s sg wo -> GR (set_result s rr) (set_result sg rr) wo.
Proof.
  intros [G1 G2 G3 G4 G5]. constructor; cbn [set_result y_d y_evq y_result]; auto.
  - intros n Hn. apply (WoN_same s sg); auto; unfold same_at; cbn; auto.
  - intros n Hn. apply (SyncN_ext s sg); auto; unfold same_at; cbn; auto.
Qed.

Section Steps3.
Variable c : config.
Variable B : nat.
Hypothesis Hpos : 0 < c_numnodes c.
Notation cg := (gcfg c B (c_strict c)).

Lemma wo_lt s sg wo k : XInv cg sg -> GR s sg wo -> In k wo -> k < d_next_gw (y_d s).
Proof.
  intros X R Hk. destruct (wo_g _ _ _ (gr_wo _ _ _ R k Hk)) as (wg & _ & _ & _ & Ewg & _).
  rewrite <- (gr_d _ _ _ R). exact (worker_lt cg sg k wg X Ewg).
Qed.

Lemma g_ctl s ev q d' outs r :
  GInv c B s -> y_result s = None -> y_evq s = ev :: q -> d_loop_once ev (y_d s) = (d', outs, r) ->
  r = Ok tt /\ d_next_gw d' <= S (d_next_gw (y_d s)) /\
  forall rr, (forall e, rr <> Some (RError e)) -> (rr = None -> d_active d' <> []) ->
    GInv c B (set_result (apply_outs (set_d (set_evq s q) d') outs) rr).
Proof.
  intros (sg & wo & X & R) Eres Eq El. pose proof R as [G1 G2 G3 G4 G5].
  rewrite <- G1 in El. rewrite <- G3 in Eres. rewrite <- G2 in Eq.
  destruct (step_ctl_core cg Hpos sg ev q d' outs r X Eres Eq El) as (-> & _ & CORE).
  pose proof (loop_once_step _ _ _ _ _ El) as SR.
  destruct (step_rel_spawn _ _ _ SR) as (GW & SPI).
  destruct (loop_once_fifo _ _ _ _ _ 0 El) as ((_ & _ & _ & RK) & _).
  split; [reflexivity|]. split.
  { destruct SR as (_ & _ & _ & [(_ & E)|(_ & E & _)]); rewrite E, G1; lia. }
  intros rr H1 H2. exists (set_result (apply_outs (set_d (set_evq sg q) d') outs) rr), wo.
  split; [apply CORE; auto|].
  apply GR_set_result. apply GR_apply_outs.
  - apply GR_set_dq; [exact R|]. intros k Hk. pose proof (wo_lt s sg wo k X R Hk) as Hlt.
    rewrite <- G1 in *. destruct (RK k) as [E|(E & _)]; [exact E|lia].
  - intros id sp Hin Hwo. destruct (SPI id sp Hin) as (A & _).
    pose proof (wo_lt s sg wo id X R Hwo) as Hlt. rewrite <- G1 in Hlt. lia.
Qed.
End Steps3.

(* ====================================================================================== *)
(* 6. the controller's receiver thread                                                     *)
(* ====================================================================================== *)
Lemma pfr_down n m d f : aget n (d_nt d) = Some f -> n_down f = true -> process_from_remote n m d = (d, [], Ok []).
Proof.
  intros Ef Hd. unfold process_from_remote. rewrite mbind_get, Ef. cbn [of_opt]. rewrite mbind_ret, Hd.
  destruct m; reflexivity.
Qed.

Lemma d_node_shutdown_ok n d f d' o r :
  aget n (d_nt d) = Some f -> d_node_shutdown n d = (d', o, r) ->
  r = Ok tt /\ ((d' = d /\ o = []) \/
                (d' = d_set_nt d (aset n (sd_mark f) (d_nt d)) /\ (o = [] \/ o = [OSend n CShutdown]))).
Proof.
  intros En H. unfold d_node_shutdown, node_shutdown, node_send, node_flags, mbind, get, put, of_opt, ret, raise, emit in H.
  cbn -[aset aget] in H. rewrite En in H. cbn -[aset aget] in H.
  destruct (n_down f || n_sdsent f) eqn:Esd; cbn -[aset aget] in H; [inversion H; auto|].
  rewrite En in H. cbn -[aset aget] in H.
  destruct (n_closed f) eqn:Ecl; cbn -[aset aget] in H; inversion H; subst; (split; [reflexivity|]); right;
    (split; [unfold sd_mark; rewrite Ecl; reflexivity|]); auto.
Qed.

Lemma pfr_bad n d f d1 o1 :
  aget n (d_nt d) = Some f -> n_down f = false -> d_node_shutdown n d = (d1, o1, Ok tt) ->
  forall f1, aget n (d_nt d1) = Some f1 -> n_down f1 = false ->
  forall d2 o2 r2, process_from_remote n UEnd d1 = (d2, o2, r2) ->
  process_from_remote n UBad d = (d2, o1 ++ o2, r2).
Proof.
  intros Ef Hd Hs f1 Ef1 Hd1 d2 o2 r2 H2. unfold process_from_remote in *.
  rewrite mbind_get, Ef. cbn [of_opt]. rewrite mbind_ret, Hd.
  rewrite mbind_get, Ef1 in H2. cbn [of_opt] in H2. rewrite mbind_ret, Hd1 in H2.
  unfold mbind at 1. rewrite Hs. rewrite mbind_get, Ef1. rewrite H2. reflexivity.
Qed.

Lemma ghost_wire c s n w : XInv c s -> mem_nat n (y_dead s) = true -> aget n (y_w s) = Some w ->
  alist_get [] n (y_up s) <> [] -> exists f, aget n (d_nt (y_d s)) = Some f /\ n_down f = false.
Proof.
  intros X Hd Hw Hup. pose proof X as [Lo Hi (ls & DJd & NIs) _ _ _ _ _].
  pose proof DJd as ([Els _ _ _ _ _ _ _ _ _] & _).
  destruct (NIs n w Hw) as (_ & _ & _ & D). rewrite Hd in D. destruct D as [_ D2 _].
  destruct D2 as [pre g X1 X2 X3 X4 _ _ _|q1 q2 X1 _ _ _ _ _ _|X1 _ _ _ _]; try contradiction.
  exists g. split; [|exact X4]. unfold d_nt. rewrite Els. exact X3.
Qed.

Lemma dn_of_flag n d f : aget n (d_nt d) = Some f -> dn n d = n_down f.
Proof. intros E. unfold dn. rewrite E. reflexivity. Qed.

Lemma GR_set_d s sg wo d' :
  GR s sg wo -> (forall k, dn k d' = dn k (y_d s)) -> GR (set_d s d') (set_d sg d') wo.
Proof.
  intros [G1 G2 G3 G4 G5] Hdn. constructor; cbn [set_d y_d y_evq y_result]; auto.
  - intros n Hn. apply (WoN_same s sg); auto; unfold same_at; cbn; auto.
  - intros n Hn. apply (SyncN_ext s sg); auto; unfold same_at; cbn; auto.
Qed.

Section Steps4.
Variable c : config.
Variable B : nat.
Hypothesis Hpos : 0 < c_numnodes c.
Notation cg := (gcfg c B (c_strict c)).

Lemma g_close s1 n0 : GInv c B s1 -> GInv c B (close_if_dead s1 n0).
Proof.
  intros (sg & wo & X & R). pose proof R as [G1 G2 G3 G4 G5].
  assert (DNK : forall f, aget n0 (d_nt (y_d s1)) = Some f -> n_down f = true -> forall k,
            dn k (d_set_nt (y_d s1) (aset n0 {| n_spec := n_spec f; n_down := true; n_sdsent := n_sdsent f;
                                                n_closed := true |} (d_nt (y_d s1)))) = dn k (y_d s1)).
  { intros f Ef Edn k. destruct (Nat.eq_dec k n0) as [->|Hk].
    - rewrite dn_aset_eq, (dn_of_flag _ _ _ Ef), Edn. reflexivity.
    - apply dn_aset_neq. exact Hk. }
  destruct (in_dec Nat.eq_dec n0 wo) as [Hin|Hni].
  - unfold close_if_dead. destruct (mem_nat n0 (y_dead s1)) eqn:Hd; [|exists sg, wo; auto].
    destruct (aget n0 (d_nt (y_d s1))) as [f|] eqn:Ef; [|exists sg, wo; auto].
    destruct (n_down f) eqn:Edn; [|exists sg, wo; auto].
    eexists (set_d sg _), wo. split; [|apply GR_set_d; [exact R|apply DNK; auto]].
    rewrite <- G1 in *. apply XInv_dead_flag with (f := f); auto. apply (wo_dead _ _ _ (G4 n0 Hin)).
  - exists (close_if_dead sg n0), wo. split; [apply close_if_dead_XInv; exact X|].
    unfold close_if_dead. rewrite (sy_dead _ _ _ (G5 n0 Hni)), G1.
    destruct (mem_nat n0 (y_dead s1)); [|exact R].
    destruct (aget n0 (d_nt (y_d s1))) as [f|] eqn:Ef; [|exact R].
    destruct (n_down f) eqn:Edn; [|exact R].
    apply GR_set_d; [exact R|apply DNK; auto].
Qed.

Lemma g_recv s n0 m rest d' outs r :
  GInv c B s -> d_next_gw (y_d s) <= B -> aget n0 (y_up s) = Some (m :: rest) ->
  process_from_remote n0 m (y_d s) = (d', outs, r) ->
  d_next_gw d' = d_next_gw (y_d s) /\ exists evs, r = Ok evs /\
  GInv c B (set_evq (apply_outs (set_d {| y_d := y_d s; y_evq := y_evq s; y_down := y_down s;
                                          y_up := aset n0 rest (y_up s); y_w := y_w s; y_dead := y_dead s;
                                          y_result := y_result s |} d') outs)
                    (y_evq s ++ evs)).
Proof.
  intros (sg & wo & X & R) HB Eup Ep. pose proof R as [G1 G2 G3 G4 G5].
  pose proof (alist_get_some [] _ _ _ Eup) as Eup'.
  (* generic conclusion: the real state after the step, with any wire down for n0 *)
  assert (FIN : forall sg1 wo1 yd evs d2,
     XInv cg sg1 -> y_d sg1 = d2 -> y_evq sg1 = y_evq s ++ evs -> y_result sg1 = y_result s ->
     (forall k, k <> n0 -> dn k d2 = dn k (y_d s)) ->
     (forall n, n <> n0 -> alist_get [] n yd = alist_get [] n (y_down s)) ->
     (forall n, n <> n0 -> same_at sg sg1 n) -> (forall n, n <> n0 -> (In n wo1 <-> In n wo)) ->
     let s' := {| y_d := d2; y_evq := y_evq s ++ evs; y_down := yd; y_up := aset n0 rest (y_up s);
                  y_w := y_w s; y_dead := y_dead s; y_result := y_result s |} in
     (In n0 wo1 -> WoN s' sg1 n0) -> (~ In n0 wo1 -> SyncN s' sg1 n0) -> GInv c B s').
  { intros sg1 wo1 yd evs d2 X1 E1 E2 E3 Hdn Hyd Hsg Hwo s' Hw Hy. exists sg1, wo1. split; [exact X1|].
    apply (GR_local s sg wo s' sg1 wo1 n0 R); auto.
    intros n Hn. unfold same_at, s'. cbn [y_w y_down y_up y_dead]. rewrite alist_get_aset_neq by exact Hn. auto. }
  destruct (in_dec Nat.eq_dec n0 wo) as [Hin|Hni].
  - destruct (G4 n0 Hin) as [W1 W2 W3 W4]. destruct W2 as (wg & cur & nxt & sc & Ewg & Phg).
    destruct W4 as [(Hdn & pre & post & U1 & U2)|(Hdn & U2)].
    + rewrite Eup' in U1. destruct pre as [|m' pre'].
      * (* the garbled report is read: the worker is written off *)
        cbn [app] in U1. inv U1.
        assert (Hne : alist_get [] n0 (y_up sg) <> []) by (rewrite U2; discriminate).
        destruct (ghost_wire cg sg n0 wg X W3 Ewg Hne) as (f & Ef & Hdf). rewrite G1 in Ef.
        destruct (d_node_shutdown n0 (y_d s)) as [[d1 o1] r1] eqn:Hs.
        destruct (d_node_shutdown_ok _ _ _ _ _ _ Ef Hs) as (-> & CASES).
        assert (HB0 : 0 < B). { pose proof (wo_lt c B s sg wo n0 X R Hin). lia. }
        assert (XA : XInv cg (set_d sg d1) /\ exists f1, aget n0 (d_nt d1) = Some f1 /\ n_down f1 = false /\
                     (forall k, dn k d1 = dn k (y_d s)) /\ d_next_gw d1 = d_next_gw (y_d s)).
        { destruct CASES as [(-> & _)|(-> & _)].
          - split; [rewrite <- G1, set_d_same; exact X|]. exists f. auto.
          - split.
            + rewrite <- G1 in *. eapply (XInv_dead_sdsent cg sg n0 f wg cur nxt sc); eauto.
              apply gcfg_not_same. exact HB0.
            + exists (sd_mark f). split; [rewrite d_nt_set; apply aget_aset_eq|]. split; [exact Hdf|].
              split; [|reflexivity]. intros k. destruct (Nat.eq_dec k n0) as [->|Hk].
              * rewrite dn_aset_eq, (dn_of_flag _ _ _ Ef). reflexivity.
              * apply dn_aset_neq. exact Hk. }
        destruct XA as (XA & f1 & Ef1 & Hdf1 & DN1 & GW1).
        destruct (process_from_remote n0 UEnd d1) as [[d2 o2] r2] eqn:Ep2.
        assert (EupA : aget n0 (y_up (set_d sg d1)) = Some [UEnd]).
        { cbn [set_d y_up]. apply alist_get_cons_aget. exact U2. }
        destruct (step_recv cg Hpos (set_d sg d1) n0 UEnd [] d2 o2 r2 XA EupA Ep2) as (-> & evs & -> & X' & _).
        rewrite (pfr_bad _ _ _ _ _ Ef Hdf Hs f1 Ef1 Hdf1 _ _ _ Ep2) in Ep. inv Ep.
        destruct (pfr_spec _ _ _ _ _ _ _ Ep2 Ef1) as (_ & GW2 & _ & DNo & DNn & _).
        split; [congruence|]. exists evs. split; [reflexivity|].
        assert (CL : forall yd, (forall n, n <> n0 -> alist_get [] n yd = alist_get [] n (y_down s)) ->
                 GInv c B {| y_d := d'; y_evq := y_evq s ++ evs; y_down := yd; y_up := aset n0 post (y_up s);
                             y_w := y_w s; y_dead := y_dead s; y_result := y_result s |}).
        { intros yd Hyd. eapply (FIN _ wo yd evs d'); [exact X'|reflexivity| |exact G3| |exact Hyd| |tauto| |contradiction].
          - cbn [set_evq set_d y_evq]. rewrite G2. reflexivity.
          - intros k Hk. rewrite (DNo k Hk). apply DN1.
          - intros n Hn. same_tac Hn.
          - intros _. constructor; cbn [y_w y_d y_up set_evq set_d y_dead].
            + exact W1.
            + exists wg, cur, nxt, sc. auto.
            + exact W3.
            + right. split; [rewrite DNn; apply orb_true_r|apply alist_get_aset_eq]. }
        rewrite app_nil_r. destruct CASES as [(_ & ->)|(_ & [->| ->])]; cbn [apply_outs set_d set_evq y_evq y_d y_dead].
        -- apply CL. auto.
        -- apply CL. auto.
        -- destruct (mem_nat n0 (y_dead s)); cbn [apply_outs set_evq y_evq].
           ++ apply CL. auto.
           ++ apply CL. intros n Hn. cbn [y_down]. apply alist_get_aset_neq. exact Hn.
      * (* an audible message of a worker that will be written off *)
        cbn [app] in U1. inv U1.
        assert (EupG : aget n0 (y_up sg) = Some (m' :: pre' ++ [UEnd])) by (apply alist_get_cons_aget; exact U2).
        rewrite <- G1 in Ep.
        destruct (step_recv cg Hpos sg n0 m' _ d' outs r X EupG Ep) as (-> & evs & -> & X' & _).
        assert (Hne : alist_get [] n0 (y_up sg) <> []) by (rewrite U2; discriminate).
        destruct (ghost_wire cg sg n0 wg X W3 Ewg Hne) as (f & Ef & Hdf).
        destruct (pfr_spec _ _ _ _ _ _ _ Ep Ef) as (_ & GW2 & _ & DNo & _ & _).
        split; [congruence|]. exists evs. split; [reflexivity|]. cbn [apply_outs set_d].
        eapply (FIN _ wo (y_down s) evs d'); [exact X'|reflexivity| |exact G3| |auto| |tauto| |contradiction].
        -- cbn [set_evq set_d y_evq]. rewrite G2. reflexivity.
        -- intros k Hk. rewrite (DNo k Hk), G1. reflexivity.
        -- intros n Hn. same_tac Hn.
        -- intros _. constructor; cbn [y_w y_d y_up set_evq set_d y_dead].
           ++ exact W1.
           ++ exists wg, cur, nxt, sc. auto.
           ++ exact W3.
           ++ left. assert (Hne' : alist_get [] n0 (y_up (set_evq (set_d {| y_d := y_d sg; y_evq := y_evq sg; y_down := y_down sg;
                  y_up := aset n0 (pre' ++ [UEnd]) (y_up sg); y_w := y_w sg; y_dead := y_dead sg; y_result := y_result sg |} d')
                  (y_evq sg ++ evs))) <> []).
              { cbn [set_evq set_d y_up]. rewrite alist_get_aset_eq. destruct pre'; discriminate. }
              destruct (ghost_wire cg _ n0 wg X' W3 Ewg Hne') as (f2 & Ef2 & Hdf2). cbn [set_evq set_d y_d] in Ef2.
              split; [rewrite (dn_of_flag _ _ _ Ef2); exact Hdf2|]. exists pre', post.
              rewrite !alist_get_aset_eq. auto.
    + (* a written-off worker: the message is dropped *)
      unfold dn in Hdn. destruct (aget n0 (d_nt (y_d s))) as [f|] eqn:Ef; [|discriminate].
      rewrite (pfr_down _ _ _ _ Ef Hdn) in Ep. inv Ep. split; [reflexivity|]. exists []. split; [reflexivity|].
      cbn [apply_outs set_d].
      eapply (FIN sg wo (y_down s) [] (y_d s)); [exact X|exact G1|rewrite app_nil_r; exact G2|exact G3|auto|auto| |tauto| |contradiction].
      * intros n Hn. apply same_at_refl.
      * intros _. constructor; cbn [y_w y_d y_up y_dead].
        -- exact W1.
        -- exists wg, cur, nxt, sc. auto.
        -- exact W3.
        -- right. split; [rewrite (dn_of_flag _ _ _ Ef); exact Hdn|exact U2].
  - (* a worker in sync *)
    destruct (G5 n0 Hni) as [S1 S2 S3 S4]. rewrite Eup' in S3.
    assert (EupG : aget n0 (y_up sg) = Some (m :: rest)) by (apply alist_get_cons_aget; exact S3).
    rewrite <- G1 in Ep.
    destruct (step_recv cg Hpos sg n0 m rest d' outs r X EupG Ep) as (-> & evs & -> & X' & _).
    assert (GW2 : d_next_gw d' = d_next_gw (y_d sg) /\ forall k, k <> n0 -> dn k d' = dn k (y_d sg)).
    { destruct (aget n0 (d_nt (y_d sg))) as [f|] eqn:Ef.
      - destruct (pfr_spec _ _ _ _ _ _ _ Ep Ef) as (_ & A & _ & Bq & _ & _). auto.
      - exfalso. unfold process_from_remote in Ep. rewrite mbind_get, Ef in Ep. cbn in Ep. inv Ep. }
    destruct GW2 as (GW2 & DNo).
    split; [congruence|]. exists evs. split; [reflexivity|]. cbn [apply_outs set_d].
    eapply (FIN _ wo (y_down s) evs d'); [exact X'|reflexivity| |exact G3| |auto| |tauto|contradiction|].
    + cbn [set_evq set_d y_evq]. rewrite G2. reflexivity.
    + intros k Hk. rewrite (DNo k Hk), G1. reflexivity.
    + intros n Hn. same_tac Hn.
    + intros _. constructor; cbn [y_w y_down y_up y_dead set_evq set_d]; rewrite ?alist_get_aset_eq; auto.
Qed.
End Steps4.
