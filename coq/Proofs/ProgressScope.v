(* ProgressScope.v -- property C02, the no-stand-off half, for the scope family of schedulers
   (--dist loadscope / loadfile / loadgroup: mode [MScope kind]) without worker failure.

   In every reachable state of Model/System.v in which the session has not ended, some component
   can make a USEFUL move (Progress.useful: not a crash, not an idle turn of a worker's receiver
   thread): theorem c02s_no_deadlock_useful; plain enabledness c02s_no_deadlock is a corollary.

   The file is the analogue of Progress.v on top of the invariants of ScopeCoupling.v (XInv).  The
   per-node progress invariant is Progress.PN itself, stated over the projection [proj cs] of the
   scope scheduler's state; the controller part PCc says: while the session is not shutting down
   the scheduler does not report "tests finished", and while the work queue is not empty every
   registered node that is up holds at least two pending tests (TwoC); once it is shutting down
   every registered node was told to shut down.

   Organisation: part B what one controller iteration guarantees beyond ScopeCoupling.LEFF
   (B.1 the scheduler: _reschedule and the initial distribution leave every node they look at
   with >= 2 pending tests, or told to shut down, or the work queue empty; B.2 the handlers;
   B.3 the whole iteration); part C the progress invariant PInvc and its preservation; part D
   quiescent states are impossible; part E the theorems and examples.  TerminationScope.v builds on
   this file. *)
From XV Require Import Base Worker Ctl SchedLoad SchedSteal SchedScope SchedEach Sched DSession System
  NoHook DSessionProofs WorkerProofs LoadProofs FifoProofs ExactlyOnce Coupling Completeness Progress
  ScopeProofs ScopeSystem ScopeCoupling.
From XV Require LivenessLaws.
From Coq Require Import Permutation.
Open Scope nat_scope.

Notation sd_in := LivenessLaws.sd_in.

(* ====================================================================================== *)
(* B.1 the scheduler                                                                       *)
(* ====================================================================================== *)
Section SchedX.
  Variable kind : scope_kind.
  Variable coll0 : list string.
  Hypothesis Hne : ~ In ""%string coll0.
  Variable N : nat.

  Notation SJ := (SJ kind coll0 N).
  Notation SE0 := (SE0 coll0).
  Notation SE := (SE kind coll0 N).
  Notation bookn := (bookn coll0).

  Lemma SE0_sd_in cs cs' o m : SE0 cs cs' o -> sd_in (sc_nt cs) m -> sd_in (sc_nt cs') m.
  Proof. intros T H. exact (NRo_sd_in _ _ _ (se_nt _ _ _ _ T m) H). Qed.

  Lemma SE0_bk_len cs cs' o m : SE0 cs cs' o -> length (bookn cs m) <= length (bookn cs' m).
  Proof. intros T. rewrite (se_bk _ _ _ _ T m), app_length. lia. Qed.

  Lemma SE0_wq_nil cs cs' o : SE0 cs cs' o -> sc_wq cs = [] -> sc_wq cs' = [].
  Proof.
    intros T E. destruct (se_wq _ _ _ _ T) as (mv & Emv). rewrite E in Emv. symmetry in Emv.
    apply app_eq_nil in Emv. tauto.
  Qed.

  (* what one node is left with after the scheduler looked at it *)
  Definition served (cs : scstate) (n : nat) : Prop :=
    sd_in (sc_nt cs) n \/ 2 <= length (bookn cs n) \/ sc_wq cs = [].

  Lemma served_SE0 cs cs' o n : SE0 cs cs' o -> served cs n -> served cs' n.
  Proof.
    intros T [H|[H|H]].
    - left. eapply SE0_sd_in; eauto.
    - right. left. pose proof (SE0_bk_len _ _ _ n T). lia.
    - right. right. eapply SE0_wq_nil; eauto.
  Qed.

  (* _reschedule(node) *)
  Lemma resched_served n cs cs' o :
    SJ cs -> In n (sc_nodes cs) -> In n (akeys (sc_reg cs)) ->
    sc_reschedule n cs = (cs', o, Ok tt) -> served cs' n.
  Proof.
    intros J Hnode Hreg H.
    pose proof (nodes_knownc kind coll0 N cs J n Hnode) as Hk.
    destruct (resched_eff kind coll0 N _ _ _ _ _ J Hk Hnode H) as (_ & (T & _ & _)).
    destruct (aget n (sc_nt cs)) as [c|] eqn:Ec; [|contradiction].
    destruct (shutting_down c) eqn:Esd.
    - left. apply (SE0_sd_in _ _ _ n T). exists c. auto.
    - destruct (aget n (sc_assigned cs)) as [w|] eqn:Ew.
      2:{ exfalso. apply aget_none_keys in Ew. contradiction. }
      assert (Hah : ahas n (sc_reg cs) = true).
      { unfold ahas. apply aget_In_keys in Hreg. destruct (aget n (sc_reg cs)); [reflexivity|contradiction]. }
      destruct (LivenessLaws.V4_scope_reschedule n cs cs' o c w H Ec Esd Hah Ew) as [X|[(w' & Ew' & Hp)|X]].
      + left. exact X.
      + right. left. unfold ScopeCoupling.bookn. rewrite Ew'. rewrite <- (pending_of_book coll0). exact Hp.
      + right. right. exact X.
  Qed.

  Lemma mfor_resched_served l : forall cs cs' o,
    SJ cs -> (forall n, In n l -> In n (sc_nodes cs) /\ In n (akeys (sc_reg cs))) ->
    mfor l sc_reschedule cs = (cs', o, Ok tt) ->
    forall n, In n l -> served cs' n.
  Proof.
    induction l as [|n0 l IH]; intros cs cs' o J Hl H n Hn; [destruct Hn|].
    cbn [mfor] in H. apply LoadProofs.mbind_inv in H.
    destruct H as [(e & _ & F)|(s1 & o1 & [] & o2 & H1 & H2 & ->)]; [discriminate|].
    destruct (Hl n0 (or_introl eq_refl)) as (Hnode0 & Hreg0).
    pose proof (nodes_knownc kind coll0 N cs J n0 Hnode0) as Hk0.
    destruct (resched_eff kind coll0 N _ _ _ _ _ J Hk0 Hnode0 H1) as (_ & (T1 & J1 & _)).
    assert (Hl1 : forall k, In k l -> In k (sc_nodes s1) /\ In k (akeys (sc_reg s1))).
    { intros k Hk. destruct (Hl k (or_intror Hk)) as (A & B).
      rewrite (se_nodes _ _ _ _ T1), (se_reg _ _ _ _ T1). auto. }
    destruct Hn as [<-|Hn].
    - pose proof (resched_served n0 cs s1 o1 J Hnode0 Hreg0 H1) as S1.
      destruct (mfor_resched_eff kind coll0 N l s1 cs' o2 (Ok tt) J1) as (_ & (T2 & _ & _)).
      + intros k Hk. destruct (Hl1 k Hk) as (A & _). split; [|exact A].
        exact (nodes_knownc kind coll0 N s1 J1 k A).
      + exact H2.
      + eapply served_SE0; eauto.
    - exact (IH s1 cs' o2 J1 Hl1 H2 n Hn).
  Qed.

  (* the surplus nodes popped at the initial distribution are told to shut down *)
  Lemma pop_extra_keep k : forall cs cs' o,
    sc_pop_extra k cs = (cs', o, Ok tt) ->
    (forall m, sd_in (sc_nt cs) m -> sd_in (sc_nt cs') m) /\
    forall m, In m (sc_nodes cs) -> In m (sc_nodes cs') \/ sd_in (sc_nt cs') m.
  Proof.
    induction k as [|k IH]; intros cs cs' o H; cbn [sc_pop_extra] in H.
    - inv H. auto.
    - rewrite mbind_get_eq in H.
      destruct (rev (sc_assigned cs)) as [|[n w] r'] eqn:Er; [discriminate|].
      assert (Ea : sc_assigned cs = rev r' ++ [(n, w)]).
      { rewrite <- (rev_involutive (sc_assigned cs)), Er. reflexivity. }
      rewrite mbind_put_eq in H. rewrite Ea, removelast_last in H.
      apply LoadProofs.mbind_inv in H. destruct H as [(e & _ & F)|(s1 & o1 & [] & o2 & H1 & H2 & ->)]; [discriminate|].
      destruct (LivenessLaws.g_node_shutdown_post scstate sc_nt sc_set_nt (fun _ _ => eq_refl) _ _ _ _ H1)
        as (A1 & _ & M1 & F1).
      assert (Eas : sc_assigned s1 = rev r') by (apply (F1 _ sc_assigned); reflexivity).
      destruct (IH s1 cs' o2 H2) as (M2 & K2).
      split.
      + intros m Hm. apply M2, M1. exact Hm.
      + intros m Hm. unfold sc_nodes in Hm. rewrite Ea, akeys_app in Hm. apply in_app_or in Hm.
        destruct Hm as [Hm|[<-|[]]].
        * apply K2. unfold sc_nodes. rewrite Eas. exact Hm.
        * right. apply M2. exact A1.
  Qed.

  (* schedule(), the initial distribution: either the work queue is empty afterwards, or every
     node that is still registered was told to shut down or holds >= 2 pending tests; a node that
     is no longer registered (a surplus node) was told to shut down *)
  Lemma sched_rest_served cs cs' o :
    SJ cs -> sc_wq cs <> [] -> (forall m, bookn cs m = []) ->
    (forall n, In n (sc_nodes cs) -> In n (akeys (sc_reg cs))) ->
    (forall n f, aget n (sc_nt cs) = Some f -> n_sdsent f = false) ->
    sched_rest cs = (cs', o, Ok tt) ->
    (forall m, In m (sc_nodes cs') -> served cs' m) /\
    (forall m, In m (sc_nodes cs) -> In m (sc_nodes cs') \/ sd_in (sc_nt cs') m).
  Proof.
    intros J Hwq Hbk Hreg Hsd H. unfold sched_rest in H. rewrite mbind_get_eq in H.
    set (k := length (sc_nodes cs) - length (sc_wq cs)) in *.
    assert (Hk : k <= length (sc_assigned cs)).
    { unfold k, sc_nodes. rewrite akeys_length. lia. }
    apply LoadProofs.mbind_inv in H. destruct H as [(e & _ & F)|(cs4 & o1 & a1 & o2 & H1 & H2 & ->)]; [discriminate|].
    destruct (pop_extra_eff kind coll0 N _ _ _ _ _ J Hk H1) as (_ & J4 & Ea4 & Er4 & Ec4 & Ew4 & Hnt4 & Hgo4 & Hq4 & Hi4 & Hk0).
    rewrite mbind_get_eq in H2.
    assert (Hsub4 : forall m w, In (m, w) (sc_assigned cs4) -> In (m, w) (sc_assigned cs)).
    { intros m w Hin. rewrite Ea4 in Hin. eapply in_firstn; eauto. }
    assert (Hnodes4 : incl (sc_nodes cs4) (sc_nodes cs)).
    { intros m Hm. unfold sc_nodes, akeys in *. apply in_map_iff in Hm. destruct Hm as ([m' w] & <- & Hp).
      change m' with (fst (m', w)). apply in_map. apply Hsub4. exact Hp. }
    assert (Hlen4 : length (sc_nodes cs4) <= length (sc_wq cs4)).
    { unfold sc_nodes. rewrite akeys_length, Ea4, firstn_length, Ew4. unfold k, sc_nodes. rewrite akeys_length. lia. }
    assert (Hpre4 : forall n, In n (sc_nodes cs4) -> In n (sc_nodes cs4) /\ In n (akeys (sc_reg cs4)) /\
                       exists f, aget n (sc_nt cs4) = Some f /\ n_sdsent f = false).
    { intros n Hn. split; [exact Hn|]. split; [rewrite Er4; apply Hreg, Hnodes4; exact Hn|].
      pose proof (Hnt4 n) as R. rewrite (Hq4 n Hn) in R.
      destruct (aget n (sc_nt cs4)) as [f'|] eqn:Ef'.
      - destruct (aget n (sc_nt cs)) as [f|] eqn:Ef; [|destruct R]. cbn in R. apply NR_nil_inv in R. subst f'.
        exists f. split; [reflexivity|]. eapply Hsd; eauto.
      - exfalso. apply (sj_ntk _ _ _ _ J4 n); [|exact Ef']. apply (sj_nodes _ _ _ _ J4). exact Hn. }
    apply LoadProofs.mbind_inv in H2. destruct H2 as [(e & _ & F)|(cs5 & o3 & a3 & o4 & H3 & H4 & ->)]; [discriminate|].
    destruct (mfor_assign_eff kind coll0 N _ _ _ _ _ J4 Hlen4 Hpre4 H3) as (_ & T5 & J5 & N5 & L5 & S5).
    rewrite mbind_get_eq in H4.
    apply LoadProofs.mbind_inv in H4. destruct H4 as [(e & _ & F)|(cs6 & o5 & a5 & o6 & H5 & H6 & ->)]; [discriminate|].
    destruct a5.
    assert (Hpre5 : forall n, In n (sc_nodes cs5) -> In n (sc_nodes cs5) /\ In n (akeys (sc_reg cs5))).
    { intros n Hn. split; [exact Hn|]. rewrite (se_reg _ _ _ _ T5), Er4. apply Hreg, Hnodes4.
      rewrite <- (se_nodes _ _ _ _ T5). exact Hn. }
    pose proof (mfor_resched_served (sc_nodes cs5) cs5 cs6 o5 J5 Hpre5 H5) as S6.
    destruct (mfor_resched_eff kind coll0 N (sc_nodes cs5) cs5 cs6 o5 (Ok tt) J5) as (_ & (T6 & J6 & _)).
    { intros n Hn. split; [|exact Hn]. exact (nodes_knownc kind coll0 N cs5 J5 n Hn). }
    { exact H5. }
    rewrite mbind_get_eq in H6.
    destruct a1. destruct (pop_extra_keep _ _ _ _ H1) as (_ & K4).
    assert (FIN : SE0 cs6 cs' o6 /\ (sc_wq cs6 = [] \/ cs' = cs6)).
    { destruct (sc_wq cs6) as [|hd tl] eqn:Ew6.
      - destruct (sc_mfor_shutdown_eff kind coll0 N (sc_nodes cs6) cs6 cs' o6 (Ok tt) J6) as (_ & T7 & _ & W7 & _).
        + intros n Hn. exact (nodes_knownc kind coll0 N cs6 J6 n Hn).
        + exact H6.
        + split; [exact T7|left; reflexivity].
      - inv H6. split; [apply SE0_refl|right; reflexivity]. }
    destruct FIN as (T7 & Hfin).
    pose proof (SE0_trans _ _ _ _ _ _ T5 (SE0_trans _ _ _ _ _ _ T6 T7)) as T.
    split.
    - intros m Hm. destruct Hfin as [Ew6| ->].
      + right. right. exact (SE0_wq_nil cs6 cs' o6 T7 Ew6).
      + apply S6. rewrite <- (se_nodes _ _ _ _ T6). exact Hm.
    - intros m Hm. destruct (K4 m Hm) as [X|X].
      + left. rewrite (se_nodes _ _ _ _ T). exact X.
      + right. exact (SE0_sd_in cs4 cs' _ m T X).
  Qed.

  Lemma schedule_served cs cs' o :
    SJ cs -> 0 < N -> sc_collection_is_completed cs = true -> sc_coll cs = None ->
    (forall n f, aget n (sc_nt cs) = Some f -> n_sdsent f = false) ->
    sc_schedule cs = (cs', o, Ok tt) ->
    (forall m, In m (sc_nodes cs') -> served cs' m) /\
    (forall m, In m (sc_nodes cs) -> In m (sc_nodes cs') \/ sd_in (sc_nt cs') m).
  Proof.
    intros J Hpos Hcomp Ec Hsd H. pose proof J as [A B C D E F G Hh I Jn K L M].
    unfold sc_schedule in H. rewrite mbind_get_eq in H. rewrite Hcomp in H. cbn [massert] in H.
    rewrite mbind_ret_eq in H. rewrite Ec in H.
    assert (Hreg : sc_reg cs <> []).
    { intros Er. unfold sc_collection_is_completed in Hcomp. rewrite Er, C in Hcomp. cbn in Hcomp.
      apply Nat.leb_le in Hcomp. lia. }
    rewrite (mbind_step _ _ _ _ _ (same_collection_run kind coll0 N cs J Hreg)) in H. cbn [negb] in H.
    rewrite mbind_get_eq in H.
    destruct (sc_reg cs) as [|[k0 c] others] eqn:Er; [contradiction|]. cbn [of_opt] in H.
    rewrite mbind_ret_eq in H.
    assert (Ec0 : c = coll0) by (apply (G k0 c); left; reflexivity). subst c.
    destruct (Jn Ec) as (Ewq & Hempty).
    assert (Hbk : forall m, bookn cs m = []) by (intros m; apply (bookn_coll_none kind coll0 N); [exact J|exact Ec]).
    assert (Hcase : coll0 = [] \/ exists c0 cr, coll0 = c0 :: cr) by (destruct coll0; eauto).
    destruct Hcase as [Ecoll|(c0 & cr & Ecoll)].
    - rewrite Ecoll in H. rewrite mbind_put_eq in H. inv H. split; [intros m _; right; right; exact Ewq|].
      intros m Hm. left. exact Hm.
    - rewrite Ecoll in H. rewrite mbind_put_eq, mbind_get_eq, mbind_put_eq in H. rewrite <- Ecoll in H.
      cbn [sc_set_coll sc_wq sc_kind] in H. rewrite Ewq, B in H.
      rewrite wq_update_fresh in H; [|apply (UL_keys_nodup kind coll0)|intros k _ []]. cbn [app] in H.
      match type of H with _ ?st = _ => set (s3 := st) in * end.
      assert (HULne : UL kind coll0 <> []).
      { destruct (build_units_covers kind coll0 c0) as (u & Hu & _); [rewrite Ecoll; left; reflexivity|].
        apply sget_in in Hu. apply (UL_in kind coll0) in Hu. intros E0. rewrite E0 in Hu. destruct Hu. }
      assert (J3 : SJ s3).
      { subst s3. constructor; cbn [sc_set_wq sc_set_coll sc_nt sc_kind sc_reg sc_coll sc_wq sc_assigned sc_numnodes];
          try assumption.
        - rewrite Er. exact G.
        - rewrite Er. exact Hh.
        - intros cl X. inversion X; subst. split; [reflexivity|exact Hcomp].
        - discriminate.
        - apply incl_refl.
        - unfold ukeys. cbn [sc_set_wq sc_set_coll sc_wq sc_assigned].
          assert (Ez : akeys_w (sc_assigned cs) = []).
          { unfold akeys_w. apply flat_map_nil_in. intros [m w] Hin. rewrite (Hempty m w Hin). reflexivity. }
          rewrite Ez, app_nil_r. apply (UL_keys_nodup kind coll0). }
      assert (En3 : sc_nodes s3 = sc_nodes cs) by reflexivity. rewrite <- En3.
      apply (sched_rest_served s3 cs' o J3).
      + exact HULne.
      + exact Hbk.
      + intros n Hn. apply (completed_all kind coll0 N cs n J Hcomp). apply E. exact Hn.
      + exact Hsd.
      + exact H.
  Qed.

  (* mark_test_complete: the flagging, then _reschedule *)
  Lemma complete_split n i rest cs cs' o r :
    SJ cs -> bookn cs n = i :: rest ->
    sc_mark_test_complete n i cs = (cs', o, r) ->
    exists cs1, sc_reschedule n cs1 = (cs', o, r) /\ SJ cs1 /\ sc_nt cs1 = sc_nt cs /\
      sc_nodes cs1 = sc_nodes cs /\ sc_reg cs1 = sc_reg cs /\ sc_coll cs1 = sc_coll cs /\ sc_wq cs1 = sc_wq cs /\
      forall m, bookn cs1 m = if Nat.eqb m n then rest else bookn cs m.
  Proof.
    intros J Hb H. unfold ScopeCoupling.bookn in Hb.
    destruct (aget n (sc_assigned cs)) as [w|] eqn:Ew; [|discriminate].
    assert (Hnode : In n (sc_nodes cs)) by (eapply aget_some_in; eauto).
    assert (HnN : n < N) by (apply (sj_nodes _ _ _ _ J); exact Hnode).
    destruct (sc_coll cs) as [cl|] eqn:Ec.
    2:{ pose proof (bookn_coll_none kind coll0 N cs n J Ec) as X. unfold ScopeCoupling.bookn in X. rewrite Ew, Hb in X. discriminate. }
    destruct (sj_coll _ _ _ _ J cl Ec) as (-> & Hcomp).
    pose proof (completed_all kind coll0 N cs n J Hcomp HnN) as Hreg.
    pose proof (workload_keys_nodup kind coll0 N cs n w J (aget_in _ _ _ Ew)) as NDw.
    pose proof (sj_mu _ _ _ _ J n w (aget_in _ _ _ Ew)) as Mw.
    assert (Hi : In i (bookw coll0 w)) by (rewrite Hb; left; reflexivity).
    destruct (bookw_in coll0 w i Hi) as (sc' & u' & Hin & Hi').
    destruct (undone_ixs_in kind coll0 sc' u' i (Mw _ _ Hin) Hi') as (id & Hud & Hp & Hnth & Hk).
    assert (Esg : sget (split_of kind id) w = Some u') by (rewrite Hk; apply sget_in_nodup; assumption).
    destruct (bookw_complete kind coll0 w i id _ u' NDw Mw Hnth Hi eq_refl Esg) as (Ebk & Hidk).
    unfold sc_mark_test_complete in H. rewrite mbind_get_eq in H.
    rewrite (reg_get kind coll0 N cs n J Hreg) in H. cbn [of_opt] in H. rewrite mbind_ret_eq in H.
    rewrite Hnth in H. cbn [of_opt] in H. rewrite mbind_ret_eq in H. cbv zeta in H.
    rewrite Ew in H. cbn [of_opt] in H. rewrite mbind_ret_eq in H.
    rewrite (sj_kind _ _ _ _ J), Esg in H. cbn [of_opt] in H. rewrite mbind_ret_eq, mbind_put_eq in H.
    set (w' := sset (split_of kind id) (sset id true u') w) in *.
    set (cs1 := sc_set_assigned cs (aset n w' (sc_assigned cs))) in *.
    assert (Ekw : map fst w' = map fst w).
    { unfold w'. rewrite map_fst_sset. destruct (mem_str _ _) eqn:M; [reflexivity|].
      exfalso. apply mem_str_false_not_in in M. apply M.
      rewrite Hk. change sc' with (fst (sc', u')). apply in_map. exact Hin. }
    assert (Ek : forall v : workload, akeys (aset n v (sc_assigned cs)) = akeys (sc_assigned cs))
      by (intros v; eapply akeys_aset_has; eauto).
    assert (J1 : SJ cs1).
    { pose proof J as [A B C D E F G Hh I Jn K L M]. subst cs1.
      constructor; cbn [sc_nt sc_set_assigned sc_reg sc_coll sc_wq sc_assigned sc_kind sc_numnodes]; try assumption.
      - unfold sc_nodes. cbn [sc_assigned sc_set_assigned]. intros k. rewrite Ek. apply E.
      - unfold sc_nodes. cbn [sc_assigned sc_set_assigned]. rewrite Ek. exact F.
      - rewrite Ec. discriminate.
      - unfold ukeys. cbn [sc_assigned sc_set_assigned sc_wq]. rewrite (akeys_w_aset_same (sc_assigned cs) n w _ Ew); [exact L|exact Ekw].
      - intros m wm Hm. apply in_aset in Hm. destruct Hm as [(-> & ->)|Hm]; [|eapply M; eauto].
        intros sc u Hu. unfold w' in Hu. apply in_sset in Hu. destruct Hu as [(-> & ->)|Hu]; [|apply (Mw _ _ Hu)].
        apply munit_sset; [|exact Hidk]. rewrite Hk. apply (Mw _ _ Hin). }
    exists cs1. split; [exact H|]. split; [exact J1|]. subst cs1.
    cbn [sc_nt sc_set_assigned sc_reg sc_coll sc_wq].
    split; [reflexivity|]. split; [unfold sc_nodes; cbn [sc_assigned sc_set_assigned]; apply Ek|].
    split; [reflexivity|]. split; [first [reflexivity|assumption]|]. split; [reflexivity|].
    intros m. unfold ScopeCoupling.bookn. cbn [sc_assigned sc_set_assigned]. destruct (Nat.eqb m n) eqn:E.
    - apply Nat.eqb_eq in E. subst m. rewrite aget_aset_eq. rewrite Ebk, Hb.
      apply filter_neq_head. rewrite <- Hb. apply (bookw_nodup kind coll0); assumption.
    - apply Nat.eqb_neq in E. rewrite aget_aset_neq by exact E. reflexivity.
  Qed.
End SchedX.

(* ====================================================================================== *)
(* B.2 the handlers of the controller                                                      *)
(* ====================================================================================== *)
Section CtlXc.
  Variable kind : scope_kind.
  Variable coll0 : list string.
  Hypothesis Hne : ~ In ""%string coll0.
  Variable N : nat.
  Hypothesis Hpos : 0 < N.

  Notation SJ := (SJ kind coll0 N).
  Notation SE0 := (SE0 coll0).
  Notation bookn := (bookn coll0).
  Notation DJ0 := (DJ0 kind coll0 N).
  Notation DJ := (DJ kind coll0 N).
  Notation PRE := (PRE coll0 N).
  Notation HEFF := (HEFF kind coll0 N).
  Notation LEFF := (LEFF kind coll0 N).
  Notation served := (served coll0).

  (* while the work queue is not empty every registered node that is up holds at least two
     pending tests *)
  Definition TwoC (cs : scstate) : Prop :=
    sc_coll cs <> None -> sc_wq cs <> [] ->
    forall m f, In m (sc_nodes cs) -> aget m (sc_nt cs) = Some f -> n_down f = false -> 2 <= length (bookn cs m).

  Record XEFFc (ev : cevent) (d : dstate) (cs : scstate) (d1 : dstate) (cs1 : scstate) : Prop := {
    xc_act_sub : forall m, In m (d_active d1) -> In m (d_active d);
    xc_act_fin : forall m b, ev_sig ev = Some (m, SgFin b) -> ~ In m (d_active d1);
    (* a node leaves the scheduler when it has finished, or as a surplus node at the initial
       distribution (then it was told to shut down) *)
    xc_nodes_keep : forall m, In m (sc_nodes cs) ->
                    In m (sc_nodes cs1) \/ (exists b, ev_sig ev = Some (m, SgFin b)) \/ sd_in (sc_nt cs1) m;
    xc_ready : forall n, ev = QReady n ->
               if d_shuttingdown d then sd_in (sc_nt cs1) n else In n (sc_nodes cs1);
    xc_nodes_sd : d_shuttingdown d = true -> forall m, In m (sc_nodes cs1) -> In m (sc_nodes cs);
    xc_cf : forall n ids, ev = QCollFinish n ids -> d_shuttingdown d = false -> In n (sc_nodes cs) ->
            In n (akeys (sc_reg cs1));
    xc_n2c_keep : d_shuttingdown d = false -> forall m, In m (akeys (sc_reg cs)) -> In m (akeys (sc_reg cs1));
    xc_two : d_shuttingdown d1 = false -> TwoC cs -> (forall n, ev = QReady n -> sc_coll cs = None) -> TwoC cs1;
  }.

  Lemma xc_same ev d cs d1 :
    same_ctl d d1 -> d_sched d = StC cs ->
    (forall m b, ev_sig ev <> Some (m, SgFin b)) -> (forall n, ev <> QReady n) ->
    (forall n ids, ev = QCollFinish n ids -> d_shuttingdown d = false -> In n (sc_nodes cs) -> False) ->
    forall cs1, d_sched d1 = StC cs1 -> XEFFc ev d cs d1 cs1.
  Proof.
    intros (S1 & S2 & S3 & S4) Els Hf Hr Hc cs1 E1.
    assert (cs1 = cs) by congruence. subst cs1. constructor.
    - intros m Hm. rewrite <- S3. exact Hm.
    - intros m b E. exfalso. exact (Hf _ _ E).
    - auto.
    - intros n E. exfalso. exact (Hr _ E).
    - auto.
    - intros n ids E A B. exfalso. exact (Hc _ _ E A B).
    - auto.
    - auto.
  Qed.

  (* ---- workerready ---- *)
  Lemma handle_ready_xc n d cs d1 o1 r :
    DJ d cs -> PRE (QReady n) d cs ->
    d_handle (QReady n) d = (d1, o1, r) -> forall cs1, d_sched d1 = StC cs1 -> XEFFc (QReady n) d cs d1 cs1.
  Proof.
    intros (J0 & Jss) (HnN & Hpre) H cs1' E1. pose proof J0 as [Els J Jb Jp Jg Jc].
    cbn [d_handle] in H. unfold hook in H. rewrite mbind_emit, mbind_get in H.
    destruct (d_shuttingdown d) eqn:Esd.
    - rewrite (d_node_shutdown_liftc n d cs Els) in H.
      destruct (node_shutdown sc_nt sc_set_nt n cs) as [[cs1 o2] r2] eqn:En. cbn [liftC] in H. inv H.
      cbn in E1. inv E1.
      assert (Hk : aget n (sc_nt cs) <> None) by (apply (sj_ntk _ _ _ _ J); exact HnN).
      destruct (sc_shutdown_eff kind coll0 N _ _ _ _ _ J Hk En) as (-> & T & J' & W & A).
      pose proof (LivenessLaws.g_node_shutdown_post scstate sc_nt sc_set_nt (fun _ _ => eq_refl) _ _ _ _ En) as (A1 & _).
      constructor.
      + intros m Hm. exact Hm.
      + intros m b E. discriminate.
      + intros m Hm. left. rewrite (se_nodes _ _ _ _ T). exact Hm.
      + intros n' E. inv E. rewrite Esd. exact A1.
      + intros _ m Hm. rewrite <- (se_nodes _ _ _ _ T). exact Hm.
      + intros n' ids E. discriminate.
      + intros F. congruence.
      + cbn. rewrite Esd. discriminate.
    - destruct (Hpre eq_refl) as (Hnew & Hina).
      unfold mbind at 1 in H. rewrite (sched_op_runc _ d cs Els) in H. cbn [s_step] in H.
      destruct (sc_add_node n cs) as [[cs1 o2] r2] eqn:Ea.
      destruct (add_node_eff kind coll0 N _ _ _ _ _ J HnN Hnew Ea) as (-> & -> & J' & Ent & Ek & Er & Ec & Ew & Eb).
      cbn [lift] in H. unfold no_str, ret in H. inv H. cbn in E1. inv E1.
      constructor.
      + intros m Hm. exact Hm.
      + intros m b E. discriminate.
      + intros m Hm. left. rewrite Ek. apply in_or_app. left. exact Hm.
      + intros n' E. inv E. rewrite Esd, Ek. apply in_or_app. right. left. reflexivity.
      + intros F. congruence.
      + intros n' ids E. discriminate.
      + intros _ m Hm. rewrite Er. exact Hm.
      + intros _ _ Hc Hcoll. exfalso. apply Hcoll. rewrite Ec. exact (Hc n eq_refl).
  Qed.

  (* ---- runtest_protocol_complete ---- *)
  Lemma handle_complete_xc n i ms d cs d1 o1 r :
    DJ d cs -> PRE (QComplete n i ms) d cs ->
    d_handle (QComplete n i ms) d = (d1, o1, r) ->
    forall cs1, DJ0 d1 cs1 -> XEFFc (QComplete n i ms) d cs d1 cs1.
  Proof.
    intros (J0 & Jss) (rest & Hb) H cs1' J1'. pose proof J0 as [Els J Jb Jp Jg Jc].
    cbn [d_handle] in H. unfold mbind at 1 in H. rewrite (sched_op_runc _ d cs Els) in H. cbn [s_step] in H.
    destruct (sc_mark_test_complete n i cs) as [[cs1 o2] r2] eqn:Em. cbn [lift] in H.
    destruct (complete_eff kind coll0 N _ _ _ _ _ _ _ J Hb Em) as (-> & _).
    destruct (complete_split kind coll0 N _ _ _ _ _ _ _ J Hb Em)
      as (cs0 & Hres & J0' & Ent & Ek & Er & Ec & Ew & Eb).
    unfold no_str, ret in H. inv H.
    assert (cs1' = cs1) by (pose proof (dj_sched _ _ _ _ _ J1') as E; cbn in E; congruence). subst cs1'.
    assert (Hnode : In n (sc_nodes cs)).
    { unfold ScopeCoupling.bookn in Hb. destruct (aget n (sc_assigned cs)) eqn:E; [|discriminate]. eapply aget_some_in; eauto. }
    assert (Hk0 : aget n (sc_nt cs0) <> None) by (apply (nodes_knownc kind coll0 N cs0 J0'); rewrite Ek; exact Hnode).
    assert (Hnode0 : In n (sc_nodes cs0)) by (rewrite Ek; exact Hnode).
    destruct (resched_eff kind coll0 N _ _ _ _ _ J0' Hk0 Hnode0 Hres) as (_ & (T & J1 & SDP)).
    constructor.
    - intros m Hm. exact Hm.
    - intros m b E. discriminate.
    - intros m Hm. left. rewrite (se_nodes _ _ _ _ T), Ek. exact Hm.
    - intros n' E. discriminate.
    - intros _ m Hm. rewrite (se_nodes _ _ _ _ T), Ek in Hm. exact Hm.
    - intros n' ids E. discriminate.
    - intros _ m Hm. rewrite (se_reg _ _ _ _ T), Er. exact Hm.
    - cbn [d_shuttingdown d_set_sched]. intros Hsd1 HT _ Hcoll Hpend m f1 Hm Ef1 Hdn.
      assert (Hcoll0 : sc_coll cs <> None) by (rewrite (se_coll _ _ _ _ T), Ec in Hcoll; exact Hcoll).
      assert (Hpend0 : sc_wq cs <> []).
      { intros F. apply Hpend. apply (SE0_wq_nil coll0 cs0 cs1 o2 T). congruence. }
      assert (Hm0 : In m (sc_nodes cs)) by (rewrite (se_nodes _ _ _ _ T), Ek in Hm; exact Hm).
      destruct (NRo_open _ _ _ _ (se_nt _ _ _ _ T m) Ef1) as (f & Ef & R). rewrite Ent in Ef.
      destruct (NR_fields _ _ _ R) as (_ & Bd & _ & Dsd & _).
      destruct (Nat.eq_dec m n) as [->|Hmn].
      + assert (Hcomp : sc_collection_is_completed cs = true).
        { destruct (sc_coll cs) as [cl|] eqn:Ecl; [|contradiction]. apply (sj_coll _ _ _ _ J cl Ecl). }
        assert (HnN : n < N) by (apply (sj_nodes _ _ _ _ J); exact Hnode).
        assert (Hreg0 : In n (akeys (sc_reg cs0))).
        { rewrite Er. apply (completed_all kind coll0 N cs n J Hcomp HnN). }
        destruct (resched_served kind coll0 N n cs0 cs1 o2 J0' Hnode0 Hreg0 Hres) as [(c' & Ec' & Hsd')|[Hl|Hp]].
        * rewrite Ef1 in Ec'. inv Ec'. unfold shutting_down in Hsd'. rewrite Hdn in Hsd'. cbn in Hsd'.
          destruct (dj_p _ _ _ _ _ J1' Hsd1 n c' Ef1 Hsd') as (_ & P1). contradiction.
        * exact Hl.
        * contradiction.
      + rewrite (se_bk _ _ _ _ T m), app_length, Eb.
        assert (E0 : Nat.eqb m n = false) by (apply Nat.eqb_neq; exact Hmn). rewrite E0.
        rewrite Bd in Hdn. specialize (HT Hcoll0 Hpend0 m f Hm0 Ef Hdn). lia.
  Qed.

  (* ---- workerfinished ---- *)
  Lemma handle_finished_xc n sk d cs d1 o1 r :
    DJ d cs -> PRE (QFinished n sk) d cs ->
    d_handle (QFinished n sk) d = (d1, o1, r) ->
    forall cs1, d_sched d1 = StC cs1 -> XEFFc (QFinished n sk) d cs d1 cs1.
  Proof.
    intros (J0 & Jss) Hpre H cs1' E1. pose proof J0 as [Els J Jb Jp Jg Jc].
    cbn [d_handle] in H. unfold d_worker_workerfinished, hook in H. rewrite mbind_emit in H.
    destruct sk; cbn [ScopeCoupling.PRE] in Hpre; [| |contradiction].
    - destruct Hpre as (Hina & Hbook & (f & Ef & Hsd)).
      rewrite mbind_get in H. rewrite Els in H. cbn [s_nodes] in H.
      assert (STEP : exists cs1,
        ((if mem_nat n (sc_nodes cs)
          then r0 <- d_sched_op (SRemove n);; massert match r0 with Some s0 => (s0 =? "")%string | None => true end
          else ret tt) d) = (d_set_sched d (StC cs1), [], Ok tt) /\
        sc_nt cs1 = sc_nt cs /\ sc_coll cs1 = sc_coll cs /\ sc_wq cs1 = sc_wq cs /\
        (forall m, bookn cs1 m = bookn cs m) /\
        (forall m, In m (sc_nodes cs1) -> In m (sc_nodes cs)) /\
        (forall m, In m (sc_nodes cs) -> m <> n -> In m (sc_nodes cs1)) /\
        (sc_collection_is_completed cs = true -> sc_reg cs1 = sc_reg cs)).
      { destruct (mem_nat n (sc_nodes cs)) eqn:Em.
        - apply mem_nat_In in Em.
          destruct (sc_remove_node n cs) as [[cs1 o2] r2] eqn:Er.
          destruct (remove_idle_eff kind coll0 N _ _ _ _ _ J Em Hbook Er) as (-> & -> & J' & Ent & Ea & Ec & Ew & Ek & Ecomp).
          exists cs1. split.
          { unfold mbind. rewrite (sched_op_runc _ d cs Els). cbn [s_step]. rewrite Er. cbn [lift]. reflexivity. }
          split; [exact Ent|]. split; [exact Ec|]. split; [exact Ew|].
          split.
          { intros m. unfold ScopeCoupling.bookn. rewrite Ea. destruct (Nat.eq_dec m n) as [->|Hm].
            - rewrite (aget_adel_same n _ (sj_wf _ _ _ _ J)). symmetry. exact Hbook.
            - rewrite aget_adel_other by exact Hm. reflexivity. }
          split.
          { intros m Hm. unfold sc_nodes in *. rewrite Ea in Hm. eapply akeys_adel_incl; eauto. }
          split.
          { intros m Hm Hne'. unfold sc_nodes in *. rewrite Ea. apply in_akeys_adel_neq; assumption. }
          exact Ecomp.
        - pose proof (proj1 (mem_nat_false _ _) Em) as Em'. exists cs.
          split; [rewrite d_set_sched_same by exact Els; reflexivity|].
          repeat split; auto. }
      destruct STEP as (cs1 & Erun & Fn & Fc & Fq & Fbk & Fsub & Fkeep & Fn2c).
      unfold mbind at 1 in H. rewrite Erun in H.
      rewrite (active_remove_run n (d_set_sched d (StC cs1)) Hina) in H. inv H.
      cbn in E1. inv E1. constructor.
      + intros m Hm. cbn [d_active d_set_active d_set_sched] in Hm. apply in_filter_neq in Hm. tauto.
      + intros m b E. cbn in E. inv E. cbn [d_active d_set_active d_set_sched]. intros Hm. apply in_filter_neq in Hm. tauto.
      + intros m Hm. destruct (Nat.eq_dec m n) as [->|Hne']; [right; left; exists false; reflexivity|left; apply Fkeep; assumption].
      + intros n' E. discriminate.
      + intros _ m Hm. apply Fsub. exact Hm.
      + intros n' ids E. discriminate.
      + intros Hs m Hm. destruct (Jp Hs n f Ef Hsd) as (C & _).
        assert (Hcomp : sc_collection_is_completed cs = true).
        { destruct (sc_coll cs) as [cl|] eqn:Ecl; [|contradiction]. apply (sj_coll _ _ _ _ J cl Ecl). }
        rewrite (Fn2c Hcomp). exact Hm.
      + intros _ HT _ Hcoll Hpend m f1 Hm Ef1 Hdn. rewrite Fbk. rewrite Fn in Ef1. rewrite Fc in Hcoll. rewrite Fq in Hpend.
        exact (HT Hcoll Hpend m f1 (Fsub m Hm) Ef1 Hdn).
    - assert (STEP : exists d2, (d0 <- get;; (if d_shouldstop d0 then ret tt else put (d_set_shouldstop d0 true))) d = (d2, [], Ok tt) /\
                d_sched d2 = d_sched d /\ d_shuttingdown d2 = d_shuttingdown d /\ d_active d2 = d_active d /\ d_shouldstop d2 = true).
      { rewrite mbind_get. destruct (d_shouldstop d) eqn:Ess.
        - exists d. auto.
        - eexists. split; [reflexivity|]. auto. }
      destruct STEP as (d2 & Erun & S1 & S2 & S3 & S4).
      unfold mbind at 1 in H. rewrite Erun in H.
      assert (Hina : In n (d_active d2)) by (rewrite S3; exact Hpre).
      rewrite (active_remove_run n d2 Hina) in H. inv H.
      cbn [d_sched d_set_active] in E1. assert (cs1' = cs) by congruence. subst cs1'. constructor.
      + intros m Hm. cbn [d_active d_set_active] in Hm. apply in_filter_neq in Hm. rewrite <- S3. tauto.
      + intros m b E. cbn in E. inv E. cbn [d_active d_set_active]. intros Hm. apply in_filter_neq in Hm. tauto.
      + auto.
      + intros n' E. discriminate.
      + auto.
      + intros n' ids E. discriminate.
      + auto.
      + auto.
  Qed.

  (* ---- collectionfinish ---- *)
  Lemma handle_collfinish_xc n ids d cs d1 o1 r :
    DJ d cs -> PRE (QCollFinish n ids) d cs ->
    d_handle (QCollFinish n ids) d = (d1, o1, r) ->
    forall cs1, DJ0 d1 cs1 -> XEFFc (QCollFinish n ids) d cs d1 cs1.
  Proof.
    intros DJd (HnN & Hnew & Hids) H cs1' J1'. subst ids. pose proof DJd as (J0 & Jss). pose proof J0 as [Els J Jb Jp Jg Jc].
    pose proof (dj_sched _ _ _ _ _ J1') as E1.
    assert (SAME : forall x, (d, @nil out, x) = (d1, o1, r) ->
                   (d_shuttingdown d = false -> In n (sc_nodes cs) -> False) ->
                   XEFFc (QCollFinish n coll0) d cs d1 cs1').
    { intros x E Hno. inv E. apply xc_same.
      - unfold same_ctl. auto.
      - exact Els.
      - intros m b E. discriminate.
      - intros n' E. discriminate.
      - intros n' ids' E A B. inv E. exact (Hno A B).
      - exact E1. }
    cbn [d_handle] in H. rewrite mbind_get in H.
    destruct (d_shuttingdown d) eqn:Esd; [eapply SAME; [exact H|discriminate]|].
    rewrite Els in H. cbn [s_nodes] in H.
    destruct (mem_nat n (sc_nodes cs)) eqn:Em; cbn [negb] in H.
    2:{ eapply SAME; [exact H|]. intros _ Hin. apply mem_nat_false in Em. contradiction. }
    clear SAME. apply mem_nat_In in Em.
    unfold hook in H. rewrite mbind_emit in H. unfold mbind at 1 in H.
    rewrite (sched_op_runc _ d cs Els) in H. cbn [s_step] in H.
    destruct (sc_add_node_collection n coll0 cs) as [[csa oa] ra] eqn:Ea.
    destruct (add_coll_eff kind coll0 N _ _ _ _ _ J Em Hnew Ea) as (-> & -> & Ja & Ecsa & Ecoll).
    cbn [lift] in H. rewrite mbind_get in H. cbn [d_sched d_set_sched s_collection_is_completed app] in H.
    assert (NOSD : forall m f, aget m (sc_nt cs) = Some f -> n_sdsent f = false).
    { intros m f Ef. destruct (n_sdsent f) eqn:E; [|reflexivity].
      destruct (Jp eq_refl m f Ef E) as (C & _). congruence. }
    assert (Kn : In n (akeys (sc_reg csa))).
    { rewrite Ecsa. cbn [sc_reg sc_set_reg]. rewrite akeys_app. apply in_or_app. right. left. reflexivity. }
    assert (Kkeep : forall m, In m (akeys (sc_reg cs)) -> In m (akeys (sc_reg csa))).
    { intros m Hm. rewrite Ecsa. cbn [sc_reg sc_set_reg]. rewrite akeys_app. apply in_or_app. left. exact Hm. }
    assert (Fa : sc_nt csa = sc_nt cs /\ sc_assigned csa = sc_assigned cs /\ sc_coll csa = sc_coll cs /\ sc_wq csa = sc_wq cs)
      by (rewrite Ecsa; auto).
    destruct Fa as (Fnt & Fas & Fco & Fwq).
    clear Ecsa.
    destruct (sc_collection_is_completed csa) eqn:Eca.
    - unfold mbind at 1 in H. rewrite (sched_op_runc _ (d_set_sched d (StC csa)) csa eq_refl) in H. cbn [s_step] in H.
      destruct (sc_schedule csa) as [[cs1 o2] r2] eqn:Es. cbn [lift] in H.
      assert (Hsd : sc_coll csa = None -> forall m f, aget m (sc_nt csa) = Some f -> n_sdsent f = false).
      { intros _ m f Ef. rewrite Fnt in Ef. eapply NOSD; eauto. }
      destruct (schedule_eff kind coll0 Hne N _ _ _ _ Ja Hpos Eca Hsd Es) as (-> & J1 & Hc1 & Tnt & Tbk & Tk & Treg & Tsdp & _).
      assert (Eca0 : sc_coll csa = None) by congruence.
      destruct (schedule_served kind coll0 Hne N csa cs1 o2 Ja Hpos Eca Eca0 (Hsd Eca0) Es) as (Sv & Kp).
      unfold no_str, ret in H. inv H. cbn in E1. inv E1.
      constructor.
      + intros m Hm. exact Hm.
      + intros m b E. discriminate.
      + intros m Hm.
        assert (Hma : In m (sc_nodes csa)) by (unfold sc_nodes in *; rewrite Fas; exact Hm).
        destruct (Kp m Hma) as [X|X]; [left; exact X|right; right; exact X].
      + intros n' E. discriminate.
      + intros F. congruence.
      + intros n' ids' E _ _. inv E. rewrite Treg. exact Kn.
      + intros _ m Hm. rewrite Treg. apply Kkeep. exact Hm.
      + intros Hsd1 _ _ Hcoll Hpend m f1 Hm Ef1 Hdn.
        destruct (Sv m Hm) as [(c' & Ec' & Hsd')|[Hl|Hp]].
        * rewrite Ef1 in Ec'. inv Ec'. unfold shutting_down in Hsd'. rewrite Hdn in Hsd'. cbn in Hsd'.
          destruct (dj_p _ _ _ _ _ J1' Hsd1 m c' Ef1 Hsd') as (_ & P1). contradiction.
        * exact Hl.
        * contradiction.
    - unfold ret in H. inv H. cbn in E1. inv E1. constructor.
      + intros m Hm. exact Hm.
      + intros m b E. discriminate.
      + intros m Hm. left. unfold sc_nodes in *. rewrite Fas. exact Hm.
      + intros n' E. discriminate.
      + intros F. congruence.
      + intros n' ids' E _ _. inv E. exact Kn.
      + intros _ m Hm. apply Kkeep. exact Hm.
      + intros _ _ _ Hcoll. exfalso. apply Hcoll. rewrite Fco. exact Ecoll.
  Qed.

  Theorem handle_xc ev d cs d1 o1 r :
    DJ d cs -> d_active d <> [] -> PRE ev d cs ->
    d_handle ev d = (d1, o1, r) ->
    forall cs1, DJ0 d1 cs1 -> XEFFc ev d cs d1 cs1.
  Proof.
    intros DJd Hact Hpre H cs1 J1. pose proof (dj_sched _ _ _ _ _ J1) as E1.
    assert (QUIET : match ev with
                    | QLogStart _ _ | QLogFinish _ _ | QWarning | QReport _ _ _ _ | QCollectReport _ _ _ => True
                    | _ => False end -> XEFFc ev d cs d1 cs1).
    { intros Hq. destruct (handle_quiet ev d d1 o1 r Hq H) as (-> & S & C).
      apply xc_same.
      - exact S.
      - destruct DJd as ([Els _ _ _ _ _] & _). exact Els.
      - destruct ev; try contradiction; intros m b E; discriminate.
      - destruct ev; try contradiction; intros n' E; discriminate.
      - destruct ev; try contradiction; intros n' ids' E; discriminate.
      - exact E1. }
    destruct ev; try (apply QUIET; exact Logic.I); try (cbn in Hpre; contradiction).
    - eapply handle_ready_xc; eauto.
    - eapply handle_collfinish_xc; eauto.
    - eapply handle_complete_xc; eauto.
    - eapply handle_finished_xc; eauto.
  Qed.

  (* ====================================================================================== *)
  (* B.3 the end of the iteration                                                            *)
  (* ====================================================================================== *)
  Lemma loop_rest_sdc d cs d' o :
    d_sched d = StC cs -> loop_rest d = (d', o, Ok tt) -> forall cs', d_sched d' = StC cs' ->
    d_shuttingdown d = false -> d_shuttingdown d' = true ->
    forall m, In m (sc_nodes cs) -> sd_in (sc_nt cs') m.
  Proof.
    intros Els H cs' E' Hsd Hsd' m Hm. unfold loop_rest in H.
    apply LoadProofs.mbind_inv in H.
    destruct H as [(e & _ & F)|(d2 & o3 & [] & o4 & Hmid & H & ->)]; [discriminate|].
    apply LoadProofs.mbind_inv in Hmid.
    destruct Hmid as [(e & _ & F)|(t1 & p1 & a & p2 & Hg & Hmid & ->)]; [discriminate|].
    unfold get in Hg. injection Hg as <- <- <-.
    apply LoadProofs.mbind_inv in H.
    destruct H as [(e & _ & F)|(t2 & p3 & a2 & p4 & Hg & H & ->)]; [discriminate|].
    unfold get in Hg. injection Hg as <- <- <-.
    assert (NT : d_nt d' = sc_nt cs') by (unfold d_nt; rewrite E'; reflexivity).
    assert (Hm0 : In m (s_nodes (d_sched d))) by (rewrite Els; exact Hm).
    destruct (s_tests_finished (d_sched d)) eqn:Efin.
    - apply LivenessLaws.d_triggershutdown_spec in Hmid.
      destruct Hmid as (A & _ & Ball & _).
      pose proof (Ball Hsd m Hm0) as X.
      destruct (d_shouldstop d2) eqn:Estop.
      + apply LivenessLaws.d_triggershutdown_spec in H. destruct H as (_ & Hsame & _).
        destruct (Hsame A) as (-> & _). rewrite <- NT. exact X.
      + unfold ret in H. inv H. rewrite <- NT. exact X.
    - unfold ret in Hmid. inv Hmid.
      destruct (d_shouldstop d2) eqn:Estop.
      + apply LivenessLaws.d_triggershutdown_spec in H. destruct H as (_ & _ & Ball & _).
        rewrite <- NT. exact (Ball Hsd m Hm0).
      + unfold ret in H. inv H. congruence.
  Qed.

  Record LXEFFc (ev : cevent) (d : dstate) (cs : scstate) (d' : dstate) (cs' : scstate) : Prop := {
    lc_act_sub : forall m, In m (d_active d') -> In m (d_active d);
    lc_act_fin : forall m b, ev_sig ev = Some (m, SgFin b) -> ~ In m (d_active d');
    lc_nodes_keep : forall m, In m (sc_nodes cs) ->
                    In m (sc_nodes cs') \/ (exists b, ev_sig ev = Some (m, SgFin b)) \/ sd_in (sc_nt cs') m;
    lc_ready : forall n, ev = QReady n -> In n (sc_nodes cs') \/ sd_in (sc_nt cs') n;
    lc_cf : forall n ids, ev = QCollFinish n ids -> d_shuttingdown d' = false -> In n (sc_nodes cs) ->
            In n (akeys (sc_reg cs'));
    lc_n2c_keep : d_shuttingdown d' = false -> forall m, In m (akeys (sc_reg cs)) -> In m (akeys (sc_reg cs'));
    lc_two : d_shuttingdown d' = false -> TwoC cs -> (forall n, ev = QReady n -> sc_coll cs = None) -> TwoC cs';
    lc_tf : d_shuttingdown d' = false -> sc_tests_finished cs' = false;
    lc_sd : d_shuttingdown d' = true ->
            (d_shuttingdown d = true -> forall m, In m (sc_nodes cs) -> sd_in (sc_nt cs) m) ->
            forall m, In m (sc_nodes cs') -> sd_in (sc_nt cs') m;
  }.

  Theorem loop_xc ev d cs d' o r :
    DJ d cs -> d_active d <> [] -> PRE ev d cs ->
    d_loop_once ev d = (d', o, r) -> forall cs', d_sched d' = StC cs' -> LXEFFc ev d cs d' cs'.
  Proof.
    intros DJd Hact Hpre H cs' E'. rewrite loop_once_unfold in H.
    apply LoadProofs.mbind_inv in H. destruct H as [(e & H1 & ->)|(d1 & o1 & a & o2 & H1 & H2 & ->)].
    { destruct (handle_effc kind coll0 Hne N Hpos _ _ _ _ _ _ DJd Hact Hpre H1) as (F & _). discriminate. }
    destruct (handle_effc kind coll0 Hne N Hpos _ _ _ _ _ _ DJd Hact Hpre H1) as (_ & cs1 & E1).
    pose proof (he_dj _ _ _ _ _ _ _ _ _ E1) as J1.
    pose proof (handle_xc _ _ _ _ _ _ DJd Hact Hpre H1 cs1 J1) as X1.
    pose proof H2 as H2'.
    destruct (loop_rest_effc kind coll0 N _ _ _ _ _ J1 H2) as (-> & cs2 & -> & T & J2 & P & B & Same).
    cbn in E'. inv E'.
    pose proof (he_sd _ _ _ _ _ _ _ _ _ E1) as Hsd1.
    assert (SDF : d_shuttingdown d1 || sc_tests_finished cs1 || d_shouldstop d1 = false ->
                  d_shuttingdown d1 = false /\ sc_tests_finished cs1 = false /\ cs' = cs1).
    { intros E. destruct (Same E) as (-> & _). apply orb_false_iff in E. destruct E as (E & E3).
      apply orb_false_iff in E. destruct E as (E1' & E2). auto. }
    assert (Knodes : sc_nodes cs' = sc_nodes cs1) by (unfold sc_nodes; rewrite B; reflexivity).
    assert (SDM : forall m, sd_in (sc_nt cs1) m -> sd_in (sc_nt cs') m).
    { intros m Hm. exact (SE0_sd_in coll0 cs1 cs' o2 m T Hm). }
    constructor; unfold d_withc; dprojc.
    - apply (xc_act_sub _ _ _ _ _ X1).
    - apply (xc_act_fin _ _ _ _ _ X1).
    - intros m Hm. rewrite Knodes. destruct (xc_nodes_keep _ _ _ _ _ X1 m Hm) as [Y|[Y|Y]]; auto.
    - intros n E. pose proof (xc_ready _ _ _ _ _ X1 n E) as X. destruct (d_shuttingdown d).
      + right. apply SDM. exact X.
      + left. rewrite Knodes. exact X.
    - intros n ids E Hsd Hin. destruct (SDF Hsd) as (A & _ & ->). rewrite Hsd1 in A.
      exact (xc_cf _ _ _ _ _ X1 n ids E A Hin).
    - intros Hsd m Hm. destruct (SDF Hsd) as (A & _ & ->). rewrite Hsd1 in A.
      exact (xc_n2c_keep _ _ _ _ _ X1 A m Hm).
    - intros Hsd HT Hr. destruct (SDF Hsd) as (A & _ & ->). exact (xc_two _ _ _ _ _ X1 A HT Hr).
    - intros Hsd. destruct (SDF Hsd) as (_ & A & ->). exact A.
    - intros Hsd Hold m Hm. rewrite Knodes in Hm. destruct (d_shuttingdown d1) eqn:Esd1.
      + apply SDM. symmetry in Hsd1.
        apply (NRo_sd_in _ _ _ (he_nt _ _ _ _ _ _ _ _ _ E1 m)). apply (Hold Hsd1).
        apply (xc_nodes_sd _ _ _ _ _ X1 Hsd1). exact Hm.
      + eapply (loop_rest_sdc d1 cs1); eauto. apply (dj_sched _ _ _ _ _ J1).
  Qed.
End CtlXc.

(* ====================================================================================== *)
(* C. the progress invariant                                                               *)
(* ====================================================================================== *)
Lemma flagsup_proj_same coll0 cs : FlagsUp (proj coll0 cs) (proj coll0 cs).
Proof. intros k. cbn [proj l_nt]. destruct (aget k (sc_nt cs)); auto. Qed.

Lemma flagsup_proj_down coll0 cs n f :
  aget n (sc_nt cs) = Some f ->
  FlagsUp (proj coll0 cs) (proj coll0 (sc_set_nt cs (aset n (down_flag f) (sc_nt cs)))).
Proof.
  intros Ef k. cbn [proj l_nt sc_set_nt sc_nt]. rewrite LoadProofs.aget_aset. destruct (Nat.eqb k n) eqn:E.
  - apply Nat.eqb_eq in E. subst k. rewrite Ef. cbn. auto.
  - destruct (aget k (sc_nt cs)); auto.
Qed.

Section SysPc.
Variable c : config.
Variable kind : scope_kind.
Notation N := (c_numnodes c).
Notation coll0 := (c_coll c 0).
Hypothesis Hnc : forall n i, c_crash_in c n i = false.
Hypothesis Hng : no_garbled c.
Hypothesis Hne : ~ In ""%string coll0.
Hypothesis Hsame : forall n, c_coll c n = coll0.
Hypothesis Hpos : 0 < N.

Notation SJc := (SJ kind coll0 N).
Notation DJc := (DJ kind coll0 N).
Notation LEFFc := (LEFF kind coll0 N).
Notation TwoCc := (TwoC coll0).

Record PCc (d : dstate) (cs : scstate) : Prop := {
  pcc_tf : d_shuttingdown d = false -> sc_tests_finished cs = false;
  pcc_two : d_shuttingdown d = false -> TwoCc cs;
  pcc_sd : d_shuttingdown d = true -> forall m, In m (sc_nodes cs) -> sd_in (sc_nt cs) m;
  pcc_act : forall m, In m (d_active d) -> m < N;
}.

Definition PInvc (s : sys) : Prop :=
  exists cs, d_sched (y_d s) = StC cs /\ PCc (y_d s) cs /\
    forall n w, aget n (y_w s) = Some w ->
      PN (d_active (y_d s)) (d_shuttingdown (y_d s)) (proj coll0 cs) n (sigs s n) (alist_get [] n (y_down s)) w.

Lemma PInvc_set_result s r : PInvc s -> PInvc (set_result s r).
Proof. intros H. exact H. Qed.

(* ---- one iteration of the controller loop, seen from node n ---- *)
Lemma PN_ctlc ev d cs d' cs' o n L' dn w :
  LEFFc ev d cs d' cs' o -> LXEFFc coll0 ev d cs d' cs' ->
  DJc d cs ->
  NI (proj coll0 cs) (d_active d) (d_shouldstop d) n (ev_sigs_for n ev ++ L') dn w ->
  (forall f', aget n (sc_nt cs') = Some f' -> n_down f' = true -> wph w = PExited) ->
  PN (d_active d) (d_shuttingdown d) (proj coll0 cs) n (ev_sigs_for n ev ++ L') dn w ->
  PN (d_active d') (d_shuttingdown d') (proj coll0 cs') n L' (dn ++ cmds_to n o) w.
Proof.
  intros LE LX (J0 & Jss) X Hdown [A B C D E F]. pose proof J0 as [Els J Jb Jp Jg Jc].
  pose proof (ni_chan _ _ _ _ _ _ _ X) as Ch.
  destruct (ni_flags _ _ _ _ _ _ _ X) as (f0 & Ef0 & _). cbn [proj l_nt] in Ef0.
  rewrite proj_nodes in A. cbn [proj l_nt l_n2c] in A, B, C, E.
  assert (HnN : n < N) by (apply (sj_ntk _ _ _ _ J); congruence).
  assert (Hsub : forall g, In g L' -> In g (ev_sigs_for n ev ++ L')) by (intros g Hg; apply in_or_app; right; exact Hg).
  assert (SDd : d_shuttingdown d' = false -> d_shuttingdown d = false).
  { intros Hs. destruct (d_shuttingdown d) eqn:Esd; [|reflexivity]. rewrite (le_sd _ _ _ _ _ _ _ _ _ LE Esd) in Hs. discriminate. }
  assert (SDN : wph w <> PExited -> sd_in (sc_nt cs') n -> exists f, aget n (sc_nt cs') = Some f /\ n_sdsent f = true).
  { intros Hnx (f' & Ef' & Hs'). exists f'. split; [exact Ef'|]. unfold shutting_down in Hs'.
    destruct (n_down f') eqn:Edn; [exfalso; exact (Hnx (Hdown f' Ef' Edn))|exact Hs']. }
  constructor; rewrite ?proj_nodes; cbn [proj l_nt l_n2c].
  - intros Hact Hnb Hnx. pose proof (lc_act_sub _ _ _ _ _ _ LX n Hact) as Hact0.
    destruct (A Hact0 Hnb Hnx) as [Hi|[Hi|(f & Ef & Hs)]].
    + apply in_app_or in Hi. destruct Hi as [Hi|Hi]; [|left; exact Hi].
      apply ev_sigs_for_in, ev_sig_ready in Hi.
      destruct (lc_ready _ _ _ _ _ _ LX n Hi) as [Y|Y]; [right; left; exact Y|].
      right. right. exact (SDN Hnx Y).
    + destruct (lc_nodes_keep _ _ _ _ _ _ LX n Hi) as [Y|[(b & Hev)|Y]]; [right; left; exact Y| |].
      * exfalso. exact (lc_act_fin _ _ _ _ _ _ LX n b Hev Hact).
      * right. right. exact (SDN Hnx Y).
    + right. right. pose proof (le_nt _ _ _ _ _ _ _ _ _ LE n) as R. rewrite Ef in R.
      destruct (aget n (sc_nt cs')) as [f'|] eqn:Ef'; [|destruct R]. cbn in R.
      exists f'. split; [reflexivity|]. destruct (NR_fields _ _ _ R) as (_ & _ & _ & Dsd & _). apply Dsd. left. exact Hs.
  - intros Hsd' Hact Hr Hnx. pose proof (lc_act_sub _ _ _ _ _ _ LX n Hact) as Hact0. pose proof (SDd Hsd') as Hsd.
    destruct (B Hsd Hact0 Hr Hnx) as [Hi|Hi].
    + apply in_app_or in Hi. destruct Hi as [Hi|Hi]; [|left; exact Hi].
      right. apply ev_sigs_for_in in Hi. pose proof Hi as Hev. apply ev_sig_cf in Hi. destruct Hi as (ids & ->).
      apply (lc_cf _ _ _ _ _ _ LX n ids eq_refl Hsd').
      rewrite (ev_sigs_for_self _ _ _ Hev) in *. cbn [app] in *.
      assert (Hnb : wph w <> PBoot) by (intros Eb; rewrite Eb in Hr; cbn in Hr; lia).
      assert (Hnc2 : ~ In n (akeys (sc_reg cs))).
      { intros Hin. destruct (ni_n2c _ _ _ _ _ _ _ X Hin) as (Y & _). apply Y. left. reflexivity. }
      destruct (A Hact0 Hnb Hnx) as [[Y|Y]|[Y|(f & Ef & Hs)]].
      * discriminate.
      * exfalso. destruct (chan_ok_head _ _ _ Ch) as (_ & Fa). rewrite Forall_forall in Fa.
        specialize (Fa _ Y). unfold prec in Fa. cbn in Fa. lia.
      * exact Y.
      * exfalso. destruct (Jp Hsd n f Ef Hs) as (Cc & _).
        destruct (sc_coll cs) as [cl|] eqn:Ecl; [|contradiction].
        destruct (sj_coll _ _ _ _ J cl Ecl) as (_ & Hcomp).
        rewrite (not_completed kind coll0 N cs n J HnN Hnc2) in Hcomp. discriminate.
    + right. exact (lc_n2c_keep _ _ _ _ _ _ LX Hsd' n Hi).
  - intros Hin Hi. destruct (le_n2c _ _ _ _ _ _ _ _ _ LE n Hin) as [Hold|Hev].
    + apply (C Hold). apply Hsub. exact Hi.
    + rewrite (ev_sigs_for_self _ _ _ Hev) in Ch. cbn [app] in Ch.
      destruct (chan_ok_head _ _ _ Ch) as (_ & Fa). rewrite Forall_forall in Fa.
      specialize (Fa _ Hi). unfold prec in Fa. cbn in Fa. lia.
  - intros Hex Hact. pose proof (lc_act_sub _ _ _ _ _ _ LX n Hact) as Hact0.
    destruct (D Hex Hact0) as (b & Hi). apply in_app_or in Hi. destruct Hi as [Hi|Hi]; [|exists b; exact Hi].
    exfalso. apply ev_sigs_for_in in Hi. exact (lc_act_fin _ _ _ _ _ _ LX n b Hi Hact).
  - intros f' Ef' Hs. pose proof (le_nt _ _ _ _ _ _ _ _ _ LE n) as R. rewrite Ef', Ef0 in R. cbn in R.
    destruct (NR_fields _ _ _ R) as (_ & _ & _ & Dsd & _). apply Dsd in Hs.
    rewrite flat_map_app, app_assoc. apply in_or_app. destruct Hs as [Hs|Hs].
    + left. exact (E f0 Ef0 Hs).
    + right. apply in_flat_map. exists CShutdown. split; [exact Hs|left; reflexivity].
  - exact F.
Qed.

Lemma PInvc_init : c_mode c = MScope kind -> PInvc (sys_init c).
Proof.
  intros Hm. unfold PInvc. cbn [sys_init y_d d_sched]. rewrite Hm. cbn [s_init s_set_nt].
  eexists. split; [reflexivity|]. split.
  - constructor; cbn [d_shuttingdown].
    + intros _. unfold sc_tests_finished, sc_collection_is_completed.
      cbn [sc_set_nt sc_init sc_numnodes sc_reg length].
      destruct N; [lia|]. reflexivity.
    + intros _ Hc. exfalso. apply Hc. reflexivity.
    + discriminate.
    + cbn [d_active]. intros m Hin. apply in_seq in Hin. lia.
  - intros n w Ew. cbn [sys_init y_w] in Ew. apply aget_map_const in Ew. subst w.
    constructor; rewrite ?proj_nodes; cbn [proj l_nt l_n2c sc_set_nt sc_init sc_nt sc_reg w_init wph prank].
    + intros _ Fb. exfalso. apply Fb. reflexivity.
    + intros _ _ Fb. lia.
    + cbn. intros [].
    + discriminate.
    + intros f Ef Hs. rewrite (aget_init_nt_sd c n f Ef) in Hs. discriminate.
    + exact CB_init.
Qed.

Lemma pinv_pushc s n0 w0 w' evs cs :
  d_sched (y_d s) = StC cs -> PCc (y_d s) cs ->
  (forall n w, aget n (y_w s) = Some w ->
     PN (d_active (y_d s)) (d_shuttingdown (y_d s)) (proj coll0 cs) n (sigs s n) (alist_get [] n (y_down s)) w) ->
  aget n0 (y_w s) = Some w0 ->
  PN (d_active (y_d s)) (d_shuttingdown (y_d s)) (proj coll0 cs) n0 (sigs s n0 ++ flat_map we_sig evs) (alist_get [] n0 (y_down s)) w' ->
  PInvc (push_up (set_w s n0 w') n0 (map (up_of_wevent c n0) evs)).
Proof.
  intros Els PCd PNs Ew X.
  set (s' := push_up (set_w s n0 w') n0 (map (up_of_wevent c n0) evs)).
  assert (Sg : forall n, sigs s' n = if Nat.eqb n n0 then sigs s n0 ++ flat_map we_sig evs else sigs s n).
  { intros n. unfold sigs, s'. cbn [push_up set_w y_evq y_up]. destruct (Nat.eqb n n0) eqn:E.
    - apply Nat.eqb_eq in E. subst n. rewrite alist_get_aset_eq, flat_map_app, up_sigs_of_wevents, app_assoc. reflexivity.
    - apply Nat.eqb_neq in E. rewrite alist_get_aset_neq by exact E. reflexivity. }
  exists cs. split; [exact Els|]. split; [exact PCd|].
  intros n w Hw. rewrite Sg. unfold s' in Hw |- *. cbn [push_up set_w y_w y_d y_down] in Hw |- *.
  destruct (Nat.eqb n n0) eqn:E.
  - apply Nat.eqb_eq in E. subst n. rewrite aget_aset_eq in Hw. inv Hw. exact X.
  - apply Nat.eqb_neq in E. rewrite aget_aset_neq in Hw by exact E. apply PNs. exact Hw.
Qed.

(* ---- the one-step lemma ---- *)
Lemma step_pinvc s l s' o w :
  no_crash_label l -> XInv c kind s -> PInvc s -> sys_step c s l = Some (s', o, w) -> PInvc s'.
Proof.
  intros Hl XI (csp & Elsp & PCd & PNs) H.
  pose proof (step_xinv c kind Hnc Hng Hne Hsame Hpos s l s' o w Hl XI H) as XI'.
  pose proof XI as [Inv Ek (cs & DJd & NIs) Eq Eu Edn Ea Er Epm Efn Edw].
  pose proof Inv as [A B (cs0 & Bk & Ecs0 & I & St & T) D E F G NG].
  pose proof DJd as (J0 & Jss). pose proof J0 as [Els J Jb Jp Jg Jc].
  assert (cs0 = cs) by congruence. subst cs0. assert (csp = cs) by congruence. subst csp.
  unfold sys_step in H. destruct (y_result s) eqn:Eres; [discriminate|].
  destruct l as [n0|n0|n0|n0| |n0]; [| | | | |contradiction].
  - (* LDeliver *)
    replace (mem_nat n0 (y_dead s)) with false in H by (rewrite A; reflexivity).
    destruct (aget n0 (y_down s)) as [[|cmd rest]|] eqn:Ed; try discriminate.
    destruct (aget n0 (y_w s)) as [w0|] eqn:Ew; try discriminate.
    fin3 H s' o w.
    exists cs. split; [exact Els|]. split; [exact PCd|].
    intros n w Hw. unfold sigs. cbn [y_d y_down y_evq y_up y_w] in *. fold (sigs s n).
    destruct (Nat.eq_dec n n0) as [->|Hn].
    + rewrite aget_aset_eq in Hw. inv Hw. rewrite alist_get_aset_eq.
      apply PN_deliver. pose proof (PNs n0 w0 Ew) as X. rewrite (alist_get_some [] _ _ _ Ed) in X. exact X.
    + rewrite aget_aset_neq in Hw by exact Hn. rewrite alist_get_aset_neq by exact Hn. apply PNs. exact Hw.
  - (* LRecvW *)
    replace (mem_nat n0 (y_dead s)) with false in H by (rewrite A; reflexivity).
    destruct (aget n0 (y_w s)) as [w0|] eqn:Ew; try discriminate.
    destruct (negb (wcb w0)); [discriminate|].
    destruct (recv_step (c_oracle c n0) w0) as [w' evs] eqn:Es. fin3 H s' o w.
    destruct (G _ _ Ew) as (Iw & Gw).
    destruct (NI_recv (c_oracle c n0) _ _ _ _ _ _ _ Gw (NIs n0 w0 Ew)) as (Ev & _). rewrite Es in Ev. cbn [snd] in Ev.
    subst evs.
    apply pinv_pushc with (w0 := w0) (cs := cs); auto.
    cbn [flat_map]. rewrite app_nil_r.
    pose proof (PN_recv (c_oracle c n0) _ _ _ _ _ _ _ Gw (proj1 (ni_wx _ _ _ _ _ _ _ (NIs n0 w0 Ew))) (PNs n0 w0 Ew)) as X.
    rewrite Es in X. exact X.
  - (* LMain *)
    replace (mem_nat n0 (y_dead s)) with false in H by (rewrite A; reflexivity).
    destruct (aget n0 (y_w s)) as [w0|] eqn:Ew; try discriminate.
    assert (Hd : dies_now c n0 w0 = false).
    { unfold dies_now. destruct (wph w0); auto. }
    rewrite Hd in H.
    destruct (main_step (c_oracle c n0) w0) as [[w' evs]|] eqn:Es; [|discriminate]. fin3 H s' o w.
    apply pinv_pushc with (w0 := w0) (cs := cs); auto.
    eapply PN_main; [exact (NIs n0 w0 Ew)|exact (PNs n0 w0 Ew)|exact Es].
  - (* LRecv *)
    destruct (aget n0 (y_up s)) as [[|m rest]|] eqn:Eup; try discriminate.
    cbn [y_d] in H.
    destruct (process_from_remote n0 m (y_d s)) as [[d' outs] r] eqn:Ep.
    pose proof (E n0) as En. rewrite (alist_get_some [] _ _ _ Eup) in En.
    inversion En as [|m1 r1 Gm Gr]; subst.
    destruct (Eu n0) as (Eu1 & Eu2). rewrite (alist_get_some [] _ _ _ Eup) in Eu1, Eu2.
    inversion Eu1 as [|m2 r2 Gm3 Gr3]; subst.
    assert (HnN : n0 < N).
    { destruct (Nat.lt_ge_cases n0 N) as [X|X]; [exact X|]. specialize (Eu2 X). discriminate. }
    destruct (aget n0 (sc_nt cs)) as [f|] eqn:Ef.
    2:{ exfalso. apply (proj2 (sj_ntk _ _ _ _ J n0)); [exact HnN|exact Ef]. }
    destruct (worker_known c s n0 Ek HnN) as (wn & Ewn).
    assert (Hdn : n_down f = true -> up_sig m = []).
    { intros Hd. destruct (Edw cs n0 f wn Els Ef Hd Ewn) as (X & _).
      rewrite (alist_get_some [] _ _ _ Eup) in X. cbn [flat_map] in X. apply app_eq_nil in X. tauto. }
    destruct (pfr_effc c _ _ _ _ _ _ _ _ Els Ef Gm Gm3 HnN Hdn Ep)
      as (-> & evs & cs' & -> & Els' & Hsig & Hok3 & S1 & S2 & S3 & Hcs').
    cbn [apply_outs] in H. unfold close_if_dead in H. cbn [set_evq set_d y_dead] in H.
    replace (mem_nat n0 (y_dead s)) with false in H by (rewrite A; reflexivity).
    fin3 H s' o w.
    assert (FX : FlagsUp (proj coll0 cs) (proj coll0 cs') /\ sc_assigned cs' = sc_assigned cs /\
                 sc_reg cs' = sc_reg cs /\ sc_coll cs' = sc_coll cs /\ sc_wq cs' = sc_wq cs /\
                 sc_numnodes cs' = sc_numnodes cs).
    { destruct Hcs' as [->|(-> & _)].
      - split; [apply flagsup_proj_same|]. repeat split.
      - split; [apply flagsup_proj_down; exact Ef|]. repeat split. }
    destruct FX as (FU & P1 & P2 & P4 & P3 & P6).
    assert (Ebk : forall k, bookn coll0 cs' k = bookn coll0 cs k) by (intros k; unfold bookn; rewrite P1; reflexivity).
    exists cs'. cbn [set_evq set_d y_d y_evq y_down y_up y_w y_dead y_result]. split; [exact Els'|].
    destruct PCd as [Ptf Ptwo Psd Pact]. split.
    + constructor; rewrite ?S1, ?S3; [| | |exact Pact].
      * intros Hs. rewrite <- (Ptf Hs). unfold sc_tests_finished, sc_collection_is_completed.
        rewrite P6, P2, P3, P1. reflexivity.
      * intros Hs Hc Hq k f' Hk Ef' Hdn'. rewrite P4 in Hc. rewrite P3 in Hq. rewrite Ebk.
        unfold sc_nodes in Hk. rewrite P1 in Hk.
        specialize (FU k). cbn [proj l_nt] in FU. rewrite Ef' in FU.
        destruct (aget k (sc_nt cs)) as [f0|] eqn:Ef0; [|destruct FU]. destruct FU as (_ & X).
        apply (Ptwo Hs Hc Hq k f0 Hk Ef0).
        destruct (n_down f0); [rewrite (X eq_refl) in Hdn'; discriminate|reflexivity].
      * intros Hs m0 Hm0. apply (flagsup_sd_in (proj coll0 cs) (proj coll0 cs') m0 FU). cbn [proj l_nt]. apply (Psd Hs).
        unfold sc_nodes in *. rewrite P1 in Hm0. exact Hm0.
    + intros n w Hw. unfold sigs. cbn [set_evq set_d y_d y_down y_evq y_up].
      assert (Esg : evq_sigs n (y_evq s ++ evs) ++ flat_map up_sig (alist_get [] n (aset n0 rest (y_up s))) = sigs s n).
      { unfold sigs. rewrite evq_sigs_app, Hsig. destruct (Nat.eqb n0 n) eqn:E0.
        - apply Nat.eqb_eq in E0. subst n. rewrite alist_get_aset_eq, (alist_get_some [] _ _ _ Eup).
          cbn [flat_map]. rewrite <- app_assoc. reflexivity.
        - apply Nat.eqb_neq in E0. rewrite alist_get_aset_neq by congruence. rewrite app_nil_r. reflexivity. }
      rewrite Esg, S1, S3. apply (PN_flags _ _ (proj coll0 cs) (proj coll0 cs') _ _ _ _ FU).
      * cbn [proj l_n2p]. rewrite P1. reflexivity.
      * cbn [proj l_n2c]. exact P2.
      * apply PNs. exact Hw.
  - (* LCtl *)
    specialize (Ea eq_refl).
    destruct (d_active (y_d s)) as [|a0 ar] eqn:Eact; [contradiction|].
    destruct (y_evq s) as [|ev q] eqn:Eevq; [discriminate|].
    inversion D as [|ev1 q1 Gev Gq]; subst. inversion Eq as [|ev2 q2 Gev3 Gq3]; subst.
    destruct (d_loop_once ev (y_d s)) as [[d' outs] r] eqn:El.
    assert (Hpre : PRE coll0 N ev (y_d s) cs).
    { eapply pre_from_invc; eauto. }
    assert (Hact : d_active (y_d s) <> []) by (rewrite Eact; discriminate).
    destruct (loop_once_okc kind coll0 Hne N Hpos ev (y_d s) cs d' outs r DJd Hact Hpre El) as (-> & cs' & LE).
    destruct (dok_loop_once kind coll0 Hne ev (y_d s) Gev _ _ _ El cs Els I) as (cs2 & Els2 & _ & HCT).
    assert (Els' : d_sched d' = StC cs').
    { destruct (le_dj _ _ _ _ _ _ _ _ _ LE) as ([E1 _ _ _ _ _] & _). exact E1. }
    pose proof (loop_xc kind coll0 Hne N Hpos ev (y_d s) cs d' outs (Ok tt) DJd Hact Hpre El cs' Els') as LX.
    pose proof HCT as (us & _ & _ & Go).
    set (s1 := apply_outs (set_d (set_evq s q) d') outs) in *.
    assert (Hd1 : y_dead (set_d (set_evq s q) d') = []) by (cbn; exact A).
    destruct (apply_outs_eff outs _ Hd1 Go) as (A1 & A2 & A3 & A4 & A5 & A6 & A7).
    cbn [set_d set_evq y_d y_evq y_up y_w y_dead y_result y_down] in A1, A2, A3, A4, A5, A6, A7.
    fold s1 in A1, A2, A3, A4, A5, A6, A7.
    (* the successor state is s1 up to the result *)
    assert (S' : exists rr, s' = set_result s1 rr).
    { destruct (d_session_finished d') eqn:Efin.
      - fin3 H s' o w. eexists. reflexivity.
      - destruct (d_active d') as [|b0 br] eqn:Eact'.
        + exfalso. pose proof (le_fin _ _ _ _ _ _ _ _ _ LE) as Hf. rewrite Eact' in Hf. specialize (Hf eq_refl).
          unfold d_session_finished in Efin. rewrite Hf, Eact' in Efin. discriminate.
        + fin3 H s' o w. exists (y_result s1). symmetry. apply set_result_same. reflexivity. }
    destruct S' as (rr & ->).
    assert (CI1 : forall cs1 n f w, d_sched (y_d s1) = StC cs1 -> aget n (sc_nt cs1) = Some f -> n_down f = true ->
                  aget n (y_w s1) = Some w -> wph w = PExited).
    { intros cs1 n1 f1 w1 X1 X2 X3 X4. exact (proj2 (xi_dn _ _ _ XI' cs1 n1 f1 w1 X1 X2 X3 X4)). }
    apply PInvc_set_result.
    exists cs'. rewrite A1. split; [exact Els'|]. destruct PCd as [Ptf Ptwo Psd Pact]. split.
    + constructor.
      * exact (lc_tf _ _ _ _ _ _ LX).
      * intros Hs. apply (lc_two _ _ _ _ _ _ LX Hs).
        -- apply Ptwo. destruct (d_shuttingdown (y_d s)) eqn:Esd; [|reflexivity].
           rewrite (le_sd _ _ _ _ _ _ _ _ _ LE Esd) in Hs. discriminate.
        -- intros n -> . destruct Gev3 as (_ & HnN). cbn in HnN.
           destruct (worker_known c s n Ek HnN) as (wn & Ewn).
           pose proof (pn_nr _ _ _ _ _ _ _ (PNs n wn Ewn)) as Hnr. cbn [proj l_n2c] in Hnr.
           rewrite (sigs_head s _ q n Eevq) in Hnr. rewrite (ev_sigs_for_self n (QReady n) SgReady eq_refl) in Hnr.
           destruct (sc_coll cs) as [cl|] eqn:Ecl; [|reflexivity]. exfalso.
           assert (Hni : ~ In n (akeys (sc_reg cs))) by (intros Hin; apply (Hnr Hin); left; reflexivity).
           destruct (sj_coll _ _ _ _ J cl Ecl) as (_ & Hcomp).
           rewrite (not_completed kind coll0 N cs n J HnN Hni) in Hcomp. discriminate.
      * intros Hs. apply (lc_sd _ _ _ _ _ _ LX Hs). exact Psd.
      * intros m Hm. apply Pact. exact (lc_act_sub _ _ _ _ _ _ LX m Hm).
    + intros n w1 Hw. rewrite A4 in Hw. rewrite A7.
      assert (Es : sigs s1 n = evq_sigs n q ++ flat_map up_sig (alist_get [] n (y_up s))).
      { unfold sigs. rewrite A2, A3. reflexivity. }
      rewrite Es. eapply PN_ctlc; [exact LE|exact LX|exact DJd| | |].
      * rewrite <- (sigs_head s ev q n Eevq). apply NIs. exact Hw.
      * intros f' Ef' Hdn'. apply (CI1 cs' n f' w1); auto; [rewrite A1; exact Els'|rewrite A4; exact Hw].
      * rewrite <- (sigs_head s ev q n Eevq). rewrite Eact. apply PNs. exact Hw.
Qed.

Lemma pinvc_run ls :
  c_mode c = MScope kind -> Forall no_crash_label ls -> XInv c kind (sys_run c ls) /\ PInvc (sys_run c ls).
Proof.
  intros Hm Hls. unfold sys_run.
  assert (G : forall s, XInv c kind s /\ PInvc s ->
     let s' := fold_left (fun s l => match sys_step c s l with Some (s', _, _) => s' | None => s end) ls s in
     XInv c kind s' /\ PInvc s').
  { induction Hls as [|l ls Hl Hls IH]; intros s Hs; cbn [fold_left]; [exact Hs|].
    apply IH. destruct (sys_step c s l) as [[[s' o] w]|] eqn:E; [|exact Hs].
    destruct Hs as (H1 & H2). split; [eapply (step_xinv c kind Hnc Hng Hne Hsame Hpos); eauto|eapply step_pinvc; eauto]. }
  apply G. split; [apply XInv_init; assumption|apply PInvc_init; assumption].
Qed.
End SysPc.

(* ====================================================================================== *)
(* D. quiescent states cannot occur while the session is running                           *)
(* ====================================================================================== *)
(* "useful", the per-node search for a useful enabled move (node_label, find_label) and "quiet" are
   those of Progress.v: they do not depend on the scheduling mode *)
Section SysDc.
Variable c : config.
Variable kind : scope_kind.
Notation N := (c_numnodes c).
Notation coll0 := (c_coll c 0).
Hypothesis Hnc : forall n i, c_crash_in c n i = false.
Hypothesis Hpos : 0 < N.

Lemma quiescent_falsec s :
  XInv c kind s -> PInvc c s -> y_result s = None -> y_evq s = [] ->
  (forall n w, aget n (y_w s) = Some w -> quiet c s n w) -> False.
Proof.
  intros XI (csp & Elsp & PCd & PNs) Hres Hevq HQ.
  pose proof XI as [Inv Ek (cs & DJd & NIs) Eq Eu Edn Ea Er Epm Efn Edw].
  pose proof Inv as [A B (cs0 & Bk & Ecs0 & I & St & T) D E F G NG].
  pose proof DJd as (J0 & Jss). pose proof J0 as [Els J Jb Jp Jg Jc].
  assert (cs0 = cs) by congruence. subst cs0. assert (csp = cs) by congruence. subst csp.
  destruct PCd as [Ptf Ptwo Psd Pact].
  assert (SG : forall n w, aget n (y_w s) = Some w -> sigs s n = []).
  { intros n w Hw. destruct (HQ n w Hw) as (_ & Hu & _). unfold sigs. rewrite Hevq, Hu. reflexivity. }
  (* an active node: its worker waits at an empty queue, was not told to shut down, holds <= 1 test *)
  assert (ACT : forall n, In n (d_active (y_d s)) -> exists w f, aget n (y_w s) = Some w /\ aget n (sc_nt cs) = Some f /\
            wph w <> PExited /\ 2 <= prank (wph w) /\ n_sdsent f = false /\ n_down f = false /\
            length (bookn coll0 cs n) <= 1 /\ In n (sc_nodes cs)).
  { intros n Hact. pose proof (Pact n Hact) as HnN. destruct (worker_known c s n Ek HnN) as (w & Ew).
    pose proof (NIs n w Ew) as X. unfold NInvc in X. pose proof (PNs n w Ew) as Y. rewrite (SG n w Ew) in X, Y.
    destruct (HQ n w Ew) as (Hd & Hu & Hb & Hm). rewrite Hd in X, Y.
    destruct (ni_flags _ _ _ _ _ _ _ X) as (f & Ef & Mk). cbn [proj l_nt] in Ef. exists w, f. split; [exact Ew|]. split; [exact Ef|].
    assert (Hnx : wph w <> PExited).
    { intros Ex. destruct (pn_fin _ _ _ _ _ _ _ Y Ex Hact) as (b & []). }
    apply LivenessLaws.V6_main_step_blocked in Hm.
    destruct (G n w Ew) as (Iw & _). pose proof (inv_phase w Iw) as PI. unfold phase_inv in PI.
    assert (BL : wq w = [] /\ wcb w = true /\ 2 <= prank (wph w) /\ wph w <> PBoot /\
                 ~ In Mark (map snd (wpopped w)) /\ length (owed_main w) <= 1).
    { destruct Hm as [(Ep & Eq0 & Ecb)|[(cur & Ep & Eq0)|Ep]]; [| |contradiction].
      - rewrite Ep in PI. destruct PI as (Epop & _). rewrite Epop. unfold owed_main. rewrite Ep. cbn.
        repeat split; auto; try lia; try discriminate.
      - pose proof (pn_cb _ _ _ _ _ _ _ Y) as Cb. unfold CB in Cb. rewrite Ep in Cb, PI.
        destruct PI as (pre & Epop & Hnm & _). unfold owed_main. rewrite Ep, Epop. cbn [prank length].
        repeat split; auto; try lia; try discriminate.
        intros Hin. apply in_map_iff in Hin. destruct Hin as (e & Ee & Hin). apply in_app_or in Hin.
        destruct Hin as [Hin|[<-|[]]].
        + specialize (Hnm e Hin). unfold is_idx in Hnm. rewrite Ee in Hnm. discriminate.
        + discriminate Ee. }
    destruct BL as (Eq0 & Ecb & Hr & Hnb & Hnm & Hom).
    unfold recv_busy in Hb. rewrite Ecb in Hb. cbn [andb] in Hb. apply negb_false_iff in Hb.
    destruct (wrpend w) eqn:Erp; [|discriminate]. destruct (winbox w) eqn:Eib; [|discriminate].
    assert (Estr : wstream w ++ flat_map cmd_items [] = map snd (wpopped w)).
    { unfold wstream. rewrite Eq0, Erp, Eib. cbn. rewrite !app_nil_r. reflexivity. }
    assert (Hsf : n_sdsent f = false).
    { destruct (n_sdsent f) eqn:Es; [|reflexivity]. exfalso. apply Hnm. rewrite <- Estr.
      exact (pn_mark _ _ _ _ _ _ _ Y f Ef Es). }
    assert (Hdf : n_down f = false).
    { destruct (n_down f) eqn:Ed0; [|reflexivity]. exfalso. apply Hnx. exact (proj2 (Edw cs n f w Els Ef Ed0 Ew)). }
    split; [exact Hnx|]. split; [exact Hr|]. split; [exact Hsf|]. split; [exact Hdf|]. split.
    - rewrite <- proj_bk. rewrite (ni_coupled _ _ _ _ _ _ _ X). cbn [completes flat_map app]. unfold owed_w. rewrite Eq0, Erp, Eib.
      cbn. rewrite !app_nil_r. exact Hom.
    - pose proof (pn_ready _ _ _ _ _ _ _ Y Hact Hnb Hnx) as R. rewrite proj_nodes in R. cbn [proj l_nt] in R.
      destruct R as [[]|[Hin|(f1 & Ef1 & Hs1)]]; [exact Hin|]. congruence. }
  assert (Hact0 : exists a, In a (d_active (y_d s))).
  { destruct (d_active (y_d s)) as [|a ar] eqn:Eact; [exfalso; exact (Ea Hres eq_refl)|]. exists a. left. reflexivity. }
  destruct Hact0 as (a & Hacta).
  destruct (ACT a Hacta) as (wa & fa & Ewa & Efa & Hnxa & Hra & Hsfa & Hdfa & Hbka & Hina).
  destruct (d_shuttingdown (y_d s)) eqn:Esd.
  - (* shutting down: the registered node a was told to shut down, or is down *)
    destruct (Psd eq_refl a Hina) as (f' & Ef' & Hs'). rewrite Efa in Ef'. inv Ef'.
    unfold shutting_down in Hs'. rewrite Hsfa, Hdfa in Hs'. discriminate.
  - assert (Hss : d_shouldstop (y_d s) = false).
    { destruct (d_shouldstop (y_d s)) eqn:E1; [|reflexivity]. specialize (Jss eq_refl). discriminate. }
    (* every worker has reported its collection *)
    assert (Hcomp : sc_collection_is_completed cs = true).
    { destruct (sc_collection_is_completed cs) eqn:Ec; [reflexivity|]. exfalso.
      assert (ALL : forall n, n < N -> In n (akeys (sc_reg cs))).
      { intros n HnN. destruct (worker_known c s n Ek HnN) as (w & Ew).
        destruct (in_dec Nat.eq_dec n (d_active (y_d s))) as [Hact|Hna].
        - destruct (ACT n Hact) as (w' & f & Ew' & Ef & Hnx & Hr & _). rewrite Ew in Ew'. inv Ew'.
          pose proof (PNs n w' Ew) as Y. rewrite (SG n w' Ew) in Y.
          destruct (pn_cf _ _ _ _ _ _ _ Y eq_refl Hact Hr Hnx) as [[]|Hin]. exact Hin.
        - exfalso. pose proof (NIs n w Ew) as X. unfold NInvc in X. rewrite (SG n w Ew) in X.
          destruct (ni_act _ _ _ _ _ _ _ X Hna) as (_ & Ex).
          destruct (ni_flags _ _ _ _ _ _ _ X) as (f & Ef & (M1 & M2)). cbn [proj l_nt] in Ef.
          destruct (ni_fx _ _ _ _ _ _ _ X (or_introl Ex)) as [MP|[Fp|[[]|Fss]]]; [|congruence|congruence].
          destruct (n_sdsent f) eqn:Es.
          + destruct (Jp eq_refl n f Ef Es) as (Cc & _).
            destruct (sc_coll cs) as [cl|] eqn:Ecl; [|contradiction].
            destruct (sj_coll _ _ _ _ J cl Ecl) as (_ & X1). congruence.
          + specialize (M2 eq_refl). apply nomark_not_in in M2. apply M2. apply in_or_app. left.
            apply markpopped_in_stream. exact MP. }
      assert (Hinc : incl (seq 0 N) (akeys (sc_reg cs))) by (intros n Hn; apply in_seq in Hn; apply ALL; lia).
      pose proof (NoDup_incl_length (seq_NoDup N 0) Hinc) as Hlen. rewrite seq_length, akeys_length in Hlen.
      unfold sc_collection_is_completed in Ec. rewrite (sj_num _ _ _ _ J) in Ec. apply Nat.leb_gt in Ec. lia. }
    pose proof (Ptf eq_refl) as Htf. unfold sc_tests_finished in Htf. rewrite Hcomp in Htf. cbn [andb] in Htf.
    destruct (sc_wq cs) as [|p0 pr] eqn:Epend.
    + (* the work queue is empty: somebody holds >= 2 pending tests *)
      cbn [andb] in Htf. destruct (forallb_false_ex _ _ Htf) as ([k b] & Hin & Hf). cbn [snd] in Hf.
      apply Nat.ltb_ge in Hf.
      assert (Hk : In k (sc_nodes cs)).
      { unfold sc_nodes, akeys. change k with (fst (k, b)). apply in_map. exact Hin. }
      pose proof (Jb eq_refl Hss k Hk) as Hka.
      destruct (ACT k Hka) as (_ & _ & _ & _ & _ & _ & _ & _ & Hbk & _).
      unfold bookn in Hbk. rewrite (in_nodup_aget _ _ _ (sj_wf _ _ _ _ J) Hin) in Hbk.
      rewrite <- (pending_of_book coll0) in Hbk. lia.
    + (* the work queue is not empty: every registered node holds >= 2 pending tests *)
      assert (Hcoll : sc_coll cs <> None) by (apply Jc; exact Hcomp).
      assert (Hpne : sc_wq cs <> []) by (rewrite Epend; discriminate).
      pose proof (Ptwo eq_refl Hcoll Hpne a fa Hina Efa Hdfa). lia.
Qed.

(* in every state satisfying the invariants in which the session has not ended, a useful move exists *)
Theorem progressc s :
  XInv c kind s -> PInvc c s -> y_result s = None -> exists l, Good_label c s l.
Proof.
  intros XI PI Hres. pose proof (cv_dead _ _ _ (xi_cinv _ _ _ XI)) as Hd.
  destruct (y_evq s) as [|ev q] eqn:Eevq.
  - destruct (find_label c s (seq 0 N)) as [l|] eqn:Ef.
    + destruct (find_label_some _ _ _ _ Ef) as (n & Hn). exists l. eapply node_label_ok; eauto.
    + exfalso. apply (quiescent_falsec s XI PI Hres Eevq). intros n w Ew.
      apply node_label_none; [|exact Ew]. apply (find_label_none _ _ _ Ef). apply in_seq.
      pose proof (worker_lt c s n w (xi_keys _ _ _ XI) Ew). lia.
  - exists LCtl. split; [exact Logic.I|]. split; [reflexivity|].
    unfold sys_step. rewrite Hres, Eevq.
    destruct (d_active (y_d s)).
    + destruct (d_no_active (y_d s)) as [[d' outs] r]. discriminate.
    + destruct (d_loop_once ev (y_d s)) as [[d' outs] r]. destruct r; [|discriminate].
      destruct (d_session_finished d'); [discriminate|].
      destruct (d_active d'); [|discriminate].
      destruct (d_no_active d') as [[d2 outs2] r2]. discriminate.
Qed.
End SysDc.

(* ====================================================================================== *)
(* E. the theorems                                                                         *)
(* ====================================================================================== *)
Section MainPc.
  Variable c : config.
  Variable ls : list label.
  Variable kind : scope_kind.
  Hypothesis Hmode : c_mode c = MScope kind.
  Hypothesis Hnocrash : forall n i, c_crash_in c n i = false.
  Hypothesis Hnogarbled : no_garbled c.
  Hypothesis Hids : forall n, ~ In ""%string (c_coll c n).
  Hypothesis Hsame : forall n, c_coll c n = c_coll c 0.
  Hypothesis Hsched : Forall no_crash_label ls.
  Hypothesis Hnodes : 0 < c_numnodes c.

  Theorem run_pinvc : XInv c kind (sys_run c ls) /\ PInvc c (sys_run c ls).
  Proof. exact (pinvc_run c kind Hnocrash Hnogarbled (Hids 0) Hsame Hnodes ls Hmode Hsched). Qed.

  (* C02, no stand-off, scope family: while the session has not ended, some component can make a
     useful move (not a crash, not an idle turn of a worker's receiver thread) *)
  Theorem c02s_no_deadlock_useful :
    y_result (sys_run c ls) = None ->
    exists l, no_crash_label l /\ useful (sys_run c ls) l = true /\ sys_step c (sys_run c ls) l <> None.
  Proof.
    intros Hres. destruct run_pinvc as (XI & PI).
    exact (progressc c kind Hnocrash Hnodes _ XI PI Hres).
  Qed.

  Theorem c02s_no_deadlock :
    y_result (sys_run c ls) = None ->
    exists l, no_crash_label l /\ sys_step c (sys_run c ls) l <> None.
  Proof.
    intros Hres. destruct (c02s_no_deadlock_useful Hres) as (l & A & _ & B). exists l. split; assumption.
  Qed.
End MainPc.

Print Assumptions c02s_no_deadlock_useful.
Print Assumptions c02s_no_deadlock.
Check c02s_no_deadlock_useful.
Check c02s_no_deadlock.
Check progressc.
Check step_pinvc.

(* ====================================================================================== *)
(* Non-vacuity: concrete states, evaluated                                                 *)
(* ====================================================================================== *)
Open Scope string_scope.
(* six files with one test each, loadfile, two workers (ScopeSystem.c06_cfg_of) *)
Definition ps_coll : list string := ["a.py::t"; "b.py::t"; "c.py::t"; "d.py::t"; "e.py::t"; "f.py::t"].
Definition ps_cfg : config := c06_cfg_of KFile ps_coll.

(* (a) right after the initial distribution: each worker was sent two units (two CRun commands);
   two units are left in the work queue; the useful moves are the two deliveries *)
Example ps_ex_distributed :
  let s := sys_run ps_cfg c06_dist in
  c06_view s = (["e.py"; "f.py"], [(0, [CRun [0]; CRun [2]], [0; 2], []); (1, [CRun [1]; CRun [3]], [1; 3], [])], None) /\
  prog_moves ps_cfg s = [LDeliver 0; LDeliver 1] /\ prog_idle ps_cfg s = [LRecvW 0; LRecvW 1].
Proof. vm_compute. repeat split. Qed.

(* (b) the state closest to a stand-off: both workers have run their first test and wait at an empty
   queue for the successor of the test they hold (tests 2 and 3); all wires are empty; two units are
   still in the work queue.  The only useful move is the controller's: it holds the two completions
   on its queue (handling one makes _reschedule send that node a new unit).  The receiver threads of
   both workers can take a turn, but such a turn changes nothing. *)
Definition ps_standoff : list label :=
  c06_dist ++
  [LDeliver 0; LDeliver 0; LRecvW 0; LRecvW 0] ++ c01_rep 6 [LMain 0] ++ c01_rep 4 [LRecv 0] ++
  [LDeliver 1; LDeliver 1; LRecvW 1; LRecvW 1] ++ c01_rep 6 [LMain 1] ++ c01_rep 4 [LRecv 1].
Example ps_ex_standoff :
  let s := sys_run ps_cfg ps_standoff in
  y_result s = None /\
  map (fun p => (fst p, wph (snd p), wq (snd p))) (y_w s) = [(0, PWaitNext (1, 2), []); (1, PWaitNext (1, 3), [])] /\
  c06_view s = (["e.py"; "f.py"], [(0, [], [0; 2], [0]); (1, [], [1; 3], [1])], None) /\
  prog_moves ps_cfg s = [LCtl] /\ prog_idle ps_cfg s = [LRecvW 0; LRecvW 1] /\
  sys_step ps_cfg s (LRecvW 0) = Some (s, [], []).
Proof. vm_compute. repeat split. Qed.

Lemma ps_coll_ids : ~ In "" ps_coll.
Proof. intros H. cbn in H. repeat (destruct H as [H|H]; [discriminate|]). exact H. Qed.

(* the theorem applies to that state (and yields a useful move, which can only be LCtl) *)
Example ps_ex_theorem_applies :
  let s := sys_run ps_cfg ps_standoff in
  exists l, no_crash_label l /\ useful s l = true /\ sys_step ps_cfg s l <> None.
Proof.
  cbv zeta.
  assert (Hl : Forall no_crash_label ps_standoff) by (vm_compute; repeat constructor).
  destruct (c06_hyps KFile ps_coll ps_standoff ps_coll_ids Hl) as (H1 & H2 & H3 & H4 & H5 & H6).
  apply (c02s_no_deadlock_useful ps_cfg ps_standoff KFile); try assumption.
  - cbn. lia.
  - vm_compute. reflexivity.
Qed.
Print Assumptions ps_ex_theorem_applies.

(* (c) more workers than work units (ScopeCompleteness: 3 workers, the 2 files of c06_coll): right after
   the initial distribution the surplus worker 2 has left the scheduler and its shutdown is on its wire *)
Definition ps_cfg_surplus : config :=
  {| c_mode := MScope KFile; c_numnodes := 3; c_chunk := None; c_maxfail := 0%Z; c_max_restart := Some 4%Z;
     c_requeue := 0; c_coll := fun _ => c06_coll; c_oracle := fun _ => c06_oracle;
     c_dur := fun _ => 0%Z; c_crash_in := fun _ _ => false; c_strict := false; c_spec := fun _ => 0 |}.
Definition ps_dist3 : list label :=
  c01_rep 4 [LMain 0] ++ c01_rep 4 [LMain 1] ++ c01_rep 4 [LMain 2] ++
  c01_rep 3 [LRecv 0] ++ c01_rep 3 [LRecv 1] ++ c01_rep 3 [LRecv 2] ++ c01_rep 6 [LCtl].
Example ps_ex_surplus :
  let s := sys_run ps_cfg_surplus ps_dist3 in
  y_result s = None /\
  match d_sched (y_d s) with StC cs => sc_nodes cs | _ => [] end = [0; 1] /\
  map (fun n => alist_get [] n (y_down s)) [0; 1; 2] =
    [[CRun [0; 1; 2; 3]; CShutdown]; [CRun [4]; CShutdown]; [CShutdown]] /\
  prog_moves ps_cfg_surplus s = [LDeliver 0; LDeliver 1; LDeliver 2].
Proof. vm_compute. repeat split. Qed.
Close Scope string_scope.
