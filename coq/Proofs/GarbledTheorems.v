(* GarbledTheorems.v -- C17 for --dist load WITHOUT the hypothesis "no undecodable report":
   arbitrary crashes, arbitrary Garbled reports.  Built on the ghost invariant GInv of GarbledCoupling.v. *)
From XV Require Import Base Worker Ctl SchedLoad SchedSteal SchedScope SchedEach Sched DSession System
  NoHook DSessionProofs WorkerProofs LoadProofs FifoProofs ExactlyOnce Coupling CrashCoupling CrashTheorems
  GarbledCoupling.
Open Scope nat_scope.

Definition ErrG (s : sys) : Prop := y_result s = Some (RError ERuntimeNoWorkers).

Section Main.
Variable c : config.
Hypothesis Hmode : c_mode c = MLoad.
Hypothesis Hpos : 0 < c_numnodes c.

Lemma ginv_res B s e : GInv c B s -> y_result s <> Some (RError e).
Proof. intros (sg & wo & X & R). rewrite <- (gr_r _ _ _ R). apply (x_res _ _ X). Qed.

Lemma ginv_init B : GInv c B (sys_init c).
Proof.
  exists (sys_init c), []. split.
  - exact (XInv_init (gcfg c B (c_strict c)) Hmode Hpos).
  - constructor; auto.
    + intros n [].
    + intros n _. constructor; auto. cbn [sys_init y_w].
      destruct (aget n (map (fun n0 => (n0, w_init)) (seq 0 (c_numnodes c)))) as [w|] eqn:E; [|reflexivity].
      apply aget_map_const in E. subst w. reflexivity.
Qed.

Lemma g_step B s l s' o w :
  GInv c B s -> d_next_gw (y_d s) <= B -> sys_step c s l = Some (s', o, w) ->
  (GInv c B s' /\ d_next_gw (y_d s') <= S (d_next_gw (y_d s))) \/ ErrG s'.
Proof.
  intros GI HB H. unfold sys_step in H. destruct (y_result s) eqn:Eres; [discriminate|].
  destruct l as [n0|n0|n0|n0| |n0].
  - destruct (mem_nat n0 (y_dead s)) eqn:Hd; [discriminate|].
    destruct (aget n0 (y_down s)) as [[|cmd rest]|] eqn:Ed; try discriminate.
    destruct (aget n0 (y_w s)) as [w0|] eqn:Ew; try discriminate.
    inv H. left. split; [|cbn; lia]. rewrite <- Eres. apply g_deliver; assumption.
  - destruct (mem_nat n0 (y_dead s)) eqn:Hd; [discriminate|].
    destruct (aget n0 (y_w s)) as [w0|] eqn:Ew; try discriminate.
    destruct (negb (wcb w0)); [discriminate|].
    destruct (recv_step (c_oracle c n0) w0) as [w' evs] eqn:Es. inv H. left.
    split; [|cbn; lia]. eapply g_recvw; eauto.
  - destruct (mem_nat n0 (y_dead s)) eqn:Hd; [discriminate|].
    destruct (aget n0 (y_w s)) as [w0|] eqn:Ew; try discriminate.
    destruct (dies_now c n0 w0) eqn:Edie.
    + inv H. left. split; [|rewrite (proj2 (crash_d c s n0)); lia].
      apply g_crash with (w0 := w0); auto. unfold dies_now in Edie. destruct (wph w0); discriminate.
    + destruct (main_step (c_oracle c n0) w0) as [[w' evs]|] eqn:Es; [|discriminate]. inv H. left.
      split; [|cbn; lia]. eapply g_main; eauto.
  - destruct (aget n0 (y_up s)) as [[|m rest]|] eqn:Eup; try discriminate.
    cbn [y_d] in H.
    destruct (process_from_remote n0 m (y_d s)) as [[d' outs] r] eqn:Ep.
    destruct (g_recv c B Hpos s n0 m rest d' outs r GI HB Eup Ep) as (GW & evs & -> & GI').
    destruct (apply_outs_frame outs (set_d {| y_d := y_d s; y_evq := y_evq s; y_down := y_down s; y_up := aset n0 rest (y_up s);
                       y_w := y_w s; y_dead := y_dead s; y_result := y_result s |} d')) as (F1 & F2 & F3).
    destruct (close_if_dead_frame (set_evq (apply_outs (set_d {| y_d := y_d s; y_evq := y_evq s; y_down := y_down s; y_up := aset n0 rest (y_up s);
                       y_w := y_w s; y_dead := y_dead s; y_result := y_result s |} d') outs) (y_evq s ++ evs)) n0) as (_ & _ & _ & _ & _ & E).
    cbn [set_evq y_d] in E. rewrite F2 in E. cbn [set_d y_d] in E.
    rewrite <- Eres in H. rewrite F1 in H. cbn [set_d y_evq] in H.
    injection H as <- <- <-. left. split; [apply g_close; first [exact GI'|exact Hpos]|].
    rewrite E. lia.
  - destruct (d_active (y_d s)) as [|a0 ar] eqn:Eact.
    { destruct (d_no_active (y_d s)) as [[d' outs] r]. inv H. right. reflexivity. }
    destruct (y_evq s) as [|ev q] eqn:Eevq; [discriminate|].
    destruct (d_loop_once ev (y_d s)) as [[d' outs] r] eqn:El.
    destruct (g_ctl c B Hpos s ev q d' outs r GI Eres Eevq El) as (-> & GW & CORE).
    set (s1 := apply_outs (set_d (set_evq s q) d') outs) in *.
    assert (GW1 : forall rr, d_next_gw (y_d (set_result s1 rr)) <= S (d_next_gw (y_d s))).
    { intros rr. cbn [set_result y_d]. unfold s1. rewrite (proj1 (proj2 (apply_outs_frame _ _))). exact GW. }
    destruct (d_session_finished d') eqn:Efin.
    + inv H. left. split; [|apply GW1]. apply CORE.
      * intros e. destruct (d_shouldstop d'); discriminate.
      * destruct (d_shouldstop d'); discriminate.
    + destruct (d_active d') as [|b0 br] eqn:Eact'.
      * destruct (d_no_active d') as [[d2 outs2] r2]. inv H. right. reflexivity.
      * inv H. left.
        assert (Er1 : y_result s1 = None) by (unfold s1; rewrite apply_outs_result; cbn; exact Eres).
        rewrite <- (set_result_same' s1 None Er1). split; [|apply GW1]. apply CORE.
        -- intros e. discriminate.
        -- intros _. discriminate.
  - destruct (mem_nat n0 (y_dead s)) eqn:Hd; [discriminate|].
    destruct (aget n0 (y_w s)) as [w0|] eqn:Ew; try discriminate.
    destruct (wph w0) eqn:Eph; try discriminate; inv H; left;
      (split; [apply g_crash with (w0 := w0); auto; rewrite Eph; discriminate|rewrite (proj2 (crash_d c s n0)); lia]).
Qed.

Lemma err_stays ls : forall s, ErrG s ->
  ErrG (fold_left (fun s l => match sys_step c s l with Some (s', _, _) => s' | None => s end) ls s).
Proof.
  induction ls as [|l ls IH]; intros s A; cbn [fold_left]; [exact A|].
  assert (E : sys_step c s l = None) by (unfold sys_step; rewrite A; reflexivity).
  rewrite E. apply IH. exact A.
Qed.

Lemma g_run_gen B ls : forall s,
  GInv c B s \/ ErrG s -> d_next_gw (y_d s) + length ls <= B ->
  let s' := fold_left (fun s l => match sys_step c s l with Some (s', _, _) => s' | None => s end) ls s in
  GInv c B s' \/ ErrG s'.
Proof.
  induction ls as [|l ls IH]; intros s Hs HB; cbn [fold_left]; [exact Hs|].
  cbn [length] in HB.
  destruct (sys_step c s l) as [[[s' o] w]|] eqn:E; [|apply IH; [exact Hs|lia]].
  destruct Hs as [Hs|Hr].
  - destruct (g_step B s l s' o w Hs ltac:(lia) E) as [(A & Bd)|A].
    + apply IH; [left; exact A|lia].
    + right. apply err_stays. exact A.
  - unfold sys_step in E. rewrite Hr in E. discriminate.
Qed.

Theorem ginv_run ls :
  GInv c (c_numnodes c + length ls) (sys_run c ls) \/ ErrG (sys_run c ls).
Proof.
  unfold sys_run. apply g_run_gen; [left; apply ginv_init|]. cbn. lia.
Qed.

(* C17 without no_garbled *)
Theorem garbled_c17 ls : forall e, y_result (sys_run c ls) = Some (RError e) -> e = ERuntimeNoWorkers.
Proof.
  intros e H. destruct (ginv_run ls) as [G|R].
  - exfalso. exact (ginv_res _ _ e G H).
  - unfold ErrG in R. congruence.
Qed.
End Main.

Check ginv_run.
Print Assumptions ginv_run.
Check garbled_c17.
Print Assumptions garbled_c17.

(* ---- non-vacuity: a session in which worker 0 sends an undecodable report for test 1 ---- *)
Definition gbx_cfg : config :=
  {| c_mode := MLoad; c_numnodes := 2; c_chunk := None; c_maxfail := 0%Z; c_max_restart := Some 4%Z;
     c_requeue := 0; c_coll := fun _ => crx_names 6;
     c_oracle := fun n => {| reports_of := fun i => if Nat.eqb n 0 && Nat.eqb i 0 then [Passed; Garbled; Failed] else [Passed];
                             stops_after := fun _ => false; ncollected := 6; coll_reports := [] |};
     c_dur := fun _ => 0%Z; c_crash_in := fun _ _ => false; c_strict := false; c_spec := fun _ => 0 |}.

(* the hypotheses of garbled_c17 hold, no_garbled does not *)
Example gbx_hyps : c_mode gbx_cfg = MLoad /\ 0 < c_numnodes gbx_cfg /\ ~ no_garbled gbx_cfg.
Proof.
  split; [reflexivity|]. split; [cbn; lia|]. intros H. apply (H 0 0). cbn. auto.
Qed.

(* result; dead processes; replacement ids; crash reports (test id, worker); group counter *)
Example gbx_run :
  crx_summary gbx_cfg (rounds 60 crx_round) =
  (Some RFinished, [], [0; 1; 2; 3; 4; 5; 1], [2], [("0"%string, 0)], 3).
Proof. vm_compute. reflexivity. Qed.
(* worker 0 is written off (no process died: y_dead = []), the crash report names test "0" (the test
   with the garbled report), worker 2 replaces it, and test 1 -- queued on the written-off worker --
   is started twice (recorded finding of the real code, not a theorem target). *)
