(* ScopeCompleteness.v: for the scope family of schedulers (--dist loadscope / loadfile / loadgroup):
   conservation (no test index is ever lost or duplicated) in every reachable state, and
   exactly-once at the end of a finished session; non-vacuity examples.  The analogue of
   Completeness.v; the invariant is ScopeCoupling.XInv. *)
From XV Require Import Base Worker Ctl SchedLoad SchedSteal SchedScope SchedEach Sched DSession System
  NoHook DSessionProofs WorkerProofs LoadProofs FifoProofs ExactlyOnce ScopeProofs Coupling ScopeSystem
  ScopeCoupling.
From Coq Require Import Permutation Sorted.
Open Scope nat_scope.

(* ====================================================================================== *)
(* the blocks of a collection without duplicate ids are a partition of its positions        *)
(* ====================================================================================== *)
Lemma index_of_str_nodup l : forall i x, NoDup l -> nth_error l i = Some x -> index_of_str x l = Some i.
Proof.
  induction l as [|y l IH]; intros i x ND H; [destruct i; discriminate|].
  inversion ND as [|y' l' Hn ND']; subst. destruct i as [|i]; cbn in H.
  - inversion H; subst. cbn. rewrite String.eqb_refl. reflexivity.
  - cbn. destruct (String.eqb x y) eqn:E.
    + apply String.eqb_eq in E. subst y. exfalso. apply Hn. eapply nth_error_In; eauto.
    + rewrite (IH i x ND' H). reflexivity.
Qed.

Lemma blocks_cover kind coll0 i :
  NoDup coll0 -> i < length coll0 -> In i (concat (blocks kind coll0)).
Proof.
  intros ND Hi. destruct (nth_error coll0 i) as [id|] eqn:En; [|apply nth_error_None in En; lia].
  assert (Hin : In id coll0) by (eapply nth_error_In; eauto).
  destruct (build_units_covers kind coll0 id Hin) as (u & Hu & Hidu).
  apply sget_in in Hu. apply (UL_in kind coll0) in Hu.
  apply in_concat_iff. exists (ixs_of coll0 (split_of kind id, u)). split.
  - unfold blocks. apply in_map. exact Hu.
  - unfold ixs_of. cbn [snd]. apply in_map_iff. exists id. split.
    + unfold pos_in. rewrite (index_of_str_nodup coll0 i id ND En). reflexivity.
    + change id with (fst (id, false)). apply in_map. exact Hidu.
Qed.

Lemma blocks_perm_seq kind coll0 :
  NoDup coll0 -> Permutation (concat (blocks kind coll0)) (seq 0 (length coll0)).
Proof.
  intros ND. apply NoDup_Permutation; [apply blocks_nodup|apply seq_NoDup|].
  intros i. rewrite in_seq. split.
  - intros H. apply in_concat_iff in H. destruct H as (b & Hb & Hi).
    destruct (blocks_in kind coll0 b Hb) as (p & Hp & ->).
    destruct (block_key kind coll0 p i Hp Hi) as (X & _). lia.
  - intros (_ & H). apply blocks_cover; [exact ND|exact H].
Qed.

(* a worker that has exited on the shutdown marker holds exactly the tests it started *)
Lemma NI_exited_stream ls act n dn w :
  NI ls act false n [] dn w -> WInv w -> wph w = PExited ->
  w_stream w ++ flat_map cmd_inds dn = map (fun r => snd (fst r)) (wran w).
Proof.
  intros [(f & Ef & (M1 & M2)) Cp Ch Nd Nc Ac Fm Wx Fx] I Hp.
  assert (MP : markpopped w).
  { destruct (Fx (or_introl Hp)) as [X|[X|[X|X]]]; [exact X|congruence|destruct X|discriminate]. }
  destruct MP as (pre & t & Ep).
  unfold wstream in M1. rewrite Ep, map_app in M1. cbn [map snd] in M1.
  rewrite <- !app_assoc in M1. cbn [app] in M1.
  apply mlast_mark_inv in M1. apply app_eq_nil in M1. destruct M1 as (Eq & M1).
  apply app_eq_nil in M1. destruct M1 as (Er & M1). apply app_eq_nil in M1. destruct M1 as (Ei & Ed).
  pose proof (inv_phase w I) as E. unfold phase_inv in E. rewrite Hp in E.
  destruct E as (pre0 & lst & Ep0 & Hn & Eran).
  rewrite Ep in Ep0. apply app_inj_tail in Ep0. destruct Ep0 as (<- & <-).
  unfold w_stream. rewrite !fm_cmd_inds_items, Ed, Ei, Er, (ents_idx_items (wq w)), Eq. cbn [item_inds flat_map app].
  rewrite !app_nil_r.
  rewrite Eran, Ep, <- ents_idx_map_ent, pairs_ents by exact Hn.
  rewrite ents_idx_app. cbn. apply app_nil_r.
Qed.

Section ScopeCompleteness.
  Variable c : config.
  Variable ls : list label.
  Variable kind : scope_kind.
  Hypothesis Hmode : c_mode c = MScope kind.
  Hypothesis Hnocrash : forall n i, c_crash_in c n i = false.
  Hypothesis Hnogarbled : no_garbled c.
  Hypothesis Hids : forall n, ~ In ""%string (c_coll c n).
  Hypothesis Hsame : forall n, c_coll c n = c_coll c 0.
  Hypothesis Hsched : Forall no_crash_label ls.
  Hypothesis Hnodes : 0 < c_numnodes c.

  Let s := sys_run c ls.
  Notation coll0 := (c_coll c 0).

  (* the indices of the units still in the work queue; before the initial distribution
     (collection not yet fixed) the queue stands for all units of the collection *)
  Definition sc_queue (s : sys) : list nat :=
    match d_sched (y_d s) with
    | StC cs => concat (map (ixs_of coll0) (vpool kind coll0 cs))
    | _ => []
    end.
  (* everything that has been handed to the workers: per node, what its main thread has taken
     (run or not) ++ its queue ++ the rest of the command being unpacked ++ its inbox ++ the
     commands on its wire down *)
  Definition sc_held (s : sys) : list nat := flat_map (stream s) (akeys (y_w s)).

  (* conservation, in every reachable state: work queue + everything booked / held / done is a
     partition of the blocks (work units, as index lists) of the collection *)
  Theorem sc_conservation :
    Permutation (sc_queue s ++ sc_held s) (concat (blocks kind coll0)).
  Proof.
    pose proof (run_xinv c ls kind Hmode Hnocrash Hnogarbled Hids Hsame Hsched Hnodes) as XI. fold s in XI.
    pose proof XI as [Inv Ek (cs & (J0 & _) & _) _ _ _ _ _ Epm _ _].
    pose proof (dj_sched _ _ _ _ _ J0) as Els.
    unfold sc_queue, sc_held. rewrite Els, Ek. exact (Epm cs Els).
  Qed.

  (* with pairwise distinct test ids the blocks are a partition of the positions of the collection *)
  Corollary sc_conservation_nodup :
    NoDup coll0 -> Permutation (sc_queue s ++ sc_held s) (seq 0 (length coll0)).
  Proof. intros ND. rewrite sc_conservation. apply blocks_perm_seq. exact ND. Qed.

  (* exactly once at the end: when the session ends as "finished", the started tests are exactly
     the tests of the work units of the collection, each started once *)
  Theorem sc_finished_all_started_blocks :
    y_result s = Some RFinished ->
    Permutation (started s) (concat (blocks kind coll0)).
  Proof.
    intros Hfin.
    pose proof (run_xinv c ls kind Hmode Hnocrash Hnogarbled Hids Hsame Hsched Hnodes) as XI. fold s in XI.
    destruct XI as [Inv Ek (cs & (J0 & Jss) & NIs) Eq Eu Edn Ea Er Epm Efn Edw].
    destruct (Efn Hfin) as (Hsf & Hss).
    unfold d_session_finished in Hsf. apply andb_true_iff in Hsf. destruct Hsf as (Hsd & Hact).
    assert (Eact : d_active (y_d s) = []) by (destruct (d_active (y_d s)); [reflexivity|discriminate]).
    destruct J0 as [Els J Jb Jp Jg Jc].
    destruct (Jg Hsd) as [F|(Hc & Hw)]; [congruence|].
    pose proof (Epm cs Els) as P.
    assert (Ev : vpool kind coll0 cs = []).
    { unfold ScopeSystem.vpool. destruct (sc_coll cs); [exact Hw|contradiction]. }
    rewrite Ev in P. cbn [map concat app] in P.
    rewrite <- P. destruct Inv as [A B C0 D E F G NG].
    rewrite (started_keys s B), Ek.
    rewrite (flat_map_ext_in _ (stream s) (seq 0 (c_numnodes c))); [reflexivity|].
    intros k Hk. rewrite <- Ek in Hk. unfold stream. destruct (aget k (y_w s)) as [w|] eqn:Ew.
    - pose proof (NIs k w Ew) as X. unfold NInvc in X. rewrite Eact, Hss in X.
      assert (Hni : ~ In k (@nil nat)) by (intros []).
      destruct (ni_act _ _ _ _ _ _ _ X Hni) as (Es & Ep). rewrite Es in X.
      destruct (G k w Ew) as (Iw & _). symmetry. eapply NI_exited_stream; eauto.
    - exfalso. apply aget_none_notin in Ew. contradiction.
  Qed.

  (* C01 for the scope family: with pairwise distinct test ids every collected test was
     started exactly once *)
  Theorem sc_finished_all_started :
    NoDup coll0 -> y_result s = Some RFinished ->
    Permutation (started s) (seq 0 (length coll0)).
  Proof.
    intros ND Hfin. rewrite (sc_finished_all_started_blocks Hfin). apply blocks_perm_seq. exact ND.
  Qed.
End ScopeCompleteness.

Print Assumptions sc_conservation.
Print Assumptions sc_conservation_nodup.
Print Assumptions sc_finished_all_started_blocks.
Print Assumptions sc_finished_all_started.
Check sc_conservation.
Check sc_conservation_nodup.
Check sc_finished_all_started_blocks.
Check sc_finished_all_started.

(* ====================================================================================== *)
(* Non-vacuity and the necessity of the side conditions: concrete sessions, evaluated      *)
(* ====================================================================================== *)
Open Scope string_scope.

(* the parts of the coupling for node n: book; completes on the controller's queue, on the wire up;
   taken by the main thread and not completed, queued, rest of the command being unpacked, inbox;
   commands on the wire down *)
Definition scpl_parts (c : config) (s : sys) (n : nat) :=
  (sbook c s n,
   (completes (evq_sigs n (y_evq s)), completes (flat_map up_sig (alist_get [] n (y_up s)))),
   match aget n (y_w s) with
   | Some w => (owed_main w, ents_idx (wq w), item_inds (wrpend w), flat_map cmd_inds (winbox w))
   | None => ([], [], [], []) end,
   flat_map cmd_inds (alist_get [] n (y_down s))).

(* loadgroup, 2 workers, 9 tests in 5 interleaved groups:
   g1 = {0,2,5}, g2 = {1,4}, g3 = {3,8}, g4 = {6}, g5 = {7} *)
Definition scpl_coll : list string :=
  ["a::1@g1"; "a::2@g2"; "a::3@g1"; "a::4@g3"; "a::5@g2"; "a::6@g1"; "a::7@g4"; "a::8@g5"; "a::9@g3"].
Definition scpl_cfg : config := c06_cfg_of KGroup scpl_coll.

Example scpl_ex_blocks : blocks KGroup scpl_coll = [[0; 2; 5]; [1; 4]; [3; 8]; [6]; [7]].
Proof. vm_compute. reflexivity. Qed.

(* (a1) right after the initial distribution: node 0 was sent unit g1; node 1 units g2 and g3 (a node is
   topped up while it holds fewer than two pending tests); everything is still on the wires down;
   units g4, g5 are in the work queue *)
Example scpl_ex_distributed :
  let s := sys_run scpl_cfg c06_dist in
  scpl_parts scpl_cfg s 0 = ([0; 2; 5], ([], []), ([], [], [], []), [0; 2; 5]) /\
  scpl_parts scpl_cfg s 1 = ([1; 4; 3; 8], ([], []), ([], [], [], []), [1; 4; 3; 8]) /\
  sc_queue scpl_cfg KGroup s = [6; 7] /\ y_result s = None.
Proof. vm_compute. repeat split. Qed.

(* (a2) two rounds later: node 0 took 0 and 2 (running 0, 2 announced), 5 is still being unpacked by its
   receiver thread; node 1 took 1 and 4, its second command (3, 8) is still in its inbox *)
Example scpl_ex_early :
  let s := sys_run scpl_cfg (c06_dist ++ c01_rep 2 c06_round) in
  scpl_parts scpl_cfg s 0 = ([0; 2; 5], ([], []), ([0; 2], [], [5], []), []) /\
  scpl_parts scpl_cfg s 1 = ([1; 4; 3; 8], ([], []), ([1; 4], [], [], [3; 8]), []) /\
  sc_queue scpl_cfg KGroup s = [6; 7] /\ y_result s = None.
Proof. vm_compute. repeat split. Qed.

(* (a3) in the middle of the run: node 0 has completed 0 (flagged in its unit, no longer in the book),
   got unit g4 = {6} as a second unit, holds 2 and 5 and has 6 queued; the completion of 1 by node 1 is
   on the controller's queue, that of 4 still on the wire, 3 is held by the main thread, 8 is queued.
   In both cases the book is the concatenation of the parts, in order. *)
Definition scpl_mid : list label :=
  c06_dist ++ c01_rep 9 c06_round ++ c01_rep 2 [LMain 1] ++ [LDeliver 0; LRecvW 0].
Example scpl_ex_mid :
  let s := sys_run scpl_cfg scpl_mid in
  scpl_parts scpl_cfg s 0 = ([2; 5; 6], ([], []), ([2; 5], [6], [], []), []) /\
  scpl_parts scpl_cfg s 1 = ([1; 4; 3; 8], ([1], [4]), ([3], [8], [], []), []) /\
  sc_queue scpl_cfg KGroup s = [7] /\ y_result s = None.
Proof. vm_compute. repeat split. Qed.

(* (b) the complete session ends as "finished" with every test started exactly once, group by group *)
Definition scpl_full : list label := c06_dist ++ c01_rep 60 c06_round.
Example scpl_ex_finished :
  let s := sys_run scpl_cfg scpl_full in
  y_result s = Some RFinished /\ started s = [0; 2; 5; 6; 7; 1; 4; 3; 8].
Proof. vm_compute. split; reflexivity. Qed.

Ltac nodup_strs :=
  repeat (constructor; [cbn; intros H; repeat (destruct H as [H|H]; [discriminate|]); exact H|]); constructor.

Lemma scpl_coll_nodup : NoDup scpl_coll.
Proof. unfold scpl_coll. nodup_strs. Qed.

Lemma scpl_coll_ids : ~ In "" scpl_coll.
Proof. intros H. cbn in H. repeat (destruct H as [H|H]; [discriminate|]). exact H. Qed.

(* the hypotheses of all the theorems hold of that session, in the mid-run state and at the end *)
Example scpl_ex_theorems_apply :
  let c := scpl_cfg in
  ScCoupled c (sys_run c scpl_mid) /\
  (forall e, y_result (sys_run c scpl_mid) <> Some (RError e)) /\
  Permutation (sc_queue c KGroup (sys_run c scpl_mid) ++ sc_held (sys_run c scpl_mid)) (seq 0 9) /\
  ScCoupled c (sys_run c scpl_full) /\
  (forall e, y_result (sys_run c scpl_full) <> Some (RError e)) /\
  Permutation (started (sys_run c scpl_full)) (seq 0 9).
Proof.
  cbv zeta.
  assert (Hl1 : Forall no_crash_label scpl_mid) by (vm_compute; repeat constructor).
  assert (Hl2 : Forall no_crash_label scpl_full) by (vm_compute; repeat constructor).
  destruct (c06_hyps KGroup scpl_coll scpl_mid scpl_coll_ids Hl1) as (H1 & H2 & H3 & H4 & H5 & _).
  assert (H6 : 0 < c_numnodes scpl_cfg) by (cbn; lia).
  split; [apply (sc_coupling_invariant scpl_cfg scpl_mid KGroup); assumption|].
  split; [apply (sc_controller_never_raises scpl_cfg scpl_mid KGroup); assumption|].
  split; [apply (sc_conservation_nodup scpl_cfg scpl_mid KGroup); try assumption; exact scpl_coll_nodup|].
  split; [apply (sc_coupling_invariant scpl_cfg scpl_full KGroup); assumption|].
  split; [apply (sc_controller_never_raises scpl_cfg scpl_full KGroup); assumption|].
  apply (sc_finished_all_started scpl_cfg scpl_full KGroup); try assumption.
  - exact scpl_coll_nodup.
  - exact (proj1 scpl_ex_finished).
Qed.
Print Assumptions scpl_ex_theorems_apply.

(* the same for loadscope (class scope inside a module scope) and loadfile *)
Example scpl_ex_loadscope_loadfile :
  (let s := sys_run c06_cfg c06_sched_full in
   y_result s = Some RFinished /\ Permutation (started s) (seq 0 5) /\ ScCoupled c06_cfg s) /\
  (let s := sys_run (c06_cfg_of KFile c06_coll) c06_sched_full in
   y_result s = Some RFinished /\ Permutation (started s) (seq 0 5) /\ ScCoupled (c06_cfg_of KFile c06_coll) s).
Proof.
  assert (Hi : ~ In "" c06_coll).
  { intros H. cbn in H. repeat (destruct H as [H|H]; [discriminate|]). exact H. }
  assert (Hn : NoDup c06_coll) by (unfold c06_coll; nodup_strs).
  assert (Hl : Forall no_crash_label c06_sched_full) by (vm_compute; repeat constructor).
  split; cbv zeta.
  - destruct (c06_hyps KScope c06_coll c06_sched_full Hi Hl) as (H1 & H2 & H3 & H4 & H5 & _).
    assert (H6 : 0 < c_numnodes c06_cfg) by (cbn; lia).
    split; [vm_compute; reflexivity|]. split.
    + apply (sc_finished_all_started c06_cfg c06_sched_full KScope); try assumption. vm_compute. reflexivity.
    + apply (sc_coupling_invariant c06_cfg c06_sched_full KScope); assumption.
  - destruct (c06_hyps KFile c06_coll c06_sched_full Hi Hl) as (H1 & H2 & H3 & H4 & H5 & _).
    assert (H6 : 0 < c_numnodes (c06_cfg_of KFile c06_coll)) by (cbn; lia).
    split; [vm_compute; reflexivity|]. split.
    + apply (sc_finished_all_started (c06_cfg_of KFile c06_coll) c06_sched_full KFile); try assumption. vm_compute. reflexivity.
    + apply (sc_coupling_invariant (c06_cfg_of KFile c06_coll) c06_sched_full KFile); assumption.
Qed.

(* (c) the side condition of "the controller never raises": with no worker at all the very first
   turn of the controller loop ends the session with RuntimeError("no active workers") *)
Definition scpl_cfg_noworker : config :=
  {| c_mode := MScope KGroup; c_numnodes := 0; c_chunk := None; c_maxfail := 0%Z; c_max_restart := Some 4%Z;
     c_requeue := 0; c_coll := fun _ => scpl_coll; c_oracle := fun _ => c06_oracle;
     c_dur := fun _ => 0%Z; c_crash_in := fun _ _ => false; c_strict := false; c_spec := fun _ => 0 |}.
Example scpl_ex_no_workers :
  y_result (sys_run scpl_cfg_noworker [LCtl]) = Some (RError ERuntimeNoWorkers).
Proof. vm_compute. reflexivity. Qed.

(* (d) the side condition NoDup of exactly-once in terms of collection positions: with the same id
   twice (positions 0 and 2) the session is "finished", the theorem in terms of blocks holds, and
   position 2 was never started: the work units are dicts keyed by test id *)
Example scpl_ex_duplicate_id :
  let c := c06_cfg_of KScope c06_dcoll in
  let s := sys_run c c06_sched_full in
  y_result s = Some RFinished /\ started s = [0; 3; 1] /\ ~ In 2 (started s) /\
  concat (blocks KScope c06_dcoll) = [0; 3; 1] /\ Permutation (started s) (concat (blocks KScope c06_dcoll)).
Proof.
  cbv zeta.
  assert (Hi : ~ In "" c06_dcoll).
  { intros H. cbn in H. repeat (destruct H as [H|H]; [discriminate|]). exact H. }
  assert (Hl : Forall no_crash_label c06_sched_full) by (vm_compute; repeat constructor).
  destruct (c06_hyps KScope c06_dcoll c06_sched_full Hi Hl) as (H1 & H2 & H3 & H4 & H5 & _).
  split; [vm_compute; reflexivity|]. split; [vm_compute; reflexivity|].
  split. { vm_compute. intros H. repeat (destruct H as [H|H]; [discriminate|]). exact H. }
  split; [vm_compute; reflexivity|].
  apply (sc_finished_all_started_blocks (c06_cfg_of KScope c06_dcoll) c06_sched_full KScope); try assumption.
  - cbn. lia.
  - vm_compute. reflexivity.
Qed.

(* (e) the side condition "all workers collect the same list": when worker 1 collects fewer tests the
   controller does not raise, the session ends as "finished" -- and not a single test was started *)
Definition scpl_cfg_disagree : config :=
  {| c_mode := MScope KScope; c_numnodes := 2; c_chunk := None; c_maxfail := 0%Z; c_max_restart := Some 4%Z;
     c_requeue := 0; c_coll := fun n => if Nat.eqb n 1 then ["m.py::a"] else ["m.py::a"; "m.py::b"];
     c_oracle := fun _ => c06_oracle;
     c_dur := fun _ => 0%Z; c_crash_in := fun _ _ => false; c_strict := false; c_spec := fun _ => 0 |}.
Example scpl_ex_disagree :
  let s := sys_run scpl_cfg_disagree c06_sched_full in
  y_result s = Some RFinished /\ started s = [].
Proof. vm_compute. split; reflexivity. Qed.

(* (f) an empty collection (agreed on by all workers) is no error either *)
Example scpl_ex_empty_collection :
  y_result (sys_run (c06_cfg_of KGroup []) c06_sched_full) = Some RFinished.
Proof. vm_compute. reflexivity. Qed.

(* (g) a stop request (worker 0's session asks to stop after test 2): "interrupted", no exception, and
   the coupling holds in the final state although worker 0 still owes the tests 5 (taken) and 6 (queued) *)
Definition scpl_cfg_stop : config :=
  {| c_mode := MScope KGroup; c_numnodes := 2; c_chunk := None; c_maxfail := 0%Z; c_max_restart := Some 4%Z;
     c_requeue := 0; c_coll := fun _ => scpl_coll;
     c_oracle := fun _ => {| reports_of := fun _ => [Passed]; stops_after := fun i => Nat.eqb i 2;
                             ncollected := 9; coll_reports := [] |};
     c_dur := fun _ => 0%Z; c_crash_in := fun _ _ => false; c_strict := false; c_spec := fun _ => 0 |}.
Example scpl_ex_stop :
  let s := sys_run scpl_cfg_stop scpl_full in
  y_result s = Some RInterrupted /\ started s = [0; 2; 1; 4; 3; 8; 7] /\
  scpl_parts scpl_cfg_stop s 0 = ([5; 6], ([], []), ([5], [6], [], []), []) /\
  scpl_parts scpl_cfg_stop s 1 = ([], ([], []), ([], [], [], []), []).
Proof. vm_compute. repeat split. Qed.

(* (h) more workers than work units (3 workers, the 2 files of c06_coll): the surplus worker is shut
   down at the initial distribution and leaves the scheduler; the session finishes, every test
   started once *)
Definition scpl_cfg_surplus : config :=
  {| c_mode := MScope KFile; c_numnodes := 3; c_chunk := None; c_maxfail := 0%Z; c_max_restart := Some 4%Z;
     c_requeue := 0; c_coll := fun _ => c06_coll; c_oracle := fun _ => c06_oracle;
     c_dur := fun _ => 0%Z; c_crash_in := fun _ _ => false; c_strict := false; c_spec := fun _ => 0 |}.
Definition scpl_round3 : list label :=
  [LDeliver 0; LDeliver 1; LDeliver 2; LRecvW 0; LRecvW 1; LRecvW 2; LMain 0; LMain 1; LMain 2;
   LRecv 0; LRecv 1; LRecv 2; LCtl; LCtl; LCtl].
Example scpl_ex_surplus :
  let s := sys_run scpl_cfg_surplus (c01_rep 60 scpl_round3) in
  y_result s = Some RFinished /\ ran s 0 = [0; 1; 2; 3] /\ ran s 1 = [4] /\ ran s 2 = [].
Proof. vm_compute. repeat split. Qed.
Close Scope string_scope.
