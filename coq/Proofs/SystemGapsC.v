(* SystemGapsC.v — the controller-level invariant behind C16 for the scope family and each:

     DI d :=  the scheduler invariant SIs holds, and
              Lk d -> d_shuttingdown d = true          ("locked" sessions are shutting down), and
              Gd d \/ Lk d                            (the guard of schedule() holds, or locked)
     Lk d :=  the stop flag is set, or the restart budget is exhausted, or the tests are finished
              (scope family: and the initial distribution has not happened)

   A locked session stays locked and re-triggers the shutdown at the end of every iteration in
   which worker_errordown revoked it; hence whenever a collectionfinish is handled while the
   session is NOT shutting down, the guard Gd holds and schedule() sends nothing to a worker
   that has been told to shut down.

     loop_once_DI   one iteration of the controller loop keeps DI and satisfies the ordered guard
                    OGD of SystemGapsA; the set of "consumed" nodes (registered or told to shut
                    down) grows at most by the node of a workerready event
     recv_DI        the receiver thread (any message but an undecodable one) keeps DI *)
From XV Require Import Base Worker Ctl SchedLoad SchedSteal SchedScope SchedEach Sched DSession NoHook
  DSessionProofs ShutdownOnce StopProofs SystemCorollaries SystemGapsA SystemGapsB.
From XV Require CollectionProofs.
Open Scope nat_scope.

(* the restart budget was found exhausted by a worker_errordown *)
Definition exhausted (d : dstate) : Prop :=
  match d_max_restart d with Some m => (m < d_failed_nodes d)%Z /\ (0 < d_failed_nodes d)%Z | None => False end.
Definition Lk (d : dstate) : Prop := d_shouldstop d = true \/ exhausted d \/ TFs (d_sched d).
Definition Gd (d : dstate) : Prop := Gs (d_sched d).
Definition SId (d : dstate) : Prop := SIs (d_sched d) /\ is_ce (d_sched d) /\ (0 <= d_failed_nodes d)%Z.
Definition consd (d : dstate) (n : nat) : Prop := cons_s (d_sched d) n.
Definition sdx (d : dstate) : Prop := exhausted d -> d_shuttingdown d = true.
Definition DI (d : dstate) : Prop :=
  SId d /\ (Lk d -> d_shuttingdown d = true) /\ (Gd d \/ Lk d).

(* ---- independence of the node table ---- *)
Lemma SIs_set_nt st v : SIs (s_set_nt st v) <-> SIs st.
Proof. destruct st; cbn; tauto. Qed.
Lemma is_ce_set_nt st v : is_ce (s_set_nt st v) <-> is_ce st.
Proof. destruct st; cbn; tauto. Qed.
Lemma TFs_set_nt st v : TFs (s_set_nt st v) <-> TFs st.
Proof. destruct st; cbn; tauto. Qed.
Lemma s_nt_set_nt st v : s_nt (s_set_nt st v) = v.
Proof. destruct st; reflexivity. Qed.
Lemma Gs_set_nt st v :
  (forall m, In m (s_nodes st) -> flag v m = true -> flag (s_nt st) m = true) -> Gs st -> Gs (s_set_nt st v).
Proof.
  destruct st as [s|s|s|s]; cbn [Gs s_set_nt s_nodes s_nt]; [intros _ _; exact I|intros _ _; exact I| |].
  - intros Hf G Hc m Hm. cbn [sc_coll sc_set_nt sc_nodes sc_assigned sc_nt] in *.
    destruct (flag v m) eqn:F; [|reflexivity]. pose proof (Hf m Hm F) as K_.
    rewrite (G Hc m Hm) in K_. discriminate.
  - intros Hf G m Hm Fm. cbn [e_set_nt e_nodes e_n2p e_nt e_started] in *. apply (G m Hm). apply Hf; assumption.
Qed.
Lemma cons_set_nt st v n :
  (flag v n = true -> flag (s_nt st) n = true \/ In n (s_nodes st)) ->
  cons_s (s_set_nt st v) n -> cons_s st n.
Proof.
  unfold cons_s. rewrite s_nt_set_nt, s_nodes_set_nt. intros H [F|I0]; [destruct (H F); auto|auto].
Qed.

Lemma d_sched_set_nt d v : d_sched (d_set_nt d v) = s_set_nt (d_sched d) v.
Proof. reflexivity. Qed.

(* ------------------------------------------------------------------------------------------ *)
(* the relation carried through the handlers                                                   *)
(* ------------------------------------------------------------------------------------------ *)
Definition HRx (d d' : dstate) (o : list out) : Prop :=
  SId d -> (Gd d \/ Lk d) ->
  SId d' /\ (Gd d' \/ Lk d') /\ sdx d' /\ (forall n, consd d' n -> consd d n).
Definition HR (d d' : dstate) (o : list out) : Prop := sdx d -> HRx d d' o.

Lemma HR_refl : rrefl HR.
Proof. intros d X S G. repeat split; auto; apply S. Qed.
Lemma HR_trans : rtrans HR.
Proof.
  intros a b c o1 o2 A B Xa Sa Ga. destruct (A Xa Sa Ga) as (Sb & Gb & Xb & Cb).
  destruct (B Xb Sb Gb) as (Sc & Gc & Xc & Cc). repeat split; auto; apply Sc.
Qed.
#[export] Hint Resolve HR_refl HR_trans : sdrel.

Lemma HRx_HR_trans a b c o1 o2 : HRx a b o1 -> HR b c o2 -> HRx a c (o1 ++ o2).
Proof.
  intros A B Sa Ga. destruct (A Sa Ga) as (Sb & Gb & Xb & Cb).
  destruct (B Xb Sb Gb) as (Sc & Gc & Xc & Cc). repeat split; auto; apply Sc.
Qed.

(* a state change that leaves the scheduler alone *)
Lemma HR_frame d d' :
  d_sched d' = d_sched d ->
  (d_shouldstop d = true -> d_shouldstop d' = true) ->
  d_max_restart d' = d_max_restart d -> d_failed_nodes d' = d_failed_nodes d ->
  (d_shuttingdown d = true -> d_shuttingdown d' = true) ->
  HR d d' [].
Proof.
  intros Es Hs Em Ef Hsd X (S1 & S2 & S0) G.
  assert (EX : exhausted d' <-> exhausted d) by (unfold exhausted; rewrite Em, Ef; tauto).
  unfold SId, Gd, Lk, consd, sdx. rewrite Es, Ef. repeat split; auto.
  - destruct G as [G|[L|[L|L]]]; auto. right. right. left. apply EX. exact L.
  - intros E. apply Hsd, X, EX, E.
Qed.

Ltac hr_frame := apply HR_frame; cbn; solve [auto].

(* a scheduler operation that may run late (no add_node / add_node_collection / schedule) *)
Lemma hr_sched_op op d0 : late_op op = true -> dsop op = true -> from HR d0 (d_sched_op op).
Proof.
  intros Hl Hd d' o r H X (S1 & S2 & S0) G. unfold d_sched_op in H.
  destruct (s_step (d_sched d0) op) as [[st o1] r1] eqn:E. inversion H; subst. clear H.
  unfold SId, Gd, Lk, consd, sdx, exhausted. cbn [d_sched d_set_sched d_shouldstop d_max_restart d_failed_nodes d_shuttingdown].
  split; [split; [eapply s_step_SIs; eassumption|split; [eapply is_ce_kind; [eapply s_step_kind; exact E|exact S2]|exact S0]]|].
  split; [|split; [exact X|]].
  - destruct G as [G|[L|[L|L]]]; auto.
    + left. eapply s_step_Gs; try eassumption. intros n ->. discriminate.
    + right. right. right. eapply s_step_TFs; eassumption.
  - intros n Hc. destruct (s_step_cons _ _ _ _ _ S2 Hd E n Hc) as [K| ->]; [exact K|discriminate].
Qed.
Lemma hr_sched_op_remove n d0 : from HR d0 (d_sched_op (SRemove n)).
Proof. apply hr_sched_op; reflexivity. Qed.
Lemma hr_sched_op_pending i d0 : from HR d0 (d_sched_op (SPending i)).
Proof. apply hr_sched_op; reflexivity. Qed.
Lemma hr_sched_op_complete n i ms d0 : from HR d0 (d_sched_op (SComplete n i ms)).
Proof. apply hr_sched_op; reflexivity. Qed.
Lemma hr_sched_op_unsched n ixs d0 : from HR d0 (d_sched_op (SUnsched n ixs)).
Proof. apply hr_sched_op; reflexivity. Qed.
Lemma hr_sched_op_new n sp d0 : from HR d0 (d_sched_op (SNew n sp)).
Proof. apply hr_sched_op; reflexivity. Qed.

Create HintDb hrdb.
#[export] Hint Resolve hr_sched_op_remove hr_sched_op_pending hr_sched_op_complete hr_sched_op_unsched
  hr_sched_op_new : hrdb.

Ltac hr1 :=
  first
    [ apply f_ret; rr | apply f_raise; rr | apply f_massert; rr | apply f_of_opt; rr
    | apply f_getv; rr
    | apply f_put; hr_frame
    | apply f_emit; apply HR_refl
    | apply f_mfor; [rr | rr | intros ? ?]
    | match goal with
      | |- from _ _ (mbind get _) => apply f_get
      | |- from _ _ (mbind (ret _) _) => apply f_ret_bind
      | |- from _ _ (mbind (of_opt _ _) _) => apply f_of_opt_bind; [rr | intros ? ?]
      | |- from _ _ (mbind (massert _) _) => apply f_massert_bind; [rr | intros ?]
      | |- from _ _ (mbind _ _) => apply f_bind; [rr | | intros ? ?]
      end
    | progress cbv zeta
    | match goal with
      | |- from _ _ (match ?x with _ => _ end) => destruct x eqn:?
      | |- from _ _ (let '(_, _) := ?x in _) => destruct x eqn:?
      end
    | solve [eauto with hrdb] ].
Ltac hr := repeat hr1.

Lemma hr_active_remove n d0 : from HR d0 (d_active_remove n).
Proof. unfold d_active_remove. hr. Qed.
#[export] Hint Resolve hr_active_remove : hrdb.
Lemma hr_handlefailures f d0 : from HR d0 (d_handlefailures f).
Proof. unfold d_handlefailures. hr. Qed.
#[export] Hint Resolve hr_handlefailures : hrdb.
Lemma hr_handle_crashitem item n d0 : from HR d0 (d_handle_crashitem item n).
Proof. unfold d_handle_crashitem, hook. hr. Qed.
#[export] Hint Resolve hr_handle_crashitem : hrdb.
Lemma hr_try_block n d0 : from HR d0 (try_block n).
Proof.
  intros d' o r H. unfold try_block in H.
  destruct (d_sched_op (SRemove n) d0) as [[d1 o1] r1] eqn:E1.
  pose proof (hr_sched_op_remove n d0 _ _ _ E1) as R1.
  destruct r1 as [[item|]|e].
  - destruct (d_handle_crashitem item n d1) as [[d2 o2] r2] eqn:E2. inversion H; subst.
    eapply HR_trans; [exact R1|exact (hr_handle_crashitem _ _ _ _ _ _ E2)].
  - inversion H; subst. exact R1.
  - destruct e; inversion H; subst; exact R1.
Qed.
#[export] Hint Resolve hr_try_block : hrdb.
Lemma hr_clone n d0 : from HR d0 (d_clone_node n).
Proof. unfold d_clone_node, hook. hr. Qed.
#[export] Hint Resolve hr_clone : hrdb.

(* ------------------------------------------------------------------------------------------ *)
(* triggershutdown                                                                             *)
(* ------------------------------------------------------------------------------------------ *)
Lemma s_set_nt_id st : s_set_nt st (s_nt st) = st.
Proof. destruct st as [s|s|s|s]; destruct s; reflexivity. Qed.
Lemma s_set_nt_twice st v w : s_set_nt (s_set_nt st v) w = s_set_nt st w.
Proof. destruct st; reflexivity. Qed.

(* what triggershutdown does: only the node table changes, flags are only set for registered nodes *)
Definition TRG (d d' : dstate) (o : list out) : Prop :=
  d_shouldstop d' = d_shouldstop d /\ d_failed_nodes d' = d_failed_nodes d /\
  d_max_restart d' = d_max_restart d /\
  (exists v, d_sched d' = s_set_nt (d_sched d) v /\
             forall m, flag v m = true -> flag (d_nt d) m = true \/ In m (s_nodes (d_sched d))) /\
  (d_shuttingdown d = true -> d_shuttingdown d' = true).
Lemma TRG_refl : rrefl TRG.
Proof.
  intros d. repeat split; auto. exists (d_nt d). split; [unfold d_nt; rewrite s_set_nt_id; reflexivity|auto].
Qed.
Lemma TRG_trans : rtrans TRG.
Proof.
  intros a b c o1 o2 (A1 & A2 & A3 & (v & A4 & A5) & A6) (B1 & B2 & B3 & (w & B4 & B5) & B6).
  repeat split; try congruence; auto. exists w. split.
  - rewrite B4, A4. apply s_set_nt_twice.
  - intros m Fm. destruct (B5 m Fm) as [K|K].
    + unfold d_nt in K. rewrite A4, s_nt_set_nt in K. apply A5. exact K.
    + right. rewrite A4, s_nodes_set_nt in K. exact K.
Qed.
#[export] Hint Resolve TRG_refl TRG_trans : sdrel.

Lemma trg_node_shutdown n d0 : In n (s_nodes (d_sched d0)) -> from TRG d0 (d_node_shutdown n).
Proof.
  intros Hn d' o r H. pose proof (node_shutdown_flags d_nt d_set_nt n _ _ _ _ d_nt_set H) as F.
  destruct (node_shutdown_frame _ _ _ _ _ _ _ H) as [->|(v & ->)]; [apply TRG_refl|].
  repeat split; auto. exists v. split; [reflexivity|]. intros m Fm.
  destruct (Nat.eq_dec m n) as [->|Hm]; [right; exact Hn|left].
  rewrite <- (F m Hm). rewrite d_nt_set. exact Fm.
Qed.

Lemma trg_triggershutdown d0 : from TRG d0 d_triggershutdown.
Proof.
  unfold d_triggershutdown. apply f_get. destruct (d_shuttingdown d0); [apply f_ret; rr|].
  apply f_put_bind; [rr| |].
  { repeat split; auto. exists (d_nt d0). split; [cbn; unfold d_nt; rewrite s_set_nt_id; reflexivity|auto]. }
  assert (G : forall l d1, (forall a, In a l -> In a (s_nodes (d_sched d1))) -> from TRG d1 (mfor l d_node_shutdown)).
  { induction l as [|x l IH]; intros d1 Hl; cbn [mfor]; [apply f_ret; rr|].
    apply f_bind_r; [rr|apply trg_node_shutdown; apply Hl; left; reflexivity|].
    intros _ d2 o2 (_ & _ & _ & (v & E & _) & _). apply IH. intros a Ha.
    rewrite E, s_nodes_set_nt. apply Hl. right. exact Ha. }
  apply G. intros a Ha. exact Ha.
Qed.

Definition Gfree (d : dstate) : Prop := forall v, Gs (s_set_nt (d_sched d) v).

Lemma trigger_HRx d d' o r :
  d_triggershutdown d = (d', o, r) -> (SId d -> Lk d \/ Gfree d) -> HRx d d' o.
Proof.
  intros H Hp (S1 & S2 & S0) G.
  destruct (trg_triggershutdown d _ _ _ H) as (T1 & T2 & T3 & (v & T4 & T5) & T6).
  destruct (triggershutdown_spec _ _ _ _ H) as (Hsd & _).
  unfold SId, Gd, Lk, consd, sdx, exhausted. rewrite T1, T2, T3, T4.
  split; [split; [apply SIs_set_nt; exact S1|split; [apply is_ce_set_nt; exact S2|exact S0]]|].
  split; [|split; [intros _; exact Hsd|]].
  - destruct (Hp (conj S1 (conj S2 S0))) as [[L|[L|L]]|GF]; auto.
    right. right. right. apply TFs_set_nt. exact L.
  - intros n. apply cons_set_nt. apply T5.
Qed.

Lemma is_ce_cases st : is_ce st -> (exists s, st = StC s) \/ (exists s, st = StE s).
Proof. destruct st; cbn; try contradiction; eauto. Qed.

(* the end of every iteration: tests finished => triggershutdown; stop flag set => triggershutdown *)
Lemma hr_tail1 d0 :
  from HR d0 (d <- get ;; if s_tests_finished (d_sched d) then d_triggershutdown else ret tt).
Proof.
  apply f_get. destruct (s_tests_finished (d_sched d0)) eqn:TF; [|apply f_ret; rr].
  intros d' o r H _. eapply trigger_HRx; [exact H|]. intros (S1 & S2 & S0).
  destruct (is_ce_cases _ S2) as [(s & E)|(s & E)].
  - destruct (sc_coll s) eqn:Ec.
    + right. intros v. rewrite E. cbn [s_set_nt Gs sc_coll sc_set_nt]. rewrite Ec. discriminate.
    + left. right. right. split; [exact TF|]. rewrite E. exact Ec.
  - left. right. right. split; [exact TF|]. rewrite E. exact I.
Qed.
Lemma hr_tail2 d0 :
  from HR d0 (d <- get ;; if d_shouldstop d then d_triggershutdown else ret tt).
Proof.
  apply f_get. destruct (d_shouldstop d0) eqn:SS; [|apply f_ret; rr].
  intros d' o r H _. eapply trigger_HRx; [exact H|]. intros _. left. left. exact SS.
Qed.
Lemma hr_tail (u : unit) d0 :
  from HR d0 ((d <- get ;; if s_tests_finished (d_sched d) then d_triggershutdown else ret tt) ;;;
              (d <- get ;; if d_shouldstop d then d_triggershutdown else ret tt)).
Proof. apply f_bind; [rr|apply hr_tail1|intros _ d1; apply hr_tail2]. Qed.

(* ------------------------------------------------------------------------------------------ *)
(* worker_errordown                                                                            *)
(* ------------------------------------------------------------------------------------------ *)
Import CollectionProofs.

Lemma hr_errordown n d0 : from HR d0 (d_worker_errordown n).
Proof.
  rewrite errordown_unfold. unfold hook. apply f_emit_same; [rr|apply HR_refl|].
  apply f_bind; [rr|apply hr_try_block|]. intros _ d1. apply f_get. cbv zeta.
  intros d' o r H X1 S1 G1. rewrite mbind_put in H.
  set (d3 := d_set_failed_nodes d1 (d_failed_nodes d1 + 1)%Z) in *.
  assert (S3 : SId d3).
  { destruct S1 as (A1 & A2 & A0). split; [exact A1|]. split; [exact A2|]. cbn [d3 d_failed_nodes d_set_failed_nodes]. lia. }
  assert (G3 : Gd d3 \/ Lk d3).
  { destruct G1 as [G|[L|[L|L]]]; [left; exact G|right; left; exact L| |right; right; right; exact L].
    right. right. left. unfold exhausted in *. cbn [d3 d_max_restart d_failed_nodes d_set_failed_nodes].
    destruct (d_max_restart d1); [lia|exact L]. }
  assert (N1 : (0 <= d_failed_nodes d1)%Z) by apply S1.
  assert (C3 : forall k, consd d3 k -> consd d1 k) by (intros k K; exact K).
  (* the budget decision *)
  assert (DEC : forall d4 o4 r4,
     (match d_max_restart d1 with
      | Some m =>
          if (m <? d_failed_nodes d1 + 1)%Z then emit (OHook (HSummary (m =? 0)%Z)) ;;; d_triggershutdown
          else (d2 <- get ;; put (d_set_shuttingdown d2 false)) ;;; d_clone_node n
      | None => (d2 <- get ;; put (d_set_shuttingdown d2 false)) ;;; d_clone_node n
      end) d3 = (d4, o4, r4) ->
     SId d4 /\ (Gd d4 \/ Lk d4) /\ sdx d4 /\ (forall k, consd d4 k -> consd d1 k)).
  { intros d4 o4 r4 HD.
    assert (REV : ~ exhausted d3 ->
              forall dq oq rq, ((d2 <- get ;; put (d_set_shuttingdown d2 false)) ;;; d_clone_node n) d3 = (dq, oq, rq) ->
              SId dq /\ (Gd dq \/ Lk dq) /\ sdx dq /\ (forall k, consd dq k -> consd d1 k)).
    { intros NE dq oq rq HC. apply mbind_inv in HC.
      destruct HC as [(e & Ha & _)|(da & oa & [] & ob & Ha & Hb & _)]; [unfold mbind, get, put in Ha; inversion Ha|].
      unfold mbind, get, put in Ha. inversion Ha; subst da oa. clear Ha.
      set (d3r := d_set_shuttingdown d3 false) in *.
      assert (X3 : sdx d3r) by (intros E; destruct (NE E)).
      destruct (hr_clone n d3r _ _ _ Hb X3 S3 G3) as (Sq & Gq & Xq & Cq). repeat split; auto; apply Sq. }
    destruct (d_max_restart d1) as [m|] eqn:Em.
    - destruct (m <? d_failed_nodes d1 + 1)%Z eqn:Elt.
      + unfold mbind, emit in HD. destruct (d_triggershutdown d3) as [[dt ot] rt] eqn:Et. inversion HD; subst.
        assert (E3 : exhausted d3).
        { unfold exhausted. cbn [d3 d_max_restart d_failed_nodes d_set_failed_nodes]. rewrite Em.
          apply Z.ltb_lt in Elt. lia. }
        destruct (trigger_HRx _ _ _ _ Et (fun _ => or_introl (or_intror (or_introl E3))) S3 G3) as (A & B & C & D).
        repeat split; auto; apply A.
      + eapply REV; [|exact HD]. unfold exhausted. cbn [d3 d_max_restart d_failed_nodes d_set_failed_nodes].
        rewrite Em. apply Z.ltb_ge in Elt. lia.
    - eapply REV; [|exact HD]. unfold exhausted. cbn [d3 d_max_restart d_failed_nodes d_set_failed_nodes].
      rewrite Em. auto. }
  apply mbind_inv in H. destruct H as [(e & HD & ->)|(d4 & o4 & [] & o5 & HD & HA & ->)].
  - destruct (DEC _ _ _ HD) as (A & B & C & D). repeat split; auto; apply A.
  - destruct (DEC _ _ _ HD) as (A & B & C & D).
    destruct (hr_active_remove n d4 _ _ _ HA C A B) as (A' & B' & C' & D'). repeat split; auto; apply A'.
Qed.
#[export] Hint Resolve hr_errordown : hrdb.

(* ------------------------------------------------------------------------------------------ *)
(* the event handlers other than workerready and collectionfinish                              *)
(* ------------------------------------------------------------------------------------------ *)
Definition simple_ev (ev : cevent) : bool :=
  match ev with QReady _ | QCollFinish _ _ => false | _ => true end.

(* the keyboard-interrupt branch of workerfinished: the stop flag is set (the session is locked),
   the shutdown is triggered, then worker_errordown *)
Lemma hr_kbd n d0 :
  from HR d0 ((d <- get ;; put (d_set_shouldstop d true)) ;;; d_triggershutdown ;;; d_worker_errordown n).
Proof.
  intros d' o r H.
  apply DSessionProofs.mbind_inv in H. destruct H as [(d1 & o1 & [] & o2 & H1 & H2 & ->)|(e & H1 & _)].
  2:{ unfold mbind, get, put in H1. inversion H1. }
  unfold mbind at 1, get, put in H1. inversion H1; subst d1 o1. clear H1. cbn [app].
  assert (R1 : HR d0 (d_set_shouldstop d0 true) []) by hr_frame.
  intros X0 S0 G0. destruct (R1 X0 S0 G0) as (S1 & G1 & X1 & C1).
  assert (T : forall d3 o3 r3, d_triggershutdown (d_set_shouldstop d0 true) = (d3, o3, r3) ->
              HRx (d_set_shouldstop d0 true) d3 o3).
  { intros d3 o3 r3 H3. eapply trigger_HRx; [exact H3|]. intros _. left. left. reflexivity. }
  apply DSessionProofs.mbind_inv in H2. destruct H2 as [(d3 & o3 & [] & o4 & H3 & H4 & ->)|(e & H3 & ->)].
  - pose proof (HRx_HR_trans _ _ _ _ _ (T _ _ _ H3) (hr_errordown n d3 _ _ _ H4)) as T2.
    destruct (T2 S1 G1) as (A & B & C & D). split; [exact A|]. split; [exact B|]. split; [exact C|].
    intros k K. apply C1, D, K.
  - destruct (T _ _ _ H3 S1 G1) as (A & B & C & D). split; [exact A|]. split; [exact B|]. split; [exact C|].
    intros k K. apply C1, D, K.
Qed.

Lemma hr_handle ev d0 : simple_ev ev = true -> from HR d0 (d_handle ev).
Proof.
  destruct ev as [n|n ids|n key fl|n i|n i|n i k oc|n i ms|n ixs| |n|n sk|n]; cbn [simple_ev d_handle];
    intros Hc; try discriminate; unfold hook; try (hr; fail).
  unfold d_worker_workerfinished, hook. destruct sk; try (hr; fail).
  apply f_emit_same; [rr|apply HR_refl|]. apply hr_kbd.
Qed.

(* a scheduler operation performed while the guard holds *)
Lemma sched_op_G op d d1 o r :
  dsop op = true -> d_sched_op op d = (d1, o, r) -> SId d -> Gd d -> sdx d ->
  (forall n, op = SAddNode n -> flag (d_nt d) n = false) ->
  SId d1 /\ Gd d1 /\ sdx d1 /\ (forall k, consd d1 k -> consd d k \/ op = SAddNode k) /\
  d_shuttingdown d1 = d_shuttingdown d.
Proof.
  intros Hd H (S1 & S2 & S0) G X Hadd. unfold d_sched_op in H.
  destruct (s_step (d_sched d) op) as [[st o1] r1] eqn:E. inversion H; subst. clear H.
  unfold SId, Gd, consd, sdx, exhausted.
  cbn [d_sched d_set_sched d_shouldstop d_max_restart d_failed_nodes d_shuttingdown].
  split; [split; [eapply s_step_SIs; eassumption|split; [eapply is_ce_kind; [eapply s_step_kind; exact E|exact S2]|exact S0]]|].
  split; [eapply s_step_Gs; eassumption|]. split; [exact X|]. split; [|reflexivity].
  intros k. exact (s_step_cons _ _ _ _ _ S2 Hd E k).
Qed.

Lemma s_tests_finished_set_nt st v : s_tests_finished (s_set_nt st v) = s_tests_finished st.
Proof. destruct st; reflexivity. Qed.

(* after the tail of an iteration, finished tests mean the session is shutting down *)
Lemma tail_tf d1 d' o :
  ((d <- get ;; if s_tests_finished (d_sched d) then d_triggershutdown else ret tt) ;;;
   (d <- get ;; if d_shouldstop d then d_triggershutdown else ret tt)) d1 = (d', o, Ok tt) ->
  s_tests_finished (d_sched d') = true -> d_shuttingdown d' = true.
Proof.
  intros H TF. apply mbind_inv in H. destruct H as [(e & _ & X)|(d2 & o2 & [] & o3 & H1 & H2 & _)]; [discriminate|].
  rewrite mbind_get in H1, H2.
  assert (T2 : d_shuttingdown d2 = true -> d_shuttingdown d' = true).
  { destruct (d_shouldstop d2).
    - intros _. exact (proj1 (triggershutdown_spec _ _ _ _ H2)).
    - unfold ret in H2. inversion H2; subst. auto. }
  assert (E2 : s_tests_finished (d_sched d') = s_tests_finished (d_sched d2)).
  { destruct (d_shouldstop d2).
    - destruct (trg_triggershutdown d2 _ _ _ H2) as (_ & _ & _ & (v & E & _) & _).
      rewrite E. apply s_tests_finished_set_nt.
    - unfold ret in H2. inversion H2; subst. reflexivity. }
  destruct (s_tests_finished (d_sched d1)) eqn:TF1.
  - apply T2. exact (proj1 (triggershutdown_spec _ _ _ _ H1)).
  - unfold ret in H1. inversion H1; subst. congruence.
Qed.

Lemma exhausted_Lk_sdx d : (Lk d -> d_shuttingdown d = true) -> sdx d.
Proof. intros H E. apply H. right. left. exact E. Qed.

(* ------------------------------------------------------------------------------------------ *)
(* one iteration of the controller loop                                                        *)
(* ------------------------------------------------------------------------------------------ *)
Lemma guard_after_addcoll n ids d :
  DI d -> d_shuttingdown d = false ->
  forall d1 o1 r1, d_sched_op (SAddColl n ids) d = (d1, o1, r1) -> guard_hyp (d_sched d1).
Proof.
  intros (S & LS & GL) Hsd d1 o1 r1 H.
  assert (G : Gd d). { destruct GL as [G|L]; [exact G|]. rewrite (LS L) in Hsd. discriminate. }
  destruct (sched_op_G (SAddColl n ids) _ _ _ _ eq_refl H S G (exhausted_Lk_sdx _ LS) (fun k E => ltac:(discriminate)))
    as ((A1 & A2 & _) & B & _).
  apply guard_hyp_of; assumption.
Qed.

Theorem loop_once_OGD ev d d' o r : DI d -> d_loop_once ev d = (d', o, r) -> OGD d d' o.
Proof.
  intros HD H. destruct (calls_schedule ev) eqn:Ec; [|exact (ogd_loop_once_noschedule ev d Ec _ _ _ H)].
  destruct ev; try discriminate. destruct (d_shuttingdown d) eqn:Hsd.
  - exact (ogd_loop_once_late _ d Hsd _ _ _ H).
  - exact (ogd_collfinish_guarded n ids d (guard_after_addcoll n ids d HD Hsd) _ _ _ H).
Qed.

(* the handler of workerready / collectionfinish / the rest, summarised *)
Lemma handle_summary ev d d1 o1 :
  DI d -> (forall n, ev = QReady n -> ~ consd d n) ->
  d_handle ev d = (d1, o1, Ok tt) ->
  SId d1 /\ (Gd d1 \/ Lk d1) /\ sdx d1 /\ (forall k, consd d1 k -> consd d k \/ ev = QReady k).
Proof.
  intros (S & LS & GL) Hside H. pose proof (exhausted_Lk_sdx _ LS) as X.
  destruct (simple_ev ev) eqn:Es.
  { destruct (hr_handle ev d Es _ _ _ H X S GL) as (A & B & C & D). repeat split; auto; apply A. }
  destruct ev as [n|n ids| | | | | | | | | |]; try discriminate; cbn [d_handle] in H.
  - (* workerready *)
    specialize (Hside n eq_refl). unfold hook, emit in H. unfold mbind at 1 in H.
    rewrite mbind_get in H.
    destruct (d_shuttingdown d) eqn:Hsd.
    + destruct (d_node_shutdown n d) as [[d2 o2] r2] eqn:E. inversion H; subst d2 o1 r2. clear H.
      pose proof (node_shutdown_flags d_nt d_set_nt n _ _ _ _ d_nt_set E) as F.
      destruct (node_shutdown_frame _ _ _ _ _ _ _ E) as [->|(v & ->)].
      * repeat split; auto; apply S.
      * assert (Hn : ~ In n (s_nodes (d_sched d))) by (intros K; apply Hside; right; exact K).
        unfold SId, Gd, Lk, consd, sdx, exhausted. rewrite d_sched_set_nt.
        cbn [d_set_nt d_set_sched d_shouldstop d_max_restart d_failed_nodes d_shuttingdown].
        split; [split; [apply SIs_set_nt; apply S|split; [apply is_ce_set_nt; apply S|apply S]]|].
        split; [|split; [exact X|]].
        -- destruct GL as [G|[L|[L|L]]]; auto.
           ++ left. apply Gs_set_nt; [|exact G]. intros m Hm Fm.
              assert (m <> n) by (intros ->; contradiction).
              specialize (F m H). rewrite d_nt_set in F. unfold d_nt in F. rewrite <- F. exact Fm.
           ++ right. right. right. apply TFs_set_nt. exact L.
        -- intros k Hk. destruct (Nat.eq_dec k n) as [->|Hkn]; [right; reflexivity|left].
           revert Hk. apply cons_set_nt. intros Fk. left.
           specialize (F k Hkn). rewrite d_nt_set in F. unfold d_nt in F. rewrite <- F. exact Fk.
    + assert (G : Gd d). { destruct GL as [G|L]; [exact G|discriminate (LS L)]. }
      destruct (d_sched_op (SAddNode n) d) as [[d2 o2] r2] eqn:E.
      assert (Fn : flag (d_nt d) n = false).
      { destruct (flag (d_nt d) n) eqn:Fn; [|reflexivity]. exfalso. apply Hside. left. exact Fn. }
      destruct (sched_op_G (SAddNode n) _ _ _ _ eq_refl E S G X (fun k Ek => ltac:(inversion Ek; subst; exact Fn)))
        as (A & B & C & D & _).
      assert (Ed : d1 = d2).
      { unfold mbind in H. rewrite E in H. destruct r2 as [a|e]; [unfold ret in H|]; inversion H; reflexivity. }
      subst d2.
      split; [exact A|]. split; [left; exact B|]. split; [exact C|].
      intros k Hk. destruct (D k Hk) as [K|K]; [left; exact K|right; inversion K; reflexivity].
  - (* collectionfinish *)
    rewrite mbind_get in H. destruct (d_shuttingdown d) eqn:Hsd.
    { unfold ret in H. inversion H; subst. repeat split; auto; apply S. }
    destruct (negb (mem_nat n (s_nodes (d_sched d)))).
    { unfold ret in H. inversion H; subst. repeat split; auto; apply S. }
    assert (G : Gd d). { destruct GL as [G|L]; [exact G|discriminate (LS L)]. }
    unfold hook, emit in H. unfold mbind at 1 in H.
    destruct (d_sched_op (SAddColl n ids) d) as [[d2 o2] r2] eqn:E2.
    destruct (sched_op_G (SAddColl n ids) _ _ _ _ eq_refl E2 S G X (fun k Ek => ltac:(discriminate))) as (A & B & C & D & _).
    unfold mbind at 1 in H. rewrite E2 in H. destruct r2 as [a2|e2]; [|inversion H].
    rewrite mbind_get in H. destruct (s_collection_is_completed (d_sched d2)).
    + destruct (d_sched_op SSchedule d2) as [[d3 o3] r3] eqn:E3.
      destruct (sched_op_G SSchedule _ _ _ _ eq_refl E3 A B C (fun k Ek => ltac:(discriminate))) as (A' & B' & C' & D' & _).
      assert (Ed : d1 = d3).
      { unfold mbind in H. rewrite E3 in H. destruct r3; inversion H; reflexivity. }
      subst d3. split; [exact A'|]. split; [left; exact B'|]. split; [exact C'|].
      intros k Hk. destruct (D' k Hk) as [K|K]; [|discriminate]. destruct (D k K) as [K2|K2]; [left; exact K2|discriminate].
    + unfold ret in H. inversion H; subst.
      split; [exact A|]. split; [left; exact B|]. split; [exact C|].
      intros k Hk. destruct (D k Hk) as [K2|K2]; [left; exact K2|discriminate].
Qed.

Theorem loop_once_DI ev d d' o :
  DI d -> (forall n, ev = QReady n -> ~ consd d n) ->
  d_loop_once ev d = (d', o, Ok tt) ->
  DI d' /\ (forall k, consd d' k -> consd d k \/ ev = QReady k).
Proof.
  intros HD Hside H. pose proof H as H0. unfold d_loop_once in H.
  apply mbind_inv in H. destruct H as [(e & _ & X)|(d1 & o1 & [] & o2 & H1 & H2 & _)]; [discriminate|].
  destruct (handle_summary _ _ _ _ HD Hside H1) as (S1 & G1 & X1 & C1).
  destruct (hr_tail tt d1 _ _ _ H2 X1 S1 G1) as (S' & G' & X' & C').
  split; [|intros k Hk; apply C1, C'; exact Hk].
  split; [exact S'|]. split; [|exact G'].
  intros [L|[L|(L & _)]].
  - exact (loop_once_stop_shuts_down _ _ _ _ H0 L).
  - exact (X' L).
  - exact (tail_tf _ _ _ H2 L).
Qed.
Print Assumptions loop_once_OGD.
Print Assumptions loop_once_DI.

(* ------------------------------------------------------------------------------------------ *)
(* changes of the node table that leave the _shutdown_sent flags alone                         *)
(* (receiver thread: _down; the system: channel closed)                                        *)
(* ------------------------------------------------------------------------------------------ *)
Lemma flag_aset_same nt n f f' m :
  aget n nt = Some f -> n_sdsent f' = n_sdsent f -> flag (aset n f' nt) m = flag nt m.
Proof.
  intros Hf Hs. unfold flag. rewrite aget_aset. destruct (Nat.eqb m n) eqn:E; [|reflexivity].
  apply Nat.eqb_eq in E. subst m. rewrite Hf. exact Hs.
Qed.

Lemma DI_same_flags d v :
  (forall m, flag v m = flag (d_nt d) m) -> DI d ->
  DI (d_set_nt d v) /\ (forall k, consd (d_set_nt d v) k <-> consd d k).
Proof.
  intros Hf ((S1 & S2 & S0) & LS & GL).
  assert (LK : Lk (d_set_nt d v) <-> Lk d).
  { unfold Lk, exhausted. rewrite d_sched_set_nt. cbn [d_set_nt d_set_sched d_shouldstop d_max_restart d_failed_nodes].
    rewrite TFs_set_nt. tauto. }
  split.
  - split; [split; [rewrite d_sched_set_nt; apply SIs_set_nt; exact S1|split; [rewrite d_sched_set_nt; apply is_ce_set_nt; exact S2|exact S0]]|].
    split; [intros L; apply LK in L; exact (LS L)|].
    destruct GL as [G|L]; [left|right; apply LK; exact L].
    unfold Gd. rewrite d_sched_set_nt. apply Gs_set_nt; [|exact G]. intros m _ Fm. rewrite Hf in Fm. exact Fm.
  - intros k. unfold consd, cons_s. rewrite d_sched_set_nt, s_nt_set_nt, s_nodes_set_nt, Hf. reflexivity.
Qed.

Lemma pfr_frame n m d d' o r :
  m <> UBad -> process_from_remote n m d = (d', o, r) ->
  o = [] /\
  (d' = d \/ exists f, aget n (d_nt d) = Some f /\
      d' = d_set_nt d (aset n {| n_spec := n_spec f; n_down := true; n_sdsent := n_sdsent f;
                                 n_closed := n_closed f |} (d_nt d))).
Proof.
  intros Hm. unfold process_from_remote, mbind, get, of_opt.
  destruct (aget n (d_nt d)) as [f|] eqn:Ef; cbn [ret raise]; [|unfold raise; intros H; inversion H; auto].
  unfold ret.
  assert (DOWN : forall (evs : list cevent) d'' o'' r'',
     (let '(s2, o2, r2) := put (d_set_nt d (aset n {| n_spec := n_spec f; n_down := true; n_sdsent := n_sdsent f;
                                                      n_closed := n_closed f |} (d_nt d))) d in
      match r2 with Ok _ => let '(s3, o3, r3) := (fun s => (s, [], Ok evs)) s2 in (s3, o2 ++ o3, r3)
                  | Err e => (s2, o2, Err e) end) = (d'', o'', r'') ->
     o'' = [] /\ (d'' = d \/ exists f0, Some f = Some f0 /\
        d'' = d_set_nt d (aset n {| n_spec := n_spec f0; n_down := true; n_sdsent := n_sdsent f0;
                                    n_closed := n_closed f0 |} (d_nt d)))).
  { intros evs d'' o'' r'' H. unfold put in H. inversion H; subst. split; [reflexivity|right; eauto]. }
  destruct m as [e|ids|sk|i ms|dec| | |]; try contradiction; destruct (n_down f);
    try (intros H; inversion H; auto; fail); try (apply DOWN; fail).
  destruct e; try (intros H; inversion H; auto; fail). apply DOWN.
Qed.

Theorem recv_DI n m d d' o r :
  m <> UBad -> process_from_remote n m d = (d', o, r) -> DI d ->
  o = [] /\ DI d' /\ (forall k, consd d' k <-> consd d k).
Proof.
  intros Hm H HD. destruct (pfr_frame _ _ _ _ _ _ Hm H) as (-> & [->|(f & Ef & ->)]).
  - split; [reflexivity|]. split; [exact HD|tauto].
  - split; [reflexivity|]. apply DI_same_flags; [|exact HD]. intros k.
    eapply flag_aset_same; [exact Ef|reflexivity].
Qed.

Theorem close_DI n f d :
  aget n (d_nt d) = Some f -> DI d ->
  DI (d_set_nt d (aset n (close_flag f) (d_nt d))) /\
  (forall k, consd (d_set_nt d (aset n (close_flag f) (d_nt d))) k <-> consd d k).
Proof.
  intros Ef HD. apply DI_same_flags; [|exact HD]. intros k. eapply flag_aset_same; [exact Ef|reflexivity].
Qed.
Print Assumptions recv_DI.
Print Assumptions close_DI.
