(* FifoProofs.v — C04: every test report produced in a worker reaches the controller's
   reporting hook exactly once, in the order the worker produced it, tagged with that worker.
   System-level invariant over Model/System.v, for every configuration and every schedule. *)
From XV Require Import Base Worker Ctl SchedLoad SchedSteal SchedScope SchedEach Sched DSession System
  NoHook DSessionProofs.
Open Scope nat_scope.

(* ====================================================================================== *)
(* Part 0: association lists                                                               *)
(* ====================================================================================== *)
Section AssocFacts.
  Context {V : Type}.
  Implicit Types m : amap V.

  Lemma aget_aset_eq k v m : aget k (aset k v m) = Some v.
  Proof.
    induction m as [|[k' v'] r IH]; cbn; [rewrite Nat.eqb_refl; reflexivity|].
    destruct (Nat.eqb k k') eqn:E; cbn; rewrite E; [reflexivity|exact IH].
  Qed.

  Lemma aget_aset_neq k k2 v m : k2 <> k -> aget k2 (aset k v m) = aget k2 m.
  Proof.
    intros Hn. induction m as [|[k' v'] r IH]; cbn.
    - destruct (Nat.eqb k2 k) eqn:E; [apply Nat.eqb_eq in E; contradiction|reflexivity].
    - destruct (Nat.eqb k k') eqn:E; cbn.
      + apply Nat.eqb_eq in E. subst k'.
        destruct (Nat.eqb k2 k) eqn:E2; [apply Nat.eqb_eq in E2; contradiction|reflexivity].
      + destruct (Nat.eqb k2 k'); [reflexivity|exact IH].
  Qed.

  Lemma akeys_aset_in k v m : In k (akeys m) -> akeys (aset k v m) = akeys m.
  Proof.
    unfold akeys. induction m as [|[k' v'] r IH]; cbn; [intros []|].
    intros H. destruct (Nat.eqb k k') eqn:E; cbn; [reflexivity|].
    destruct H as [H|H]; [subst k'; rewrite Nat.eqb_refl in E; discriminate|].
    rewrite (IH H). reflexivity.
  Qed.

  Lemma akeys_aset_incl k v m x : In x (akeys m) -> In x (akeys (aset k v m)).
  Proof.
    unfold akeys. induction m as [|[k' v'] r IH]; cbn; [intros []|].
    intros H. destruct (Nat.eqb k k') eqn:E; cbn; [exact H|].
    destruct H as [H|H]; [left; exact H|right; apply IH; exact H].
  Qed.

  Lemma akeys_aset_self k v m : In k (akeys (aset k v m)).
  Proof.
    unfold akeys. induction m as [|[k' v'] r IH]; cbn; [left; reflexivity|].
    destruct (Nat.eqb k k') eqn:E; cbn.
    - left. apply Nat.eqb_eq in E. auto.
    - right. exact IH.
  Qed.

  Lemma aget_in_akeys k m : aget k m <> None <-> In k (akeys m).
  Proof.
    unfold akeys. induction m as [|[k' v'] r IH]; cbn; [split; [intros H; contradiction|intros []]|].
    destruct (Nat.eqb k k') eqn:E.
    - apply Nat.eqb_eq in E. subst k'. split; [intros _; left; reflexivity|intros _; discriminate].
    - rewrite IH. split; [intros H; right; exact H|].
      intros [H|H]; [subst k'; rewrite Nat.eqb_refl in E; discriminate|exact H].
  Qed.

  Lemma aget_some_in k m v : aget k m = Some v -> In k (akeys m).
  Proof. intros H. apply aget_in_akeys. rewrite H. discriminate. Qed.

  Lemma aget_none_notin k m : aget k m = None <-> ~ In k (akeys m).
  Proof.
    split.
    - intros H Hin. apply aget_in_akeys in Hin. contradiction.
    - intros H. destruct (aget k m) eqn:E; [|reflexivity]. exfalso. apply H.
      apply aget_in_akeys. rewrite E. discriminate.
  Qed.
End AssocFacts.

(* ====================================================================================== *)
(* Part A: no scheduler operation ever removes a WorkerController from the node table      *)
(* ====================================================================================== *)
Section KeyLogic.
  Context {S : Type} (key : S -> list nat).

  (* running m from s0 leaves the key list unchanged *)
  Definition kfrom {A} (s0 : S) (m : M S A) : Prop :=
    forall s' o r, m s0 = (s', o, r) -> key s' = key s0.
  Definition kspec {A} (m : M S A) : Prop := forall s0, kfrom s0 m.

  Lemma kf_ret {A} s0 (a : A) : kfrom s0 (ret a).
  Proof. intros s' o r H. inversion H; subst. reflexivity. Qed.
  Lemma kf_raise {A} s0 e : kfrom s0 (@raise S A e).
  Proof. intros s' o r H. inversion H; subst. reflexivity. Qed.
  Lemma kf_massert s0 b : kfrom s0 (@massert S b).
  Proof. destruct b; [apply kf_ret|apply kf_raise]. Qed.
  Lemma kf_of_opt {A} s0 (x : option A) e : kfrom s0 (@of_opt S A x e).
  Proof. destruct x; [apply kf_ret|apply kf_raise]. Qed.
  Lemma kf_emit s0 o : kfrom s0 (@emit S o).
  Proof. intros s' o' r H. inversion H; subst. reflexivity. Qed.
  Lemma kf_put s0 s1 : key s1 = key s0 -> kfrom s0 (put s1).
  Proof. intros Hk s' o r H. inversion H; subst. exact Hk. Qed.
  Lemma kf_bind {A B} s0 (m : M S A) (f : A -> M S B) :
    kfrom s0 m -> (forall a s1, key s1 = key s0 -> kfrom s1 (f a)) -> kfrom s0 (mbind m f).
  Proof.
    intros Hm Hf s' o r H. unfold mbind in H.
    destruct (m s0) as [[s1 o1] r1] eqn:E1. pose proof (Hm _ _ _ E1) as K1.
    destruct r1 as [a|e].
    - destruct (f a s1) as [[s2 o2] r2] eqn:E2. pose proof (Hf a s1 K1 _ _ _ E2) as K2.
      inversion H; subst. congruence.
    - inversion H; subst. exact K1.
  Qed.
  Lemma kf_get {B} s0 (k : S -> M S B) : kfrom s0 (k s0) -> kfrom s0 (mbind get k).
  Proof.
    intros Hk s' o r H. unfold mbind, get in H.
    destruct (k s0 s0) as [[s2 o2] r2] eqn:E2. inversion H; subst. apply (Hk _ _ _ E2).
  Qed.
  Lemma kf_catch s0 (m : M S unit) e : kfrom s0 m -> kfrom s0 (catch m e).
  Proof.
    intros Hm s' o r H. unfold catch in H. destruct (m s0) as [[s1 o1] r1] eqn:E1.
    pose proof (Hm _ _ _ E1) as K1. destruct r1 as [a|e'].
    - inversion H; subst. exact K1.
    - destruct (String.eqb _ _); inversion H; subst; exact K1.
  Qed.
  Lemma kf_mfor {A} (l : list A) (f : A -> M S unit) : (forall a, kspec (f a)) -> kspec (mfor l f).
  Proof.
    intros Hf. induction l as [|x l IH]; intros s0; cbn [mfor]; [apply kf_ret|].
    apply kf_bind; [apply Hf|intros _ s1 _; apply IH].
  Qed.
End KeyLogic.

Section KeyNodes.
  Context {S : Type} (nt_of : S -> ntable) (set_nt : S -> ntable -> S).
  Hypothesis nt_set : forall s v, nt_of (set_nt s v) = v.
  Let key (s : S) : list nat := akeys (nt_of s).

  Lemma k_node_flags n : kspec key (node_flags nt_of n).
  Proof. intros s0. unfold node_flags. apply kf_get. apply kf_of_opt. Qed.
  Lemma k_node_sd n : kspec key (node_shutting_down nt_of n).
  Proof. intros s0. unfold node_shutting_down. apply kf_bind; [apply k_node_flags|intros; apply kf_ret]. Qed.
  Lemma k_node_send n c : kspec key (node_send nt_of n c).
  Proof.
    intros s0. unfold node_send. apply kf_bind; [apply k_node_flags|intros f s1 _].
    destruct (n_closed f); [apply kf_ret|apply kf_emit].
  Qed.
  Lemma k_node_shutdown n : kspec key (node_shutdown nt_of set_nt n).
  Proof.
    intros s0 s' o r H. unfold node_shutdown in H.
    apply mbind_inv in H. destruct H as [(s1 & o1 & f & o2 & H1 & H2 & ->)|(e & H1 & _)].
    2:{ apply (k_node_flags n _ _ _ _ H1). }
    assert (E1 : s1 = s0 /\ aget n (nt_of s0) = Some f).
    { unfold node_flags, mbind, get, of_opt in H1. destruct (aget n (nt_of s0)) as [f'|]; inversion H1; subst. auto. }
    destruct E1 as (-> & Ef).
    destruct (n_down f || n_sdsent f); [inversion H2; subst; reflexivity|].
    apply mbind_inv in H2. destruct H2 as [(s2 & o3 & [] & o4 & H3 & H4 & ->)|(e & H3 & _)].
    2:{ apply (k_node_send n _ _ _ _ _ H3). }
    pose proof (k_node_send n _ _ _ _ _ H3) as K2.
    unfold mbind, get, put in H4. inversion H4; subst. unfold key in *. rewrite nt_set.
    rewrite akeys_aset_in; [exact K2|]. rewrite K2. eapply aget_some_in; eauto.
  Qed.
End KeyNodes.

Definition lkey (s : lstate) : list nat := akeys (l_nt s).
Definition wkey (s : wsstate) : list nat := akeys (ws_nt s).
Definition ckey (s : scstate) : list nat := akeys (sc_nt s).
Definition ekey (s : estate) : list nat := akeys (e_nt s).

Lemma lk_shutdown n : kspec lkey (node_shutdown l_nt l_set_nt n).
Proof. apply (k_node_shutdown l_nt l_set_nt). reflexivity. Qed.
Lemma wk_shutdown n : kspec wkey (node_shutdown ws_nt ws_set_nt n).
Proof. apply (k_node_shutdown ws_nt ws_set_nt). reflexivity. Qed.
Lemma ck_shutdown n : kspec ckey (node_shutdown sc_nt sc_set_nt n).
Proof. apply (k_node_shutdown sc_nt sc_set_nt). reflexivity. Qed.
Lemma ek_shutdown n : kspec ekey (node_shutdown e_nt e_set_nt n).
Proof. apply (k_node_shutdown e_nt e_set_nt). reflexivity. Qed.
Lemma lk_send n c : kspec lkey (node_send l_nt n c). Proof. apply (k_node_send l_nt). Qed.
Lemma wk_send n c : kspec wkey (node_send ws_nt n c). Proof. apply (k_node_send ws_nt). Qed.
Lemma ck_send n c : kspec ckey (node_send sc_nt n c). Proof. apply (k_node_send sc_nt). Qed.
Lemma ek_send n c : kspec ekey (node_send e_nt n c). Proof. apply (k_node_send e_nt). Qed.
Lemma lk_sd n : kspec lkey (node_shutting_down l_nt n). Proof. apply (k_node_sd l_nt). Qed.
Lemma wk_sd n : kspec wkey (node_shutting_down ws_nt n). Proof. apply (k_node_sd ws_nt). Qed.
Lemma ck_sd n : kspec ckey (node_shutting_down sc_nt n). Proof. apply (k_node_sd sc_nt). Qed.
Lemma ek_sd n : kspec ekey (node_shutting_down e_nt n). Proof. apply (k_node_sd e_nt). Qed.

Create HintDb kdb.
#[export] Hint Resolve lk_shutdown wk_shutdown ck_shutdown ek_shutdown lk_send wk_send ck_send ek_send
  lk_sd wk_sd ck_sd ek_sd : kdb.

Ltac kput :=
  unfold lkey, wkey, ckey, ekey in *;
  cbn [l_nt l_set_nt l_set_n2c l_set_n2p l_set_pending l_set_coll l_set_chunk
       ws_nt ws_set_nt ws_set_n2c ws_set_n2p ws_set_pending ws_set_coll ws_set_steal
       sc_nt sc_set_nt sc_set_coll sc_set_wq sc_set_assigned sc_set_reg
       e_nt e_set_nt e_set_n2c e_set_n2p e_set_started e_set_removed e_set_completed] in *;
  congruence.

Ltac k1 :=
  first
    [ apply kf_ret | apply kf_raise | apply kf_massert | apply kf_of_opt | apply kf_emit
    | apply kf_put; kput
    | apply kf_catch
    | match goal with |- kfrom _ _ (mbind get _) => apply kf_get; cbv beta end
    | match goal with |- kfrom _ _ (mbind _ _) => apply kf_bind; [|intros ? ? ?] end
    | match goal with |- kfrom _ _ (mfor _ _) => apply kf_mfor; intros ? ? end
    | progress cbv zeta
    | match goal with
      | |- kfrom _ _ (match ?x with _ => _ end) => destruct x
      | |- kfrom _ _ (if ?x then _ else _) => destruct x
      | |- kfrom _ _ (let '(_, _) := ?x in _) => destruct x
      | H : kspec _ ?m |- kfrom _ _ ?m => apply H
      | H : forall a, kspec _ (?m a) |- kfrom _ _ (?m _) => apply H
      | H : forall a b, kspec _ (?m a b) |- kfrom _ _ (?m _ _) => apply H
      end
    | solve [eauto with kdb]
    | match goal with |- kfrom _ ?s ?m => solve [apply (fun H : kspec _ m => H s); eauto with kdb] end ].
Ltac ks := repeat k1.

(* ---- load ---- *)
Lemma lk_send_tests n num : kspec lkey (l_send_tests n num).
Proof. intros s0. unfold l_send_tests. ks. Qed.
#[export] Hint Resolve lk_send_tests : kdb.
Lemma lk_check_schedule n d : kspec lkey (l_check_schedule n d).
Proof. intros s0. unfold l_check_schedule. ks. Qed.
#[export] Hint Resolve lk_check_schedule : kdb.
Lemma lk_round_robin fuel all cur : kspec lkey (l_round_robin fuel all cur).
Proof.
  revert cur. induction fuel as [|f IH]; intros cur s0; cbn [l_round_robin]; [apply kf_ret|].
  destruct cur as [|n r]; [destruct all as [|n r]; [apply kf_raise|]|];
    (apply kf_bind; [apply lk_send_tests|intros _ s1 _; apply IH]).
Qed.
#[export] Hint Resolve lk_round_robin : kdb.
Lemma lk_same : kspec lkey l_same_collection.
Proof. intros s0. unfold l_same_collection. ks. Qed.
#[export] Hint Resolve lk_same : kdb.
Lemma lk_schedule : kspec lkey l_schedule.
Proof. intros s0. unfold l_schedule. ks. Qed.
#[export] Hint Resolve lk_schedule : kdb.
Lemma lk_add_node n : kspec lkey (l_add_node n).
Proof. intros s0. unfold l_add_node. ks. Qed.
#[export] Hint Resolve lk_add_node : kdb.
Lemma lk_add_coll n c : kspec lkey (l_add_node_collection n c).
Proof. intros s0. unfold l_add_node_collection. ks. Qed.
#[export] Hint Resolve lk_add_coll : kdb.
Lemma lk_complete n i d : kspec lkey (l_mark_test_complete n i d).
Proof. intros s0. unfold l_mark_test_complete. ks. Qed.
#[export] Hint Resolve lk_complete : kdb.
Lemma lk_pending it : kspec lkey (l_mark_test_pending it).
Proof. intros s0. unfold l_mark_test_pending. ks. Qed.
#[export] Hint Resolve lk_pending : kdb.
Lemma lk_remove n : kspec lkey (l_remove_node n).
Proof. intros s0. unfold l_remove_node. ks. Qed.
#[export] Hint Resolve lk_remove : kdb.

(* ---- worksteal ---- *)
Lemma wk_send_tests n num : kspec wkey (ws_send_tests n num).
Proof. intros s0. unfold ws_send_tests. ks. Qed.
#[export] Hint Resolve wk_send_tests : kdb.
Lemma wk_distribute idle : kspec wkey (ws_distribute idle).
Proof.
  induction idle as [|n r IH]; intros s0; cbn [ws_distribute]; [apply kf_ret|].
  apply kf_get. cbv beta zeta. apply kf_bind; [apply wk_send_tests|intros _ s1 _; apply IH].
Qed.
#[export] Hint Resolve wk_distribute : kdb.
Lemma wk_check : kspec wkey ws_check_schedule.
Proof. intros s0. unfold ws_check_schedule. ks. Qed.
#[export] Hint Resolve wk_check : kdb.
Lemma wk_add_node n : kspec wkey (ws_add_node n).
Proof. intros s0. unfold ws_add_node. ks. Qed.
#[export] Hint Resolve wk_add_node : kdb.
Lemma wk_add_coll n c : kspec wkey (ws_add_node_collection n c).
Proof. intros s0. unfold ws_add_node_collection. ks. Qed.
#[export] Hint Resolve wk_add_coll : kdb.
Lemma wk_complete n i : kspec wkey (ws_mark_test_complete n i).
Proof. intros s0. unfold ws_mark_test_complete. ks. Qed.
#[export] Hint Resolve wk_complete : kdb.
Lemma wk_pending it : kspec wkey (ws_mark_test_pending it).
Proof. intros s0. unfold ws_mark_test_pending. ks. Qed.
#[export] Hint Resolve wk_pending : kdb.
Lemma wk_unsched n ixs : kspec wkey (ws_remove_pending_tests_from_node n ixs).
Proof. intros s0. unfold ws_remove_pending_tests_from_node. ks. Qed.
#[export] Hint Resolve wk_unsched : kdb.
Lemma wk_remove n : kspec wkey (ws_remove_node n).
Proof. intros s0. unfold ws_remove_node. ks. Qed.
#[export] Hint Resolve wk_remove : kdb.
Lemma wk_same : kspec wkey ws_same_collection.
Proof. intros s0. unfold ws_same_collection. ks. Qed.
#[export] Hint Resolve wk_same : kdb.
Lemma wk_schedule : kspec wkey ws_schedule.
Proof. intros s0. unfold ws_schedule. ks. Qed.
#[export] Hint Resolve wk_schedule : kdb.

(* ---- scope family ---- *)
Lemma ck_add_node n : kspec ckey (sc_add_node n).
Proof. intros s0. unfold sc_add_node. ks. Qed.
#[export] Hint Resolve ck_add_node : kdb.
Lemma ck_assign n : kspec ckey (sc_assign_work_unit n).
Proof. intros s0. unfold sc_assign_work_unit. ks. Qed.
#[export] Hint Resolve ck_assign : kdb.
Lemma ck_top_up fuel n : kspec ckey (sc_top_up fuel n).
Proof.
  induction fuel as [|f IH]; intros s0; cbn [sc_top_up]; [apply kf_ret|].
  ks.
Qed.
#[export] Hint Resolve ck_top_up : kdb.
Lemma ck_reschedule n : kspec ckey (sc_reschedule n).
Proof. intros s0. unfold sc_reschedule. ks. Qed.
#[export] Hint Resolve ck_reschedule : kdb.
Lemma ck_remove n : kspec ckey (sc_remove_node n).
Proof. intros s0. unfold sc_remove_node. ks. Qed.
#[export] Hint Resolve ck_remove : kdb.
Lemma ck_add_coll n c : kspec ckey (sc_add_node_collection n c).
Proof. intros s0. unfold sc_add_node_collection. ks. Qed.
#[export] Hint Resolve ck_add_coll : kdb.
Lemma ck_complete n i : kspec ckey (sc_mark_test_complete n i).
Proof. intros s0. unfold sc_mark_test_complete. ks. Qed.
#[export] Hint Resolve ck_complete : kdb.
Lemma ck_same : kspec ckey sc_same_collection.
Proof. intros s0. unfold sc_same_collection. ks. Qed.
#[export] Hint Resolve ck_same : kdb.
Lemma ck_pop_extra k : kspec ckey (sc_pop_extra k).
Proof.
  induction k as [|k IH]; intros s0; cbn [sc_pop_extra]; [apply kf_ret|].
  ks.
Qed.
#[export] Hint Resolve ck_pop_extra : kdb.
Lemma ck_schedule : kspec ckey sc_schedule.
Proof. intros s0. unfold sc_schedule. ks. Qed.
#[export] Hint Resolve ck_schedule : kdb.

(* ---- each ---- *)
Lemma ek_add_node n : kspec ekey (e_add_node n).
Proof. intros s0. unfold e_add_node. ks. Qed.
#[export] Hint Resolve ek_add_node : kdb.
Lemma ek_inherit n c dead : kspec ekey (e_inherit n c dead).
Proof.
  induction dead as [|[d p] r IH]; intros s0; cbn [e_inherit]; [apply kf_ret|].
  ks.
Qed.
#[export] Hint Resolve ek_inherit : kdb.
Lemma ek_add_coll n c : kspec ekey (e_add_node_collection n c).
Proof. intros s0. unfold e_add_node_collection. ks. Qed.
#[export] Hint Resolve ek_add_coll : kdb.
Lemma ek_complete n i : kspec ekey (e_mark_test_complete n i).
Proof. intros s0. unfold e_mark_test_complete. ks. Qed.
#[export] Hint Resolve ek_complete : kdb.
Lemma ek_remove n : kspec ekey (e_remove_node n).
Proof. intros s0. unfold e_remove_node. ks. Qed.
#[export] Hint Resolve ek_remove : kdb.
Lemma ek_schedule_node n : kspec ekey (e_schedule_node n).
Proof. intros s0. unfold e_schedule_node. ks. Qed.
#[export] Hint Resolve ek_schedule_node : kdb.
Lemma ek_schedule : kspec ekey e_schedule.
Proof. intros s0. unfold e_schedule. ks. Qed.
#[export] Hint Resolve ek_schedule : kdb.

(* ---- the scheduler interface: the node table only grows ---- *)
Definition skey (st : sstate) : list nat := akeys (s_nt st).

Lemma lift_keys {S A B} (key : S -> list nat) (wrap : S -> sstate) (f : A -> B) (m : M S A) s st' o r :
  (forall x, skey (wrap x) = key x) ->
  kspec key m -> lift wrap f (m s) = (st', o, r) -> skey st' = skey (wrap s).
Proof.
  intros Hw Hm H. unfold lift in H. destruct (m s) as [[s1 o1] r1] eqn:E.
  inversion H; subst. rewrite !Hw. exact (Hm _ _ _ _ E).
Qed.

Lemma s_nt_set st v : s_nt (s_set_nt st v) = v.
Proof. destruct st; reflexivity. Qed.

Theorem s_step_keys st op st' o r :
  s_step st op = (st', o, r) -> forall k, In k (skey st) -> In k (skey st').
Proof.
  assert (EQ : skey st' = skey st -> forall k, In k (skey st) -> In k (skey st')).
  { intros E k Hk. rewrite E. exact Hk. }
  destruct op; cbn [s_step]; intros H.
  - inversion H; subst. intros k Hk. unfold skey. rewrite s_nt_set. apply akeys_aset_incl. exact Hk.
  - apply EQ. destruct st; (eapply lift_keys; [|..|exact H]; [reflexivity|]); eauto with kdb.
  - apply EQ. destruct st; (eapply lift_keys; [|..|exact H]; [reflexivity|]); eauto with kdb.
  - apply EQ. destruct st; (eapply lift_keys; [|..|exact H]; [reflexivity|]); eauto with kdb.
  - apply EQ. destruct st; (eapply lift_keys; [|..|exact H]; [reflexivity|]); eauto with kdb.
  - apply EQ. destruct st; try (inversion H; reflexivity); (eapply lift_keys; [|..|exact H]; [reflexivity|]); eauto with kdb.
  - apply EQ. destruct st; try (inversion H; reflexivity); (eapply lift_keys; [|..|exact H]; [reflexivity|]); eauto with kdb.
  - apply EQ. destruct st; (eapply lift_keys; [|..|exact H]; [reflexivity|]); eauto with kdb.
  - destruct (aget n (s_nt st)) eqn:E; inversion H; subst; [|auto].
    intros k Hk. unfold skey. rewrite s_nt_set. apply akeys_aset_incl. exact Hk.
  - apply EQ. destruct st; (eapply lift_keys; [|..|exact H]; [reflexivity|]); eauto with kdb.
Qed.

(* ====================================================================================== *)
(* Part B: what the controller's handlers do to the node table and which reports they emit *)
(* ====================================================================================== *)
Definition dkeys (d : dstate) : list nat := akeys (d_nt d).

(* every id below the group counter has a WorkerController *)
Definition Inv (d : dstate) : Prop := forall m, m < d_next_gw d -> In m (dkeys d).

Definition Rk (d d' : dstate) : Prop :=
  (forall k, In k (dkeys d) -> In k (dkeys d')) /\ (Inv d -> Inv d').
Lemma Rk_refl d : Rk d d. Proof. split; auto. Qed.
Lemma Rk_trans a b c : Rk a b -> Rk b c -> Rk a c.
Proof. intros (A1 & A2) (B1 & B2). split; auto. Qed.

Definition noreport (o : out) : Prop :=
  match o with OHook (HReport _ _ _ _) => False | _ => True end.

Lemma not_hook_noreport o : not_hook o -> noreport o.
Proof. destruct o as [h| | |]; cbn; [contradiction|auto..]. Qed.

Notation rfrom := (from Rk noreport).
Definition rspec {A} (m : D A) : Prop := dspec Rk noreport m.

(* same keys and same counter give Rk *)
Lemma Rk_same d d' : dkeys d' = dkeys d -> d_next_gw d' = d_next_gw d -> Rk d d'.
Proof.
  intros Hk Hg. split.
  - intros k Hin. rewrite Hk. exact Hin.
  - intros I m Hm. rewrite Hk. apply I. rewrite <- Hg. exact Hm.
Qed.

Lemma Rk_grow d d' : (forall k, In k (dkeys d) -> In k (dkeys d')) -> d_next_gw d' = d_next_gw d -> Rk d d'.
Proof.
  intros Hk Hg. split; [exact Hk|].
  intros I m Hm. apply Hk. apply I. rewrite <- Hg. exact Hm.
Qed.

Lemma r_sched_op op : rspec (d_sched_op op).
Proof.
  intros d d' o r H. pose proof H as H0.
  destruct (d_sched_op_frame _ _ _ _ _ H) as ((st & ->) & Hn). split.
  - unfold d_sched_op in H0. destruct (s_step (d_sched d) op) as [[st1 o1] r1] eqn:E. inversion H0; subst.
    apply Rk_grow; [|reflexivity]. intros k Hk. exact (s_step_keys _ _ _ _ _ E k Hk).
  - eapply Forall_impl; [|exact Hn]. intros x. apply not_hook_noreport.
Qed.

Lemma d_nt_set d v : d_nt (d_set_nt d v) = v.
Proof. unfold d_nt, d_set_nt. cbn. apply s_nt_set. Qed.

Lemma node_shutdown_facts n d d' o r :
  d_node_shutdown n d = (d', o, r) ->
  dkeys d' = dkeys d /\ d_next_gw d' = d_next_gw d /\ Forall not_hook o.
Proof.
  intros H. split; [|split].
  - exact (k_node_shutdown d_nt d_set_nt d_nt_set n _ _ _ _ H).
  - destruct (quiet_node_shutdown n _ _ _ _ H) as ((_ & _ & G) & _). exact G.
  - exact (nohook_node_shutdown d_nt d_set_nt n _ _ _ _ H).
Qed.

Lemma r_node_shutdown n : rspec (d_node_shutdown n).
Proof.
  intros d d' o r H. destruct (node_shutdown_facts _ _ _ _ _ H) as (K & G & N). split.
  - apply Rk_same; assumption.
  - eapply Forall_impl; [|exact N]. intros x. apply not_hook_noreport.
Qed.

Ltac r1 :=
  first
    [ apply (f_ret _ _ Rk_refl) | apply (f_raise _ _ Rk_refl)
    | apply (f_massert _ _ Rk_refl) | apply (f_of_opt _ _ Rk_refl)
    | apply (f_emit _ _ Rk_refl); exact I
    | apply f_put; apply Rk_same; reflexivity
    | match goal with |- from _ _ _ (mbind get _) => apply f_get end
    | match goal with |- from _ _ _ (mbind _ _) => apply (f_bind _ _ Rk_trans); [|intros ? ? ?] end
    | match goal with |- from _ _ _ (mfor _ _) => apply (f_mfor _ _ Rk_refl Rk_trans); intros ? end
    | progress cbv zeta
    | match goal with
      | |- from _ _ _ (match ?x with _ => _ end) => destruct x
      | |- from _ _ _ (if ?x then _ else _) => destruct x
      | H : rspec ?m |- from _ _ _ ?m => apply H
      end
    | apply r_sched_op | apply r_node_shutdown ].
Ltac rs := repeat r1.

Lemma r_triggershutdown : rspec d_triggershutdown.
Proof. intros d0. unfold d_triggershutdown. rs. Qed.

Lemma r_active_remove n : rspec (d_active_remove n).
Proof. intros d0. unfold d_active_remove. rs. Qed.

Lemma r_handlefailures f : rspec (d_handlefailures f).
Proof. intros d0. unfold d_handlefailures. rs. Qed.

Lemma r_handle_crashitem item n : rspec (d_handle_crashitem item n).
Proof. intros d0. unfold d_handle_crashitem, hook. rs. Qed.

Lemma r_clone_node n : rspec (d_clone_node n).
Proof.
  intros d d' o r. unfold d_clone_node, mbind, get, of_opt, hook, emit, put, ret, raise.
  destruct (aget n (d_nt d)) as [f|] eqn:Ef.
  2:{ intros H; inversion H; subst. split; [apply Rk_refl|constructor]. }
  unfold d_sched_op. cbn [s_step]. intros H. inversion H; subst. cbn [app]. split.
  - split.
    + intros k Hk. unfold dkeys, d_nt in *. cbn. rewrite s_nt_set. apply akeys_aset_incl. exact Hk.
    + intros I m Hm. unfold dkeys, d_nt in *. cbn in *. rewrite s_nt_set.
      destruct (Nat.eq_dec m (d_next_gw d)) as [->|Hne].
      * apply akeys_aset_self.
      * apply akeys_aset_incl. apply I. lia.
  - repeat constructor.
Qed.

Lemma r_try_block n : rspec (try_block n).
Proof.
  intros d d' o r. unfold try_block. destruct (d_sched_op (SRemove n) d) as [[d1 o1] r1] eqn:E1.
  destruct (r_sched_op _ _ _ _ _ E1) as (R1 & Q1).
  destruct r1 as [[item|]|e].
  - destruct (d_handle_crashitem item n d1) as [[d2 o2] r2] eqn:E2. intros H; inversion H; subst.
    destruct (r_handle_crashitem _ _ _ _ _ _ E2) as (R2 & Q2).
    split; [eapply Rk_trans; eauto|apply Forall_app; auto].
  - intros H; inversion H; subst. auto.
  - destruct e; intros H; inversion H; subst; auto.
Qed.

Lemma r_errordown n : rspec (d_worker_errordown n).
Proof.
  rewrite errordown_unfold. intros d0. unfold hook.
  rs; try apply r_try_block; try apply r_triggershutdown; try apply r_clone_node; try apply r_active_remove.
Qed.

Lemma r_workerfinished n sk : rspec (d_worker_workerfinished n sk).
Proof.
  intros d0. unfold d_worker_workerfinished, hook.
  rs; try apply r_errordown; try apply r_active_remove.
Qed.

Definition is_qreport (ev : cevent) : bool := match ev with QReport _ _ _ _ => true | _ => false end.

Lemma r_handle ev : is_qreport ev = false -> rspec (d_handle ev).
Proof.
  destruct ev as [n|n ids|n key fl|n i|n i|n i k oc|n i ms|n ixs| |n|n sk|n]; cbn [is_qreport d_handle]; intros Hq d0;
    try discriminate; unfold hook;
    rs; try apply r_workerfinished; try apply r_errordown; try apply r_active_remove; try apply r_handlefailures.
Qed.

Definition loop_rest : D unit :=
  (d <- get ;; if s_tests_finished (d_sched d) then d_triggershutdown else ret tt) ;;;
  (d <- get ;; if d_shouldstop d then d_triggershutdown else ret tt).

Lemma r_loop_rest : rspec loop_rest.
Proof. intros d0. unfold loop_rest. rs; apply r_triggershutdown. Qed.

Lemma r_no_active : rspec d_no_active.
Proof. intros d0. unfold d_no_active. rs. apply r_triggershutdown. Qed.

Lemma quiet_no_active : quiet d_no_active.
Proof.
  unfold d_no_active. apply (dspec_bind _ _ same_budget_trans); [apply quiet_triggershutdown|].
  intros _ d0. apply (f_raise _ _ same_budget_refl).
Qed.

(* ====================================================================================== *)
(* Part C: the observation functions of the property                                       *)
(* ====================================================================================== *)
Fixpoint sys_exec (c : config) (s : sys) (ls : list label) : sys * list out * list (nat * wevent) :=
  match ls with
  | [] => (s, [], [])
  | l :: r => match sys_step c s l with
              | None => sys_exec c s r
              | Some (s', o, w) => let '(s2, o2, w2) := sys_exec c s' r in (s2, o ++ o2, w ++ w2)
              end
  end.

Definition rep := (nat * nat * outcome)%type.

(* HReport hooks tagged n, in order *)
Definition forwarded (n : nat) (o : list out) : list rep :=
  flat_map (fun x => match x with
                     | OHook (HReport m i k oc) => if Nat.eqb m n then [(i,k,oc)] else []
                     | _ => [] end) o.
(* EReport events of worker n, in order *)
Definition produced (n : nat) (w : list (nat * wevent)) : list rep :=
  flat_map (fun p => match p with
                     | (m, EReport i k oc) => if Nat.eqb m n then [(i,k,oc)] else []
                     | _ => [] end) w.
Definition in_evq (n : nat) (q : list cevent) : list rep :=
  flat_map (fun e => match e with
                     | QReport m i k oc => if Nat.eqb m n then [(i,k,oc)] else []
                     | _ => [] end) q.
Definition in_up (n : nat) (s : sys) : list rep :=
  flat_map (fun m => match m with UEv (EReport i k oc) => [(i,k,oc)] | _ => [] end)
           (alist_get [] n (y_up s)).

Definition rep_of_up (m : upmsg) : list rep :=
  match m with UEv (EReport i k oc) => [(i,k,oc)] | _ => [] end.
Definition rep_of_q (n : nat) (e : cevent) : list rep :=
  match e with QReport m i k oc => if Nat.eqb m n then [(i,k,oc)] else [] | _ => [] end.

Lemma fm_app {A B} (f : A -> list B) a b : flat_map f (a ++ b) = flat_map f a ++ flat_map f b.
Proof. induction a as [|x a IH]; cbn; [reflexivity|]. rewrite IH, app_assoc. reflexivity. Qed.

Lemma forwarded_app n a b : forwarded n (a ++ b) = forwarded n a ++ forwarded n b.
Proof. apply fm_app. Qed.
Lemma produced_app n a b : produced n (a ++ b) = produced n a ++ produced n b.
Proof. apply fm_app. Qed.
Lemma in_evq_app n a b : in_evq n (a ++ b) = in_evq n a ++ in_evq n b.
Proof. apply fm_app. Qed.
Lemma in_evq_cons n e q : in_evq n (e :: q) = rep_of_q n e ++ in_evq n q.
Proof. reflexivity. Qed.
Lemma in_up_eq n s : in_up n s = flat_map rep_of_up (alist_get [] n (y_up s)).
Proof. reflexivity. Qed.

Lemma forwarded_noreport n o : Forall noreport o -> forwarded n o = [].
Proof.
  induction 1 as [|x o Hx Ho IH]; [reflexivity|].
  unfold forwarded in *. cbn [flat_map]. rewrite IH.
  destruct x as [[]| | |]; cbn in Hx; try contradiction; reflexivity.
Qed.

(* ---- one iteration of the controller loop forwards exactly the report it was given ---- *)
Lemma loop_once_unfold ev : d_loop_once ev = (d_handle ev ;;; loop_rest).
Proof. reflexivity. Qed.

Lemma loop_once_fifo ev d d' o r n :
  d_loop_once ev d = (d', o, r) -> Rk d d' /\ forwarded n o = rep_of_q n ev.
Proof.
  rewrite loop_once_unfold. intros H.
  destruct (is_qreport ev) eqn:Eq.
  - destruct ev as [| | | | |m i k oc| | | | | |]; try discriminate. clear Eq.
    apply mbind_inv in H. destruct H as [(d1 & o1 & [] & o2 & H1 & H2 & ->)|(e & H1 & ->)].
    + cbn [d_handle] in H1. unfold hook, emit, mbind in H1.
      destruct (d_handlefailures _ d) as [[dh oh] rh] eqn:Eh.
      destruct (r_handlefailures _ _ _ _ _ Eh) as (Rh & Qh).
      destruct (r_loop_rest _ _ _ _ H2) as (R2 & Q2).
      inversion H1; subst. split; [eapply Rk_trans; eauto|].
      rewrite forwarded_app. cbn [app]. rewrite (forwarded_noreport n o2 Q2), app_nil_r.
      change (forwarded n (OHook (HReport m i k oc) :: oh)) with (rep_of_q n (QReport m i k oc) ++ forwarded n oh).
      rewrite (forwarded_noreport n oh Qh), app_nil_r. reflexivity.
    + cbn [d_handle] in H1. unfold hook, emit, mbind in H1.
      destruct (d_handlefailures _ d) as [[dh oh] rh] eqn:Eh.
      destruct (r_handlefailures _ _ _ _ _ Eh) as (Rh & Qh).
      inversion H1; subst. split; [exact Rh|].
      change (forwarded n (OHook (HReport m i k oc) :: oh)) with (rep_of_q n (QReport m i k oc) ++ forwarded n oh).
      rewrite (forwarded_noreport n oh Qh), app_nil_r. reflexivity.
  - assert (RS : rspec (d_handle ev ;;; loop_rest)).
    { apply (dspec_bind _ _ Rk_trans); [apply r_handle; exact Eq|intros _; apply r_loop_rest]. }
    destruct (RS _ _ _ _ H) as (R1 & Q1). split; [exact R1|].
    rewrite (forwarded_noreport n o Q1). destruct ev; try reflexivity. discriminate.
Qed.

(* spawned ids of one controller iteration lie between the old and the new group counter *)
Lemma step_rel_spawn d d' o :
  step_rel d d' o ->
  d_next_gw d <= d_next_gw d' /\
  forall id sp, In (OHook (HSpawn id sp)) o -> d_next_gw d <= id < d_next_gw d'.
Proof.
  intros (_ & _ & _ & S4). destruct S4 as [(C0 & G0)|(C1 & G1 & _ & _ & sp0 & SP)].
  - split; [lia|]. intros id sp Hin. exfalso. eapply not_spawn_in; eauto.
  - split; [lia|]. intros id sp Hin. pose proof (SP _ Hin eq_refl) as E. inversion E; subst. lia.
Qed.

(* ---- the receiver thread: queues exactly the report it read, forwards nothing ---- *)
Lemma pfr_spec n m d d' o r :
  process_from_remote n m d = (d', o, r) ->
  dkeys d' = dkeys d /\ d_next_gw d' = d_next_gw d /\ Forall not_hook o /\
  (forall evs, r = Ok evs -> forall q, in_evq q evs = if Nat.eqb n q then rep_of_up m else []) /\
  (forall e, r = Err e -> aget n (d_nt d) <> None -> rep_of_up m = []).
Proof.
  unfold process_from_remote. intros H.
  apply mbind_inv in H. destruct H as [(d1 & o1 & dd & o2 & H1 & H & ->)|(e & H1 & _)]; [|inversion H1].
  unfold get in H1. inversion H1; subst d1 o1 dd. clear H1. cbn [app].
  destruct (aget n (d_nt d)) as [f|] eqn:Ef.
  2:{ unfold mbind, of_opt, raise in H. inversion H; subst.
      split; [reflexivity|]. split; [reflexivity|]. split; [constructor|]. split; [discriminate|].
      intros e _ Hc. exfalso. apply Hc. reflexivity. }
  apply mbind_inv in H. destruct H as [(d2 & o3 & f' & o4 & H1 & H & ->)|(e & H1 & _)]; [|inversion H1].
  unfold of_opt, ret in H1. inversion H1; subst d2 o3 f'. clear H1. cbn [app]. cbv zeta in H.
  assert (KS : forall v, dkeys (d_set_nt d (aset n v (d_nt d))) = dkeys d).
  { intros v. unfold dkeys. rewrite d_nt_set. apply akeys_aset_in. eapply aget_some_in; eauto. }
  assert (QE : forall q, in_evq q [QErrorDown n] = []) by reflexivity.
  assert (SD : forall (evs0 : list cevent) d' o r, (d_node_shutdown n ;;; ret evs0) d = (d', o, r) ->
               dkeys d' = dkeys d /\ d_next_gw d' = d_next_gw d /\ Forall not_hook o /\
               (forall evs, r = Ok evs -> evs = evs0)).
  { clear. intros evs0 d' o r HS. apply mbind_inv in HS. destruct HS as [(d5 & o5 & [] & o6 & H1 & H2 & ->)|(e & H1 & ->)].
    - destruct (node_shutdown_facts _ _ _ _ _ H1) as (K & G & N). unfold ret in H2. inversion H2; subst.
      rewrite app_nil_r. repeat split; auto. intros evs E. inversion E. reflexivity.
    - destruct (node_shutdown_facts _ _ _ _ _ H1) as (K & G & N). repeat split; auto. discriminate. }
  destruct m as [e|ids|sk|i ms|[|]| | |].
  - destruct e; unfold mbind, put, ret in H; inversion H; subst; cbn [app];
      (split; [first [reflexivity|apply KS]|]); (split; [reflexivity|]); (split; [constructor|]);
      (split; [|discriminate]); intros evs E q; inversion E; subst; cbn; try reflexivity;
      destruct (Nat.eqb n q); reflexivity.
  - unfold ret in H. inversion H; subst. repeat split; try constructor; try discriminate.
    intros evs E q. inversion E; subst. cbn. destruct (Nat.eqb n q); reflexivity.
  - unfold mbind, put, ret in H. inversion H; subst. cbn [app].
    split; [apply KS|]. split; [reflexivity|]. split; [constructor|]. split; [|discriminate].
    intros evs E q. inversion E; subst. cbn. destruct (Nat.eqb n q); reflexivity.
  - unfold ret in H. inversion H; subst. repeat split; try constructor; try discriminate.
    intros evs E q. inversion E; subst. cbn. destruct (Nat.eqb n q); reflexivity.
  - unfold ret in H. inversion H; subst. repeat split; try constructor; try discriminate.
    intros evs E q. inversion E; subst. cbn. destruct (Nat.eqb n q); reflexivity.
  - unfold ret in H. inversion H; subst. repeat split; try constructor; try discriminate.
    intros evs E q. inversion E; subst. cbn. destruct (Nat.eqb n q); reflexivity.
  - unfold ret in H. inversion H; subst. repeat split; try constructor; try discriminate.
    intros evs E q. inversion E; subst. cbn. destruct (Nat.eqb n q); reflexivity.
  - destruct (SD _ _ _ _ H) as (K & G & N & EV). split; [exact K|]. split; [exact G|]. split; [exact N|].
    split; [|reflexivity]. intros evs E q. rewrite (EV _ E). cbn. destruct (Nat.eqb n q); reflexivity.
  - destruct (n_down f).
    + unfold ret in H. inversion H; subst. repeat split; try constructor; try discriminate.
      intros evs E q. inversion E; subst. cbn. destruct (Nat.eqb n q); reflexivity.
    + unfold mbind, put, ret in H. inversion H; subst. cbn [app].
      split; [apply KS|]. split; [reflexivity|]. split; [constructor|]. split; [|reflexivity].
      intros evs E q. inversion E; subst. cbn. destruct (Nat.eqb n q); reflexivity.
Qed.

(* ====================================================================================== *)
(* Part D: the system                                                                      *)
(* ====================================================================================== *)

(* ids at or above the group counter are unused (no wire, no process), and every id below
   it has a WorkerController *)
Definition WF (s : sys) : Prop :=
  (forall m, d_next_gw (y_d s) <= m -> aget m (y_up s) = None /\ aget m (y_w s) = None) /\
  Inv (y_d s).

Lemma alist_get_aset_eq {V} (dflt : V) k v (m : amap V) : alist_get dflt k (aset k v m) = v.
Proof. unfold alist_get. rewrite aget_aset_eq. reflexivity. Qed.
Lemma alist_get_aset_neq {V} (dflt : V) k k2 v (m : amap V) :
  k2 <> k -> alist_get dflt k2 (aset k v m) = alist_get dflt k2 m.
Proof. intros H. unfold alist_get. rewrite aget_aset_neq; auto. Qed.

(* ---- apply_outs ---- *)
Lemma apply_outs_frame outs : forall s,
  y_evq (apply_outs s outs) = y_evq s /\ y_d (apply_outs s outs) = y_d s.
Proof.
  induction outs as [|x outs IH]; intros s; [split; reflexivity|].
  destruct x as [h|n cmd| |]; cbn [apply_outs]; try apply IH.
  - destruct h; try apply IH. destruct (IH {| y_d := y_d s; y_evq := y_evq s; y_down := aset newid [] (y_down s);
                    y_up := aset newid [] (y_up s); y_w := aset newid w_init (y_w s);
                    y_dead := y_dead s; y_result := y_result s |}) as (A & B). split; assumption.
  - destruct (mem_nat n (y_dead s)); [apply IH|].
    destruct (IH {| y_d := y_d s; y_evq := y_evq s;
           y_down := aset n (alist_get [] n (y_down s) ++ [cmd]) (y_down s);
           y_up := y_up s; y_w := y_w s; y_dead := y_dead s; y_result := y_result s |}) as (A & B).
    split; assumption.
Qed.

Lemma apply_outs_up outs : forall s q,
  (forall id sp, In (OHook (HSpawn id sp)) outs -> alist_get [] id (y_up s) = []) ->
  alist_get [] q (y_up (apply_outs s outs)) = alist_get [] q (y_up s).
Proof.
  induction outs as [|x outs IH]; intros s q P; [reflexivity|].
  assert (P' : forall id sp, In (OHook (HSpawn id sp)) outs -> alist_get [] id (y_up s) = []).
  { intros id sp Hin. apply (P id sp). right. exact Hin. }
  destruct x as [h|n cmd| |]; cbn [apply_outs]; try (apply IH; exact P').
  - destruct h; try (apply IH; exact P').
    rewrite IH; cbn [y_up].
    + destruct (Nat.eq_dec q newid) as [->|Hne].
      * rewrite alist_get_aset_eq. symmetry. apply (P newid spec). left. reflexivity.
      * apply alist_get_aset_neq. exact Hne.
    + intros id sp Hin. destruct (Nat.eq_dec id newid) as [->|Hne].
      * apply alist_get_aset_eq.
      * rewrite alist_get_aset_neq; [|exact Hne]. apply (P' id sp Hin).
  - destruct (mem_nat n (y_dead s)); [apply IH; exact P'|].
    rewrite IH; cbn [y_up]; [reflexivity|exact P'].
Qed.

Lemma apply_outs_none outs : forall s m,
  (forall sp, ~ In (OHook (HSpawn m sp)) outs) ->
  aget m (y_up s) = None /\ aget m (y_w s) = None ->
  aget m (y_up (apply_outs s outs)) = None /\ aget m (y_w (apply_outs s outs)) = None.
Proof.
  induction outs as [|x outs IH]; intros s m P N; [exact N|].
  assert (P' : forall sp, ~ In (OHook (HSpawn m sp)) outs).
  { intros sp Hin. apply (P sp). right. exact Hin. }
  destruct x as [h|n cmd| |]; cbn [apply_outs]; try (apply IH; assumption).
  - destruct h; try (apply IH; assumption).
    apply IH; [exact P'|]. cbn [y_up y_w].
    assert (Hne : m <> newid). { intros ->. apply (P spec). left. reflexivity. }
    rewrite !aget_aset_neq; auto.
  - destruct (mem_nat n (y_dead s)); apply IH; assumption.
Qed.

(* a controller move: new controller state, then its outputs applied *)
Lemma ctl_move s d' outs :
  WF s -> Rk (y_d s) d' -> d_next_gw (y_d s) <= d_next_gw d' ->
  (forall id sp, In (OHook (HSpawn id sp)) outs -> d_next_gw (y_d s) <= id < d_next_gw d') ->
  WF (apply_outs (set_d s d') outs) /\
  y_evq (apply_outs (set_d s d') outs) = y_evq s /\
  y_d (apply_outs (set_d s d') outs) = d' /\
  forall q, alist_get [] q (y_up (apply_outs (set_d s d') outs)) = alist_get [] q (y_up s).
Proof.
  intros (W1 & W2) (R1 & R2) G SP.
  destruct (apply_outs_frame outs (set_d s d')) as (F1 & F2). cbn [set_d y_evq y_d] in F1, F2.
  split; [|split; [exact F1|split; [exact F2|]]].
  - split.
    + rewrite F2. intros m Hm. apply apply_outs_none.
      * intros sp Hin. specialize (SP _ _ Hin). lia.
      * cbn [set_d y_up y_w]. apply W1. lia.
    + rewrite F2. apply R2. exact W2.
  - intros q. rewrite apply_outs_up; [reflexivity|].
    intros id sp Hin. cbn [set_d y_up]. specialize (SP _ _ Hin).
    unfold alist_get. destruct (W1 id) as (U & _); [lia|]. rewrite U. reflexivity.
Qed.

Lemma no_spawn_not_hook outs id sp : Forall not_hook outs -> ~ In (OHook (HSpawn id sp)) outs.
Proof. intros F Hin. rewrite Forall_forall in F. exact (F _ Hin). Qed.

(* WF looks only at y_d, y_up and y_w *)
Lemma WF_ext s s' : y_d s' = y_d s -> y_up s' = y_up s -> y_w s' = y_w s -> WF s -> WF s'.
Proof. intros E1 E2 E3 (W1 & W2). unfold WF. rewrite E1, E2, E3. split; assumption. Qed.

(* ---- reports carried by worker events ---- *)
Lemma produced_own c n evs :
  flat_map rep_of_up (map (up_of_wevent c n) evs) = produced n (map (fun e => (n, e)) evs).
Proof.
  induction evs as [|e evs IH]; [reflexivity|].
  cbn [map flat_map]. unfold produced in *. cbn [flat_map]. rewrite IH.
  destruct e; cbn; rewrite ?Nat.eqb_refl; reflexivity.
Qed.

Lemma produced_other n q (evs : list wevent) : q <> n -> produced q (map (fun e => (n, e)) evs) = [].
Proof.
  intros Hne. induction evs as [|e evs IH]; [reflexivity|].
  unfold produced in *. cbn [map flat_map]. rewrite IH.
  destruct e; try reflexivity. destruct (Nat.eqb n q) eqn:E; [apply Nat.eqb_eq in E; congruence|reflexivity].
Qed.

(* a worker step of worker n: its events go to the end of its own wire *)
Lemma push_step c s n w w' evs q :
  WF s -> aget n (y_w s) = Some w ->
  let s' := push_up (set_w s n w') n (map (up_of_wevent c n) evs) in
  WF s' /\ y_evq s' = y_evq s /\
  in_up q s' = in_up q s ++ produced q (map (fun e => (n, e)) evs).
Proof.
  intros (W1 & W2) Hw s'. subst s'. split; [|split; [reflexivity|]].
  - split; [|exact W2]. cbn [push_up set_w y_d y_up y_w]. intros m Hm.
    assert (Hne : m <> n). { intros ->. destruct (W1 n Hm) as (_ & X). congruence. }
    rewrite !aget_aset_neq; auto.
  - rewrite !in_up_eq. cbn [push_up set_w y_up].
    destruct (Nat.eq_dec q n) as [->|Hne].
    + rewrite alist_get_aset_eq, fm_app, produced_own. reflexivity.
    + rewrite alist_get_aset_neq; [|exact Hne]. rewrite produced_other; [|exact Hne]. rewrite app_nil_r. reflexivity.
Qed.

Lemma crash_step c s n w q :
  WF s -> aget n (y_w s) = Some w ->
  WF (crash_worker c s n) /\ y_evq (crash_worker c s n) = y_evq s /\ in_up q (crash_worker c s n) = in_up q s.
Proof.
  intros (W1 & W2) Hw. split; [|split; [reflexivity|]].
  - assert (KG : Rk (y_d s) (y_d (crash_worker c s n))).
    { unfold crash_worker. cbn [y_d]. destruct (c_strict c); [|apply Rk_refl].
      destruct (aget n (d_nt (y_d s))) as [f|] eqn:Ef; [|apply Rk_refl].
      apply Rk_same; [|reflexivity]. unfold dkeys. rewrite d_nt_set. apply akeys_aset_in. eapply aget_some_in; eauto. }
    assert (GW : d_next_gw (y_d (crash_worker c s n)) = d_next_gw (y_d s)).
    { unfold crash_worker. cbn [y_d]. destruct (c_strict c); [|reflexivity].
      destruct (aget n (d_nt (y_d s))); reflexivity. }
    split; [|apply KG; exact W2]. rewrite GW. intros m Hm.
    assert (Hne : m <> n). { intros ->. destruct (W1 n Hm) as (_ & X). congruence. }
    unfold crash_worker. cbn [y_up y_w]. rewrite aget_aset_neq; auto.
  - rewrite !in_up_eq. unfold crash_worker. cbn [y_up].
    destruct (Nat.eq_dec q n) as [->|Hne].
    + rewrite alist_get_aset_eq, fm_app. cbn. rewrite app_nil_r. reflexivity.
    + rewrite alist_get_aset_neq; [reflexivity|exact Hne].
Qed.

Lemma close_if_dead_frame s n :
  y_evq (close_if_dead s n) = y_evq s /\ y_up (close_if_dead s n) = y_up s /\ y_w (close_if_dead s n) = y_w s /\
  Rk (y_d s) (y_d (close_if_dead s n)) /\ d_next_gw (y_d (close_if_dead s n)) = d_next_gw (y_d s).
Proof.
  unfold close_if_dead. destruct (mem_nat n (y_dead s)); [|repeat split; try apply Rk_refl; auto].
  destruct (aget n (d_nt (y_d s))) as [f|] eqn:Ef; [|repeat split; try apply Rk_refl; auto].
  destruct (n_down f); [|repeat split; try apply Rk_refl; auto].
  cbn [set_d y_evq y_up y_w y_d]. repeat split; auto.
  - intros k Hk. unfold dkeys. rewrite d_nt_set. apply akeys_aset_incl. exact Hk.
  - intros I m Hm. unfold dkeys. rewrite d_nt_set. apply akeys_aset_incl. apply I. exact Hm.
Qed.

Lemma in_up_ext n s s' : alist_get [] n (y_up s') = alist_get [] n (y_up s) -> in_up n s' = in_up n s.
Proof. intros E. unfold in_up. rewrite E. reflexivity. Qed.

(* ---- the controller's receiver thread takes the next message of worker n0 ---- *)
Lemma recv_fifo s n0 m rest d' outs r n rr :
  WF s -> aget n0 (y_up s) = Some (m :: rest) ->
  process_from_remote n0 m (y_d s) = (d', outs, r) ->
  let s1 := {| y_d := y_d s; y_evq := y_evq s; y_down := y_down s; y_up := aset n0 rest (y_up s);
               y_w := y_w s; y_dead := y_dead s; y_result := rr |} in
  let s2 := apply_outs (set_d s1 d') outs in
  forwarded n outs = [] /\
  match r with
  | Ok evs => WF (close_if_dead (set_evq s2 (y_evq s2 ++ evs)) n0) /\
              in_evq n (y_evq (close_if_dead (set_evq s2 (y_evq s2 ++ evs)) n0)) ++
              in_up n (close_if_dead (set_evq s2 (y_evq s2 ++ evs)) n0) = in_evq n (y_evq s) ++ in_up n s
  | Err e => WF s2 /\ in_evq n (y_evq s2) ++ in_up n s2 = in_evq n (y_evq s) ++ in_up n s
  end.
Proof.
  intros W Eu Ep s1 s2. pose proof W as (W1 & W2).
  destruct (pfr_spec _ _ _ _ _ _ Ep) as (K & G & N & EV & ER).
  assert (Ws1 : WF s1).
  { split; [|exact W2]. subst s1. cbn [y_d y_up y_w]. intros m0 Hm.
    assert (Hne : m0 <> n0). { intros ->. destruct (W1 n0 Hm) as (X & _). congruence. }
    rewrite aget_aset_neq; auto. }
  assert (CM := ctl_move s1 d' outs Ws1).
  destruct CM as (Ws2 & Q2 & D2 & U2).
  { subst s1. cbn [y_d]. apply Rk_same; assumption. }
  { subst s1. cbn [y_d]. lia. }
  { intros id sp Hin. exfalso. exact (no_spawn_not_hook _ _ _ N Hin). }
  fold s2 in Ws2, Q2, D2, U2.
  split.
  { apply forwarded_noreport. eapply Forall_impl; [|exact N]. intros x. apply not_hook_noreport. }
  assert (UP : flat_map rep_of_up (alist_get [] n (y_up s1)) =
               if Nat.eqb n0 n then flat_map rep_of_up rest else in_up n s).
  { subst s1. cbn [y_up]. destruct (Nat.eqb n0 n) eqn:E.
    - apply Nat.eqb_eq in E. subst n. rewrite alist_get_aset_eq. reflexivity.
    - rewrite alist_get_aset_neq; [reflexivity|]. intros ->. rewrite Nat.eqb_refl in E. discriminate. }
  assert (US : in_up n s = if Nat.eqb n0 n then rep_of_up m ++ flat_map rep_of_up rest else in_up n s).
  { destruct (Nat.eqb n0 n) eqn:E; [|reflexivity]. apply Nat.eqb_eq in E. subst n.
    rewrite in_up_eq. unfold alist_get. rewrite Eu. reflexivity. }
  destruct r as [evs|e].
  - destruct (close_if_dead_frame (set_evq s2 (y_evq s2 ++ evs)) n0) as (F1 & F2 & F3 & F4 & F5).
    cbn [set_evq y_evq y_up y_w y_d] in F1, F2, F3, F4, F5.
    split.
    + destruct Ws2 as (A1 & A2). split.
      * rewrite F5, F2, F3. exact A1.
      * apply F4. exact A2.
    + rewrite (in_up_eq n (close_if_dead _ _)), F2, U2, UP, US.
      rewrite F1, Q2. subst s1. cbn [y_evq]. rewrite in_evq_app, (EV evs eq_refl n).
      destruct (Nat.eqb n0 n); rewrite <- ?app_assoc, ?app_nil_r; reflexivity.
  - split; [exact Ws2|].
    rewrite Q2. subst s1. cbn [y_evq]. rewrite (in_up_eq n s2), U2, UP, US.
    assert (Hin : aget n0 (d_nt (y_d s)) <> None).
    { apply aget_in_akeys. apply W2. destruct (le_lt_dec (d_next_gw (y_d s)) n0) as [Hle|Hlt]; [|exact Hlt].
      destruct (W1 n0 Hle) as (X & _). congruence. }
    rewrite (ER e eq_refl Hin). destruct (Nat.eqb n0 n); reflexivity.
Qed.

(* ---- the controller main loop handles one event ---- *)
Lemma ctl_fifo s ev q d' outs r n :
  WF s -> y_evq s = ev :: q -> d_loop_once ev (y_d s) = (d', outs, r) ->
  let s1 := apply_outs (set_d (set_evq s q) d') outs in
  WF s1 /\ y_d s1 = d' /\
  forwarded n outs ++ in_evq n (y_evq s1) ++ in_up n s1 = in_evq n (y_evq s) ++ in_up n s.
Proof.
  intros W Eq El s1.
  destruct (loop_once_fifo _ _ _ _ _ n El) as (R1 & F1).
  destruct (step_rel_spawn _ _ _ (loop_once_step _ _ _ _ _ El)) as (G & SP).
  assert (W0 : WF (set_evq s q)) by (apply (WF_ext s); auto).
  destruct (ctl_move (set_evq s q) d' outs W0 R1 G SP) as (Ws1 & Q1 & D1 & U1).
  fold s1 in Ws1, Q1, D1, U1. cbn [set_evq y_evq y_up] in Q1, U1.
  split; [exact Ws1|]. split; [exact D1|].
  rewrite F1, Q1, Eq, in_evq_cons, (in_up_ext n s s1 (U1 n)), <- app_assoc. reflexivity.
Qed.

Lemma noactive_fifo s d' outs r n :
  WF s -> d_no_active (y_d s) = (d', outs, r) ->
  let s1 := apply_outs (set_d s d') outs in
  WF s1 /\ forwarded n outs = [] /\ y_evq s1 = y_evq s /\ in_up n s1 = in_up n s.
Proof.
  intros W En s1.
  destruct (r_no_active _ _ _ _ En) as (R1 & N1).
  destruct (step_rel_spawn _ _ _ (quiet_step _ _ _ _ _ quiet_no_active En)) as (G & SP).
  destruct (ctl_move s d' outs W R1 G SP) as (Ws1 & Q1 & D1 & U1).
  fold s1 in Ws1, Q1, D1, U1.
  split; [exact Ws1|]. split; [apply forwarded_noreport; exact N1|]. split; [exact Q1|].
  apply in_up_ext. apply U1.
Qed.

(* ---- the one-step lemma, from an arbitrary well-formed state ---- *)
Ltac fin3 H a b c := injection H as Hs_ Ho_ Hw_; subst a b c.
Lemma step_fifo c s l s' o w n :
  WF s -> sys_step c s l = Some (s', o, w) ->
  WF s' /\
  forwarded n o ++ in_evq n (y_evq s') ++ in_up n s' = in_evq n (y_evq s) ++ in_up n s ++ produced n w.
Proof.
  intros W H. unfold sys_step in H. destruct (y_result s) eqn:Er; [discriminate|].
  destruct l as [n0|n0|n0|n0| |n0].
  - (* LDeliver *)
    destruct (mem_nat n0 (y_dead s)); [discriminate|].
    destruct (aget n0 (y_down s)) as [[|cmd rest]|]; try discriminate.
    destruct (aget n0 (y_w s)) as [w0|] eqn:Ew; try discriminate.
    fin3 H s' o w. split.
    + destruct W as (W1 & W2). split; [|exact W2]. cbn [y_d y_up y_w]. intros m Hm.
      assert (Hne : m <> n0). { intros ->. destruct (W1 n0 Hm) as (_ & X). congruence. }
      rewrite aget_aset_neq; auto.
    + cbn [y_evq]. unfold in_up. cbn [y_up]. rewrite app_nil_r. reflexivity.
  - (* LRecvW *)
    destruct (mem_nat n0 (y_dead s)); [discriminate|].
    destruct (aget n0 (y_w s)) as [w0|] eqn:Ew; try discriminate.
    destruct (negb (wcb w0)); [discriminate|].
    destruct (recv_step (c_oracle c n0) w0) as [w' evs]. fin3 H s' o w.
    destruct (push_step c s n0 w0 w' evs n W Ew) as (W' & E' & U').
    split; [exact W'|]. rewrite E', U'. reflexivity.
  - (* LMain *)
    destruct (mem_nat n0 (y_dead s)); [discriminate|].
    destruct (aget n0 (y_w s)) as [w0|] eqn:Ew; try discriminate.
    destruct (dies_now c n0 w0).
    + fin3 H s' o w. destruct (crash_step c s n0 w0 n W Ew) as (W' & E' & U').
      split; [exact W'|]. rewrite E', U', app_nil_r. reflexivity.
    + destruct (main_step (c_oracle c n0) w0) as [[w' evs]|]; [|discriminate]. fin3 H s' o w.
      destruct (push_step c s n0 w0 w' evs n W Ew) as (W' & E' & U').
      split; [exact W'|]. rewrite E', U'. reflexivity.
  - (* LRecv *)
    destruct (aget n0 (y_up s)) as [[|m rest]|] eqn:Eu; try discriminate.
    cbn [y_d] in H.
    destruct (process_from_remote n0 m (y_d s)) as [[d' outs] r] eqn:Ep.
    pose proof (recv_fifo s n0 m rest d' outs r n None W Eu Ep) as RF. cbv zeta in RF.
    destruct RF as (F0 & RF).
    destruct r as [evs|e]; fin3 H s' o w; destruct RF as (W' & E'); (split; [exact W'|]).
    + rewrite F0, app_nil_r. cbn [app]. exact E'.
    + rewrite F0, app_nil_r. cbn [app]. exact E'.
  - (* LCtl *)
    destruct (d_active (y_d s)) as [|a0 ar] eqn:Ea.
    + destruct (d_no_active (y_d s)) as [[d' outs] r0] eqn:En. fin3 H s' o w.
      destruct (noactive_fifo s d' outs r0 n W En) as (W' & F' & Q' & U'). cbv zeta in W', Q', U'.
      split; [apply (WF_ext (apply_outs (set_d s d') outs)); auto|].
      rewrite F', app_nil_r. cbn [app set_result y_evq]. rewrite Q'.
      rewrite (in_up_ext n (apply_outs (set_d s d') outs) (set_result _ _)); [|reflexivity].
      rewrite U'. reflexivity.
    + destruct (y_evq s) as [|ev q] eqn:Eq; [discriminate|].
      destruct (d_loop_once ev (y_d s)) as [[d' outs] r] eqn:El.
      destruct (ctl_fifo s ev q d' outs r n W Eq El) as (W1 & D1 & E1). cbv zeta in W1, D1, E1.
      rewrite Eq in E1.
      set (s1 := apply_outs (set_d (set_evq s q) d') outs) in *.
      assert (RES : forall rr, WF (set_result s1 rr) /\
                forwarded n outs ++ in_evq n (y_evq (set_result s1 rr)) ++ in_up n (set_result s1 rr) =
                in_evq n (ev :: q) ++ in_up n s ++ produced n []).
      { intros rr. split; [apply (WF_ext s1); auto|]. rewrite app_nil_r. exact E1. }
      destruct r as [[]|e].
      * destruct (d_session_finished d'); [fin3 H s' o w; apply RES|].
        destruct (d_active d') as [|b0 br] eqn:Ea'.
        -- destruct (d_no_active d') as [[d2 outs2] r2] eqn:En. fin3 H s' o w.
           rewrite <- D1 in En.
           destruct (noactive_fifo s1 d2 outs2 r2 n W1 En) as (W' & F' & Q' & U'). cbv zeta in W', Q', U'.
           split; [apply (WF_ext (apply_outs (set_d s1 d2) outs2)); auto|].
           rewrite forwarded_app, F', !app_nil_r. cbn [set_result y_evq]. rewrite Q'.
           rewrite (in_up_ext n (apply_outs (set_d s1 d2) outs2) (set_result _ _)); [|reflexivity].
           rewrite U'. exact E1.
        -- fin3 H s' o w. split; [exact W1|]. rewrite app_nil_r. exact E1.
      * fin3 H s' o w. apply RES.
  - (* LCrash *)
    destruct (mem_nat n0 (y_dead s)); [discriminate|].
    destruct (aget n0 (y_w s)) as [w0|] eqn:Ew; try discriminate.
    destruct (crash_step c s n0 w0 n W Ew) as (W' & E' & U').
    destruct (wph w0); try discriminate; fin3 H s' o w;
      (split; [exact W'|]); rewrite E', U', app_nil_r; reflexivity.
Qed.

(* ---- the initial state is well formed and has nothing in flight ---- *)
Lemma aget_map_seq_none {V} (f : nat -> V) N : forall a m,
  a + N <= m -> aget m (map (fun n => (n, f n)) (seq a N)) = None.
Proof.
  induction N as [|N IH]; intros a m H; [reflexivity|].
  cbn [seq map aget]. destruct (Nat.eqb m a) eqn:E; [apply Nat.eqb_eq in E; lia|].
  apply IH. lia.
Qed.

Lemma akeys_map_seq {V} (f : nat -> V) l : akeys (map (fun n => (n, f n)) l) = l.
Proof. unfold akeys. rewrite map_map. cbn. apply map_id. Qed.

Lemma alist_get_map_nil {V} (l : list nat) n : alist_get (@nil V) n (map (fun k => (k, [])) l) = [].
Proof.
  unfold alist_get. induction l as [|k l IH]; [reflexivity|].
  cbn [map aget]. destruct (Nat.eqb n k); [reflexivity|exact IH].
Qed.

Lemma WF_init c : WF (sys_init c).
Proof.
  split.
  - cbn [sys_init y_d y_up y_w d_next_gw]. intros m Hm. split.
    + apply (aget_map_seq_none (fun _ => [])). lia.
    + apply (aget_map_seq_none (fun _ => w_init)). lia.
  - intros m Hm. cbn [sys_init y_d d_next_gw] in Hm. unfold dkeys, d_nt. cbn [sys_init y_d d_sched].
    rewrite s_nt_set. unfold init_nt. rewrite (akeys_map_seq (fun n => {| n_spec := c_spec c n; n_down := false;
      n_sdsent := false; n_closed := false |})). apply in_seq. lia.
Qed.

Lemma init_nothing_in_flight c n : in_evq n (y_evq (sys_init c)) = [] /\ in_up n (sys_init c) = [].
Proof.
  split; [reflexivity|]. unfold in_up. cbn [sys_init y_up]. rewrite alist_get_map_nil. reflexivity.
Qed.

(* ---- any schedule from any well-formed state ---- *)
Lemma exec_fifo c n ls : forall s s2 o w,
  WF s -> sys_exec c s ls = (s2, o, w) ->
  WF s2 /\
  forwarded n o ++ in_evq n (y_evq s2) ++ in_up n s2 = in_evq n (y_evq s) ++ in_up n s ++ produced n w.
Proof.
  induction ls as [|l ls IH]; intros s s2 o w W H; cbn [sys_exec] in H.
  - inversion H; subst. split; [exact W|]. cbn. rewrite app_nil_r. reflexivity.
  - destruct (sys_step c s l) as [[[s1 o1] w1]|] eqn:E1; [|apply (IH _ _ _ _ W H)].
    destruct (sys_exec c s1 ls) as [[s3 o3] w3] eqn:E2. inversion H; subst. clear H.
    destruct (step_fifo _ _ _ _ _ _ n W E1) as (W1 & S1).
    destruct (IH _ _ _ _ W1 E2) as (W2 & S2). split; [exact W2|].
    rewrite forwarded_app, produced_app, <- app_assoc, S2.
    rewrite !app_assoc. f_equal. rewrite <- !app_assoc. exact S1.
Qed.

(* ====================================================================================== *)
(* C04: the main theorem and its corollaries                                               *)
(* ====================================================================================== *)
Theorem fifo_invariant : forall c ls n s o w,
  sys_exec c (sys_init c) ls = (s, o, w) ->
  produced n w = forwarded n o ++ in_evq n (y_evq s) ++ in_up n s.
Proof.
  intros c ls n s o w H.
  destruct (exec_fifo c n ls _ _ _ _ (WF_init c) H) as (_ & E).
  destruct (init_nothing_in_flight c n) as (E1 & E2). rewrite E1, E2 in E. cbn [app] in E. symmetry. exact E.
Qed.
Print Assumptions fifo_invariant.

(* the well-formedness invariant holds along every schedule *)
Theorem fifo_wf : forall c ls s o w, sys_exec c (sys_init c) ls = (s, o, w) -> WF s.
Proof.
  intros c ls s o w H. destruct (exec_fifo c 0 ls _ _ _ _ (WF_init c) H) as (W & _). exact W.
Qed.
Print Assumptions fifo_wf.

(* what the hook has seen is a prefix of what the worker produced: nothing is invented,
   duplicated or reordered *)
Corollary fifo_prefix : forall c ls n s o w,
  sys_exec c (sys_init c) ls = (s, o, w) ->
  exists rest, produced n w = forwarded n o ++ rest.
Proof. intros c ls n s o w H. eexists. apply (fifo_invariant _ _ _ _ _ _ H). Qed.
Print Assumptions fifo_prefix.

(* the j-th report forwarded for worker n is the j-th report worker n produced *)
Corollary fifo_nth : forall c ls n s o w j r,
  sys_exec c (sys_init c) ls = (s, o, w) ->
  nth_error (forwarded n o) j = Some r -> nth_error (produced n w) j = Some r.
Proof.
  intros c ls n s o w j r H Hj. rewrite (fifo_invariant _ _ _ _ _ _ H).
  rewrite nth_error_app1; [exact Hj|]. apply nth_error_Some. rewrite Hj. discriminate.
Qed.
Print Assumptions fifo_nth.

Corollary fifo_no_more_than_produced : forall c ls n s o w,
  sys_exec c (sys_init c) ls = (s, o, w) -> length (forwarded n o) <= length (produced n w).
Proof.
  intros c ls n s o w H. rewrite (fifo_invariant _ _ _ _ _ _ H), app_length. lia.
Qed.
Print Assumptions fifo_no_more_than_produced.

(* nothing of worker n in flight: the hook has seen exactly what the worker produced *)
Corollary fifo_complete : forall c ls n s o w,
  sys_exec c (sys_init c) ls = (s, o, w) ->
  in_evq n (y_evq s) = [] -> in_up n s = [] ->
  forwarded n o = produced n w.
Proof.
  intros c ls n s o w H E1 E2. rewrite (fifo_invariant _ _ _ _ _ _ H), E1, E2, app_nil_r. reflexivity.
Qed.
Print Assumptions fifo_complete.

(* extending the schedule only extends what was forwarded and what was produced *)
Lemma sys_exec_app c ls1 : forall ls2 s,
  sys_exec c s (ls1 ++ ls2) =
  let '(s1, o1, w1) := sys_exec c s ls1 in
  let '(s2, o2, w2) := sys_exec c s1 ls2 in (s2, o1 ++ o2, w1 ++ w2).
Proof.
  induction ls1 as [|l ls1 IH]; intros ls2 s; cbn [app sys_exec].
  - destruct (sys_exec c s ls2) as [[s2 o2] w2]. reflexivity.
  - destruct (sys_step c s l) as [[[s' o'] w']|]; [|apply IH].
    rewrite IH. destruct (sys_exec c s' ls1) as [[s1 o1] w1].
    destruct (sys_exec c s1 ls2) as [[s2 o2] w2]. rewrite !app_assoc. reflexivity.
Qed.

Corollary fifo_monotone : forall c ls1 ls2 n s1 o1 w1 s2 o2 w2,
  sys_exec c (sys_init c) ls1 = (s1, o1, w1) ->
  sys_exec c (sys_init c) (ls1 ++ ls2) = (s2, o2, w2) ->
  (exists more, forwarded n o2 = forwarded n o1 ++ more) /\
  (exists more, produced n w2 = produced n w1 ++ more).
Proof.
  intros c ls1 ls2 n s1 o1 w1 s2 o2 w2 H1 H2. rewrite sys_exec_app, H1 in H2.
  destruct (sys_exec c s1 ls2) as [[s3 o3] w3]. inversion H2; subst.
  split; eexists; [apply forwarded_app|apply produced_app].
Qed.
Print Assumptions fifo_monotone.

(* ====================================================================================== *)
(* Non-vacuity: concrete sessions, evaluated                                               *)
(* ====================================================================================== *)
Definition ex_oracle : oracle :=
  {| reports_of := fun i => match i with 0 => [Passed; Failed] | _ => [Skipped] end;
     stops_after := fun _ => false; ncollected := 2; coll_reports := [] |}.

Definition ex_cfg (nodes requeue : nat) (crash : nat -> nat -> bool) : config :=
  {| c_mode := MLoad; c_numnodes := nodes; c_chunk := None; c_maxfail := 0%Z; c_max_restart := Some 4%Z;
     c_requeue := requeue; c_coll := fun _ => ["a"; "b"]%string; c_oracle := fun _ => ex_oracle;
     c_dur := fun _ => 0%Z; c_crash_in := crash; c_strict := false; c_spec := fun _ => 0 |}.

Fixpoint rounds (k : nat) (round : list label) : list label :=
  match k with 0 => [] | S k => round ++ rounds k round end.

Definition round1 : list label := [LMain 0; LRecvW 0; LDeliver 0; LRecv 0; LCtl].
Definition round3 : list label :=
  [LMain 0; LMain 1; LMain 2; LRecvW 0; LRecvW 1; LRecvW 2; LDeliver 0; LDeliver 1; LDeliver 2;
   LRecv 0; LRecv 1; LRecv 2; LCtl].

(* forwarded, produced, waiting in the controller queue, waiting on the wire, session result *)
Definition view (c : config) (ls : list label) (n : nat) :=
  let '(s, o, w) := sys_exec c (sys_init c) ls in
  (forwarded n o, produced n w, in_evq n (y_evq s), in_up n s, y_result s).

(* one worker, two tests, run to the end: three reports travel from the worker to the hook *)
Example ex_complete :
  view (ex_cfg 1 0 (fun _ _ => false)) (rounds 40 round1) 0 =
  ([(0, 0, Passed); (0, 1, Failed); (1, 0, Skipped)],
   [(0, 0, Passed); (0, 1, Failed); (1, 0, Skipped)], [], [], Some RFinished).
Proof. vm_compute. reflexivity. Qed.

(* the worker runs ahead of the controller: one report forwarded, one in the controller's
   queue, one still on the wire *)
Example ex_in_flight :
  view (ex_cfg 1 0 (fun _ _ => false))
       (rounds 7 round1 ++ rounds 8 [LMain 0; LRecvW 0] ++ rounds 3 [LRecv 0] ++ rounds 2 [LCtl]) 0 =
  ([(0, 0, Passed)],
   [(0, 0, Passed); (0, 1, Failed); (1, 0, Skipped)], [(0, 1, Failed)], [(1, 0, Skipped)], None).
Proof. vm_compute. reflexivity. Qed.

(* two workers; worker 1 dies entering test 1, the item is re-queued, replacement worker 2 is
   spawned, runs it, and its report arrives tagged 2 *)
Definition crash1 (n i : nat) : bool := Nat.eqb n 1 && Nat.eqb i 1.
Example ex_replacement :
  let c := ex_cfg 2 1 crash1 in
  let ls := rounds 80 round3 in
  view c ls 0 = ([(0, 0, Passed); (0, 1, Failed)], [(0, 0, Passed); (0, 1, Failed)], [], [], Some RFinished) /\
  view c ls 1 = ([], [], [], [], Some RFinished) /\
  view c ls 2 = ([(1, 0, Skipped)], [(1, 0, Skipped)], [], [], Some RFinished) /\
  (let '(s, o, _) := sys_exec c (sys_init c) ls in (count is_spawn o, d_next_gw (y_d s))) = (1, 3).
Proof. vm_compute. repeat split; reflexivity. Qed.

Print Assumptions s_step_keys.
Print Assumptions step_fifo.
Print Assumptions exec_fifo.
