(* FifoProofs.v — C04: every test report produced in a worker reaches the controller's
   reporting hook at most once, in the order the worker produced it, tagged with that worker;
   and exactly once unless the worker was written off for an undecodable message.
   System-level invariant over Model/System.v, for every configuration and every schedule.

   The receiver thread stops listening to a worker at the first "cut" message on its wire: an
   undecodable message (UBad: the worker is written off), workerfinished, or the channel end
   marker; whatever follows is dropped. The invariant (fifo_invariant) therefore reads
     reports produced before the worker's first cut event
       = forwarded ++ waiting in the controller's queue ++ waiting on the wire AND still heard.
   workerfinished is the last event of a worker (fifo_audible_decodable), so the left-hand side is
   the list of reports produced before the first garbled one. For a worker that sent no garbled
   report the old, full equation holds (fifo_invariant_not_written_off). *)
From XV Require Import Base Worker Ctl SchedLoad SchedSteal SchedScope SchedEach Sched DSession System
  NoHook DSessionProofs.
Open Scope nat_scope.

(* ====================================================================================== *)
(* Part 0: association lists                                                               *)
(* ====================================================================================== *)
Section AssocFacts.
  Context {V : Type}.
  Implicit Types m : amap V.

  Lemma aget_aset_eq k v m : aget k (aset k v m) = Some v.
  Proof.
    induction m as [|[k' v'] r IH]; cbn; [rewrite Nat.eqb_refl; reflexivity|].
    destruct (Nat.eqb k k') eqn:E; cbn; rewrite E; [reflexivity|exact IH].
  Qed.

  Lemma aget_aset_neq k k2 v m : k2 <> k -> aget k2 (aset k v m) = aget k2 m.
  Proof.
    intros Hn. induction m as [|[k' v'] r IH]; cbn.
    - destruct (Nat.eqb k2 k) eqn:E; [apply Nat.eqb_eq in E; contradiction|reflexivity].
    - destruct (Nat.eqb k k') eqn:E; cbn.
      + apply Nat.eqb_eq in E. subst k'.
        destruct (Nat.eqb k2 k) eqn:E2; [apply Nat.eqb_eq in E2; contradiction|reflexivity].
      + destruct (Nat.eqb k2 k'); [reflexivity|exact IH].
  Qed.

  Lemma akeys_aset_in k v m : In k (akeys m) -> akeys (aset k v m) = akeys m.
  Proof.
    unfold akeys. induction m as [|[k' v'] r IH]; cbn; [intros []|].
    intros H. destruct (Nat.eqb k k') eqn:E; cbn; [reflexivity|].
    destruct H as [H|H]; [subst k'; rewrite Nat.eqb_refl in E; discriminate|].
    rewrite (IH H). reflexivity.
  Qed.

  Lemma akeys_aset_incl k v m x : In x (akeys m) -> In x (akeys (aset k v m)).
  Proof.
    unfold akeys. induction m as [|[k' v'] r IH]; cbn; [intros []|].
    intros H. destruct (Nat.eqb k k') eqn:E; cbn; [exact H|].
    destruct H as [H|H]; [left; exact H|right; apply IH; exact H].
  Qed.

  Lemma akeys_aset_self k v m : In k (akeys (aset k v m)).
  Proof.
    unfold akeys. induction m as [|[k' v'] r IH]; cbn; [left; reflexivity|].
    destruct (Nat.eqb k k') eqn:E; cbn.
    - left. apply Nat.eqb_eq in E. auto.
    - right. exact IH.
  Qed.

  Lemma aget_in_akeys k m : aget k m <> None <-> In k (akeys m).
  Proof.
    unfold akeys. induction m as [|[k' v'] r IH]; cbn; [split; [intros H; contradiction|intros []]|].
    destruct (Nat.eqb k k') eqn:E.
    - apply Nat.eqb_eq in E. subst k'. split; [intros _; left; reflexivity|intros _; discriminate].
    - rewrite IH. split; [intros H; right; exact H|].
      intros [H|H]; [subst k'; rewrite Nat.eqb_refl in E; discriminate|exact H].
  Qed.

  Lemma aget_some_in k m v : aget k m = Some v -> In k (akeys m).
  Proof. intros H. apply aget_in_akeys. rewrite H. discriminate. Qed.

  Lemma aget_none_notin k m : aget k m = None <-> ~ In k (akeys m).
  Proof.
    split.
    - intros H Hin. apply aget_in_akeys in Hin. contradiction.
    - intros H. destruct (aget k m) eqn:E; [|reflexivity]. exfalso. apply H.
      apply aget_in_akeys. rewrite E. discriminate.
  Qed.
End AssocFacts.

(* the "down signature" of a node table: which ids exist and which of them are down *)
Definition nsig (m : ntable) : list (nat * bool) := map (fun p => (fst p, n_down (snd p))) m.

Lemma akeys_nsig m : akeys m = map fst (nsig m).
Proof. unfold akeys, nsig. rewrite map_map. reflexivity. Qed.

Lemma aget_nsig k m : aget k (nsig m) = option_map n_down (aget k m).
Proof.
  induction m as [|[k' v'] r IH]; cbn; [reflexivity|].
  destruct (Nat.eqb k k'); [reflexivity|exact IH].
Qed.

Lemma nsig_aset_same k v m b :
  aget k (nsig m) = Some b -> n_down v = b -> nsig (aset k v m) = nsig m.
Proof.
  induction m as [|[k' v'] r IH]; cbn; [discriminate|].
  destruct (Nat.eqb k k') eqn:E; cbn.
  - intros H1 H2. injection H1 as H1. unfold nsig. cbn. rewrite H2, H1. reflexivity.
  - intros H1 H2. unfold nsig in *. cbn. rewrite (IH H1 H2). reflexivity.
Qed.

(* ====================================================================================== *)
(* Part A: no scheduler operation ever removes a WorkerController from the node table      *)
(* ====================================================================================== *)
Section KeyLogic.
  Context {S K : Type} (key : S -> K).

  (* running m from s0 leaves the key (here: the down signature of the node table) unchanged *)
  Definition kfrom {A} (s0 : S) (m : M S A) : Prop :=
    forall s' o r, m s0 = (s', o, r) -> key s' = key s0.
  Definition kspec {A} (m : M S A) : Prop := forall s0, kfrom s0 m.

  Lemma kf_ret {A} s0 (a : A) : kfrom s0 (ret a).
  Proof. intros s' o r H. inversion H; subst. reflexivity. Qed.
  Lemma kf_raise {A} s0 e : kfrom s0 (@raise S A e).
  Proof. intros s' o r H. inversion H; subst. reflexivity. Qed.
  Lemma kf_massert s0 b : kfrom s0 (@massert S b).
  Proof. destruct b; [apply kf_ret|apply kf_raise]. Qed.
  Lemma kf_of_opt {A} s0 (x : option A) e : kfrom s0 (@of_opt S A x e).
  Proof. destruct x; [apply kf_ret|apply kf_raise]. Qed.
  Lemma kf_emit s0 o : kfrom s0 (@emit S o).
  Proof. intros s' o' r H. inversion H; subst. reflexivity. Qed.
  Lemma kf_put s0 s1 : key s1 = key s0 -> kfrom s0 (put s1).
  Proof. intros Hk s' o r H. inversion H; subst. exact Hk. Qed.
  Lemma kf_bind {A B} s0 (m : M S A) (f : A -> M S B) :
    kfrom s0 m -> (forall a s1, key s1 = key s0 -> kfrom s1 (f a)) -> kfrom s0 (mbind m f).
  Proof.
    intros Hm Hf s' o r H. unfold mbind in H.
    destruct (m s0) as [[s1 o1] r1] eqn:E1. pose proof (Hm _ _ _ E1) as K1.
    destruct r1 as [a|e].
    - destruct (f a s1) as [[s2 o2] r2] eqn:E2. pose proof (Hf a s1 K1 _ _ _ E2) as K2.
      inversion H; subst. congruence.
    - inversion H; subst. exact K1.
  Qed.
  Lemma kf_get {B} s0 (k : S -> M S B) : kfrom s0 (k s0) -> kfrom s0 (mbind get k).
  Proof.
    intros Hk s' o r H. unfold mbind, get in H.
    destruct (k s0 s0) as [[s2 o2] r2] eqn:E2. inversion H; subst. apply (Hk _ _ _ E2).
  Qed.
  Lemma kf_catch s0 (m : M S unit) e : kfrom s0 m -> kfrom s0 (catch m e).
  Proof.
    intros Hm s' o r H. unfold catch in H. destruct (m s0) as [[s1 o1] r1] eqn:E1.
    pose proof (Hm _ _ _ E1) as K1. destruct r1 as [a|e'].
    - inversion H; subst. exact K1.
    - destruct (String.eqb _ _); inversion H; subst; exact K1.
  Qed.
  Lemma kf_mfor {A} (l : list A) (f : A -> M S unit) : (forall a, kspec (f a)) -> kspec (mfor l f).
  Proof.
    intros Hf. induction l as [|x l IH]; intros s0; cbn [mfor]; [apply kf_ret|].
    apply kf_bind; [apply Hf|intros _ s1 _; apply IH].
  Qed.
End KeyLogic.

Section KeyNodes.
  Context {S : Type} (nt_of : S -> ntable) (set_nt : S -> ntable -> S).
  Hypothesis nt_set : forall s v, nt_of (set_nt s v) = v.
  Let key (s : S) : list (nat * bool) := nsig (nt_of s).

  Lemma k_node_flags n : kspec key (node_flags nt_of n).
  Proof. intros s0. unfold node_flags. apply kf_get. apply kf_of_opt. Qed.
  Lemma k_node_sd n : kspec key (node_shutting_down nt_of n).
  Proof. intros s0. unfold node_shutting_down. apply kf_bind; [apply k_node_flags|intros; apply kf_ret]. Qed.
  Lemma k_node_send n c : kspec key (node_send nt_of n c).
  Proof.
    intros s0. unfold node_send. apply kf_bind; [apply k_node_flags|intros f s1 _].
    destruct (n_closed f); [apply kf_ret|apply kf_emit].
  Qed.
  Lemma k_node_shutdown n : kspec key (node_shutdown nt_of set_nt n).
  Proof.
    intros s0 s' o r H. unfold node_shutdown in H.
    apply mbind_inv in H. destruct H as [(s1 & o1 & f & o2 & H1 & H2 & ->)|(e & H1 & _)].
    2:{ apply (k_node_flags n _ _ _ _ H1). }
    assert (E1 : s1 = s0 /\ aget n (nt_of s0) = Some f).
    { unfold node_flags, mbind, get, of_opt in H1. destruct (aget n (nt_of s0)) as [f'|]; inversion H1; subst. auto. }
    destruct E1 as (-> & Ef).
    destruct (n_down f || n_sdsent f); [inversion H2; subst; reflexivity|].
    apply mbind_inv in H2. destruct H2 as [(s2 & o3 & [] & o4 & H3 & H4 & ->)|(e & H3 & _)].
    2:{ apply (k_node_send n _ _ _ _ _ H3). }
    pose proof (k_node_send n _ _ _ _ _ H3) as K2.
    unfold mbind, get, put in H4. inversion H4; subst. unfold key in *. rewrite nt_set.
    rewrite (nsig_aset_same n _ _ (n_down f)); [exact K2|rewrite K2, aget_nsig, Ef; reflexivity|reflexivity].
  Qed.
End KeyNodes.

Definition lkey (s : lstate) : list (nat * bool) := nsig (l_nt s).
Definition wkey (s : wsstate) : list (nat * bool) := nsig (ws_nt s).
Definition ckey (s : scstate) : list (nat * bool) := nsig (sc_nt s).
Definition ekey (s : estate) : list (nat * bool) := nsig (e_nt s).

Lemma lk_shutdown n : kspec lkey (node_shutdown l_nt l_set_nt n).
Proof. apply (k_node_shutdown l_nt l_set_nt). reflexivity. Qed.
Lemma wk_shutdown n : kspec wkey (node_shutdown ws_nt ws_set_nt n).
Proof. apply (k_node_shutdown ws_nt ws_set_nt). reflexivity. Qed.
Lemma ck_shutdown n : kspec ckey (node_shutdown sc_nt sc_set_nt n).
Proof. apply (k_node_shutdown sc_nt sc_set_nt). reflexivity. Qed.
Lemma ek_shutdown n : kspec ekey (node_shutdown e_nt e_set_nt n).
Proof. apply (k_node_shutdown e_nt e_set_nt). reflexivity. Qed.
Lemma lk_send n c : kspec lkey (node_send l_nt n c). Proof. apply (k_node_send l_nt). Qed.
Lemma wk_send n c : kspec wkey (node_send ws_nt n c). Proof. apply (k_node_send ws_nt). Qed.
Lemma ck_send n c : kspec ckey (node_send sc_nt n c). Proof. apply (k_node_send sc_nt). Qed.
Lemma ek_send n c : kspec ekey (node_send e_nt n c). Proof. apply (k_node_send e_nt). Qed.
Lemma lk_sd n : kspec lkey (node_shutting_down l_nt n). Proof. apply (k_node_sd l_nt). Qed.
Lemma wk_sd n : kspec wkey (node_shutting_down ws_nt n). Proof. apply (k_node_sd ws_nt). Qed.
Lemma ck_sd n : kspec ckey (node_shutting_down sc_nt n). Proof. apply (k_node_sd sc_nt). Qed.
Lemma ek_sd n : kspec ekey (node_shutting_down e_nt n). Proof. apply (k_node_sd e_nt). Qed.

Create HintDb kdb.
#[export] Hint Resolve lk_shutdown wk_shutdown ck_shutdown ek_shutdown lk_send wk_send ck_send ek_send
  lk_sd wk_sd ck_sd ek_sd : kdb.

Ltac kput :=
  unfold lkey, wkey, ckey, ekey in *;
  cbn [l_nt l_set_nt l_set_n2c l_set_n2p l_set_pending l_set_coll l_set_chunk
       ws_nt ws_set_nt ws_set_n2c ws_set_n2p ws_set_pending ws_set_coll ws_set_steal
       sc_nt sc_set_nt sc_set_coll sc_set_wq sc_set_assigned sc_set_reg
       e_nt e_set_nt e_set_n2c e_set_n2p e_set_started e_set_removed e_set_completed] in *;
  congruence.

Ltac k1 :=
  first
    [ apply kf_ret | apply kf_raise | apply kf_massert | apply kf_of_opt | apply kf_emit
    | apply kf_put; kput
    | apply kf_catch
    | match goal with |- kfrom _ _ (mbind get _) => apply kf_get; cbv beta end
    | match goal with |- kfrom _ _ (mbind _ _) => apply kf_bind; [|intros ? ? ?] end
    | match goal with |- kfrom _ _ (mfor _ _) => apply kf_mfor; intros ? ? end
    | progress cbv zeta
    | match goal with
      | |- kfrom _ _ (match ?x with _ => _ end) => destruct x
      | |- kfrom _ _ (if ?x then _ else _) => destruct x
      | |- kfrom _ _ (let '(_, _) := ?x in _) => destruct x
      | H : kspec _ ?m |- kfrom _ _ ?m => apply H
      | H : forall a, kspec _ (?m a) |- kfrom _ _ (?m _) => apply H
      | H : forall a b, kspec _ (?m a b) |- kfrom _ _ (?m _ _) => apply H
      end
    | solve [eauto with kdb]
    | match goal with |- kfrom _ ?s ?m => solve [apply (fun H : kspec _ m => H s); eauto with kdb] end ].
Ltac ks := repeat k1.

(* ---- load ---- *)
Lemma lk_send_tests n num : kspec lkey (l_send_tests n num).
Proof. intros s0. unfold l_send_tests. ks. Qed.
#[export] Hint Resolve lk_send_tests : kdb.
Lemma lk_check_schedule n d : kspec lkey (l_check_schedule n d).
Proof. intros s0. unfold l_check_schedule. ks. Qed.
#[export] Hint Resolve lk_check_schedule : kdb.
Lemma lk_round_robin fuel all cur : kspec lkey (l_round_robin fuel all cur).
Proof.
  revert cur. induction fuel as [|f IH]; intros cur s0; cbn [l_round_robin]; [apply kf_ret|].
  destruct cur as [|n r]; [destruct all as [|n r]; [apply kf_raise|]|];
    (apply kf_bind; [apply lk_send_tests|intros _ s1 _; apply IH]).
Qed.
#[export] Hint Resolve lk_round_robin : kdb.
Lemma lk_same : kspec lkey l_same_collection.
Proof. intros s0. unfold l_same_collection. ks. Qed.
#[export] Hint Resolve lk_same : kdb.
Lemma lk_schedule : kspec lkey l_schedule.
Proof. intros s0. unfold l_schedule. ks. Qed.
#[export] Hint Resolve lk_schedule : kdb.
Lemma lk_add_node n : kspec lkey (l_add_node n).
Proof. intros s0. unfold l_add_node. ks. Qed.
#[export] Hint Resolve lk_add_node : kdb.
Lemma lk_add_coll n c : kspec lkey (l_add_node_collection n c).
Proof. intros s0. unfold l_add_node_collection. ks. Qed.
#[export] Hint Resolve lk_add_coll : kdb.
Lemma lk_complete n i d : kspec lkey (l_mark_test_complete n i d).
Proof. intros s0. unfold l_mark_test_complete. ks. Qed.
#[export] Hint Resolve lk_complete : kdb.
Lemma lk_pending it : kspec lkey (l_mark_test_pending it).
Proof. intros s0. unfold l_mark_test_pending. ks. Qed.
#[export] Hint Resolve lk_pending : kdb.
Lemma lk_remove n : kspec lkey (l_remove_node n).
Proof. intros s0. unfold l_remove_node. ks. Qed.
#[export] Hint Resolve lk_remove : kdb.

(* ---- worksteal ---- *)
Lemma wk_send_tests n num : kspec wkey (ws_send_tests n num).
Proof. intros s0. unfold ws_send_tests. ks. Qed.
#[export] Hint Resolve wk_send_tests : kdb.
Lemma wk_distribute idle : kspec wkey (ws_distribute idle).
Proof.
  induction idle as [|n r IH]; intros s0; cbn [ws_distribute]; [apply kf_ret|].
  apply kf_get. cbv beta zeta. apply kf_bind; [apply wk_send_tests|intros _ s1 _; apply IH].
Qed.
#[export] Hint Resolve wk_distribute : kdb.
Lemma wk_check : kspec wkey ws_check_schedule.
Proof. intros s0. unfold ws_check_schedule. ks. Qed.
#[export] Hint Resolve wk_check : kdb.
Lemma wk_add_node n : kspec wkey (ws_add_node n).
Proof. intros s0. unfold ws_add_node. ks. Qed.
#[export] Hint Resolve wk_add_node : kdb.
Lemma wk_add_coll n c : kspec wkey (ws_add_node_collection n c).
Proof. intros s0. unfold ws_add_node_collection. ks. Qed.
#[export] Hint Resolve wk_add_coll : kdb.
Lemma wk_complete n i : kspec wkey (ws_mark_test_complete n i).
Proof. intros s0. unfold ws_mark_test_complete. ks. Qed.
#[export] Hint Resolve wk_complete : kdb.
Lemma wk_pending it : kspec wkey (ws_mark_test_pending it).
Proof. intros s0. unfold ws_mark_test_pending. ks. Qed.
#[export] Hint Resolve wk_pending : kdb.
Lemma wk_unsched n ixs : kspec wkey (ws_remove_pending_tests_from_node n ixs).
Proof. intros s0. unfold ws_remove_pending_tests_from_node. ks. Qed.
#[export] Hint Resolve wk_unsched : kdb.
Lemma wk_remove n : kspec wkey (ws_remove_node n).
Proof. intros s0. unfold ws_remove_node. ks. Qed.
#[export] Hint Resolve wk_remove : kdb.
Lemma wk_same : kspec wkey ws_same_collection.
Proof. intros s0. unfold ws_same_collection. ks. Qed.
#[export] Hint Resolve wk_same : kdb.
Lemma wk_schedule : kspec wkey ws_schedule.
Proof. intros s0. unfold ws_schedule. ks. Qed.
#[export] Hint Resolve wk_schedule : kdb.

(* ---- scope family ---- *)
Lemma ck_add_node n : kspec ckey (sc_add_node n).
Proof. intros s0. unfold sc_add_node. ks. Qed.
#[export] Hint Resolve ck_add_node : kdb.
Lemma ck_assign n : kspec ckey (sc_assign_work_unit n).
Proof. intros s0. unfold sc_assign_work_unit. ks. Qed.
#[export] Hint Resolve ck_assign : kdb.
Lemma ck_top_up fuel n : kspec ckey (sc_top_up fuel n).
Proof.
  induction fuel as [|f IH]; intros s0; cbn [sc_top_up]; [apply kf_ret|].
  ks.
Qed.
#[export] Hint Resolve ck_top_up : kdb.
Lemma ck_reschedule n : kspec ckey (sc_reschedule n).
Proof. intros s0. unfold sc_reschedule. ks. Qed.
#[export] Hint Resolve ck_reschedule : kdb.
Lemma ck_remove n : kspec ckey (sc_remove_node n).
Proof. intros s0. unfold sc_remove_node. ks. Qed.
#[export] Hint Resolve ck_remove : kdb.
Lemma ck_add_coll n c : kspec ckey (sc_add_node_collection n c).
Proof. intros s0. unfold sc_add_node_collection. ks. Qed.
#[export] Hint Resolve ck_add_coll : kdb.
Lemma ck_complete n i : kspec ckey (sc_mark_test_complete n i).
Proof. intros s0. unfold sc_mark_test_complete. ks. Qed.
#[export] Hint Resolve ck_complete : kdb.
Lemma ck_same : kspec ckey sc_same_collection.
Proof. intros s0. unfold sc_same_collection. ks. Qed.
#[export] Hint Resolve ck_same : kdb.
Lemma ck_pop_extra k : kspec ckey (sc_pop_extra k).
Proof.
  induction k as [|k IH]; intros s0; cbn [sc_pop_extra]; [apply kf_ret|].
  ks.
Qed.
#[export] Hint Resolve ck_pop_extra : kdb.
Lemma ck_schedule : kspec ckey sc_schedule.
Proof. intros s0. unfold sc_schedule. ks. Qed.
#[export] Hint Resolve ck_schedule : kdb.

(* ---- each ---- *)
Lemma ek_add_node n : kspec ekey (e_add_node n).
Proof. intros s0. unfold e_add_node. ks. Qed.
#[export] Hint Resolve ek_add_node : kdb.
Lemma ek_inherit n c dead : kspec ekey (e_inherit n c dead).
Proof.
  induction dead as [|[d p] r IH]; intros s0; cbn [e_inherit]; [apply kf_ret|].
  ks.
Qed.
#[export] Hint Resolve ek_inherit : kdb.
Lemma ek_add_coll n c : kspec ekey (e_add_node_collection n c).
Proof. intros s0. unfold e_add_node_collection. ks. Qed.
#[export] Hint Resolve ek_add_coll : kdb.
Lemma ek_complete n i : kspec ekey (e_mark_test_complete n i).
Proof. intros s0. unfold e_mark_test_complete. ks. Qed.
#[export] Hint Resolve ek_complete : kdb.
Lemma ek_remove n : kspec ekey (e_remove_node n).
Proof. intros s0. unfold e_remove_node. ks. Qed.
#[export] Hint Resolve ek_remove : kdb.
Lemma ek_schedule_node n : kspec ekey (e_schedule_node n).
Proof. intros s0. unfold e_schedule_node. ks. Qed.
#[export] Hint Resolve ek_schedule_node : kdb.
Lemma ek_schedule : kspec ekey e_schedule.
Proof. intros s0. unfold e_schedule. ks. Qed.
#[export] Hint Resolve ek_schedule : kdb.

(* ---- the scheduler interface: the node table only grows, and no scheduler operation
        touches a down flag ---- *)
Definition skey (st : sstate) : list nat := akeys (s_nt st).
Definition ssig (st : sstate) : list (nat * bool) := nsig (s_nt st).

Lemma skey_ssig st : skey st = map fst (ssig st).
Proof. apply akeys_nsig. Qed.

Lemma lift_keys {S A B} (key : S -> list (nat * bool)) (wrap : S -> sstate) (f : A -> B) (m : M S A) s st' o r :
  (forall x, ssig (wrap x) = key x) ->
  kspec key m -> lift wrap f (m s) = (st', o, r) -> ssig st' = ssig (wrap s).
Proof.
  intros Hw Hm H. unfold lift in H. destruct (m s) as [[s1 o1] r1] eqn:E.
  inversion H; subst. rewrite !Hw. exact (Hm _ _ _ _ E).
Qed.

Lemma s_nt_set st v : s_nt (s_set_nt st v) = v.
Proof. destruct st; reflexivity. Qed.

(* the operations DSession performs on a scheduler, except the creation of a WorkerController *)
Definition plain_op (op : sop) : bool :=
  match op with SNew _ _ | SFlags _ _ _ => false | _ => true end.

Theorem s_step_sig st op st' o r :
  plain_op op = true -> s_step st op = (st', o, r) -> ssig st' = ssig st.
Proof.
  destruct op; cbn [s_step plain_op]; intros Hp H; try discriminate.
  - destruct st; (eapply lift_keys; [|..|exact H]; [reflexivity|]); eauto with kdb.
  - destruct st; (eapply lift_keys; [|..|exact H]; [reflexivity|]); eauto with kdb.
  - destruct st; (eapply lift_keys; [|..|exact H]; [reflexivity|]); eauto with kdb.
  - destruct st; (eapply lift_keys; [|..|exact H]; [reflexivity|]); eauto with kdb.
  - destruct st; try (inversion H; reflexivity); (eapply lift_keys; [|..|exact H]; [reflexivity|]); eauto with kdb.
  - destruct st; try (inversion H; reflexivity); (eapply lift_keys; [|..|exact H]; [reflexivity|]); eauto with kdb.
  - destruct st; (eapply lift_keys; [|..|exact H]; [reflexivity|]); eauto with kdb.
  - destruct st; (eapply lift_keys; [|..|exact H]; [reflexivity|]); eauto with kdb.
Qed.

Theorem s_step_keys st op st' o r :
  s_step st op = (st', o, r) -> forall k, In k (skey st) -> In k (skey st').
Proof.
  destruct (plain_op op) eqn:Ep.
  - intros H k Hk. rewrite skey_ssig in *. rewrite (s_step_sig _ _ _ _ _ Ep H). exact Hk.
  - destruct op; try discriminate; cbn [s_step]; intros H.
    + inversion H; subst. intros k Hk. unfold skey. rewrite s_nt_set. apply akeys_aset_incl. exact Hk.
    + destruct (aget n (s_nt st)) eqn:E; inversion H; subst; [|auto].
      intros k Hk. unfold skey. rewrite s_nt_set. apply akeys_aset_incl. exact Hk.
Qed.

(* ====================================================================================== *)
(* Part B: what the controller's handlers do to the node table and which reports they emit *)
(* ====================================================================================== *)
Definition dkeys (d : dstate) : list nat := akeys (d_nt d).
Definition dsig (d : dstate) : list (nat * bool) := nsig (d_nt d).

(* the receiver thread has written worker q off (or has seen it finish / its channel end) *)
Definition dn (q : nat) (d : dstate) : bool :=
  match aget q (d_nt d) with Some f => n_down f | None => false end.

Lemma dkeys_dsig d : dkeys d = map fst (dsig d).
Proof. apply akeys_nsig. Qed.

Lemma dn_dsig q d : dn q d = match aget q (dsig d) with Some b => b | None => false end.
Proof. unfold dn, dsig. rewrite aget_nsig. destruct (aget q (d_nt d)); reflexivity. Qed.

Lemma dn_same_sig d d' : dsig d' = dsig d -> forall q, dn q d' = dn q d.
Proof. intros E q. rewrite !dn_dsig, E. reflexivity. Qed.

(* every id below the group counter has a WorkerController *)
Definition Inv (d : dstate) : Prop := forall m, m < d_next_gw d -> In m (dkeys d).

(* a controller-side computation: ids only appear, the group counter only grows, and the down
   flag of a node never changes (a node created meanwhile is not down) *)
Definition Rk (d d' : dstate) : Prop :=
  (forall k, In k (dkeys d) -> In k (dkeys d')) /\ (Inv d -> Inv d') /\
  d_next_gw d <= d_next_gw d' /\
  (forall k, dn k d' = dn k d \/ (d_next_gw d <= k < d_next_gw d' /\ dn k d' = false)).
Lemma Rk_refl d : Rk d d. Proof. split; [|split; [|split]]; auto. Qed.
Lemma Rk_trans a b c : Rk a b -> Rk b c -> Rk a c.
Proof.
  intros (A1 & A2 & A3 & A4) (B1 & B2 & B3 & B4). split; [|split; [|split]]; auto; [lia|].
  intros k. destruct (B4 k) as [E|(E1 & E2)].
  - destruct (A4 k) as [F|(F1 & F2)]; [left; congruence|right]. split; [lia|congruence].
  - right. split; [lia|exact E2].
Qed.

Definition noreport (o : out) : Prop :=
  match o with OHook (HReport _ _ _ _) => False | _ => True end.

Lemma not_hook_noreport o : not_hook o -> noreport o.
Proof. destruct o as [h| | |]; cbn; [contradiction|auto..]. Qed.

Notation rfrom := (from Rk noreport).
Definition rspec {A} (m : D A) : Prop := dspec Rk noreport m.

(* same down signature and same counter give Rk *)
Lemma Rk_same d d' : dsig d' = dsig d -> d_next_gw d' = d_next_gw d -> Rk d d'.
Proof.
  intros Hk Hg. assert (Hk' : dkeys d' = dkeys d) by (rewrite !dkeys_dsig, Hk; reflexivity).
  split; [|split; [|split]].
  - intros k Hin. rewrite Hk'. exact Hin.
  - intros I m Hm. rewrite Hk'. apply I. rewrite <- Hg. exact Hm.
  - lia.
  - intros k. left. apply dn_same_sig. exact Hk.
Qed.

Lemma r_sched_op op : plain_op op = true -> rspec (d_sched_op op).
Proof.
  intros Hp d d' o r H. pose proof H as H0.
  destruct (d_sched_op_frame _ _ _ _ _ H) as ((st & ->) & Hn). split.
  - unfold d_sched_op in H0. destruct (s_step (d_sched d) op) as [[st1 o1] r1] eqn:E. inversion H0; subst.
    apply Rk_same; [|reflexivity]. exact (s_step_sig _ _ _ _ _ Hp E).
  - eapply Forall_impl; [|exact Hn]. intros x. apply not_hook_noreport.
Qed.

Lemma d_nt_set d v : d_nt (d_set_nt d v) = v.
Proof. unfold d_nt, d_set_nt. cbn. apply s_nt_set. Qed.

Lemma node_shutdown_facts n d d' o r :
  d_node_shutdown n d = (d', o, r) ->
  dsig d' = dsig d /\ d_next_gw d' = d_next_gw d /\ Forall not_hook o.
Proof.
  intros H. split; [|split].
  - exact (k_node_shutdown d_nt d_set_nt d_nt_set n _ _ _ _ H).
  - destruct (quiet_node_shutdown n _ _ _ _ H) as ((_ & _ & G) & _). exact G.
  - exact (nohook_node_shutdown d_nt d_set_nt n _ _ _ _ H).
Qed.

Lemma r_node_shutdown n : rspec (d_node_shutdown n).
Proof.
  intros d d' o r H. destruct (node_shutdown_facts _ _ _ _ _ H) as (K & G & N). split.
  - apply Rk_same; assumption.
  - eapply Forall_impl; [|exact N]. intros x. apply not_hook_noreport.
Qed.

Ltac r1 :=
  first
    [ apply (f_ret _ _ Rk_refl) | apply (f_raise _ _ Rk_refl)
    | apply (f_massert _ _ Rk_refl) | apply (f_of_opt _ _ Rk_refl)
    | apply (f_emit _ _ Rk_refl); exact I
    | apply f_put; apply Rk_same; reflexivity
    | match goal with |- from _ _ _ (mbind get _) => apply f_get end
    | match goal with |- from _ _ _ (mbind _ _) => apply (f_bind _ _ Rk_trans); [|intros ? ? ?] end
    | match goal with |- from _ _ _ (mfor _ _) => apply (f_mfor _ _ Rk_refl Rk_trans); intros ? end
    | progress cbv zeta
    | match goal with
      | |- from _ _ _ (match ?x with _ => _ end) => destruct x
      | |- from _ _ _ (if ?x then _ else _) => destruct x
      | H : rspec ?m |- from _ _ _ ?m => apply H
      end
    | apply r_sched_op; reflexivity | apply r_node_shutdown ].
Ltac rs := repeat r1.

Lemma r_triggershutdown : rspec d_triggershutdown.
Proof. intros d0. unfold d_triggershutdown. rs. Qed.

Lemma r_active_remove n : rspec (d_active_remove n).
Proof. intros d0. unfold d_active_remove. rs. Qed.

Lemma r_handlefailures f : rspec (d_handlefailures f).
Proof. intros d0. unfold d_handlefailures. rs. Qed.

Lemma r_handle_crashitem item n : rspec (d_handle_crashitem item n).
Proof. intros d0. unfold d_handle_crashitem, hook. rs. Qed.

Lemma dn_aset_neq d k q v : q <> k -> dn q (d_set_nt d (aset k v (d_nt d))) = dn q d.
Proof. intros Hne. unfold dn. rewrite d_nt_set, aget_aset_neq; auto. Qed.
Lemma dn_aset_eq d k v : dn k (d_set_nt d (aset k v (d_nt d))) = n_down v.
Proof. unfold dn. rewrite d_nt_set, aget_aset_eq. reflexivity. Qed.

Lemma r_clone_node n : rspec (d_clone_node n).
Proof.
  intros d d' o r. unfold d_clone_node, mbind, get, of_opt, hook, emit, put, ret, raise.
  destruct (aget n (d_nt d)) as [f|] eqn:Ef.
  2:{ intros H; inversion H; subst. split; [apply Rk_refl|constructor]. }
  unfold d_sched_op. cbn [s_step]. intros H. inversion H; subst. cbn [app]. split.
  - split; [|split; [|split]].
    + intros k Hk. unfold dkeys, d_nt in *. cbn. rewrite s_nt_set. apply akeys_aset_incl. exact Hk.
    + intros I m Hm. unfold dkeys, d_nt in *. cbn in *. rewrite s_nt_set.
      destruct (Nat.eq_dec m (d_next_gw d)) as [->|Hne].
      * apply akeys_aset_self.
      * apply akeys_aset_incl. apply I. lia.
    + cbn. lia.
    + intros k. destruct (Nat.eq_dec k (d_next_gw d)) as [->|Hne].
      * right. split; [cbn; lia|]. unfold dn, d_nt. cbn. rewrite s_nt_set, aget_aset_eq. reflexivity.
      * left. unfold dn, d_nt. cbn. rewrite s_nt_set, aget_aset_neq; auto.
  - repeat constructor.
Qed.

Lemma r_try_block n : rspec (try_block n).
Proof.
  intros d d' o r. unfold try_block. destruct (d_sched_op (SRemove n) d) as [[d1 o1] r1] eqn:E1.
  destruct (r_sched_op (SRemove n) eq_refl _ _ _ _ E1) as (R1 & Q1).
  destruct r1 as [[item|]|e].
  - destruct (d_handle_crashitem item n d1) as [[d2 o2] r2] eqn:E2. intros H; inversion H; subst.
    destruct (r_handle_crashitem _ _ _ _ _ _ E2) as (R2 & Q2).
    split; [eapply Rk_trans; eauto|apply Forall_app; auto].
  - intros H; inversion H; subst. auto.
  - destruct e; intros H; inversion H; subst; auto.
Qed.

Lemma r_errordown n : rspec (d_worker_errordown n).
Proof.
  rewrite errordown_unfold. intros d0. unfold hook.
  rs; try apply r_try_block; try apply r_triggershutdown; try apply r_clone_node; try apply r_active_remove.
Qed.

Lemma r_workerfinished n sk : rspec (d_worker_workerfinished n sk).
Proof.
  intros d0. unfold d_worker_workerfinished, hook.
  rs; try apply r_errordown; try apply r_active_remove; try apply r_triggershutdown.
Qed.

Definition is_qreport (ev : cevent) : bool := match ev with QReport _ _ _ _ => true | _ => false end.

Lemma r_handle ev : is_qreport ev = false -> rspec (d_handle ev).
Proof.
  destruct ev as [n|n ids|n key fl|n i|n i|n i k oc|n i ms|n ixs| |n|n sk|n]; cbn [is_qreport d_handle]; intros Hq d0;
    try discriminate; unfold hook;
    rs; try apply r_workerfinished; try apply r_errordown; try apply r_active_remove; try apply r_handlefailures.
Qed.

Definition loop_rest : D unit :=
  (d <- get ;; if s_tests_finished (d_sched d) then d_triggershutdown else ret tt) ;;;
  (d <- get ;; if d_shouldstop d then d_triggershutdown else ret tt).

Lemma r_loop_rest : rspec loop_rest.
Proof. intros d0. unfold loop_rest. rs; apply r_triggershutdown. Qed.

Lemma r_no_active : rspec d_no_active.
Proof. intros d0. unfold d_no_active. rs. apply r_triggershutdown. Qed.

Lemma quiet_no_active : quiet d_no_active.
Proof.
  unfold d_no_active. apply (dspec_bind _ _ same_budget_trans); [apply quiet_triggershutdown|].
  intros _ d0. apply (f_raise _ _ same_budget_refl).
Qed.

(* ====================================================================================== *)
(* Part C: the observation functions of the property                                       *)
(* ====================================================================================== *)
Fixpoint sys_exec (c : config) (s : sys) (ls : list label) : sys * list out * list (nat * wevent) :=
  match ls with
  | [] => (s, [], [])
  | l :: r => match sys_step c s l with
              | None => sys_exec c s r
              | Some (s', o, w) => let '(s2, o2, w2) := sys_exec c s' r in (s2, o ++ o2, w ++ w2)
              end
  end.

Definition rep := (nat * nat * outcome)%type.

(* HReport hooks tagged n, in order *)
Definition forwarded (n : nat) (o : list out) : list rep :=
  flat_map (fun x => match x with
                     | OHook (HReport m i k oc) => if Nat.eqb m n then [(i,k,oc)] else []
                     | _ => [] end) o.
(* EReport events of worker n, in order *)
Definition produced (n : nat) (w : list (nat * wevent)) : list rep :=
  flat_map (fun p => match p with
                     | (m, EReport i k oc) => if Nat.eqb m n then [(i,k,oc)] else []
                     | _ => [] end) w.
Definition in_evq (n : nat) (q : list cevent) : list rep :=
  flat_map (fun e => match e with
                     | QReport m i k oc => if Nat.eqb m n then [(i,k,oc)] else []
                     | _ => [] end) q.
Definition in_up (n : nat) (s : sys) : list rep :=
  flat_map (fun m => match m with UEv (EReport i k oc) => [(i,k,oc)] | _ => [] end)
           (alist_get [] n (y_up s)).

Definition rep_of_up (m : upmsg) : list rep :=
  match m with UEv (EReport i k oc) => [(i,k,oc)] | _ => [] end.
Definition rep_of_q (n : nat) (e : cevent) : list rep :=
  match e with QReport m i k oc => if Nat.eqb m n then [(i,k,oc)] else [] | _ => [] end.

Lemma fm_app {A B} (f : A -> list B) a b : flat_map f (a ++ b) = flat_map f a ++ flat_map f b.
Proof. induction a as [|x a IH]; cbn; [reflexivity|]. rewrite IH, app_assoc. reflexivity. Qed.

Lemma forwarded_app n a b : forwarded n (a ++ b) = forwarded n a ++ forwarded n b.
Proof. apply fm_app. Qed.
Lemma produced_app n a b : produced n (a ++ b) = produced n a ++ produced n b.
Proof. apply fm_app. Qed.
Lemma in_evq_app n a b : in_evq n (a ++ b) = in_evq n a ++ in_evq n b.
Proof. apply fm_app. Qed.
Lemma in_evq_cons n e q : in_evq n (e :: q) = rep_of_q n e ++ in_evq n q.
Proof. reflexivity. Qed.
Lemma in_up_eq n s : in_up n s = flat_map rep_of_up (alist_get [] n (y_up s)).
Proof. reflexivity. Qed.

Lemma forwarded_noreport n o : Forall noreport o -> forwarded n o = [].
Proof.
  induction 1 as [|x o Hx Ho IH]; [reflexivity|].
  unfold forwarded in *. cbn [flat_map]. rewrite IH.
  destruct x as [[]| | |]; cbn in Hx; try contradiction; reflexivity.
Qed.

(* ---- one iteration of the controller loop forwards exactly the report it was given ---- *)
Lemma loop_once_unfold ev : d_loop_once ev = (d_handle ev ;;; loop_rest).
Proof. reflexivity. Qed.

Lemma loop_once_fifo ev d d' o r n :
  d_loop_once ev d = (d', o, r) -> Rk d d' /\ forwarded n o = rep_of_q n ev.
Proof.
  rewrite loop_once_unfold. intros H.
  destruct (is_qreport ev) eqn:Eq.
  - destruct ev as [| | | | |m i k oc| | | | | |]; try discriminate. clear Eq.
    apply mbind_inv in H. destruct H as [(d1 & o1 & [] & o2 & H1 & H2 & ->)|(e & H1 & ->)].
    + cbn [d_handle] in H1. unfold hook, emit, mbind in H1.
      destruct (d_handlefailures _ d) as [[dh oh] rh] eqn:Eh.
      destruct (r_handlefailures _ _ _ _ _ Eh) as (Rh & Qh).
      destruct (r_loop_rest _ _ _ _ H2) as (R2 & Q2).
      inversion H1; subst. split; [eapply Rk_trans; eauto|].
      rewrite forwarded_app. cbn [app]. rewrite (forwarded_noreport n o2 Q2), app_nil_r.
      change (forwarded n (OHook (HReport m i k oc) :: oh)) with (rep_of_q n (QReport m i k oc) ++ forwarded n oh).
      rewrite (forwarded_noreport n oh Qh), app_nil_r. reflexivity.
    + cbn [d_handle] in H1. unfold hook, emit, mbind in H1.
      destruct (d_handlefailures _ d) as [[dh oh] rh] eqn:Eh.
      destruct (r_handlefailures _ _ _ _ _ Eh) as (Rh & Qh).
      inversion H1; subst. split; [exact Rh|].
      change (forwarded n (OHook (HReport m i k oc) :: oh)) with (rep_of_q n (QReport m i k oc) ++ forwarded n oh).
      rewrite (forwarded_noreport n oh Qh), app_nil_r. reflexivity.
  - assert (RS : rspec (d_handle ev ;;; loop_rest)).
    { apply (dspec_bind _ _ Rk_trans); [apply r_handle; exact Eq|intros _; apply r_loop_rest]. }
    destruct (RS _ _ _ _ H) as (R1 & Q1). split; [exact R1|].
    rewrite (forwarded_noreport n o Q1). destruct ev; try reflexivity. discriminate.
Qed.

(* spawned ids of one controller iteration lie between the old and the new group counter *)
Lemma step_rel_spawn d d' o :
  step_rel d d' o ->
  d_next_gw d <= d_next_gw d' /\
  forall id sp, In (OHook (HSpawn id sp)) o -> d_next_gw d <= id < d_next_gw d'.
Proof.
  intros (_ & _ & _ & S4). destruct S4 as [(C0 & G0)|(C1 & G1 & _ & _ & sp0 & SP)].
  - split; [lia|]. intros id sp Hin. exfalso. eapply not_spawn_in; eauto.
  - split; [lia|]. intros id sp Hin. pose proof (SP _ Hin eq_refl) as E. inversion E; subst. lia.
Qed.

(* ---- the receiver thread ---- *)
(* messages after which the receiver thread does not listen to the worker any more: an
   undecodable message (the worker is written off), workerfinished, the channel end marker *)
Definition cut_msg (m : upmsg) : bool :=
  match m with UBad | UEnd | UFinished _ | UEv (EFinished _) => true | _ => false end.

(* process_from_remote for a worker that has a WorkerController: never raises; queues exactly the
   report it read when the node is heard, forwards nothing; marks the node down on a cut message *)
Lemma pfr_spec n m d d' o r f :
  process_from_remote n m d = (d', o, r) -> aget n (d_nt d) = Some f ->
  dkeys d' = dkeys d /\ d_next_gw d' = d_next_gw d /\ Forall not_hook o /\
  (forall q, q <> n -> dn q d' = dn q d) /\
  dn n d' = (n_down f || cut_msg m) /\
  exists evs, r = Ok evs /\
    forall q, in_evq q evs = if Nat.eqb n q then (if n_down f || cut_msg m then [] else rep_of_up m) else [].
Proof.
  intros H Ef.
  assert (KS : forall v, dkeys (d_set_nt d (aset n v (d_nt d))) = dkeys d).
  { intros v. unfold dkeys. rewrite d_nt_set. apply akeys_aset_in. eapply aget_some_in; eauto. }
  assert (DN : dn n d = n_down f) by (unfold dn; rewrite Ef; reflexivity).
  (* the two shapes of the result *)
  assert (SAME : forall evs0 : list cevent,
            (d, @nil out, Ok evs0) = (d', o, r) ->
            (n_down f || cut_msg m) = n_down f ->
            (forall q, in_evq q evs0 = if Nat.eqb n q then (if n_down f || cut_msg m then [] else rep_of_up m) else []) ->
            dkeys d' = dkeys d /\ d_next_gw d' = d_next_gw d /\ Forall not_hook o /\
            (forall q, q <> n -> dn q d' = dn q d) /\ dn n d' = (n_down f || cut_msg m) /\
            exists evs, r = Ok evs /\
              forall q, in_evq q evs = if Nat.eqb n q then (if n_down f || cut_msg m then [] else rep_of_up m) else []).
  { intros evs0 E Hc Hq. inversion E; subst d' o r. repeat split; auto. { rewrite Hc; exact DN. } eexists; split; [reflexivity|exact Hq]. }
  assert (DOWN : forall (evs0 : list cevent) v (o0 : list out) d0,
            (d_set_nt d0 (aset n v (d_nt d0)), o0, Ok evs0) = (d', o, r) ->
            dsig d0 = dsig d -> d_next_gw d0 = d_next_gw d -> Forall not_hook o0 ->
            n_down v = true -> (n_down f || cut_msg m) = true ->
            (forall q, in_evq q evs0 = []) ->
            dkeys d' = dkeys d /\ d_next_gw d' = d_next_gw d /\ Forall not_hook o /\
            (forall q, q <> n -> dn q d' = dn q d) /\ dn n d' = (n_down f || cut_msg m) /\
            exists evs, r = Ok evs /\
              forall q, in_evq q evs = if Nat.eqb n q then (if n_down f || cut_msg m then [] else rep_of_up m) else []).
  { intros evs0 v o0 d0 E Hs Hg Ho Hv Hc Hq. inversion E; subst d' o r.
    assert (K0 : dkeys d0 = dkeys d) by (rewrite !dkeys_dsig, Hs; reflexivity).
    split.
    { unfold dkeys at 1. rewrite d_nt_set. rewrite akeys_aset_in; [exact K0|]. fold (dkeys d0). rewrite K0.
      eapply aget_some_in; eauto. }
    split; [exact Hg|]. split; [exact Ho|]. split.
    { intros q Hq'. rewrite dn_aset_neq by exact Hq'. apply dn_same_sig. exact Hs. }
    split; [rewrite dn_aset_eq, Hc; exact Hv|].
    eexists. split; [reflexivity|]. intros q. rewrite Hq, Hc. destruct (Nat.eqb n q); reflexivity. }
  unfold process_from_remote, mbind, get, of_opt, ret, raise in H. cbn beta iota zeta in H.
  rewrite Ef in H. cbn beta iota zeta in H.
  destruct (n_down f) eqn:Edn.
  - (* already down: nothing is heard *)
    assert (H' : (d, @nil out, Ok (@nil cevent)) = (d', o, r)).
    { destruct m as [e|ids|sk|i ms|dec| | |]; exact H. }
    apply (SAME [] H'); [reflexivity|]. intros q. cbn. destruct (Nat.eqb n q); reflexivity.
  - destruct m as [e|ids|sk|i ms|dec| | |]; unfold put in H; cbn beta iota zeta in H.
    + destruct e; cbn beta iota zeta in H;
        try (apply (SAME _ H); [reflexivity|]; intros q; cbn; destruct (Nat.eqb n q); reflexivity).
      apply (DOWN _ _ _ d H); auto; try (cbn; constructor).
    + apply (SAME _ H); [reflexivity|]. intros q. cbn. destruct (Nat.eqb n q); reflexivity.
    + apply (DOWN _ _ _ d H); auto; try (cbn; constructor).
    + apply (SAME _ H); [reflexivity|]. intros q. cbn. destruct (Nat.eqb n q); reflexivity.
    + apply (SAME _ H); [reflexivity|]. intros q. cbn. destruct (Nat.eqb n q); reflexivity.
    + apply (SAME _ H); [reflexivity|]. intros q. cbn. destruct (Nat.eqb n q); reflexivity.
    + (* undecodable message: shutdown(), the node is marked down, errordown is queued *)
      destruct (d_node_shutdown n d) as [[d1 o1] r1] eqn:Esd.
      destruct (node_shutdown_facts _ _ _ _ _ Esd) as (S1 & G1 & N1).
      assert (R1 : r1 = Ok tt).
      { clear -Esd Ef. unfold d_node_shutdown, node_shutdown, node_send, node_flags, mbind, get, put, of_opt, ret, raise, emit in Esd.
        cbn -[aset aget] in Esd. rewrite Ef in Esd. cbn -[aset aget] in Esd.
        destruct (n_down f || n_sdsent f); cbn -[aset aget] in Esd; [inversion Esd; reflexivity|].
        rewrite Ef in Esd. cbn -[aset aget] in Esd.
        destruct (n_closed f); cbn -[aset aget] in Esd; inversion Esd; reflexivity. }
      subst r1.
      assert (E1 : exists f1, aget n (d_nt d1) = Some f1).
      { pose proof (aget_nsig n (d_nt d1)) as A1. fold (dsig d1) in A1. rewrite S1 in A1. unfold dsig in A1.
        rewrite aget_nsig, Ef in A1. destruct (aget n (d_nt d1)) as [f1|]; [eexists; reflexivity|discriminate]. }
      destruct E1 as (f1 & E1). rewrite E1 in H. cbn beta iota zeta in H. rewrite app_nil_r in H.
      apply (DOWN _ _ _ d1 H); auto; try (cbn; constructor).
    + apply (DOWN _ _ _ d H); auto; try (cbn; constructor).
Qed.

(* ====================================================================================== *)
(* Part D: the system                                                                      *)
(* ====================================================================================== *)

(* ids at or above the group counter are unused (no wire, no process, not down), and every id
   below it has a WorkerController *)
Definition WF (s : sys) : Prop :=
  (forall m, d_next_gw (y_d s) <= m -> aget m (y_up s) = None /\ aget m (y_w s) = None) /\
  Inv (y_d s) /\
  (forall m, d_next_gw (y_d s) <= m -> dn m (y_d s) = false).

Lemma alist_get_aset_eq {V} (dflt : V) k v (m : amap V) : alist_get dflt k (aset k v m) = v.
Proof. unfold alist_get. rewrite aget_aset_eq. reflexivity. Qed.
Lemma alist_get_aset_neq {V} (dflt : V) k k2 v (m : amap V) :
  k2 <> k -> alist_get dflt k2 (aset k v m) = alist_get dflt k2 m.
Proof. intros H. unfold alist_get. rewrite aget_aset_neq; auto. Qed.

(* ---- what the property looks at, per worker ---- *)
Definition wire (n : nat) (s : sys) : list upmsg := alist_get [] n (y_up s).
Definition sdn (n : nat) (s : sys) : bool := dn n (y_d s).
Definition wk (n : nat) (s : sys) : option wst := aget n (y_w s).
Definition dd (n : nat) (s : sys) : bool := mem_nat n (y_dead s).

(* the reports on a wire that the receiver thread will still hear: those before the first cut *)
Fixpoint heard_wire (l : list upmsg) : list rep :=
  match l with
  | [] => []
  | m :: r => if cut_msg m then [] else rep_of_up m ++ heard_wire r
  end.
Definition in_up_heard (n : nat) (s : sys) : list rep :=
  if sdn n s then [] else heard_wire (wire n s).
(* worker n is not (or will not be) listened to any more *)
Definition cut_state (n : nat) (s : sys) : bool := sdn n s || existsb cut_msg (wire n s).

Lemma in_up_wire n s : in_up n s = flat_map rep_of_up (wire n s).
Proof. reflexivity. Qed.

(* on the worker side: a garbled report and workerfinished are the events whose message is a cut *)
Definition rep_of_ev (e : wevent) : list rep :=
  match e with EReport i k oc => [(i,k,oc)] | _ => [] end.
Definition is_garbled (e : wevent) : bool :=
  match e with EReport _ _ Garbled => true | _ => false end.
Definition is_fin (e : wevent) : bool :=
  match e with EFinished _ => true | _ => false end.
Definition cut_ev (e : wevent) : bool := is_garbled e || is_fin e.

(* the reports of worker n produced before its first cut event *)
Fixpoint audible (n : nat) (w : list (nat * wevent)) : list rep :=
  match w with
  | [] => []
  | (m, e) :: r =>
      if Nat.eqb m n then (if cut_ev e then [] else rep_of_ev e ++ audible n r) else audible n r
  end.
Definition has_cut (n : nat) (w : list (nat * wevent)) : bool :=
  existsb (fun p => Nat.eqb (fst p) n && cut_ev (snd p)) w.
Definition garbled (n : nat) (w : list (nat * wevent)) : bool :=
  existsb (fun p => Nat.eqb (fst p) n && is_garbled (snd p)) w.
(* the reports of worker n produced before its first garbled report *)
Fixpoint decod (n : nat) (w : list (nat * wevent)) : list rep :=
  match w with
  | [] => []
  | (m, e) :: r =>
      if Nat.eqb m n then (if is_garbled e then [] else rep_of_ev e ++ decod n r) else decod n r
  end.
(* the same, on the list of reports: cut before the first garbled one *)
Fixpoint decodable (l : list rep) : list rep :=
  match l with
  | [] => []
  | (i, k, Garbled) :: _ => []
  | x :: r => x :: decodable r
  end.

Definition nev (n : nat) (w : list (nat * wevent)) : Prop := forall e, ~ In (n, e) w.

Lemma produced_cons n m e w :
  produced n ((m, e) :: w) = (if Nat.eqb m n then rep_of_ev e else []) ++ produced n w.
Proof. unfold produced. cbn [flat_map]. destruct e; destruct (Nat.eqb m n); reflexivity. Qed.

Lemma nev_cons n m e w : nev n ((m, e) :: w) -> Nat.eqb m n = false /\ nev n w.
Proof.
  intros H. split.
  - destruct (Nat.eqb m n) eqn:E; [|reflexivity]. apply Nat.eqb_eq in E. subst m.
    exfalso. apply (H e). left. reflexivity.
  - intros e' Hin. apply (H e'). right. exact Hin.
Qed.

Lemma nev_facts n w : nev n w -> produced n w = [] /\ audible n w = [] /\ decod n w = [] /\
                               has_cut n w = false /\ garbled n w = false.
Proof.
  induction w as [|[m e] w IH]; intros H; [repeat split; reflexivity|].
  destruct (nev_cons _ _ _ _ H) as (E & H'). destruct (IH H') as (A & B & C & D & F).
  rewrite produced_cons. unfold has_cut, garbled in *. cbn [audible decod existsb fst snd]. rewrite E, A, B, C, D, F.
  repeat split; reflexivity.
Qed.

Lemma nev_nil n : nev n []. Proof. intros e []. Qed.
Lemma nev_app n a b : nev n a -> nev n b -> nev n (a ++ b).
Proof. intros A B e Hin. apply in_app_or in Hin. destruct Hin; [eapply A|eapply B]; eauto. Qed.
Lemma nev_other n n0 (evs : list wevent) : n <> n0 -> nev n (map (fun e => (n0, e)) evs).
Proof. intros Hne e Hin. apply in_map_iff in Hin. destruct Hin as (x & E & _). inversion E. congruence. Qed.

Lemma audible_app n a b : audible n (a ++ b) = audible n a ++ if has_cut n a then [] else audible n b.
Proof.
  induction a as [|[m e] a IH]; [reflexivity|]. unfold has_cut in *. cbn [app audible existsb fst snd].
  destruct (Nat.eqb m n); cbn [andb orb]; [|exact IH].
  destruct (cut_ev e); cbn [orb]; [reflexivity|]. rewrite IH, app_assoc. reflexivity.
Qed.
Lemma decod_app n a b : decod n (a ++ b) = decod n a ++ if garbled n a then [] else decod n b.
Proof.
  induction a as [|[m e] a IH]; [reflexivity|]. unfold garbled in *. cbn [app decod existsb fst snd].
  destruct (Nat.eqb m n); cbn [andb orb]; [|exact IH].
  destruct (is_garbled e); cbn [orb]; [reflexivity|]. rewrite IH, app_assoc. reflexivity.
Qed.
Lemma has_cut_app n a b : has_cut n (a ++ b) = has_cut n a || has_cut n b.
Proof. apply existsb_app. Qed.
Lemma garbled_app n a b : garbled n (a ++ b) = garbled n a || garbled n b.
Proof. apply existsb_app. Qed.

(* pure list facts: the decodable reports are a prefix of the produced ones *)
Lemma decod_decodable n w : decod n w = decodable (produced n w).
Proof.
  induction w as [|[m e] w IH]; [reflexivity|]. rewrite produced_cons. cbn [decod].
  destruct (Nat.eqb m n); [|exact IH].
  destruct e; cbn [is_garbled rep_of_ev app]; try exact IH.
  destruct oc; cbn [decodable]; rewrite ?IH; reflexivity.
Qed.
Lemma decodable_prefix l : exists rest, l = decodable l ++ rest.
Proof.
  induction l as [|[[i k] oc] l (rest & IH)]; [exists []; reflexivity|].
  destruct oc; cbn [decodable]; try (exists rest; cbn; rewrite <- IH; reflexivity).
  eexists. reflexivity.
Qed.
Lemma decodable_id l : (forall i k, ~ In (i, k, Garbled) l) -> decodable l = l.
Proof.
  induction l as [|[[i k] oc] l IH]; intros H; [reflexivity|].
  assert (H' : forall i k, ~ In (i, k, Garbled) l) by (intros i' k' Hin; apply (H i' k'); right; exact Hin).
  destruct oc; cbn [decodable]; rewrite ?(IH H'); try reflexivity.
  exfalso. apply (H i k). left. reflexivity.
Qed.
Lemma garbled_produced n w : garbled n w = false <-> (forall i k, ~ In (i, k, Garbled) (produced n w)).
Proof.
  induction w as [|[m e] w IH]; [split; [intros _ i k []|reflexivity]|].
  rewrite produced_cons. unfold garbled in *. cbn [existsb fst snd].
  destruct (Nat.eqb m n); cbn [andb orb app]; [|exact IH].
  destruct e; cbn [is_garbled rep_of_ev orb app]; try exact IH.
  destruct oc; cbn [orb].
  1-3: rewrite IH; split; [intros H i' k' [E|Hin]; [discriminate|exact (H _ _ Hin)]|intros H i' k' Hin; apply (H i' k'); right; exact Hin].
  split; [discriminate|]. intros H. exfalso. apply (H i k). left. reflexivity.
Qed.

(* ---- heard_wire ---- *)
Lemma heard_wire_app a b :
  heard_wire (a ++ b) = heard_wire a ++ if existsb cut_msg a then [] else heard_wire b.
Proof.
  induction a as [|m a IH]; [reflexivity|]. cbn [app heard_wire existsb].
  destruct (cut_msg m); cbn [orb]; [reflexivity|]. rewrite IH, app_assoc. reflexivity.
Qed.
Lemma heard_wire_nocut l : existsb cut_msg l = false -> heard_wire l = flat_map rep_of_up l.
Proof.
  induction l as [|m l IH]; [reflexivity|]. cbn [existsb heard_wire flat_map].
  destruct (cut_msg m); cbn [orb]; [discriminate|]. intros H. rewrite (IH H). reflexivity.
Qed.

Lemma cut_up c n e : cut_msg (up_of_wevent c n e) = cut_ev e.
Proof. destruct e; try reflexivity. destruct oc; reflexivity. Qed.
Lemma rep_up c n e : cut_ev e = false -> rep_of_up (up_of_wevent c n e) = rep_of_ev e.
Proof. destruct e; try reflexivity. destruct oc; try reflexivity. discriminate. Qed.

Lemma heard_own c n evs :
  heard_wire (map (up_of_wevent c n) evs) = audible n (map (fun e => (n, e)) evs).
Proof.
  induction evs as [|e evs IH]; [reflexivity|]. cbn [map heard_wire audible].
  rewrite Nat.eqb_refl, cut_up. destruct (cut_ev e) eqn:E; [reflexivity|].
  rewrite (rep_up c n e E), IH. reflexivity.
Qed.
Lemma cut_own c n evs :
  existsb cut_msg (map (up_of_wevent c n) evs) = has_cut n (map (fun e => (n, e)) evs).
Proof.
  unfold has_cut. induction evs as [|e evs IH]; [reflexivity|]. cbn [map existsb fst snd].
  rewrite Nat.eqb_refl, cut_up, IH. reflexivity.
Qed.

(* ---- one step of the system, as seen from worker n ---- *)
Inductive node_step (c : config) (n : nat) (s s' : sys) (o : list out) (w : list (nat * wevent)) : Prop :=
| NS_other :
    wire n s' = wire n s -> sdn n s' = sdn n s -> dd n s' = dd n s -> nev n w ->
    forwarded n o ++ in_evq n (y_evq s') = in_evq n (y_evq s) ->
    (wk n s' = wk n s \/
     (wk n s = None /\ wk n s' = Some w_init /\ wire n s = [] /\ sdn n s = false) \/
     (exists w0 cmd, wk n s = Some w0 /\ wk n s' = Some (deliver w0 cmd))) ->
    node_step c n s s' o w
| NS_work w0 w1 evs :
    dd n s = false -> wk n s = Some w0 -> wk n s' = Some w1 ->
    (recv_step (c_oracle c n) w0 = (w1, evs) \/ main_step (c_oracle c n) w0 = Some (w1, evs)) ->
    w = map (fun e => (n, e)) evs -> wire n s' = wire n s ++ map (up_of_wevent c n) evs ->
    sdn n s' = sdn n s -> dd n s' = dd n s -> o = [] -> y_evq s' = y_evq s ->
    node_step c n s s' o w
| NS_crash :
    dd n s = false -> dd n s' = true -> wire n s' = wire n s ++ [UEnd] ->
    sdn n s' = sdn n s -> wk n s' = wk n s -> w = [] -> o = [] -> y_evq s' = y_evq s ->
    node_step c n s s' o w
| NS_recv m rest :
    wire n s = m :: rest -> wire n s' = rest -> sdn n s' = (sdn n s || cut_msg m) ->
    wk n s' = wk n s -> dd n s' = dd n s -> w = [] -> forwarded n o = [] ->
    in_evq n (y_evq s') = in_evq n (y_evq s) ++ (if sdn n s || cut_msg m then [] else rep_of_up m) ->
    node_step c n s s' o w.

(* the equation of the property, for one step *)
Lemma ns_equation c n s s' o w :
  node_step c n s s' o w ->
  forwarded n o ++ in_evq n (y_evq s') ++ in_up_heard n s' =
  in_evq n (y_evq s) ++ in_up_heard n s ++ (if cut_state n s then [] else audible n w).
Proof.
  intros [Hw Hd Hdd Hn He _|w0 w1 evs Hdd Hk Hk' Hs -> Hw Hd Hdd' -> He|Hdd Hdd' Hw Hd Hk -> -> He
         |m rest Hw Hw' Hd Hk Hdd -> Ho He]; unfold in_up_heard, cut_state.
  - destruct (nev_facts _ _ Hn) as (_ & A & _). rewrite A, Hw, Hd, app_assoc, He.
    destruct (_ || _); rewrite app_nil_r; reflexivity.
  - rewrite He, Hd, Hw, heard_wire_app, heard_own. cbn [forwarded flat_map app].
    destruct (sdn n s); cbn [orb]; [rewrite !app_nil_r; reflexivity|].
    destruct (existsb cut_msg (wire n s)); reflexivity.
  - rewrite He, Hd, Hw, heard_wire_app. cbn [forwarded flat_map app heard_wire cut_msg audible].
    destruct (sdn n s); cbn [orb]; [rewrite !app_nil_r; reflexivity|].
    destruct (existsb cut_msg (wire n s)); rewrite !app_nil_r; reflexivity.
  - rewrite Ho, He, Hd, Hw, Hw'. cbn [app heard_wire existsb audible].
    destruct (sdn n s); cbn [orb]; [rewrite !app_nil_r; reflexivity|].
    destruct (cut_msg m); cbn [orb]; rewrite ?app_nil_r; [reflexivity|].
    destruct (existsb cut_msg rest); rewrite ?app_nil_r, <- ?app_assoc; reflexivity.
Qed.

(* how the cut state of worker n evolves in one step *)
Lemma ns_cut c n s s' o w :
  node_step c n s s' o w ->
  (cut_state n s = true -> cut_state n s' = true) /\
  (has_cut n w = true -> cut_state n s' = true) /\
  (cut_state n s' = true -> cut_state n s = true \/ has_cut n w = true \/ dd n s' = true) /\
  (dd n s = true -> dd n s' = true /\ nev n w).
Proof.
  intros [Hw Hd Hdd Hn He _|w0 w1 evs Hdd Hk Hk' Hs -> Hw Hd Hdd' -> He|Hdd Hdd' Hw Hd Hk -> -> He
         |m rest Hw Hw' Hd Hk Hdd -> Ho He]; unfold cut_state.
  - destruct (nev_facts _ _ Hn) as (_ & _ & _ & A & _). rewrite A, Hw, Hd, Hdd.
    repeat split; auto. discriminate.
  - rewrite Hd, Hw, existsb_app, cut_own, Hdd', Hdd.
    split; [intros H; rewrite orb_assoc, H; reflexivity|].
    split; [intros H; rewrite H, !orb_true_r; reflexivity|].
    split; [|discriminate].
    intros H. rewrite orb_assoc in H. apply orb_true_iff in H. destruct H; auto.
  - rewrite Hd, Hw, existsb_app, Hdd, Hdd'. cbn [existsb cut_msg orb]. rewrite !orb_true_r.
    repeat split; auto; discriminate.
  - rewrite Hd, Hw, Hw', Hdd. cbn [existsb]. rewrite orb_assoc.
    repeat split; auto; try discriminate. apply nev_nil.
Qed.

(* ---- apply_outs ---- *)
Lemma apply_outs_frame outs : forall s,
  y_evq (apply_outs s outs) = y_evq s /\ y_d (apply_outs s outs) = y_d s /\
  y_dead (apply_outs s outs) = y_dead s.
Proof.
  induction outs as [|x outs IH]; intros s; [repeat split; reflexivity|].
  destruct x as [h|n cmd| |]; cbn [apply_outs]; try apply IH.
  - destruct h; try apply IH. destruct (IH {| y_d := y_d s; y_evq := y_evq s; y_down := aset newid [] (y_down s);
                    y_up := aset newid [] (y_up s); y_w := aset newid w_init (y_w s);
                    y_dead := y_dead s; y_result := y_result s |}) as (A & B & C). repeat split; assumption.
  - destruct (mem_nat n (y_dead s)); [apply IH|].
    destruct (IH {| y_d := y_d s; y_evq := y_evq s;
           y_down := aset n (alist_get [] n (y_down s) ++ [cmd]) (y_down s);
           y_up := y_up s; y_w := y_w s; y_dead := y_dead s; y_result := y_result s |}) as (A & B & C).
    repeat split; assumption.
Qed.

Lemma apply_outs_up outs : forall s q,
  (forall id sp, In (OHook (HSpawn id sp)) outs -> alist_get [] id (y_up s) = []) ->
  alist_get [] q (y_up (apply_outs s outs)) = alist_get [] q (y_up s).
Proof.
  induction outs as [|x outs IH]; intros s q P; [reflexivity|].
  assert (P' : forall id sp, In (OHook (HSpawn id sp)) outs -> alist_get [] id (y_up s) = []).
  { intros id sp Hin. apply (P id sp). right. exact Hin. }
  destruct x as [h|n cmd| |]; cbn [apply_outs]; try (apply IH; exact P').
  - destruct h; try (apply IH; exact P').
    rewrite IH; cbn [y_up].
    + destruct (Nat.eq_dec q newid) as [->|Hne].
      * rewrite alist_get_aset_eq. symmetry. apply (P newid spec). left. reflexivity.
      * apply alist_get_aset_neq. exact Hne.
    + intros id sp Hin. destruct (Nat.eq_dec id newid) as [->|Hne].
      * apply alist_get_aset_eq.
      * rewrite alist_get_aset_neq; [|exact Hne]. apply (P' id sp Hin).
  - destruct (mem_nat n (y_dead s)); [apply IH; exact P'|].
    rewrite IH; cbn [y_up]; [reflexivity|exact P'].
Qed.

Lemma apply_outs_none outs : forall s m,
  (forall sp, ~ In (OHook (HSpawn m sp)) outs) ->
  aget m (y_up s) = None /\ aget m (y_w s) = None ->
  aget m (y_up (apply_outs s outs)) = None /\ aget m (y_w (apply_outs s outs)) = None.
Proof.
  induction outs as [|x outs IH]; intros s m P N; [exact N|].
  assert (P' : forall sp, ~ In (OHook (HSpawn m sp)) outs).
  { intros sp Hin. apply (P sp). right. exact Hin. }
  destruct x as [h|n cmd| |]; cbn [apply_outs]; try (apply IH; assumption).
  - destruct h; try (apply IH; assumption).
    apply IH; [exact P'|]. cbn [y_up y_w].
    assert (Hne : m <> newid). { intros ->. apply (P spec). left. reflexivity. }
    rewrite !aget_aset_neq; auto.
  - destruct (mem_nat n (y_dead s)); apply IH; assumption.
Qed.

(* the processes after a controller move: a spawned id has a fresh process, the others are untouched *)
Lemma apply_outs_w outs : forall s q,
  aget q (y_w (apply_outs s outs)) = aget q (y_w s) \/
  ((exists sp, In (OHook (HSpawn q sp)) outs) /\ aget q (y_w (apply_outs s outs)) = Some w_init).
Proof.
  induction outs as [|x outs IH]; intros s q; [left; reflexivity|].
  assert (LIFT : forall s1, aget q (y_w s1) = aget q (y_w s) ->
     aget q (y_w (apply_outs s1 outs)) = aget q (y_w s) \/
     ((exists sp, In (OHook (HSpawn q sp)) (x :: outs)) /\ aget q (y_w (apply_outs s1 outs)) = Some w_init)).
  { intros s1 E. destruct (IH s1 q) as [A|((sp & A) & B)]; [left; congruence|].
    right. split; [exists sp; right; exact A|exact B]. }
  destruct x as [h|n cmd| |]; cbn [apply_outs]; try (apply LIFT; reflexivity).
  - destruct h; try (apply LIFT; reflexivity).
    destruct (Nat.eq_dec q newid) as [->|Hne].
    + right. split; [exists spec; left; reflexivity|].
      destruct (IH {| y_d := y_d s; y_evq := y_evq s; y_down := aset newid [] (y_down s);
                    y_up := aset newid [] (y_up s); y_w := aset newid w_init (y_w s);
                    y_dead := y_dead s; y_result := y_result s |} newid) as [A|(_ & B)]; [|exact B].
      rewrite A. cbn [y_w]. apply aget_aset_eq.
    + apply LIFT. cbn [y_w]. apply aget_aset_neq. exact Hne.
  - destruct (mem_nat n (y_dead s)); apply LIFT; reflexivity.
Qed.

(* a controller move: new controller state, then its outputs applied *)
Lemma ctl_move s d' outs :
  WF s -> Inv d' -> (forall m, d_next_gw d' <= m -> dn m d' = false) ->
  d_next_gw (y_d s) <= d_next_gw d' ->
  (forall id sp, In (OHook (HSpawn id sp)) outs -> d_next_gw (y_d s) <= id < d_next_gw d') ->
  WF (apply_outs (set_d s d') outs) /\
  y_evq (apply_outs (set_d s d') outs) = y_evq s /\
  y_d (apply_outs (set_d s d') outs) = d' /\
  y_dead (apply_outs (set_d s d') outs) = y_dead s /\
  (forall q, alist_get [] q (y_up (apply_outs (set_d s d') outs)) = alist_get [] q (y_up s)) /\
  (forall q, aget q (y_w (apply_outs (set_d s d') outs)) = aget q (y_w s) \/
             (d_next_gw (y_d s) <= q /\ aget q (y_w (apply_outs (set_d s d') outs)) = Some w_init)).
Proof.
  intros (W1 & W2 & W3) I' D' G SP.
  destruct (apply_outs_frame outs (set_d s d')) as (F1 & F2 & F3). cbn [set_d y_evq y_d y_dead] in F1, F2, F3.
  split; [|split; [exact F1|split; [exact F2|split; [exact F3|split]]]].
  - split; [|split].
    + rewrite F2. intros m Hm. apply apply_outs_none.
      * intros sp Hin. specialize (SP _ _ Hin). lia.
      * cbn [set_d y_up y_w]. apply W1. lia.
    + rewrite F2. exact I'.
    + rewrite F2. exact D'.
  - intros q. rewrite apply_outs_up; [reflexivity|].
    intros id sp Hin. cbn [set_d y_up]. specialize (SP _ _ Hin).
    unfold alist_get. destruct (W1 id) as (U & _); [lia|]. rewrite U. reflexivity.
  - intros q. destruct (apply_outs_w outs (set_d s d') q) as [A|((sp & A) & B)]; [left; exact A|].
    right. split; [|exact B]. specialize (SP _ _ A). lia.
Qed.

Lemma no_spawn_not_hook outs id sp : Forall not_hook outs -> ~ In (OHook (HSpawn id sp)) outs.
Proof. intros F Hin. rewrite Forall_forall in F. exact (F _ Hin). Qed.

(* WF looks only at y_d, y_up and y_w *)
Lemma WF_ext s s' : y_d s' = y_d s -> y_up s' = y_up s -> y_w s' = y_w s -> WF s -> WF s'.
Proof. intros E1 E2 E3 (W1 & W2 & W3). unfold WF. rewrite E1, E2, E3. split; [|split]; assumption. Qed.

(* a worker that has a wire or a process has a WorkerController *)
Lemma WF_ctl s n : WF s -> (aget n (y_up s) <> None \/ aget n (y_w s) <> None) ->
  n < d_next_gw (y_d s) /\ exists f, aget n (d_nt (y_d s)) = Some f.
Proof.
  intros (W1 & W2 & _) H.
  assert (Hlt : n < d_next_gw (y_d s)).
  { destruct (le_lt_dec (d_next_gw (y_d s)) n) as [Hle|Hlt]; [|exact Hlt].
    destruct (W1 n Hle) as (X & Y). destruct H; contradiction. }
  split; [exact Hlt|]. specialize (W2 n Hlt). apply aget_in_akeys in W2.
  destruct (aget n (d_nt (y_d s))) as [f|]; [eexists; reflexivity|contradiction].
Qed.


(* a controller move leaves worker n alone, except that it may create it *)
Definition ctl_step (n : nat) (s s' : sys) (o : list out) : Prop :=
  wire n s' = wire n s /\ sdn n s' = sdn n s /\ dd n s' = dd n s /\
  forwarded n o ++ in_evq n (y_evq s') = in_evq n (y_evq s) /\
  (wk n s' = wk n s \/ (wk n s = None /\ wk n s' = Some w_init /\ wire n s = [] /\ sdn n s = false)).

Lemma ctl_step_ns c n s s' o : ctl_step n s s' o -> node_step c n s s' o [].
Proof.
  intros (A & B & C & D & E). apply NS_other; auto; [apply nev_nil|].
  destruct E as [E|E]; [left; exact E|right; left; exact E].
Qed.

Lemma ctl_step_trans n s s1 s2 o1 o2 :
  ctl_step n s s1 o1 -> ctl_step n s1 s2 o2 -> ctl_step n s s2 (o1 ++ o2).
Proof.
  intros (A1 & B1 & C1 & D1 & E1) (A2 & B2 & C2 & D2 & E2).
  split; [congruence|]. split; [congruence|]. split; [congruence|]. split.
  - rewrite forwarded_app, <- app_assoc, D2. exact D1.
  - destruct E2 as [E2|(F1 & F2 & F3 & F4)].
    + destruct E1 as [E1|(G1 & G2 & G3 & G4)]; [left; congruence|right]. repeat split; congruence.
    + destruct E1 as [E1|(G1 & G2 & G3 & G4)]; [right; repeat split; congruence|congruence].
Qed.

Lemma ctl_step_result n s s1 o rr : ctl_step n s s1 o -> ctl_step n s (set_result s1 rr) o.
Proof. intros H. exact H. Qed.

Lemma ctl_node s s1 d' o n :
  WF s -> Rk (y_d s) d' -> y_d s1 = d' -> y_dead s1 = y_dead s ->
  (forall q, alist_get [] q (y_up s1) = alist_get [] q (y_up s)) ->
  (forall q, aget q (y_w s1) = aget q (y_w s) \/ (d_next_gw (y_d s) <= q /\ aget q (y_w s1) = Some w_init)) ->
  forwarded n o ++ in_evq n (y_evq s1) = in_evq n (y_evq s) ->
  ctl_step n s s1 o.
Proof.
  intros (W1 & W2 & W3) (_ & _ & _ & R4) D1 DD U K E.
  assert (SD : sdn n s1 = sdn n s).
  { unfold sdn. rewrite D1. destruct (R4 n) as [A|((A1 & A2) & A3)]; [exact A|]. rewrite A3, (W3 n A1). reflexivity. }
  split; [apply U|]. split; [exact SD|]. split; [unfold dd; rewrite DD; reflexivity|]. split; [exact E|].
  unfold wk. destruct (K n) as [A|(A1 & A2)]; [left; exact A|]. right.
  destruct (W1 n A1) as (X & Y). repeat split; auto.
  - unfold wire, alist_get. rewrite X. reflexivity.
  - exact (W3 n A1).
Qed.

(* what Rk gives for the well-formedness of the new controller state *)
Lemma Rk_wf s d' : WF s -> Rk (y_d s) d' ->
  Inv d' /\ (forall m, d_next_gw d' <= m -> dn m d' = false) /\ d_next_gw (y_d s) <= d_next_gw d'.
Proof.
  intros (W1 & W2 & W3) (_ & R2 & R3 & R4). split; [auto|]. split; [|exact R3].
  intros m Hm. destruct (R4 m) as [A|((A1 & A2) & A3)]; [|exact A3]. rewrite A. apply W3. lia.
Qed.

(* ---- worker steps ---- *)
Lemma push_step c s n0 w0 w1 evs n :
  WF s -> aget n0 (y_w s) = Some w0 -> mem_nat n0 (y_dead s) = false ->
  (recv_step (c_oracle c n0) w0 = (w1, evs) \/ main_step (c_oracle c n0) w0 = Some (w1, evs)) ->
  let s' := push_up (set_w s n0 w1) n0 (map (up_of_wevent c n0) evs) in
  WF s' /\ node_step c n s s' [] (map (fun e => (n0, e)) evs).
Proof.
  intros (W1 & W2 & W3) Hw Hd Hs s'. subst s'. split.
  - split; [|split; [exact W2|exact W3]]. cbn [push_up set_w y_d y_up y_w]. intros m Hm.
    assert (Hne : m <> n0). { intros ->. destruct (W1 n0 Hm) as (_ & X). congruence. }
    rewrite !aget_aset_neq; auto.
  - destruct (Nat.eq_dec n n0) as [->|Hne].
    + apply (NS_work c n0 s _ [] _ w0 w1 evs); try reflexivity; auto.
      * unfold wk. cbn [push_up set_w y_w]. apply aget_aset_eq.
      * unfold wire. cbn [push_up set_w y_up]. apply alist_get_aset_eq.
    + apply NS_other; try reflexivity.
      * unfold wire. cbn [push_up set_w y_up]. apply alist_get_aset_neq. exact Hne.
      * apply nev_other. exact Hne.
      * left. unfold wk. cbn [push_up set_w y_w]. apply aget_aset_neq. exact Hne.
Qed.

Lemma deliver_step c s n0 w0 cmd rest n rr :
  WF s -> aget n0 (y_w s) = Some w0 ->
  let s' := {| y_d := y_d s; y_evq := y_evq s; y_down := aset n0 rest (y_down s); y_up := y_up s;
               y_w := aset n0 (deliver w0 cmd) (y_w s); y_dead := y_dead s; y_result := rr |} in
  WF s' /\ node_step c n s s' [] [].
Proof.
  intros (W1 & W2 & W3) Hw s'. subst s'. split.
  - split; [|split; [exact W2|exact W3]]. cbn [y_d y_up y_w]. intros m Hm.
    assert (Hne : m <> n0). { intros ->. destruct (W1 n0 Hm) as (_ & X). congruence. }
    rewrite aget_aset_neq; auto.
  - apply NS_other; try reflexivity; [apply nev_nil|].
    unfold wk. cbn [y_w]. destruct (Nat.eq_dec n n0) as [->|Hne].
    + right. right. exists w0, cmd. split; [exact Hw|apply aget_aset_eq].
    + left. apply aget_aset_neq. exact Hne.
Qed.

Lemma crash_d c s n0 :
  dsig (y_d (crash_worker c s n0)) = dsig (y_d s) /\ d_next_gw (y_d (crash_worker c s n0)) = d_next_gw (y_d s).
Proof.
  unfold crash_worker. cbn [y_d]. destruct (c_strict c); [|split; reflexivity].
  destruct (aget n0 (d_nt (y_d s))) as [f|] eqn:Ef; [|split; reflexivity].
  split; [|reflexivity]. unfold dsig. rewrite d_nt_set.
  apply (nsig_aset_same n0 _ _ (n_down f)); [rewrite aget_nsig, Ef; reflexivity|reflexivity].
Qed.

Lemma crash_step c s n0 w0 n :
  WF s -> aget n0 (y_w s) = Some w0 -> mem_nat n0 (y_dead s) = false ->
  WF (crash_worker c s n0) /\ node_step c n s (crash_worker c s n0) [] [].
Proof.
  intros (W1 & W2 & W3) Hw Hd. destruct (crash_d c s n0) as (S0 & G0).
  assert (DNQ : forall q, dn q (y_d (crash_worker c s n0)) = dn q (y_d s)) by (apply dn_same_sig; exact S0).
  split.
  - split; [|split].
    + rewrite G0. intros m Hm.
      assert (Hne : m <> n0). { intros ->. destruct (W1 n0 Hm) as (_ & X). congruence. }
      unfold crash_worker. cbn [y_up y_w]. rewrite aget_aset_neq; auto.
    + intros m Hm. rewrite G0 in Hm. rewrite dkeys_dsig, S0, <- dkeys_dsig. apply W2. exact Hm.
    + intros m Hm. rewrite G0 in Hm. rewrite DNQ. apply W3. exact Hm.
  - destruct (Nat.eq_dec n n0) as [->|Hne].
    + apply NS_crash; try reflexivity; auto.
      * unfold dd, crash_worker. cbn [y_dead mem_nat existsb]. rewrite Nat.eqb_refl. reflexivity.
      * unfold wire, crash_worker. cbn [y_up]. apply alist_get_aset_eq.
      * unfold sdn. apply DNQ.
    + apply NS_other; try reflexivity.
      * unfold wire, crash_worker. cbn [y_up]. apply alist_get_aset_neq. exact Hne.
      * unfold sdn. apply DNQ.
      * unfold dd, crash_worker. cbn [y_dead mem_nat existsb].
        destruct (Nat.eqb n n0) eqn:E; [apply Nat.eqb_eq in E; contradiction|reflexivity].
      * apply nev_nil.
      * left. reflexivity.
Qed.

Lemma close_if_dead_frame s n :
  y_evq (close_if_dead s n) = y_evq s /\ y_up (close_if_dead s n) = y_up s /\ y_w (close_if_dead s n) = y_w s /\
  y_dead (close_if_dead s n) = y_dead s /\
  dsig (y_d (close_if_dead s n)) = dsig (y_d s) /\ d_next_gw (y_d (close_if_dead s n)) = d_next_gw (y_d s).
Proof.
  unfold close_if_dead. destruct (mem_nat n (y_dead s)); [|repeat split; auto].
  destruct (aget n (d_nt (y_d s))) as [f|] eqn:Ef; [|repeat split; auto].
  destruct (n_down f) eqn:Edn; [|repeat split; auto].
  cbn [set_d y_evq y_up y_w y_d y_dead]. repeat split; auto.
  unfold dsig. rewrite d_nt_set.
  apply (nsig_aset_same n _ _ true); [rewrite aget_nsig, Ef, <- Edn; reflexivity|reflexivity].
Qed.

(* ---- the controller's receiver thread takes the next message of worker n0 ---- *)
Lemma recv_node c s n0 m rest d' outs r n rr :
  WF s -> aget n0 (y_up s) = Some (m :: rest) ->
  process_from_remote n0 m (y_d s) = (d', outs, r) ->
  let s1 := {| y_d := y_d s; y_evq := y_evq s; y_down := y_down s; y_up := aset n0 rest (y_up s);
               y_w := y_w s; y_dead := y_dead s; y_result := rr |} in
  let s2 := apply_outs (set_d s1 d') outs in
  exists evs, r = Ok evs /\
    WF (close_if_dead (set_evq s2 (y_evq s2 ++ evs)) n0) /\
    node_step c n s (close_if_dead (set_evq s2 (y_evq s2 ++ evs)) n0) outs [].
Proof.
  intros W Eu Ep s1 s2. pose proof W as (W1 & W2 & W3).
  destruct (WF_ctl s n0 W) as (Hlt & f & Ef); [left; rewrite Eu; discriminate|].
  destruct (pfr_spec _ _ _ _ _ _ _ Ep Ef) as (K & G & N & DQ & DN & evs & -> & EV).
  exists evs. split; [reflexivity|].
  assert (Ws1 : WF s1).
  { split; [|split; [exact W2|exact W3]]. subst s1. cbn [y_d y_up y_w]. intros m0 Hm.
    assert (Hne : m0 <> n0). { intros ->. lia. }
    rewrite aget_aset_neq; auto. }
  assert (I' : Inv d').
  { intros m0 Hm. rewrite K. apply W2. rewrite <- G. exact Hm. }
  assert (D' : forall m0, d_next_gw d' <= m0 -> dn m0 d' = false).
  { intros m0 Hm. rewrite G in Hm. rewrite DQ; [apply W3; exact Hm|lia]. }
  destruct (ctl_move s1 d' outs Ws1 I' D') as (Ws2 & Q2 & D2 & DD2 & U2 & _).
  { subst s1. cbn [y_d]. lia. }
  { intros id sp Hin. exfalso. exact (no_spawn_not_hook _ _ _ N Hin). }
  fold s2 in Ws2, Q2, D2, DD2, U2.
  assert (K2 : forall q, aget q (y_w s2) = aget q (y_w s)).
  { intros q. destruct (apply_outs_w outs (set_d s1 d') q) as [A|((sp & A) & _)]; [exact A|].
    exfalso. exact (no_spawn_not_hook _ _ _ N A). }
  destruct (close_if_dead_frame (set_evq s2 (y_evq s2 ++ evs)) n0) as (F1 & F2 & F3 & F4 & F5 & F6).
  cbn [set_evq y_evq y_up y_w y_d y_dead] in F1, F2, F3, F4, F5, F6.
  set (s3 := close_if_dead (set_evq s2 (y_evq s2 ++ evs)) n0) in *.
  assert (DN3 : forall q, dn q (y_d s3) = dn q d').
  { intros q. rewrite (dn_same_sig _ _ F5 q), D2. reflexivity. }
  split.
  - destruct Ws2 as (A1 & A2 & A3). split; [|split].
    + rewrite F6, F2, F3. exact A1.
    + intros m0 Hm. rewrite F6 in Hm. rewrite dkeys_dsig, F5, <- dkeys_dsig. apply A2. exact Hm.
    + intros m0 Hm. rewrite F6 in Hm. rewrite (dn_same_sig _ _ F5 m0). apply A3. exact Hm.
  - assert (FW : forwarded n outs = []).
    { apply forwarded_noreport. eapply Forall_impl; [|exact N]. intros x. apply not_hook_noreport. }
    assert (EQ : in_evq n (y_evq s3) = in_evq n (y_evq s) ++ in_evq n evs).
    { rewrite F1, Q2, in_evq_app. reflexivity. }
    destruct (Nat.eq_dec n n0) as [->|Hne].
    + apply (NS_recv c n0 s s3 outs [] m rest); auto.
      * unfold wire, alist_get. rewrite Eu. reflexivity.
      * unfold wire. rewrite F2, U2. subst s1. cbn [y_up]. apply alist_get_aset_eq.
      * unfold sdn. rewrite DN3, DN. unfold dn. rewrite Ef. reflexivity.
      * unfold wk. rewrite F3. apply K2.
      * unfold dd. rewrite F4, DD2. reflexivity.
      * rewrite EQ, (EV n0), Nat.eqb_refl. unfold sdn, dn. rewrite Ef. reflexivity.
    + apply NS_other.
      * unfold wire. rewrite F2, U2. subst s1. cbn [y_up]. apply alist_get_aset_neq. exact Hne.
      * unfold sdn. rewrite DN3. apply DQ. exact Hne.
      * unfold dd. rewrite F4, DD2. reflexivity.
      * apply nev_nil.
      * rewrite FW, EQ, (EV n). destruct (Nat.eqb n0 n) eqn:E; [apply Nat.eqb_eq in E; congruence|].
        rewrite app_nil_r. reflexivity.
      * left. unfold wk. rewrite F3. apply K2.
Qed.

(* ---- the controller main loop handles one event ---- *)
Lemma ctl_fifo s ev q d' outs r n :
  WF s -> y_evq s = ev :: q -> d_loop_once ev (y_d s) = (d', outs, r) ->
  let s1 := apply_outs (set_d (set_evq s q) d') outs in
  WF s1 /\ y_d s1 = d' /\ ctl_step n s s1 outs.
Proof.
  intros W Eq El s1.
  destruct (loop_once_fifo _ _ _ _ _ n El) as (R1 & F1).
  destruct (step_rel_spawn _ _ _ (loop_once_step _ _ _ _ _ El)) as (G & SP).
  destruct (Rk_wf s d' W R1) as (I' & D' & _).
  assert (W0 : WF (set_evq s q)) by (apply (WF_ext s); auto).
  destruct (ctl_move (set_evq s q) d' outs W0 I' D' G SP) as (Ws1 & Q1 & D1 & DD1 & U1 & K1).
  fold s1 in Ws1, Q1, D1, DD1, U1, K1. cbn [set_evq y_evq y_up y_w y_d y_dead] in Q1, DD1, U1, K1.
  split; [exact Ws1|]. split; [exact D1|].
  apply (ctl_node s s1 d' outs n W R1 D1 DD1 U1 K1).
  rewrite F1, Q1, Eq. reflexivity.
Qed.

Lemma noactive_fifo s d' outs r n :
  WF s -> d_no_active (y_d s) = (d', outs, r) ->
  let s1 := apply_outs (set_d s d') outs in
  WF s1 /\ y_d s1 = d' /\ ctl_step n s s1 outs.
Proof.
  intros W En s1.
  destruct (r_no_active _ _ _ _ En) as (R1 & N1).
  destruct (step_rel_spawn _ _ _ (quiet_step _ _ _ _ _ quiet_no_active En)) as (G & SP).
  destruct (Rk_wf s d' W R1) as (I' & D' & _).
  destruct (ctl_move s d' outs W I' D' G SP) as (Ws1 & Q1 & D1 & DD1 & U1 & K1).
  fold s1 in Ws1, Q1, D1, DD1, U1, K1.
  split; [exact Ws1|]. split; [exact D1|].
  apply (ctl_node s s1 d' outs n W R1 D1 DD1 U1 K1).
  rewrite (forwarded_noreport n outs N1), Q1. reflexivity.
Qed.

(* ---- one step of the system, seen from worker n, from an arbitrary well-formed state ---- *)
Ltac fin3 H a b c := injection H as Hs_ Ho_ Hw_; subst a b c.
Lemma step_node c s l s' o w n :
  WF s -> sys_step c s l = Some (s', o, w) -> WF s' /\ node_step c n s s' o w.
Proof.
  intros W H. unfold sys_step in H. destruct (y_result s) eqn:Er; [discriminate|].
  destruct l as [n0|n0|n0|n0| |n0].
  - (* LDeliver *)
    destruct (mem_nat n0 (y_dead s)); [discriminate|].
    destruct (aget n0 (y_down s)) as [[|cmd rest]|]; try discriminate.
    destruct (aget n0 (y_w s)) as [w0|] eqn:Ew; try discriminate.
    fin3 H s' o w. exact (deliver_step c s n0 w0 cmd rest n None W Ew).
  - (* LRecvW *)
    destruct (mem_nat n0 (y_dead s)) eqn:Ed; [discriminate|].
    destruct (aget n0 (y_w s)) as [w0|] eqn:Ew; try discriminate.
    destruct (negb (wcb w0)); [discriminate|].
    destruct (recv_step (c_oracle c n0) w0) as [w' evs] eqn:Es. fin3 H s' o w.
    exact (push_step c s n0 w0 w' evs n W Ew Ed (or_introl Es)).
  - (* LMain *)
    destruct (mem_nat n0 (y_dead s)) eqn:Ed; [discriminate|].
    destruct (aget n0 (y_w s)) as [w0|] eqn:Ew; try discriminate.
    destruct (dies_now c n0 w0).
    + fin3 H s' o w. exact (crash_step c s n0 w0 n W Ew Ed).
    + destruct (main_step (c_oracle c n0) w0) as [[w' evs]|] eqn:Es; [|discriminate]. fin3 H s' o w.
      exact (push_step c s n0 w0 w' evs n W Ew Ed (or_intror Es)).
  - (* LRecv *)
    destruct (aget n0 (y_up s)) as [[|m rest]|] eqn:Eu; try discriminate.
    cbn [y_d] in H.
    destruct (process_from_remote n0 m (y_d s)) as [[d' outs] r] eqn:Ep.
    pose proof (recv_node c s n0 m rest d' outs r n None W Eu Ep) as RF. cbv zeta in RF.
    destruct RF as (evs & -> & W' & NS). fin3 H s' o w. split; assumption.
  - (* LCtl *)
    destruct (d_active (y_d s)) as [|a0 ar] eqn:Ea.
    + destruct (d_no_active (y_d s)) as [[d' outs] r0] eqn:En. fin3 H s' o w.
      destruct (noactive_fifo s d' outs r0 n W En) as (W' & D' & CS). cbv zeta in W', D', CS.
      split; [apply (WF_ext (apply_outs (set_d s d') outs)); auto|].
      apply ctl_step_ns. apply ctl_step_result. exact CS.
    + destruct (y_evq s) as [|ev q] eqn:Eq; [discriminate|].
      destruct (d_loop_once ev (y_d s)) as [[d' outs] r] eqn:El.
      destruct (ctl_fifo s ev q d' outs r n W Eq El) as (W1 & D1 & CS). cbv zeta in W1, D1, CS.
      set (s1 := apply_outs (set_d (set_evq s q) d') outs) in *.
      assert (RES : forall rr, WF (set_result s1 rr) /\ node_step c n s (set_result s1 rr) outs []).
      { intros rr. split; [apply (WF_ext s1); auto|]. apply ctl_step_ns, ctl_step_result. exact CS. }
      destruct r as [[]|e].
      * destruct (d_session_finished d'); [fin3 H s' o w; apply RES|].
        destruct (d_active d') as [|b0 br] eqn:Ea'.
        -- destruct (d_no_active d') as [[d2 outs2] r2] eqn:En. fin3 H s' o w.
           rewrite <- D1 in En.
           destruct (noactive_fifo s1 d2 outs2 r2 n W1 En) as (W' & D' & CS'). cbv zeta in W', D', CS'.
           split; [apply (WF_ext (apply_outs (set_d s1 d2) outs2)); auto|].
           apply ctl_step_ns, ctl_step_result. exact (ctl_step_trans _ _ _ _ _ _ CS CS').
        -- fin3 H s' o w. split; [exact W1|]. apply ctl_step_ns. exact CS.
      * fin3 H s' o w. apply RES.
  - (* LCrash *)
    destruct (mem_nat n0 (y_dead s)) eqn:Ed; [discriminate|].
    destruct (aget n0 (y_w s)) as [w0|] eqn:Ew; try discriminate.
    destruct (crash_step c s n0 w0 n W Ew Ed) as (W' & NS).
    destruct (wph w0); try discriminate; fin3 H s' o w; split; assumption.
Qed.

(* the one-step lemma of the property, from an arbitrary well-formed state *)
Lemma step_fifo c s l s' o w n :
  WF s -> sys_step c s l = Some (s', o, w) ->
  WF s' /\
  forwarded n o ++ in_evq n (y_evq s') ++ in_up_heard n s' =
  in_evq n (y_evq s) ++ in_up_heard n s ++ (if cut_state n s then [] else audible n w).
Proof.
  intros W H. destruct (step_node c s l s' o w n W H) as (W' & NS).
  split; [exact W'|]. exact (ns_equation _ _ _ _ _ _ NS).
Qed.

(* ====================================================================================== *)
(* Part E: the worker side — after workerfinished a worker sends nothing, and a worker     *)
(* that sent no garbled report is written off only when it is gone                          *)
(* ====================================================================================== *)
Lemma recv_next_ph o inbox : forall w, wph (recv_next o w inbox) = wph w.
Proof.
  induction inbox as [|cm r IH]; intros w; cbn [recv_next]; [reflexivity|].
  destruct cm as [[|i ixs]| |s| |]; try reflexivity; try apply IH.
  - destruct (seq 0 (ncollected o)); [apply IH|reflexivity].
  - unfold w_steal. destruct (steal_q (wq w) s). reflexivity.
Qed.

(* the worker's receiver thread: the phase of the main thread is untouched, the only event it
   sends is 'unscheduled' *)
Lemma recv_step_facts o w0 w1 evs :
  recv_step o w0 = (w1, evs) -> wph w1 = wph w0 /\ (evs = [] \/ exists ixs, evs = [EUnscheduled ixs]).
Proof.
  unfold recv_step. destruct (negb (wcb w0)); [intros H; inversion H; subst; auto|].
  assert (EV : (match wreply w0 with Some ixs => [EUnscheduled ixs] | None => [] end = [] \/
                exists ixs, match wreply w0 with Some ixs => [EUnscheduled ixs] | None => [] end = [EUnscheduled ixs])).
  { destruct (wreply w0); [right; eexists; reflexivity|left; reflexivity]. }
  cbn [upd_recv wrpend winbox].
  destruct (wrpend w0) as [|it rest]; intros H; inversion H; subst; split; auto.
  rewrite recv_next_ph. reflexivity.
Qed.

Definition nofin_script (w : wst) : Prop :=
  match wph w with PRun _ _ sc => Forall (fun e => is_fin e = false) sc | _ => True end.

Lemma nofin_ph a b : wph a = wph b -> nofin_script b -> nofin_script a.
Proof. unfold nofin_script. intros ->. auto. Qed.

Lemma script_of_nofin o i : Forall (fun e => is_fin e = false) (tl (script_of o i)).
Proof.
  unfold script_of. cbn [app tl]. apply Forall_app. split; [|repeat constructor].
  apply Forall_forall. intros e Hin. apply in_map_iff in Hin. destruct Hin as (p & <- & _). reflexivity.
Qed.

(* the worker's main thread: at most one event per step; workerfinished is its last one *)
Lemma main_step_facts o w0 w1 evs :
  main_step o w0 = Some (w1, evs) -> nofin_script w0 ->
  nofin_script w1 /\ wph w0 <> PExited /\
  (evs = [] \/ exists e, evs = [e] /\ (is_fin e = true -> wph w1 = PExited)).
Proof.
  unfold main_step, nofin_script. destruct (wph w0) as [|rest| | |cur|cur nxt|cur nxt script|s|] eqn:P; intros H NF.
  - inversion H; subst. cbn. repeat split; try discriminate. right. eexists. split; [reflexivity|discriminate].
  - destruct rest as [|[k f] rest]; inversion H; subst; cbn; repeat split; try discriminate;
      right; eexists; (split; [reflexivity|discriminate]).
  - inversion H; subst. cbn. repeat split; try discriminate. right. eexists. split; [reflexivity|discriminate].
  - destruct (wq w0) as [|[t [i|]] q'].
    + destruct (wcb w0); [discriminate|]. inversion H; subst. cbn. rewrite P. repeat split; try discriminate. left; reflexivity.
    + inversion H; subst. cbn. repeat split; try discriminate. left; reflexivity.
    + inversion H; subst. cbn. repeat split; try discriminate. left; reflexivity.
  - destruct (wq w0) as [|nxt q']; [discriminate|]. inversion H; subst. cbn. repeat split; try discriminate. left; reflexivity.
  - inversion H; subst. cbn. split; [apply script_of_nofin|]. split; [discriminate|].
    right. eexists. split; [reflexivity|discriminate].
  - destruct script as [|e script].
    + inversion H; subst. cbn. split.
      { destruct (stops_after o (snd cur)); [exact I|]. destruct (snd nxt); exact I. }
      split; [discriminate|]. right. eexists. split; [reflexivity|discriminate].
    + inversion H; subst. cbn. inversion NF as [|e' sc' Fe Fs]; subst.
      split; [exact Fs|]. split; [discriminate|]. right. exists e. split; [reflexivity|].
      intros E. rewrite E in Fe. discriminate.
  - inversion H; subst. cbn. repeat split; try discriminate. right. eexists. split; [reflexivity|reflexivity].
  - discriminate.
Qed.

(* one step of a worker: at most one event; a garbled report aside, a cut event is workerfinished,
   after which the process has exited *)
Lemma wstep_facts c n w0 w1 evs :
  (recv_step (c_oracle c n) w0 = (w1, evs) \/ main_step (c_oracle c n) w0 = Some (w1, evs)) ->
  nofin_script w0 ->
  nofin_script w1 /\
  (wph w0 = PExited -> wph w1 = PExited /\ (evs = [] \/ exists ixs, evs = [EUnscheduled ixs])) /\
  (evs = [] \/ exists e, evs = [e] /\ (is_fin e = true -> wph w1 = PExited)).
Proof.
  intros [H|H] NF.
  - destruct (recv_step_facts _ _ _ _ H) as (P & E). split; [eapply nofin_ph; eauto|]. split.
    + intros X. split; [congruence|exact E].
    + destruct E as [->|(ixs & ->)]; [left; reflexivity|right]. eexists. split; [reflexivity|discriminate].
  - destruct (main_step_facts _ _ _ _ H NF) as (A & B & C). split; [exact A|]. split; [contradiction|exact C].
Qed.

(* a list of at most one event, none garbled *)
Lemma small_facts c n evs :
  (evs = [] \/ exists e, evs = [e]) -> garbled n (map (fun e => (n, e)) evs) = false ->
  flat_map rep_of_up (map (up_of_wevent c n) evs) = heard_wire (map (up_of_wevent c n) evs) /\
  produced n (map (fun e => (n, e)) evs) = audible n (map (fun e => (n, e)) evs) /\
  flat_map rep_of_up (map (up_of_wevent c n) evs) = produced n (map (fun e => (n, e)) evs).
Proof.
  intros [->|(e & ->)] G; [repeat split; reflexivity|].
  unfold garbled in G. cbn [map existsb fst snd] in G. rewrite Nat.eqb_refl in G. cbn [andb] in G.
  rewrite orb_false_r in G.
  cbn [map flat_map heard_wire audible]. rewrite produced_cons, Nat.eqb_refl, cut_up. unfold cut_ev. rewrite G.
  cbn [orb produced flat_map]. rewrite !app_nil_r.
  destruct e; try (repeat split; reflexivity). destruct oc; try (repeat split; reflexivity). discriminate.
Qed.

(* worker n will not send anything but 'unscheduled' any more *)
Definition silent (n : nat) (s : sys) : Prop :=
  dd n s = true \/ exists w0, wk n s = Some w0 /\ wph w0 = PExited.

Lemma ns_silent c n s s' o w :
  node_step c n s s' o w -> silent n s ->
  silent n s' /\ produced n w = [] /\ audible n w = [] /\ has_cut n w = false.
Proof.
  intros [Hw Hd Hdd Hn He Hk|w0 w1 evs Hdd Hk Hk' Hs -> Hw Hd Hdd' -> He|Hdd Hdd' Hw Hd Hk -> -> He
         |m rest Hw Hw' Hd Hk Hdd -> Ho He] S.
  - destruct (nev_facts _ _ Hn) as (A & B & _ & C & _). split; [|auto].
    destruct S as [S|(w0 & S1 & S2)]; [left; congruence|].
    destruct Hk as [Hk|[(Hk & _)|(w0' & cmd & Hk1 & Hk2)]].
    + right. exists w0. split; [congruence|exact S2].
    + congruence.
    + right. exists (deliver w0' cmd). split; [exact Hk2|]. rewrite Hk1 in S1. inversion S1; subst. exact S2.
  - destruct S as [S|(w0' & S1 & S2)]; [congruence|]. rewrite Hk in S1. inversion S1; subst w0'.
    destruct Hs as [Hs|Hs].
    + destruct (recv_step_facts _ _ _ _ Hs) as (P & E). split.
      * right. exists w1. split; [exact Hk'|congruence].
      * destruct E as [->|(ixs & ->)]; repeat split; try reflexivity.
        all: unfold has_cut; cbn; rewrite Nat.eqb_refl; reflexivity.
    + exfalso. unfold main_step in Hs. rewrite S2 in Hs. discriminate.
  - split; [left; exact Hdd'|]. repeat split; reflexivity.
  - split; [|repeat split; reflexivity]. destruct S as [S|(w0 & S1 & S2)]; [left; congruence|].
    right. exists w0. split; [congruence|exact S2].
Qed.

(* the invariant of a worker that has not sent a garbled report: it is written off only when it
   is silent, and no report of it is on its wire behind a cut *)
Definition SI (n : nat) (s : sys) : Prop :=
  (forall w0, wk n s = Some w0 -> nofin_script w0) /\
  (cut_state n s = true -> silent n s) /\
  in_up n s = in_up_heard n s.

Lemma ns_si c n s s' o w :
  node_step c n s s' o w -> garbled n w = false -> SI n s ->
  SI n s' /\ produced n w = (if cut_state n s then [] else audible n w).
Proof.
  intros NS G (S1 & S3 & S4).
  destruct (ns_cut _ _ _ _ _ _ NS) as (F1 & F2 & F3 & F4).
  (* the written-off-only-when-silent part, up to the case of a cut event in this step *)
  assert (S3' : (has_cut n w = true -> silent n s') -> cut_state n s' = true -> silent n s').
  { intros HC C'. destruct (F3 C') as [C|[C|C]].
    - exact (proj1 (ns_silent _ _ _ _ _ _ NS (S3 C))).
    - exact (HC C).
    - left. exact C. }
  rewrite in_up_wire in S4. unfold in_up_heard in S4.
  destruct NS as [Hw Hd Hdd Hn He Hk|w0 w1 evs Hdd Hk Hk' Hs -> Hw Hd Hdd' -> He|Hdd Hdd' Hw Hd Hk -> -> He
         |m rest Hw Hw' Hd Hk Hdd -> Ho He].
  - destruct (nev_facts _ _ Hn) as (A & B & _ & C & _). split; [|rewrite A, B; destruct (cut_state n s); reflexivity].
    split; [|split].
    + intros w0 E. destruct Hk as [Hk|[(_ & Hk & _)|(w0' & cmd & Hk1 & Hk2)]].
      * apply S1. congruence.
      * rewrite Hk in E. inversion E; subst. exact I.
      * rewrite Hk2 in E. inversion E; subst. apply (nofin_ph _ w0'); [reflexivity|]. apply S1. exact Hk1.
    + apply S3'. rewrite C. discriminate.
    + rewrite in_up_wire. unfold in_up_heard. rewrite Hw, Hd. exact S4.
  - pose proof (S1 _ Hk) as NF.
    destruct (wstep_facts c n w0 w1 evs Hs NF) as (NF1 & EX & SM).
    assert (SM' : evs = [] \/ exists e, evs = [e]).
    { destruct SM as [->|(e & -> & _)]; [left; reflexivity|right; eexists; reflexivity]. }
    destruct (small_facts c n evs SM' G) as (R1 & R2 & R3).
    assert (PR : produced n (map (fun e => (n, e)) evs) =
                 (if cut_state n s then [] else audible n (map (fun e => (n, e)) evs))).
    { destruct (cut_state n s) eqn:C; [|exact R2].
      exact (proj1 (proj2 (ns_silent _ _ _ _ _ _ (NS_work c n s s' [] _ w0 w1 evs Hdd Hk Hk' Hs eq_refl Hw Hd Hdd' eq_refl He) (S3 eq_refl)))). }
    split; [|exact PR]. split; [|split].
    + intros w0' E. rewrite Hk' in E. inversion E; subst. exact NF1.
    + apply S3'. intros HC. right. exists w1. split; [exact Hk'|].
      destruct SM as [->|(e & -> & FN)]; [discriminate|]. apply FN.
      unfold has_cut in HC. cbn [map existsb fst snd] in HC. rewrite Nat.eqb_refl, orb_false_r in HC. cbn [andb] in HC.
      unfold garbled in G. cbn [map existsb fst snd] in G. rewrite Nat.eqb_refl, orb_false_r in G. cbn [andb] in G.
      unfold cut_ev in HC. rewrite G in HC. exact HC.
    + rewrite in_up_wire. unfold in_up_heard. rewrite Hw, Hd, fm_app, heard_wire_app, S4, R3, PR, <- R2, <- R3, R1. unfold cut_state.
      destruct (sdn n s); cbn [orb]; [reflexivity|].
      destruct (existsb cut_msg (wire n s)); reflexivity.
  - split; [|destruct (cut_state n s); reflexivity]. split; [|split].
    + intros w0 E. apply S1. congruence.
    + intros _. left. exact Hdd'.
    + rewrite in_up_wire. unfold in_up_heard. rewrite Hw, Hd, fm_app, heard_wire_app, S4. cbn [flat_map heard_wire cut_msg rep_of_up app].
      destruct (sdn n s); [reflexivity|]. destruct (existsb cut_msg (wire n s)); reflexivity.
  - split; [|destruct (cut_state n s); reflexivity]. split; [|split].
    + intros w0 E. apply S1. congruence.
    + apply S3'. discriminate.
    + rewrite in_up_wire. unfold in_up_heard. rewrite Hw', Hd. rewrite Hw in S4. cbn [flat_map heard_wire] in S4.
      destruct (sdn n s); cbn [orb].
      * apply app_eq_nil in S4. exact (proj2 S4).
      * destruct (cut_msg m); [apply app_eq_nil in S4; exact (proj2 S4)|].
        apply app_inv_head in S4. exact S4.
Qed.

(* ====================================================================================== *)
(* Part F: every schedule                                                                  *)
(* ====================================================================================== *)

(* ---- the initial state is well formed and has nothing in flight ---- *)
Lemma aget_map_seq_none {V} (f : nat -> V) N : forall a m,
  a + N <= m -> aget m (map (fun n => (n, f n)) (seq a N)) = None.
Proof.
  induction N as [|N IH]; intros a m H; [reflexivity|].
  cbn [seq map aget]. destruct (Nat.eqb m a) eqn:E; [apply Nat.eqb_eq in E; lia|].
  apply IH. lia.
Qed.

Lemma akeys_map_seq {V} (f : nat -> V) l : akeys (map (fun n => (n, f n)) l) = l.
Proof. unfold akeys. rewrite map_map. cbn. apply map_id. Qed.

Lemma alist_get_map_nil {V} (l : list nat) n : alist_get (@nil V) n (map (fun k => (k, [])) l) = [].
Proof.
  unfold alist_get. induction l as [|k l IH]; [reflexivity|].
  cbn [map aget]. destruct (Nat.eqb n k); [reflexivity|exact IH].
Qed.

Lemma aget_map_seq_const {V} (v : V) l n x : aget n (map (fun k => (k, v)) l) = Some x -> x = v.
Proof.
  induction l as [|k l IH]; cbn; [discriminate|].
  destruct (Nat.eqb n k); [intros E; inversion E; reflexivity|exact IH].
Qed.

Lemma dn_init c m : dn m (y_d (sys_init c)) = false.
Proof.
  unfold dn, d_nt. cbn [sys_init y_d d_sched]. rewrite s_nt_set. unfold init_nt.
  induction (seq 0 (c_numnodes c)) as [|a l IH]; cbn; [reflexivity|].
  destruct (Nat.eqb m a); [reflexivity|exact IH].
Qed.

Lemma WF_init c : WF (sys_init c).
Proof.
  split; [|split].
  - cbn [sys_init y_d y_up y_w d_next_gw]. intros m Hm. split.
    + apply (aget_map_seq_none (fun _ => [])). lia.
    + apply (aget_map_seq_none (fun _ => w_init)). lia.
  - intros m Hm. cbn [sys_init y_d d_next_gw] in Hm. unfold dkeys, d_nt. cbn [sys_init y_d d_sched].
    rewrite s_nt_set. unfold init_nt. rewrite (akeys_map_seq (fun n => {| n_spec := c_spec c n; n_down := false;
      n_sdsent := false; n_closed := false |})). apply in_seq. lia.
  - intros m _. apply dn_init.
Qed.

Lemma init_nothing_in_flight c n :
  in_evq n (y_evq (sys_init c)) = [] /\ in_up n (sys_init c) = [] /\
  in_up_heard n (sys_init c) = [] /\ cut_state n (sys_init c) = false.
Proof.
  assert (Wn : wire n (sys_init c) = []).
  { unfold wire. cbn [sys_init y_up]. apply alist_get_map_nil. }
  split; [reflexivity|]. split; [rewrite in_up_wire, Wn; reflexivity|].
  unfold in_up_heard, cut_state, sdn. rewrite dn_init, Wn. split; reflexivity.
Qed.

Lemma SI_init c n : SI n (sys_init c).
Proof.
  destruct (init_nothing_in_flight c n) as (_ & A & B & C). split; [|split].
  - intros w0 E. unfold wk in E. cbn [sys_init y_w] in E. apply aget_map_seq_const in E. subst w0. exact I.
  - rewrite C. discriminate.
  - rewrite A, B. reflexivity.
Qed.

(* ---- any schedule from any well-formed state ---- *)
Lemma exec_dead c n ls : forall s s2 o w,
  WF s -> dd n s = true -> sys_exec c s ls = (s2, o, w) -> nev n w.
Proof.
  induction ls as [|l ls IH]; intros s s2 o w W D H; cbn [sys_exec] in H.
  - inversion H; subst. apply nev_nil.
  - destruct (sys_step c s l) as [[[s1 o1] w1]|] eqn:E1; [|apply (IH _ _ _ _ W D H)].
    destruct (sys_exec c s1 ls) as [[s3 o3] w3] eqn:E2. inversion H; subst. clear H.
    destruct (step_node _ _ _ _ _ _ n W E1) as (W1 & NS).
    destruct (ns_cut _ _ _ _ _ _ NS) as (_ & _ & _ & F4). destruct (F4 D) as (D1 & N1).
    apply nev_app; [exact N1|]. exact (IH _ _ _ _ W1 D1 E2).
Qed.

Lemma exec_silent c n ls : forall s s2 o w,
  WF s -> silent n s -> sys_exec c s ls = (s2, o, w) -> produced n w = [].
Proof.
  induction ls as [|l ls IH]; intros s s2 o w W D H; cbn [sys_exec] in H.
  - inversion H; subst. reflexivity.
  - destruct (sys_step c s l) as [[[s1 o1] w1]|] eqn:E1; [|apply (IH _ _ _ _ W D H)].
    destruct (sys_exec c s1 ls) as [[s3 o3] w3] eqn:E2. inversion H; subst. clear H.
    destruct (step_node _ _ _ _ _ _ n W E1) as (W1 & NS).
    destruct (ns_silent _ _ _ _ _ _ NS D) as (D1 & P1 & _).
    rewrite produced_app, P1, (IH _ _ _ _ W1 D1 E2). reflexivity.
Qed.

Lemma compose_cut (cs cs1 hc1 : bool) (A1 A3 : list rep) :
  (cs = true -> cs1 = true) -> (hc1 = true -> cs1 = true) ->
  (cs1 = true -> cs = true \/ hc1 = true \/ A3 = []) ->
  (if cs then [] else A1) ++ (if cs1 then [] else A3) = if cs then [] else A1 ++ (if hc1 then [] else A3).
Proof.
  intros H1 H2 H3. destruct cs.
  - rewrite (H1 eq_refl). reflexivity.
  - destruct hc1.
    + rewrite (H2 eq_refl). reflexivity.
    + destruct cs1; [|reflexivity]. destruct (H3 eq_refl) as [X|[X|X]]; try discriminate. rewrite X. reflexivity.
Qed.

Lemma exec_fifo c n ls : forall s s2 o w,
  WF s -> sys_exec c s ls = (s2, o, w) ->
  WF s2 /\
  forwarded n o ++ in_evq n (y_evq s2) ++ in_up_heard n s2 =
  in_evq n (y_evq s) ++ in_up_heard n s ++ (if cut_state n s then [] else audible n w).
Proof.
  induction ls as [|l ls IH]; intros s s2 o w W H; cbn [sys_exec] in H.
  - inversion H; subst. split; [exact W|]. cbn. destruct (cut_state n s2); rewrite app_nil_r; reflexivity.
  - destruct (sys_step c s l) as [[[s1 o1] w1]|] eqn:E1; [|apply (IH _ _ _ _ W H)].
    destruct (sys_exec c s1 ls) as [[s3 o3] w3] eqn:E2. inversion H; subst. clear H.
    destruct (step_node _ _ _ _ _ _ n W E1) as (W1 & NS).
    pose proof (ns_equation _ _ _ _ _ _ NS) as S1.
    destruct (ns_cut _ _ _ _ _ _ NS) as (F1 & F2 & F3 & _).
    destruct (IH _ _ _ _ W1 E2) as (W2 & S2). split; [exact W2|].
    rewrite forwarded_app, audible_app, <- (compose_cut _ (cut_state n s1)); auto.
    + rewrite <- app_assoc, S2. rewrite !app_assoc. f_equal. rewrite <- !app_assoc. exact S1.
    + intros C. destruct (F3 C) as [X|[X|X]]; auto. right. right.
      exact (proj1 (proj2 (nev_facts _ _ (exec_dead _ _ _ _ _ _ _ W1 X E2)))).
Qed.

(* a worker that sends no garbled report: everything it produces is audible, and nothing of it
   sits on its wire behind a cut *)
Lemma exec_full c n ls : forall s s2 o w,
  WF s -> SI n s -> sys_exec c s ls = (s2, o, w) -> garbled n w = false ->
  SI n s2 /\ produced n w = (if cut_state n s then [] else audible n w).
Proof.
  induction ls as [|l ls IH]; intros s s2 o w W I0 H G; cbn [sys_exec] in H.
  - inversion H; subst. split; [exact I0|]. destruct (cut_state n s2); reflexivity.
  - destruct (sys_step c s l) as [[[s1 o1] w1]|] eqn:E1; [|apply (IH _ _ _ _ W I0 H G)].
    destruct (sys_exec c s1 ls) as [[s3 o3] w3] eqn:E2. inversion H; subst. clear H.
    rewrite garbled_app in G. apply orb_false_iff in G. destruct G as (G1 & G3).
    destruct (step_node _ _ _ _ _ _ n W E1) as (W1 & NS).
    destruct (ns_cut _ _ _ _ _ _ NS) as (F1 & F2 & F3 & _).
    destruct (ns_si _ _ _ _ _ _ NS G1 I0) as (I1 & P1).
    destruct (IH _ _ _ _ W1 I1 E2 G3) as (I2 & P3). split; [exact I2|].
    rewrite produced_app, audible_app, P1, P3. apply compose_cut; auto.
    intros C. destruct (F3 C) as [X|[X|X]]; auto. right. right.
    exact (proj1 (proj2 (nev_facts _ _ (exec_dead _ _ _ _ _ _ _ W1 X E2)))).
Qed.

(* ---- workerfinished is the last thing a worker sends: cutting there loses nothing ---- *)
Definition FI (n : nat) (s : sys) : Prop := forall w0, wk n s = Some w0 -> nofin_script w0.

Lemma ns_fin c n s s' o w :
  node_step c n s s' o w -> FI n s ->
  FI n s' /\ audible n w = decod n w /\ (has_cut n w = true -> garbled n w = false -> silent n s').
Proof.
  intros [Hw Hd Hdd Hn He Hk|w0 w1 evs Hdd Hk Hk' Hs -> Hw Hd Hdd' -> He|Hdd Hdd' Hw Hd Hk -> -> He
         |m rest Hw Hw' Hd Hk Hdd -> Ho He] S1.
  - destruct (nev_facts _ _ Hn) as (_ & B & B' & C & _). rewrite B, B', C. split; [|split; [reflexivity|discriminate]].
    intros w0 E. destruct Hk as [Hk|[(_ & Hk & _)|(w0' & cmd & Hk1 & Hk2)]].
    + apply S1. congruence.
    + rewrite Hk in E. inversion E; subst. exact I.
    + rewrite Hk2 in E. inversion E; subst. apply (nofin_ph _ w0'); [reflexivity|]. apply S1. exact Hk1.
  - destruct (wstep_facts c n w0 w1 evs Hs (S1 _ Hk)) as (NF1 & _ & SM). split; [|split].
    + intros w0' E. rewrite Hk' in E. inversion E; subst. exact NF1.
    + destruct SM as [->|(e & -> & _)]; [reflexivity|]. cbn [map audible decod]. rewrite Nat.eqb_refl. unfold cut_ev.
      destruct e; try reflexivity. destruct oc; reflexivity.
    + intros HC G. right. exists w1. split; [exact Hk'|].
      destruct SM as [->|(e & -> & FN)]; [discriminate|]. apply FN.
      unfold has_cut in HC. cbn [map existsb fst snd] in HC. rewrite Nat.eqb_refl, orb_false_r in HC. cbn [andb] in HC.
      unfold garbled in G. cbn [map existsb fst snd] in G. rewrite Nat.eqb_refl, orb_false_r in G. cbn [andb] in G.
      unfold cut_ev in HC. rewrite G in HC. exact HC.
  - split; [|split; [reflexivity|discriminate]]. intros w0 E. apply S1. congruence.
  - split; [|split; [reflexivity|discriminate]]. intros w0 E. apply S1. congruence.
Qed.

Lemma garbled_has_cut n w : garbled n w = true -> has_cut n w = true.
Proof.
  unfold garbled, has_cut. induction w as [|[m e] w IH]; [discriminate|]. cbn [existsb fst snd].
  destruct (Nat.eqb m n); cbn [andb orb]; [|exact IH].
  change (cut_ev e) with (is_garbled e || is_fin e).
  destruct (is_garbled e); cbn [orb]; [reflexivity|]. intros H. rewrite (IH H). apply orb_true_r.
Qed.

Lemma exec_fin c n ls : forall s s2 o w,
  WF s -> FI n s -> sys_exec c s ls = (s2, o, w) -> audible n w = decod n w.
Proof.
  induction ls as [|l ls IH]; intros s s2 o w W I0 H; cbn [sys_exec] in H.
  - inversion H; subst. reflexivity.
  - destruct (sys_step c s l) as [[[s1 o1] w1]|] eqn:E1; [|apply (IH _ _ _ _ W I0 H)].
    destruct (sys_exec c s1 ls) as [[s3 o3] w3] eqn:E2. inversion H; subst. clear H.
    destruct (step_node _ _ _ _ _ _ n W E1) as (W1 & NS).
    destruct (ns_fin _ _ _ _ _ _ NS I0) as (I1 & A1 & SL).
    rewrite audible_app, decod_app, A1, (IH _ _ _ _ W1 I1 E2). f_equal.
    destruct (garbled n w1) eqn:G1; [rewrite (garbled_has_cut _ _ G1); reflexivity|].
    destruct (has_cut n w1) eqn:C1; [|reflexivity].
    pose proof (exec_silent _ _ _ _ _ _ _ W1 (SL eq_refl eq_refl) E2) as P3.
    rewrite decod_decodable, P3. reflexivity.
Qed.

(* ====================================================================================== *)
(* C04: the main theorem and its corollaries                                               *)
(* ====================================================================================== *)

(* what worker n produced before its first cut event (a garbled report, or workerfinished) =
   what the hook has seen tagged n ++ what waits in the controller's queue ++ what waits on
   n's wire and will still be heard; in every reachable state, written-off workers included *)
Theorem fifo_invariant : forall c ls n s o w,
  sys_exec c (sys_init c) ls = (s, o, w) ->
  audible n w = forwarded n o ++ in_evq n (y_evq s) ++ in_up_heard n s.
Proof.
  intros c ls n s o w H.
  destruct (exec_fifo c n ls _ _ _ _ (WF_init c) H) as (_ & E).
  destruct (init_nothing_in_flight c n) as (E1 & _ & E2 & E3). rewrite E1, E2, E3 in E. cbn [app] in E.
  symmetry. exact E.
Qed.
Print Assumptions fifo_invariant.

(* workerfinished is the last event of a worker, so the audible reports are exactly the reports
   produced before the first garbled one *)
Theorem fifo_audible_decodable : forall c ls n s o w,
  sys_exec c (sys_init c) ls = (s, o, w) -> audible n w = decodable (produced n w).
Proof.
  intros c ls n s o w H. rewrite <- decod_decodable.
  apply (exec_fin c n ls _ _ _ _ (WF_init c) (proj1 (SI_init c n)) H).
Qed.
Print Assumptions fifo_audible_decodable.

Theorem fifo_invariant_decodable : forall c ls n s o w,
  sys_exec c (sys_init c) ls = (s, o, w) ->
  decodable (produced n w) = forwarded n o ++ in_evq n (y_evq s) ++ in_up_heard n s.
Proof.
  intros c ls n s o w H. rewrite <- (fifo_audible_decodable _ _ _ _ _ _ H). exact (fifo_invariant _ _ _ _ _ _ H).
Qed.
Print Assumptions fifo_invariant_decodable.

(* a worker that has sent no garbled report so far: everything it produced is accounted for *)
Theorem fifo_invariant_not_written_off : forall c ls n s o w,
  sys_exec c (sys_init c) ls = (s, o, w) ->
  (forall i k, ~ In (i, k, Garbled) (produced n w)) ->
  produced n w = forwarded n o ++ in_evq n (y_evq s) ++ in_up n s.
Proof.
  intros c ls n s o w H G. apply garbled_produced in G.
  destruct (exec_full c n ls _ _ _ _ (WF_init c) (SI_init c n) H G) as ((_ & _ & S4) & P).
  destruct (init_nothing_in_flight c n) as (_ & _ & _ & E3). rewrite E3 in P.
  rewrite P, S4. exact (fifo_invariant _ _ _ _ _ _ H).
Qed.
Print Assumptions fifo_invariant_not_written_off.

(* the well-formedness invariant holds along every schedule *)
Theorem fifo_wf : forall c ls s o w, sys_exec c (sys_init c) ls = (s, o, w) -> WF s.
Proof.
  intros c ls s o w H. destruct (exec_fifo c 0 ls _ _ _ _ (WF_init c) H) as (W & _). exact W.
Qed.
Print Assumptions fifo_wf.

(* what the hook has seen is a prefix of what the worker produced: nothing is invented,
   duplicated or reordered -- also for a worker that was written off *)
Corollary fifo_prefix : forall c ls n s o w,
  sys_exec c (sys_init c) ls = (s, o, w) ->
  exists rest, produced n w = forwarded n o ++ rest.
Proof.
  intros c ls n s o w H. destruct (decodable_prefix (produced n w)) as (rest & E).
  rewrite (fifo_invariant_decodable _ _ _ _ _ _ H) in E.
  eexists. rewrite E at 1. rewrite <- !app_assoc. reflexivity.
Qed.
Print Assumptions fifo_prefix.

(* the j-th report forwarded for worker n is the j-th report worker n produced *)
Corollary fifo_nth : forall c ls n s o w j r,
  sys_exec c (sys_init c) ls = (s, o, w) ->
  nth_error (forwarded n o) j = Some r -> nth_error (produced n w) j = Some r.
Proof.
  intros c ls n s o w j r H Hj. destruct (fifo_prefix _ _ n _ _ _ H) as (rest & ->).
  rewrite nth_error_app1; [exact Hj|]. apply nth_error_Some. rewrite Hj. discriminate.
Qed.
Print Assumptions fifo_nth.

Corollary fifo_no_more_than_produced : forall c ls n s o w,
  sys_exec c (sys_init c) ls = (s, o, w) -> length (forwarded n o) <= length (produced n w).
Proof.
  intros c ls n s o w H. destruct (fifo_prefix _ _ n _ _ _ H) as (rest & ->). rewrite app_length. lia.
Qed.
Print Assumptions fifo_no_more_than_produced.

(* no garbled report is ever forwarded *)
Corollary fifo_no_garbled_forwarded : forall c ls n s o w,
  sys_exec c (sys_init c) ls = (s, o, w) -> forall i k, ~ In (i, k, Garbled) (forwarded n o).
Proof.
  intros c ls n s o w H i k Hin.
  assert (D : forall l, ~ In (i, k, Garbled) (decodable l)).
  { induction l as [|[[i' k'] oc] l IH]; [intros []|]. destruct oc; cbn [decodable]; try (intros [E|X]; [discriminate|exact (IH X)]). intros []. }
  apply (D (produced n w)). rewrite (fifo_invariant_decodable _ _ _ _ _ _ H). apply in_or_app. left. exact Hin.
Qed.
Print Assumptions fifo_no_garbled_forwarded.

(* nothing of worker n in flight and no garbled report sent by it: the hook has seen exactly what
   the worker produced *)
Corollary fifo_complete : forall c ls n s o w,
  sys_exec c (sys_init c) ls = (s, o, w) ->
  (forall i k, ~ In (i, k, Garbled) (produced n w)) ->
  in_evq n (y_evq s) = [] -> in_up n s = [] ->
  forwarded n o = produced n w.
Proof.
  intros c ls n s o w H G E1 E2. rewrite (fifo_invariant_not_written_off _ _ _ _ _ _ H G), E1, E2, app_nil_r. reflexivity.
Qed.
Print Assumptions fifo_complete.

(* in general: nothing in the queue and nothing left to hear -- in particular once the worker is
   down -- the hook has seen exactly the reports produced before the first garbled one *)
Corollary fifo_complete_decodable : forall c ls n s o w,
  sys_exec c (sys_init c) ls = (s, o, w) ->
  in_evq n (y_evq s) = [] -> in_up_heard n s = [] ->
  forwarded n o = decodable (produced n w).
Proof.
  intros c ls n s o w H E1 E2. rewrite (fifo_invariant_decodable _ _ _ _ _ _ H), E1, E2, app_nil_r. reflexivity.
Qed.
Print Assumptions fifo_complete_decodable.

Corollary fifo_down_nothing_heard : forall n s, sdn n s = true -> in_up_heard n s = [].
Proof. intros n s H. unfold in_up_heard. rewrite H. reflexivity. Qed.

(* extending the schedule only extends what was forwarded and what was produced *)
Lemma sys_exec_app c ls1 : forall ls2 s,
  sys_exec c s (ls1 ++ ls2) =
  let '(s1, o1, w1) := sys_exec c s ls1 in
  let '(s2, o2, w2) := sys_exec c s1 ls2 in (s2, o1 ++ o2, w1 ++ w2).
Proof.
  induction ls1 as [|l ls1 IH]; intros ls2 s; cbn [app sys_exec].
  - destruct (sys_exec c s ls2) as [[s2 o2] w2]. reflexivity.
  - destruct (sys_step c s l) as [[[s' o'] w']|]; [|apply IH].
    rewrite IH. destruct (sys_exec c s' ls1) as [[s1 o1] w1].
    destruct (sys_exec c s1 ls2) as [[s2 o2] w2]. rewrite !app_assoc. reflexivity.
Qed.

Corollary fifo_monotone : forall c ls1 ls2 n s1 o1 w1 s2 o2 w2,
  sys_exec c (sys_init c) ls1 = (s1, o1, w1) ->
  sys_exec c (sys_init c) (ls1 ++ ls2) = (s2, o2, w2) ->
  (exists more, forwarded n o2 = forwarded n o1 ++ more) /\
  (exists more, produced n w2 = produced n w1 ++ more).
Proof.
  intros c ls1 ls2 n s1 o1 w1 s2 o2 w2 H1 H2. rewrite sys_exec_app, H1 in H2.
  destruct (sys_exec c s1 ls2) as [[s3 o3] w3]. inversion H2; subst.
  split; eexists; [apply forwarded_app|apply produced_app].
Qed.
Print Assumptions fifo_monotone.

(* ====================================================================================== *)
(* Non-vacuity: concrete sessions, evaluated                                               *)
(* ====================================================================================== *)
Definition ex_oracle : oracle :=
  {| reports_of := fun i => match i with 0 => [Passed; Failed] | _ => [Skipped] end;
     stops_after := fun _ => false; ncollected := 2; coll_reports := [] |}.

Definition ex_cfg (nodes requeue : nat) (crash : nat -> nat -> bool) : config :=
  {| c_mode := MLoad; c_numnodes := nodes; c_chunk := None; c_maxfail := 0%Z; c_max_restart := Some 4%Z;
     c_requeue := requeue; c_coll := fun _ => ["a"; "b"]%string; c_oracle := fun _ => ex_oracle;
     c_dur := fun _ => 0%Z; c_crash_in := crash; c_strict := false; c_spec := fun _ => 0 |}.

Fixpoint rounds (k : nat) (round : list label) : list label :=
  match k with 0 => [] | S k => round ++ rounds k round end.

Definition round1 : list label := [LMain 0; LRecvW 0; LDeliver 0; LRecv 0; LCtl].
Definition round2 : list label :=
  [LMain 0; LMain 1; LRecvW 0; LRecvW 1; LDeliver 0; LDeliver 1; LRecv 0; LRecv 1; LCtl].
Definition round3 : list label :=
  [LMain 0; LMain 1; LMain 2; LRecvW 0; LRecvW 1; LRecvW 2; LDeliver 0; LDeliver 1; LDeliver 2;
   LRecv 0; LRecv 1; LRecv 2; LCtl].

(* forwarded, produced, waiting in the controller queue, waiting on the wire, session result *)
Definition view (c : config) (ls : list label) (n : nat) :=
  let '(s, o, w) := sys_exec c (sys_init c) ls in
  (forwarded n o, produced n w, in_evq n (y_evq s), in_up n s, y_result s).

(* one worker, two tests, run to the end: three reports travel from the worker to the hook *)
Example ex_complete :
  view (ex_cfg 1 0 (fun _ _ => false)) (rounds 40 round1) 0 =
  ([(0, 0, Passed); (0, 1, Failed); (1, 0, Skipped)],
   [(0, 0, Passed); (0, 1, Failed); (1, 0, Skipped)], [], [], Some RFinished).
Proof. vm_compute. reflexivity. Qed.

(* the worker runs ahead of the controller: one report forwarded, one in the controller's
   queue, one still on the wire *)
Example ex_in_flight :
  view (ex_cfg 1 0 (fun _ _ => false))
       (rounds 7 round1 ++ rounds 8 [LMain 0; LRecvW 0] ++ rounds 3 [LRecv 0] ++ rounds 2 [LCtl]) 0 =
  ([(0, 0, Passed)],
   [(0, 0, Passed); (0, 1, Failed); (1, 0, Skipped)], [(0, 1, Failed)], [(1, 0, Skipped)], None).
Proof. vm_compute. reflexivity. Qed.

(* two workers; worker 1 dies entering test 1, the item is re-queued, replacement worker 2 is
   spawned, runs it, and its report arrives tagged 2 *)
Definition crash1 (n i : nat) : bool := Nat.eqb n 1 && Nat.eqb i 1.
Example ex_replacement :
  let c := ex_cfg 2 1 crash1 in
  let ls := rounds 80 round3 in
  view c ls 0 = ([(0, 0, Passed); (0, 1, Failed)], [(0, 0, Passed); (0, 1, Failed)], [], [], Some RFinished) /\
  view c ls 1 = ([], [], [], [], Some RFinished) /\
  view c ls 2 = ([(1, 0, Skipped)], [(1, 0, Skipped)], [], [], Some RFinished) /\
  (let '(s, o, _) := sys_exec c (sys_init c) ls in (count is_spawn o, d_next_gw (y_d s))) = (1, 3).
Proof. vm_compute. repeat split; reflexivity. Qed.

(* ---- an undecodable report: the worker is written off ---- *)
(* worker 0 sends a garbled second report for test 0; the other workers behave *)
Definition gb_oracle : oracle :=
  {| reports_of := fun i => match i with 0 => [Passed; Garbled; Failed] | _ => [Skipped] end;
     stops_after := fun _ => false; ncollected := 2; coll_reports := [] |}.
Definition gb_cfg (requeue : nat) : config :=
  {| c_mode := MLoad; c_numnodes := 1; c_chunk := None; c_maxfail := 0%Z; c_max_restart := Some 4%Z;
     c_requeue := requeue; c_coll := fun _ => ["a"; "b"]%string;
     c_oracle := fun n => match n with 0 => gb_oracle | _ => ex_oracle end;
     c_dur := fun _ => 0%Z; c_crash_in := fun _ _ => false; c_strict := false; c_spec := fun _ => 0 |}.

(* forwarded, produced, produced before the first garbled report, in the controller's queue,
   on the wire, on the wire and still to be heard, down flag, session result *)
Definition view2 (c : config) (ls : list label) (n : nat) :=
  let '(s, o, w) := sys_exec c (sys_init c) ls in
  (forwarded n o, produced n w, decodable (produced n w), in_evq n (y_evq s), in_up n s, in_up_heard n s,
   sdn n s, y_result s).

Definition c04_marks (o : list out) : list out :=
  filter (fun x => match x with
                   | OHook (HReport _ _ _ _) | OHook (HCrashReport _ _) | OHook (HSpawn _ _)
                   | OHook (HNodeDown _ _) => true
                   | _ => false end) o.

(* the worker ran ahead; the undecodable message is still on the wire: the report behind it is on
   the wire (in_up) but will not be heard (in_up_heard) *)
Example ex_garbled_in_flight :
  view2 (gb_cfg 0) (rounds 7 round1 ++ rounds 8 [LMain 0; LRecvW 0]) 0 =
  ([], [(0, 0, Passed); (0, 1, Garbled); (0, 2, Failed)], [(0, 0, Passed)],
   [], [(0, 0, Passed); (0, 2, Failed)], [(0, 0, Passed)], false, None).
Proof. vm_compute. reflexivity. Qed.

(* the session run to its end: worker 0 is written off at its garbled report (crash report for
   test "a", replacement worker 1 spawned); the living worker 0 goes on and even runs test 1, but
   none of its later reports is forwarded; what was forwarded for it is the prefix before the
   garbled report. The replacement runs test 1 and its report arrives tagged 1. *)
Example ex_garbled_written_off :
  let c := gb_cfg 0 in
  let ls := rounds 60 round2 in
  view2 c ls 0 =
    ([(0, 0, Passed)], [(0, 0, Passed); (0, 1, Garbled); (0, 2, Failed); (1, 0, Skipped)], [(0, 0, Passed)],
     [], [], [], true, Some RFinished) /\
  view2 c ls 1 = ([(1, 0, Skipped)], [(1, 0, Skipped)], [(1, 0, Skipped)], [], [], [], true, Some RFinished) /\
  (let '(_, o, _) := sys_exec c (sys_init c) ls in c04_marks o) =
    [OHook (HReport 0 0 0 Passed); OHook (HNodeDown 0 true); OHook (HCrashReport "a" 0); OHook (HSpawn 1 0);
     OHook (HReport 1 1 0 Skipped); OHook (HNodeDown 1 false)].
Proof. vm_compute. repeat split; reflexivity. Qed.

(* the theorems apply to this run: the equation of fifo_invariant_decodable, instantiated *)
Example ex_garbled_theorem :
  let c := gb_cfg 0 in
  let ls := rounds 7 round1 ++ rounds 8 [LMain 0; LRecvW 0] ++ [LRecv 0; LRecv 0] in
  let '(s, o, w) := sys_exec c (sys_init c) ls in
  decodable (produced 0 w) = forwarded 0 o ++ in_evq 0 (y_evq s) ++ in_up_heard 0 s /\
  in_evq 0 (y_evq s) = [(0, 0, Passed)] /\ in_up 0 s = [(0, 2, Failed)] /\ in_up_heard 0 s = [].
Proof.
  cbv zeta.
  destruct (sys_exec (gb_cfg 0) (sys_init (gb_cfg 0))
             (rounds 7 round1 ++ rounds 8 [LMain 0; LRecvW 0] ++ [LRecv 0; LRecv 0])) as [[s o] w] eqn:E.
  split; [exact (fifo_invariant_decodable _ _ 0 _ _ _ E)|].
  vm_compute in E. inversion E; subst. vm_compute. repeat split; reflexivity.
Qed.

Print Assumptions s_step_keys.
Print Assumptions step_fifo.
Print Assumptions exec_fifo.
Print Assumptions exec_full.
Print Assumptions ex_garbled_theorem.
