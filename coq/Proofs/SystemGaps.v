(* SystemGaps.v — gap 1 of SystemCorollaries*.v closed: C16, "nothing after the shutdown", for
   EVERY mode, every schedule, crashes included.

   SystemCorollaries.sys_nothing_after_shutdown_except_schedule left one exception: the controller
   turn that handles a collectionfinish while the session is not shutting down, the only place
   where schedule() runs.  It is closed per mode by a reachable-state invariant:

     worksteal   nothing to show: every send of WorkStealingScheduling goes through the guarded
                 check_schedule (ShutdownOnce.guard_hyp is True); no hypothesis at all
     load        SystemCorollariesLoad.load_command_stream (coupling invariant XInv)
     scope family, each
                 the invariant GI of SystemGapsD.v: when schedule() performs the (initial)
                 distribution no registered node has been told to shut down (scope), resp. every
                 registered node that has been told is already in _started (each); the proof
                 needs that a worker reports in only once (workerready token) and, because the
                 receiver thread flags a written-off worker, no undecodable report (no_garbled c).

   Main theorems:
     steal_command_stream   worksteal, no hypothesis
     ce_command_stream      loadscope / loadfile / loadgroup / each: no_garbled c, 0 < c_numnodes c
     sys_command_stream     all six modes: no_garbled c, 0 < c_numnodes c
     sys_no_command_after_shutdown   the same between two points of a session

   The ordered guard used here (the commands one controller move puts on a worker's channel are a
   legal continuation of its command stream) is proved in SystemGapsA.v; the scheduler-level and
   controller-level invariants in SystemGapsB.v / SystemGapsC.v; the system invariant (tokens, no
   undecodable message) in SystemGapsD.v. *)
From XV Require Import Base Worker Ctl SchedLoad SchedSteal SchedScope SchedEach Sched DSession System NoHook
  DSessionProofs ShutdownOnce StopProofs FifoProofs ExactlyOnce SystemCorollaries SystemCorollariesLoad
  SystemGapsA SystemGapsB SystemGapsC SystemGapsD.
Open Scope nat_scope.

(* ====================================================================================== *)
(* from a step invariant to the command streams of a whole run                             *)
(* ====================================================================================== *)
Lemma OGD_stream d d' o : OGD d d' o -> fresh d -> fresh d' /\ stream_rel d d' o.
Proof.
  intros G F. destruct (G F) as (F' & S & W). split; [exact F'|]. intros m. split; [apply W|].
  destruct (S m) as (S1 & S2 & S3). intros [Fm|Hin]; [exact (proj1 (S1 Fm))|].
  apply sd_count_in in Hin. assert (E : sd_count m o = 1) by lia. exact (proj2 (S3 E)).
Qed.

Section Assemble.
  Variable c : config.
  Variable Inv : sys -> Prop.
  Hypothesis Inv_step : forall s l s' o w,
    Inv s -> sys_step c s l = Some (s', o, w) ->
    OGD (y_d s) (y_d s') o /\ (y_result s' = None -> Inv s').

  Lemma exec_stream_gen ls : forall s s' o w,
    Inv s \/ y_result s <> None -> fresh (y_d s) ->
    sys_exec c s ls = (s', o, w) -> stream_rel (y_d s) (y_d s') o.
  Proof.
    induction ls as [|l ls IH]; intros s s' o w HX F H; cbn [sys_exec] in H.
    - inversion H; subst. apply stream_rel_refl.
    - destruct (sys_step c s l) as [[[s1 o1] w1]|] eqn:E; [|eapply IH; eassumption].
      destruct (sys_exec c s1 ls) as [[s2 o2] w2] eqn:E2. inversion H; subst.
      destruct HX as [X|Hr]; [|unfold sys_step in E; destruct (y_result s); [discriminate|contradiction]].
      destruct (Inv_step _ _ _ _ _ X E) as (G & X1).
      destruct (OGD_stream _ _ _ G F) as (F1 & S1).
      eapply stream_rel_trans; [exact S1|]. eapply IH; [|exact F1|exact E2].
      destruct (y_result s1) eqn:Er; [right; discriminate|left; apply X1; reflexivity].
  Qed.

  Theorem command_stream_gen ls s outs wevs :
    Inv (sys_init c) -> sys_exec c (sys_init c) ls = (s, outs, wevs) ->
    forall n a b, cmds_to n outs = a ++ CShutdown :: b -> b = [] /\ ~ In CShutdown a.
  Proof.
    intros I0 H n a b E.
    pose proof (exec_stream_gen ls _ _ _ _ (or_introl I0) (fresh_init c) H n) as (A & _).
    rewrite flag_init in A. exact (sd_ok_spec _ A a b E).
  Qed.
End Assemble.

(* ====================================================================================== *)
(* scope family and each                                                                   *)
(* ====================================================================================== *)
Theorem ce_command_stream c ls s outs wevs :
  no_garbled c -> ((exists k, c_mode c = MScope k) \/ c_mode c = MEach) -> 0 < c_numnodes c ->
  sys_exec c (sys_init c) ls = (s, outs, wevs) ->
  forall n a b, cmds_to n outs = a ++ CShutdown :: b -> b = [] /\ ~ In CShutdown a.
Proof.
  intros Hng Hmode Hpos. apply (command_stream_gen c (GI c)).
  - intros s0 l s' o w G E. split.
    + destruct G as (_ & HD & _). exact (step_OGD c _ _ _ _ _ HD E).
    + intros Hr. exact (GI_step c Hng _ _ _ _ _ G E Hr).
  - exact (GI_init c Hmode Hpos).
Qed.
Print Assumptions ce_command_stream.

(* the invariant itself, for every reachable state of a session that has not ended: the system
   invariant GI; in particular, while the session is not shutting down the guard of schedule()
   holds -- scope family: before the initial distribution no registered node has been told to shut
   down (and registered nodes are distinct); each: every registered node that has been told to
   shut down is in _started *)
Lemma GI_exec c (Hng : no_garbled c) ls : forall s s' o w,
  GI c s -> sys_exec c s ls = (s', o, w) -> y_result s' = None -> GI c s'.
Proof.
  induction ls as [|l ls IH]; intros s s' o w G H Hr; cbn [sys_exec] in H; [inversion H; subst; exact G|].
  destruct (sys_step c s l) as [[[s1 o1] w1]|] eqn:E; [|eapply IH; eassumption].
  destruct (sys_exec c s1 ls) as [[s2 o2] w2] eqn:E2. inversion H; subst.
  destruct (y_result s1) eqn:Er.
  - rewrite (sys_exec_done c ls s1) in E2 by (rewrite Er; discriminate). inversion E2; subst. congruence.
  - eapply IH; [exact (GI_step c Hng _ _ _ _ _ G E Er)|exact E2|exact Hr].
Qed.

Theorem ce_reachable_invariant c ls s outs wevs :
  no_garbled c -> ((exists k, c_mode c = MScope k) \/ c_mode c = MEach) -> 0 < c_numnodes c ->
  sys_exec c (sys_init c) ls = (s, outs, wevs) -> y_result s = None ->
  DI (y_d s) /\
  (d_shuttingdown (y_d s) = false -> guard_hyp (d_sched (y_d s))) /\
  (forall n, In (QReady n) (y_evq s) ->
     flag (d_nt (y_d s)) n = false /\ ~ In n (s_nodes (d_sched (y_d s)))).
Proof.
  intros Hng Hmode Hpos H Hr.
  destruct (GI_exec c Hng _ _ _ _ _ (GI_init c Hmode Hpos) H Hr) as (_ & HD & _ & (T1 & _)).
  split; [exact HD|]. split.
  - intros Hsd. destruct HD as ((S1 & S2 & _) & LS & GL).
    apply guard_hyp_of; [exact S2|exact S1|].
    destruct GL as [G|L]; [exact G|]. rewrite (LS L) in Hsd. discriminate.
  - intros n Hin. destruct (T1 n) as (_ & B).
    assert (NC : ~ consd (y_d s) n).
    { intros K. specialize (B K). unfold rtok in B. pose proof (cq_in _ _ Hin). lia. }
    split; [|intros K; apply NC; right; exact K].
    destruct (flag (d_nt (y_d s)) n) eqn:F; [|reflexivity]. exfalso. apply NC. left. exact F.
Qed.
Print Assumptions ce_reachable_invariant.

(* ====================================================================================== *)
(* worksteal: no hypothesis                                                                *)
(* ====================================================================================== *)
Definition KR (d d' : dstate) (o : list out) : Prop := same_kind (d_sched d) (d_sched d').
Lemma KR_refl : rrefl KR. Proof. intros d. apply same_kind_refl. Qed.
Lemma KR_trans : rtrans KR. Proof. intros a b x o1 o2. apply same_kind_trans. Qed.
#[local] Hint Resolve KR_refl KR_trans : sdrel.

Lemma kr_sched_op op d0 : from KR d0 (d_sched_op op).
Proof.
  intros d' o r H. unfold d_sched_op in H. destruct (s_step (d_sched d0) op) as [[st o1] r1] eqn:E.
  inversion H; subst. unfold KR. cbn [d_sched d_set_sched]. eapply s_step_kind; exact E.
Qed.
Lemma kr_node_shutdown n d0 : from KR d0 (d_node_shutdown n).
Proof.
  intros d' o r H. destruct (node_shutdown_frame _ _ _ _ _ _ _ H) as [->|(v & ->)]; [apply KR_refl|].
  unfold KR, d_set_nt. cbn [d_sched d_set_sched]. apply same_kind_set_nt.
Qed.

Ltac kr_rel := unfold KR; cbn; first [apply same_kind_refl | apply same_kind_set_nt].
Create HintDb krdb.
#[local] Hint Resolve kr_sched_op kr_node_shutdown : krdb.
Ltac kr1 :=
  first
    [ apply f_ret; rr | apply f_raise; rr | apply f_massert; rr | apply f_of_opt; rr
    | apply f_getv; rr
    | apply f_put; kr_rel
    | apply f_emit; kr_rel
    | apply f_mfor; [rr | rr | intros ? ?]
    | match goal with
      | |- from _ _ (mbind get _) => apply f_get
      | |- from _ _ (mbind (ret _) _) => apply f_ret_bind
      | |- from _ _ (mbind (of_opt _ _) _) => apply f_of_opt_bind; [rr | intros ? ?]
      | |- from _ _ (mbind (massert _) _) => apply f_massert_bind; [rr | intros ?]
      | |- from _ _ (mbind _ _) => apply f_bind; [rr | | intros ? ?]
      end
    | progress cbv zeta
    | match goal with
      | |- from _ _ (match ?x with _ => _ end) => destruct x eqn:?
      | |- from _ _ (let '(_, _) := ?x in _) => destruct x eqn:?
      end
    | solve [eauto with krdb] ].
Ltac kr := repeat kr1.

Lemma kr_triggershutdown d0 : from KR d0 d_triggershutdown.
Proof. unfold d_triggershutdown. kr. Qed.
#[local] Hint Resolve kr_triggershutdown : krdb.
Lemma kr_active_remove n d0 : from KR d0 (d_active_remove n).
Proof. unfold d_active_remove. kr. Qed.
#[local] Hint Resolve kr_active_remove : krdb.
Lemma kr_handlefailures f d0 : from KR d0 (d_handlefailures f).
Proof. unfold d_handlefailures. kr. Qed.
#[local] Hint Resolve kr_handlefailures : krdb.
Lemma kr_handle_crashitem item n d0 : from KR d0 (d_handle_crashitem item n).
Proof. unfold d_handle_crashitem, hook. kr. Qed.
#[local] Hint Resolve kr_handle_crashitem : krdb.
Lemma kr_clone n d0 : from KR d0 (d_clone_node n).
Proof. unfold d_clone_node, hook. kr. Qed.
#[local] Hint Resolve kr_clone : krdb.
Lemma kr_try_block n d0 : from KR d0 (try_block n).
Proof.
  intros d' o r H. unfold try_block in H.
  destruct (d_sched_op (SRemove n) d0) as [[d1 o1] r1] eqn:E1.
  pose proof (kr_sched_op _ d0 _ _ _ E1) as R1.
  destruct r1 as [[item|]|e].
  - destruct (d_handle_crashitem item n d1) as [[d2 o2] r2] eqn:E2. inversion H; subst.
    eapply KR_trans; [exact R1|exact (kr_handle_crashitem _ _ _ _ _ _ E2)].
  - inversion H; subst. exact R1.
  - destruct e; inversion H; subst; exact R1.
Qed.
#[local] Hint Resolve kr_try_block : krdb.
Lemma kr_errordown n d0 : from KR d0 (d_worker_errordown n).
Proof. rewrite errordown_unfold. unfold hook. kr. Qed.
#[local] Hint Resolve kr_errordown : krdb.
Lemma kr_handle ev d0 : from KR d0 (d_handle ev).
Proof.
  destruct ev as [n|n ids|n key fl|n i|n i|n i k oc|n i ms|n ixs| |n|n sk|n]; cbn [d_handle]; unfold hook; try (kr; fail).
  unfold d_worker_workerfinished, hook. destruct sk; kr.
Qed.
#[local] Hint Resolve kr_handle : krdb.
Lemma kr_loop_once ev d0 : from KR d0 (d_loop_once ev).
Proof. unfold d_loop_once. kr. Qed.
Lemma kr_no_active d0 : from KR d0 d_no_active.
Proof. unfold d_no_active. kr. Qed.
Lemma kr_process_from_remote n m d0 : from KR d0 (process_from_remote n m).
Proof.
  unfold process_from_remote. apply f_get. apply f_of_opt_bind; [rr|]. intros f Hf. cbv zeta.
  destruct m as [e|ids|sk|i ms|[|]| | |]; try destruct e; kr.
Qed.

(* the scheduler kind never changes *)
Lemma cmove_KR k d d' o : cmove k d d' o -> KR d d' o.
Proof.
  intros [ev d0 d1 o1 r H|d0 d1 o1 r H|n m d0 d1 o1 r H|n f d0 Hf].
  - exact (kr_loop_once ev d0 _ _ _ H).
  - exact (kr_no_active d0 _ _ _ H).
  - exact (kr_process_from_remote n m d0 _ _ _ H).
  - unfold KR, d_set_nt. cbn [d_sched d_set_sched]. apply same_kind_set_nt.
Qed.

Definition is_steal (d : dstate) : Prop := match d_sched d with StW _ => True | _ => False end.

Lemma is_steal_kind d d' : same_kind (d_sched d) (d_sched d') -> is_steal d -> is_steal d'.
Proof. unfold is_steal. destruct (d_sched d), (d_sched d'); cbn; auto. Qed.

(* every controller move of a worksteal session satisfies the ordered guard *)
Lemma cmove_steal k d d' o : cmove k d d' o -> is_steal d -> OGD d d' o /\ (k = true -> is_steal d').
Proof.
  intros M St. split; [|intros _; exact (is_steal_kind _ _ (cmove_KR _ _ _ _ M) St)].
  destruct M as [ev d0 d1 o1 r H|d0 d1 o1 r H|n m d0 d1 o1 r H|n f d0 Hf].
  - destruct (calls_schedule ev) eqn:Ec; [|exact (ogd_loop_once_noschedule ev d0 Ec _ _ _ H)].
    destruct ev; try discriminate. refine (ogd_collfinish_guarded n ids d0 _ _ _ _ H).
    intros d2 o2 r2 E2. pose proof (is_steal_kind _ _ (kr_sched_op _ d0 _ _ _ E2) St) as St2.
    unfold is_steal in St2. destruct (d_sched d2); try contradiction. exact I.
  - exact (OGK_OGD _ _ _ (ogk_no_active d0 _ _ _ H)).
  - exact (OGK_OGD _ _ _ (ogk_process_from_remote n m d0 _ _ _ H)).
  - apply OGK_OGD. split; [|reflexivity]. apply og_rel_nil. rewrite d_nt_set.
    eapply nt_rel_keep; [exact Hf|reflexivity].
Qed.

Lemma steal_step c s l s' o w :
  is_steal (y_d s) -> sys_step c s l = Some (s', o, w) ->
  OGD (y_d s) (y_d s') o /\ (y_result s' = None -> is_steal (y_d s')).
Proof.
  intros St H. destruct (sys_step_ctrace _ _ _ _ _ _ H) as (k & T & F & _).
  destruct (ctrace_lift_pre is_steal OGD OGD_refl OGD_trans cmove_steal _ _ _ _ T St) as (G & P).
  split; [exact G|]. intros Hr. destruct k; [apply P; reflexivity|].
  destruct (F eq_refl) as (e & He). rewrite He in Hr. discriminate.
Qed.

Theorem steal_command_stream c ls s outs wevs :
  c_mode c = MSteal -> sys_exec c (sys_init c) ls = (s, outs, wevs) ->
  forall n a b, cmds_to n outs = a ++ CShutdown :: b -> b = [] /\ ~ In CShutdown a.
Proof.
  intros Hmode. apply (command_stream_gen c (fun s0 => is_steal (y_d s0))).
  - intros s0 l s' o w. apply steal_step.
  - unfold is_steal. cbn [sys_init y_d d_sched]. rewrite Hmode. exact I.
Qed.
Print Assumptions steal_command_stream.

(* ====================================================================================== *)
(* all modes                                                                               *)
(* ====================================================================================== *)
(* C16, second half, for every mode: in the command stream of every worker nothing follows the
   shutdown command (and there is only one) *)
Theorem sys_command_stream c ls s outs wevs :
  no_garbled c -> 0 < c_numnodes c ->
  sys_exec c (sys_init c) ls = (s, outs, wevs) ->
  forall n a b, cmds_to n outs = a ++ CShutdown :: b -> b = [] /\ ~ In CShutdown a.
Proof.
  intros Hng Hpos H. destruct (c_mode c) as [| |k|] eqn:Em.
  - exact (load_command_stream c Hng Hpos _ _ _ _ Em H).
  - exact (steal_command_stream c _ _ _ _ Em H).
  - exact (ce_command_stream c _ _ _ _ Hng (or_introl (ex_intro _ k Em)) Hpos H).
  - exact (ce_command_stream c _ _ _ _ Hng (or_intror Em) Hpos H).
Qed.
Print Assumptions sys_command_stream.


(* ====================================================================================== *)
(* no initial worker at all: nothing is ever sent; so 0 < c_numnodes c can be dropped      *)
(* ====================================================================================== *)
Lemma no_nodes_step c l :
  c_numnodes c = 0 ->
  sys_step c (sys_init c) l = None \/
  exists s', sys_step c (sys_init c) l = Some (s', [], []) /\ y_result s' <> None.
Proof.
  intros H0.
  assert (Ew : y_w (sys_init c) = []) by (cbn [sys_init y_w]; rewrite H0; reflexivity).
  assert (Eu : y_up (sys_init c) = []) by (cbn [sys_init y_up]; rewrite H0; reflexivity).
  assert (Ed : y_down (sys_init c) = []) by (cbn [sys_init y_down]; rewrite H0; reflexivity).
  assert (Ea : d_active (y_d (sys_init c)) = []) by (cbn [sys_init y_d d_active]; rewrite H0; reflexivity).
  unfold sys_step. change (y_result (sys_init c)) with (@None result_kind). cbv iota.
  destruct l as [n|n|n|n| |n].
  - left. change (y_dead (sys_init c)) with (@nil nat). cbn [mem_nat existsb]. rewrite Ed. reflexivity.
  - left. change (y_dead (sys_init c)) with (@nil nat). cbn [mem_nat existsb]. rewrite Ew. reflexivity.
  - left. change (y_dead (sys_init c)) with (@nil nat). cbn [mem_nat existsb]. rewrite Ew. reflexivity.
  - left. rewrite Eu. reflexivity.
  - right. rewrite Ea.
    rewrite (CrashTheorems.trigger_no_nodes (y_d (sys_init c)) eq_refl (s_nodes_init c)).
    eexists. split; [reflexivity|]. cbn. discriminate.
  - left. change (y_dead (sys_init c)) with (@nil nat). cbn [mem_nat existsb]. rewrite Ew. reflexivity.
Qed.

Lemma no_nodes_no_output c : c_numnodes c = 0 ->
  forall ls s o w, sys_exec c (sys_init c) ls = (s, o, w) -> o = [].
Proof.
  intros H0. induction ls as [|l ls IH]; intros s o w H; cbn [sys_exec] in H; [inversion H; reflexivity|].
  destruct (no_nodes_step c l H0) as [E|(s' & E & Hr)]; rewrite E in H; [exact (IH _ _ _ H)|].
  rewrite (sys_exec_done c ls s' Hr) in H. inversion H. reflexivity.
Qed.

(* C16, second half, for every mode, every configuration without undecodable reports *)
Theorem sys_command_stream_all c ls s outs wevs :
  no_garbled c ->
  sys_exec c (sys_init c) ls = (s, outs, wevs) ->
  forall n a b, cmds_to n outs = a ++ CShutdown :: b -> b = [] /\ ~ In CShutdown a.
Proof.
  intros Hng H n a b E. destruct (c_numnodes c) as [|k] eqn:En.
  - rewrite (no_nodes_no_output c En _ _ _ _ H) in E. destruct a; discriminate.
  - refine (sys_command_stream c _ _ _ _ Hng _ H n a b E). lia.
Qed.
Print Assumptions sys_command_stream_all.

(* between any two points of a session: once the shutdown command of a worker is out, no later
   step sends it anything *)
Theorem sys_no_command_after_shutdown c ls1 ls2 s1 o1 w1 s2 o2 w2 n :
  no_garbled c ->
  sys_exec c (sys_init c) ls1 = (s1, o1, w1) -> sys_exec c s1 ls2 = (s2, o2, w2) ->
  In CShutdown (cmds_to n o1) -> cmds_to n o2 = [].
Proof.
  intros Hng H1 H2 Hin.
  assert (H : sys_exec c (sys_init c) (ls1 ++ ls2) = (s2, o1 ++ o2, w1 ++ w2)).
  { rewrite sys_exec_app, H1, H2. reflexivity. }
  apply in_split in Hin. destruct Hin as (a & b & E).
  assert (E' : cmds_to n (o1 ++ o2) = a ++ CShutdown :: (b ++ cmds_to n o2)).
  { rewrite Coupling.cmds_to_app, E, <- app_assoc. reflexivity. }
  destruct (sys_command_stream_all _ _ _ _ _ Hng H n a _ E') as (Z & _).
  apply app_eq_nil in Z. exact (proj2 Z).
Qed.
Print Assumptions sys_no_command_after_shutdown.

(* ====================================================================================== *)
(* Non-vacuity: sessions with crashes and replacements in each, loadfile and worksteal      *)
(* (two initial workers, six tests; worker 1 dies entering test 3, its replacement 2 dies   *)
(* entering test 4, the next replacement 3 finishes)                                        *)
(* ====================================================================================== *)
Definition g1_streams (c : config) (ls : list label) :=
  let '(s, o, _) := sys_exec c (sys_init c) ls in (y_result s, map (fun n => cmds_to n o) [0; 1; 2; 3]).

Example g1_each_eval :
  g1_streams (xc_cfg MEach (Some 4%Z) 0%Z 0 xc_crash) (rounds 80 xc_round) =
  (Some RFinished, [[CRunAll; CShutdown]; [CRunAll; CShutdown]; [CRun [4; 5]]; [CRun [5]; CShutdown]]).
Proof. vm_compute. reflexivity. Qed.
Example g1_file_eval :
  g1_streams (xc_cfg (MScope KFile) (Some 4%Z) 0%Z 0 xc_crash) (rounds 80 xc_round) =
  (Some RFinished, [[CRun [0]; CRun [2]; CRun [5]; CRun [4]; CShutdown]; [CRun [1]; CRun [3]; CRun [4]]; [CShutdown]; []]).
Proof. vm_compute. reflexivity. Qed.
Example g1_steal_eval :
  g1_streams (xc_cfg MSteal (Some 4%Z) 0%Z 0 xc_crash) (rounds 80 xc_round) =
  (Some RFinished, [[CRun [0; 1; 2]; CShutdown]; [CRun [3; 4; 5]]; [CRun [4; 5]]; [CRun [5]; CShutdown]]).
Proof. vm_compute. reflexivity. Qed.

(* the theorem, instantiated on these sessions (any mode) *)
Example g1_theorem_applies m :
  let c := xc_cfg m (Some 4%Z) 0%Z 0 xc_crash in
  let '(s, o, w) := sys_exec c (sys_init c) (rounds 80 xc_round) in
  forall n a b, cmds_to n o = a ++ CShutdown :: b -> b = [] /\ ~ In CShutdown a.
Proof.
  cbv zeta.
  destruct (sys_exec (xc_cfg m (Some 4%Z) 0%Z 0 xc_crash) (sys_init (xc_cfg m (Some 4%Z) 0%Z 0 xc_crash))
              (rounds 80 xc_round)) as [[s o] w] eqn:E.
  exact (sys_command_stream_all _ _ _ _ _ (xc_no_garbled _ _ _ _ _) E).
Qed.
Print Assumptions g1_theorem_applies.

Check steal_command_stream.
Check ce_reachable_invariant.
Check ce_command_stream.
Check sys_command_stream.
Check sys_command_stream_all.
Check sys_no_command_after_shutdown.
