(* CrashProgressSteal.v -- property C02 ("the distributed session always terminates"), the no-stand-off half,
   for --dist worksteal WITH worker failures.

   Main theorem (steal_crash_c02_no_deadlock_useful): in EVERY state of Model/System.v reachable by ANY schedule
   (crash labels LCrash allowed at any moment, any c_crash_in, any restart budget -- None included --, c_strict
   or not, --maxfail, stop requests of the workers' own sessions, workers -- replacements included --
   collecting different lists) in which the session has not ended, some component can make a USEFUL NON-CRASH
   move (Progress.useful: not an idle turn of a worker's receiver thread): the controller's receiver thread has
   a message or an end marker to read, the controller's main loop has an event to handle, a command can be
   delivered, a worker's receiver thread has something to unpack or a reply to send, or a worker's main thread
   is not blocked.
   Hypotheses: c_mode c = MSteal, no_garbled c, 0 < c_numnodes c, rq_ok c (the hypothesis of the invariant XW of
   CrashStealTheorems.v: no plugin re-queues crash items, or the collections are duplicate-free).  Nothing
   else; in particular NOT "all workers collect the same list": a disagreeing replacement is shut down, and
   if it was the last worker the documented RuntimeError("no active workers") ends the session (example (f)).

   The proof adds to XW a progress invariant QInvW:
     QCW (controller)  not shutting down => tests_finished is false;
                       the scheduler law Wx, valid whatever the shutdown flag (it has to be: worker_errordown
                       resets the flag when it starts a replacement): unless the collection is empty, every
                       node that is up (registered, collection recorded, neither down nor told to shut down)
                       and idle (holds < 2 tests) sees an empty pool AND an outstanding withdrawal request
                       (ProgressSteal.Wv; here re-proved for check_schedule with closed channels: check_Wvx);
                       shutting down => every registered node was told to shut down or is down;
                       a recorded collection belongs to a registered node or to one that is not active;
                       restart budget used up => shutting down;
                       before the collection is complete (no stop request, budget not used up): not shutting
                       down, NOBODY was told to shut down, and at least numnodes nodes are active (a dead node
                       is replaced, so the count never drops);
     PDn               an alive node that is down and still active has its "finished" on the controller's queue;
     PNX (alive worker) booted => its "ready" is in flight, or it is registered, or it was told to shut down;
                       collected => its collection is in flight, or recorded, or it was told to shut down;
                       exited and still heard => its "finished" is in flight; told to shut down => the marker
                       is in its command stream; callback installed; "ready" never behind "collectionfinish".
   The dangerous states of work stealing with crashes, and why they are not stand-offs:
     - the victim of the outstanding request dies: the request / its reply may be lost and the marker
       steal_requested_from_node stays on the dead node -- until the controller has read the end marker and
       handled the errordown (remove_node cancels the request and runs check_schedule, which re-establishes
       Wv); until then the end marker / errordown is in flight, so a move is enabled (DeadStW of XW);
     - the thief dies: the reply goes to the pool; the pool is handed out by the next check_schedule call that
       sees an idle node (Wv says an idle node never coexists with a non-empty pool);
     - a reply from a node that is down is dropped: a node is down only after its "finished" (it then has
       exited: own stop request => the controller's shouldstop => shutdown; PDn) or after its end marker;
     - all workers dead with the budget exhausted: every errordown is in flight until handled; the last one
       ends the session (shutting down and no active node);
     - worker_errordown sets shuttingdown back to False when it starts a replacement: the loop's
       tests_finished / shouldstop checks re-trigger the shutdown in the same iteration when they apply.
   Organisation: part A the scheduler (check_Wvx, the table relation KW); part B what one controller iteration
   guarantees beyond CrashSteal.HEFFX (records HXW / LXW, theorem loop_lxw), handler by handler, errordown
   with crash item / re-queueing / cancelled request / restart budget / _clone_node included; part C the
   invariant and its preservation by every label; part D quiescent states are impossible, the theorems,
   non-vacuity examples. *)
From XV Require Import Base Worker Ctl SchedLoad SchedSteal SchedScope SchedEach Sched DSession System
  NoHook DSessionProofs WorkerProofs StealProofs LoadProofs FifoProofs ExactlyOnce Coupling ExactlyOnceSteal
  CouplingSteal CompletenessSteal CrashCoupling CrashTheorems CrashSteal CrashStealTheorems.
From XV Require LivenessLaws Progress ProgressSteal CrashProgress.
From Coq Require Import Permutation.
Open Scope nat_scope.

(* ###################################### part A ###################################### *)
(* the scheduler: what every check_schedule call re-establishes, closed channels or not *)

Notation Wv := ProgressSteal.Wv.
Notation sd_in := LivenessLaws.sd_in.

(* check_schedule establishes Wv whatever the channels look like (ProgressSteal.check_Wv needs all_open) *)
Theorem check_Wvx s s' o r : ws_check_schedule s = (s', o, r) -> Wv s'.
Proof.
  intros H. pose proof (W10_check_schedule_never_raises _ _ _ _ H) as ->.
  rewrite check_schedule_eq in H.
  destruct (ws_coll s) as [coll|] eqn:Ec; [|inv H; apply ProgressSteal.Wv_nocoll; exact Ec].
  destruct (ws_idle s (ws_up s)) as [|i0 il] eqn:Ei.
  { injection H as Hs' _. subst s'. intros _ n Hn Hl. exfalso.
    assert (X : In n (ws_idle s (ws_up s))) by (apply ws_idle_spec; auto). rewrite Ei in X. destruct X. }
  assert (Hidle : forall n, In n (i0 :: il) -> In n (ws_up s)).
  { intros n Hn. rewrite <- Ei in Hn. apply ws_idle_spec in Hn. tauto. }
  destruct (match ws_pending s with [] => (s, [], Ok tt) | _ :: _ => ws_distribute (i0 :: il) s end)
    as [[s1 o1] r1] eqn:E1.
  assert (D : r1 = Ok tt /\ TWv s s1 o1 /\ ws_nt s1 = ws_nt s /\ ws_pending s1 = []).
  { destruct (ws_pending s) as [|p0 pl] eqn:Ep.
    - inv E1. split; [reflexivity|]. split; [apply TWv_refl|]. split; [reflexivity|exact Ep].
    - destruct (distribute_TWv (i0 :: il) s s1 o1 r1) as (A & B & C & _ & F); [|exact E1|].
      + intros n Hn. apply up_ready. apply Hidle. exact Hn.
      + split; [exact A|]. split; [apply TWvn_TWv; exact B|]. split; [exact C|]. apply F. discriminate. }
  destruct D as (-> & (vo1 & T1 & _) & N1 & P1).
  destruct (ws_phase2 (ws_up s) s1) as [[s2 o2] r2] eqn:E2. injection H as Hs' _ Hr2. subst s2 r2.
  destruct (tw_keeps _ _ _ T1) as (Kc & Kn & Km & Kk).
  assert (Eup1 : ws_up s1 = ws_up s) by (apply ws_up_ext; assumption).
  apply phase2_inv in E2.
  destruct E2 as [(-> & _ & _ & Hc)|[(Hs & _ & v & k & vp & f & _ & _ & _ & _ & -> & _ & _)
                 |[(Hs & _ & Hl)|(_ & _ & F & _)]]]; [| | |discriminate].
  - intros _ n Hn Hl. rewrite Eup1 in Hn. destruct Hc as [Hc|(m & Hm)].
    + exfalso. assert (X : In n (ws_idle s1 (ws_up s))) by (apply ws_idle_spec; auto). rewrite Hc in X. destruct X.
    + split; [exact P1|congruence].
  - intros _ n _ _. cbn [ws_set_steal ws_pending ws_steal]. split; [exact P1|discriminate].
  - assert (Hl1 : forall n, In n (ws_idle s1 (ws_up s)) -> aget n (ws_nt s1) <> None).
    { intros n Hn. rewrite N1. apply up_ready. apply ws_idle_spec in Hn. tauto. }
    destruct (shut_loop_TWv _ _ _ _ _ Hl1 Hl) as (_ & (vo2 & T2 & _) & F2 & S2 & _).
    intros _ n Hn Hlen. exfalso.
    pose proof (TW_up _ _ _ T2 n Hn) as Hn1. rewrite Eup1 in Hn1.
    destruct F2 as (F21 & _). rewrite (ws_len_ext s1 s' n F21) in Hlen.
    assert (X : In n (ws_idle s1 (ws_up s))) by (apply ws_idle_spec; auto).
    apply ws_up_spec in Hn. destruct Hn as (_ & c & Ec' & Hsd & _).
    rewrite (S2 n c X Ec') in Hsd. discriminate.
Qed.

(* the law used below: Wv, except in the degenerate session whose collection is empty (then the tests are
   finished at once and the session shuts down) *)
Definition Wx (ws : wsstate) : Prop := ws_coll ws <> Some [] -> Wv ws.

Lemma Wx_of_Wv ws : Wv ws -> Wx ws.
Proof. intros H _. exact H. Qed.

Lemma Wx_mono ws ws' :
  Wx ws -> incl (ws_up ws') (ws_up ws) -> ws_n2p ws' = ws_n2p ws -> ws_pending ws' = ws_pending ws ->
  ws_steal ws' = ws_steal ws -> ws_coll ws' = ws_coll ws -> Wx ws'.
Proof.
  intros H Hi Ep Eq Es Ec Hne. rewrite Ec in Hne. exact (ProgressSteal.Wv_mono ws ws' (H Hne) Hi Ep Eq Es Ec).
Qed.

(* steps that only raise node flags *)
Lemma Wx_flags ws ws' vo : TW ws ws' vo -> nt_only ws ws' -> Wx ws -> Wx ws'.
Proof.
  intros T (F1 & F2 & F3 & F4 & F5 & F6 & F7) H. eapply Wx_mono; eauto. eapply TW_up; eauto.
Qed.

(* "told to shut down" goes back: nobody new was told *)
Definition sdback (ws ws1 : wsstate) : Prop :=
  forall m f1, aget m (ws_nt ws1) = Some f1 -> n_sdsent f1 = true ->
  exists f, aget m (ws_nt ws) = Some f /\ n_sdsent f = true.

Lemma sdback_refl ws : sdback ws ws.
Proof. intros m f E H. eauto. Qed.
Lemma sdback_eq ws ws1 : ws_nt ws1 = ws_nt ws -> sdback ws ws1.
Proof. intros E m f Ef H. rewrite E in Ef. eauto. Qed.
Lemma sdback_trans a b c : sdback a b -> sdback b c -> sdback a c.
Proof. intros H1 H2 m f Ef H. destruct (H2 m f Ef H) as (g & Eg & Hg). exact (H1 m g Eg Hg). Qed.

(* what the scheduler's tables look like after a handler; rm: the node the handler removes; E: the
   circumstances under which no shutdown command is sent before the collection is complete *)
Record KW (rm : nat -> Prop) (E : Prop) (ws ws1 : wsstate) : Prop := {
  kw_nodes : forall m, In m (ws_nodes ws) -> In m (ws_nodes ws1) \/ rm m;
  kw_n2c : forall m, In m (akeys (ws_n2c ws)) -> In m (akeys (ws_n2c ws1)) \/ rm m;
  kw_cfnew : forall m, In m (akeys (ws_n2c ws1)) -> In m (akeys (ws_n2c ws)) \/ In m (ws_nodes ws);
  kw_comp : ws_collection_is_completed ws = true -> ws_collection_is_completed ws1 = true;
  kw_early : E -> ws_collection_is_completed ws1 = false -> sdback ws ws1;
}.

Lemma KW_refl rm E ws : KW rm E ws ws.
Proof. constructor; auto. intros _ _. apply sdback_refl. Qed.

Lemma KW_weaken (rm rm' : nat -> Prop) (E E' : Prop) ws ws1 :
  (forall m, rm m -> rm' m) -> (E' -> E) -> KW rm E ws ws1 -> KW rm' E' ws ws1.
Proof.
  intros H HE [A B C D F]. constructor; auto.
  - intros m Hm. destruct (A m Hm); auto.
  - intros m Hm. destruct (B m Hm); auto.
Qed.

Lemma KW_step rm (E : Prop) ws mid ws1 :
  KW rm E ws mid -> ws_n2c ws1 = ws_n2c mid -> ws_numnodes ws1 = ws_numnodes mid ->
  akeys (ws_n2p ws1) = akeys (ws_n2p mid) ->
  (E -> ws_collection_is_completed mid = false -> sdback mid ws1) ->
  KW rm E ws ws1.
Proof.
  intros [A B C D F] Kn Km Kk S.
  pose proof (completed_keepsw mid ws1 Kn Km) as Kcomp.
  constructor; unfold ws_nodes in *; rewrite ?Kk, ?Kn, ?Kcomp; auto.
  intros HE Hc. eapply sdback_trans; [apply F; assumption|apply S; assumption].
Qed.

Lemma nt_only_keepsw ws ws' : nt_only ws ws' -> keepsw ws ws'.
Proof. intros (F1 & F2 & F3 & F4 & F5 & F6 & F7). unfold keepsw. rewrite F1. auto. Qed.

(* check_schedule: the tables keep their keys; before the initial distribution nothing happens; Wv after *)
Lemma check_KW mid ws1 o r :
  ws_check_schedule mid = (ws1, o, r) ->
  (ws_coll mid <> None -> ws_collection_is_completed mid = true) ->
  keepsw mid ws1 /\ (ws_collection_is_completed mid = false -> sdback mid ws1) /\ Wv ws1.
Proof.
  intros H Hcc. pose proof (check_Wvx _ _ _ _ H) as HW.
  destruct (check_TWv _ _ _ _ H) as (_ & (vo & T & _) & _ & Hnone & _).
  split; [exact (tw_keeps _ _ _ T)|]. split; [|exact HW].
  intros Hc. destruct (ws_coll mid) eqn:Ec.
  - rewrite Hcc in Hc; [discriminate|discriminate].
  - destruct (Hnone eq_refl) as (-> & _). apply sdback_refl.
Qed.

Lemma KW_check rm E ws mid ws1 o r :
  KW rm E ws mid -> ws_check_schedule mid = (ws1, o, r) ->
  (ws_coll mid <> None -> ws_collection_is_completed mid = true) ->
  KW rm E ws ws1 /\ Wv ws1.
Proof.
  intros K H Hcc. destruct (check_KW _ _ _ _ H Hcc) as ((Kc & Kn & Km & Kk) & B & C). split; [|exact C].
  eapply KW_step; eauto.
Qed.

(* a step that only raises flags *)
Lemma KW_flags rm (E : Prop) ws mid ws1 :
  KW rm E ws mid -> nt_only mid ws1 -> (E -> ws_collection_is_completed mid = false -> sdback mid ws1) ->
  KW rm E ws ws1.
Proof. intros K F S. destruct (nt_only_keepsw _ _ F) as (Kc & Kn & Km & Kk). eapply KW_step; eauto. Qed.

(* remove_node's silent update *)
Lemma KW_rn_mid E n ws rest : KW (fun m => m = n) E ws (rn_mid n ws rest).
Proof.
  constructor.
  - intros m Hm. destruct (Nat.eq_dec m n) as [->|Hne]; [right; reflexivity|left].
    unfold ws_nodes, rn_mid. wsproj. apply in_keys_adel; assumption.
  - intros m Hm. destruct (Nat.eq_dec m n) as [->|Hne]; [right; reflexivity|left].
    unfold rn_mid. wsproj. destruct (ws_collection_is_completed ws); [exact Hm|apply in_keys_adel; assumption].
  - intros m Hm. left. exact (rn_mid_n2ck n ws rest m Hm).
  - intros C. exact (proj1 (rn_mid_completed n ws rest C)).
  - intros _ _. apply sdback_eq. reflexivity.
Qed.


(* ###################################### part B ###################################### *)
(* what one controller iteration guarantees beyond CrashSteal.HEFFX *)

Definition fin_or_err (ev : cevent) (m : nat) : Prop := (exists sk, ev = QFinished m sk) \/ ev = QErrorDown m.
Definition allsdw (ws : wsstate) : Prop := forall m, In m (ws_nodes ws) -> sd_in (ws_nt ws) m.
(* no stop request, restart budget not used up, not shutting down when the handler started *)
Definition calm (d d1 : dstate) : Prop :=
  d_shouldstop d1 = false /\ exhausted d1 = false /\ d_shuttingdown d = false.

Section CtlQW.
Variable N : nat.
Variable collf : nat -> list string.
Hypothesis HN : 0 < N.
Notation DJXc := (DJX N collf).
Notation DJX0c := (DJX0 N collf).
Notation LJXc := (LJX N collf).
Notation PREXc := (PREX collf).

Record HXW (ev : cevent) (d : dstate) (ws : wsstate) (d1 : dstate) (ws1 : wsstate) : Prop := {
  hw_fin : forall m sk, ev = QFinished m sk -> ~ In m (d_active d1);
  hw_kw : KW (fin_or_err ev) (calm d d1) ws ws1;
  hw_ready : forall n, ev = QReady n ->
             if d_shuttingdown d then sd_in (ws_nt ws1) n else In n (ws_nodes ws1);
  hw_cf : forall n ids, ev = QCollFinish n ids -> d_shuttingdown d = false -> In n (ws_nodes ws) ->
          In n (akeys (ws_n2c ws1)) \/ sd_in (ws_nt ws1) n;
  hw_wx : (forall n, ev = QReady n -> d_shuttingdown d = false -> ~ In n (akeys (ws_n2c ws))) -> Wx ws -> Wx ws1;
  hw_sdsame : (forall n, ev <> QErrorDown n) -> d_shuttingdown d1 = d_shuttingdown d;
  hw_sderr : d_shuttingdown d = false -> d_shuttingdown d1 = true -> allsdw ws1;
  hw_earlysd : calm d d1 -> d_shuttingdown d1 = false;
  hw_ss : d_shouldstop d = true -> d_shouldstop d1 = true;
  hw_clone : forall n, ev = QErrorDown n -> exhausted d1 = false -> d_next_gw d1 = S (d_next_gw d);
  hw_exsd : forall n, ev = QErrorDown n -> exhausted d1 = true -> d_shuttingdown d1 = true;
  hw_stop : forall n, ev = QFinished n SKStop -> d_shouldstop d1 = true;
}.

Lemma hw_same ev d ws d1 :
  same_ctl' d d1 -> d_sched d = StW ws ->
  (forall m sk, ev <> QFinished m sk) -> (forall n, ev <> QReady n) -> (forall n, ev <> QErrorDown n) ->
  (forall n ids, ev = QCollFinish n ids -> d_shuttingdown d = false -> In n (ws_nodes ws) -> False) ->
  HXW ev d ws d1 ws.
Proof.
  intros (S1 & S2 & S3 & S4 & S5 & S6 & S7 & S8) Els Hf Hr He Hc. constructor; auto.
  - intros m sk E. exfalso. exact (Hf _ _ E).
  - apply KW_refl.
  - intros n E. exfalso. exact (Hr _ E).
  - intros n ids E A B. exfalso. exact (Hc _ _ E A B).
  - intros A B. congruence.
  - intros (_ & _ & A). congruence.
  - intros n E. exfalso. exact (He _ E).
  - intros n E. exfalso. exact (He _ E).
  - intros n E. exfalso. exact (Hf _ _ E).
Qed.

Lemma sd_in_of_sdflag (ws : wsstate) n :
  aget n (ws_nt ws) <> None -> (forall f', aget n (ws_nt ws) = Some f' -> shutting_down f' = true) -> sd_in (ws_nt ws) n.
Proof. intros Hk H. destruct (aget n (ws_nt ws)) as [f|] eqn:E; [|congruence]. exists f. auto. Qed.

(* ---- workerready ---- *)
Lemma hw_ready_ev n d ws d1 o1 ws1 :
  DJXc d ws -> PREXc (QReady n) d ws ->
  d_handle (QReady n) d = (d1, o1, Ok tt) -> d_sched d1 = StW ws1 -> HXW (QReady n) d ws d1 ws1.
Proof.
  intros (J0 & _) (HnG & Hact & Hpre) H E1. pose proof J0 as [Els J AL RQ JB K2].
  cbn [d_handle] in H. unfold hook in H. rewrite mbind_emit, mbind_get in H.
  destruct (d_shuttingdown d) eqn:Esd.
  - rewrite (d_node_shutdown_liftw n d ws Els) in H.
    destruct (node_shutdown ws_nt ws_set_nt n ws) as [[ws2 o2] r2] eqn:En.
    assert (Hk : aget n (ws_nt ws) <> None) by (apply (xj_ntk _ _ _ _ J); exact HnG).
    destruct (node_shutdown_TWv _ _ _ _ _ Hk En) as (-> & (vo & T & _) & F & Ssd & _).
    cbn [liftW] in H. inv H. cbn in E1. inv E1.
    constructor.
    + intros m sk E. discriminate.
    + apply (KW_flags _ _ ws ws ws1); [apply KW_refl|exact F|]. intros (_ & _ & X). cbn in X. congruence.
    + intros n' E. injection E as <-. rewrite Esd. apply sd_in_of_sdflag; [apply (TW_nt_keys _ _ _ n T); exact Hk|exact Ssd].
    + intros n' ids E. discriminate.
    + intros _ HW. eapply Wx_flags; eauto.
    + intros _. reflexivity.
    + intros X. cbn in *. congruence.
    + intros (_ & _ & X). cbn in X. congruence.
    + auto.
    + intros n' E. discriminate.
    + intros n' E. discriminate.
    + intros n' E. discriminate.
  - specialize (Hpre eq_refl).
    assert (Ea : aget n (ws_n2p ws) = None) by (apply LoadProofs.aget_none_keys; exact Hpre).
    unfold mbind at 1 in H. rewrite (sched_op_runx _ d ws Els) in H. cbn [s_step] in H.
    unfold ws_add_node, massert, ahas in H. rewrite mbind_get in H. rewrite Ea in H. cbn [negb] in H.
    rewrite mbind_ret in H. unfold put, lift, no_str, ret in H. inv H. cbn in E1. inv E1.
    set (ws1 := ws_set_n2p ws (aset n [] (ws_n2p ws))).
    assert (Ek : ws_nodes ws1 = ws_nodes ws ++ [n]) by (apply LoadProofs.akeys_aset_new; exact Ea).
    constructor.
    + intros m sk E. discriminate.
    + constructor; unfold ws1; wsproj; auto.
      * intros m Hm. left. fold ws1. rewrite Ek. apply in_or_app. left. exact Hm.
      * intros _ _. apply sdback_eq. reflexivity.
    + intros n' E. injection E as <-. rewrite Esd, Ek. apply in_or_app. right. left. reflexivity.
    + intros n' ids E. discriminate.
    + intros Hn HW Hne. change (ws_coll ws1) with (ws_coll ws) in Hne. specialize (HW Hne).
      specialize (Hn n eq_refl Esd).
      intros Hc m Hm Hl. change (ws_coll ws1) with (ws_coll ws) in Hc.
      change (ws_pending ws1) with (ws_pending ws). change (ws_steal ws1) with (ws_steal ws).
      apply ws_up_spec in Hm. destruct Hm as (Hm1 & f & Ef & Hs & Hc2).
      change (ws_nt ws1) with (ws_nt ws) in Ef. change (ws_n2c ws1) with (ws_n2c ws) in Hc2.
      assert (Hmn : m <> n) by (intros ->; apply Hn; apply ahas_keys; exact Hc2).
      fold (ws_nodes ws1) in Hm1. rewrite Ek in Hm1. apply in_app_or in Hm1.
      destruct Hm1 as [Hm1|[F|[]]]; [|congruence].
      apply (HW Hc m).
      * apply ws_up_spec. split; [exact Hm1|]. exists f. auto.
      * unfold ws_len, ws1 in Hl |- *. wsproj. rewrite LoadProofs.aget_aset in Hl.
        apply Nat.eqb_neq in Hmn. rewrite Hmn in Hl. exact Hl.
    + intros _. reflexivity.
    + intros _ X. cbn in X. congruence.
    + intros _. cbn. exact Esd.
    + auto.
    + intros n' E. discriminate.
    + intros n' E. discriminate.
    + intros n' E. discriminate.
Qed.

(* a handler that only calls the scheduler *)
Lemma hxw_sched ev d ws ws1 :
  (forall m sk, ev <> QFinished m sk) -> (forall n, ev <> QReady n) -> (forall n, ev <> QErrorDown n) ->
  (forall n ids, ev <> QCollFinish n ids) ->
  KW (fin_or_err ev) (calm d (d_set_sched d (StW ws1))) ws ws1 -> Wx ws1 ->
  HXW ev d ws (d_set_sched d (StW ws1)) ws1.
Proof.
  intros Hf Hr He Hc K W. constructor; auto.
  - intros m sk E. exfalso. exact (Hf _ _ E).
  - intros n E. exfalso. exact (Hr _ E).
  - intros n ids E. exfalso. exact (Hc _ _ E).
  - intros A B. cbn in B. congruence.
  - intros (_ & _ & A). exact A.
  - intros n E. exfalso. exact (He _ E).
  - intros n E. exfalso. exact (He _ E).
  - intros n E. exfalso. exact (Hf _ _ E).
Qed.

Lemma LJX_cc_mid G ws mid :
  LJXc G ws -> ws_coll mid = ws_coll ws -> ws_n2c mid = ws_n2c ws -> ws_numnodes mid = ws_numnodes ws ->
  ws_coll mid <> None -> ws_collection_is_completed mid = true.
Proof.
  intros J A B C H. rewrite (completed_keepsw ws mid B C). apply (xj_cc _ _ _ _ J). rewrite <- A. exact H.
Qed.

(* ---- runtest_protocol_complete ---- *)
Lemma hw_complete_ev n i ms d ws d1 o1 ws1 :
  DJXc d ws -> PREXc (QComplete n i ms) d ws ->
  d_handle (QComplete n i ms) d = (d1, o1, Ok tt) -> d_sched d1 = StW ws1 -> HXW (QComplete n i ms) d ws d1 ws1.
Proof.
  intros (J0 & _) Hin H E1. pose proof J0 as [Els J AL RQ JB K2]. cbn [PREX] in Hin.
  assert (Hcur : exists cur, aget n (ws_n2p ws) = Some cur /\ In i cur).
  { unfold bkw, alist_get in Hin. destruct (aget n (ws_n2p ws)) as [cur|]; [eauto|destruct Hin]. }
  destruct Hcur as (cur & Ecur & Hic). destruct (remove_first_in i cur Hic) as (cur' & Erf).
  cbn [d_handle] in H. unfold mbind at 1 in H. rewrite (sched_op_runx _ d ws Els) in H. cbn [s_step] in H.
  destruct (ws_mark_test_complete n i ws) as [[ws2 o2] r2] eqn:Em. cbn [lift] in H.
  unfold ws_mark_test_complete in Em. rewrite mbind_get in Em. rewrite Ecur in Em. cbn [of_opt] in Em.
  rewrite mbind_ret in Em. rewrite Erf in Em. cbn [of_opt] in Em. rewrite mbind_ret, mbind_put in Em.
  set (mid := ws_set_n2p ws (aset n cur' (ws_n2p ws))) in *.
  pose proof (W10_check_schedule_never_raises _ _ _ _ Em) as ->.
  unfold no_str, ret in H. inv H. cbn in E1. inv E1.
  assert (Kk0 : akeys (ws_n2p mid) = akeys (ws_n2p ws)) by (eapply akeys_aset; eauto).
  assert (Kmid : KW (fin_or_err (QComplete n i ms)) (calm d (d_set_sched d (StW ws1))) ws mid).
  { constructor; auto.
    - intros m Hm. left. unfold ws_nodes. rewrite Kk0. exact Hm.
    - intros _ _. apply sdback_eq. reflexivity. }
  destruct (KW_check _ _ _ _ _ _ _ Kmid Em (LJX_cc_mid _ ws mid J eq_refl eq_refl eq_refl)) as (K1 & W1).
  apply hxw_sched; try (intros; discriminate); [exact K1|apply Wx_of_Wv; exact W1].
Qed.

(* ---- the worker's `unscheduled` reply ---- *)
Lemma hw_unsched_ev n ixs d ws d1 o1 ws1 :
  DJXc d ws -> PREXc (QUnscheduled n ixs) d ws ->
  d_handle (QUnscheduled n ixs) d = (d1, o1, Ok tt) -> d_sched d1 = StW ws1 -> HXW (QUnscheduled n ixs) d ws d1 ws1.
Proof.
  intros (J0 & _) (Hst & rest & Prest) H E1. pose proof J0 as [Els J AL RQ JB K2].
  assert (Hnode : In n (ws_nodes ws)) by (apply (xj_st _ _ _ _ J); exact Hst).
  assert (Hcur : exists cur, aget n (ws_n2p ws) = Some cur).
  { apply LoadProofs.aget_In_keys in Hnode. destruct (aget n (ws_n2p ws)) as [cur|]; [eauto|congruence]. }
  destruct Hcur as (cur & Ecur).
  cbn [d_handle] in H. unfold mbind at 1 in H. rewrite (sched_op_runx _ d ws Els) in H. cbn [s_step] in H.
  rewrite (W6_eq n ixs ws cur Hst Ecur) in H.
  set (mid := rp_mid n ixs ws cur) in *.
  destruct (ws_check_schedule mid) as [[ws2 o2] r2] eqn:Em. cbn [lift] in H.
  pose proof (W10_check_schedule_never_raises _ _ _ _ Em) as ->.
  unfold no_str, ret in H. inv H. cbn in E1. inv E1.
  assert (Kk0 : akeys (ws_n2p mid) = akeys (ws_n2p ws)) by (unfold mid, rp_mid; wsproj; eapply akeys_aset; eauto).
  assert (Kmid : KW (fin_or_err (QUnscheduled n ixs)) (calm d (d_set_sched d (StW ws1))) ws mid).
  { constructor; auto.
    - intros m Hm. left. unfold ws_nodes. rewrite Kk0. exact Hm.
    - intros _ _. apply sdback_eq. reflexivity. }
  destruct (KW_check _ _ _ _ _ _ _ Kmid Em (LJX_cc_mid _ ws mid J eq_refl eq_refl eq_refl)) as (K1 & W1).
  apply hxw_sched; try (intros; discriminate); [exact K1|apply Wx_of_Wv; exact W1].
Qed.

(* ---- workerfinished ---- *)
Lemma hw_finished_ev n sk d ws d1 o1 ws1 :
  DJXc d ws -> PREXc (QFinished n sk) d ws ->
  d_handle (QFinished n sk) d = (d1, o1, Ok tt) -> d_sched d1 = StW ws1 -> HXW (QFinished n sk) d ws d1 ws1.
Proof.
  intros (J0 & _) Hpre H E1. pose proof J0 as [Els J AL RQ JB K2].
  cbn [d_handle] in H. unfold d_worker_workerfinished, hook in H. rewrite mbind_emit in H.
  destruct sk; cbn [PREX] in Hpre; [| |contradiction].
  - destruct Hpre as (Hina & Hbook & Hstn & (fn & Efn & Hsdn)).
    rewrite mbind_get in H. rewrite Els in H. cbn [s_nodes] in H.
    assert (STEP : exists ws2 o2,
      ((if mem_nat n (ws_nodes ws)
        then r0 <- d_sched_op (SRemove n);; massert match r0 with Some s0 => (s0 =? "")%string | None => true end
        else ret tt) d) = (d_set_sched d (StW ws2), o2, Ok tt) /\
      KW (fin_or_err (QFinished n SKNone)) True ws ws2 /\ (Wx ws -> Wx ws2)).
    { destruct (mem_nat n (ws_nodes ws)) eqn:Emem.
      - apply StealProofs.mem_nat_In in Emem. specialize (Hbook Emem).
        set (mid := rn_mid n ws []).
        destruct (ws_check_schedule mid) as [[ws2 o2] r2] eqn:Em.
        pose proof (W10_check_schedule_never_raises _ _ _ _ Em) as ->.
        exists ws2, o2. split.
        { unfold mbind. rewrite (sched_op_runx _ d ws Els). cbn [s_step]. rewrite (W7_eq_idle n ws Hbook).
          fold mid. rewrite Em. cbn [lift]. unfold massert, ret. rewrite app_nil_r. reflexivity. }
        assert (Kmid : KW (fin_or_err (QFinished n SKNone)) True ws mid).
        { eapply KW_weaken; [| |apply (KW_rn_mid True n ws [])]; [|auto].
          intros m ->. left. eexists. reflexivity. }
        assert (Hcc : ws_coll mid <> None -> ws_collection_is_completed mid = true).
        { intros Hc. apply (rn_mid_completed n ws []). apply (xj_cc _ _ _ _ J). exact Hc. }
        destruct (KW_check _ _ _ _ _ _ _ Kmid Em Hcc) as (K1 & W1).
        split; [exact K1|]. intros _. apply Wx_of_Wv. exact W1.
      - exists ws, []. split; [rewrite d_set_sched_same by exact Els; reflexivity|]. split; [apply KW_refl|auto]. }
    destruct STEP as (ws2 & o2 & Erun & K1 & W1).
    unfold mbind at 1 in H. rewrite Erun in H.
    rewrite (active_remove_run n (d_set_sched d (StW ws2)) Hina) in H. inv H.
    cbn in E1. inv E1. constructor; cbn [d_active d_set_active d_set_sched d_shuttingdown d_shouldstop d_next_gw].
    + intros m sk E. inv E. intros Hm. apply in_filter_neq in Hm. tauto.
    + eapply KW_weaken; [| |exact K1]; auto.
    + intros n' E. discriminate.
    + intros n' ids E. discriminate.
    + intros _. exact W1.
    + intros _. reflexivity.
    + intros A B. congruence.
    + intros (_ & _ & A). exact A.
    + auto.
    + intros n' E. discriminate.
    + intros n' E. discriminate.
    + intros n' E. discriminate.
  - assert (STEP : exists d2, (d0 <- get;; (if d_shouldstop d0 then ret tt else put (d_set_shouldstop d0 true))) d = (d2, [], Ok tt) /\
              d_sched d2 = d_sched d /\ d_shuttingdown d2 = d_shuttingdown d /\ d_active d2 = d_active d /\
              d_shouldstop d2 = true).
    { rewrite mbind_get. destruct (d_shouldstop d) eqn:Ess.
      - exists d. auto.
      - eexists. split; [reflexivity|]. auto. }
    destruct STEP as (d2 & Erun & S1 & S2 & S3 & S4).
    unfold mbind at 1 in H. rewrite Erun in H.
    assert (Hina : In n (d_active d2)) by (rewrite S3; exact Hpre).
    rewrite (active_remove_run n d2 Hina) in H. inv H.
    cbn [d_sched d_set_active] in E1. assert (ws1 = ws) by congruence. subst ws1.
    constructor; cbn [d_active d_set_active d_shuttingdown d_shouldstop d_next_gw].
    + intros m sk E. inv E. intros Hm. apply in_filter_neq in Hm. tauto.
    + apply KW_refl.
    + intros n' E. discriminate.
    + intros n' ids E. discriminate.
    + auto.
    + intros _. exact S2.
    + intros A B. congruence.
    + intros (A & _). cbn in A. congruence.
    + intros _. exact S4.
    + intros n' E. discriminate.
    + intros n' E. discriminate.
    + intros n' _. exact S4.
Qed.

(* ---- collectionfinish / schedule() ---- *)
Lemma TW_sd_in s s' vo m : TW s s' vo -> sd_in (ws_nt s) m -> sd_in (ws_nt s') m.
Proof. intros T H. exact (ProgressSteal.NRWo_sd_in _ _ _ (tw_nt _ _ _ T m) H). Qed.

Lemma check_sd_in mid ws1 o r m :
  ws_check_schedule mid = (ws1, o, r) -> sd_in (ws_nt mid) m -> sd_in (ws_nt ws1) m.
Proof.
  intros H. destruct (check_TWv _ _ _ _ H) as (_ & (vo & T & _) & _). eapply TW_sd_in; eauto.
Qed.

Lemma KW_addcoll n ids ws :
  In n (ws_nodes ws) -> KW (fun _ => False) True ws (ws_set_n2c ws (aset n ids (ws_n2c ws))).
Proof.
  intros Hn. constructor; wsproj; auto.
  - intros m Hm. left. apply akeys_aset_incl. exact Hm.
  - intros m Hm. apply akeys_aset_cases in Hm. destruct Hm as [->|Hm]; [right; exact Hn|left; exact Hm].
  - unfold ws_collection_is_completed. wsproj. intros H. apply Nat.leb_le in H. apply Nat.leb_le.
    pose proof (length_aset_gex n ids (ws_n2c ws)). lia.
  - intros _ _. apply sdback_eq. reflexivity.
Qed.

Lemma collfinish_kw G n ids ws wsA oA wsB oB rB :
  LJXc G ws -> n < G -> In n (ws_nodes ws) -> ~ degenerate ws ->
  ws_add_node_collection n ids ws = (wsA, oA, Ok tt) ->
  (if ws_collection_is_completed wsA then ws_schedule wsA else (wsA, [], Ok tt)) = (wsB, oB, rB) ->
  KW (fun _ => False) True ws wsB /\ Wx wsB /\ (In n (akeys (ws_n2c wsB)) \/ sd_in (ws_nt wsB) n).
Proof.
  intros J HnG Hnode Hnd H HB.
  assert (Hp : aget n (ws_n2p ws) <> None) by (apply LoadProofs.aget_In_keys; exact Hnode).
  set (lsa := ws_set_n2c ws (aset n ids (ws_n2c ws))).
  assert (Kn : In n (akeys (ws_n2c lsa))).
  { unfold lsa. wsproj. eapply FifoProofs.aget_some_in. apply StealProofs.aget_aset_eq. }
  pose proof (KW_addcoll n ids ws Hnode) as Klsa. fold lsa in Klsa.
  destruct (ws_collection_is_completed ws) eqn:Hc.
  - (* a late node: the collection is fixed *)
    assert (Ecoll : exists c0 cr, ws_coll ws = Some (c0 :: cr)).
    { destruct (ws_coll ws) as [[|c0 cr]|] eqn:E; [exfalso; apply Hnd; split; auto| eauto |exfalso; apply Hnd; split; auto]. }
    destruct Ecoll as (c0 & cr & Ecoll).
    rewrite (add_coll_late_runx n ids ws c0 cr Hp Hc Ecoll) in H.
    destruct (coll_eqb ids (c0 :: cr)) eqn:Eeq.
    + inv H. fold lsa in HB.
      assert (Eca : ws_collection_is_completed lsa = true) by (apply (completed_aset N HN); exact Hc).
      rewrite Eca in HB. rewrite (schedule_again_runx lsa (c0 :: cr) Eca Ecoll) in HB.
      destruct (KW_check _ _ _ _ _ _ _ Klsa HB (fun _ => Eca)) as (K1 & W1).
      split; [exact K1|]. split; [apply Wx_of_Wv; exact W1|]. left.
      destruct (check_KW _ _ _ _ HB (fun _ => Eca)) as ((_ & Kn2 & _) & _). rewrite Kn2. exact Kn.
    + destruct (first_key (ws_n2c ws)) as [other|] eqn:Efk; [|discriminate].
      destruct (node_shutdown ws_nt ws_set_nt n ws) as [[ws_sd o_sd] r_sd] eqn:Esd. inv H.
      assert (Hk : aget n (ws_nt ws) <> None) by (apply (xj_ntk _ _ _ _ J); exact HnG).
      destruct (node_shutdown_TWv _ _ _ _ _ Hk Esd) as (_ & (vo1 & T1 & _) & F & Ssd & _).
      pose proof F as (F1 & F2 & F3 & F4 & F5 & F6 & F7).
      assert (Hc' : ws_collection_is_completed wsA = true) by (rewrite (completed_keepsw ws wsA F5 F6); exact Hc).
      rewrite Hc' in HB. rewrite (schedule_again_runx wsA (c0 :: cr) Hc' (eq_trans F3 Ecoll)) in HB.
      assert (KA : KW (fun _ => False) True ws wsA).
      { apply (KW_flags _ _ ws ws wsA); [apply KW_refl|exact F|]. intros _ X. congruence. }
      destruct (KW_check _ _ _ _ _ _ _ KA HB (fun _ => Hc')) as (K1 & W1).
      split; [exact K1|]. split; [apply Wx_of_Wv; exact W1|]. right.
      eapply check_sd_in; [exact HB|]. apply sd_in_of_sdflag; [apply (TW_nt_keys _ _ _ n T1); exact Hk|exact Ssd].
  - (* one of the first N collections *)
    assert (Ecoll : ws_coll ws = None).
    { destruct (ws_coll ws) eqn:E; [|reflexivity]. rewrite (xj_cc _ _ _ _ J) in Hc; [discriminate|]. rewrite E. discriminate. }
    rewrite (add_coll_runw n ids ws Hp Hc) in H. inv H. fold lsa in HB.
    assert (NOC : forall w, KW (fun _ => False) True ws w -> ws_coll w = None -> In n (akeys (ws_n2c w)) ->
              KW (fun _ => False) True ws w /\ Wx w /\ (In n (akeys (ws_n2c w)) \/ sd_in (ws_nt w) n)).
    { intros w K E Hn. split; [exact K|]. split; [apply Wx_of_Wv; apply ProgressSteal.Wv_nocoll; exact E|left; exact Hn]. }
    destruct (ws_collection_is_completed lsa) eqn:Eca.
    2:{ inv HB. apply NOC; [exact Klsa|exact Ecoll|exact Kn]. }
    assert (Hn2c : ws_n2c lsa <> []) by (apply (n2c_nonempty N HN lsa Eca); apply J).
    unfold ws_schedule in HB. rewrite mbind_get in HB. rewrite Eca in HB. unfold massert in HB. rewrite mbind_ret in HB.
    change (ws_coll lsa) with (ws_coll ws) in HB. rewrite Ecoll in HB.
    unfold mbind at 1 in HB. destruct (ws_same_collection lsa) as [[t2 p2] r2] eqn:Es.
    apply (same_collection_quietw _ _ _ _ Hn2c) in Es. destruct Es as (-> & C2 & (f0 & c0 & ot0 & En0 & ->)).
    destruct (forallb (fun p => coll_eqb c0 (snd p)) ot0) eqn:Esame; cbn [negb] in HB.
    2:{ unfold ret in HB. inv HB. apply NOC; [exact Klsa|exact Ecoll|exact Kn]. }
    rewrite mbind_get in HB. rewrite En0 in HB. cbn [of_opt] in HB. rewrite mbind_ret, mbind_put in HB.
    set (mid := ws_set_pending (ws_set_coll lsa (Some c0)) (seq 0 (length c0))) in *.
    assert (Kmid : KW (fun _ => False) True ws mid).
    { apply (KW_step _ _ ws lsa mid Klsa); try reflexivity. intros _ _. apply sdback_eq. reflexivity. }
    destruct c0 as [|x c].
    + unfold ret in HB. inv HB. split; [exact Kmid|]. split; [intros F; exfalso; apply F; reflexivity|left; exact Kn].
    + destruct (ws_check_schedule mid) as [[ws2 o2] r2] eqn:Ech. inv HB.
      destruct (KW_check _ _ _ _ _ _ _ Kmid Ech (fun _ => Eca)) as (K1 & W1).
      split; [exact K1|]. split; [apply Wx_of_Wv; exact W1|]. left.
      destruct (check_KW _ _ _ _ Ech (fun _ => Eca)) as ((_ & Kn2 & _) & _). rewrite Kn2. exact Kn.
Qed.

Lemma hw_collfinish_ev n ids d ws d1 o1 ws1 :
  DJXc d ws -> PREXc (QCollFinish n ids) d ws ->
  d_handle (QCollFinish n ids) d = (d1, o1, Ok tt) -> d_sched d1 = StW ws1 -> HXW (QCollFinish n ids) d ws d1 ws1.
Proof.
  intros (J0 & K & _) (HnG & Hids) H E1. pose proof J0 as [Els J AL RQ JB K2].
  assert (SAMEST : forall x, (d, @nil out, x) = (d1, o1, Ok tt) ->
                 (d_shuttingdown d = false -> In n (ws_nodes ws) -> False) ->
                 HXW (QCollFinish n ids) d ws d1 ws1).
  { intros x E Hno. inv E. assert (ws1 = ws) by congruence. subst ws1. apply hw_same.
    - apply same_ctl'_refl.
    - exact Els.
    - intros m sk E. discriminate.
    - intros k E. discriminate.
    - intros k E. discriminate.
    - intros k ids' E A B. inv E. exact (Hno A B). }
  cbn [d_handle] in H. rewrite mbind_get in H.
  destruct (d_shuttingdown d) eqn:Esd; [eapply SAMEST; [exact H|discriminate]|].
  rewrite Els in H. cbn [s_nodes] in H.
  destruct (mem_nat n (ws_nodes ws)) eqn:Em; cbn [negb] in H.
  2:{ eapply SAMEST; [exact H|]. intros _ Hin. apply WorkerProofs.mem_nat_false in Em. contradiction. }
  clear SAMEST. apply StealProofs.mem_nat_In in Em.
  assert (Hnd : ~ degenerate ws) by (intros F; discriminate (K F)).
  unfold hook in H. rewrite mbind_emit in H. unfold mbind at 1 in H.
  rewrite (sched_op_runx _ d ws Els) in H. cbn [s_step] in H.
  destruct (ws_add_node_collection n ids ws) as [[wsA oA] rA] eqn:EA. cbn [lift] in H.
  destruct (collfinish_sched _ _ HN _ _ _ _ _ _ _ J HnG Hids Em Hnd EA) as (-> & _).
  rewrite mbind_get in H. cbn [d_sched d_set_sched s_collection_is_completed] in H.
  assert (FIN : forall wsB oB rB,
            (if ws_collection_is_completed wsA then ws_schedule wsA else (wsA, [], Ok tt)) = (wsB, oB, rB) ->
            HXW (QCollFinish n ids) d ws (d_set_sched d (StW wsB)) wsB).
  { intros wsB oB rB HB. destruct (collfinish_kw _ _ _ _ _ _ _ _ _ J HnG Em Hnd EA HB) as (K1 & W1 & C1).
    constructor; cbn [d_active d_set_sched d_shuttingdown d_shouldstop d_next_gw].
    - intros m sk E. discriminate.
    - eapply KW_weaken; [| |exact K1]; [intros m []|auto].
    - intros k E. discriminate.
    - intros k ids' E _ _. inv E. exact C1.
    - intros _ _. exact W1.
    - intros _. reflexivity.
    - intros A B. congruence.
    - intros (_ & _ & A). exact A.
    - auto.
    - intros k E. discriminate.
    - intros k E. discriminate.
    - intros k E. discriminate. }
  destruct (ws_collection_is_completed wsA) eqn:EcA.
  - unfold mbind at 1 in H. rewrite (sched_op_runx _ (d_set_sched d (StW wsA)) wsA eq_refl) in H. cbn [s_step] in H.
    destruct (ws_schedule wsA) as [[wsB oB] rB] eqn:Es. cbn [lift] in H.
    destruct rB as [[]|e]; [|discriminate]. unfold no_str, ret in H. inv H. cbn in E1. inv E1.
    eapply FIN. reflexivity.
  - unfold ret in H. inv H. cbn in E1. inv E1. eapply FIN. reflexivity.
Qed.

(* ---- errordown: a worker died ---- *)
Definition CCw (ws : wsstate) : Prop := ws_coll ws <> None -> ws_collection_is_completed ws = true.

Lemma CCw_keeps a b : keepsw a b -> CCw a -> CCw b.
Proof. intros (Kc & Kn & Km & Kk) H. unfold CCw. rewrite Kc, (completed_keepsw a b Kn Km). exact H. Qed.

Lemma CCw_rn_mid n ws rest : CCw ws -> CCw (rn_mid n ws rest).
Proof. intros H Hc. apply (rn_mid_completed n ws rest). apply H. exact Hc. Qed.

Lemma pending_kw item ws2 ws3 o :
  ws_mark_test_pending item ws2 = (ws3, o, Ok tt) -> CCw ws2 ->
  KW (fun _ => False) True ws2 ws3 /\ Wv ws3 /\ keepsw ws2 ws3.
Proof.
  intros H CC. unfold ws_mark_test_pending in H. rewrite mbind_get in H.
  destruct (ws_coll ws2) as [coll|] eqn:Ec; [|cbn in H; unfold mbind, raise in H; discriminate].
  cbn [of_opt] in H. rewrite mbind_ret in H.
  destruct (index_of_str item coll) as [idx|] eqn:Ei; [|cbn in H; unfold mbind, raise in H; discriminate].
  cbn [of_opt] in H. rewrite mbind_ret, mbind_put in H.
  set (mid := ws_set_pending ws2 (idx :: ws_pending ws2)) in *.
  assert (Kmid : KW (fun _ => False) True ws2 mid).
  { apply (KW_step _ _ ws2 ws2 mid (KW_refl _ _ _)); try reflexivity. intros _ _. apply sdback_eq. reflexivity. }
  assert (CCm : CCw mid) by exact CC.
  destruct (KW_check _ _ _ _ _ _ _ Kmid H CCm) as (K1 & W1). split; [exact K1|]. split; [exact W1|].
  destruct (check_KW _ _ _ _ H CCm) as (Kk & _). exact Kk.
Qed.

Lemma try_shapew n d ws da oa :
  DJX0c d ws -> try_block n d = (da, oa, Ok tt) ->
  exists wsa, d_sched da = StW wsa /\ KW (fun m => m = n) True ws wsa /\ (Wx ws -> Wx wsa).
Proof.
  intros [Els J AL RQ JB K2] H. unfold try_block in H.
  rewrite (sched_op_runx _ d ws Els) in H. cbn [s_step] in H.
  destruct (ws_remove_node n ws) as [[ws2 o2] r2] eqn:Er. cbn [lift] in H.
  assert (CC : CCw ws) by exact (xj_cc _ _ _ _ J).
  destruct (aget n (ws_n2p ws)) as [[|i rest]|] eqn:Eb.
  - rewrite (W7_eq_idle n ws Eb) in Er. set (mid := rn_mid n ws []) in *.
    destruct (ws_check_schedule mid) as [[ws1 o3] r3] eqn:Em.
    pose proof (W10_check_schedule_never_raises _ _ _ _ Em) as ->. inv Er. inv H.
    destruct (KW_check _ _ _ _ _ _ _ (KW_rn_mid True n ws []) Em (CCw_rn_mid n ws [] CC)) as (K1 & W1).
    exists ws2. split; [reflexivity|]. split; [exact K1|]. intros _. apply Wx_of_Wv. exact W1.
  - assert (Hit : In i (wtokens ws)).
    { unfold StealProofs.tokens. apply in_or_app. right. apply (in_bkw_books ws n i). rewrite (bkw_some ws n _ Eb). left. reflexivity. }
    assert (EXc : exists X, ws_coll ws = Some X).
    { destruct (ws_coll ws) as [X|] eqn:E; [eauto|]. rewrite (xj_b0 _ _ _ _ J E) in Hit. destruct Hit. }
    destruct EXc as (X & Ecoll).
    assert (Hi : i < length X) by (apply (xj_valid _ _ _ _ J X Ecoll); exact Hit).
    destruct (nth_error X i) as [item|] eqn:Enth; [|apply nth_error_None in Enth; lia].
    rewrite (W7_eq n ws i rest X item Eb Ecoll Enth) in Er. set (mid := rn_mid n ws rest) in *.
    destruct (ws_check_schedule mid) as [[ws1 o3] r3] eqn:Em.
    pose proof (W10_check_schedule_never_raises _ _ _ _ Em) as ->. inv Er. cbn [lift] in H.
    destruct (KW_check _ _ _ _ _ _ _ (KW_rn_mid True n ws rest) Em (CCw_rn_mid n ws rest CC)) as (K1 & W1).
    assert (CC2 : CCw ws2).
    { destruct (check_KW _ _ _ _ Em (CCw_rn_mid n ws rest CC)) as (Kk & _). eapply CCw_keeps; [exact Kk|apply CCw_rn_mid; exact CC]. }
    unfold d_handle_crashitem, hook in H. rewrite mbind_emit, mbind_get in H. cbn [d_requeue d_set_sched] in H.
    destruct (d_requeue d) as [|k] eqn:Erq.
    + rewrite mbind_ret in H. unfold emit in H. inv H.
      exists ws2. split; [reflexivity|]. split; [exact K1|]. intros _. apply Wx_of_Wv. exact W1.
    + unfold mbind, put in H.
      rewrite (sched_op_runx _ (d_set_requeue (d_set_sched d (StW ws2)) k) ws2 eq_refl) in H. cbn [s_step] in H.
      destruct (ws_mark_test_pending item ws2) as [[ws3 o4] r4] eqn:Emp. cbn [lift] in H.
      destruct r4 as [[]|e]; [|inv H].
      unfold no_str, ret, emit in H. cbn [app] in H. inv H.
      destruct (pending_kw _ _ _ _ Emp CC2) as (K3 & W3 & (Kc3 & Kn3 & Km3 & Kk3)).
      exists ws3. split; [reflexivity|]. split; [|intros _; apply Wx_of_Wv; exact W3].
      apply (KW_step _ _ ws ws2 ws3 K1); auto. intros _ Hc. apply (kw_early _ _ _ _ K3 I).
      rewrite (completed_keepsw ws2 ws3 Kn3 Km3). exact Hc.
  - rewrite (ws_remove_node_unknownx n ws Eb) in Er. injection Er as <- <- <-. cbn [lift] in H. inv H.
    exists ws. split; [reflexivity|]. split; [apply KW_refl|auto].
Qed.

Lemma Wx_spawn G ws spec :
  (forall m, In m (ws_nodes ws) -> m < G) -> Wx ws -> Wx (ws_set_nt ws (aset G (mkfresh spec) (ws_nt ws))).
Proof.
  intros Hn H. eapply Wx_mono; [exact H| |reflexivity|reflexivity|reflexivity|reflexivity].
  intros m Hm. apply ws_up_spec in Hm. destruct Hm as (Hm1 & c & Ec & Hs & Hc).
  apply ws_up_spec. split; [exact Hm1|]. exists c. split; [|auto].
  cbn [ws_nt ws_set_nt] in Ec. rewrite LoadProofs.aget_aset in Ec.
  destruct (Nat.eqb m G) eqn:E; [|exact Ec]. apply Nat.eqb_eq in E. subst m.
  specialize (Hn G Hm1). lia.
Qed.

Lemma hw_errordown_ev n d ws d1 o1 ws1 :
  DJXc d ws -> (0 <= d_failed_nodes d)%Z -> PREXc (QErrorDown n) d ws ->
  d_handle (QErrorDown n) d = (d1, o1, Ok tt) -> d_sched d1 = StW ws1 -> HXW (QErrorDown n) d ws d1 ws1.
Proof.
  intros (J0 & _) FN Hina H E1. cbn [PREX] in Hina. pose proof J0 as [Els J AL RQ JB K2].
  cbn [d_handle] in H. rewrite errordown_unfold in H.
  apply LoadProofs.mbind_inv in H. destruct H as [(e & Hh & F)|(d0 & o0 & [] & oR & Hh & E & ->)]; [discriminate|].
  rewrite hook_run in Hh. injection Hh as <- <-. rename d1 into dx.
  apply LoadProofs.mbind_inv in E. destruct E as [(e & Ht & F)|(da & oa & [] & ob & Ht & E & ->)]; [discriminate|].
  destruct (try_shapew _ _ _ _ _ J0 Ht) as (wsa & Elsa & Ka & Wa).
  destruct (try_block_effx _ _ HN _ _ _ _ _ _ J0 Ht) as (_ & wsa' & voa & rqa & -> & _ & Ja & _).
  cbn in Elsa. injection Elsa as ->.
  assert (HnG : n < d_next_gw d) by (apply AL; exact Hina).
  assert (Efn : exists fn, aget n (ws_nt wsa) = Some fn).
  { destruct (aget n (ws_nt wsa)) as [fn|] eqn:Ef; [eauto|]. exfalso. apply (proj2 (xj_ntk _ _ _ _ Ja n) HnG). exact Ef. }
  destruct Efn as (fn & Efn).
  rewrite mbind_get in E. cbv zeta in E. rewrite mbind_put in E.
  set (da := d_set_requeue (d_set_sched d (StW wsa)) rqa) in *.
  set (db := d_set_failed_nodes da (d_failed_nodes da + 1)%Z) in *.
  assert (Eex : exhausted db = match d_max_restart d with Some m => (m <? d_failed_nodes d + 1)%Z | None => false end /\
                (exhausted d = true -> exhausted db = true)).
  { apply (exhausted_succ N HN); [reflexivity|reflexivity|exact FN]. }
  destruct Eex as (Eex & Emono).
  assert (DEC :
    (exhausted db = true /\
     exists m0, d_max_restart d = Some m0 /\
     ((hook (HSummary (m0 =? 0)%Z) ;;; d_triggershutdown) ;;; d_active_remove n) db = (dx, ob, Ok tt)) \/
    (exhausted db = false /\
     (((d2 <- get ;; put (d_set_shuttingdown d2 false)) ;;; d_clone_node n) ;;; d_active_remove n) db = (dx, ob, Ok tt))).
  { pose proof E as E'.
    clear E. change (d_max_restart da) with (d_max_restart d) in E'. change (d_failed_nodes da) with (d_failed_nodes d) in E'.
    destruct (d_max_restart d) as [m0|] eqn:Emr.
    - destruct (m0 <? d_failed_nodes d + 1)%Z eqn:Elt.
      + left. split; [exact Eex|]. exists m0. split; [reflexivity|]. exact E'.
      + right. split; [exact Eex|exact E'].
    - right. split; [exact Eex|exact E']. }
  clear E. destruct DEC as [(Hexh & m0 & Emr & E)|(Hexh & E)].
  - (* the budget is used up *)
    apply LoadProofs.mbind_inv in E. destruct E as [(e & Hg & F)|(dc & oc & [] & od & Hg & E2 & ->)]; [discriminate|].
    apply LoadProofs.mbind_inv in Hg. destruct Hg as [(e & Hh & F)|(d0 & o0 & [] & oR & Hh & Hg & ->)]; [discriminate|].
    rewrite hook_run in Hh. injection Hh as <- <-.
    pose proof (LivenessLaws.d_triggershutdown_spec _ _ _ Hg) as (_ & _ & Ball & _).
    destruct (trigger_effx _ _ _ db wsa _ _ _ eq_refl Ja Hg) as (_ & ws2 & vo2 & -> & T2 & _ & F2 & _).
    assert (Hin2 : In n (d_active (d_withw db true ws2))) by exact Hina.
    rewrite (active_remove_run n _ Hin2) in E2. inv E2. cbn in E1. inv E1.
    constructor.
    + intros m sk E0. discriminate.
    + apply (KW_flags _ _ ws wsa ws1); [|exact F2|].
      * eapply KW_weaken; [| |exact Ka]; [|auto]. intros m ->. right. reflexivity.
      * intros (_ & X & _). exfalso. change (exhausted db = false) in X. congruence.
    + intros k E0. discriminate.
    + intros k ids E0. discriminate.
    + intros _ W. eapply Wx_flags; [exact T2|exact F2|apply Wa; exact W].
    + intros F. exfalso. apply (F n). reflexivity.
    + intros Hsd _ m Hm. assert (Hsb : d_shuttingdown db = false) by exact Hsd.
      specialize (Ball Hsb m). cbn in Ball. apply Ball.
      destruct F2 as (F21 & _). unfold ws_nodes in Hm |- *. rewrite <- F21. exact Hm.
    + intros (_ & X & _). exfalso. change (exhausted db = false) in X. congruence.
    + auto.
    + intros k _ F. change (exhausted db = false) in F. congruence.
    + intros k _ _. reflexivity.
    + intros k E0. discriminate.
  - (* a replacement worker is started *)
    assert (CL : ((d2 <- get ;; put (d_set_shuttingdown d2 false)) ;;; d_clone_node n) db =
                 (d_set_active (d_set_next_gw (d_set_sched (d_set_shuttingdown db false)
                     (StW (ws_set_nt wsa (aset (d_next_gw d) (mkfresh (n_spec fn)) (ws_nt wsa))))) (S (d_next_gw d)))
                    (d_active d ++ [d_next_gw d]),
                  [OHook (HSpawn (d_next_gw d) (n_spec fn))], Ok tt)).
    { unfold mbind at 1. rewrite mbind_get. unfold put.
      rewrite (clone_runx n (d_set_shuttingdown db false) wsa fn eq_refl Efn). reflexivity. }
    apply LoadProofs.mbind_inv in E. destruct E as [(e & Hg & F)|(dc & oc & [] & od & Hg & E2 & ->)]; [discriminate|].
    rewrite CL in Hg. injection Hg as <- <-. clear CL.
    set (G := d_next_gw d) in *.
    set (wsn := ws_set_nt wsa (aset G (mkfresh (n_spec fn)) (ws_nt wsa))) in *.
    match type of E2 with d_active_remove n ?D = _ => set (dc := D) in * end.
    assert (Hin2 : In n (d_active dc)) by (unfold dc; cbn; apply in_or_app; left; exact Hina).
    rewrite (active_remove_run n _ Hin2) in E2. inv E2. cbn in E1. inv E1.
    constructor.
    + intros m sk E0. discriminate.
    + apply (KW_step _ _ ws wsa wsn); try reflexivity.
      * eapply KW_weaken; [| |exact Ka]; [|auto]. intros m ->. right. reflexivity.
      * intros _ _ m f1 Ef1 Hs. unfold wsn in Ef1. cbn [ws_nt ws_set_nt] in Ef1. rewrite LoadProofs.aget_aset in Ef1.
        destruct (Nat.eqb m G); [inv Ef1; discriminate|eauto].
    + intros k E0. discriminate.
    + intros k ids E0. discriminate.
    + intros _ W. apply Wx_spawn; [exact (xj_nodes _ _ _ _ Ja)|apply Wa; exact W].
    + intros F. exfalso. apply (F n). reflexivity.
    + intros _ F. cbn in F. discriminate.
    + intros _. reflexivity.
    + auto.
    + intros k _ _. reflexivity.
    + intros k _ F. change (exhausted db = true) in F. congruence.
    + intros k E0. discriminate.
Qed.

(* ---- every handler ---- *)
Lemma handle_heffx ev d ws d1 o1 r :
  DJXc d ws -> PREXc ev d ws -> d_handle ev d = (d1, o1, r) ->
  r = Ok tt /\ exists ws1 vo, HEFFX N collf ev d ws d1 ws1 vo.
Proof.
  intros DJd Hpre H1.
  assert (QUIET : match ev with
                  | QLogStart _ _ | QLogFinish _ _ | QWarning | QReport _ _ _ _ | QCollectReport _ _ _ => True
                  | _ => False end -> r = Ok tt /\ exists ws1 vo, HEFFX N collf ev d ws d1 ws1 vo).
  { intros Hq. destruct (handle_quiet' ev d d1 o1 r Hq H1) as (-> & S & C). split; [reflexivity|]. exists ws, o1.
    apply heff_samex; auto; try apply DJd; destruct ev; try contradiction; try reflexivity; try (intros m b E; discriminate);
      intros ? E; discriminate. }
  destruct ev; try (apply QUIET; exact Logic.I); try (cbn in Hpre; contradiction).
  - destruct (handle_readyx _ _ HN _ _ _ _ _ _ DJd Hpre H1) as (-> & ws1 & vo & _ & X). eauto.
  - destruct (handle_collfinishx _ _ HN _ _ _ _ _ _ _ DJd Hpre H1) as (-> & ws1 & vo & _ & X). eauto.
  - destruct (handle_completex _ _ HN _ _ _ _ _ _ _ _ DJd Hpre H1) as (-> & ws1 & vo & _ & X). eauto.
  - destruct (handle_unschedx _ _ HN _ _ _ _ _ _ _ DJd Hpre H1) as (-> & ws1 & vo & _ & X). eauto.
  - destruct (handle_finishedx _ _ HN _ _ _ _ _ _ _ DJd Hpre H1) as (-> & ws1 & vo & _ & X). eauto.
  - destruct (handle_errordownx _ _ HN _ _ _ _ _ _ DJd Hpre H1) as (-> & ws1 & vo & _ & X & _). eauto.
Qed.

Lemma handle_hxw ev d ws d1 o1 ws1 :
  DJXc d ws -> (0 <= d_failed_nodes d)%Z -> PREXc ev d ws ->
  d_handle ev d = (d1, o1, Ok tt) -> d_sched d1 = StW ws1 -> HXW ev d ws d1 ws1.
Proof.
  intros DJd FN Hpre H Els1. pose proof DJd as ([Els _ _ _ _ _] & _).
  assert (QUIET : match ev with
                  | QLogStart _ _ | QLogFinish _ _ | QWarning | QReport _ _ _ _ | QCollectReport _ _ _ => True
                  | _ => False end -> HXW ev d ws d1 ws1).
  { intros Hq. destruct (handle_quiet' ev d d1 o1 _ Hq H) as (_ & S & _). pose proof S as (S1 & _).
    assert (ws1 = ws) by congruence. subst ws1.
    apply hw_same; auto; destruct ev; try contradiction; intros; discriminate. }
  destruct ev; try (apply QUIET; exact Logic.I); try (cbn in Hpre; contradiction).
  - eapply hw_ready_ev; eauto.
  - eapply hw_collfinish_ev; eauto.
  - eapply hw_complete_ev; eauto.
  - eapply hw_unsched_ev; eauto.
  - eapply hw_finished_ev; eauto.
  - eapply hw_errordown_ev; eauto.
Qed.

(* ---- one iteration of the controller loop ---- *)
Record LXW (ev : cevent) (d : dstate) (ws : wsstate) (d' : dstate) (ws' : wsstate) : Prop := {
  lw_fin : forall m sk, ev = QFinished m sk -> ~ In m (d_active d');
  lw_kw : KW (fin_or_err ev) (calm d d') ws ws';
  lw_ready : forall n, ev = QReady n -> In n (ws_nodes ws') \/ sd_in (ws_nt ws') n;
  lw_cf : forall n ids, ev = QCollFinish n ids -> d_shuttingdown d = false -> In n (ws_nodes ws) ->
          In n (akeys (ws_n2c ws')) \/ sd_in (ws_nt ws') n;
  lw_wx : (forall n, ev = QReady n -> d_shuttingdown d = false -> ~ In n (akeys (ws_n2c ws))) -> Wx ws -> Wx ws';
  lw_tf : d_shuttingdown d' = false -> ws_tests_finished ws' = false;
  lw_sd : d_shuttingdown d' = true -> (d_shuttingdown d = true -> allsdw ws) -> allsdw ws';
  lw_earlysd : ws_collection_is_completed ws' = false -> calm d d' -> d_shuttingdown d' = false;
  lw_ss : d_shouldstop d = true -> d_shouldstop d' = true;
  lw_exh : exhausted d = true -> exhausted d' = true;
  lw_exsd : exhausted d' = true -> (exhausted d = true -> d_shuttingdown d = true) -> d_shuttingdown d' = true;
  lw_clone : forall n, ev = QErrorDown n -> exhausted d' = false -> d_next_gw d' = S (d_next_gw d);
  lw_fnn : (0 <= d_failed_nodes d)%Z -> (0 <= d_failed_nodes d')%Z;
  lw_stop : forall n, ev = QFinished n SKStop -> d_shouldstop d' = true;
}.

Lemma exhausted_mono d d' :
  d_max_restart d' = d_max_restart d -> (d_failed_nodes d <= d_failed_nodes d')%Z ->
  exhausted d = true -> exhausted d' = true.
Proof.
  intros A B. unfold exhausted. rewrite A. destruct (d_max_restart d) as [m|]; [|auto].
  intros H. apply andb_true_iff in H. destruct H as (H1 & H2). apply Z.ltb_lt in H1, H2.
  apply andb_true_iff. split; apply Z.ltb_lt; lia.
Qed.

Lemma tests_finished_completed ws : ws_collection_is_completed ws = false -> ws_tests_finished ws = false.
Proof. intros H. unfold ws_tests_finished. rewrite H. reflexivity. Qed.

Theorem loop_lxw ev d ws d' o ws' :
  DJXc d ws -> (0 <= d_failed_nodes d)%Z -> PREXc ev d ws ->
  d_loop_once ev d = (d', o, Ok tt) -> d_sched d' = StW ws' -> LXW ev d ws d' ws'.
Proof.
  intros DJd FN Hpre H Els'. pose proof H as Hfull. rewrite loop_once_unfold in H.
  apply LoadProofs.mbind_inv in H. destruct H as [(e & _ & F)|(d1 & o1 & [] & o2 & H1 & H2 & ->)]; [discriminate|].
  destruct (handle_heffx _ _ _ _ _ _ DJd Hpre H1) as (_ & ws1 & vo1 & E1).
  pose proof (hx_dj _ _ _ _ _ _ _ _ E1) as J1. pose proof J1 as [Els1 JJ1 AL1 RQ1 JB1 K21].
  pose proof (handle_hxw _ _ _ _ _ _ DJd FN Hpre H1 Els1) as X1.
  pose proof DJd as ([Els J AL _ _ _] & _).
  pose proof H2 as H2'.
  destruct (loop_rest_effx _ _ _ _ _ _ _ _ Els1 JJ1 H2) as (_ & ws2 & vo2 & Ed' & T & _ & F & _ & Same2).
  assert (ws' = ws2) by (rewrite Ed' in Els'; cbn in Els'; congruence). subst ws2.
  pose proof F as (F1 & F2 & F3 & F4 & F5 & F6 & F7).
  assert (Knodes : ws_nodes ws' = ws_nodes ws1) by (unfold ws_nodes; rewrite F1; reflexivity).
  assert (Eact : d_active d' = d_active d1) by (rewrite Ed'; reflexivity).
  assert (Eexh : exhausted d' = exhausted d1) by (rewrite Ed'; reflexivity).
  assert (Egw : d_next_gw d' = d_next_gw d1) by (rewrite Ed'; reflexivity).
  assert (Ess : d_shouldstop d' = d_shouldstop d1) by (rewrite Ed'; reflexivity).
  assert (Esd : d_shuttingdown d' = d_shuttingdown d1 || ws_tests_finished ws1 || d_shouldstop d1) by (rewrite Ed'; reflexivity).
  pose proof (loop_once_step _ _ _ _ _ Hfull) as (SR1 & SR2 & _).
  assert (CALM : calm d d' -> calm d d1).
  { intros (A & B & C). split; [congruence|]. split; [congruence|exact C]. }
  constructor.
  - intros m sk E. rewrite Eact. exact (hw_fin _ _ _ _ _ X1 m sk E).
  - apply (KW_flags _ _ ws ws1 ws'); [|exact F|].
    + eapply KW_weaken; [| |exact (hw_kw _ _ _ _ _ X1)]; auto.
    + intros Hcalm Hc. pose proof (CALM Hcalm) as Hc1. pose proof (hw_earlysd _ _ _ _ _ X1 Hc1) as Hsd1.
      destruct Hc1 as (A & _ & _). rewrite Same2; [apply sdback_refl|].
      rewrite Hsd1, A, (tests_finished_completed _ Hc). reflexivity.
  - intros n E. pose proof (hw_ready _ _ _ _ _ X1 n E) as Y. destruct (d_shuttingdown d).
    + right. eapply TW_sd_in; eauto.
    + left. rewrite Knodes. exact Y.
  - intros n ids E Hsd Hin. destruct (hw_cf _ _ _ _ _ X1 n ids E Hsd Hin) as [Y|Y].
    + left. rewrite F5. exact Y.
    + right. eapply TW_sd_in; eauto.
  - intros Hr W. eapply Wx_flags; [exact T|exact F|]. exact (hw_wx _ _ _ _ _ X1 Hr W).
  - intros Hsd. destruct (ws_tests_finished ws') eqn:Etf; [|reflexivity].
    pose proof (LivenessLaws.V5b_loop_once _ _ _ _ Hfull) as V. rewrite Els' in V. cbn [s_tests_finished] in V.
    rewrite (V Etf) in Hsd. discriminate.
  - intros Hsd' Hold m Hm. rewrite Knodes in Hm. destruct (d_shuttingdown d1) eqn:Esd1.
    + eapply TW_sd_in; [exact T|]. destruct (d_shuttingdown d) eqn:Esd0.
      * destruct (hx_nodes _ _ _ _ _ _ _ _ E1 m Hm) as [Hin|Hev].
        -- pose proof (xj_nodes _ _ _ _ J m Hin) as HmG.
           exact (ProgressSteal.NRWo_sd_in _ _ _ (hx_nt _ _ _ _ _ _ _ _ E1 m HmG) (Hold eq_refl m Hin)).
        -- apply ProgressSteal.ev_xsig_ready in Hev. pose proof (hw_ready _ _ _ _ _ X1 m Hev) as Y. rewrite Esd0 in Y. exact Y.
      * exact (hw_sderr _ _ _ _ _ X1 Esd0 Esd1 m Hm).
    + exact (ProgressSteal.loop_rest_sdw d1 ws1 d' o2 Els1 H2' ws' Els' Esd1 Hsd' m Hm).
  - intros Hc Hcalm. pose proof (CALM Hcalm) as Hc1. pose proof (hw_earlysd _ _ _ _ _ X1 Hc1) as Hsd1.
    destruct Hc1 as (A & _ & _). rewrite Esd, Hsd1, A.
    rewrite (tests_finished_completed ws1); [reflexivity|].
    rewrite <- (completed_keepsw ws1 ws' F5 F6). exact Hc.
  - intros A. rewrite Ess. exact (hw_ss _ _ _ _ _ X1 A).
  - apply exhausted_mono; assumption.
  - intros Hex Hold. rewrite Esd. destruct (death_event ev) eqn:Ed.
    + destruct ev; try discriminate.
      * destruct sk; try discriminate. cbn in Hpre. contradiction.
      * rewrite Eexh in Hex. rewrite (hw_exsd _ _ _ _ _ X1 n eq_refl Hex). reflexivity.
    + destruct (quiet_counts _ _ _ _ _ (quiet_handle ev Ed) H1) as ((B1 & B2 & _) & _).
      rewrite Eexh, (exhausted_ext d d1 B1 B2) in Hex.
      rewrite (hw_sdsame _ _ _ _ _ X1), (Hold Hex); [reflexivity|]. intros k ->. discriminate.
  - intros n E C. rewrite Egw. rewrite Eexh in C. exact (hw_clone _ _ _ _ _ X1 n E C).
  - intros _. lia.
  - intros n E. rewrite Ess. exact (hw_stop _ _ _ _ _ X1 n E).
Qed.

End CtlQW.


(* ###################################### part C ###################################### *)
(* the progress invariant and its preservation by every label *)

Notation CB := Progress.CB.
Notation rc_ok := ProgressSteal.rc_ok.

(* ---- the controller part ---- *)
Record QCW (N : nat) (d : dstate) (ws : wsstate) : Prop := {
  qw_tf : d_shuttingdown d = false -> ws_tests_finished ws = false;
  qw_wx : Wx ws;
  qw_sd : d_shuttingdown d = true -> allsdw ws;
  (* a recorded collection belongs to a registered node, or to one that is not active any more *)
  qw_k : forall m, In m (akeys (ws_n2c ws)) -> In m (ws_nodes ws) \/ ~ In m (d_active d);
  qw_exh : exhausted d = true -> d_shuttingdown d = true;
  qw_fnn : (0 <= d_failed_nodes d)%Z;
  (* before the collection is complete (no stop request, budget not used up): the session is not shutting
     down, nobody was told to shut down, and at least N nodes are active *)
  qw_early : ws_collection_is_completed ws = false -> d_shouldstop d = false -> exhausted d = false ->
             d_shuttingdown d = false /\
             (forall m f, aget m (ws_nt ws) = Some f -> n_sdsent f = false) /\
             exists l, NoDup l /\ incl l (d_active d) /\ N <= length l;
}.

Definition sdsent_in (ws : wsstate) (n : nat) : Prop := exists f, aget n (ws_nt ws) = Some f /\ n_sdsent f = true.

(* ---- an alive worker; L: everything in flight from it; dnb: the controller does not hear it any more ---- *)
Record PNX (act : list nat) (dnb : bool) (ws : wsstate) (n : nat) (L : list xsig) (dn : list cmd) (w : wst) : Prop := {
  px_ready : In n act -> wph w <> PBoot -> wph w <> PExited ->
             In XReady L \/ In n (ws_nodes ws) \/ sdsent_in ws n;
  px_cf : In n act -> 2 <= prank (wph w) -> wph w <> PExited ->
          In XCF L \/ In n (akeys (ws_n2c ws)) \/ sdsent_in ws n;
  px_fin : wph w = PExited -> In n act -> dnb = false -> exists b, In (XFin b) L;
  px_mark : forall f, aget n (ws_nt ws) = Some f -> n_sdsent f = true ->
            In true (wmarks w ++ flat_map cmd_marks dn);
  px_cb : CB w;
  px_rc : wph w <> PExited -> rc_ok L;
  px_boot : wph w = PBoot -> ~ In XCF L;
  px_wx : WX2 w;
}.

Definition QInvW (N : nat) (s : sys) : Prop :=
  exists ws, d_sched (y_d s) = StW ws /\ QCW N (y_d s) ws /\
    (* an alive node that is down and still active: its "finished" is on the controller's queue *)
    (forall n, ndown ws n = true -> In n (d_active (y_d s)) -> mem_nat n (y_dead s) = false ->
       exists b, In (XFin b) (evq_xsigs n (y_evq s))) /\
    forall n w, aget n (y_w s) = Some w -> mem_nat n (y_dead s) = false ->
      PNX (d_active (y_d s)) (ndown ws n) ws n (xsigs s n) (alist_get [] n (y_down s)) w.

(* ---- worker steps ---- *)
Lemma PNX_deliver act dnb ws n L cm rest w :
  PNX act dnb ws n L (cm :: rest) w -> PNX act dnb ws n L rest (deliver w cm).
Proof.
  intros [A B C D E F G H]. destruct (deliver_owed2 w cm) as (_ & Ep & _).
  constructor; rewrite ?Ep; auto; try (apply Progress.CB_deliver; exact E).
  intros f Ef Hs. specialize (D f Ef Hs). rewrite deliver_marks, <- app_assoc. exact D.
Qed.

Lemma PNX_recv o act dnb ws n L dn w :
  Forall good_cmd_ws (winbox w) -> PNX act dnb ws n L dn w ->
  PNX act dnb ws n (L ++ flat_map we_xsig (snd (recv_step o w))) dn (fst (recv_step o w)).
Proof.
  intros G [A B C D E F G0 H].
  destruct (recv_step_owed2 o w G) as (_ & _ & Ep & _ & _ & _ & _ & _ & Hshr).
  destruct (ProgressSteal.recv_step_sigs o w G) as (Hlen & Huns).
  constructor; rewrite ?Ep.
  - intros H1 H2 H3. destruct (A H1 H2 H3) as [X|X]; [left; apply in_or_app; left; exact X|right; exact X].
  - intros H1 H2 H3. destruct (B H1 H2 H3) as [X|X]; [left; apply in_or_app; left; exact X|right; exact X].
  - intros H1 H2 H3. destruct (C H1 H2 H3) as (b & X). exists b. apply in_or_app. left. exact X.
  - intros f Ef Hs. eapply ProgressSteal.in_true_app_shr; [exact Hshr|exact (D f Ef Hs)].
  - apply Progress.CB_recv. exact E.
  - intros Hx. apply ProgressSteal.rc_ok_app; [exact (F Hx)|apply ProgressSteal.rc_ok_small; exact Hlen|].
    intros Hi. destruct (Huns _ Hi) as (l & F0). discriminate.
  - intros Hb Hi. apply in_app_or in Hi. destruct Hi as [Hi|Hi]; [exact (G0 Hb Hi)|].
    destruct (Huns _ Hi) as (l & F0). discriminate.
  - unfold WX2 in *. rewrite Ep. exact H.
Qed.

Lemma PNX_main o act dnb ws n L dn w w' evs :
  PNX act dnb ws n L dn w -> main_step o w = Some (w', evs) ->
  PNX act dnb ws n (L ++ flat_map we_xsig evs) dn w'.
Proof.
  intros [A B C D E F G X] H.
  destruct (ProgressSteal.main_step_xsigs _ _ _ _ X H) as (Bt1 & Bt2 & Bt3 & Cf1 & Cf2 & Fn & _).
  pose proof (main_step_not_exited _ _ _ _ H) as Hne0.
  constructor.
  - intros Hact _ _. destruct (Progress.phase_eq_dec_boot (wph w)) as [Eb|Eb].
    + left. apply in_or_app. right. apply Bt1. exact Eb.
    + destruct (A Hact Eb Hne0) as [X1|X1]; [left; apply in_or_app; left; exact X1|right; exact X1].
  - intros Hact Hr _. destruct (Cf1 Hr) as [Hr0|Hin].
    + destruct (B Hact Hr0 Hne0) as [X1|X1]; [left; apply in_or_app; left; exact X1|right; exact X1].
    + left. apply in_or_app. right. exact Hin.
  - intros Hex _ _. destruct (Fn Hex) as (b & Hb). exists b. apply in_or_app. right. exact Hb.
  - intros f Ef Hs. rewrite (main_step_marks _ _ _ _ H). exact (D f Ef Hs).
  - eapply Progress.CB_main; eauto.
  - intros _. apply ProgressSteal.rc_ok_app; [exact (F Hne0)|apply ProgressSteal.rc_ok_small; eapply ProgressSteal.main_step_one_sig; eauto|].
    intros Hi. apply G. apply Bt2. exact Hi.
  - intros Hb. contradiction.
  - eapply main_step_WX2; eauto.
Qed.

(* ---- the controller's flags change: nothing else moves; a message of a node that is down is dropped ---- *)
Lemma PNX_ext act dnb dnb' ws ws' n L L' dn w :
  (forall g, aget n (ws_nt ws) = Some g -> exists g', aget n (ws_nt ws') = Some g' /\ n_sdsent g' = n_sdsent g) ->
  (forall g', aget n (ws_nt ws') = Some g' -> exists g, aget n (ws_nt ws) = Some g /\ n_sdsent g' = n_sdsent g) ->
  ws_n2p ws' = ws_n2p ws -> ws_n2c ws' = ws_n2c ws ->
  (wph w <> PExited -> L' = L) -> (dnb' = false -> L' = L /\ dnb = false) ->
  PNX act dnb ws n L dn w -> PNX act dnb' ws' n L' dn w.
Proof.
  intros FL FL' Ep Ec HL Hd [A B C D E F G X].
  assert (SDS : sdsent_in ws n -> sdsent_in ws' n).
  { intros (f & Ef & Hs). destruct (FL f Ef) as (f' & Ef' & Es). exists f'. split; [exact Ef'|congruence]. }
  constructor; auto.
  - intros H1 H2 H3. rewrite (HL H3). destruct (A H1 H2 H3) as [Y|[Y|Y]]; [left; exact Y|right; left|right; right; auto].
    unfold ws_nodes. rewrite Ep. exact Y.
  - intros H1 H2 H3. rewrite (HL H3), Ec. destruct (B H1 H2 H3) as [Y|[Y|Y]]; auto.
  - intros H1 H2 H3. destruct (Hd H3) as (-> & H3'). exact (C H1 H2 H3').
  - intros f' Ef' Hs. destruct (FL' f' Ef') as (f & Ef & Es). apply (D f Ef). congruence.
  - intros H1. rewrite (HL H1). exact (F H1).
  - intros H1. rewrite HL; [exact (G H1)|]. rewrite H1. discriminate.
Qed.

(* ---- one iteration of the controller loop, seen from an alive node k that existed before ---- *)
Lemma PNX_ctl N collf ev d ws d' ws' vo k L' dn w dnb :
  HEFFX N collf ev d ws d' ws' vo -> LXW ev d ws d' ws' -> QCW N d ws ->
  k < d_next_gw d -> is_errd k ev = false ->
  (forall f', aget k (ws_nt ws') = Some f' -> n_down f' = true -> wph w = PExited) ->
  PNX (d_active d) dnb ws k (ev_xsigs_for k ev ++ L') dn w ->
  PNX (d_active d') dnb ws' k L' (dn ++ cmds_to k vo) w.
Proof.
  intros E LX QC Hlt Hev Hdown [A B C D Ecb F G X].
  assert (Hsub : forall g, In g L' -> In g (ev_xsigs_for k ev ++ L')) by (intros g Hg; apply in_or_app; right; exact Hg).
  assert (ACTB : In k (d_active d') -> In k (d_active d)).
  { intros Hin. destruct (hx_actb _ _ _ _ _ _ _ _ E k Hin) as [Y|(Y & _)]; [exact Y|lia]. }
  assert (NOFE : In k (d_active d') -> fin_or_err ev k -> False).
  { intros Hin [(sk & ->)| ->].
    - exact (lw_fin _ _ _ _ _ LX k sk eq_refl Hin).
    - cbn in Hev. rewrite Nat.eqb_refl in Hev. discriminate. }
  assert (SDS : sdsent_in ws k -> sdsent_in ws' k).
  { intros (f & Ef & Hs). pose proof (hx_nt _ _ _ _ _ _ _ _ E k Hlt) as R. rewrite Ef in R.
    destruct (aget k (ws_nt ws')) as [f'|] eqn:Ef'; [|destruct R]. cbn in R.
    exists f'. split; [exact Ef'|]. destruct (NRW_fields _ _ _ R) as (_ & _ & _ & Dsd & _). apply Dsd. left. exact Hs. }
  assert (SDI : wph w <> PExited -> sd_in (ws_nt ws') k -> sdsent_in ws' k).
  { intros Hnx (c & Ec & Hs). exists c. split; [exact Ec|]. unfold shutting_down in Hs.
    destruct (n_down c) eqn:Edn; [exfalso; exact (Hnx (Hdown c Ec Edn))|exact Hs]. }
  assert (SDI0 : wph w <> PExited -> sd_in (ws_nt ws) k -> sdsent_in ws' k).
  { intros Hnx Hs. apply (SDI Hnx).
    exact (ProgressSteal.NRWo_sd_in _ _ _ (hx_nt _ _ _ _ _ _ _ _ E k Hlt) Hs). }
  constructor.
  - intros Hact Hnb Hnx. destruct (A (ACTB Hact) Hnb Hnx) as [Hi|[Hi|Hi]].
    + apply in_app_or in Hi. destruct Hi as [Hi|Hi]; [|left; exact Hi].
      apply ProgressSteal.ev_xsigs_for_in, ProgressSteal.ev_xsig_ready in Hi.
      destruct (lw_ready _ _ _ _ _ LX k Hi) as [Y|Y]; [right; left; exact Y|right; right; exact (SDI Hnx Y)].
    + destruct (kw_nodes _ _ _ _ (lw_kw _ _ _ _ _ LX) k Hi) as [Y|Y]; [right; left; exact Y|exfalso; exact (NOFE Hact Y)].
    + right. right. exact (SDS Hi).
  - intros Hact Hr Hnx. destruct (B (ACTB Hact) Hr Hnx) as [Hi|[Hi|Hi]].
    + apply in_app_or in Hi. destruct Hi as [Hi|Hi]; [|left; exact Hi].
      right. apply ProgressSteal.ev_xsigs_for_in in Hi. pose proof Hi as Hcf.
      apply ProgressSteal.ev_xsig_cf in Hi. destruct Hi as (ids & ->).
      rewrite (ProgressSteal.ev_xsigs_for_self _ _ _ Hcf) in *. cbn [app] in *.
      assert (Hnb : wph w <> PBoot) by (intros Eb; rewrite Eb in Hr; cbn in Hr; lia).
      destruct (A (ACTB Hact) Hnb Hnx) as [[Y|Y]|[Y|Y]].
      * discriminate.
      * exfalso. destruct (F Hnx) as (Frc & _). exact (Frc eq_refl Y).
      * destruct (d_shuttingdown d) eqn:Esd.
        -- right. apply (SDI0 Hnx). exact (qw_sd _ _ _ QC Esd k Y).
        -- destruct (lw_cf _ _ _ _ _ LX k ids eq_refl Esd Y) as [Z|Z]; [left; exact Z|right; exact (SDI Hnx Z)].
      * right. exact (SDS Y).
    + destruct (kw_n2c _ _ _ _ (lw_kw _ _ _ _ _ LX) k Hi) as [Y|Y]; [right; left; exact Y|exfalso; exact (NOFE Hact Y)].
    + right. right. exact (SDS Hi).
  - intros Hex Hact Hd. destruct (C Hex (ACTB Hact) Hd) as (b & Hi).
    apply in_app_or in Hi. destruct Hi as [Hi|Hi]; [|exists b; exact Hi].
    exfalso. apply ProgressSteal.ev_xsigs_for_in in Hi.
    destruct ev; cbn in Hi; try discriminate. inv Hi. exact (lw_fin _ _ _ _ _ LX k sk eq_refl Hact).
  - intros f' Ef' Hs. destruct (NRWo_open _ _ _ _ (hx_nt _ _ _ _ _ _ _ _ E k Hlt) Ef') as (f0 & Ef0 & R).
    destruct (NRW_fields _ _ _ R) as (_ & _ & _ & Dsd & _). apply Dsd in Hs.
    rewrite flat_map_app, app_assoc. apply in_or_app. destruct Hs as [Hs|Hs].
    + left. exact (D f0 Ef0 Hs).
    + right. apply in_flat_map. exists CShutdown. split; [exact Hs|left; reflexivity].
  - exact Ecb.
  - intros Hnx. exact (ProgressSteal.rc_ok_tail _ _ (F Hnx)).
  - intros Hb Hi. exact (G Hb (Hsub _ Hi)).
  - exact X.
Qed.

(* ---- the controller's flags change (receiver thread: down; channel closed): nothing else moves ---- *)
Definition FLfwd (ws ws' : wsstate) : Prop :=
  forall k g, aget k (ws_nt ws) = Some g ->
  exists g', aget k (ws_nt ws') = Some g' /\ n_sdsent g' = n_sdsent g /\ (n_down g = true -> n_down g' = true).
Definition FLbwd (ws ws' : wsstate) : Prop :=
  forall k g', aget k (ws_nt ws') = Some g' ->
  exists g, aget k (ws_nt ws) = Some g /\ n_sdsent g' = n_sdsent g /\ (n_down g = true -> n_down g' = true).

Lemma QCW_flags N d d' ws ws' :
  FLfwd ws ws' -> FLbwd ws ws' ->
  ws_n2p ws' = ws_n2p ws -> ws_n2c ws' = ws_n2c ws -> ws_pending ws' = ws_pending ws -> ws_steal ws' = ws_steal ws ->
  ws_coll ws' = ws_coll ws -> ws_numnodes ws' = ws_numnodes ws ->
  d_shuttingdown d' = d_shuttingdown d -> d_shouldstop d' = d_shouldstop d ->
  d_failed_nodes d' = d_failed_nodes d -> d_max_restart d' = d_max_restart d -> d_active d' = d_active d ->
  QCW N d ws -> QCW N d' ws'.
Proof.
  intros FL FL' Ep Ec Eq Es Ecl Em S1 S2 S3 S4 S5 [A B C D E F G].
  pose proof (exhausted_ext d d' S3 S4) as EE.
  assert (Ecomp : ws_collection_is_completed ws' = ws_collection_is_completed ws) by (apply completed_keepsw; assumption).
  constructor; rewrite ?S1, ?S2, ?S3, ?S5, ?EE, ?Ecomp.
  - intros Hs. rewrite <- (A Hs). unfold ws_tests_finished. rewrite Ecomp, Eq, Es, Ep. reflexivity.
  - apply (Wx_mono ws ws' B); auto. apply ws_up_mono; [rewrite Ep; reflexivity|exact Ec|].
    intros k g' Eg Hs. destruct (FL' k g' Eg) as (g & Eg0 & Es0 & Ed0). exists g. split; [exact Eg0|].
    unfold shutting_down in *. apply orb_false_iff in Hs. destruct Hs as (H1 & H2).
    rewrite <- Es0, H2. destruct (n_down g) eqn:Edg; [rewrite (Ed0 eq_refl) in H1; discriminate|reflexivity].
  - intros Hs m Hm. unfold ws_nodes in Hm. rewrite Ep in Hm. destruct (C Hs m Hm) as (g & Eg & Hsg).
    destruct (FL m g Eg) as (g' & Eg' & Es' & Ed'). exists g'. split; [exact Eg'|].
    unfold shutting_down in *. rewrite Es'. destruct (n_down g); [rewrite (Ed' eq_refl); reflexivity|].
    cbn in Hsg. rewrite Hsg. apply orb_true_r.
  - intros m Hm. rewrite Ec in Hm. unfold ws_nodes. rewrite Ep. exact (D m Hm).
  - exact E.
  - exact F.
  - intros H1 H2 H3. destruct (G H1 H2 H3) as (X1 & X2 & X3). split; [exact X1|]. split; [|exact X3].
    intros m f' Ef'. destruct (FL' m f' Ef') as (g & Eg & Es0 & _). rewrite Es0. exact (X2 m g Eg).
Qed.

Lemma FLfwd_refl ws : FLfwd ws ws.
Proof. intros k g E. exists g. auto. Qed.
Lemma FLbwd_refl ws : FLbwd ws ws.
Proof. intros k g E. exists g. auto. Qed.

Lemma FL_upd ws n f f' :
  aget n (ws_nt ws) = Some f -> n_sdsent f' = n_sdsent f -> (n_down f = true -> n_down f' = true) ->
  FLfwd ws (upd_flagw ws n f') /\ FLbwd ws (upd_flagw ws n f').
Proof.
  intros Ef A B. split; intros k g Eg.
  - rewrite aget_upd_flagw. destruct (Nat.eqb k n) eqn:E.
    + apply Nat.eqb_eq in E. subst k. assert (g = f) by congruence. subst g. exists f'. auto.
    + exists g. auto.
  - rewrite aget_upd_flagw in Eg. destruct (Nat.eqb k n) eqn:E.
    + apply Nat.eqb_eq in E. subst k. inv Eg. exists f. auto.
    + exists g. auto.
Qed.

Lemma ndown_upd ws n f' k : ndown (upd_flagw ws n f') k = if Nat.eqb k n then n_down f' else ndown ws k.
Proof. unfold ndown. rewrite aget_upd_flagw. destruct (Nat.eqb k n); reflexivity. Qed.

Section SysQW.
Variable c : config.
Notation N := (c_numnodes c).
Notation X0 := (c_coll c).
Notation OR := (c_oracle c).
Hypothesis Hmode : c_mode c = MSteal.
Hypothesis Hng : no_garbled c.
Hypothesis Hpos : 0 < N.
Hypothesis Hrq : rq_ok c.

Lemma PNX_init act dnb ws n :
  (forall f, aget n (ws_nt ws) = Some f -> n_sdsent f = false) -> PNX act dnb ws n [] [] w_init.
Proof.
  intros Hf. constructor; cbn [w_init wph prank].
  - intros _ Fb. exfalso. apply Fb. reflexivity.
  - intros _ Fb. lia.
  - discriminate.
  - intros f Ef Hs. rewrite (Hf f Ef) in Hs. discriminate.
  - exact Progress.CB_init.
  - intros _. exact I.
  - intros _ [].
  - exact I.
Qed.

Lemma QInvW_init : QInvW N (sys_init c).
Proof.
  unfold QInvW. cbn [sys_init y_d d_sched]. rewrite Hmode. cbn [s_init s_set_nt].
  eexists. split; [reflexivity|]. split; [|split].
  - constructor; cbn [d_shuttingdown d_shouldstop d_active d_failed_nodes].
    + intros _. unfold ws_tests_finished, ws_collection_is_completed. cbn [ws_set_nt ws_init ws_numnodes ws_n2c length].
      destruct N; [lia|]. reflexivity.
    + apply Wx_of_Wv. apply ProgressSteal.Wv_nocoll. reflexivity.
    + discriminate.
    + cbn. intros m [].
    + unfold exhausted. cbn [d_max_restart d_failed_nodes]. destruct (c_max_restart c); [|discriminate].
      rewrite andb_false_r. discriminate.
    + lia.
    + intros _ _ _. split; [reflexivity|]. split.
      * intros m f Ef. cbn [ws_set_nt ws_nt ws_init] in Ef. exact (proj1 (aget_init_nt_freshx c m f Ef)).
      * exists (seq 0 N). split; [apply seq_NoDup|]. split; [apply incl_refl|rewrite seq_length; lia].
  - intros n Hd. exfalso. unfold ndown in Hd. cbn [ws_set_nt ws_init ws_nt] in Hd.
    destruct (aget n (init_nt c)) as [f|] eqn:Ef; [|discriminate].
    destruct (aget_init_nt_freshx c n f Ef) as (_ & F & _). congruence.
  - intros n w Ew _. cbn [sys_init y_w] in Ew. apply aget_map_const in Ew. subst w.
    assert (Esg : xsigs (sys_init c) n = []).
    { unfold xsigs. cbn [sys_init y_evq y_up]. rewrite alist_get_map_nil. reflexivity. }
    rewrite Esg. cbn [sys_init y_down]. rewrite alist_get_map_nil. apply PNX_init.
    intros f Ef. cbn [ws_set_nt ws_nt ws_init] in Ef. exact (proj1 (aget_init_nt_freshx c n f Ef)).
Qed.

(* a step of one worker: the controller does not move *)
Lemma qinvw_upd s s' n0 w' :
  y_d s' = y_d s -> y_evq s' = y_evq s -> y_dead s' = y_dead s -> y_w s' = aset n0 w' (y_w s) ->
  (forall n, n <> n0 -> alist_get [] n (y_up s') = alist_get [] n (y_up s)) ->
  (forall n, n <> n0 -> alist_get [] n (y_down s') = alist_get [] n (y_down s)) ->
  QInvW N s ->
  (forall ws, d_sched (y_d s) = StW ws -> mem_nat n0 (y_dead s) = false ->
     PNX (d_active (y_d s)) (ndown ws n0) ws n0 (xsigs s' n0) (alist_get [] n0 (y_down s')) w') ->
  QInvW N s'.
Proof.
  intros Ed Eq Edd Ew Eu Edn (ws & Els & QCd & PDn & PNs) Hn0. exists ws. rewrite Ed, Eq, Edd.
  split; [exact Els|]. split; [exact QCd|]. split; [exact PDn|]. intros n w Hw Hd. rewrite Ew in Hw.
  destruct (Nat.eq_dec n n0) as [->|Hne].
  - rewrite FifoProofs.aget_aset_eq in Hw. inv Hw. apply Hn0; assumption.
  - rewrite FifoProofs.aget_aset_neq in Hw by exact Hne.
    assert (Es : xsigs s' n = xsigs s n) by (unfold xsigs; rewrite Eq, (Eu n Hne); reflexivity).
    rewrite Es, (Edn n Hne). apply PNs; assumption.
Qed.

Lemma d_nt_w d ws : d_sched d = StW ws -> d_nt d = ws_nt ws.
Proof. intros E. unfold d_nt. rewrite E. reflexivity. Qed.

(* a step that only changes the "closed" flag of one node *)
Lemma qinvw_flagstep s s' ws n0 f0 f0' :
  d_sched (y_d s) = StW ws -> aget n0 (ws_nt ws) = Some f0 ->
  n_sdsent f0' = n_sdsent f0 -> n_down f0' = n_down f0 ->
  y_d s' = d_set_nt (y_d s) (aset n0 f0' (d_nt (y_d s))) ->
  y_w s' = y_w s -> y_evq s' = y_evq s -> (forall n, xsigs s' n = xsigs s n) ->
  (forall n, mem_nat n (y_dead s') = false ->
     mem_nat n (y_dead s) = false /\ alist_get [] n (y_down s') = alist_get [] n (y_down s)) ->
  QInvW N s -> QInvW N s'.
Proof.
  intros Els Ef0 Hsd Hdn Ed Ew Eq Es Edd (wsq & Elsq & QCd & PDn & PNs).
  assert (wsq = ws) by congruence. subst wsq.
  set (ws' := upd_flagw ws n0 f0').
  assert (Els' : d_sched (y_d s') = StW ws') by (rewrite Ed; apply d_set_nt_schedw; exact Els).
  destruct (FL_upd ws n0 f0 f0' Ef0 Hsd) as (FL & FL'); [intros X; congruence|].
  assert (ND : forall k, ndown ws' k = ndown ws k).
  { intros k. unfold ws'. rewrite ndown_upd. destruct (Nat.eqb k n0) eqn:E; [|reflexivity].
    apply Nat.eqb_eq in E. subst k. unfold ndown. rewrite Ef0. exact Hdn. }
  assert (Eact : d_active (y_d s') = d_active (y_d s)) by (rewrite Ed; reflexivity).
  exists ws'. split; [exact Els'|]. split; [|split].
  - apply (QCW_flags N (y_d s) (y_d s') ws ws'); auto; rewrite Ed; reflexivity.
  - intros n Hd Hact Hdead. rewrite Eq. rewrite ND in Hd. rewrite Eact in Hact. destruct (Edd n Hdead) as (Hdead0 & _).
    exact (PDn n Hd Hact Hdead0).
  - intros n w Hw Hdead. rewrite Ew in Hw. destruct (Edd n Hdead) as (Hdead0 & Edn).
    rewrite Es, Edn, ND, Eact.
    apply (PNX_ext _ (ndown ws n) _ ws ws' n (xsigs s n)); auto.
    + intros g Eg. destruct (FL n g Eg) as (g' & A & B & _). eauto.
    + intros g' Eg. destruct (FL' n g' Eg) as (g & A & B & _). eauto.
Qed.

(* ---- a worker process dies ---- *)
Lemma qinvw_crash s n0 w0 :
  XW c s -> QInvW N s -> mem_nat n0 (y_dead s) = false -> aget n0 (y_w s) = Some w0 ->
  QInvW N (crash_worker c s n0).
Proof.
  intros X Q Hd Ew. pose proof X as [Lo Hi (ws & P & DJd & NIs & Pout) Eq Eu Ea Er Edead].
  pose proof DJd as ([Els J _ _ _ _] & _).
  pose proof (worker_ltx c s n0 w0 X Ew) as HnG.
  destruct (aget n0 (ws_nt ws)) as [f0|] eqn:Ef0; [|exfalso; apply (proj2 (xj_ntk _ _ _ _ J n0) HnG); exact Ef0].
  set (s' := crash_worker c s n0).
  assert (SG : forall n, xsigs s' n = xsigs s n).
  { intros n. unfold xsigs, s', crash_worker. cbn [y_evq y_up]. destruct (Nat.eq_dec n n0) as [->|Hn].
    - rewrite FifoProofs.alist_get_aset_eq, flat_map_app. cbn. rewrite app_nil_r. reflexivity.
    - rewrite FifoProofs.alist_get_aset_neq by exact Hn. reflexivity. }
  assert (DN : forall n, mem_nat n (y_dead s') = false ->
             mem_nat n (y_dead s) = false /\ alist_get [] n (y_down s') = alist_get [] n (y_down s)).
  { intros n Hn. change (y_dead s') with (n0 :: y_dead s) in Hn. rewrite mem_nat_cons in Hn.
    apply orb_false_iff in Hn. destruct Hn as (A & B). split; [exact B|].
    apply Nat.eqb_neq in A. unfold s', crash_worker. cbn [y_down]. apply FifoProofs.alist_get_aset_neq. exact A. }
  destruct (c_strict c) eqn:Estr.
  - apply (qinvw_flagstep s s' ws n0 f0 (closed_flag f0) Els Ef0); auto.
    unfold s', crash_worker. cbn [y_d]. rewrite Estr, (d_nt_w _ _ Els), Ef0. reflexivity.
  - destruct Q as (wsq & Elsq & QCd & PDn & PNs). assert (wsq = ws) by congruence. subst wsq.
    assert (Ed : y_d s' = y_d s) by (unfold s', crash_worker; cbn [y_d]; rewrite Estr; reflexivity).
    exists ws. rewrite Ed. split; [exact Els|]. split; [exact QCd|]. split.
    + intros n Hdn Hact Hdead. destruct (DN n Hdead) as (Hdead0 & _). exact (PDn n Hdn Hact Hdead0).
    + intros n w Hw Hdead. destruct (DN n Hdead) as (Hdead0 & Edn). rewrite SG, Edn. apply PNs; assumption.
Qed.

(* ---- the channel of a dead worker is closed ---- *)
Lemma qinvw_close s n : QInvW N s -> QInvW N (close_if_dead s n).
Proof.
  intros Q. unfold close_if_dead. destruct (mem_nat n (y_dead s)) eqn:Hd; [|exact Q].
  destruct (aget n (d_nt (y_d s))) as [f|] eqn:Ef; [|exact Q].
  destruct (n_down f) eqn:Edn; [|exact Q].
  pose proof Q as (ws & Els & _). rewrite (d_nt_w _ _ Els) in Ef.
  set (fc := {| n_spec := n_spec f; n_down := true; n_sdsent := n_sdsent f; n_closed := true |}).
  apply (qinvw_flagstep s _ ws n f fc Els Ef); auto.
Qed.

(* ---- LRecv: the controller's receiver thread reads one message ---- *)
Lemma qinvw_recv s n0 m rest d' evs :
  XW c s -> QInvW N s -> aget n0 (y_up s) = Some (m :: rest) ->
  process_from_remote n0 m (y_d s) = (d', [], Ok evs) ->
  QInvW N (set_evq (set_d {| y_d := y_d s; y_evq := y_evq s; y_down := y_down s; y_up := aset n0 rest (y_up s);
                             y_w := y_w s; y_dead := y_dead s; y_result := y_result s |} d') (y_evq s ++ evs)).
Proof.
  intros X Q Eup Ep. pose proof X as [Lo Hi (ws & P & DJd & NIs & Pout) Eq Eu Ea Er Edead].
  pose proof DJd as ([Els J _ _ _ _] & _).
  destruct Q as (wsq & Elsq & QCd & PDn & PNs). assert (wsq = ws) by congruence. subst wsq.
  pose proof (alist_get_some [] _ _ _ Eup) as Eup'.
  assert (HnG : n0 < d_next_gw (y_d s)).
  { destruct (Nat.lt_ge_cases n0 (d_next_gw (y_d s))) as [H|H]; [exact H|].
    destruct (Hi n0 H) as (_ & F & _). rewrite Eup' in F. discriminate. }
  destruct (aget n0 (y_w s)) as [w0|] eqn:Ew; [|exfalso; exact (Lo n0 HnG Ew)].
  destruct (aget n0 (ws_nt ws)) as [f|] eqn:Ef; [|exfalso; apply (proj2 (xj_ntk _ _ _ _ J n0) HnG); exact Ef].
  pose proof (Eu n0) as En. rewrite Eup' in En. inversion En as [|m1 r1 Gm Gr]; subst.
  destruct (pfr_effx X0 _ _ _ _ _ _ _ _ _ Els Ef Gm HnG Ep) as (_ & evs' & Eok & Hd' & Hdrop & Hsig & Hok & Hend & Hnoend).
  injection Eok as <-.
  set (s' := set_evq (set_d {| y_d := y_d s; y_evq := y_evq s; y_down := y_down s; y_up := aset n0 rest (y_up s);
                          y_w := y_w s; y_dead := y_dead s; y_result := y_result s |} d') (y_evq s ++ evs)).
  (* an alive node: no end marker on its wire, and it has exited once it is down *)
  assert (ALIVE : mem_nat n0 (y_dead s) = false -> m <> UEnd /\ (n_down f = true -> wph w0 = PExited)).
  { intros Hd. destruct (NIs n0 w0 Ew) as (_ & _ & _ & D). rewrite Hd in D. destruct (P n0).
    - destruct D as [_ _ D3 _ _ D6 _]. rewrite Eup' in D3. split; [intros ->; apply D3; left; reflexivity|exact (D6 f Ef)].
    - destruct D as [_ _ D3 _ _ D6]. rewrite Eup' in D3. split; [intros ->; apply D3; left; reflexivity|].
      intros Hdn. exact (proj2 (D6 f Ef Hdn)). }
  assert (SIGK : forall k, k <> n0 -> evq_xsigs k evs = []).
  { intros k Hk. destruct (n_down f) eqn:Edn.
    - destruct (Hdrop eq_refl) as (-> & _). reflexivity.
    - rewrite (Hsig eq_refl k). apply Nat.eqb_neq in Hk. rewrite Nat.eqb_sym, Hk. reflexivity. }
  assert (SG : forall k, k <> n0 \/ n_down f = false -> xsigs s' k = xsigs s k).
  { intros k Hk. unfold xsigs, s'. cbn [set_evq set_d y_evq y_up]. rewrite evq_xsigs_app.
    destruct (Nat.eq_dec k n0) as [->|Hkn].
    - destruct Hk as [Hk|Hk]; [congruence|].
      rewrite FifoProofs.alist_get_aset_eq, Eup', (Hsig Hk), Nat.eqb_refl. cbn [flat_map]. rewrite <- app_assoc. reflexivity.
    - rewrite (SIGK k Hkn), app_nil_r, FifoProofs.alist_get_aset_neq by exact Hkn. reflexivity. }
  (* the new scheduler state: only the "down" flag of n0 may have been raised *)
  assert (DX : exists ws' f', d_sched d' = StW ws' /\ FLfwd ws ws' /\ FLbwd ws ws' /\
             ws_n2p ws' = ws_n2p ws /\ ws_n2c ws' = ws_n2c ws /\ ws_pending ws' = ws_pending ws /\
             ws_steal ws' = ws_steal ws /\ ws_coll ws' = ws_coll ws /\ ws_numnodes ws' = ws_numnodes ws /\
             d_shuttingdown d' = d_shuttingdown (y_d s) /\ d_shouldstop d' = d_shouldstop (y_d s) /\
             d_failed_nodes d' = d_failed_nodes (y_d s) /\ d_max_restart d' = d_max_restart (y_d s) /\
             d_active d' = d_active (y_d s) /\
             (forall k, k <> n0 -> ndown ws' k = ndown ws k) /\
             aget n0 (ws_nt ws') = Some f' /\ (n_down f = true -> n_down f' = true) /\
             (n_down f = false -> n_down f' = true -> m = UEnd \/ exists b, m = UEv (EFinished b))).
  { destruct Hd' as [->|(-> & Hf & Hm)].
    - exists ws, f. split; [exact Els|]. split; [apply FLfwd_refl|]. split; [apply FLbwd_refl|].
      repeat (split; [reflexivity|]). split; [exact Ef|]. split; [auto|]. intros A B. congruence.
    - exists (upd_flagw ws n0 (down_flag' f)), (down_flag' f).
      split; [apply d_set_nt_schedw; exact Els|].
      destruct (FL_upd ws n0 f (down_flag' f) Ef eq_refl (fun _ => eq_refl)) as (A & B).
      split; [exact A|]. split; [exact B|]. repeat (split; [reflexivity|]).
      split. { intros k Hk. rewrite ndown_upd. apply Nat.eqb_neq in Hk. rewrite Hk. reflexivity. }
      split. { rewrite aget_upd_flagw, Nat.eqb_refl. reflexivity. }
      split; [reflexivity|]. intros _ _. exact Hm. }
  destruct DX as (ws' & f' & Els' & FL & FL' & Ep' & Ec' & Eq' & Es' & Ecl' & Em' & S1 & S2 & S3 & S4 & S5 & NDk & Ef' & Dn1 & Dn2).
  exists ws'. unfold s'. cbn [set_evq set_d y_d y_evq y_down y_up y_w y_dead]. split; [exact Els'|]. split; [|split].
  - eapply QCW_flags; eauto.
  - intros n Hdn Hact Hdead. rewrite S5 in Hact. rewrite evq_xsigs_app.
    destruct (Nat.eq_dec n n0) as [->|Hn].
    + destruct (ALIVE Hdead) as (Hne & _). unfold ndown in Hdn. rewrite Ef' in Hdn.
      destruct (n_down f) eqn:Edf.
      * assert (Hd0 : ndown ws n0 = true) by (unfold ndown; rewrite Ef; exact Edf).
        destruct (PDn n0 Hd0 Hact Hdead) as (b & Hb). exists b. apply in_or_app. left. exact Hb.
      * destruct (Dn2 eq_refl Hdn) as [F|(b & ->)]; [contradiction|].
        exists b. apply in_or_app. right. rewrite (Hsig eq_refl), Nat.eqb_refl. left. reflexivity.
    + rewrite (NDk n Hn) in Hdn. destruct (PDn n Hdn Hact Hdead) as (b & Hb). exists b. apply in_or_app. left. exact Hb.
  - intros n w Hw Hdead. rewrite S5. fold s'.
    assert (Edn : alist_get [] n (y_down s) = alist_get [] n (y_down s)) by reflexivity.
    apply (PNX_ext _ (ndown ws n) _ ws ws' n (xsigs s n)); auto.
    + intros g Eg. destruct (FL n g Eg) as (g' & A & B & _). eauto.
    + intros g' Eg. destruct (FL' n g' Eg) as (g & A & B & _). eauto.
    + intros Hnx. apply SG. destruct (Nat.eq_dec n n0) as [->|Hn]; [right|left; exact Hn].
      assert (w = w0) by congruence. subst w. destruct (ALIVE Hdead) as (_ & Hex).
      destruct (n_down f) eqn:Edf; [exfalso; exact (Hnx (Hex eq_refl))|reflexivity].
    + intros Hd. destruct (Nat.eq_dec n n0) as [->|Hn].
      * unfold ndown in Hd |- *. rewrite Ef' in Hd. rewrite Ef.
        assert (Edf : n_down f = false) by (destruct (n_down f) eqn:Edf; [rewrite (Dn1 eq_refl) in Hd; discriminate|reflexivity]).
        split; [apply SG; right; exact Edf|exact Edf].
      * rewrite <- (NDk n Hn). split; [apply SG; left; exact Hn|exact Hd].
Qed.

(* ---- all labels but LCtl ---- *)
Lemma step_qinvw_worker s l s' o w :
  l <> LCtl -> XW c s -> QInvW N s -> sys_step c s l = Some (s', o, w) -> QInvW N s'.
Proof.
  intros Hl X Q H. pose proof X as [Lo Hi (ws & P & DJd & NIs & Pout) Eq Eu Ea Er Edead].
  pose proof DJd as ([Els J _ _ _ _] & _).
  pose proof Q as (wsq & Elsq & QCd & PDn & PNs). assert (wsq = ws) by congruence. subst wsq.
  unfold sys_step in H. destruct (y_result s) eqn:Eres; [discriminate|].
  destruct l as [n0|n0|n0|n0| |n0]; [| | | |contradiction|].
  - (* LDeliver *)
    destruct (mem_nat n0 (y_dead s)) eqn:Hd; [discriminate|].
    destruct (aget n0 (y_down s)) as [[|cmd rest]|] eqn:Ed; try discriminate.
    destruct (aget n0 (y_w s)) as [w0|] eqn:Ew; try discriminate.
    inv H. eapply (qinvw_upd s _ n0 (deliver w0 cmd)); try reflexivity; eauto.
    + intros n Hn. cbn [y_down]. apply FifoProofs.alist_get_aset_neq. exact Hn.
    + intros ws0 E0 _. assert (ws0 = ws) by congruence. subst ws0. cbn [y_down].
      rewrite FifoProofs.alist_get_aset_eq.
      match goal with |- PNX _ _ _ _ (xsigs ?S n0) _ _ => change (xsigs S n0) with (xsigs s n0) end.
      apply PNX_deliver. pose proof (PNs n0 w0 Ew Hd) as Y. rewrite (alist_get_some [] _ _ _ Ed) in Y. exact Y.
  - (* LRecvW *)
    destruct (mem_nat n0 (y_dead s)) eqn:Hd; [discriminate|].
    destruct (aget n0 (y_w s)) as [w0|] eqn:Ew; try discriminate.
    destruct (negb (wcb w0)); [discriminate|].
    destruct (recv_step (c_oracle c n0) w0) as [w' evs] eqn:Es. inv H.
    destruct (NIs n0 w0 Ew) as (_ & Gw & _).
    eapply (qinvw_upd s _ n0 w'); try reflexivity; eauto.
    + intros n Hn. cbn [push_up set_w y_up]. apply FifoProofs.alist_get_aset_neq. exact Hn.
    + intros ws0 E0 _. assert (ws0 = ws) by congruence. subst ws0.
      assert (Sg : xsigs (push_up (set_w s n0 w') n0 (map (up_of_wevent c n0) evs)) n0 = xsigs s n0 ++ flat_map we_xsig evs).
      { unfold xsigs. cbn [push_up set_w y_evq y_up]. rewrite FifoProofs.alist_get_aset_eq, flat_map_app, up_xsigs_of_wevents, app_assoc. reflexivity. }
      rewrite Sg. cbn [push_up set_w y_down].
      pose proof (PNX_recv (c_oracle c n0) _ _ _ _ _ _ _ Gw (PNs n0 w0 Ew Hd)) as Y. rewrite Es in Y. exact Y.
  - (* LMain *)
    destruct (mem_nat n0 (y_dead s)) eqn:Hd; [discriminate|].
    destruct (aget n0 (y_w s)) as [w0|] eqn:Ew; try discriminate.
    destruct (dies_now c n0 w0) eqn:Edie.
    + inv H. eapply qinvw_crash; eauto.
    + destruct (main_step (c_oracle c n0) w0) as [[w' evs]|] eqn:Es; [|discriminate]. inv H.
      eapply (qinvw_upd s _ n0 w'); try reflexivity; eauto.
      * intros n Hn. cbn [push_up set_w y_up]. apply FifoProofs.alist_get_aset_neq. exact Hn.
      * intros ws0 E0 _. assert (ws0 = ws) by congruence. subst ws0.
        assert (Sg : xsigs (push_up (set_w s n0 w') n0 (map (up_of_wevent c n0) evs)) n0 = xsigs s n0 ++ flat_map we_xsig evs).
        { unfold xsigs. cbn [push_up set_w y_evq y_up]. rewrite FifoProofs.alist_get_aset_eq, flat_map_app, up_xsigs_of_wevents, app_assoc. reflexivity. }
        rewrite Sg. cbn [push_up set_w y_down]. eapply PNX_main; [exact (PNs n0 w0 Ew Hd)|exact Es].
  - (* LRecv *)
    destruct (aget n0 (y_up s)) as [[|m rest]|] eqn:Eup; try discriminate.
    cbn [y_d] in H.
    destruct (process_from_remote n0 m (y_d s)) as [[d' outs] r] eqn:Ep.
    destruct (step_recvx c Hpos s n0 m rest d' outs r X Eup Ep) as (-> & evs & -> & _).
    cbn [apply_outs] in H. inv H. apply qinvw_close. exact (qinvw_recv s n0 m rest d' evs X Q Eup Ep).
  - (* LCrash *)
    destruct (mem_nat n0 (y_dead s)) eqn:Hd; [discriminate|].
    destruct (aget n0 (y_w s)) as [w0|] eqn:Ew; try discriminate.
    destruct (wph w0) eqn:Eph; try discriminate; inv H; eapply qinvw_crash; eauto.
Qed.

Lemma ev_xsig_fin ev k b : ev_xsig ev = Some (k, XFin b) -> exists sk, ev = QFinished k sk.
Proof. destruct ev; cbn; intros E; try discriminate; inv E. eexists. reflexivity. Qed.

Lemma filter_neq_len n (l : list nat) :
  NoDup l -> length l <= S (length (filter (fun m => negb (Nat.eqb m n)) l)).
Proof.
  induction 1 as [|x l Hx ND IH]; cbn; [lia|].
  destruct (Nat.eqb x n) eqn:E; cbn.
  - apply Nat.eqb_eq in E. subst x.
    assert (Ef : filter (fun m => negb (Nat.eqb m n)) l = l).
    { clear IH ND. induction l as [|y l IH]; [reflexivity|]. cbn.
      destruct (Nat.eqb y n) eqn:Ey; cbn.
      - apply Nat.eqb_eq in Ey. subst y. exfalso. apply Hx. left. reflexivity.
      - f_equal. apply IH. intros F. apply Hx. right. exact F. }
    rewrite Ef. lia.
  - lia.
Qed.

(* ---- LCtl ---- *)
Lemma step_qinvw_ctl s ev q d' outs :
  XW c s -> QInvW N s -> y_result s = None -> y_evq s = ev :: q ->
  d_loop_once ev (y_d s) = (d', outs, Ok tt) ->
  forall rr, QInvW N (set_result (apply_outs (set_d (set_evq s q) d') outs) rr).
Proof.
  intros X Q Eres Eevq El rr. pose proof X as [Lo Hi (ws & P & DJd & NIs & Pout) Eq Eu Ea Er Edead].
  specialize (Ea Eres).
  pose proof (pre_from_invx c Hpos P s ws ev q X DJd NIs Eevq) as Hpre.
  destruct (loop_once_okx N X0 Hpos ev _ ws d' outs _ DJd Hpre El) as (_ & ws' & vo & Eo & E & DJ2 & _ & _).
  pose proof DJ2 as ([Els' J' AL' _ _ _] & _).
  destruct Q as (wsq & Elsq & QCd & PDn & PNs).
  pose proof DJd as ([Els J AL _ JB _] & Kdeg & Kss). assert (wsq = ws) by congruence. subst wsq.
  pose proof (loop_lxw N X0 Hpos ev _ ws d' outs ws' DJd (qw_fnn _ _ _ QCd) Hpre El Els') as LX.
  pose proof (loop_once_step _ _ _ _ _ El) as (_ & _ & _ & SP).
  set (G := d_next_gw (y_d s)) in *.
  assert (SPW : (d_next_gw d' = G /\ forall id sp, ~ In (OHook (HSpawn id sp)) outs) \/
                (d_next_gw d' = S G /\ (exists sp, In (OHook (HSpawn G sp)) outs) /\
                 forall id sp, In (OHook (HSpawn id sp)) outs -> id = G)).
  { destruct SP as [(C0 & G0)|(C1 & G1 & _ & _ & sp & SPx)].
    - left. split; [exact G0|]. intros id sp Hin. pose proof (count_zero_notin _ _ _ C0 Hin) as F. discriminate.
    - right. split; [exact G1|]. split.
      + destruct (count_pos_in _ _ C1) as (x & Hx & Fx). exists sp. rewrite <- (SPx x Hx Fx). exact Hx.
      + intros id sp' Hin. specialize (SPx _ Hin eq_refl). inv SPx. reflexivity. }
  assert (SPID : forall id sp, In (OHook (HSpawn id sp)) outs -> id = G /\ d_next_gw d' = S G).
  { intros id sp Hin. destruct SPW as [(_ & F)|(A & _ & B)]; [exfalso; exact (F _ _ Hin)|]. split; [eapply B; eauto|exact A]. }
  assert (OUTG : forall m, G <= m -> cmds_to m outs = []).
  { intros m Hm. rewrite Eo, cmds_to_vfilter, (hx_out _ _ _ _ _ _ _ _ E m Hm). destruct (closedb (ws_nt ws) m); reflexivity. }
  set (sA := set_d (set_evq s q) d').
  destruct (apply_outs_frame outs sA) as (F1 & F2 & F3). cbn [sA set_d set_evq y_evq y_d y_dead] in F1, F2, F3.
  assert (UP : forall k, alist_get [] k (y_up (apply_outs sA outs)) = alist_get [] k (y_up s)).
  { intros k. rewrite apply_outs_up; [reflexivity|]. intros id sp Hin. destruct (SPID _ _ Hin) as (-> & _).
    cbn [sA set_d set_evq y_up]. apply (Hi G). lia. }
  assert (DOWN : forall k, alist_get [] k (y_down (apply_outs sA outs)) =
            if mem_nat k (y_dead s) then alist_get [] k (y_down s) else alist_get [] k (y_down s) ++ cmds_to k outs).
  { intros k. rewrite apply_outs_down; [reflexivity|]. intros id sp Hin. destruct (SPID _ _ Hin) as (-> & _).
    split; [apply OUTG; lia|]. cbn [sA set_d set_evq y_down]. apply (Hi G). lia. }
  assert (WOLD : forall k, k < G -> aget k (y_w (apply_outs sA outs)) = aget k (y_w s)).
  { intros k Hk. rewrite apply_outs_w_none; [reflexivity|]. intros sp Hin. destruct (SPID _ _ Hin) as (-> & _). lia. }
  assert (SIGS : forall k, xsigs s k = ev_xsigs_for k ev ++ xsigs (set_result (apply_outs sA outs) rr) k).
  { intros k. rewrite (xsigs_headx s ev q k Eevq). unfold xsigs. cbn [set_result y_evq y_up]. rewrite F1, UP. reflexivity. }
  assert (NDW : forall k, k < G -> ndown ws' k = ndown ws k).
  { intros k Hk. pose proof (hx_nt _ _ _ _ _ _ _ _ E k Hk) as R0. unfold ndown.
    destruct (aget k (ws_nt ws)) as [f|], (aget k (ws_nt ws')) as [f'|]; cbn in R0; try contradiction; [|reflexivity].
    destruct (NRW_fields _ _ _ R0) as (_ & B & _). exact B. }
  assert (ACTB : forall k, k < G -> In k (d_active d') -> In k (d_active (y_d s))).
  { intros k Hk Hin. destruct (hx_actb _ _ _ _ _ _ _ _ E k Hin) as [Y|(Y & _)]; [exact Y|]. fold G in Y. lia. }
  assert (FRESHG : forall k, G <= k -> In k (d_active d') ->
            k = G /\ exists f, aget G (ws_nt ws') = Some f /\ fresh_flags f).
  { intros k Hk Hin. pose proof (AL' k Hin) as Hlt.
    destruct (hx_gw _ _ _ _ _ _ _ _ E) as [Y|(Y & Hf & _)]; fold G in Y; [lia|]. split; [lia|exact Hf]. }
  exists ws'. cbn [set_result y_d]. rewrite F2. split; [exact Els'|]. split; [|split].
  - (* the controller part *)
    constructor.
    + exact (lw_tf _ _ _ _ _ LX).
    + apply (lw_wx _ _ _ _ _ LX); [|exact (qw_wx _ _ _ QCd)].
      intros n -> Hsd Hin. cbn [PREX] in Hpre. destruct Hpre as (_ & Hna & Hnn).
      destruct (qw_k _ _ _ QCd n Hin) as [Y|Y]; [exact (Hnn Hsd Y)|exact (Y Hna)].
    + intros Hsd. apply (lw_sd _ _ _ _ _ LX Hsd). exact (qw_sd _ _ _ QCd).
    + intros m Hm.
      assert (KN : In m (ws_nodes ws) -> In m (ws_nodes ws') \/ ~ In m (d_active d')).
      { intros Y. destruct (kw_nodes _ _ _ _ (lw_kw _ _ _ _ _ LX) m Y) as [Z|[(sk & ->)| ->]]; [left; exact Z|right|right].
        - exact (lw_fin _ _ _ _ _ LX m sk eq_refl).
        - exact (proj2 (hx_err _ _ _ _ _ _ _ _ E m eq_refl)). }
      destruct (kw_cfnew _ _ _ _ (lw_kw _ _ _ _ _ LX) m Hm) as [Y|Y]; [|exact (KN Y)].
      destruct (qw_k _ _ _ QCd m Y) as [Z|Z]; [exact (KN Z)|right]. intros Hin.
      destruct (hx_actb _ _ _ _ _ _ _ _ E m Hin) as [W|(W & _)]; [exact (Z W)|].
      destruct (hx_gw _ _ _ _ _ _ _ _ E) as [U|(_ & _ & _ & _ & U)]; [|subst m; exact (U Hm)].
      pose proof (AL' m Hin). fold G in U, W. lia.
    + intros Hex. apply (lw_exsd _ _ _ _ _ LX Hex). exact (qw_exh _ _ _ QCd).
    + exact (lw_fnn _ _ _ _ _ LX (qw_fnn _ _ _ QCd)).
    + intros Hc' Hss' Hex'.
      assert (Hc : ws_collection_is_completed ws = false).
      { apply not_true_false. intros C. rewrite (kw_comp _ _ _ _ (lw_kw _ _ _ _ _ LX) C) in Hc'. discriminate. }
      assert (Hss : d_shouldstop (y_d s) = false).
      { apply not_true_false. intros C. rewrite (lw_ss _ _ _ _ _ LX C) in Hss'. discriminate. }
      assert (Hex : exhausted (y_d s) = false).
      { apply not_true_false. intros C. rewrite (lw_exh _ _ _ _ _ LX C) in Hex'. discriminate. }
      destruct (qw_early _ _ _ QCd Hc Hss Hex) as (Hsd & Hnosd & l & ND & Hincl & Hlen).
      assert (CALM : calm (y_d s) d') by (split; [exact Hss'|split; [exact Hex'|exact Hsd]]).
      split; [exact (lw_earlysd _ _ _ _ _ LX Hc' CALM)|]. split.
      { intros m f' Ef'. destruct (n_sdsent f') eqn:Es; [exfalso|reflexivity].
        destruct (kw_early _ _ _ _ (lw_kw _ _ _ _ _ LX) CALM Hc' m f' Ef' Es) as (f & Ef & Hs).
        rewrite (Hnosd m f Ef) in Hs. discriminate. }
      assert (KEEP : (forall m b, ev_xsig ev <> Some (m, XFin b)) -> (forall m, ev <> QErrorDown m) ->
                     exists l0, NoDup l0 /\ incl l0 (d_active d') /\ N <= length l0).
      { intros Hnf Hne. exists l. split; [exact ND|]. split; [|exact Hlen]. intros m Hm.
        destruct (hx_act _ _ _ _ _ _ _ _ E m (Hincl m Hm)) as [Y|[(b & Y)|Y]]; [exact Y| |].
        - exfalso. exact (Hnf _ _ Y).
        - exfalso. exact (Hne _ Y). }
      destruct ev as [n|n ids|n key fl|n i|n i|n i k0 oc|n i ms|n ixs| |n|n sk|n];
        try (apply KEEP; intros; discriminate).
      * (* finished: impossible before the collection is complete *)
        exfalso. destruct sk; cbn [PREX] in Hpre.
        -- destruct Hpre as (_ & _ & _ & (f & Ef & Hsf)). rewrite (Hnosd n f Ef) in Hsf. discriminate.
        -- rewrite (lw_stop _ _ _ _ _ LX n eq_refl) in Hss'. discriminate.
        -- contradiction.
      * (* errordown: the replacement takes the place of the dead node *)
        pose proof (lw_clone _ _ _ _ _ LX n eq_refl Hex') as Hgw.
        destruct (hx_gw _ _ _ _ _ _ _ _ E) as [Y|(_ & _ & HinG & _)]; [fold G in Y; lia|]. fold G in HinG, Hgw.
        exists (G :: filter (fun m => negb (Nat.eqb m n)) l). split; [|split].
        -- constructor; [|apply NoDup_filter; exact ND]. intros F. apply in_filter_neq in F. destruct F as (F & _).
           pose proof (AL G (Hincl G F)) as HG. fold G in HG. lia.
        -- intros m [<-|Hm]; [exact HinG|]. apply in_filter_neq in Hm. destruct Hm as (Hm & Hne).
           destruct (hx_act _ _ _ _ _ _ _ _ E m (Hincl m Hm)) as [Y|[(b & Y)|Y]]; [exact Y|discriminate|].
           injection Y as Y. congruence.
        -- cbn [length]. pose proof (filter_neq_len n l ND). lia.
  - (* an alive node that is down and still active *)
    intros n Hdn Hact Hdead. cbn [set_result y_dead y_evq] in Hdead |- *. rewrite F3 in Hdead. rewrite F1.
    destruct (Nat.lt_ge_cases n G) as [Hlt|Hge].
    + rewrite (NDW n Hlt) in Hdn. destruct (PDn n Hdn (ACTB n Hlt Hact) Hdead) as (b & Hb).
      rewrite Eevq, evq_xsigs_cons in Hb. apply in_app_or in Hb. destruct Hb as [Hb|Hb]; [|exists b; exact Hb].
      exfalso. apply ProgressSteal.ev_xsigs_for_in in Hb. destruct (ev_xsig_fin _ _ _ Hb) as (sk & Eev).
      exact (lw_fin _ _ _ _ _ LX n sk Eev Hact).
    + exfalso. destruct (FRESHG n Hge Hact) as (-> & f & Ef & (_ & Hf & _)).
      unfold ndown in Hdn. rewrite Ef in Hdn. congruence.
  - (* the workers *)
    intros k w Hw Hdead. cbn [set_result y_w y_dead y_down] in Hw, Hdead |- *. rewrite F3 in Hdead.
    destruct (Nat.lt_ge_cases k G) as [Hlt|Hge].
    + rewrite (WOLD k Hlt) in Hw. rewrite (NDW k Hlt), DOWN, Hdead.
      destruct (NIs k w Hw) as (_ & _ & _ & D). rewrite Hdead in D.
      assert (AL3 : no_errd k (y_evq s) /\ closedb (ws_nt ws) k = false /\
                    (forall f, aget k (ws_nt ws) = Some f -> n_down f = true -> wph w = PExited)).
      { destruct (P k).
        - destruct D as [_ _ _ D4 D5 D6 _]. auto.
        - destruct D as [_ _ _ D4 D5 D6]. split; [exact D4|]. split; [exact D5|].
          intros f Ef Hd. exact (proj2 (D6 f Ef Hd)). }
      destruct AL3 as (D4 & D5 & D6).
      rewrite Eevq in D4. destruct (no_errd_cons_inv _ _ _ D4) as (Hev & _).
      assert (CM : cmds_to k outs = cmds_to k vo) by (rewrite Eo, cmds_to_vfilter, D5; reflexivity).
      rewrite CM.
      apply (PNX_ctl N X0 ev (y_d s) ws d' ws' vo k _ _ w (ndown ws k) E LX QCd Hlt Hev).
      * intros f' Ef' Hdn'. destruct (NRWo_open _ _ _ _ (hx_nt _ _ _ _ _ _ _ _ E k Hlt) Ef') as (f & Ef & R0).
        destruct (NRW_fields _ _ _ R0) as (_ & Bd & _). apply (D6 f Ef). congruence.
      * rewrite <- (SIGS k). apply PNs; assumption.
    + (* the replacement worker that has just been started *)
      destruct SPW as [(A & Fno)|(A & (sp & Hin) & _)].
      { exfalso. rewrite apply_outs_w_none in Hw by (intros sp Hin; exact (Fno _ _ Hin)).
        destruct (Hi k Hge) as (F & _). cbn [sA set_d set_evq y_w] in Hw. congruence. }
      destruct (Nat.eq_dec k G) as [->|Hne].
      2:{ exfalso. rewrite apply_outs_w_none in Hw.
          - destruct (Hi k Hge) as (F & _). cbn [sA set_d set_evq y_w] in Hw. congruence.
          - intros sp' Hin'. destruct (SPID _ _ Hin') as (-> & _). contradiction. }
      rewrite (apply_outs_spawned outs sA G) in Hw by (right; eauto). injection Hw as <-.
      destruct (hx_gw _ _ _ _ _ _ _ _ E) as [Y|(_ & (f & Ef & (Hf1 & Hf2 & Hf3)) & _)]; [fold G in Y; lia|].
      fold G in Ef.
      destruct (Hi G (le_n G)) as (_ & UG & DG).
      assert (ESG : xsigs (set_result (apply_outs sA outs) rr) G = []).
      { assert (Z : xsigs s G = []).
        { unfold xsigs. rewrite UG. cbn. rewrite app_nil_r. apply (evq_xsigs_fresh c Hpos). exact Eq. }
        pose proof (SIGS G) as Z2. rewrite Z in Z2. symmetry in Z2. apply app_eq_nil in Z2. tauto. }
      rewrite ESG, DOWN, Hdead, DG, (OUTG G (le_n G)). cbn [app].
      apply PNX_init. intros g Eg. assert (g = f) by congruence. subst g. exact Hf1.
Qed.

(* ---- every label ---- *)
Lemma step_qinvw s l s' o w :
  XW c s -> QInvW N s -> sys_step c s l = Some (s', o, w) -> QInvW N s' \/ y_result s' <> None.
Proof.
  intros X Q H. destruct l as [n0|n0|n0|n0| |n0];
    try (left; eapply step_qinvw_worker; [| | |exact H]; [discriminate|exact X|exact Q]).
  pose proof X as [_ _ _ _ _ Ea _ _].
  unfold sys_step in H. destruct (y_result s) eqn:Eres; [discriminate|]. specialize (Ea eq_refl).
  destruct (d_active (y_d s)) as [|a0 ar] eqn:Eact; [contradiction|].
  destruct (y_evq s) as [|ev q] eqn:Eevq; [discriminate|].
  destruct (d_loop_once ev (y_d s)) as [[d' outs] r] eqn:El.
  destruct (step_ctl_corex c Hpos s ev q d' outs r X Eres Eevq El) as (-> & _ & _).
  pose proof (step_qinvw_ctl s ev q d' outs X Q Eres Eevq El) as CORE.
  destruct (d_session_finished d').
  - inv H. left. apply CORE.
  - destruct (d_active d') as [|b0 br].
    + right. destruct (d_no_active d') as [[d2 o2] r2]. inv H. cbn. discriminate.
    + assert (Er1 : y_result (apply_outs (set_d (set_evq s q) d') outs) = None).
      { rewrite apply_outs_result. cbn. exact Eres. }
      rewrite <- (set_result_same' _ None Er1) in H. inv H. left. apply CORE.
Qed.

Lemma qinvw_run ls :
  (XW c (sys_run c ls) /\ QInvW N (sys_run c ls)) \/ y_result (sys_run c ls) <> None.
Proof.
  unfold sys_run.
  assert (G : forall s, (XW c s /\ QInvW N s) \/ y_result s <> None ->
     let s' := fold_left (fun s l => match sys_step c s l with Some (s', _, _) => s' | None => s end) ls s in
     (XW c s' /\ QInvW N s') \/ y_result s' <> None).
  { induction ls as [|l ls IH]; intros s Hs; cbn [fold_left]; [exact Hs|].
    apply IH. destruct (sys_step c s l) as [[[s' o] w]|] eqn:E; [|exact Hs].
    destruct Hs as [(Xs & Qs)|Hr].
    - destruct (step_xw c Hng Hpos s l s' o w Xs E) as [X'|(R & _)].
      + destruct (step_qinvw s l s' o w Xs Qs E) as [Q'|R]; [left; split; assumption|right; exact R].
      + right. rewrite R. discriminate.
    - exfalso. unfold sys_step in E. destruct (y_result s); [discriminate|]. apply Hr. reflexivity. }
  apply G. left. split; [apply XW_init; assumption|apply QInvW_init].
Qed.


(* ###################################### part D ###################################### *)
(* quiescent states are impossible while the session is running *)

Notation Good_label := (CrashProgress.Good_label c).
Notation quietx := (CrashProgress.quietx c).

Lemma quiescent_w s :
  XW c s -> QInvW N s -> y_result s = None -> y_evq s = [] ->
  (forall n w, aget n (y_w s) = Some w -> quietx s n w) -> False.
Proof.
  intros X Q Hres Hevq HQ.
  pose proof X as [Lo Hi (ws & P & DJd & NIs & Pout) Eq Eu Ea Er Edead]. specialize (Ea Hres).
  pose proof DJd as ([Els J AL RQ JB K2] & Kdeg & Kss).
  destruct Q as (wsq & Elsq & QCd & PDn & PNs). assert (wsq = ws) by congruence. subst wsq.
  destruct QCd as [Qtf Qwx Qsd Qk Qexh Qfnn Qearly].
  assert (SG : forall n w, aget n (y_w s) = Some w -> xsigs s n = []).
  { intros n w Hw. destruct (HQ n w Hw) as (Hu & _). unfold xsigs. rewrite Hevq, Hu. reflexivity. }
  (* dead workers: their errordown has been handled *)
  assert (DEADX : forall n w, aget n (y_w s) = Some w -> mem_nat n (y_dead s) = true -> ~ In n (d_active (y_d s))).
  { intros n w Hw Hd. destruct (NIs n w Hw) as (_ & _ & _ & D). rewrite Hd in D. destruct D as [_ D2 _ _].
    destruct (HQ n w Hw) as (Hu & _).
    destruct D2 as [pre f X1 X2 X3 X4 X5 X6 X7|q1 q2 X1 X2 X3 X4 X5 X6 X7|X1 X2 X3 X4 X5].
    - rewrite Hu in X1. destruct pre; discriminate.
    - rewrite Hevq in X2. destruct q1; discriminate.
    - exact X4. }
  (* an active node: alive, heard, waits at an empty queue, was not told to shut down, is registered, its
     collection is recorded, its book holds at most one test and no withdrawal request names it *)
  assert (ACT : forall n, In n (d_active (y_d s)) -> exists f,
            aget n (ws_nt ws) = Some f /\ n_sdsent f = false /\ n_down f = false /\
            In n (ws_nodes ws) /\ In n (akeys (ws_n2c ws)) /\ length (bkw ws n) <= 1 /\ cnt (ws_steal ws) n = 0).
  { intros n Hact. pose proof (AL n Hact) as HnG.
    destruct (aget n (y_w s)) as [w|] eqn:Ew; [|exfalso; exact (Lo n HnG Ew)].
    destruct (mem_nat n (y_dead s)) eqn:Hd; [exfalso; exact (DEADX n w Ew Hd Hact)|].
    destruct (aget n (ws_nt ws)) as [f|] eqn:Ef; [|exfalso; apply (proj2 (xj_ntk _ _ _ _ J n) HnG); exact Ef].
    exists f. split; [reflexivity|].
    pose proof (PNs n w Ew Hd) as Y. rewrite (SG n w Ew) in Y.
    destruct (HQ n w Ew) as (Hu & HQ2). destruct (HQ2 Hd) as (Hdn & Hb & Hm). rewrite Hdn in Y.
    assert (Hdf : n_down f = false).
    { destruct (n_down f) eqn:Ed0; [|reflexivity]. exfalso.
      assert (Z : ndown ws n = true) by (unfold ndown; rewrite Ef; exact Ed0).
      destruct (PDn n Z Hact Hd) as (b & Hb0). rewrite Hevq in Hb0. destruct Hb0. }
    assert (Hnd : ndown ws n = false) by (unfold ndown; rewrite Ef; exact Hdf).
    rewrite Hnd in Y.
    assert (Hnx : wph w <> PExited).
    { intros Ex. destruct (px_fin _ _ _ _ _ _ _ Y Ex Hact eq_refl) as (b & []). }
    apply LivenessLaws.V6_main_step_blocked in Hm.
    destruct (NIs n w Ew) as (Iw0 & Gw & _ & D). rewrite Hd in D.
    assert (BL : wq w = [] /\ wcb w = true /\ prank (wph w) = 2 /\ wph w <> PBoot /\
                 (wph w = PWaitFirst \/ exists cur, wph w = PWaitNext cur)).
    { destruct Hm as [(Ep & Eq0 & Ecb)|[(cur & Ep & Eq0)|Ep]]; [| |contradiction].
      - rewrite Ep. repeat split; auto; try discriminate.
      - pose proof (px_cb _ _ _ _ _ _ _ Y) as Cb. unfold Progress.CB in Cb. rewrite Ep in Cb.
        rewrite Ep. repeat split; auto; try discriminate. right. eexists. reflexivity. }
    destruct BL as (Eq0 & Ecb & Hr & Hnb & Hph).
    unfold Progress.recv_busy in Hb. rewrite Ecb in Hb. cbn [andb] in Hb. apply negb_false_iff in Hb.
    destruct (wrpend w) eqn:Erp; [|discriminate]. destruct (winbox w) eqn:Eib; [|discriminate].
    destruct (wreply w) eqn:Erep; [discriminate|].
    destruct (ProgressSteal.blocked_no_mark w Iw0 Eq0 Erp Eib Erep Hph) as (Hnm & Hom).
    assert (Hsf : n_sdsent f = false).
    { destruct (n_sdsent f) eqn:Es; [|reflexivity]. exfalso. apply Hnm.
      pose proof (px_mark _ _ _ _ _ _ _ Y f Ef Es) as Z. cbn [flat_map] in Z. rewrite app_nil_r in Z. exact Z. }
    split; [exact Hsf|]. split; [exact Hdf|].
    assert (NSD : ~ sdsent_in ws n).
    { intros (g & Eg & Hg). assert (g = f) by congruence. subst g. congruence. }
    split. { destruct (px_ready _ _ _ _ _ _ _ Y Hact Hnb Hnx) as [[]|[Hin|Hin]]; [exact Hin|contradiction]. }
    assert (Hr2 : 2 <= prank (wph w)) by lia.
    split. { destruct (px_cf _ _ _ _ _ _ _ Y Hact Hr2 Hnx) as [[]|[Hin|Hin]]; [exact Hin|contradiction]. }
    destruct (P n) eqn:EP.
    { exfalso. destruct D as [D1 _ _ _ _ _ _]. destruct (sw_ph _ _ _ _ _ _ _ D1) as [Z|Z]; [|contradiction].
      rewrite Z in Hr. discriminate. }
    destruct D as [D1 _ _ _ _ _]. rewrite (SG n w Ew), Hdn in D1. split.
    - pose proof (nw_coupled _ _ _ _ _ _ D1) as Cp. unfold R in Cp. rewrite Erep in Cp.
      cbn [xcompletes xbacks flat_map app reply_inds] in Cp. rewrite !app_nil_r in Cp.
      apply Permutation_length in Cp. lia.
    - pose proof (nw_steal _ _ _ _ _ _ D1) as St. rewrite Eib, Erep in St. unfold nstc, nuns in St. cbn in St. lia. }
  destruct (d_active (y_d s)) as [|a ar] eqn:Eact; [contradiction|].
  assert (Hacta : In a (a :: ar)) by (left; reflexivity).
  destruct (ACT a Hacta) as (fa & Efa & Hsfa & Hdfa & Hina & Hn2ca & Hbka & Hsta).
  destruct (d_shuttingdown (y_d s)) eqn:Esd.
  - (* shutting down: the registered node a was told to shut down, or is down *)
    destruct (Qsd eq_refl a Hina) as (f' & Ef' & Hs'). rewrite Efa in Ef'. inv Ef'.
    unfold shutting_down in Hs'. rewrite Hsfa, Hdfa in Hs'. discriminate.
  - assert (Hss : d_shouldstop (y_d s) = false).
    { destruct (d_shouldstop (y_d s)) eqn:E1; [|reflexivity]. specialize (Kss eq_refl). discriminate. }
    assert (Hex : exhausted (y_d s) = false).
    { destruct (exhausted (y_d s)) eqn:E1; [|reflexivity]. specialize (Qexh eq_refl). discriminate. }
    (* every worker has reported its collection *)
    assert (Hcomp : ws_collection_is_completed ws = true).
    { destruct (ws_collection_is_completed ws) eqn:Ec; [reflexivity|]. exfalso.
      destruct (Qearly eq_refl Hss Hex) as (_ & _ & l & ND & Hincl & Hlen).
      assert (Hinc : incl l (akeys (ws_n2c ws))).
      { intros m Hm. destruct (ACT m (Hincl m Hm)) as (_ & _ & _ & _ & _ & X1 & _). exact X1. }
      pose proof (NoDup_incl_length ND Hinc) as Hl2. rewrite akeys_length in Hl2.
      unfold ws_collection_is_completed in Ec. rewrite (xj_num _ _ _ _ J) in Ec. apply Nat.leb_gt in Ec. lia. }
    (* the session is not degenerate: the tests are distributed, the collection is not empty *)
    assert (Hnd : ~ degenerate ws) by (intros F; specialize (Kdeg F); discriminate).
    assert (Hc : ws_coll ws <> None) by (intros F; apply Hnd; split; [exact Hcomp|left; exact F]).
    assert (Hne : ws_coll ws <> Some []) by (intros F; apply Hnd; split; [exact Hcomp|right; exact F]).
    (* node a is up and idle, so a withdrawal request is outstanding -- but none is in flight *)
    assert (Hup : In a (ws_up ws)).
    { apply ws_up_spec. split; [exact Hina|]. exists fa. split; [exact Efa|]. split.
      - unfold shutting_down. rewrite Hdfa, Hsfa. reflexivity.
      - apply ahas_keys. exact Hn2ca. }
    assert (Hlen : ws_len ws a < 2) by (rewrite ws_len_bkw; lia).
    destruct (Qwx Hne Hc a Hup Hlen) as (_ & Hst).
    destruct (ws_steal ws) as [v|] eqn:Ev; [|congruence].
    assert (Hv : In v (a :: ar)) by (apply (JB Hss); apply (xj_st _ _ _ _ J); exact Ev).
    destruct (ACT v Hv) as (_ & _ & _ & _ & _ & _ & _ & Z). rewrite cnt_some_eq in Z. discriminate.
Qed.

(* in every state satisfying the invariants in which the session has not ended, a useful non-crash move exists *)
Theorem progress_w s :
  XW c s -> QInvW N s -> y_result s = None -> exists l, Good_label s l.
Proof.
  intros X Q Hres.
  destruct (y_evq s) as [|ev q] eqn:Eevq.
  - destruct (CrashProgress.findl c s (seq 0 (d_next_gw (y_d s)))) as [l|] eqn:Ef.
    + destruct (CrashProgress.findl_some _ _ _ _ Ef) as (n & Hn). exists l. eapply CrashProgress.nlab_ok; eauto.
    + exfalso. apply (quiescent_w s X Q Hres Eevq). intros n w Ew.
      apply CrashProgress.nlab_none; [|exact Ew]. apply (CrashProgress.findl_none _ _ _ Ef). apply in_seq.
      pose proof (worker_ltx c s n w X Ew). lia.
  - exists LCtl. split; [exact I|]. split; [reflexivity|].
    unfold sys_step. rewrite Hres, Eevq.
    destruct (d_active (y_d s)).
    + destruct (d_no_active (y_d s)) as [[d' outs] r]. discriminate.
    + destruct (d_loop_once ev (y_d s)) as [[d' outs] r]. destruct r; [|discriminate].
      destruct (d_session_finished d'); [discriminate|].
      destruct (d_active d'); [|discriminate].
      destruct (d_no_active d') as [[d2 outs2] r2]. discriminate.
Qed.

End SysQW.

(* ====================================================================================== *)
(* The theorems                                                                            *)
(* ====================================================================================== *)
Section MainW.
  Variable c : config.
  Variable ls : list label.
  Hypothesis Hmode : c_mode c = MSteal.
  Hypothesis Hnogarbled : no_garbled c.
  Hypothesis Hnodes : 0 < c_numnodes c.
  Hypothesis Hrq : rq_ok c.

  (* C02 with worker failures, no stand-off, --dist worksteal: whatever the schedule (crash labels included),
     whichever workers died (LCrash, c_crash_in), whatever the restart budget (None included), c_strict, the
     collections (replacement workers may disagree), stop requests and --maxfail: while the session has not
     ended some component can make a useful NON-crash move *)
  Theorem steal_crash_c02_no_deadlock_useful :
    y_result (sys_run c ls) = None ->
    exists l, no_crash_label l /\ Progress.useful (sys_run c ls) l = true /\ sys_step c (sys_run c ls) l <> None.
  Proof.
    intros Hres. destruct (qinvw_run c Hmode Hnogarbled Hnodes Hrq ls) as [(X & Q)|R]; [|contradiction].
    exact (progress_w c Hnodes _ X Q Hres).
  Qed.

  Theorem steal_crash_c02_no_deadlock :
    y_result (sys_run c ls) = None ->
    exists l, no_crash_label l /\ sys_step c (sys_run c ls) l <> None.
  Proof.
    intros Hres. destruct (steal_crash_c02_no_deadlock_useful Hres) as (l & A & _ & B). exists l. split; assumption.
  Qed.

  (* the scheduler law behind it, in every reachable state of a running session (shutting down or not, crashes
     or not): once a non-empty collection is fixed, every node that is up (registered, collection recorded,
     neither down nor told to shut down) and idle (holds < 2 tests) sees an empty pool AND an outstanding
     withdrawal request *)
  Theorem steal_crash_idle_has_request : forall wss,
    y_result (sys_run c ls) = None ->
    d_sched (y_d (sys_run c ls)) = StW wss -> ws_coll wss <> Some [] -> ProgressSteal.Wv wss.
  Proof.
    intros wss Hres E Hne. destruct (qinvw_run c Hmode Hnogarbled Hnodes Hrq ls) as [(_ & Q)|R]; [|contradiction].
    destruct Q as (ws & Els & QCd & _). assert (wss = ws) by congruence. subst wss.
    exact (qw_wx _ _ _ QCd Hne).
  Qed.
End MainW.

Check steal_crash_c02_no_deadlock_useful.
Print Assumptions steal_crash_c02_no_deadlock_useful.
Check steal_crash_c02_no_deadlock.
Print Assumptions steal_crash_c02_no_deadlock.
Check steal_crash_idle_has_request.
Print Assumptions steal_crash_idle_has_request.
Check progress_w.
Check step_qinvw.
Check check_Wvx.


(* ====================================================================================== *)
(* Non-vacuity: concrete worksteal sessions with crashes, evaluated                        *)
(* ====================================================================================== *)
(* result; dead workers; the marker steal_requested_from_node; the pool; the books; the useful enabled
   non-crash moves; the enabled moves that are not useful (idle receiver turns) *)
Definition cps_view (c : config) (s : sys) :=
  (y_result s, y_dead s, steal_of s, pool_ws s,
   map (fun n => (n, bookw s n)) (seq 0 (d_next_gw (y_d s))),
   CrashProgress.crp_moves c s, CrashProgress.crp_idle c s).

(* (a) THE VICTIM OF THE OUTSTANDING REQUEST DIES (CrashStealTheorems.xs_kill_victim: 3 workers, 12 tests;
   worker 0 has run 0 1 2, holds test 3 and is idle; the controller has asked worker 1 for its tests 6 7;
   worker 1 is killed with the request on its wire).  The request is lost and the marker stays on the dead
   node -- but the session is not stuck: the controller's receiver thread can read worker 1's end marker.
   Once the errordown is handled the request is cancelled and worker 0 is given 5 6 7. *)
Example cps_ex_victim_dies :
  cps_view c01w_cfg (sys_run c01w_cfg xs_kill_victim) =
    (None, [1], Some 1, [], [(0, [3]); (1, [4; 5; 6; 7]); (2, [8; 9; 10; 11])],
     [LRecv 1; LDeliver 2], [LRecvW 0; LRecvW 2]) /\
  (let s := sys_run c01w_cfg (xs_kill_victim ++ [LRecv 1; LCtl]) in
   (steal_of s, bookw s 0, bookw s 1, d_next_gw (y_d s)) = (None, [3; 5; 6; 7], [], 4)).
Proof. vm_compute. split; reflexivity. Qed.

(* (b) THE THIEF DIES: in the same session the idle worker 0 is killed instead.  Its end marker can be
   read; workers 1 and 2 go on; the request to worker 1 is still answered *)
Example cps_ex_thief_dies :
  cps_view c01w_cfg (sys_run c01w_cfg (c01w_sched_request ++ [LCrash 0])) =
    (None, [0], Some 1, [], [(0, [3]); (1, [4; 5; 6; 7]); (2, [8; 9; 10; 11])],
     [LRecv 0; LDeliver 1; LMain 1; LDeliver 2], [LRecvW 1; LRecvW 2]).
Proof. vm_compute. reflexivity. Qed.

(* (c) the victim dies WITH ITS REPLY ON THE WIRE / COMPUTED BUT NOT SENT: the wire of the dead worker can
   be read in both cases (in the second one only the end marker is left) *)
Example cps_ex_reply_of_dead_victim :
  CrashProgress.crp_moves c01w_cfg (sys_run c01w_cfg xs_kill_replied) = [LRecv 1; LDeliver 2] /\
  CrashProgress.crp_moves c01w_cfg (sys_run c01w_cfg xs_kill_replying) = [LRecv 1; LDeliver 2].
Proof. vm_compute. split; reflexivity. Qed.

(* (d) ALL WORKERS DEAD AND THE RESTART BUDGET EXHAUSTED (--max-worker-restart 0): both workers are killed
   before they boot.  The only useful moves: the controller's receiver thread reads the two end markers,
   then the main loop handles the two errordown events; the second one ends the session *)
Definition cps_cfg0 : config :=
  {| c_mode := MSteal; c_numnodes := 2; c_chunk := None; c_maxfail := 0%Z; c_max_restart := Some 0%Z;
     c_requeue := 0; c_coll := fun _ => crx_names 6; c_oracle := fun _ => crx_oracle 6;
     c_dur := fun _ => 0%Z; c_crash_in := fun _ _ => false; c_strict := false; c_spec := fun _ => 0 |}.
Example cps_ex_all_dead :
  let c := cps_cfg0 in
  CrashProgress.crp_moves c (sys_run c [LCrash 0; LCrash 1]) = [LRecv 0; LRecv 1] /\
  CrashProgress.crp_moves c (sys_run c [LCrash 0; LCrash 1; LRecv 0; LRecv 1]) = [LCtl] /\
  y_result (sys_run c [LCrash 0; LCrash 1; LRecv 0; LRecv 1; LCtl]) = None /\
  CrashProgress.crp_moves c (sys_run c [LCrash 0; LCrash 1; LRecv 0; LRecv 1; LCtl]) = [LCtl] /\
  y_result (sys_run c [LCrash 0; LCrash 1; LRecv 0; LRecv 1; LCtl; LCtl]) = Some RFinished.
Proof. vm_compute. repeat split. Qed.

(* (e) a whole session driven by "always the first useful move" (CrashProgress.crp_greedy), with worker 1
   killed before move 60, worker 0 before move 90 and the replacement worker 3 before move 130: three
   deaths, three replacements (ids 3 4 5), 223 moves, "finished", no marker left *)
Example cps_ex_greedy_three_crashes :
  let c := c01w_cfg in
  let ls := CrashProgress.crp_greedy c (sys_init c) 4000 0 [(60, 1); (90, 0); (130, 3)] in
  length ls = 223 /\ y_result (sys_run c ls) = Some RFinished /\ y_dead (sys_run c ls) = [3; 0; 1] /\
  d_next_gw (y_d (sys_run c ls)) = 6 /\ steal_of (sys_run c ls) = None /\
  filter (fun l => match l with LCrash _ => true | _ => false end) ls = [LCrash 1; LCrash 0; LCrash 3].
Proof. vm_compute. repeat split. Qed.

(* (f) the documented exit (CrashStealTheorems.xs_cfg_diff): the only worker dies, its replacement collects a
   different list and is shut down; "always the first useful move" ends with RuntimeError("no active
   workers") after 34 moves, the tests 1 2 3 still in the pool: no hypothesis on the collections is needed *)
Example cps_ex_greedy_no_active_workers :
  let ls := CrashProgress.crp_greedy xs_cfg_diff (sys_init xs_cfg_diff) 4000 0 [] in
  length ls = 34 /\ y_result (sys_run xs_cfg_diff ls) = Some (RError ERuntimeNoWorkers) /\
  pool_ws (sys_run xs_cfg_diff ls) = [1; 2; 3].
Proof. vm_compute. repeat split. Qed.

(* (g) the theorems apply to the states of (a), (b), (d) and to a state of (f) *)
Lemma cps_cfg0_hyps :
  c_mode cps_cfg0 = MSteal /\ no_garbled cps_cfg0 /\ 0 < c_numnodes cps_cfg0 /\ rq_ok cps_cfg0.
Proof.
  split; [reflexivity|]. split; [|split; [cbn; lia|left; reflexivity]].
  intros n i H. cbn in H. destruct H as [H|[]]. discriminate.
Qed.
Lemma xs_cfg_diff_hyps :
  c_mode xs_cfg_diff = MSteal /\ no_garbled xs_cfg_diff /\ 0 < c_numnodes xs_cfg_diff /\ rq_ok xs_cfg_diff /\
  ~ (forall n, c_coll xs_cfg_diff n = c_coll xs_cfg_diff 0).
Proof.
  split; [reflexivity|]. split; [|split; [cbn; lia|split; [left; reflexivity|]]].
  - intros n i H. cbn in H. destruct H as [H|[]]. discriminate.
  - intros F. specialize (F 1). vm_compute in F. discriminate.
Qed.

Example cps_ex_theorems_apply :
  (let s := sys_run c01w_cfg xs_kill_victim in
   exists l, no_crash_label l /\ Progress.useful s l = true /\ sys_step c01w_cfg s l <> None) /\
  (let s := sys_run c01w_cfg (c01w_sched_request ++ [LCrash 0]) in
   exists l, no_crash_label l /\ Progress.useful s l = true /\ sys_step c01w_cfg s l <> None) /\
  (let s := sys_run cps_cfg0 [LCrash 0; LCrash 1; LRecv 0; LRecv 1; LCtl] in
   exists l, no_crash_label l /\ Progress.useful s l = true /\ sys_step cps_cfg0 s l <> None) /\
  (let s := sys_run xs_cfg_diff (firstn 30 (CrashProgress.crp_greedy xs_cfg_diff (sys_init xs_cfg_diff) 4000 0 [])) in
   exists l, no_crash_label l /\ Progress.useful s l = true /\ sys_step xs_cfg_diff s l <> None) /\
  (* the idle worker 0 of (a) sees an empty pool and an outstanding request *)
  (forall wss, d_sched (y_d (sys_run c01w_cfg xs_kill_victim)) = StW wss ->
     In 0 (ws_up wss) /\ ws_len wss 0 = 1 /\ ws_pending wss = [] /\ ws_steal wss <> None).
Proof.
  cbv zeta. destruct c01w_hyps as (H1 & H2 & H3 & _ & H5 & _).
  destruct cps_cfg0_hyps as (K1 & K2 & K3 & K4). destruct xs_cfg_diff_hyps as (D1 & D2 & D3 & D4 & _).
  split; [apply steal_crash_c02_no_deadlock_useful; try assumption; vm_compute; reflexivity|].
  split; [apply steal_crash_c02_no_deadlock_useful; try assumption; vm_compute; reflexivity|].
  split; [apply steal_crash_c02_no_deadlock_useful; try assumption; vm_compute; reflexivity|].
  split; [apply steal_crash_c02_no_deadlock_useful; try assumption; vm_compute; reflexivity|].
  intros wss E.
  assert (HW : ProgressSteal.Wv wss).
  { apply (steal_crash_idle_has_request c01w_cfg xs_kill_victim H1 H2 H3 H5 wss); [vm_compute; reflexivity|exact E|].
    vm_compute in E. injection E as <-. discriminate. }
  assert (Hup : In 0 (ws_up wss)) by (vm_compute in E; injection E as <-; vm_compute; left; reflexivity).
  assert (Hlen : ws_len wss 0 = 1) by (vm_compute in E; injection E as <-; reflexivity).
  assert (Hc : ws_coll wss <> None) by (vm_compute in E; injection E as <-; discriminate).
  split; [exact Hup|]. split; [exact Hlen|]. apply (HW Hc 0 Hup). lia.
Qed.
Print Assumptions cps_ex_theorems_apply.

