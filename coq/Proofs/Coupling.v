(* Coupling.v -- the book coupling invariant of the load scheduler, and its consequences.

   For --dist load, no worker failure (c_crash_in constantly false, no LCrash label, no undecodable
   report: no_garbled c -- the receiver thread writes a worker off for one, exactly as for a crash),
   no empty test id and at least one worker, in EVERY reachable state of Model/System.v:

   (1) Coupled: the controller's book of node n (node2pending[n]) equals, IN ORDER,
         completes on the controller's event queue ++ completes on n's wire up
         ++ indices taken by n's main thread whose completion has not been emitted
         ++ n's queue ++ rest of the command being unpacked ++ n's inbox ++ commands on n's wire down
       (theorem coupling_invariant);
   (2) the controller never raises (controller_never_raises), hence c01_places_nodup and
       c01_started_are_collected hold without the not_errored hypothesis;
   (3) conservation: pool + wires + workers hold every index exactly once (ci_perm, used by
       Completeness.v).

   Organisation: part A worker-level lemmas; part B the load scheduler (no exception + exact effect on
   books and node flags); part C the controller (DSession) handlers; part D the system invariant CInv,
   its preservation by every step, and the theorems.

   The receiver thread ignores every message of a node it has marked down.  In these runs a node is
   only marked down when its "finished" is read, which is the last signal the worker ever emits
   (ci_dn: a down node has exited and none of its signals is left on its wire), so nothing that the
   books depend on is ever dropped. *)
(* Coupling.v, part A: definitions (signals in flight, what a worker still owes, command
   streams) and the worker-level lemmas. *)
From XV Require Import Base Worker Ctl SchedLoad SchedSteal SchedScope SchedEach Sched DSession System
  NoHook DSessionProofs WorkerProofs LoadProofs FifoProofs ExactlyOnce.
From Coq Require Import Permutation.
Open Scope nat_scope.

(* ====================================================================================== *)
(* A.0 small list facts                                                                    *)
(* ====================================================================================== *)
Lemma flat_map_app' {A B} (f : A -> list B) a b : flat_map f (a ++ b) = flat_map f a ++ flat_map f b.
Proof. apply flat_map_app. Qed.

Lemma map_eq_nil' {A B} (f : A -> B) l : map f l = [] -> l = [].
Proof. destruct l; [reflexivity|discriminate]. Qed.

Lemma cmd_inds_items c : cmd_inds c = item_inds (match c with CRun l => map Idx l | CShutdown | CEnd => [Mark] | _ => [] end).
Proof. destruct c; cbn; try reflexivity. rewrite item_inds_map_idx. reflexivity. Qed.

Lemma item_inds_app a b : item_inds (a ++ b) = item_inds a ++ item_inds b.
Proof. unfold item_inds. apply flat_map_app. Qed.

(* ====================================================================================== *)
(* A.1 the signals of one worker that are still in flight                                  *)
(* ====================================================================================== *)
Inductive sig := SgReady | SgCF | SgComp (i : nat) | SgFin (stop : bool).

Definition ev_sig (ev : cevent) : option (nat * sig) :=
  match ev with
  | QReady n => Some (n, SgReady)
  | QCollFinish n _ => Some (n, SgCF)
  | QComplete n i _ => Some (n, SgComp i)
  | QFinished n sk => Some (n, SgFin (match sk with SKNone => false | _ => true end))
  | _ => None
  end.
Definition ev_sigs_for (n : nat) (ev : cevent) : list sig :=
  match ev_sig ev with Some (m, g) => if Nat.eqb m n then [g] else [] | None => [] end.
Definition evq_sigs (n : nat) (q : list cevent) : list sig := flat_map (ev_sigs_for n) q.
Definition we_sig (e : wevent) : list sig :=
  match e with
  | EReady => [SgReady]
  | ECollFinish => [SgCF]
  | EComplete i => [SgComp i]
  | EFinished s => [SgFin s]
  | _ => []
  end.
Definition up_sig (m : upmsg) : list sig :=
  match m with
  | UEv ECollFinish => []
  | UEv e => we_sig e
  | UCollFinish _ => [SgCF]
  | UComplete i _ => [SgComp i]
  | _ => []
  end.
Definition sigs (s : sys) (n : nat) : list sig :=
  evq_sigs n (y_evq s) ++ flat_map up_sig (alist_get [] n (y_up s)).

Definition completes (L : list sig) : list nat :=
  flat_map (fun g => match g with SgComp i => [i] | _ => [] end) L.

Lemma completes_app a b : completes (a ++ b) = completes a ++ completes b.
Proof. apply flat_map_app. Qed.

Lemma evq_sigs_app n a b : evq_sigs n (a ++ b) = evq_sigs n a ++ evq_sigs n b.
Proof. apply flat_map_app. Qed.

Lemma up_sig_of_wevent c n e : up_sig (up_of_wevent c n e) = we_sig e.
Proof. destruct e; try reflexivity. destruct oc; reflexivity. Qed.

Lemma up_sigs_of_wevents c n evs :
  flat_map up_sig (map (up_of_wevent c n) evs) = flat_map we_sig evs.
Proof.
  induction evs as [|e evs IH]; cbn [map flat_map]; [reflexivity|].
  rewrite up_sig_of_wevent, IH. reflexivity.
Qed.

(* ranks: the order in which a worker emits its signals *)
Definition srank (g : sig) : nat :=
  match g with SgReady => 0 | SgCF => 1 | SgComp _ => 2 | SgFin _ => 3 end.
Definition prank (p : phase) : nat :=
  match p with
  | PBoot => 0
  | PCollStart | PColl _ => 1
  | PWaitFirst | PWaitNext _ | PGot _ _ | PRun _ _ _ => 2
  | PFinishing _ => 3
  | PExited => 4
  end.
Definition prec (a b : nat) : Prop := a < b \/ (a = 2 /\ b = 2).

Fixpoint sorted_sigs (L : list sig) : Prop :=
  match L with
  | [] => True
  | g :: r => Forall (fun h => prec (srank g) (srank h)) r /\ sorted_sigs r
  end.
Definition chan_ok (k : nat) (L : list sig) : Prop :=
  sorted_sigs L /\ Forall (fun g => prec (srank g) k) L.

Lemma prec_mono a b b' : prec a b -> b <= b' -> prec a b'.
Proof. unfold prec. lia. Qed.

Lemma chan_ok_nil k : chan_ok k [].
Proof. split; [exact I|constructor]. Qed.

Lemma chan_ok_mono k k' L : chan_ok k L -> k <= k' -> chan_ok k' L.
Proof.
  intros (S & F) Hk. split; [exact S|]. eapply Forall_impl; [|exact F].
  intros g Hg. exact (prec_mono _ _ _ Hg Hk).
Qed.

Lemma sorted_snoc L g : sorted_sigs L -> Forall (fun h => prec (srank h) (srank g)) L -> sorted_sigs (L ++ [g]).
Proof.
  induction L as [|h L IH]; cbn; intros S F; [split; [constructor|exact I]|].
  destruct S as (S1 & S2). inversion F as [|h' L' F1 F2]; subst. split.
  - apply Forall_app. split; [exact S1|constructor; [exact F1|constructor]].
  - apply IH; assumption.
Qed.

Lemma chan_ok_snoc k k' L g :
  chan_ok k L -> srank g = k -> prec k k' -> k <= k' -> chan_ok k' (L ++ [g]).
Proof.
  intros (S & F) Eg Hp Hk. split.
  - apply sorted_snoc; [exact S|]. rewrite Eg. exact F.
  - apply Forall_app. split.
    + eapply Forall_impl; [|exact F]. intros h Hh. exact (prec_mono _ _ _ Hh Hk).
    + constructor; [rewrite Eg; exact Hp|constructor].
Qed.

Lemma chan_ok_tail k g L : chan_ok k (g :: L) -> chan_ok k L.
Proof. intros ((S1 & S2) & F). inversion F; subst. split; assumption. Qed.

Lemma chan_ok_head k g L : chan_ok k (g :: L) ->
  prec (srank g) k /\ Forall (fun h => prec (srank g) (srank h)) L.
Proof. intros ((S1 & S2) & F). inversion F; subst. split; assumption. Qed.

Lemma srank_le3 g : srank g <= 3.
Proof. destruct g; cbn; lia. Qed.

Lemma chan_ok_fin_head k b L : chan_ok k (SgFin b :: L) -> L = [] /\ 4 <= k.
Proof.
  intros H. destruct (chan_ok_head _ _ _ H) as (Hk & F). cbn in Hk. split.
  - destruct L as [|h L]; [reflexivity|]. inversion F as [|h' L' F1 F2]; subst.
    pose proof (srank_le3 h). unfold prec in F1. cbn in F1. lia.
  - unfold prec in Hk. lia.
Qed.

Lemma chan_ok_fin_mid k A b L : chan_ok k (A ++ SgFin b :: L) -> L = [] /\ 4 <= k.
Proof.
  induction A as [|g A IH]; cbn [app]; intros H; [exact (chan_ok_fin_head _ _ _ H)|].
  apply IH. eapply chan_ok_tail. exact H.
Qed.

Lemma chan_ok_in k g L : chan_ok k L -> In g L -> prec (srank g) k.
Proof. intros (_ & F) Hin. rewrite Forall_forall in F. apply F. exact Hin. Qed.

Lemma chan_ok_ready_head k L : chan_ok k (SgReady :: L) -> ~ In SgReady L /\ 1 <= k.
Proof.
  intros H. destruct (chan_ok_head _ _ _ H) as (Hk & F). cbn in Hk. split.
  - intros Hin. rewrite Forall_forall in F. specialize (F _ Hin). unfold prec in F. cbn in F. lia.
  - unfold prec in Hk. lia.
Qed.

Lemma chan_ok_cf_head k L : chan_ok k (SgCF :: L) -> ~ In SgCF L /\ 2 <= k.
Proof.
  intros H. destruct (chan_ok_head _ _ _ H) as (Hk & F). cbn in Hk. split.
  - intros Hin. rewrite Forall_forall in F. specialize (F _ Hin). unfold prec in F. cbn in F. lia.
  - unfold prec in Hk. lia.
Qed.

Lemma prank_4 p : 4 <= prank p -> p = PExited.
Proof. destruct p; cbn; intros H; try lia. reflexivity. Qed.

(* ====================================================================================== *)
(* A.2 what a worker still owes, and its command stream                                    *)
(* ====================================================================================== *)
Definition owed_main (w : wst) : list nat :=
  match wph w with
  | PWaitNext cur => [snd cur]
  | PGot cur nxt | PRun cur nxt _ => snd cur :: item_inds [snd nxt]
  | PFinishing _ | PExited => item_inds [snd (last (wpopped w) (0, Mark))]
  | _ => []
  end.
Definition owed_w (w : wst) : list nat :=
  owed_main w ++ ents_idx (wq w) ++ item_inds (wrpend w) ++ flat_map cmd_inds (winbox w).

Definition cmd_items (c : cmd) : list item :=
  match c with CRun l => map Idx l | CShutdown | CEnd => [Mark] | _ => [] end.
Definition wstream (w : wst) : list item :=
  map snd (wpopped w) ++ map snd (wq w) ++ wrpend w ++ flat_map cmd_items (winbox w).

Lemma cmd_inds_eq c : cmd_inds c = item_inds (cmd_items c).
Proof. apply cmd_inds_items. Qed.

Lemma fm_cmd_inds_items l : flat_map cmd_inds l = item_inds (flat_map cmd_items l).
Proof.
  induction l as [|c l IH]; [reflexivity|]. cbn [flat_map]. rewrite item_inds_app, <- IH, cmd_inds_eq. reflexivity.
Qed.

Lemma ents_idx_items l : ents_idx l = item_inds (map snd l).
Proof.
  induction l as [|[t it] l IH]; [reflexivity|]. cbn [map snd]. rewrite item_inds_cons, <- IH.
  destruct it; reflexivity.
Qed.

Fixpoint mlast (l : list item) : bool :=
  match l with
  | [] => true
  | Mark :: r => match r with [] => true | _ => false end
  | Idx _ :: r => mlast r
  end.
Definition is_idx_item (it : item) : bool := match it with Idx _ => true | Mark => false end.
Definition nomark (l : list item) : bool := forallb is_idx_item l.
Definition mark_ok (sd : bool) (l : list item) : Prop :=
  mlast l = true /\ (sd = false -> nomark l = true).

Lemma nomark_app a b : nomark (a ++ b) = nomark a && nomark b.
Proof. apply forallb_app. Qed.

Lemma nomark_map_idx l : nomark (map Idx l) = true.
Proof. induction l; cbn; auto. Qed.

Lemma nomark_mlast l : nomark l = true -> mlast l = true.
Proof. induction l as [|[i|] l IH]; cbn; auto. discriminate. Qed.

Lemma mlast_app_nomark a b : nomark a = true -> mlast (a ++ b) = mlast b.
Proof. induction a as [|[i|] a IH]; cbn; auto. discriminate. Qed.

Lemma mlast_mark_inv a b : mlast (a ++ Mark :: b) = true -> b = [].
Proof.
  induction a as [|[i|] a IH]; cbn.
  - destruct b; [reflexivity|discriminate].
  - exact IH.
  - destruct (a ++ Mark :: b) eqn:E; [destruct a; discriminate|discriminate].
Qed.

Lemma nomark_not_in l : nomark l = true -> ~ In Mark l.
Proof.
  induction l as [|[i|] l IH]; cbn; [tauto| |discriminate].
  intros H [F|F]; [discriminate|]. exact (IH H F).
Qed.

Lemma mark_ok_nil sd : mark_ok sd [].
Proof. split; reflexivity. Qed.

(* the flags of a node and the commands put on its channel, in order *)
Inductive NR : nctl -> list cmd -> nctl -> Prop :=
| NR_nil f : NR f [] f
| NR_run f ixs cs f' : n_sdsent f = false -> NR f cs f' -> NR f (CRun ixs :: cs) f'
| NR_sd f cs f' : n_sdsent f = false -> NR (sd_mark f) cs f' -> NR f (CShutdown :: cs) f'.

Lemma NR_app f a f1 b f2 : NR f a f1 -> NR f1 b f2 -> NR f (a ++ b) f2.
Proof.
  intros H1 H2. induction H1 as [f|f ixs cs f' Hs H1 IH|f cs f' Hs H1 IH]; cbn [app].
  - exact H2.
  - apply NR_run; [exact Hs|apply IH; exact H2].
  - apply NR_sd; [exact Hs|apply IH; exact H2].
Qed.

Lemma NR_sdsent_true f cs f' : NR f cs f' -> n_sdsent f = true -> cs = [] /\ f' = f.
Proof. intros H Hs. destruct H; [auto|congruence|congruence]. Qed.

Lemma NR_fields f cs f' : NR f cs f' ->
  n_spec f' = n_spec f /\ n_down f' = n_down f /\ n_closed f' = n_closed f /\
  (n_sdsent f' = true <-> n_sdsent f = true \/ In CShutdown cs) /\
  Forall good_cmd cs.
Proof.
  intros H. induction H as [f|f ixs cs f' Hs H1 IH|f cs f' Hs H1 IH].
  - split; [reflexivity|]. split; [reflexivity|]. split; [reflexivity|]. split; [|constructor].
    split; [intros X; left; exact X|intros [X|[]]; exact X].
  - destruct IH as (A & B & C & D & E).
    split; [exact A|]. split; [exact B|]. split; [exact C|]. split; [|constructor; [exact I|exact E]].
    split.
    + intros X. apply D in X. destruct X as [X|X]; [left; exact X|right; right; exact X].
    + intros [X|[X|X]]; [apply D; left; exact X|discriminate|apply D; right; exact X].
  - destruct IH as (A & B & C & D & E). cbn in A, B, C.
    split; [exact A|]. split; [exact B|]. split; [exact C|]. split; [|constructor; [exact I|exact E]].
    split.
    + intros _. right. left. reflexivity.
    + intros _. apply D. left. reflexivity.
Qed.

Lemma NR_mark_ok f cs f' st :
  NR f cs f' -> mark_ok (n_sdsent f) st -> mark_ok (n_sdsent f') (st ++ flat_map cmd_items cs).
Proof.
  intros H. revert st. induction H as [f|f ixs cs f' Hs H1 IH|f cs f' Hs H1 IH]; intros st (M1 & M2).
  - cbn. rewrite app_nil_r. split; assumption.
  - cbn [flat_map cmd_items]. rewrite app_assoc. apply IH.
    specialize (M2 Hs). split.
    + apply nomark_mlast. rewrite nomark_app, M2, nomark_map_idx. reflexivity.
    + intros _. rewrite nomark_app, M2, nomark_map_idx. reflexivity.
  - cbn [flat_map cmd_items]. rewrite app_assoc. apply IH.
    specialize (M2 Hs). split.
    + rewrite mlast_app_nomark by exact M2. reflexivity.
    + cbn. discriminate.
Qed.

(* ====================================================================================== *)
(* A.3 the worker's steps                                                                  *)
(* ====================================================================================== *)
Definition ok_wev (e : wevent) : Prop := match e with EUnscheduled _ => False | _ => True end.

Lemma recv_next_spec o inbox : forall w,
  Forall good_cmd inbox ->
  let w' := recv_next o w inbox in
  wph w' = wph w /\ wpopped w' = wpopped w /\ wreply w' = wreply w /\ wcb w' = wcb w /\
  ents_idx (wq w') ++ item_inds (wrpend w') ++ flat_map cmd_inds (winbox w') =
    ents_idx (wq w) ++ flat_map cmd_inds inbox /\
  map snd (wq w') ++ wrpend w' ++ flat_map cmd_items (winbox w') =
    map snd (wq w) ++ flat_map cmd_items inbox.
Proof.
  induction inbox as [|c r IH]; intros w G; cbv zeta.
  - cbn. rewrite !app_nil_r. repeat split; reflexivity.
  - inversion G as [|c' r' Gc Gr]; subst. destruct c as [ixs| |s| |]; try contradiction.
    + destruct ixs as [|i ixs]; [exact (IH w Gr)|].
      cbn [recv_next upd_recv w_put wph wpopped wreply wcb wq wrpend winbox flat_map cmd_inds cmd_items map].
      rewrite ents_idx_app, item_inds_map_idx, map_app. cbn [ents_idx ent_idx snd map].
      rewrite <- !app_assoc. repeat split; reflexivity.
    + cbn [recv_next upd_recv w_put wph wpopped wreply wcb wq wrpend winbox flat_map cmd_inds cmd_items map].
      rewrite ents_idx_app, map_app. cbn [ents_idx ent_idx snd map item_inds flat_map app].
      rewrite app_nil_r, <- !app_assoc. repeat split; reflexivity.
    + cbn [recv_next upd_recv w_put wph wpopped wreply wcb wq wrpend winbox flat_map cmd_inds cmd_items map].
      rewrite ents_idx_app, map_app. cbn [ents_idx ent_idx snd map item_inds flat_map app].
      rewrite app_nil_r, <- !app_assoc. repeat split; reflexivity.
Qed.

Lemma owed_main_ext w w' : wph w' = wph w -> wpopped w' = wpopped w -> owed_main w' = owed_main w.
Proof. intros E1 E2. unfold owed_main. rewrite E1, E2. reflexivity. Qed.

(* the receiver thread moves items towards the queue; nothing is emitted in load mode *)
Lemma recv_step_owed o w :
  Forall good_cmd (winbox w) -> wreply w = None ->
  let w' := fst (recv_step o w) in
  snd (recv_step o w) = [] /\ owed_w w' = owed_w w /\ wstream w' = wstream w /\
  wph w' = wph w /\ wpopped w' = wpopped w /\ wreply w' = None.
Proof.
  intros G Hr. cbv zeta. unfold recv_step. destruct (negb (wcb w)); [cbn; auto 10|].
  rewrite Hr. cbn [upd_recv wrpend winbox].
  destruct (wrpend w) as [|it rest] eqn:Er; cbn [fst snd].
  - destruct (recv_next_spec o (winbox w) (upd_recv w (winbox w) [] None) G) as (A & B & C & _ & D & E).
    cbn [upd_recv wph wpopped wreply wq] in A, B, C, D, E.
    split; [reflexivity|]. split; [|split; [|auto]].
    + unfold owed_w. rewrite (owed_main_ext w _ A B), D, Er. reflexivity.
    + unfold wstream. rewrite B, E, Er. reflexivity.
  - split; [reflexivity|]. split; [|split; [|auto]].
    + unfold owed_w. cbn [upd_recv w_put wq wrpend winbox]. rewrite Er.
      rewrite ents_idx_app, ents_idx_one, (item_inds_cons it rest), <- !app_assoc. reflexivity.
    + unfold wstream. cbn [upd_recv w_put wq wrpend winbox wpopped]. rewrite Er, map_app.
      cbn [map snd app]. rewrite <- !app_assoc. reflexivity.
Qed.

Lemma deliver_owed w c :
  owed_w (deliver w c) = owed_w w ++ cmd_inds c /\ wstream (deliver w c) = wstream w ++ cmd_items c /\
  wph (deliver w c) = wph w /\ wpopped (deliver w c) = wpopped w /\ wreply (deliver w c) = wreply w.
Proof.
  unfold owed_w, wstream, deliver. cbn [upd_recv wq wrpend winbox wpopped wph wreply].
  rewrite !flat_map_app. cbn [flat_map]. rewrite !app_nil_r, <- !app_assoc.
  repeat split; reflexivity.
Qed.

Definition markpopped (w : wst) : Prop := exists pre t, wpopped w = pre ++ [(t, Mark)].

(* worker-side extras: no steal reply pending, and a running protocol only has reports left *)
Definition rep_ev (e : wevent) : Prop :=
  match e with ELogStart _ | EReport _ _ _ | ELogFinish _ => True | _ => False end.
Definition WX (w : wst) : Prop :=
  wreply w = None /\ match wph w with PRun _ _ sc => Forall rep_ev sc | _ => True end.

Lemma WX_init : WX w_init.
Proof. split; [reflexivity|exact I]. Qed.

Lemma script_of_rep o i : Forall rep_ev (script_of o i).
Proof.
  unfold script_of. apply Forall_app. split; [repeat constructor|]. apply Forall_app. split; [|repeat constructor].
  apply Forall_forall. intros e He. apply in_map_iff in He. destruct He as (p & <- & _). exact I.
Qed.

Lemma last_snoc2 {A} (l : list A) a b d : last (l ++ [a; b]) d = b.
Proof. change [a; b] with ([a] ++ [b]). rewrite app_assoc. apply last_last. Qed.

(* case analysis of one main-thread step: 13 enabled cases *)
Ltac ms_cases H :=
  unfold main_step in H;
  match type of H with
  | context [wph ?w] =>
    let P := fresh "P" in
    destruct (wph w) as [|rest| | |cur|cur nxt|cur nxt script|sfin|] eqn:P;
    [ | destruct rest as [|[k fl] rest] | 
      | let Q := fresh "Q" in let CB := fresh "CB" in
        destruct (wq w) as [|[t [i|]] q'] eqn:Q; [destruct (wcb w) eqn:CB; [discriminate|] | | ]
      | let Q := fresh "Q" in destruct (wq w) as [|nxt q'] eqn:Q; [discriminate|]
      | | destruct script as [|e script] | | discriminate ];
    inversion H; subst; clear H
  end.

Ltac wproj := cbn [upd_ph w_pop set_cb add_ran wph wq wrpend winbox wreply wpopped wcb wflag wntag wran wputs wstolen].

Lemma main_step_WX o w w' evs : WX w -> main_step o w = Some (w', evs) -> WX w'.
Proof.
  intros (X1 & X2) H. unfold WX in *. ms_cases H; wproj; (split; [exact X1|]); rewrite ?P; try exact I.
  - apply Forall_app. split; [|repeat constructor].
    apply Forall_forall. intros e He. apply in_map_iff in He. destruct He as (p & <- & _). exact I.
  - destruct (stops_after o (snd cur)); [exact I|]. destruct (snd nxt); exact I.
  - inversion X2; assumption.
Qed.

Lemma main_step_frame o w w' evs : main_step o w = Some (w', evs) ->
  wrpend w' = wrpend w /\ winbox w' = winbox w /\ wreply w' = wreply w /\ wstream w' = wstream w.
Proof.
  intros H. ms_cases H; unfold wstream; wproj; try rewrite Q; repeat split; try reflexivity;
    rewrite map_app; cbn [map app]; rewrite <- app_assoc; reflexivity.
Qed.

(* what the worker owes before = what it reports as complete ++ what it owes afterwards *)
Lemma main_step_owed o w w' evs :
  WInv w -> WX w -> main_step o w = Some (w', evs) ->
  owed_main w ++ ents_idx (wq w) = completes (flat_map we_sig evs) ++ owed_main w' ++ ents_idx (wq w').
Proof.
  intros I (_ & X2) H. pose proof (inv_phase w I) as E. unfold phase_inv in E.
  ms_cases H; unfold owed_main; wproj; rewrite ?P, ?Q; try reflexivity.
  - (* first get: the shutdown marker *)
    destruct E as (Ep & _). rewrite Ep. reflexivity.
  - (* next get *)
    destruct nxt as [t it]. cbn [ents_idx ent_idx snd item_inds flat_map]. destruct it; reflexivity.
  - (* end of a protocol *)
    destruct E as (pre & Ep & _).
    assert (Hl : last (wpopped w) (0, Mark) = nxt) by (rewrite Ep; apply last_snoc2).
    cbn [flat_map we_sig completes app].
    destruct (stops_after o (snd cur)); wproj.
    + rewrite Hl. reflexivity.
    + destruct nxt as [t [j|]]; cbn [snd fst]; wproj; [reflexivity|]. rewrite Hl. reflexivity.
  - (* a report *)
    inversion X2 as [|e' sc' He Hsc]; subst. destruct e; try contradiction; reflexivity.
Qed.

Lemma rep_ev_sig e : rep_ev e -> we_sig e = [] /\ ok_wev e.
Proof. destruct e; cbn; intros H; try contradiction; auto. Qed.

(* ranks: a signal is emitted at the rank of the phase, and the phase never goes back *)
Lemma main_step_rank o w w' evs :
  WX w -> main_step o w = Some (w', evs) ->
  Forall ok_wev evs /\
  ((flat_map we_sig evs = [] /\ prank (wph w) <= prank (wph w')) \/
   (exists g, flat_map we_sig evs = [g] /\ srank g = prank (wph w) /\
              prec (srank g) (prank (wph w')) /\ prank (wph w) <= prank (wph w'))).
Proof.
  intros (_ & X2) H. unfold prec.
  ms_cases H; wproj; rewrite ?P; cbn [flat_map we_sig app prank];
    try (split; [repeat constructor|left; split; [reflexivity|lia]]; fail).
  - split; [repeat constructor|]. right. exists SgReady. cbn. repeat split; lia.
  - split; [repeat constructor|]. right. exists SgCF. cbn. repeat split; lia.
  - split; [repeat constructor|]. right. exists (SgComp (snd cur)). cbn [srank].
    destruct (stops_after o (snd cur)); [cbn; repeat split; lia|].
    destruct (snd nxt); cbn; repeat split; lia.
  - inversion X2 as [|e' sc' He Hsc]; subst. destruct (rep_ev_sig e He) as (Es & Eo).
    rewrite Es. split; [repeat constructor; exact Eo|]. left. split; [reflexivity|lia].
  - split; [repeat constructor|]. right. exists (SgFin sfin). cbn. repeat split; lia.
Qed.

(* finishing: the marker was taken when the loop ended without a stop request *)
Lemma main_step_enter_fin o w w' evs :
  WInv w -> main_step o w = Some (w', evs) ->
  wph w' = PFinishing false -> wph w <> PFinishing false -> markpopped w'.
Proof.
  intros I H. pose proof (inv_phase w I) as E. unfold phase_inv in E. unfold markpopped.
  ms_cases H; wproj; rewrite ?P; try discriminate.
  - intros _ _. destruct E as (Ep & _). exists [], t. rewrite Ep. reflexivity.
  - destruct E as (pre & Ep & _). destruct (stops_after o (snd cur)); [discriminate|].
    destruct nxt as [t [j|]]; cbn [snd]; [discriminate|]. intros _ _.
    exists (pre ++ [ent cur]), t. rewrite Ep, <- app_assoc. reflexivity.
Qed.

Lemma main_step_in_fin o w w' evs b :
  main_step o w = Some (w', evs) -> wph w = PFinishing b -> wpopped w' = wpopped w.
Proof. intros H. ms_cases H; wproj; try discriminate; reflexivity. Qed.

Lemma main_step_emits_fin o w w' evs b :
  WX w -> main_step o w = Some (w', evs) -> In (SgFin b) (flat_map we_sig evs) -> wph w = PFinishing b.
Proof.
  intros (_ & X2) H. ms_cases H; cbn [flat_map we_sig app In]; try tauto;
    try (intros [F|[]]; discriminate F).
  - inversion X2 as [|e' sc' He Hsc]; subst. destruct (rep_ev_sig e He) as (Es & _). rewrite Es. intros [].
  - intros [F|[]]. inversion F. reflexivity.
Qed.

Definition finished_ph (p : phase) : Prop := p = PExited \/ exists b, p = PFinishing b.

Lemma main_step_phase_fin o w w' evs :
  main_step o w = Some (w', evs) -> finished_ph (wph w') ->
  (exists b, wph w = PFinishing b /\ wph w' = PExited /\ flat_map we_sig evs = [SgFin b]) \/
  (exists b, wph w' = PFinishing b /\ ~ finished_ph (wph w)).
Proof.
  intros H. unfold finished_ph.
  assert (NF : forall p, (p = PExited \/ exists b, p = PFinishing b) -> match p with PExited | PFinishing _ => True | _ => False end).
  { intros p [->|(b & ->)]; exact I. }
  ms_cases H; wproj; rewrite ?P; intros Hf; try (apply NF in Hf; contradiction).
  - right. exists false. split; [reflexivity|]. intros F. apply NF in F. exact F.
  - right. destruct (stops_after o (snd cur)).
    + exists true. split; [reflexivity|]. intros F. apply NF in F. exact F.
    + destruct (snd nxt); [apply NF in Hf; contradiction|].
      exists false. split; [reflexivity|]. intros F. apply NF in F. exact F.
  - left. exists sfin. repeat split; reflexivity.
Qed.

(* Coupling.v, part B: the load scheduler: no exception under the stated preconditions, and the
   exact effect of every call on the books (node2pending) and the node flags. *)

Definition cmd_to (n : nat) (x : out) : list cmd :=
  match x with OSend m c => if Nat.eqb m n then [c] else [] | _ => [] end.
Definition cmds_to (n : nat) (o : list out) : list cmd := flat_map (cmd_to n) o.

Lemma cmds_to_app n a b : cmds_to n (a ++ b) = cmds_to n a ++ cmds_to n b.
Proof. apply flat_map_app. Qed.

Definition NRo (a : option nctl) (cs : list cmd) (b : option nctl) : Prop :=
  match a, b with
  | Some f, Some f' => NR f cs f'
  | None, None => cs = []
  | _, _ => False
  end.

Lemma NRo_refl a : NRo a [] a.
Proof. destruct a; cbn; [constructor|reflexivity]. Qed.

Lemma NRo_trans a c1 b c2 c : NRo a c1 b -> NRo b c2 c -> NRo a (c1 ++ c2) c.
Proof.
  destruct a, b, c; cbn; try tauto.
  - apply NR_app.
  - intros -> ->. reflexivity.
Qed.

Definition bk (s : lstate) (n : nat) : list nat := alist_get [] n (l_n2p s).

(* the effect of a scheduling step on flags and books *)
Record TR0 (s s' : lstate) (o : list out) : Prop := {
  tr_nt : forall n, NRo (aget n (l_nt s)) (cmds_to n o) (aget n (l_nt s'));
  tr_bk : forall n, bk s' n = bk s n ++ flat_map cmd_inds (cmds_to n o);
  tr_keeps : keeps s s' o;
  tr_pend : exists moved, l_pending s = moved ++ l_pending s';
}.
Definition sdp (s' : lstate) (o : list out) : Prop :=
  (exists n, In CShutdown (cmds_to n o)) -> l_pending s' = [].
Definition TR (s s' : lstate) (o : list out) : Prop := TR0 s s' o /\ sdp s' o.

Lemma TR0_refl s : TR0 s s [].
Proof.
  constructor.
  - intros n. apply NRo_refl.
  - intros n. cbn. rewrite app_nil_r. reflexivity.
  - apply keeps_refl.
  - exists []. reflexivity.
Qed.

Lemma TR0_trans s s1 s2 o1 o2 : TR0 s s1 o1 -> TR0 s1 s2 o2 -> TR0 s s2 (o1 ++ o2).
Proof.
  intros [A1 B1 C1 (m1 & D1)] [A2 B2 C2 (m2 & D2)]. constructor.
  - intros n. rewrite cmds_to_app. eapply NRo_trans; [apply A1|apply A2].
  - intros n. rewrite cmds_to_app, flat_map_app, B2, B1, <- app_assoc. reflexivity.
  - eapply keeps_trans; eauto.
  - exists (m1 ++ m2). rewrite D1, D2, app_assoc. reflexivity.
Qed.

Lemma TR_refl s : TR s s [].
Proof. split; [apply TR0_refl|]. intros (n & []). Qed.

Lemma TR_trans s s1 s2 o1 o2 : TR s s1 o1 -> TR s1 s2 o2 -> TR s s2 (o1 ++ o2).
Proof.
  intros (T1 & P1) (T2 & P2). split; [eapply TR0_trans; eauto|].
  intros (n & Hin). rewrite cmds_to_app in Hin. apply in_app_or in Hin. destruct Hin as [Hin|Hin].
  - assert (E : l_pending s1 = []) by (apply P1; exists n; exact Hin).
    destruct (tr_pend _ _ _ T2) as (m2 & D2). rewrite E in D2. symmetry in D2.
    apply app_eq_nil in D2. tauto.
  - apply P2. exists n. exact Hin.
Qed.

Lemma NRo_open a cs b f' : NRo a cs b -> b = Some f' -> exists f, a = Some f /\ NR f cs f'.
Proof. destruct a, b; cbn; try tauto; intros H E; inversion E; subst; eauto. Qed.

Lemma TR0_all_open s s' o : TR0 s s' o -> all_open (l_nt s) -> all_open (l_nt s').
Proof.
  intros T Ho n f' E. destruct (NRo_open _ _ _ _ (tr_nt _ _ _ T n) E) as (f & Ef & R).
  destruct (NR_fields _ _ _ R) as (_ & _ & C & _). rewrite C. eapply Ho; eauto.
Qed.

Lemma TR0_nt_keys s s' o n : TR0 s s' o -> (aget n (l_nt s') <> None <-> aget n (l_nt s) <> None).
Proof.
  intros T. pose proof (tr_nt _ _ _ T n) as R. destruct (aget n (l_nt s)), (aget n (l_nt s')); cbn in R; try tauto.
  split; intros; discriminate.
Qed.

Lemma bk_aset_eq s n v : alist_get [] n (aset n v (l_n2p s)) = v.
Proof. apply alist_get_aset_eq. Qed.

Lemma cmds_to_one_eq n c : cmds_to n [OSend n c] = [c].
Proof. cbn. rewrite Nat.eqb_refl. reflexivity. Qed.
Lemma cmds_to_one_neq n m c : m <> n -> cmds_to m [OSend n c] = [].
Proof. intros H. cbn. destruct (Nat.eqb n m) eqn:E; [apply Nat.eqb_eq in E; congruence|reflexivity]. Qed.

(* ---- l_send_tests ---- *)
Lemma send_tests_TR n num s s' o r :
  all_open (l_nt s) -> aget n (l_n2p s) <> None ->
  (exists f, aget n (l_nt s) = Some f /\ n_sdsent f = false) ->
  l_send_tests n num s = (s', o, r) ->
  r = Ok tt /\ TR s s' o /\ l_nt s' = l_nt s.
Proof.
  intros Ho Hp (f & Ef & Hs) H. pose proof (py_take_drop _ num (l_pending s)) as Etd.
  apply l_send_tests_cases in H. cbv zeta in H.
  destruct H as [(Et & -> & -> & ->)|[(Hne & Ec & _)|(Hne & cur & Ec & -> & Hr)]].
  - split; [reflexivity|]. split; [apply TR_refl|reflexivity].
  - contradiction.
  - destruct Hr as [(En & _)|(c & En & -> & ->)]; [congruence|].
    rewrite Ef in En. inversion En; subst c. rewrite (Ho _ _ Ef).
    split; [reflexivity|]. split; [|reflexivity]. split.
    + constructor; cbn [l_nt l_set_n2p l_set_pending l_n2p l_pending].
      * intros m. destruct (Nat.eq_dec m n) as [->|Hm].
        -- rewrite cmds_to_one_eq, Ef. cbn. apply NR_run; [exact Hs|constructor].
        -- rewrite cmds_to_one_neq by exact Hm. apply NRo_refl.
      * intros m. unfold bk. cbn [l_n2p l_set_n2p l_set_pending].
        destruct (Nat.eq_dec m n) as [->|Hm].
        -- rewrite cmds_to_one_eq, alist_get_aset_eq. unfold alist_get. rewrite Ec. cbn. rewrite app_nil_r. reflexivity.
        -- rewrite cmds_to_one_neq by exact Hm. rewrite alist_get_aset_neq by exact Hm. cbn. rewrite app_nil_r. reflexivity.
      * unfold keeps. cbn [l_coll l_n2c l_numnodes l_chunk l_n2p l_set_n2p l_set_pending].
        repeat split; try reflexivity. eapply akeys_aset_has; eauto.
      * exists (py_take num (l_pending s)). symmetry. exact Etd.
    + intros (m & Hin). exfalso. destruct (Nat.eq_dec m n) as [->|Hm].
      * rewrite cmds_to_one_eq in Hin. destruct Hin as [F|[]]. discriminate.
      * rewrite cmds_to_one_neq in Hin by exact Hm. destruct Hin.
Qed.

(* ---- node.shutdown() ---- *)
Lemma node_shutdown_TR0 n s s' o r :
  all_open (l_nt s) -> aget n (l_nt s) <> None ->
  node_shutdown l_nt l_set_nt n s = (s', o, r) ->
  r = Ok tt /\ TR0 s s' o /\ l_pending s' = l_pending s /\ l_n2p s' = l_n2p s.
Proof.
  intros Ho Hn H. apply node_shutdown_cases in H.
  destruct H as [(F & _)|[(c & _ & _ & -> & -> & ->)|(c & En & Esd & -> & -> & ->)]].
  - contradiction.
  - split; [reflexivity|]. split; [apply TR0_refl|]. split; reflexivity.
  - rewrite (Ho _ _ En). split; [reflexivity|]. split; [|split; reflexivity].
    assert (Hs : n_sdsent c = false).
    { unfold shutting_down in Esd. apply orb_false_iff in Esd. tauto. }
    constructor; cbn [l_nt l_set_nt l_n2p l_pending].
    + intros m. rewrite LoadProofs.aget_aset. destruct (Nat.eqb m n) eqn:E.
      * apply Nat.eqb_eq in E. subst m. rewrite cmds_to_one_eq, En. cbn. apply NR_sd; [exact Hs|constructor].
      * apply Nat.eqb_neq in E. rewrite cmds_to_one_neq by exact E. apply NRo_refl.
    + intros m. unfold bk. cbn [l_n2p l_set_nt]. destruct (Nat.eq_dec m n) as [->|Hm].
      * rewrite cmds_to_one_eq. cbn. rewrite app_nil_r. reflexivity.
      * rewrite cmds_to_one_neq by exact Hm. cbn. rewrite app_nil_r. reflexivity.
    + unfold keeps. cbn. auto.
    + exists []. reflexivity.
Qed.

Lemma node_shutdown_TR n s s' o r :
  all_open (l_nt s) -> aget n (l_nt s) <> None -> l_pending s = [] ->
  node_shutdown l_nt l_set_nt n s = (s', o, r) -> r = Ok tt /\ TR s s' o.
Proof.
  intros Ho Hn Hp H. destruct (node_shutdown_TR0 _ _ _ _ _ Ho Hn H) as (-> & T & Ep & _).
  split; [reflexivity|]. split; [exact T|]. intros _. congruence.
Qed.

Lemma mfor_shutdown_TR0 l : forall s s' o r,
  all_open (l_nt s) -> (forall n, In n l -> aget n (l_nt s) <> None) ->
  mfor l (fun n => node_shutdown l_nt l_set_nt n) s = (s', o, r) ->
  r = Ok tt /\ TR0 s s' o /\ l_pending s' = l_pending s /\ l_n2p s' = l_n2p s.
Proof.
  induction l as [|x l IH]; intros s s' o r Ho Hl H.
  - cbn in H. unfold ret in H. inv H. split; [reflexivity|]. split; [apply TR0_refl|]. split; reflexivity.
  - cbn [mfor] in H. apply LoadProofs.mbind_inv in H.
    destruct H as [(e & H1 & ->)|(s1 & o1 & a & o2 & H1 & H2 & ->)].
    + destruct (node_shutdown_TR0 _ _ _ _ _ Ho (Hl x (or_introl eq_refl)) H1) as (F & _). discriminate.
    + destruct (node_shutdown_TR0 _ _ _ _ _ Ho (Hl x (or_introl eq_refl)) H1) as (_ & T1 & P1 & B1).
      assert (Ho1 : all_open (l_nt s1)) by (eapply TR0_all_open; eauto).
      assert (Hl1 : forall n, In n l -> aget n (l_nt s1) <> None).
      { intros n Hn. apply (TR0_nt_keys _ _ _ n T1). apply Hl. right. exact Hn. }
      destruct (IH _ _ _ _ Ho1 Hl1 H2) as (-> & T2 & P2 & B2).
      split; [reflexivity|]. split; [eapply TR0_trans; eauto|]. split; congruence.
Qed.

(* ---- check_schedule ---- *)
Lemma zlen_pos {A} (l : list A) : l <> [] -> (zlen l =? 0)%Z = false.
Proof. destruct l; [congruence|]. intros _. unfold zlen. cbn [length]. apply Z.eqb_neq. lia. Qed.

Lemma check_schedule_TR n dur s s' o r :
  all_open (l_nt s) -> aget n (l_nt s) <> None -> aget n (l_n2p s) <> None ->
  (l_pending s <> [] -> l_chunk s <> None) ->
  l_check_schedule n dur s = (s', o, r) -> r = Ok tt /\ TR s s' o.
Proof.
  intros Ho Hn Hp Hc H.
  (* no exception *)
  assert (R : r = Ok tt).
  { revert H. unfold l_check_schedule, node_shutting_down, node_flags, mbind, get, of_opt, ret, raise.
    cbn beta iota zeta delta [app].
    destruct (aget n (l_nt s)) as [c|] eqn:En; [|congruence]. cbn beta iota zeta delta [app].
    destruct (shutting_down c) eqn:Esd; cbn beta iota zeta delta [app]; [intros H; inv H; reflexivity|].
    assert (Hs : n_sdsent c = false).
    { unfold shutting_down in Esd. apply orb_false_iff in Esd. tauto. }
    destruct (l_pending s) as [|p0 pr] eqn:Ep.
    { destruct (node_shutdown l_nt l_set_nt n s) as [[s2 o2] r2] eqn:Esh. intros H. inv H.
      assert (Hn' : aget n (l_nt s) <> None) by congruence.
      destruct (node_shutdown_TR0 _ _ _ _ _ Ho Hn' Esh) as (-> & _). reflexivity. }
    destruct (negb (ahas n (l_n2c s))); cbn beta iota zeta delta [app]; [intros H; inv H; reflexivity|].
    rewrite (zlen_pos (l_n2p s)) by (intros E; rewrite E in Hp; apply Hp; reflexivity).
    cbn beta iota zeta delta [app].
    destruct (aget n (l_n2p s)) as [a|] eqn:Ea; [|congruence]. cbn beta iota zeta delta [app].
    match goal with |- context [if ?b then _ else _] => destruct b end;
      cbn beta iota zeta delta [app]; [|intros H; inv H; reflexivity].
    match goal with |- context [if ?b then _ else _] => destruct b end;
      cbn beta iota zeta delta [app]; [intros H; inv H; reflexivity|].
    destruct (l_chunk s) as [chunk|] eqn:Ech; [|exfalso; apply Hc; [discriminate|reflexivity]].
    cbn beta iota zeta delta [app].
    match goal with |- context [l_send_tests n ?z s] => destruct (l_send_tests n z s) as [[s2 o2] r2] eqn:Es end.
    intros H. inv H.
    assert (Hp' : aget n (l_n2p s) <> None) by congruence.
    destruct (send_tests_TR _ _ _ _ _ _ Ho Hp' (ex_intro _ c (conj En Hs)) Es) as (-> & _). reflexivity. }
  split; [exact R|]. subst r.
  apply l_check_schedule_cases in H.
  destruct H as [(_ & _ & _ & F)|[(c' & _ & _ & -> & -> & _)|[(c & En & Esd & Ep & H)|[(c & _ & _ & _ & -> & ->)|(c & num & En & Esd & Ep & H)]]]].
  - discriminate.
  - apply TR_refl.
  - eapply node_shutdown_TR; eauto.
  - apply TR_refl.
  - assert (Hs : n_sdsent c = false).
    { unfold shutting_down in Esd. apply orb_false_iff in Esd. tauto. }
    destruct (send_tests_TR _ _ _ _ _ _ Ho Hp (ex_intro _ c (conj En Hs)) H) as (_ & T & _). exact T.
Qed.

(* ---- mark_test_complete: the head of the node's book is removed ---- *)
Lemma mark_complete_TR n i dur s s' o r rest :
  all_open (l_nt s) -> aget n (l_nt s) <> None -> aget n (l_n2p s) = Some (i :: rest) ->
  (l_pending s <> [] -> l_chunk s <> None) ->
  l_mark_test_complete n i dur s = (s', o, r) ->
  r = Ok tt /\ TR (l_set_n2p s (aset n rest (l_n2p s))) s' o.
Proof.
  intros Ho Hn Hb Hc H. apply l_mark_test_complete_cases in H.
  destruct H as [(F & _)|[(cur & Ec & Er & _)|(cur & cur' & Ec & Er & H)]]; try congruence.
  - rewrite Hb in Ec. inv Ec. cbn in Er. rewrite Nat.eqb_refl in Er. discriminate.
  - rewrite Hb in Ec. inv Ec. cbn in Er. rewrite Nat.eqb_refl in Er. inv Er.
    eapply check_schedule_TR; [| | | |exact H]; cbn [l_nt l_set_n2p l_n2p l_pending l_chunk]; auto.
    rewrite LoadProofs.aget_aset, Nat.eqb_refl. discriminate.
Qed.

(* ---- the initial distribution ---- *)
Definition node_ready (s : lstate) (n : nat) : Prop :=
  aget n (l_n2p s) <> None /\ exists f, aget n (l_nt s) = Some f /\ n_sdsent f = false.

Lemma node_ready_send n num s s' o m :
  l_send_tests n num s = (s', o, Ok tt) -> l_nt s' = l_nt s -> node_ready s m -> node_ready s' m.
Proof.
  intros H Ent (A & B). apply l_send_tests_spec in H. destruct H as (_ & _ & _ & _ & Ek).
  split; [|rewrite Ent; exact B].
  apply aget_In_keys. rewrite Ek. apply aget_In_keys. exact A.
Qed.

Lemma round_robin_TR fuel all : forall cur s s' o r,
  all_open (l_nt s) -> all <> [] -> (forall n, In n all \/ In n cur -> node_ready s n) ->
  l_round_robin fuel all cur s = (s', o, r) -> r = Ok tt /\ TR s s' o.
Proof.
  induction fuel as [|f IH]; intros cur s s' o r Ho Ha Hr H.
  - cbn in H. unfold ret in H. inv H. split; [reflexivity|apply TR_refl].
  - cbn [l_round_robin] in H.
    assert (STEP : forall n rr, (In n all \/ In n cur) -> (forall m, In m rr -> In m all \/ In m cur) ->
              (l_send_tests n 1%Z ;;; l_round_robin f all rr) s = (s', o, r) -> r = Ok tt /\ TR s s' o).
    { intros n rr Hn Hrr H0. apply LoadProofs.mbind_inv in H0.
      destruct (Hr n Hn) as (Rp & Rn).
      destruct H0 as [(e & H1 & ->)|(s1 & o1 & a & o2 & H1 & H2 & ->)].
      - destruct (send_tests_TR _ _ _ _ _ _ Ho Rp Rn H1) as (F & _). discriminate.
      - destruct (send_tests_TR _ _ _ _ _ _ Ho Rp Rn H1) as (_ & T1 & Ent). destruct a.
        assert (Ho1 : all_open (l_nt s1)) by (rewrite Ent; exact Ho).
        assert (Hr1 : forall m, In m all \/ In m rr -> node_ready s1 m).
        { intros m Hm. eapply node_ready_send; eauto. apply Hr. destruct Hm as [Hm|Hm]; [left; exact Hm|apply Hrr; exact Hm]. }
        destruct (IH _ _ _ _ _ Ho1 Ha Hr1 H2) as (-> & T2). split; [reflexivity|eapply TR_trans; eauto]. }
    destruct cur as [|n rr].
    + destruct all as [|n rr]; [congruence|].
      eapply (STEP n rr); [left; left; reflexivity| |exact H]. intros m Hm. left. right. exact Hm.
    + eapply (STEP n rr); [right; left; reflexivity| |exact H]. intros m Hm. right. right. exact Hm.
Qed.

Lemma mfor_send_TR num l : forall s s' o r,
  all_open (l_nt s) -> (forall n, In n l -> node_ready s n) ->
  mfor l (fun n => l_send_tests n num) s = (s', o, r) -> r = Ok tt /\ TR s s' o.
Proof.
  induction l as [|x l IH]; intros s s' o r Ho Hr H.
  - cbn in H. unfold ret in H. inv H. split; [reflexivity|apply TR_refl].
  - cbn [mfor] in H. apply LoadProofs.mbind_inv in H.
    destruct (Hr x (or_introl eq_refl)) as (Rp & Rn).
    destruct H as [(e & H1 & ->)|(s1 & o1 & a & o2 & H1 & H2 & ->)].
    + destruct (send_tests_TR _ _ _ _ _ _ Ho Rp Rn H1) as (F & _). discriminate.
    + destruct (send_tests_TR _ _ _ _ _ _ Ho Rp Rn H1) as (_ & T1 & Ent). destruct a.
      assert (Ho1 : all_open (l_nt s1)) by (rewrite Ent; exact Ho).
      assert (Hr1 : forall m, In m l -> node_ready s1 m).
      { intros m Hm. eapply node_ready_send; eauto. apply Hr. right. exact Hm. }
      destruct (IH _ _ _ _ Ho1 Hr1 H2) as (-> & T2). split; [reflexivity|eapply TR_trans; eauto].
Qed.

Lemma mfor_colldiff_quiet first col others (s s' : lstate) o r :
  mfor others (fun p : nat * list string =>
                 if coll_eqb col (snd p) then ret tt else emit (OCollDiff first (fst p))) s = (s', o, r) ->
  s' = s /\ r = Ok tt /\ forall n, cmds_to n o = [].
Proof.
  revert s s' o r. induction others as [|p others IH]; intros s s' o r H.
  - cbn in H. unfold ret in H. inv H. auto.
  - cbn [mfor] in H. apply LoadProofs.mbind_inv in H.
    destruct H as [(e & H1 & ->)|(s1 & o1 & a & o2 & H1 & H2 & ->)].
    + destruct (coll_eqb col (snd p)); unfold ret, emit in H1; inv H1.
    + destruct (IH _ _ _ _ H2) as (-> & -> & C2).
      destruct (coll_eqb col (snd p)); unfold ret, emit in H1; inv H1; (split; [reflexivity|split; [reflexivity|]]);
        intros n; rewrite cmds_to_app, C2; reflexivity.
Qed.

Lemma coll_eqb_refl X : coll_eqb X X = true.
Proof. unfold coll_eqb. induction X as [|x X IH]; cbn; [reflexivity|]. rewrite String.eqb_refl, IH. reflexivity. Qed.

Lemma same_collection_quiet s s' o r :
  l_n2c s <> [] -> l_same_collection s = (s', o, r) ->
  s' = s /\ (forall n, cmds_to n o = []) /\
  exists first col others, l_n2c s = (first, col) :: others /\
    r = Ok (forallb (fun p => coll_eqb col (snd p)) others).
Proof.
  intros Hne H. unfold l_same_collection in H.
  apply LoadProofs.mbind_inv in H. destruct H as [(e & H & _)|(t1 & p1 & a & p2 & Hg & H & ->)].
  { unfold get in H. inv H. }
  unfold get in Hg. injection Hg as <- <- <-. cbn [app].
  destruct (l_n2c s) as [|[first col] others]; [congruence|].
  apply LoadProofs.mbind_inv in H. destruct H as [(e & H & _)|(t3 & p3 & a & p4 & H1 & H & ->)].
  - apply mfor_colldiff_quiet in H. destruct H as (_ & F & _). discriminate.
  - apply mfor_colldiff_quiet in H1. destruct H1 as (-> & _ & C). unfold ret in H. inv H.
    split; [reflexivity|]. split; [|exists first, col, others; split; reflexivity].
    intros n. rewrite cmds_to_app, C. reflexivity.
Qed.

(* the first call of schedule(): no exception; either nothing happens (collections differ), or the
   collection is fixed and tests / shutdowns go out to nodes that were not shutting down *)
Lemma schedule_first_TR s s' o r :
  all_open (l_nt s) -> l_coll s = None -> l_pending s = [] ->
  l_collection_is_completed s = true -> l_n2c s <> [] -> l_nodes s <> [] ->
  (forall n, In n (l_nodes s) -> node_ready s n) ->
  l_schedule s = (s', o, r) ->
  r = Ok tt /\
  (forall n, NRo (aget n (l_nt s)) (cmds_to n o) (aget n (l_nt s'))) /\
  (forall n, bk s' n = bk s n ++ flat_map cmd_inds (cmds_to n o)) /\
  akeys (l_n2p s') = akeys (l_n2p s) /\ l_n2c s' = l_n2c s /\ l_numnodes s' = l_numnodes s /\
  (l_pending s' <> [] -> l_chunk s' <> None) /\
  sdp s' o /\
  (l_coll s' = None -> l_pending s' = []) /\
  (forall X, (forall k ids, In (k, ids) (l_n2c s) -> ids = X) -> l_coll s' = Some X).
Proof.
  intros Ho Ec Ep Hcomp Hn2c Hnodes Hready H. unfold l_schedule in H.
  apply LoadProofs.mbind_inv in H. destruct H as [(e & H & _)|(t0 & p0 & a0 & q0 & Hg & H & ->)]; [unfold get in H; inv H|].
  unfold get in Hg. injection Hg as <- <- <-. cbn [app].
  rewrite Hcomp in H. unfold massert in H.
  apply LoadProofs.mbind_inv in H. destruct H as [(e & H & _)|(t1 & p1 & a1 & q1 & Ha & H & ->)]; [unfold ret in H; inv H|].
  unfold ret in Ha. injection Ha as <- <- <-. cbn [app].
  rewrite Ec in H.
  apply LoadProofs.mbind_inv in H. destruct H as [(e & Hs & _)|(t2 & p2 & same & q2 & Hs & H & ->)].
  { apply (same_collection_quiet _ _ _ _ Hn2c) in Hs. destruct Hs as (_ & _ & (f0 & c0 & ot0 & _ & F)). discriminate. }
  apply (same_collection_quiet _ _ _ _ Hn2c) in Hs. destruct Hs as (-> & C2 & (f0 & c0 & ot0 & En0 & Esame)).
  assert (ALLEQ : forall X, (forall k ids, In (k, ids) (l_n2c s) -> ids = X) -> same = true /\ c0 = X).
  { intros X HX. rewrite En0 in HX. split; [|apply (HX f0); left; reflexivity].
    inv Esame. apply forallb_forall. intros [k ids] Hin. cbn [snd].
    rewrite (HX f0 c0 (or_introl eq_refl)), (HX k ids (or_intror Hin)). apply coll_eqb_refl. }
  assert (QUIET : forall n, cmds_to n (p2 ++ []) = []) by (intros n; rewrite app_nil_r; apply C2).
  destruct same; cbn [negb] in H.
  2:{ unfold ret in H. inv H. split; [reflexivity|].
      split; [intros n; rewrite QUIET; apply NRo_refl|].
      split; [intros n; rewrite QUIET; cbn; rewrite app_nil_r; reflexivity|].
      split; [reflexivity|]. split; [reflexivity|]. split; [reflexivity|].
      split; [intros F; congruence|]. split; [intros (n & Hin); rewrite QUIET in Hin; destruct Hin|].
      split; [auto|]. intros X HX. destruct (ALLEQ X HX) as (F & _). discriminate. }
  apply LoadProofs.mbind_inv in H. destruct H as [(e & H & _)|(t3 & p3 & a3 & q3 & Hg & H & ->)]; [unfold get in H; inv H|].
  unfold get in Hg. injection Hg as <- <- <-. cbn [app].
  destruct (l_n2c s) as [|[k c] others] eqn:En2c; [congruence|]. cbn [of_opt] in H.
  assert (Ec0 : c0 = c) by congruence. subst c0.
  apply LoadProofs.mbind_inv in H. destruct H as [(e & H & _)|(t4 & p4 & coll & q4 & Ho4 & H & ->)]; [unfold ret in H; inv H|].
  unfold ret in Ho4. injection Ho4 as <- <- <-. cbn [app].
  apply LoadProofs.mbind_inv in H. destruct H as [(e & H & _)|(t5 & p5 & a5 & q5 & Hp & H & ->)]; [unfold put in H; inv H|].
  unfold put in Hp. injection Hp as <- <- <-. cbn [app].
  destruct c as [|c0 cr].
  { unfold ret in H. inv H. cbn [l_nt l_set_pending l_set_coll l_n2p l_n2c l_numnodes l_pending l_chunk l_coll length seq].
    split; [reflexivity|].
    split; [intros n; rewrite QUIET; apply NRo_refl|].
    split; [intros n; rewrite QUIET; cbn; rewrite app_nil_r; reflexivity|].
    split; [reflexivity|]. split; [exact En2c|]. split; [reflexivity|].
    split; [intros F; congruence|]. split; [intros _; reflexivity|].
    split; [auto|]. intros X HX. destruct (ALLEQ X HX) as (_ & <-). reflexivity. }
  set (coll := c0 :: cr) in *.
  set (s1 := l_set_pending (l_set_coll s (Some coll)) (seq 0 (length coll))) in *.
  apply LoadProofs.mbind_inv in H. destruct H as [(e & H & _)|(t6 & p6 & a6 & q6 & Hg & H & ->)]; [unfold get in H; inv H|].
  unfold get in Hg. injection Hg as <- <- <-. cbn [app].
  apply LoadProofs.mbind_inv in H. destruct H as [(e & H & _)|(t7 & p7 & a7 & q7 & Hp & H & ->)]; [unfold put in H; inv H|].
  unfold put in Hp. injection Hp as <- <- <-. cbn [app].
  apply LoadProofs.mbind_inv in H. destruct H as [(e & H & _)|(t8 & p8 & a8 & q8 & Hg & H & ->)]; [unfold get in H; inv H|].
  unfold get in Hg. injection Hg as <- <- <-. cbn [app].
  match type of H with context [l_set_chunk s1 (Some ?ch)] => set (chunk := ch) in * end.
  set (s3 := l_set_chunk s1 (Some chunk)) in *.
  assert (Ho3 : all_open (l_nt s3)) by exact Ho.
  assert (Hr3 : forall n, In n (l_nodes s3) -> node_ready s3 n) by exact Hready.
  apply LoadProofs.mbind_inv in H.
  assert (MID : forall t9 p9 r9,
     (if (zlen (l_pending s3) <? 2 * zlen (l_nodes s3))%Z
      then l_round_robin (length (l_pending s3)) (l_nodes s3) (l_nodes s3)
      else if (zlen (l_n2p s3) =? 0)%Z then raise EZeroDiv
           else mfor (l_nodes s3)
                  (fun n => l_send_tests n (Z.max (Z.min (zlen coll / zlen (l_n2p s3) / 4) chunk) 2))) s3 = (t9, p9, r9) ->
     r9 = Ok tt /\ TR s3 t9 p9).
  { intros t9 p9 r9 Hmid. destruct (zlen (l_pending s3) <? 2 * zlen (l_nodes s3))%Z.
    - eapply round_robin_TR; [exact Ho3|exact Hnodes| |exact Hmid].
      intros n [Hn|Hn]; apply Hr3; exact Hn.
    - rewrite zlen_pos in Hmid.
      + eapply mfor_send_TR; [exact Ho3|exact Hr3|exact Hmid].
      + intros E. apply Hnodes. unfold l_nodes. change (l_n2p s) with (l_n2p s3). rewrite E. reflexivity. }
  destruct H as [(e & Hmid & _)|(t9 & p9 & a9 & q9 & Hmid & H & ->)].
  { apply MID in Hmid. destruct Hmid as (F & _). discriminate. }
  apply MID in Hmid. destruct Hmid as (_ & T9). clear MID.
  apply LoadProofs.mbind_inv in H. destruct H as [(e & H & _)|(t10 & p10 & a10 & q10 & Hg & H & ->)]; [unfold get in H; inv H|].
  unfold get in Hg. injection Hg as <- <- <-. cbn [app].
  assert (Ho9 : all_open (l_nt t9)) by (eapply TR0_all_open; [apply T9|exact Ho3]).
  assert (FIN : r = Ok tt /\ TR t9 s' q10).
  { destruct (l_pending t9) eqn:Ep9.
    - assert (Hl : forall n, In n (l_nodes t9) -> aget n (l_nt t9) <> None).
      { intros n Hn. apply (TR0_nt_keys _ _ _ n (proj1 T9)).
        destruct (tr_keeps _ _ _ (proj1 T9)) as (_ & _ & _ & _ & Ek). unfold l_nodes in Hn. rewrite Ek in Hn.
        destruct (Hr3 n Hn) as (_ & (f & Ef & _)). congruence. }
      destruct (mfor_shutdown_TR0 _ _ _ _ _ Ho9 Hl H) as (-> & T & P & _).
      split; [reflexivity|]. split; [exact T|]. intros _. congruence.
    - unfold ret in H. inv H. split; [reflexivity|apply TR_refl]. }
  destruct FIN as (-> & T10).
  pose proof (TR_trans _ _ _ _ _ T9 T10) as (T & SDP).
  destruct (tr_keeps _ _ _ T) as (Kc & Kn & Km & Kch & Kk).
  split; [reflexivity|].
  split. { intros n. rewrite cmds_to_app, C2. cbn [app]. apply (tr_nt _ _ _ T n). }
  split. { intros n. rewrite cmds_to_app, C2. cbn [app]. apply (tr_bk _ _ _ T n). }
  split; [exact Kk|]. split; [rewrite Kn; exact En2c|]. split; [exact Km|].
  split. { intros _. rewrite Kch. discriminate. }
  split. { intros (n & Hin). apply SDP. exists n. rewrite cmds_to_app, C2 in Hin. exact Hin. }
  split. { intros F. rewrite Kc in F. discriminate. }
  intros X HX. destruct (ALLEQ X HX) as (_ & <-). rewrite Kc. reflexivity.
Qed.

(* Coupling.v, part C: the controller (DSession) in load mode: under the coupling preconditions
   no handler raises, and the exact effect of one loop iteration on books, flags and node sets. *)

(* ====================================================================================== *)
(* C.0 association lists                                                                   *)
(* ====================================================================================== *)
Lemma aget_adel_neq {V} n m (mp : amap V) : m <> n -> aget m (adel n mp) = aget m mp.
Proof.
  intros Hm. induction mp as [|[k v] mp IH]; cbn; [reflexivity|].
  destruct (Nat.eqb n k) eqn:E.
  - apply Nat.eqb_eq in E. subst k. destruct (Nat.eqb m n) eqn:E2; [apply Nat.eqb_eq in E2; congruence|reflexivity].
  - cbn. destruct (Nat.eqb m k); [reflexivity|exact IH].
Qed.

Lemma aget_adel_eq {V} n (mp : amap V) : NoDup (akeys mp) -> aget n (adel n mp) = None.
Proof. intros ND. apply aget_none_keys. apply adel_not_key. exact ND. Qed.

Lemma akeys_aset_cases {V} n (v : V) mp m : In m (akeys (aset n v mp)) -> m = n \/ In m (akeys mp).
Proof.
  destruct (aget n mp) as [c|] eqn:E.
  - rewrite (akeys_aset_has _ _ _ _ v E). auto.
  - rewrite (akeys_aset_new _ _ _ v E). intros H. apply in_app_or in H. destruct H as [H|[H|[]]]; auto.
Qed.

Lemma akeys_aset_nodup {V} n (v : V) mp : NoDup (akeys mp) -> NoDup (akeys (aset n v mp)).
Proof.
  intros ND. destruct (aget n mp) as [c|] eqn:E.
  - rewrite (akeys_aset_has _ _ _ _ v E). exact ND.
  - rewrite (akeys_aset_new _ _ _ v E). apply NoDup_rev in ND.
    rewrite <- (rev_involutive (akeys mp ++ [n])). apply NoDup_rev. rewrite rev_app_distr. cbn.
    constructor; [|exact ND]. rewrite <- in_rev. apply aget_none_keys. exact E.
Qed.

Lemma alist_get_none {V} (dflt : V) n mp : aget n mp = None -> alist_get dflt n mp = dflt.
Proof. intros E. unfold alist_get. rewrite E. reflexivity. Qed.

Lemma length_adel_le {V} n (mp : amap V) : length (adel n mp) <= length mp.
Proof. induction mp as [|[k v] mp IH]; cbn; [lia|]. destruct (Nat.eqb n k); cbn; lia. Qed.

Lemma akeys_length {V} (mp : amap V) : length (akeys mp) = length mp.
Proof. unfold akeys. apply map_length. Qed.

(* ====================================================================================== *)
(* C.1 the controller's own invariant                                                      *)
(* ====================================================================================== *)
Section Ctl.
Variable N : nat.
Variable collf : nat -> list string.      (* what worker n collects *)

(* collections: every reported collection is the worker's own; once all have reported and they
   agree, the agreed collection is THE collection *)
Definition LG (ls : lstate) : Prop :=
  (forall k ids, In (k, ids) (l_n2c ls) -> ids = collf k) /\
  (forall X, (forall k ids, In (k, ids) (l_n2c ls) -> ids = X) ->
             l_collection_is_completed ls = true -> l_coll ls = Some X).

Lemma LG_ext ls ls' :
  LG ls -> l_n2c ls' = l_n2c ls -> l_coll ls' = l_coll ls -> l_numnodes ls' = l_numnodes ls -> LG ls'.
Proof.
  intros (A & B) En Ec Em. unfold LG, l_collection_is_completed. rewrite En, Ec, Em. split; assumption.
Qed.

Record LJ (ls : lstate) : Prop := {
  lj_num : l_numnodes ls = N;
  lj_ntk : forall n, aget n (l_nt ls) <> None <-> n < N;
  lj_nodes : forall n, In n (l_nodes ls) -> n < N;
  lj_wf : NoDup (l_nodes ls);
  lj_n2c : forall n, In n (akeys (l_n2c ls)) -> n < N;
  lj_n2cnd : NoDup (akeys (l_n2c ls));
  lj_chunk : l_pending ls <> [] -> l_chunk ls <> None;
  lj_cc : l_coll ls <> None -> l_collection_is_completed ls = true;
  lj_lg : LG ls;
}.

(* the part that holds between the handler and the end of the loop iteration *)
Record DJ0 (d : dstate) (ls : lstate) : Prop := {
  dj_sched : d_sched d = StL ls;
  dj_lj : LJ ls;
  dj_b : d_shuttingdown d = false -> d_shouldstop d = false -> incl (l_nodes ls) (d_active d);
  dj_p : d_shuttingdown d = false -> forall n f, aget n (l_nt ls) = Some f -> n_sdsent f = true ->
         l_collection_is_completed ls = true /\ l_pending ls = [];
  dj_g4 : d_shuttingdown d = true ->
          d_shouldstop d = true \/ (l_collection_is_completed ls = true /\ l_pending ls = []);
}.
Definition DJ (d : dstate) (ls : lstate) : Prop :=
  DJ0 d ls /\ (d_shouldstop d = true -> d_shuttingdown d = true).

Lemma completed_pigeon ls n :
  LJ ls -> n < N -> ~ In n (akeys (l_n2c ls)) -> l_collection_is_completed ls = false.
Proof.
  intros J Hn Hni. unfold l_collection_is_completed. rewrite (lj_num _ J). apply Nat.leb_gt.
  assert (ND : NoDup (n :: akeys (l_n2c ls))) by (constructor; [exact Hni|apply (lj_n2cnd _ J)]).
  assert (Hi : incl (n :: akeys (l_n2c ls)) (seq 0 N)).
  { intros m [<-|Hm]; apply in_seq; [lia|]. pose proof (lj_n2c _ J m Hm). lia. }
  pose proof (NoDup_incl_length ND Hi) as L. cbn [length] in L. rewrite seq_length, akeys_length in L. lia.
Qed.

(* ====================================================================================== *)
(* C.2 lifting scheduler calls to the controller state                                     *)
(* ====================================================================================== *)
Definition liftD {A} (d : dstate) (x : lstate * list out * result A) : dstate * list out * result A :=
  let '(ls', o, r) := x in (d_set_sched d (StL ls'), o, r).

Lemma d_set_sched_same d st : d_sched d = st -> d_set_sched d st = d.
Proof. destruct d; cbn; intros <-; reflexivity. Qed.

Lemma d_set_sched_twice d a b : d_set_sched (d_set_sched d a) b = d_set_sched d b.
Proof. reflexivity. Qed.

Lemma d_node_shutdown_lift n d ls :
  d_sched d = StL ls -> d_node_shutdown n d = liftD d (node_shutdown l_nt l_set_nt n ls).
Proof.
  intros Els. destruct d as [sch sd ss cf mf act fn mr cs gw rq]. cbn in Els. subst sch.
  unfold d_node_shutdown, node_shutdown, node_send, node_flags, mbind, get, put, of_opt, ret, raise, emit, liftD,
    d_nt, d_set_nt, d_set_sched.
  cbn [d_sched s_nt s_set_nt d_shuttingdown d_shouldstop d_countfailures d_maxfail d_active d_failed_nodes
       d_max_restart d_collect_seen d_next_gw d_requeue].
  destruct (aget n (l_nt ls)) as [c|] eqn:En; [|reflexivity].
  destruct (n_down c || n_sdsent c); [reflexivity|].
  cbn [d_sched s_nt s_set_nt]. rewrite En.
  destruct (n_closed c); reflexivity.
Qed.

Lemma mfor_liftD {A} (f : A -> D unit) (g : A -> L unit) l :
  (forall x d ls, d_sched d = StL ls -> f x d = liftD d (g x ls)) ->
  forall d ls, d_sched d = StL ls -> mfor l f d = liftD d (mfor l g ls).
Proof.
  intros Hfg. induction l as [|x l IH]; intros d ls Els.
  - cbn. unfold ret. rewrite d_set_sched_same by exact Els. reflexivity.
  - cbn [mfor]. unfold mbind. rewrite (Hfg x d ls Els).
    destruct (g x ls) as [[ls1 o1] [a|e]]; cbn [liftD]; [|reflexivity].
    rewrite (IH (d_set_sched d (StL ls1)) ls1 eq_refl).
    destruct (mfor l g ls1) as [[ls2 o2] r2]. cbn [liftD]. reflexivity.
Qed.

Definition d_with (d : dstate) (sd : bool) (ls : lstate) : dstate :=
  d_set_sched (d_set_shuttingdown d sd) (StL ls).

Lemma nodes_known ls : LJ ls -> forall n, In n (l_nodes ls) -> aget n (l_nt ls) <> None.
Proof. intros J n Hn. apply (lj_ntk _ J). apply (lj_nodes _ J). exact Hn. Qed.

(* triggershutdown: every scheduled node is shut down once; nothing else changes *)
Lemma trigger_eff d ls d' o r :
  d_sched d = StL ls -> LJ ls -> all_open (l_nt ls) ->
  d_triggershutdown d = (d', o, r) ->
  r = Ok tt /\ exists ls', d' = d_with d true ls' /\ TR0 ls ls' o /\
    l_pending ls' = l_pending ls /\ l_n2p ls' = l_n2p ls /\
    (d_shuttingdown d = true -> ls' = ls /\ o = []).
Proof.
  intros Els J Ho H. unfold d_triggershutdown in H. unfold mbind at 1, get in H.
  destruct (d_shuttingdown d) eqn:Esd.
  - unfold ret in H. injection H as <- <- <-. split; [reflexivity|]. exists ls.
    split. { unfold d_with. destruct d; cbn in *; subst; reflexivity. }
    split; [apply TR0_refl|]. auto.
  - unfold mbind, put in H.
    rewrite (mfor_liftD d_node_shutdown (fun n => node_shutdown l_nt l_set_nt n) _ d_node_shutdown_lift
               (d_set_shuttingdown d true) ls) in H by exact Els.
    rewrite Els in H. cbn [s_nodes] in H.
    destruct (mfor (l_nodes ls) (fun n => node_shutdown l_nt l_set_nt n) ls) as [[ls2 o2] r2] eqn:Em.
    cbn [liftD app] in H. inv H.
    destruct (mfor_shutdown_TR0 _ _ _ _ _ Ho (nodes_known ls J) Em) as (-> & T & P & B).
    split; [reflexivity|]. exists ls2. split; [reflexivity|]. split; [exact T|]. split; [exact P|]. split; [exact B|].
    discriminate.
Qed.

Lemma LJ_TR0 ls ls' o : LJ ls -> TR0 ls ls' o -> l_pending ls' = l_pending ls -> LJ ls'.
Proof.
  intros J T Ep. destruct (tr_keeps _ _ _ T) as (Kc & Kn & Km & Kch & Kk). constructor.
  - rewrite Km. apply J.
  - intros n. rewrite (TR0_nt_keys _ _ _ n T). apply J.
  - unfold l_nodes. rewrite Kk. apply J.
  - unfold l_nodes. rewrite Kk. apply J.
  - rewrite Kn. apply J.
  - rewrite Kn. apply J.
  - rewrite Ep, Kch. apply J.
  - unfold l_collection_is_completed. rewrite Kc, Km, Kn. apply J.
  - apply (LG_ext ls ls' (lj_lg _ J) Kn Kc Km).
Qed.

(* the end of a loop iteration *)
Lemma loop_rest_eff d ls d' o r :
  DJ0 d ls -> all_open (l_nt ls) ->
  loop_rest d = (d', o, r) ->
  r = Ok tt /\ exists ls',
    d' = d_with d (d_shuttingdown d || l_tests_finished ls || d_shouldstop d) ls' /\
    TR0 ls ls' o /\ l_pending ls' = l_pending ls /\ l_n2p ls' = l_n2p ls /\
    (d_shuttingdown d' = false -> ls' = ls /\ o = []).
Proof.
  intros [Els J Jb Jp Jg] Ho H. unfold loop_rest in H.
  apply LoadProofs.mbind_inv in H. destruct H as [(e & H1 & ->)|(d1 & o1 & a & o2 & H1 & H2 & ->)].
  - exfalso. unfold mbind at 1, get in H1. rewrite Els in H1. cbn [s_tests_finished] in H1.
    destruct (l_tests_finished ls).
    + destruct (d_triggershutdown d) as [[dx ox] rx] eqn:Et.
      destruct (trigger_eff _ _ _ _ _ Els J Ho Et) as (-> & _). inv H1.
    + unfold ret in H1. inv H1.
  - unfold mbind at 1, get in H1. rewrite Els in H1. cbn [s_tests_finished] in H1.
    unfold mbind at 1, get in H2.
    destruct (l_tests_finished ls) eqn:Etf.
    + destruct (d_triggershutdown d) as [[dx ox] rx] eqn:Et.
      destruct (trigger_eff _ _ _ _ _ Els J Ho Et) as (-> & ls1 & -> & T1 & P1 & B1 & N1). inv H1.
      assert (Els1 : d_sched (d_with d true ls1) = StL ls1) by reflexivity.
      assert (J1 : LJ ls1) by (eapply LJ_TR0; eauto).
      assert (Ho1 : all_open (l_nt ls1)) by (eapply TR0_all_open; eauto).
      assert (Z : forall b : bool, (if b then d_triggershutdown else ret tt) (d_with d true ls1)
                  = (d_with d true ls1, [], Ok tt)).
      { intros [|]; [|reflexivity]. unfold d_triggershutdown, mbind, get. reflexivity. }
      rewrite Z in H2. inv H2. rewrite app_nil_r, orb_true_r. cbn [orb].
      split; [reflexivity|]. exists ls1. split; [reflexivity|]. split; [exact T1|]. split; [exact P1|]. split; [exact B1|].
      cbn. discriminate.
    + unfold ret in H1. inv H1. cbn [app]. rewrite orb_false_r.
      destruct (d_shouldstop d1) eqn:Ess.
      * destruct (d_triggershutdown d1) as [[dx ox] rx] eqn:Et.
        destruct (trigger_eff _ _ _ _ _ Els J Ho Et) as (-> & ls1 & -> & T1 & P1 & B1 & N1). inv H2.
        rewrite orb_true_r. split; [reflexivity|]. exists ls1.
        split; [reflexivity|]. split; [exact T1|]. split; [exact P1|]. split; [exact B1|]. cbn. discriminate.
      * unfold ret in H2. inv H2. rewrite orb_false_r. split; [reflexivity|]. exists ls.
        split. { unfold d_with. destruct d'; cbn in *; subst; reflexivity. }
        split; [apply TR0_refl|]. auto.
Qed.

(* ====================================================================================== *)
(* C.3 the handlers                                                                        *)
(* ====================================================================================== *)
Lemma mbind_get {S B} (k : S -> M S B) s : mbind get k s = k s s.
Proof. unfold mbind, get. destruct (k s s) as [[a b] c]. reflexivity. Qed.
Lemma mbind_put {S B} s1 (k : unit -> M S B) s : mbind (put s1) k s = k tt s1.
Proof. unfold mbind, put. destruct (k tt s1) as [[a b] c]. reflexivity. Qed.
Lemma mbind_ret {S A B} (a : A) (k : A -> M S B) s : mbind (ret a) k s = k a s.
Proof. unfold mbind, ret. destruct (k a s) as [[x b] c]. reflexivity. Qed.
Lemma mbind_emit {S B} x (k : unit -> M S B) s :
  mbind (emit x) k s = let '(s2, o2, r2) := k tt s in (s2, x :: o2, r2).
Proof. unfold mbind, emit. destruct (k tt s) as [[a b] c]. reflexivity. Qed.

Definition bookmid (ev : cevent) (m : nat) (b : list nat) : list nat :=
  match ev with QComplete n _ _ => if Nat.eqb m n then tl b else b | _ => b end.

Record HEFF (ev : cevent) (d : dstate) (ls : lstate) (d1 : dstate) (ls1 : lstate) (o1 : list out) : Prop := {
  he_dj : DJ0 d1 ls1;
  he_nt : forall m, NRo (aget m (l_nt ls)) (cmds_to m o1) (aget m (l_nt ls1));
  he_bk : forall m, bk ls1 m = bookmid ev m (bk ls m) ++ flat_map cmd_inds (cmds_to m o1);
  he_nodes : forall m, In m (l_nodes ls1) -> In m (l_nodes ls) \/ ev_sig ev = Some (m, SgReady);
  he_n2c : forall m, In m (akeys (l_n2c ls1)) -> In m (akeys (l_n2c ls)) \/ ev_sig ev = Some (m, SgCF);
  he_act : forall m, In m (d_active d) -> In m (d_active d1) \/ exists b, ev_sig ev = Some (m, SgFin b);
  he_fin : d_active d1 = [] ->
           d_shuttingdown d1 = true \/ l_tests_finished ls1 = true \/ d_shouldstop d1 = true;
  he_sd : d_shuttingdown d1 = d_shuttingdown d;
  he_ss : d_shouldstop d = true -> d_shouldstop d1 = true;
  he_stop : forall m, ev_sig ev = Some (m, SgFin true) -> d_shouldstop d1 = true;
}.

Definition PRE (ev : cevent) (d : dstate) (ls : lstate) : Prop :=
  match ev with
  | QReady n => n < N /\ (d_shuttingdown d = false -> ~ In n (l_nodes ls) /\ In n (d_active d))
  | QCollFinish n ids => n < N /\ ~ In n (akeys (l_n2c ls)) /\ ids = collf n
  | QComplete n i _ => exists rest, aget n (l_n2p ls) = Some (i :: rest)
  | QFinished n SKNone => In n (d_active d) /\ (In n (l_nodes ls) -> aget n (l_n2p ls) = Some []) /\
                          (exists f, aget n (l_nt ls) = Some f /\ n_sdsent f = true)
  | QFinished n SKStop => In n (d_active d)
  | QFinished _ SKKbd | QUnscheduled _ _ | QInternalError _ | QErrorDown _ => False
  | _ => True
  end.

Definition same_ctl (d d1 : dstate) : Prop :=
  d_sched d1 = d_sched d /\ d_shuttingdown d1 = d_shuttingdown d /\ d_active d1 = d_active d /\
  (d_shouldstop d = true -> d_shouldstop d1 = true).

Lemma heff_same ev d ls d1 o1 :
  DJ d ls -> d_active d <> [] -> same_ctl d d1 -> (forall m, cmds_to m o1 = []) ->
  (forall m b, bookmid ev m b = b) -> (forall m b, ev_sig ev <> Some (m, SgFin b)) ->
  HEFF ev d ls d1 ls o1.
Proof.
  intros ([Els J Jb Jp Jg] & Jss) Hact (S1 & S2 & S3 & S4) Hc Hb Hf. constructor.
  - constructor.
    + rewrite S1. exact Els.
    + exact J.
    + rewrite S2, S3. intros Hsd Hss. apply Jb; [exact Hsd|].
      destruct (d_shouldstop d) eqn:E; [|reflexivity]. rewrite (S4 eq_refl) in Hss. discriminate.
    + rewrite S2. exact Jp.
    + rewrite S2. intros Hsd. destruct (Jg Hsd) as [X|X]; [left; apply S4; exact X|right; exact X].
  - intros m. rewrite Hc. apply NRo_refl.
  - intros m. rewrite Hc, Hb. cbn. rewrite app_nil_r. reflexivity.
  - auto.
  - auto.
  - intros m Hm. left. rewrite S3. exact Hm.
  - rewrite S3. intros F. contradiction.
  - exact S2.
  - exact S4.
  - intros m E. exfalso. exact (Hf _ _ E).
Qed.

Lemma handlefailures_same b d d' o r :
  d_handlefailures b d = (d', o, r) -> r = Ok tt /\ o = [] /\ same_ctl d d'.
Proof.
  unfold d_handlefailures, same_ctl. destruct (negb b); [unfold ret; intros H; inv H; auto 10|].
  rewrite mbind_get, mbind_put, mbind_get.
  match goal with |- context [if ?c then _ else _] => destruct c end; unfold put, ret; intros H; inv H; cbn; auto 10.
Qed.

Lemma hook_run h (d : dstate) : hook h d = (d, [OHook h], Ok tt).
Proof. reflexivity. Qed.

(* events that do not concern the scheduler *)
Lemma handle_quiet ev d d1 o1 r :
  match ev with
  | QLogStart _ _ | QLogFinish _ _ | QWarning | QReport _ _ _ _ | QCollectReport _ _ _ => True
  | _ => False
  end ->
  d_handle ev d = (d1, o1, r) -> r = Ok tt /\ same_ctl d d1 /\ forall m, cmds_to m o1 = [].
Proof.
  assert (R : same_ctl d d) by (unfold same_ctl; auto).
  destruct ev; try contradiction; intros _; cbn [d_handle].
  - rewrite mbind_get. destruct (mem_nat key (d_collect_seen d)); [unfold ret; intros H; inv H; auto|].
    rewrite mbind_put. unfold hook. rewrite mbind_emit.
    destruct (d_handlefailures failed (d_set_collect_seen d (key :: d_collect_seen d))) as [[d2 o2] r2] eqn:Eh.
    apply handlefailures_same in Eh. destruct Eh as (-> & -> & (A & B & C & D)).
    intros H. inv H. split; [reflexivity|]. split; [|intros m; reflexivity].
    unfold same_ctl. cbn in *. auto.
  - rewrite hook_run. intros H. inv H. auto.
  - rewrite hook_run. intros H. inv H. auto.
  - unfold hook. rewrite mbind_emit.
    destruct (d_handlefailures _ d) as [[d2 o2] r2] eqn:Eh.
    apply handlefailures_same in Eh. destruct Eh as (-> & -> & S).
    intros H. inv H. split; [reflexivity|]. split; [exact S|intros m; reflexivity].
  - rewrite hook_run. intros H. inv H. auto.
Qed.

Ltac dproj := cbn [d_sched d_shuttingdown d_shouldstop d_active d_countfailures d_maxfail d_failed_nodes
  d_max_restart d_collect_seen d_next_gw d_requeue d_set_sched d_set_active d_set_shouldstop
  d_set_shuttingdown d_set_countfailures d_set_collect_seen d_with].

Lemma sched_op_run op d ls :
  d_sched d = StL ls ->
  d_sched_op op d = let '(st, o, r) := s_step (StL ls) op in (d_set_sched d st, o, r).
Proof. intros Els. unfold d_sched_op. rewrite Els. reflexivity. Qed.

Lemma DJ0_TR0 d ls ls' o :
  DJ0 d ls -> TR0 ls ls' o -> l_pending ls' = l_pending ls ->
  (d_shuttingdown d = false -> forall n, ~ In CShutdown (cmds_to n o)) ->
  DJ0 (d_set_sched d (StL ls')) ls'.
Proof.
  intros [Els J Jb Jp Jg] T Ep Hns. destruct (tr_keeps _ _ _ T) as (Kc & Kn & Km & Kch & Kk). constructor.
  - reflexivity.
  - eapply LJ_TR0; eauto.
  - cbn. unfold l_nodes. rewrite Kk. exact Jb.
  - cbn. intros Hsd n f' Ef' Hs.
    destruct (NRo_open _ _ _ _ (tr_nt _ _ _ T n) Ef') as (f & Ef & R).
    destruct (NR_fields _ _ _ R) as (_ & _ & _ & D & _). apply D in Hs. destruct Hs as [Hs|Hs].
    + unfold l_collection_is_completed. rewrite Km, Kn, Ep. exact (Jp Hsd n f Ef Hs).
    + exfalso. exact (Hns Hsd n Hs).
  - cbn. unfold l_collection_is_completed. rewrite Km, Kn, Ep. exact Jg.
Qed.

(* ---- workerready ---- *)
Lemma handle_ready n d ls d1 o1 r :
  DJ d ls -> LI ls -> d_active d <> [] -> PRE (QReady n) d ls ->
  d_handle (QReady n) d = (d1, o1, r) -> r = Ok tt /\ exists ls1, HEFF (QReady n) d ls d1 ls1 o1.
Proof.
  intros (J0 & Jss) I Hact (HnN & Hpre) H. pose proof J0 as [Els J Jb Jp Jg]. pose proof I as (Ho & _).
  cbn [d_handle] in H. unfold hook in H. rewrite mbind_emit, mbind_get in H.
  destruct (d_shuttingdown d) eqn:Esd.
  - (* already shutting down: the node is told to shut down and is not scheduled *)
    rewrite (d_node_shutdown_lift n d ls Els) in H.
    destruct (node_shutdown l_nt l_set_nt n ls) as [[ls1 o2] r2] eqn:En. cbn [liftD] in H. inv H.
    assert (Hk : aget n (l_nt ls) <> None) by (apply (lj_ntk _ J); exact HnN).
    destruct (node_shutdown_TR0 _ _ _ _ _ Ho Hk En) as (-> & T & P & B).
    split; [reflexivity|]. exists ls1.
    assert (C : forall m, cmds_to m (OHook (HNodeReady n) :: o2) = cmds_to m o2) by reflexivity.
    constructor.
    + apply (DJ0_TR0 d ls ls1 o2 J0 T P). congruence.
    + intros m. rewrite C. apply (tr_nt _ _ _ T).
    + intros m. rewrite C. cbn [bookmid]. apply (tr_bk _ _ _ T).
    + intros m Hm. left. unfold l_nodes in *. destruct (tr_keeps _ _ _ T) as (_ & _ & _ & _ & Kk). rewrite <- Kk. exact Hm.
    + intros m Hm. left. destruct (tr_keeps _ _ _ T) as (_ & Kn & _). rewrite <- Kn. exact Hm.
    + intros m Hm. left. exact Hm.
    + cbn. intros F. contradiction.
    + reflexivity.
    + cbn. auto.
    + intros m E. discriminate.
  - (* the node joins the scheduler with an empty book *)
    destruct (Hpre eq_refl) as (Hnew & Hina).
    assert (Ea : aget n (l_n2p ls) = None) by (apply aget_none_keys; exact Hnew).
    unfold mbind at 1 in H. rewrite (sched_op_run _ d ls Els) in H. cbn [s_step] in H.
    unfold l_add_node, massert, ahas in H. rewrite mbind_get in H. rewrite Ea in H. cbn [negb] in H.
    rewrite mbind_ret in H. unfold put, lift, no_str, ret in H. inv H.
    split; [reflexivity|]. set (ls1 := l_set_n2p ls (aset n [] (l_n2p ls))). exists ls1.
    assert (Ek : l_nodes ls1 = l_nodes ls ++ [n]) by (apply akeys_aset_new; exact Ea).
    constructor.
    + constructor.
      * reflexivity.
      * constructor; [exact (lj_num _ J)|exact (lj_ntk _ J)| | |exact (lj_n2c _ J)|exact (lj_n2cnd _ J)
                      |exact (lj_chunk _ J)|exact (lj_cc _ J)|exact (lj_lg _ J)].
        -- intros m Hm.
           rewrite Ek in Hm. apply in_app_or in Hm. destruct Hm as [Hm|[<-|[]]]; [apply (lj_nodes _ J); exact Hm|exact HnN].
        -- apply akeys_aset_nodup. apply J.
      * dproj. intros _ Hss m Hm. rewrite Ek in Hm. apply in_app_or in Hm.
        destruct Hm as [Hm|[<-|[]]]; [apply (Jb eq_refl Hss); exact Hm|exact Hina].
      * dproj. intros _. exact (Jp eq_refl).
      * dproj. rewrite Esd. discriminate.
    + intros m. apply NRo_refl.
    + intros m. cbn. rewrite app_nil_r. unfold bk, ls1. cbn [l_n2p l_set_n2p].
      destruct (Nat.eq_dec m n) as [->|Hm].
      * rewrite alist_get_aset_eq. symmetry. apply alist_get_none. exact Ea.
      * apply alist_get_aset_neq. exact Hm.
    + intros m Hm. rewrite Ek in Hm. apply in_app_or in Hm. destruct Hm as [Hm|[<-|[]]]; [left; exact Hm|right; reflexivity].
    + intros m Hm. left. exact Hm.
    + intros m Hm. left. exact Hm.
    + cbn. intros F. contradiction.
    + reflexivity.
    + cbn. auto.
    + intros m E. discriminate.
Qed.

Lemma LJ_ext ls ls' :
  LJ ls -> l_numnodes ls' = l_numnodes ls ->
  (forall n, aget n (l_nt ls') <> None <-> aget n (l_nt ls) <> None) ->
  akeys (l_n2p ls') = akeys (l_n2p ls) -> l_n2c ls' = l_n2c ls -> l_coll ls' = l_coll ls ->
  (l_pending ls' <> [] -> l_chunk ls' <> None) -> LJ ls'.
Proof.
  intros J Km Kt Kk Kn Kc Kch. constructor.
  - rewrite Km. apply J.
  - intros n. rewrite Kt. apply J.
  - unfold l_nodes. rewrite Kk. apply J.
  - unfold l_nodes. rewrite Kk. apply J.
  - rewrite Kn. apply J.
  - rewrite Kn. apply J.
  - exact Kch.
  - unfold l_collection_is_completed. rewrite Kc, Km, Kn. apply J.
  - apply (LG_ext ls ls' (lj_lg _ J) Kn Kc Km).
Qed.

Lemma book_in_books ls n i rest : aget n (l_n2p ls) = Some (i :: rest) -> books ls <> [].
Proof.
  intros H. destruct (aget_split _ _ _ _ H) as (pre & post & Hm & _). unfold books. rewrite Hm.
  rewrite flat_map_app. cbn [flat_map snd]. intros F. apply app_eq_nil in F. destruct F as (_ & F). discriminate.
Qed.

(* ---- runtest_protocol_complete ---- *)
Lemma handle_complete n i ms d ls d1 o1 r :
  DJ d ls -> LI ls -> d_active d <> [] -> PRE (QComplete n i ms) d ls ->
  d_handle (QComplete n i ms) d = (d1, o1, r) ->
  r = Ok tt /\ exists ls1, HEFF (QComplete n i ms) d ls d1 ls1 o1.
Proof.
  intros (J0 & Jss) I Hact (rest & Hb) H. pose proof J0 as [Els J Jb Jp Jg]. pose proof I as (Ho & _ & I3).
  cbn [d_handle] in H. unfold mbind at 1 in H. rewrite (sched_op_run _ d ls Els) in H. cbn [s_step] in H.
  destruct (l_mark_test_complete n i ms ls) as [[ls1 o2] r2] eqn:Em. cbn [lift] in H.
  assert (Hin : In n (l_nodes ls)) by (apply aget_In_keys; congruence).
  assert (Hk : aget n (l_nt ls) <> None) by exact (nodes_known ls J n Hin).
  destruct (mark_complete_TR _ _ _ _ _ _ _ _ Ho Hk Hb (lj_chunk _ J) Em) as (-> & T & SDP).
  unfold no_str, ret in H. inv H. rewrite app_nil_r.
  set (ls0 := l_set_n2p ls (aset n rest (l_n2p ls))) in *.
  destruct (tr_keeps _ _ _ T) as (Kc & Kn & Km & Kch & Kk). destruct (tr_pend _ _ _ T) as (moved & Emv).
  assert (Kk0 : akeys (l_n2p ls0) = akeys (l_n2p ls)) by (eapply akeys_aset_has; eauto).
  assert (Hcoll : l_coll ls <> None).
  { intros E. destruct (I3 E) as (_ & B0). exact (book_in_books _ _ _ _ Hb B0). }
  split; [reflexivity|]. exists ls1. constructor.
  - constructor.
    + reflexivity.
    + apply (LJ_ext ls ls1 J); [exact Km|intros k; exact (TR0_nt_keys _ _ _ k T)|congruence|exact Kn|exact Kc|].
      intros Hp. rewrite Kch. apply (lj_chunk _ J). change (l_pending ls) with (l_pending ls0).
      rewrite Emv. intros F. apply app_eq_nil in F. tauto.
    + dproj. unfold l_nodes. rewrite Kk, Kk0. exact Jb.
    + dproj. intros Hsd m f' Ef' Hs.
      destruct (NRo_open _ _ _ _ (tr_nt _ _ _ T m) Ef') as (f & Ef & R).
      destruct (NR_fields _ _ _ R) as (_ & _ & _ & D & _). apply D in Hs.
      assert (Hc1 : l_collection_is_completed ls1 = l_collection_is_completed ls).
      { unfold l_collection_is_completed. rewrite Km, Kn. reflexivity. }
      rewrite Hc1. destruct Hs as [Hs|Hs].
      * destruct (Jp Hsd m f Ef Hs) as (C & P). split; [exact C|].
        change (l_pending ls) with (l_pending ls0) in P. rewrite Emv in P. apply app_eq_nil in P. tauto.
      * split; [apply (lj_cc _ J); exact Hcoll|]. apply SDP. exists m. exact Hs.
    + dproj. intros Hsd. destruct (Jg Hsd) as [X|(C & P)]; [left; exact X|right].
      unfold l_collection_is_completed. rewrite Km, Kn. split; [exact C|].
      change (l_pending ls) with (l_pending ls0) in P. rewrite Emv in P. apply app_eq_nil in P. tauto.
  - intros m. apply (tr_nt _ _ _ T m).
  - intros m. rewrite (tr_bk _ _ _ T m). f_equal. unfold bk, ls0. cbn [l_n2p l_set_n2p bookmid].
    destruct (Nat.eqb m n) eqn:E.
    + apply Nat.eqb_eq in E. subst m. rewrite alist_get_aset_eq. unfold alist_get. rewrite Hb. reflexivity.
    + apply Nat.eqb_neq in E. apply alist_get_aset_neq. exact E.
  - intros m Hm. left. unfold l_nodes in *. rewrite Kk, Kk0 in Hm. exact Hm.
  - intros m Hm. left. rewrite Kn in Hm. exact Hm.
  - intros m Hm. left. exact Hm.
  - dproj. intros F. contradiction.
  - reflexivity.
  - dproj. auto.
  - intros m E. discriminate.
Qed.

Lemma active_remove_run n d :
  In n (d_active d) ->
  d_active_remove n d = (d_set_active d (filter (fun m => negb (Nat.eqb m n)) (d_active d)), [], Ok tt).
Proof.
  intros Hin. unfold d_active_remove. rewrite mbind_get.
  apply mem_nat_In in Hin. rewrite Hin. reflexivity.
Qed.

Lemma in_filter_neq n m l : In m (filter (fun k => negb (Nat.eqb k n)) l) <-> In m l /\ m <> n.
Proof.
  rewrite filter_In. split; intros (A & B); (split; [exact A|]).
  - apply negb_true_iff, Nat.eqb_neq in B. exact B.
  - apply negb_true_iff, Nat.eqb_neq. exact B.
Qed.

Lemma rm_state_n2c n ls :
  l_n2c (rm_state n ls) = if l_collection_is_completed ls then l_n2c ls else adel n (l_n2c ls).
Proof.
  unfold rm_state. cbv zeta.
  change (l_collection_is_completed (l_set_n2p ls (adel n (l_n2p ls)))) with (l_collection_is_completed ls).
  destruct (l_collection_is_completed ls); reflexivity.
Qed.

Lemma rm_state_completed n ls :
  l_collection_is_completed ls = true -> l_collection_is_completed (rm_state n ls) = true.
Proof.
  intros C. destruct (rm_state_fields n ls) as (_ & _ & _ & _ & _ & Fm).
  pose proof (rm_state_n2c n ls) as En. rewrite C in En.
  unfold l_collection_is_completed in *. rewrite Fm, En. exact C.
Qed.

(* ---- workerfinished ---- *)
Lemma handle_finished n sk d ls d1 o1 r :
  DJ d ls -> LI ls -> d_active d <> [] -> PRE (QFinished n sk) d ls ->
  d_handle (QFinished n sk) d = (d1, o1, r) ->
  r = Ok tt /\ exists ls1, HEFF (QFinished n sk) d ls d1 ls1 o1.
Proof.
  intros (J0 & Jss) I Hact Hpre H. pose proof J0 as [Els J Jb Jp Jg]. pose proof I as (Ho & _ & I3).
  cbn [d_handle] in H. unfold d_worker_workerfinished, hook in H. rewrite mbind_emit in H.
  destruct sk; cbn [PRE] in Hpre; [| |contradiction].
  - (* no stop request: the node leaves the scheduler with an empty book *)
    destruct Hpre as (Hina & Hbook & (f & Ef & Hsd)).
    rewrite mbind_get in H. rewrite Els in H. cbn [s_nodes] in H.
    assert (STEP : exists ls1,
      ((if mem_nat n (l_nodes ls)
        then r0 <- d_sched_op (SRemove n);; massert match r0 with Some s0 => (s0 =? "")%string | None => true end
        else ret tt) d) = (d_set_sched d (StL ls1), [], Ok tt) /\
      l_nt ls1 = l_nt ls /\ l_pending ls1 = l_pending ls /\ l_coll ls1 = l_coll ls /\ l_chunk ls1 = l_chunk ls /\
      l_numnodes ls1 = l_numnodes ls /\
      (forall m, bk ls1 m = bk ls m) /\
      (forall m, In m (l_nodes ls1) -> In m (l_nodes ls) /\ m <> n) /\ NoDup (l_nodes ls1) /\
      (forall m, In m (akeys (l_n2c ls1)) -> In m (akeys (l_n2c ls))) /\ NoDup (akeys (l_n2c ls1)) /\
      (l_collection_is_completed ls = true -> l_collection_is_completed ls1 = true) /\
      (forall x, In x (l_n2c ls1) -> In x (l_n2c ls)) /\
      (l_collection_is_completed ls1 = true -> l_n2c ls1 = l_n2c ls)).
    { destruct (mem_nat n (l_nodes ls)) eqn:Em.
      - apply mem_nat_In in Em. specialize (Hbook Em).
        exists (rm_state n ls). destruct (rm_state_fields n ls) as (Fp & Fq & Fc & Fn & Fch & Fm).
        split.
        { unfold mbind. rewrite (sched_op_run _ d ls Els). cbn [s_step].
          destruct (l_remove_node n ls) as [[ls2 o2] r2] eqn:Er. apply l_remove_node_cases in Er.
          destruct Er as [(F & _)|[(_ & -> & -> & ->)|(i0 & rest0 & F & _)]]; try congruence.
          cbn [lift]. reflexivity. }
        split; [exact Fn|]. split; [exact Fq|]. split; [exact Fc|]. split; [exact Fch|]. split; [exact Fm|].
        split.
        { intros m. unfold bk. rewrite Fp. destruct (Nat.eq_dec m n) as [->|Hm].
          - rewrite (alist_get_none [] n _ (aget_adel_eq n _ (lj_wf _ J))).
            unfold alist_get. rewrite Hbook. reflexivity.
          - unfold alist_get. rewrite aget_adel_neq by exact Hm. reflexivity. }
        split.
        { intros m Hm. unfold l_nodes in *. rewrite Fp in Hm. split; [eapply adel_keys_incl; eauto|].
          intros ->. exact (adel_not_key _ _ _ (lj_wf _ J) Hm). }
        split; [unfold l_nodes; rewrite Fp; apply adel_nodup; apply J|].
        split.
        { intros m. rewrite rm_state_n2c. destruct (l_collection_is_completed ls); [auto|]. apply adel_keys_incl. }
        split.
        { rewrite rm_state_n2c. destruct (l_collection_is_completed ls); [apply J|apply adel_nodup; apply J]. }
        split; [apply rm_state_completed|].
        split.
        { intros x. rewrite rm_state_n2c. destruct (l_collection_is_completed ls); [auto|]. apply in_adel. }
        intros C1. rewrite rm_state_n2c. destruct (l_collection_is_completed ls) eqn:C0; [reflexivity|]. exfalso.
        unfold l_collection_is_completed in C0, C1. rewrite Fm, rm_state_n2c in C1.
        change (l_numnodes ls <=? length (l_n2c ls)) with (l_collection_is_completed ls) in C1.
        unfold l_collection_is_completed in C1. rewrite C0 in C1.
        apply Nat.leb_le in C1. apply Nat.leb_gt in C0. pose proof (length_adel_le n (l_n2c ls)). lia.
      - apply mem_nat_false in Em. exists ls. split; [rewrite d_set_sched_same by exact Els; reflexivity|].
        repeat split; auto; try apply J. intros ->. contradiction. }
    destruct STEP as (ls1 & Erun & Fn & Fq & Fc & Fch & Fm & Fbk & Fnodes & Fwf & Fn2c & Fn2cnd & Fcomp & Fent & Fcback).
    unfold mbind at 1 in H. rewrite Erun in H.
    rewrite (active_remove_run n (d_set_sched d (StL ls1)) Hina) in H. inv H.
    split; [reflexivity|]. exists ls1.
    assert (HB : d_shuttingdown d = false -> d_shouldstop d = false ->
                 incl (l_nodes ls1) (filter (fun m => negb (Nat.eqb m n)) (d_active d))).
    { intros Hs1 Hs2 m Hm. destruct (Fnodes m Hm) as (Hm1 & Hm2). apply in_filter_neq. split; [|exact Hm2].
      apply (Jb Hs1 Hs2). exact Hm1. }
    constructor.
    + constructor.
      * reflexivity.
      * constructor.
        -- rewrite Fm. apply J.
        -- rewrite Fn. apply J.
        -- intros m Hm. apply (lj_nodes _ J). apply Fnodes. exact Hm.
        -- exact Fwf.
        -- intros m Hm. apply (lj_n2c _ J). apply Fn2c. exact Hm.
        -- exact Fn2cnd.
        -- rewrite Fq, Fch. apply J.
        -- rewrite Fc. intros Hc. apply Fcomp. apply (lj_cc _ J). exact Hc.
        -- destruct (lj_lg _ J) as (G1 & G3). split.
           ++ intros k ids Hin. apply G1. apply Fent. exact Hin.
           ++ intros X HX C1. rewrite Fc. pose proof (Fcback C1) as En. rewrite En in HX. apply G3; [exact HX|].
              unfold l_collection_is_completed in *. rewrite Fm, En in C1. exact C1.
      * dproj. exact HB.
      * dproj. rewrite Fn, Fq. intros Hs m f0 Ef0 Hf0. destruct (Jp Hs m f0 Ef0 Hf0) as (C & P). split; [apply Fcomp; exact C|exact P].
      * dproj. rewrite Fq. intros Hsd1. destruct (Jg Hsd1) as [X|(C & P)]; [left; exact X|right; split; [apply Fcomp; exact C|exact P]].
    + intros m. rewrite Fn. apply NRo_refl.
    + intros m. cbn. rewrite app_nil_r. apply Fbk.
    + intros m Hm. left. apply Fnodes. exact Hm.
    + intros m Hm. left. apply Fn2c. exact Hm.
    + intros m Hm. dproj. destruct (Nat.eq_dec m n) as [->|Hne]; [right; eexists; reflexivity|].
      left. apply in_filter_neq. split; assumption.
    + dproj. intros Hempty. destruct (d_shuttingdown d) eqn:Esd; [left; reflexivity|].
      destruct (d_shouldstop d) eqn:Ess; [right; right; reflexivity|]. right. left.
      destruct (Jp eq_refl n f Ef Hsd) as (C & P).
      specialize (HB eq_refl eq_refl). rewrite Hempty in HB.
      assert (En : l_n2p ls1 = []).
      { destruct (l_n2p ls1) as [|[k v] rest] eqn:E; [reflexivity|]. exfalso.
        apply (HB k). unfold l_nodes. rewrite E. left. reflexivity. }
      unfold l_tests_finished. rewrite (Fcomp C), Fq, P, En. reflexivity.
    + reflexivity.
    + dproj. auto.
    + intros m E. discriminate.
  - (* stop request *)
    assert (STEP : exists d2, (d0 <- get;; (if d_shouldstop d0 then ret tt else put (d_set_shouldstop d0 true))) d = (d2, [], Ok tt) /\
              d_sched d2 = d_sched d /\ d_shuttingdown d2 = d_shuttingdown d /\ d_active d2 = d_active d /\ d_shouldstop d2 = true).
    { rewrite mbind_get. destruct (d_shouldstop d) eqn:Ess.
      - exists d. auto.
      - eexists. split; [reflexivity|]. auto. }
    destruct STEP as (d2 & Erun & S1 & S2 & S3 & S4).
    unfold mbind at 1 in H. rewrite Erun in H.
    assert (Hina : In n (d_active d2)) by (rewrite S3; exact Hpre).
    rewrite (active_remove_run n d2 Hina) in H. inv H.
    split; [reflexivity|]. exists ls. constructor.
    + constructor.
      * dproj. rewrite S1. exact Els.
      * exact J.
      * dproj. rewrite S4. discriminate.
      * dproj. rewrite S2. exact Jp.
      * dproj. intros _. left. exact S4.
    + intros m. apply NRo_refl.
    + intros m. cbn. rewrite app_nil_r. reflexivity.
    + auto.
    + auto.
    + intros m Hm. dproj. destruct (Nat.eq_dec m n) as [->|Hne]; [right; eexists; reflexivity|].
      left. apply in_filter_neq. rewrite S3. split; assumption.
    + dproj. intros _. right. right. exact S4.
    + dproj. exact S2.
    + dproj. intros _. exact S4.
    + intros m _. dproj. exact S4.
Qed.

Lemma NRo_keys a cs b : NRo a cs b -> (b <> None <-> a <> None).
Proof. destruct a, b; cbn; try tauto; intros _; split; intros; discriminate. Qed.

Lemma add_coll_run n ids ls :
  aget n (l_n2p ls) <> None -> l_collection_is_completed ls = false ->
  l_add_node_collection n ids ls = (l_set_n2c ls (aset n ids (l_n2c ls)), [], Ok tt).
Proof.
  intros Hp Hc. unfold l_add_node_collection. rewrite mbind_get. unfold massert, ahas.
  destruct (aget n (l_n2p ls)); [|congruence]. rewrite mbind_ret, Hc. reflexivity.
Qed.

(* ---- collectionfinish ---- *)
Lemma handle_collfinish n ids d ls d1 o1 r :
  DJ d ls -> LI ls -> d_active d <> [] -> PRE (QCollFinish n ids) d ls ->
  d_handle (QCollFinish n ids) d = (d1, o1, r) ->
  r = Ok tt /\ exists ls1, HEFF (QCollFinish n ids) d ls d1 ls1 o1.
Proof.
  intros DJd I Hact (HnN & Hnew & Hids) H. pose proof DJd as (J0 & Jss). pose proof J0 as [Els J Jb Jp Jg].
  pose proof I as (Ho & _ & I3).
  assert (SAME : forall x, (d, @nil out, x) = (d1, o1, r) -> x = Ok tt ->
                 r = Ok tt /\ exists ls1, HEFF (QCollFinish n ids) d ls d1 ls1 o1).
  { intros x E Ex. inv E. split; [reflexivity|]. exists ls. apply heff_same; auto.
    - unfold same_ctl. auto.
    - intros m b E. discriminate. }
  cbn [d_handle] in H. rewrite mbind_get in H.
  destruct (d_shuttingdown d) eqn:Esd; [eapply SAME; [exact H|reflexivity]|].
  rewrite Els in H. cbn [s_nodes] in H.
  destruct (mem_nat n (l_nodes ls)) eqn:Em; cbn [negb] in H; [|eapply SAME; [exact H|reflexivity]].
  clear SAME. apply mem_nat_In in Em.
  assert (Hp : aget n (l_n2p ls) <> None) by (apply aget_In_keys; exact Em).
  assert (Hc : l_collection_is_completed ls = false) by (eapply completed_pigeon; eauto).
  assert (Ecoll : l_coll ls = None).
  { destruct (l_coll ls) eqn:E; [|reflexivity]. rewrite (lj_cc _ J) in Hc; [discriminate|]. rewrite E. discriminate. }
  destruct (I3 Ecoll) as (Ep0 & Eb0).
  assert (NOSD : forall m f, aget m (l_nt ls) = Some f -> n_sdsent f = false).
  { intros m f Ef. destruct (n_sdsent f) eqn:E; [|reflexivity].
    destruct (Jp eq_refl m f Ef E) as (C & _). congruence. }
  unfold hook in H. rewrite mbind_emit in H. unfold mbind at 1 in H.
  rewrite (sched_op_run _ d ls Els) in H. cbn [s_step] in H. rewrite (add_coll_run n ids ls Hp Hc) in H.
  cbn [lift] in H. set (lsa := l_set_n2c ls (aset n ids (l_n2c ls))) in *.
  rewrite mbind_get in H. cbn [d_sched d_set_sched s_collection_is_completed app] in H.
  assert (IDS : forall k x, In (k, x) (l_n2c lsa) -> x = collf k).
  { intros k x Hin. unfold lsa in Hin. cbn [l_n2c l_set_n2c] in Hin. apply in_aset in Hin.
    destruct Hin as [(-> & ->)|Hin]; [exact Hids|]. apply (proj1 (lj_lg _ J)). exact Hin. }
  assert (N2Ck : forall m, In m (akeys (l_n2c lsa)) -> m < N).
  { intros m Hm. apply akeys_aset_cases in Hm. destruct Hm as [->|Hm]; [exact HnN|apply (lj_n2c _ J); exact Hm]. }
  assert (N2Cnd : NoDup (akeys (l_n2c lsa))) by (apply akeys_aset_nodup; apply J).
  assert (N2C : forall m, In m (akeys (l_n2c lsa)) -> In m (akeys (l_n2c ls)) \/ ev_sig (QCollFinish n ids) = Some (m, SgCF)).
  { intros m Hm. apply akeys_aset_cases in Hm. destruct Hm as [->|Hm]; [right; reflexivity|left; exact Hm]. }
  destruct (l_collection_is_completed lsa) eqn:Eca.
  - (* the last collection: schedule() *)
    unfold mbind at 1 in H. rewrite (sched_op_run _ (d_set_sched d (StL lsa)) lsa eq_refl) in H. cbn [s_step] in H.
    destruct (l_schedule lsa) as [[ls1 o2] r2] eqn:Es. cbn [lift] in H.
    assert (Hready : forall m, In m (l_nodes lsa) -> node_ready lsa m).
    { intros m Hm. split; [apply aget_In_keys; exact Hm|].
      destruct (aget m (l_nt ls)) as [f|] eqn:Ef.
      - exists f. split; [exact Ef|]. eapply NOSD; eauto.
      - exfalso. exact (nodes_known ls J m Hm Ef). }
    assert (Hn2c : l_n2c lsa <> []).
    { unfold lsa. cbn [l_n2c l_set_n2c]. destruct (l_n2c ls) as [|[k v] rr]; cbn; [discriminate|].
      destruct (Nat.eqb n k); discriminate. }
    assert (Hnodes : l_nodes lsa <> []) by (intros F; change (l_nodes lsa) with (l_nodes ls) in F; rewrite F in Em; destruct Em).
    destruct (schedule_first_TR lsa ls1 o2 r2 Ho Ecoll Ep0 Eca Hn2c Hnodes Hready Es)
      as (-> & Tnt & Tbk & Tk & Tn2c & Tnum & Tch & Tsdp & _ & Tcoll).
    unfold no_str, ret in H. inv H. rewrite app_nil_r.
    assert (C : forall m, cmds_to m (OHook (HCollFinished n) :: o2) = cmds_to m o2) by reflexivity.
    assert (Hc1 : l_collection_is_completed ls1 = true).
    { unfold l_collection_is_completed in *. rewrite Tnum, Tn2c. exact Eca. }
    split; [reflexivity|]. exists ls1. constructor.
    + constructor.
      * reflexivity.
      * constructor.
        -- rewrite Tnum. exact (lj_num _ J).
        -- intros m. rewrite (NRo_keys _ _ _ (Tnt m)). apply (lj_ntk _ J).
        -- unfold l_nodes. rewrite Tk. exact (lj_nodes _ J).
        -- unfold l_nodes. rewrite Tk. exact (lj_wf _ J).
        -- rewrite Tn2c. exact N2Ck.
        -- rewrite Tn2c. exact N2Cnd.
        -- exact Tch.
        -- intros _. exact Hc1.
        -- split; [rewrite Tn2c; exact IDS|]. intros X HX _. apply Tcoll. rewrite <- Tn2c. exact HX.
      * dproj. unfold l_nodes. rewrite Tk. intros _. exact (Jb eq_refl).
      * dproj. intros _ m f' Ef' Hs.
        destruct (NRo_open _ _ _ _ (Tnt m) Ef') as (f & Ef & R).
        destruct (NR_fields _ _ _ R) as (_ & _ & _ & D & _). apply D in Hs. destruct Hs as [Hs|Hs].
        -- rewrite (NOSD m f Ef) in Hs. discriminate.
        -- split; [exact Hc1|]. apply Tsdp. exists m. exact Hs.
      * dproj. rewrite Esd. discriminate.
    + intros m. rewrite C. apply Tnt.
    + intros m. rewrite C. cbn [bookmid]. apply Tbk.
    + intros m Hm. left. unfold l_nodes in *. rewrite Tk in Hm. exact Hm.
    + intros m Hm. rewrite Tn2c in Hm. apply N2C. exact Hm.
    + intros m Hm. left. exact Hm.
    + dproj. intros F. contradiction.
    + reflexivity.
    + dproj. auto.
    + intros m E. discriminate.
  - (* not the last one *)
    unfold ret in H. inv H.
    split; [reflexivity|]. exists lsa. constructor.
    + constructor; [reflexivity| |dproj; intros _; exact (Jb eq_refl)| |dproj; rewrite Esd; discriminate].
      * constructor; [exact (lj_num _ J)|exact (lj_ntk _ J)|exact (lj_nodes _ J)|exact (lj_wf _ J)|exact N2Ck|exact N2Cnd
                      |exact (lj_chunk _ J)| |].
        -- intros F. exfalso. apply F. exact Ecoll.
        -- split; [exact IDS|]. intros X _ C0. congruence.
      * dproj. intros _ m f Ef Hs. rewrite (NOSD m f Ef) in Hs. discriminate.
    + intros m. apply NRo_refl.
    + intros m. cbn. rewrite app_nil_r. reflexivity.
    + intros m Hm. left. exact Hm.
    + exact N2C.
    + intros m Hm. left. exact Hm.
    + dproj. intros F. contradiction.
    + reflexivity.
    + dproj. auto.
    + intros m E. discriminate.
Qed.

Theorem handle_eff ev d ls d1 o1 r :
  DJ d ls -> LI ls -> d_active d <> [] -> PRE ev d ls ->
  d_handle ev d = (d1, o1, r) -> r = Ok tt /\ exists ls1, HEFF ev d ls d1 ls1 o1.
Proof.
  intros DJd I Hact Hpre H.
  assert (QUIET : match ev with
                  | QLogStart _ _ | QLogFinish _ _ | QWarning | QReport _ _ _ _ | QCollectReport _ _ _ => True
                  | _ => False end -> r = Ok tt /\ exists ls1, HEFF ev d ls d1 ls1 o1).
  { intros Hq. destruct (handle_quiet ev d d1 o1 r Hq H) as (-> & S & C). split; [reflexivity|]. exists ls.
    apply heff_same; auto; destruct ev; try contradiction; try reflexivity; intros m b E; discriminate. }
  destruct ev; try (apply QUIET; exact Logic.I); try (cbn in Hpre; contradiction).
  - eapply handle_ready; eauto.
  - eapply handle_collfinish; eauto.
  - eapply handle_complete; eauto.
  - eapply handle_finished; eauto.
Qed.

Record LEFF (ev : cevent) (d : dstate) (ls : lstate) (d' : dstate) (ls' : lstate) (o : list out) : Prop := {
  le_dj : DJ d' ls';
  le_nt : forall m, NRo (aget m (l_nt ls)) (cmds_to m o) (aget m (l_nt ls'));
  le_bk : forall m, bk ls' m = bookmid ev m (bk ls m) ++ flat_map cmd_inds (cmds_to m o);
  le_nodes : forall m, In m (l_nodes ls') -> In m (l_nodes ls) \/ ev_sig ev = Some (m, SgReady);
  le_n2c : forall m, In m (akeys (l_n2c ls')) -> In m (akeys (l_n2c ls)) \/ ev_sig ev = Some (m, SgCF);
  le_act : forall m, In m (d_active d) -> In m (d_active d') \/ exists b, ev_sig ev = Some (m, SgFin b);
  le_fin : d_active d' = [] -> d_shuttingdown d' = true;
  le_ss : d_shouldstop d = true -> d_shouldstop d' = true;
  le_stop : forall m, ev_sig ev = Some (m, SgFin true) -> d_shouldstop d' = true;
  le_sd : d_shuttingdown d = true -> d_shuttingdown d' = true;
}.

(* one iteration of the controller loop never raises, and its effect *)
Theorem loop_once_ok ev d ls d' o r :
  DJ d ls -> LI ls -> d_active d <> [] -> PRE ev d ls ->
  d_loop_once ev d = (d', o, r) -> r = Ok tt /\ exists ls', LEFF ev d ls d' ls' o.
Proof.
  intros DJd I Hact Hpre H. rewrite loop_once_unfold in H.
  apply LoadProofs.mbind_inv in H. destruct H as [(e & H1 & ->)|(d1 & o1 & a & o2 & H1 & H2 & ->)].
  { destruct (handle_eff _ _ _ _ _ _ DJd I Hact Hpre H1) as (F & _). discriminate. }
  destruct (handle_eff _ _ _ _ _ _ DJd I Hact Hpre H1) as (_ & ls1 & E1).
  pose proof (he_dj _ _ _ _ _ _ E1) as J1.
  assert (Ho1 : all_open (l_nt ls1)).
  { intros m f' Ef'. destruct (NRo_open _ _ _ _ (he_nt _ _ _ _ _ _ E1 m) Ef') as (f & Ef & R).
    destruct (NR_fields _ _ _ R) as (_ & _ & C & _). rewrite C. destruct I as (Ho & _). eapply Ho; eauto. }
  destruct (loop_rest_eff _ _ _ _ _ J1 Ho1 H2) as (-> & ls2 & -> & T & P & B & Same).
  split; [reflexivity|]. exists ls2.
  destruct (tr_keeps _ _ _ T) as (Kc & Kn & Km & Kch & Kk).
  assert (SD : d_shuttingdown d1 || l_tests_finished ls1 || d_shouldstop d1 = false ->
               d_shuttingdown d1 = false /\ d_shouldstop d1 = false /\ ls2 = ls1 /\ o2 = []).
  { intros E. destruct (Same E) as (-> & ->). apply orb_false_iff in E. destruct E as (E & E3).
    apply orb_false_iff in E. destruct E as (E1' & E2). auto. }
  constructor.
  - split.
    + constructor.
      * reflexivity.
      * eapply LJ_TR0; [apply J1|exact T|exact P].
      * dproj. intros Hsd Hss. destruct (SD Hsd) as (A & B' & -> & _). apply (dj_b _ _ J1 A B').
      * dproj. intros Hsd. destruct (SD Hsd) as (A & _ & -> & _). apply (dj_p _ _ J1 A).
      * dproj. intros Hsd. destruct (d_shouldstop d1) eqn:Ess; [left; reflexivity|right].
        assert (X : l_collection_is_completed ls1 = true /\ l_pending ls1 = []).
        { destruct (d_shuttingdown d1) eqn:Esd1.
          - destruct (dj_g4 _ _ J1 Esd1) as [F|X]; [congruence|exact X].
          - rewrite orb_false_r in Hsd. cbn [orb] in Hsd. unfold l_tests_finished in Hsd.
            apply andb_true_iff in Hsd. destruct Hsd as (Hsd & _). apply andb_true_iff in Hsd. destruct Hsd as (C & P0).
            split; [exact C|]. destruct (l_pending ls1); [reflexivity|discriminate]. }
        destruct X as (C & P0). unfold l_collection_is_completed in *. rewrite Km, Kn, P. split; assumption.
    + dproj. intros Hss. rewrite Hss. apply orb_true_r.
  - intros m. rewrite cmds_to_app. eapply NRo_trans; [apply (he_nt _ _ _ _ _ _ E1)|apply (tr_nt _ _ _ T)].
  - intros m. rewrite cmds_to_app, flat_map_app, (tr_bk _ _ _ T m), (he_bk _ _ _ _ _ _ E1 m), <- app_assoc. reflexivity.
  - intros m Hm. apply (he_nodes _ _ _ _ _ _ E1). unfold l_nodes in *. rewrite B in Hm. exact Hm.
  - intros m Hm. apply (he_n2c _ _ _ _ _ _ E1). rewrite Kn in Hm. exact Hm.
  - intros m Hm. exact (he_act _ _ _ _ _ _ E1 m Hm).
  - dproj. intros Hempty. destruct (he_fin _ _ _ _ _ _ E1 Hempty) as [X|[X|X]]; rewrite X; rewrite ?orb_true_r, ?orb_true_l; reflexivity.
  - dproj. apply (he_ss _ _ _ _ _ _ E1).
  - dproj. apply (he_stop _ _ _ _ _ _ E1).
  - dproj. intros Hsd. rewrite (he_sd _ _ _ _ _ _ E1), Hsd. reflexivity.
Qed.

End Ctl.

(* Coupling.v, part D: the system invariant. *)

(* ====================================================================================== *)
(* D.1 the per-node invariant, over the components it depends on                            *)
(* ====================================================================================== *)
Record NI (ls : lstate) (act : list nat) (ss : bool) (n : nat) (L : list sig) (dn : list cmd) (w : wst) : Prop := {
  ni_flags : exists f, aget n (l_nt ls) = Some f /\
             mark_ok (n_sdsent f) (wstream w ++ flat_map cmd_items dn);
  ni_coupled : bk ls n = completes L ++ owed_w w ++ flat_map cmd_inds dn;
  ni_chan : chan_ok (prank (wph w)) L;
  ni_nodes : In n (l_nodes ls) -> ~ In SgReady L /\ wph w <> PBoot;
  ni_n2c : In n (akeys (l_n2c ls)) -> ~ In SgCF L /\ 2 <= prank (wph w);
  ni_act : ~ In n act -> L = [] /\ wph w = PExited;
  ni_fm : In (SgFin false) L \/ wph w = PFinishing false -> markpopped w;
  ni_wx : WX w;
  (* a worker that left its loop took the shutdown marker, unless a stop request is on record *)
  ni_fx : finished_ph (wph w) ->
          markpopped w \/ wph w = PFinishing true \/ In (SgFin true) L \/ ss = true;
}.

Lemma NI_deliver ls act ss n L c rest w : NI ls act ss n L (c :: rest) w -> NI ls act ss n L rest (deliver w c).
Proof.
  intros [(f & Ef & Mk) Cp Ch Nd Nc Ac Fm Wx Fx].
  destruct (deliver_owed w c) as (Eo & Es & Ep & Epop & Er).
  constructor; rewrite ?Ep.
  - exists f. split; [exact Ef|]. rewrite Es, <- app_assoc. exact Mk.
  - rewrite Cp, Eo, <- !app_assoc. reflexivity.
  - exact Ch.
  - exact Nd.
  - exact Nc.
  - exact Ac.
  - unfold markpopped in *. rewrite Epop. exact Fm.
  - destruct Wx as (X1 & X2). split; [rewrite Er; exact X1|rewrite Ep; exact X2].
  - unfold markpopped in *. rewrite Epop. exact Fx.
Qed.

Lemma NI_recv o ls act ss n L dn w :
  Forall good_cmd (winbox w) -> NI ls act ss n L dn w ->
  snd (recv_step o w) = [] /\ NI ls act ss n L dn (fst (recv_step o w)).
Proof.
  intros G [(f & Ef & Mk) Cp Ch Nd Nc Ac Fm (X1 & X2) Fx].
  destruct (recv_step_owed o w G X1) as (Ev & Eo & Es & Ep & Epop & Er).
  split; [exact Ev|]. constructor; rewrite ?Ep.
  - exists f. split; [exact Ef|]. rewrite Es. exact Mk.
  - rewrite Cp, Eo. reflexivity.
  - exact Ch.
  - exact Nd.
  - exact Nc.
  - exact Ac.
  - unfold markpopped in *. rewrite Epop. exact Fm.
  - split; [exact Er|rewrite Ep; exact X2].
  - unfold markpopped in *. rewrite Epop. exact Fx.
Qed.

Lemma prank_0 p : prank p = 0 -> p = PBoot.
Proof. destruct p; cbn; intros H; try lia. reflexivity. Qed.

Lemma main_step_not_exited o w w' evs : main_step o w = Some (w', evs) -> wph w <> PExited.
Proof. intros H E. unfold main_step in H. rewrite E in H. discriminate. Qed.

Lemma main_step_from_fin o w w' evs b :
  main_step o w = Some (w', evs) -> wph w = PFinishing b -> wph w' = PExited.
Proof. intros H E. unfold main_step in H. rewrite E in H. inv H. reflexivity. Qed.

Lemma NI_main o ls act ss n L dn w w' evs :
  WInv w -> NI ls act ss n L dn w -> main_step o w = Some (w', evs) ->
  NI ls act ss n (L ++ flat_map we_sig evs) dn w' /\ Forall ok_wev evs.
Proof.
  intros I [(f & Ef & Mk) Cp Ch Nd Nc Ac Fm Wx Fx] H.
  destruct (main_step_frame _ _ _ _ H) as (Erp & Einb & Erep & Estr).
  pose proof (main_step_owed _ _ _ _ I Wx H) as Eow.
  destruct (main_step_rank _ _ _ _ Wx H) as (Hok & Hrank).
  pose proof (main_step_not_exited _ _ _ _ H) as Hne.
  split; [|exact Hok].
  assert (Hmono : prank (wph w) <= prank (wph w')) by (destruct Hrank as [(_ & X)|(g & _ & _ & _ & X)]; exact X).
  assert (Hold : forall g, In g L -> srank g < 3).
  { intros g Hg. pose proof (chan_ok_in _ _ _ Ch Hg) as Hp.
    destruct (Nat.lt_ge_cases (srank g) 3) as [X|X]; [exact X|]. exfalso.
    pose proof (srank_le3 g). unfold prec in Hp. assert (Hp4 : 4 <= prank (wph w)) by lia.
    apply prank_4 in Hp4. contradiction. }
  constructor.
  - exists f. split; [exact Ef|]. rewrite Estr. exact Mk.
  - rewrite Cp, completes_app. unfold owed_w. rewrite Erp, Einb. rewrite <- !app_assoc.
    f_equal. rewrite (app_assoc (owed_main w)), Eow, <- !app_assoc. reflexivity.
  - destruct Hrank as [(-> & X)|(g & -> & Eg & Hp & X)].
    + rewrite app_nil_r. eapply chan_ok_mono; eauto.
    + eapply chan_ok_snoc; eauto. rewrite <- Eg. exact Hp.
  - intros Hin. destruct (Nd Hin) as (Nr & Nb). split.
    + intros Hi. apply in_app_or in Hi. destruct Hi as [Hi|Hi]; [exact (Nr Hi)|].
      destruct Hrank as [(E0 & _)|(g & E0 & Eg & _)]; rewrite E0 in Hi; [destruct Hi|].
      destruct Hi as [->|[]]. cbn in Eg. symmetry in Eg. apply prank_0 in Eg. contradiction.
    + intros E. rewrite E in Hmono. cbn in Hmono. assert (E0 : prank (wph w) = 0) by lia.
      apply prank_0 in E0. contradiction.
  - intros Hin. destruct (Nc Hin) as (Nr & Nb). split; [|lia].
    intros Hi. apply in_app_or in Hi. destruct Hi as [Hi|Hi]; [exact (Nr Hi)|].
    destruct Hrank as [(E0 & _)|(g & E0 & Eg & _)]; rewrite E0 in Hi; [destruct Hi|].
    destruct Hi as [->|[]]. cbn in Eg. lia.
  - intros Hn. destruct (Ac Hn) as (_ & E). contradiction.
  - intros [Hi|Hp].
    + apply in_app_or in Hi. destruct Hi as [Hi|Hi].
      * specialize (Hold _ Hi). cbn in Hold. lia.
      * pose proof (main_step_emits_fin _ _ _ _ _ Wx H Hi) as Ep.
        unfold markpopped in *. rewrite (main_step_in_fin _ _ _ _ _ H Ep). apply Fm. right. exact Ep.
    + eapply main_step_enter_fin; eauto. intros E.
      rewrite (main_step_from_fin _ _ _ _ _ H E) in Hp. discriminate.
  - eapply main_step_WX; eauto.
  - intros Hfin. destruct (main_step_phase_fin _ _ _ _ H Hfin) as [(b & Ep & Ep' & Hsig)|(b & Ep' & Hnf)].
    + (* PFinishing b -> PExited, emitting the finished signal *)
      assert (Hfin0 : finished_ph (wph w)) by (right; exists b; exact Ep).
      destruct b.
      * right. right. left. apply in_or_app. right. rewrite Hsig. left. reflexivity.
      * destruct (Fx Hfin0) as [X|[X|[X|X]]].
        -- left. unfold markpopped in *. rewrite (main_step_in_fin _ _ _ _ _ H Ep). exact X.
        -- congruence.
        -- right. right. left. apply in_or_app. left. exact X.
        -- right. right. right. exact X.
    + (* entering PFinishing b *)
      destruct b; [right; left; exact Ep'|]. left.
      eapply main_step_enter_fin; eauto. intros E. apply Hnf. right. exists false. exact E.
Qed.

(* the controller's receiver thread only touches the down flag *)
Lemma NI_flags_ext ls ls' act ss n L dn w :
  (forall f, aget n (l_nt ls) = Some f -> exists f', aget n (l_nt ls') = Some f' /\ n_sdsent f' = n_sdsent f) ->
  l_n2p ls' = l_n2p ls -> l_n2c ls' = l_n2c ls ->
  NI ls act ss n L dn w -> NI ls' act ss n L dn w.
Proof.
  intros Hf Ep Ec [(f & Ef & Mk) Cp Ch Nd Nc Ac Fm Wx Fx]. constructor; auto.
  - destruct (Hf f Ef) as (f' & Ef' & Es). exists f'. rewrite Es. auto.
  - unfold bk in *. rewrite Ep. exact Cp.
  - unfold l_nodes. rewrite Ep. exact Nd.
  - rewrite Ec. exact Nc.
Qed.

Lemma bookmid_sigs ev n L X :
  bookmid ev n (completes (ev_sigs_for n ev ++ L) ++ X) = completes L ++ X.
Proof.
  unfold ev_sigs_for, bookmid. destruct ev; cbn [ev_sig]; try reflexivity.
  - destruct (Nat.eqb n0 n); reflexivity.
  - destruct (Nat.eqb n0 n); reflexivity.
  - rewrite (Nat.eqb_sym n n0). destruct (Nat.eqb n0 n); reflexivity.
  - destruct (Nat.eqb n0 n); reflexivity.
Qed.

(* one iteration of the controller loop, seen from node n *)
Lemma NI_ctl N collf ev d ls d' ls' o n L' dn w :
  LEFF N collf ev d ls d' ls' o ->
  NI ls (d_active d) (d_shouldstop d) n (ev_sigs_for n ev ++ L') dn w ->
  NI ls' (d_active d') (d_shouldstop d') n L' (dn ++ cmds_to n o) w.
Proof.
  intros E [(f & Ef & Mk) Cp Ch Nd Nc Ac Fm Wx Fx].
  assert (Hsub : forall g, In g L' -> In g (ev_sigs_for n ev ++ L')) by (intros g Hg; apply in_or_app; right; exact Hg).
  assert (Ch' : chan_ok (prank (wph w)) L').
  { unfold ev_sigs_for in Ch. destruct (ev_sig ev) as [[m g]|]; [|exact Ch].
    destruct (Nat.eqb m n); [|exact Ch]. eapply chan_ok_tail. exact Ch. }
  constructor.
  - pose proof (le_nt _ _ _ _ _ _ _ _ E n) as R. rewrite Ef in R.
    destruct (aget n (l_nt ls')) as [f'|] eqn:Ef'; [|destruct R]. cbn in R.
    exists f'. split; [reflexivity|]. rewrite flat_map_app, app_assoc. eapply NR_mark_ok; eauto.
  - rewrite (le_bk _ _ _ _ _ _ _ _ E n), flat_map_app.
    rewrite Cp, bookmid_sigs, <- !app_assoc. reflexivity.
  - exact Ch'.
  - intros Hin. destruct (le_nodes _ _ _ _ _ _ _ _ E n Hin) as [Hold|Hev].
    + destruct (Nd Hold) as (A & B). split; [|exact B]. intros Hi. apply A. apply Hsub. exact Hi.
    + unfold ev_sigs_for in Ch. rewrite Hev, Nat.eqb_refl in Ch. cbn [app] in Ch.
      destruct (chan_ok_ready_head _ _ Ch) as (A & B). split; [exact A|].
      intros Ep. rewrite Ep in B. cbn in B. lia.
  - intros Hin. destruct (le_n2c _ _ _ _ _ _ _ _ E n Hin) as [Hold|Hev].
    + destruct (Nc Hold) as (A & B). split; [|exact B]. intros Hi. apply A. apply Hsub. exact Hi.
    + unfold ev_sigs_for in Ch. rewrite Hev, Nat.eqb_refl in Ch. cbn [app] in Ch.
      exact (chan_ok_cf_head _ _ Ch).
  - intros Hn. destruct (in_dec Nat.eq_dec n (d_active d)) as [Hin|Hni].
    + destruct (le_act _ _ _ _ _ _ _ _ E n Hin) as [X|(b & Hev)]; [contradiction|].
      unfold ev_sigs_for in Ch. rewrite Hev, Nat.eqb_refl in Ch. cbn [app] in Ch.
      destruct (chan_ok_fin_head _ _ _ Ch) as (A & B). split; [exact A|apply prank_4; exact B].
    + destruct (Ac Hni) as (A & B). split; [|exact B]. apply app_eq_nil in A. tauto.
  - intros [Hi|Hp]; apply Fm; [left; apply Hsub; exact Hi|right; exact Hp].
  - exact Wx.
  - intros Hfin. destruct (Fx Hfin) as [X|[X|[X|X]]].
    + left. exact X.
    + right. left. exact X.
    + apply in_app_or in X. destruct X as [X|X].
      * right. right. right. unfold ev_sigs_for in X. destruct (ev_sig ev) as [[m g]|] eqn:Eg; [|destruct X].
        destruct (Nat.eqb m n) eqn:Emn; [|destruct X]. destruct X as [->|[]].
        apply (le_stop _ _ _ _ _ _ _ _ E m). exact Eg.
      * right. right. left. exact X.
    + right. right. right. apply (le_ss _ _ _ _ _ _ _ _ E). exact X.
Qed.

(* when the worker's "finished" (without stop request) is next, its book is empty *)
Lemma NI_finished_empty ls act ss n L dn w :
  NI ls act ss n (SgFin false :: L) dn w ->
  bk ls n = [] /\ exists f, aget n (l_nt ls) = Some f /\ n_sdsent f = true.
Proof.
  intros [(f & Ef & (M1 & M2)) Cp Ch Nd Nc Ac Fm Wx Fx].
  destruct (chan_ok_fin_head _ _ _ Ch) as (-> & Hk). apply prank_4 in Hk.
  destruct (Fm (or_introl (or_introl eq_refl))) as (pre & t & Ep).
  unfold wstream in M1, M2. rewrite Ep, map_app in M1, M2. cbn [map snd] in M1, M2.
  rewrite <- !app_assoc in M1, M2. cbn [app] in M1, M2.
  split.
  - apply mlast_mark_inv in M1. apply app_eq_nil in M1. destruct M1 as (Eq & M1).
    apply app_eq_nil in M1. destruct M1 as (Er & M1). apply app_eq_nil in M1. destruct M1 as (Ei & Ed).
    rewrite Cp. unfold owed_w, owed_main. rewrite Hk, Ep, last_last. cbn [snd item_inds flat_map app completes].
    rewrite ents_idx_items, Eq, Er, !fm_cmd_inds_items, Ei, Ed. reflexivity.
  - exists f. split; [exact Ef|]. destruct (n_sdsent f); [reflexivity|]. specialize (M2 eq_refl).
    rewrite nomark_app in M2. apply andb_true_iff in M2. destruct M2 as (_ & M2). cbn in M2. discriminate.
Qed.

(* ====================================================================================== *)
(* D.2 applying the controller's outputs                                                   *)
(* ====================================================================================== *)
Lemma apply_outs_eff outs : forall s,
  y_dead s = [] -> Forall good_out outs ->
  y_d (apply_outs s outs) = y_d s /\ y_evq (apply_outs s outs) = y_evq s /\
  y_up (apply_outs s outs) = y_up s /\ y_w (apply_outs s outs) = y_w s /\
  y_dead (apply_outs s outs) = y_dead s /\ y_result (apply_outs s outs) = y_result s /\
  forall k, alist_get [] k (y_down (apply_outs s outs)) = alist_get [] k (y_down s) ++ cmds_to k outs.
Proof.
  induction outs as [|x outs IH]; intros s Hd Hg.
  - cbn. repeat split; auto. intros k. rewrite app_nil_r. reflexivity.
  - inversion Hg as [|x' r' Gx Gr]; subst.
    destruct x as [h|n cm| |].
    + destruct h; try (cbn [apply_outs]; destruct (IH s Hd Gr) as (A1 & A2 & A3 & A4 & A5 & A6 & A7);
                       repeat split; auto; fail).
      cbn in Gx. contradiction.
    + cbn [apply_outs]. replace (mem_nat n (y_dead s)) with false by (rewrite Hd; reflexivity).
      set (s1 := {| y_d := y_d s; y_evq := y_evq s;
                    y_down := aset n (alist_get [] n (y_down s) ++ [cm]) (y_down s);
                    y_up := y_up s; y_w := y_w s; y_dead := y_dead s; y_result := y_result s |}).
      destruct (IH s1 Hd Gr) as (A1 & A2 & A3 & A4 & A5 & A6 & A7).
      repeat split; auto. intros k. rewrite A7. subst s1. cbn [y_down cmds_to flat_map cmd_to].
      destruct (Nat.eqb n k) eqn:E.
      * apply Nat.eqb_eq in E. subst k. rewrite alist_get_aset_eq, <- app_assoc. reflexivity.
      * apply Nat.eqb_neq in E. rewrite alist_get_aset_neq by congruence. reflexivity.
    + cbn [apply_outs]. destruct (IH s Hd Gr) as (A1 & A2 & A3 & A4 & A5 & A6 & A7). repeat split; auto.
    + cbn [apply_outs]. destruct (IH s Hd Gr) as (A1 & A2 & A3 & A4 & A5 & A6 & A7). repeat split; auto.
Qed.

(* what the controller sends ends up, index by index, on the wires *)
Lemma flat_map_perm_pointwise (f g : nat -> list nat) l :
  (forall k, In k l -> Permutation (f k) (g k)) -> Permutation (flat_map f l) (flat_map g l).
Proof.
  induction l as [|k l IH]; intros H; cbn; [reflexivity|].
  apply Permutation_app; [apply H; left; reflexivity|apply IH; intros j Hj; apply H; right; exact Hj].
Qed.

Lemma wires_perm_pointwise s s' :
  akeys (y_w s') = akeys (y_w s) ->
  (forall k, In k (akeys (y_w s)) -> Permutation (node_tokens s' k) (node_tokens s k)) ->
  Permutation (wires s') (wires s).
Proof. intros Ek H. unfold wires. rewrite Ek. apply flat_map_perm_pointwise. exact H. Qed.


Lemma flat_map_app_perm (f g : nat -> list nat) l :
  Permutation (flat_map (fun k => f k ++ g k) l) (flat_map f l ++ flat_map g l).
Proof.
  induction l as [|k l IH]; cbn [flat_map]; [reflexivity|]. permc_with IH.
Qed.

Lemma flat_map_nil_in (f : nat -> list nat) l : (forall k, In k l -> f k = []) -> flat_map f l = [].
Proof.
  induction l as [|k l IH]; intros H; cbn; [reflexivity|].
  rewrite (H k (or_introl eq_refl)), IH; [reflexivity|]. intros j Hj. apply H. right. exact Hj.
Qed.

Lemma flat_map_single (m : nat) (x : list nat) l :
  NoDup l -> In m l -> Permutation (flat_map (fun k => if Nat.eqb m k then x else []) l) x.
Proof.
  induction l as [|k l IH]; intros ND Hin; [destruct Hin|]. inversion ND as [|k' l' Hn ND']; subst.
  cbn [flat_map]. destruct Hin as [->|Hin].
  - rewrite Nat.eqb_refl. rewrite (flat_map_nil_in (fun k => if Nat.eqb m k then x else []) l).
    + rewrite app_nil_r. reflexivity.
    + intros k Hk. destruct (Nat.eqb m k) eqn:E; [|reflexivity]. apply Nat.eqb_eq in E. subst k. contradiction.
  - destruct (Nat.eqb m k) eqn:E.
    + apply Nat.eqb_eq in E. subst k. contradiction.
    + cbn [app]. apply IH; assumption.
Qed.

Lemma wires_apply s s1 outs :
  y_w s1 = y_w s ->
  (forall k, alist_get [] k (y_down s1) = alist_get [] k (y_down s) ++ cmds_to k outs) ->
  Permutation (wires s1) (wires s ++ flat_map (fun k => flat_map cmd_inds (cmds_to k outs)) (akeys (y_w s))).
Proof.
  intros Ew Hd. unfold wires. rewrite Ew. rewrite <- flat_map_app_perm. apply flat_map_perm_pointwise.
  intros k _. unfold node_tokens. rewrite Ew, Hd, flat_map_app. rewrite <- !app_assoc.
  apply Permutation_app_head. apply Permutation_app_comm.
Qed.

Lemma sent_perm keys outs :
  NoDup keys -> (forall k, ~ In k keys -> cmds_to k outs = []) -> Forall good_out outs ->
  Permutation (flat_map (fun k => flat_map cmd_inds (cmds_to k outs)) keys) (sent_inds outs).
Proof.
  intros ND. induction outs as [|x outs IH]; intros Hk Hg.
  - cbn. rewrite flat_map_nil_in; [reflexivity|]. intros k _. reflexivity.
  - inversion Hg as [|x' r' Gx Gr]; subst.
    assert (Hk' : forall k, ~ In k keys -> cmds_to k outs = []).
    { intros k Hn. specialize (Hk k Hn). cbn [cmds_to flat_map] in Hk. apply app_eq_nil in Hk. tauto. }
    specialize (IH Hk' Gr).
    assert (E : forall k, flat_map cmd_inds (cmds_to k (x :: outs)) =
                          flat_map cmd_inds (cmd_to k x) ++ flat_map cmd_inds (cmds_to k outs)).
    { intros k. cbn [cmds_to flat_map]. apply flat_map_app. }
    rewrite (flat_map_ext_in _ _ keys (fun k _ => E k)).
    rewrite flat_map_app_perm. unfold sent_inds. cbn [flat_map]. fold (sent_inds outs).
    apply Permutation_app; [|exact IH].
    destruct x as [h|m cm| |]; try (rewrite flat_map_nil_in; [reflexivity|]; intros k _; reflexivity).
    destruct (in_dec Nat.eq_dec m keys) as [Hin|Hni].
    + assert (E2 : forall k, flat_map cmd_inds (cmd_to k (OSend m cm)) = if Nat.eqb m k then cmd_inds cm else []).
      { intros k. cbn [cmd_to]. destruct (Nat.eqb m k); cbn; [apply app_nil_r|reflexivity]. }
      rewrite (flat_map_ext_in _ _ keys (fun k _ => E2 k)).
      rewrite (flat_map_single m (cmd_inds cm) keys ND Hin).
      destruct (run_inds_good _ _ Gx) as (Er & _). rewrite Er. reflexivity.
    + exfalso. specialize (Hk m Hni). cbn [cmds_to flat_map cmd_to] in Hk. rewrite Nat.eqb_refl in Hk. discriminate.
Qed.

(* ====================================================================================== *)
(* D.3 the system invariant                                                                *)
(* ====================================================================================== *)
Section Sys.
Variable c : config.
Notation N := (c_numnodes c).
Hypothesis Hnc : forall n i, c_crash_in c n i = false.
Hypothesis Hng : no_garbled c.
Hypothesis Hne : forall k, ~ In ""%string (c_coll c k).

Definition ok_ev3 (ev : cevent) : Prop :=
  match ev with
  | QUnscheduled _ _ | QInternalError _ => False
  | QCollFinish n ids => ids = c_coll c n
  | _ => True
  end /\
  match ev_sig ev with Some (m, _) => m < N | None => True end.
Definition ok_up3 (n : nat) (m : upmsg) : Prop :=
  match m with UEv e => ok_wev e | UCollFinish ids => ids = c_coll c n | _ => True end.

Definition NInv (s : sys) (ls : lstate) (n : nat) (w : wst) : Prop :=
  NI ls (d_active (y_d s)) (d_shouldstop (y_d s)) n (sigs s n) (alist_get [] n (y_down s)) w.

Notation DJc := (DJ N (c_coll c)).
Notation LEFFc := (LEFF N (c_coll c)).

Record CInv (s : sys) : Prop := {
  ci_sinv : SInv s;
  ci_keys : akeys (y_w s) = seq 0 N;
  ci_dj : exists ls, DJc (y_d s) ls /\ forall n w, aget n (y_w s) = Some w -> NInv s ls n w;
  ci_evq : Forall ok_ev3 (y_evq s);
  ci_up : forall n, Forall (ok_up3 n) (alist_get [] n (y_up s)) /\ (N <= n -> alist_get [] n (y_up s) = []);
  ci_down : forall n, N <= n -> alist_get [] n (y_down s) = [];
  ci_act : y_result s = None -> d_active (y_d s) <> [];
  ci_res : forall e, y_result s <> Some (RError e);
  (* conservation: once the collection is fixed, pool and wires together hold every index once *)
  ci_perm : forall ls coll, d_sched (y_d s) = StL ls -> l_coll ls = Some coll ->
            Permutation (l_pending ls ++ wires s) (seq 0 (length coll));
  (* "finished" is only ever reported by a session that is shutting down without a stop request *)
  ci_fin : y_result s = Some RFinished ->
           d_session_finished (y_d s) = true /\ d_shouldstop (y_d s) = false;
  (* a node whose "finished" the receiver thread has read (marked down, not heard any more) has
     exited, and no signal of it is left on its wire: nothing the books depend on is ever dropped *)
  ci_dn : forall ls n f w, d_sched (y_d s) = StL ls -> aget n (l_nt ls) = Some f -> n_down f = true ->
          aget n (y_w s) = Some w ->
          flat_map up_sig (alist_get [] n (y_up s)) = [] /\ wph w = PExited;
}.

Definition down_flag (f : nctl) : nctl :=
  {| n_spec := n_spec f; n_down := true; n_sdsent := n_sdsent f; n_closed := n_closed f |}.

(* the controller's receiver thread: never raises for a known node; queues the signal it read *)
Lemma pfr_eff n m d ls f d' o r :
  d_sched d = StL ls -> aget n (l_nt ls) = Some f -> ok_up m -> ok_up3 n m -> n < N ->
  (n_down f = true -> up_sig m = []) ->
  process_from_remote n m d = (d', o, r) ->
  o = [] /\ exists evs ls', r = Ok evs /\ d_sched d' = StL ls' /\
    (forall k, evq_sigs k evs = if Nat.eqb n k then up_sig m else []) /\
    Forall ok_ev3 evs /\
    d_shuttingdown d' = d_shuttingdown d /\ d_shouldstop d' = d_shouldstop d /\ d_active d' = d_active d /\
    l_n2p ls' = l_n2p ls /\ l_n2c ls' = l_n2c ls /\ l_pending ls' = l_pending ls /\ l_coll ls' = l_coll ls /\
    l_chunk ls' = l_chunk ls /\ l_numnodes ls' = l_numnodes ls /\
    (forall k, option_map n_sdsent (aget k (l_nt ls')) = option_map n_sdsent (aget k (l_nt ls))) /\
    (forall k, k <> n -> aget k (l_nt ls') = aget k (l_nt ls)) /\
    (forall f', aget n (l_nt ls') = Some f' -> n_down f' = true ->
                n_down f = true \/ exists b, m = UEv (EFinished b)).
Proof.
  intros Els Ef Hm Hm3 HnN Hdn H.
  assert (Ent : d_nt d = l_nt ls) by (unfold d_nt; rewrite Els; reflexivity).
  unfold process_from_remote in H. rewrite mbind_get, Ent, Ef in H. cbn [of_opt] in H. rewrite mbind_ret in H.
  assert (SAME : forall evs, (d, @nil out, Ok evs) = (d', o, r) ->
            (forall k, evq_sigs k evs = if Nat.eqb n k then up_sig m else []) -> Forall ok_ev3 evs ->
            o = [] /\ exists evs ls', r = Ok evs /\ d_sched d' = StL ls' /\
            (forall k, evq_sigs k evs = if Nat.eqb n k then up_sig m else []) /\
            Forall ok_ev3 evs /\
            d_shuttingdown d' = d_shuttingdown d /\ d_shouldstop d' = d_shouldstop d /\ d_active d' = d_active d /\
            l_n2p ls' = l_n2p ls /\ l_n2c ls' = l_n2c ls /\ l_pending ls' = l_pending ls /\ l_coll ls' = l_coll ls /\
            l_chunk ls' = l_chunk ls /\ l_numnodes ls' = l_numnodes ls /\
            (forall k, option_map n_sdsent (aget k (l_nt ls')) = option_map n_sdsent (aget k (l_nt ls))) /\
            (forall k, k <> n -> aget k (l_nt ls') = aget k (l_nt ls)) /\
            (forall f', aget n (l_nt ls') = Some f' -> n_down f' = true ->
                        n_down f = true \/ exists b, m = UEv (EFinished b))).
  { intros evs E Hs Ho. inv E. split; [reflexivity|]. exists evs, ls.
    repeat (split; [first [reflexivity|assumption]|]).
    intros f' Ef' Hd. left. congruence. }
  assert (DOWN : forall evs, (d_set_nt d (aset n (down_flag f) (l_nt ls)), @nil out, Ok evs) = (d', o, r) ->
            (exists b, m = UEv (EFinished b)) ->
            (forall k, evq_sigs k evs = if Nat.eqb n k then up_sig m else []) -> Forall ok_ev3 evs ->
            o = [] /\ exists evs ls', r = Ok evs /\ d_sched d' = StL ls' /\
            (forall k, evq_sigs k evs = if Nat.eqb n k then up_sig m else []) /\
            Forall ok_ev3 evs /\
            d_shuttingdown d' = d_shuttingdown d /\ d_shouldstop d' = d_shouldstop d /\ d_active d' = d_active d /\
            l_n2p ls' = l_n2p ls /\ l_n2c ls' = l_n2c ls /\ l_pending ls' = l_pending ls /\ l_coll ls' = l_coll ls /\
            l_chunk ls' = l_chunk ls /\ l_numnodes ls' = l_numnodes ls /\
            (forall k, option_map n_sdsent (aget k (l_nt ls')) = option_map n_sdsent (aget k (l_nt ls))) /\
            (forall k, k <> n -> aget k (l_nt ls') = aget k (l_nt ls)) /\
            (forall f', aget n (l_nt ls') = Some f' -> n_down f' = true ->
                        n_down f = true \/ exists b, m = UEv (EFinished b))).
  { intros evs E Hfin Hs Ho. inv E. split; [reflexivity|]. exists evs, (l_set_nt ls (aset n (down_flag f) (l_nt ls))).
    split; [reflexivity|]. split; [unfold d_set_nt; rewrite Els; reflexivity|].
    split; [exact Hs|]. split; [exact Ho|]. repeat (split; [reflexivity|]).
    split; [|split].
    - intros k. cbn [l_nt l_set_nt]. rewrite LoadProofs.aget_aset. destruct (Nat.eqb k n) eqn:E; [|reflexivity].
      apply Nat.eqb_eq in E. subst k. rewrite Ef. reflexivity.
    - intros k Hk. cbn [l_nt l_set_nt]. rewrite LoadProofs.aget_aset.
      destruct (Nat.eqb k n) eqn:E; [|reflexivity]. apply Nat.eqb_eq in E. contradiction.
    - intros f' _ _. right. exact Hfin. }
  assert (SG : forall (g : sig) k, (if Nat.eqb n k then [g] else []) ++ [] = if Nat.eqb n k then [g] else []).
  { intros g k. destruct (Nat.eqb n k); reflexivity. }
  assert (SN : forall k, @nil sig = if Nat.eqb n k then [] else []) by (intros k; destruct (Nat.eqb n k); reflexivity).
  assert (OK1 : forall ev, match ev with QUnscheduled _ _ | QInternalError _ => False
                                       | QCollFinish n0 ids0 => ids0 = c_coll c n0 | _ => True end ->
                match ev_sig ev with Some (m0, _) => m0 < N | None => True end -> Forall ok_ev3 [ev]).
  { intros ev A B. constructor; [split; assumption|constructor]. }
  destruct (n_down f) eqn:Edn.
  { (* a node that is down is not heard any more; no signal of it is in flight then *)
    assert (H' : (d, @nil out, Ok (@nil cevent)) = (d', o, r)).
    { destruct m as [e|ids|sk|i ms|dec| | |]; exact H. }
    eapply SAME; [exact H'| |constructor].
    intros k. rewrite (Hdn eq_refl). destruct (Nat.eqb n k); reflexivity. }
  destruct m as [e|ids|sk|i ms|dec| | |]; cbn [ok_up] in Hm; try contradiction.
  - destruct e as [| |ck cf| |li|ri rk roc|fi|ci|ux|stopreq]; cbn [ok_up3 ok_wev] in Hm3; try contradiction; unfold ret in H.
    + eapply SAME; [exact H| |apply OK1; cbn; auto]. intros k0. cbn. apply SG.
    + eapply SAME; [exact H| |constructor]. intros k0. cbn. apply SN.
    + eapply SAME; [exact H| |apply OK1; cbn; auto]. intros k0. cbn. apply SN.
    + eapply SAME; [exact H| |constructor]. intros k0. cbn. apply SN.
    + eapply SAME; [exact H| |apply OK1; cbn; auto]. intros k0. cbn. apply SN.
    + eapply SAME; [exact H| |apply OK1; cbn; auto]. intros k0. cbn. apply SN.
    + eapply SAME; [exact H| |apply OK1; cbn; auto]. intros k0. cbn. apply SN.
    + eapply SAME; [exact H| |apply OK1; cbn; auto]. intros k0. cbn. apply SG.
    + rewrite mbind_put in H. unfold ret in H.
      eapply DOWN; [exact H|eexists; reflexivity| |apply OK1; cbn; auto]. intros k0. cbn. destruct stopreq; apply SG.
  - unfold ret in H. eapply SAME; [exact H| |apply OK1; cbn; auto]. intros k0. cbn. apply SG.
  - unfold ret in H. eapply SAME; [exact H| |apply OK1; cbn; auto]. intros k0. cbn. apply SG.
Qed.

Lemma sigs_ext s s' n :
  y_evq s' = y_evq s -> alist_get [] n (y_up s') = alist_get [] n (y_up s) -> sigs s' n = sigs s n.
Proof. intros E1 E2. unfold sigs. rewrite E1, E2. reflexivity. Qed.

Lemma worker_known s n : akeys (y_w s) = seq 0 N -> n < N -> exists w, aget n (y_w s) = Some w.
Proof.
  intros Ek Hn. destruct (aget n (y_w s)) as [w|] eqn:E; [eauto|]. exfalso.
  apply aget_none_notin in E. apply E. rewrite Ek. apply in_seq. lia.
Qed.

Lemma worker_lt s n w : akeys (y_w s) = seq 0 N -> aget n (y_w s) = Some w -> n < N.
Proof. intros Ek E. apply aget_some_in in E. rewrite Ek in E. apply in_seq in E. lia. Qed.

Lemma not_errd_sinv s s' : SInv s' \/ (y_w s' = y_w s /\ Errd s') -> (forall e, y_result s' <> Some (RError e)) -> SInv s'.
Proof. intros [H|(_ & (e & He))] Hn; [exact H|]. exfalso. exact (Hn e He). Qed.

(* ---- a worker step that pushes events onto its wire ---- *)
Lemma cinv_push s n0 w0 w' evs :
  CInv s -> aget n0 (y_w s) = Some w0 ->
  SInv (push_up (set_w s n0 w') n0 (map (up_of_wevent c n0) evs)) ->
  (forall ls, d_sched (y_d s) = StL ls -> NInv s ls n0 w0 ->
     NI ls (d_active (y_d s)) (d_shouldstop (y_d s)) n0 (sigs s n0 ++ flat_map we_sig evs)
        (alist_get [] n0 (y_down s)) w') ->
  Forall ok_wev evs -> Permutation (w_tokens w') (w_tokens w0) ->
  (wph w0 = PExited -> wph w' = PExited /\ flat_map we_sig evs = []) ->
  CInv (push_up (set_w s n0 w') n0 (map (up_of_wevent c n0) evs)).
Proof.
  intros [Inv Ek (ls & DJd & NIs) Eq Eu Edn Ea Er Epm Efin Edw] Ew Inv' Hni Hok Hperm Hex.
  set (s' := push_up (set_w s n0 w') n0 (map (up_of_wevent c n0) evs)).
  assert (HnN : n0 < N) by (eapply worker_lt; eauto).
  assert (Sg : forall n, sigs s' n = if Nat.eqb n n0 then sigs s n0 ++ flat_map we_sig evs else sigs s n).
  { intros n. unfold sigs, s'. cbn [push_up set_w y_evq y_up]. destruct (Nat.eqb n n0) eqn:E.
    - apply Nat.eqb_eq in E. subst n. rewrite alist_get_aset_eq, flat_map_app, up_sigs_of_wevents, app_assoc. reflexivity.
    - apply Nat.eqb_neq in E. rewrite alist_get_aset_neq by exact E. reflexivity. }
  constructor.
  - exact Inv'.
  - unfold s'. cbn [push_up set_w y_w]. rewrite akeys_aset_in; [exact Ek|]. eapply aget_some_in; eauto.
  - exists ls. split; [exact DJd|]. intros n w Hw. unfold NInv. rewrite Sg.
    unfold s' in Hw |- *. cbn [push_up set_w y_w y_d y_down] in Hw |- *.
    destruct (Nat.eqb n n0) eqn:E.
    + apply Nat.eqb_eq in E. subst n. rewrite aget_aset_eq in Hw. inv Hw. apply Hni; [apply DJd|]. apply NIs. exact Ew.
    + apply Nat.eqb_neq in E. rewrite aget_aset_neq in Hw by exact E. apply NIs. exact Hw.
  - exact Eq.
  - intros n. unfold s'. cbn [push_up set_w y_up]. destruct (Nat.eq_dec n n0) as [->|Hn].
    + rewrite alist_get_aset_eq. split; [|intros; lia].
      apply Forall_app. split; [apply Eu|]. apply Forall_forall. intros m Hm. apply in_map_iff in Hm.
      destruct Hm as (e & <- & He). rewrite Forall_forall in Hok. specialize (Hok e He).
      destruct e; cbn; auto. destruct oc; cbn; auto.
    + rewrite alist_get_aset_neq by exact Hn. apply Eu.
  - exact Edn.
  - exact Ea.
  - exact Er.
  - intros ls1 coll Els1 Ec1. unfold s'. cbn [push_up set_w y_d]. rewrite <- (Epm ls1 coll Els1 Ec1).
    apply Permutation_app_head. apply wires_perm_pointwise.
    + cbn [push_up set_w y_w]. apply akeys_aset_in. eapply aget_some_in; eauto.
    + intros k _. unfold node_tokens. cbn [push_up set_w y_w y_down].
      destruct (Nat.eq_dec k n0) as [->|Hk].
      * rewrite aget_aset_eq, Ew. apply Permutation_app_head. exact Hperm.
      * rewrite aget_aset_neq by exact Hk. reflexivity.
  - exact Efin.
  - intros ls1 n f w Els1 Ef Hd Hw. unfold s' in Hw, Els1 |- *. cbn [push_up set_w y_w y_d y_up] in Hw, Els1 |- *.
    destruct (Nat.eq_dec n n0) as [->|Hn].
    + rewrite aget_aset_eq in Hw. inv Hw. destruct (Edw ls1 n0 f w0 Els1 Ef Hd Ew) as (X1 & X2).
      destruct (Hex X2) as (Y1 & Y2). split; [|exact Y1].
      rewrite alist_get_aset_eq, flat_map_app, up_sigs_of_wevents, X1, Y2. reflexivity.
    + rewrite aget_aset_neq in Hw by exact Hn. rewrite alist_get_aset_neq by exact Hn.
      exact (Edw ls1 n f w Els1 Ef Hd Hw).
Qed.

(* ---- the preconditions of the handlers follow from the invariant ---- *)
Lemma sigs_head s ev q n : y_evq s = ev :: q -> sigs s n = ev_sigs_for n ev ++ (evq_sigs n q ++ flat_map up_sig (alist_get [] n (y_up s))).
Proof. intros E. unfold sigs. rewrite E. cbn [evq_sigs flat_map]. rewrite <- app_assoc. reflexivity. Qed.

Lemma bk_cons ls n i rest : bk ls n = i :: rest -> aget n (l_n2p ls) = Some (i :: rest).
Proof. unfold bk, alist_get. destruct (aget n (l_n2p ls)); intros E; [congruence|discriminate]. Qed.

Lemma pre_from_inv s ls ev q :
  akeys (y_w s) = seq 0 N -> DJc (y_d s) ls ->
  (forall n w, aget n (y_w s) = Some w -> NInv s ls n w) ->
  y_evq s = ev :: q -> ok_ev ev -> ok_ev3 ev -> PRE N (c_coll c) ev (y_d s) ls.
Proof.
  intros Ek DJd NIs Eq Hok (Hok3 & Hnode).
  assert (NODE : forall n g, ev_sig ev = Some (n, g) ->
            exists w L, aget n (y_w s) = Some w /\ NI ls (d_active (y_d s)) (d_shouldstop (y_d s)) n (g :: L) (alist_get [] n (y_down s)) w).
  { intros n g Eg. rewrite Eg in Hnode. destruct (worker_known s n Ek Hnode) as (w & Ew).
    exists w. eexists. split; [exact Ew|]. pose proof (NIs n w Ew) as X. unfold NInv in X.
    rewrite (sigs_head s ev q n Eq) in X. unfold ev_sigs_for in X. rewrite Eg, Nat.eqb_refl in X. exact X. }
  assert (ACT : forall n g, ev_sig ev = Some (n, g) -> In n (d_active (y_d s))).
  { intros n g Eg. destruct (NODE n g Eg) as (w & L & _ & X).
    destruct (in_dec Nat.eq_dec n (d_active (y_d s))) as [Hin|Hni]; [exact Hin|].
    destruct (ni_act _ _ _ _ _ _ _ X Hni) as (F & _). discriminate. }
  destruct ev as [n|n ids|n key fl|n i|n i|n i k oc|n i ms|n ixs| |n|n sk|n]; cbn [PRE]; cbn in Hok, Hok3; try contradiction; auto.
  - (* ready *)
    destruct (NODE n SgReady eq_refl) as (w & L & Ew & X). cbn in Hnode. split; [exact Hnode|].
    intros _. split; [|exact (ACT n SgReady eq_refl)].
    intros Hin. destruct (ni_nodes _ _ _ _ _ _ _ X Hin) as (F & _). apply F. left. reflexivity.
  - (* collectionfinish *)
    destruct (NODE n SgCF eq_refl) as (w & L & Ew & X). cbn in Hnode. split; [exact Hnode|].
    split; [|exact Hok3].
    intros Hin. destruct (ni_n2c _ _ _ _ _ _ _ X Hin) as (F & _). apply F. left. reflexivity.
  - (* complete *)
    destruct (NODE n (SgComp i) eq_refl) as (w & L & Ew & X).
    pose proof (ni_coupled _ _ _ _ _ _ _ X) as Cp. cbn [completes flat_map app] in Cp.
    eexists. apply bk_cons. exact Cp.
  - (* finished *)
    destruct sk; try contradiction.
    + destruct (NODE n (SgFin false) eq_refl) as (w & L & Ew & X).
      destruct (NI_finished_empty _ _ _ _ _ _ _ X) as (Eb & Hf).
      split; [exact (ACT n _ eq_refl)|]. split; [|exact Hf].
      intros Hin. apply aget_In_keys in Hin. unfold bk, alist_get in Eb.
      destruct (aget n (l_n2p ls)) as [b|]; [congruence|contradiction].
    + exact (ACT n _ eq_refl).
Qed.

(* ---- one iteration of the controller loop ---- *)
Lemma set_result_same s r : y_result s = r -> set_result s r = s.
Proof. destruct s; cbn; intros <-; reflexivity. Qed.

Lemma ctl_core s ev q d' outs ls ls' rr :
  CInv s -> y_evq s = ev :: q -> DJc (y_d s) ls ->
  (forall n w, aget n (y_w s) = Some w -> NInv s ls n w) ->
  LEFFc ev (y_d s) ls d' ls' outs -> Forall good_out outs -> LT ls ls' outs ->
  SInv (set_result (apply_outs (set_d (set_evq s q) d') outs) rr) ->
  (forall e, rr <> Some (RError e)) -> (rr = None -> d_active d' <> []) ->
  (rr = Some RFinished -> d_session_finished d' = true /\ d_shouldstop d' = false) ->
  CInv (set_result (apply_outs (set_d (set_evq s q) d') outs) rr).
Proof.
  intros [Inv Ek _ Eq Eu Edn Ea Er Epm _ Edw] Eevq DJd NIs LE Go HLT Inv' Hrr Hact Hfin.
  assert (Hd : y_dead (set_d (set_evq s q) d') = []) by (cbn; apply Inv).
  destruct (apply_outs_eff outs _ Hd Go) as (A1 & A2 & A3 & A4 & A5 & A6 & A7).
  cbn [set_d set_evq y_d y_evq y_up y_w y_dead y_result y_down] in A1, A2, A3, A4, A5, A6, A7.
  constructor; cbn [set_result y_d y_evq y_up y_w y_dead y_result y_down].
  - exact Inv'.
  - rewrite A4. exact Ek.
  - exists ls'. rewrite A1, A4. split; [apply (le_dj _ _ _ _ _ _ _ _ LE)|].
    intros n w Hw. unfold NInv. cbn [set_result y_d y_down]. rewrite A1, A7.
    assert (Es : sigs (set_result (apply_outs (set_d (set_evq s q) d') outs) rr) n
                 = evq_sigs n q ++ flat_map up_sig (alist_get [] n (y_up s))).
    { unfold sigs. cbn [set_result y_evq y_up]. rewrite A2, A3. reflexivity. }
    rewrite Es. eapply NI_ctl; [exact LE|]. rewrite <- (sigs_head s ev q n Eevq). apply NIs. exact Hw.
  - rewrite A2. rewrite Eevq in Eq. inversion Eq; assumption.
  - rewrite A3. exact Eu.
  - intros n Hn. rewrite A7, (Edn n Hn). cbn [app].
    pose proof (le_nt _ _ _ _ _ _ _ _ LE n) as R.
    destruct DJd as ([_ J _ _] & _).
    destruct (aget n (l_nt ls)) as [f|] eqn:Ef.
    + exfalso. assert (X : n < N) by (apply (lj_ntk _ _ _ J n); congruence). lia.
    + destruct (aget n (l_nt ls')); [destruct R|exact R].
  - rewrite A1. exact Hact.
  - exact Hrr.
  - intros ls1 coll Els1 Ec1. rewrite A1 in Els1.
    assert (ls1 = ls') by (destruct (le_dj _ _ _ _ _ _ _ _ LE) as ([E1 _ _ _ _] & _); congruence). subst ls1.
    assert (CK : forall k, ~ In k (akeys (y_w s)) -> cmds_to k outs = []).
    { intros k Hk. rewrite Ek in Hk. pose proof (le_nt _ _ _ _ _ _ _ _ LE k) as R.
      destruct DJd as ([_ J _ _ _] & _).
      destruct (aget k (l_nt ls)) as [f|] eqn:Ef.
      - exfalso. apply Hk. apply in_seq. assert (X : k < N) by (apply (lj_ntk _ _ _ J k); congruence). lia.
      - destruct (aget k (l_nt ls')); [destruct R|exact R]. }
    assert (W : Permutation (wires (set_result (apply_outs (set_d (set_evq s q) d') outs) rr)) (wires s ++ sent_inds outs)).
    { rewrite <- (sent_perm (akeys (y_w s)) outs (si_keys _ Inv) CK Go).
      apply wires_apply; [exact A4|exact A7]. }
    rewrite W. destruct HLT as (T1 & T2 & T3). specialize (T3 coll Ec1). unfold vp in T3. rewrite Ec1 in T3.
    destruct DJd as ([Els _ _ _ _] & _).
    destruct (l_coll ls) as [c0|] eqn:Ec0.
    + assert (c0 = coll) by (specialize (T1 c0 eq_refl); congruence). subst c0.
      pose proof (Epm ls coll Els Ec0) as P0. rewrite T3 in P0. rewrite <- P0.
      rewrite <- !app_assoc. rewrite (Permutation_app_comm (wires s) (sent_inds outs)).
      rewrite !app_assoc. apply Permutation_app_tail. apply Permutation_app_comm.
    + destruct Inv as [_ _ (lsx & Elsx & _ & (_ & K2 & _)) _ _ _ _].
      assert (lsx = ls) by congruence. subst lsx. rewrite (K2 Ec0). cbn [app]. rewrite T3.
      apply Permutation_app_comm.
  - rewrite A1. exact Hfin.
  - intros ls1 n f' w Els1 Ef' Hdw Hw. rewrite A1 in Els1. rewrite A4 in Hw. rewrite A3.
    assert (ls1 = ls') by (destruct (le_dj _ _ _ _ _ _ _ _ LE) as ([E1 _ _ _ _] & _); congruence). subst ls1.
    destruct (NRo_open _ _ _ _ (le_nt _ _ _ _ _ _ _ _ LE n) Ef') as (f & Ef & R).
    destruct (NR_fields _ _ _ R) as (_ & B & _).
    destruct DJd as ([Els _ _ _ _] & _).
    apply (Edw ls n f w Els Ef); [congruence|exact Hw].
Qed.

(* ---- the initial state ---- *)
Lemma aget_init_nt n : aget n (init_nt c) <> None <-> n < N.
Proof.
  unfold init_nt. rewrite aget_In_keys, (akeys_map_seq (fun n => {| n_spec := c_spec c n; n_down := false; n_sdsent := false; n_closed := false |})).
  rewrite in_seq. lia.
Qed.

Lemma aget_init_nt_sd n f : aget n (init_nt c) = Some f -> n_sdsent f = false.
Proof.
  unfold init_nt. induction (seq 0 N) as [|k l IH]; cbn; [discriminate|].
  destruct (Nat.eqb n k); [intros E; inv E; reflexivity|exact IH].
Qed.

Lemma aget_init_nt_dn n f : aget n (init_nt c) = Some f -> n_down f = false.
Proof.
  unfold init_nt. induction (seq 0 N) as [|k l IH]; cbn; [discriminate|].
  destruct (Nat.eqb n k); [intros E; inv E; reflexivity|exact IH].
Qed.

Lemma CInv_init : c_mode c = MLoad -> 0 < N -> CInv (sys_init c).
Proof.
  intros Hm Hpos. constructor.
  - apply SInv_init. exact Hm.
  - cbn [sys_init y_w]. apply (akeys_map_seq (fun _ => w_init)).
  - cbn [sys_init y_d d_sched]. rewrite Hm. cbn [s_init s_set_nt].
    eexists. split.
    + split.
      * constructor; [reflexivity| | | |].
        -- constructor; cbn [l_set_nt l_init l_numnodes l_nt l_nodes l_n2p l_n2c l_pending l_chunk l_coll akeys map].
           ++ reflexivity.
           ++ apply aget_init_nt.
           ++ intros n [].
           ++ constructor.
           ++ intros n [].
           ++ constructor.
           ++ intros F. exfalso. apply F. reflexivity.
           ++ intros F. exfalso. apply F. reflexivity.
           ++ split; [intros k ids []|]. intros X _ C0. exfalso.
              unfold l_collection_is_completed in C0. cbn [l_set_nt l_init l_numnodes l_n2c length] in C0.
              apply Nat.leb_le in C0. lia.
        -- cbn. intros _ _ n [].
        -- cbn [l_set_nt l_init l_nt]. intros _ n f Ef Hs. rewrite (aget_init_nt_sd n f Ef) in Hs. discriminate.
        -- cbn. discriminate.
      * cbn. discriminate.
    + intros n w Ew. cbn [sys_init y_w] in Ew. pose proof (aget_some_in _ _ _ Ew) as Hk.
      rewrite (akeys_map_seq (fun _ => w_init)) in Hk. apply in_seq in Hk.
      apply aget_map_const in Ew. subst w.
      assert (Esg : sigs (sys_init c) n = []).
      { unfold sigs. cbn [sys_init y_evq y_up]. rewrite alist_get_map_nil. reflexivity. }
      unfold NInv. rewrite Esg. cbn [sys_init y_down y_d d_active]. rewrite alist_get_map_nil.
      constructor; cbn [l_set_nt l_init l_nt l_nodes l_n2p l_n2c akeys map w_init wph prank].
      * destruct (aget n (init_nt c)) as [f|] eqn:Ef.
        -- exists f. split; [reflexivity|]. cbn. apply mark_ok_nil.
        -- exfalso. apply (proj2 (aget_init_nt n)); [lia|exact Ef].
      * reflexivity.
      * apply chan_ok_nil.
      * intros [].
      * intros [].
      * intros F. exfalso. apply F. apply in_seq. lia.
      * intros [[]|F]; discriminate.
      * apply WX_init.
      * intros [F|(b & F)]; discriminate.
  - constructor.
  - intros n. cbn [sys_init y_up]. rewrite alist_get_map_nil. split; [constructor|reflexivity].
  - intros n _. cbn [sys_init y_down]. apply alist_get_map_nil.
  - intros _. cbn [sys_init y_d d_active]. destruct N; [lia|]. cbn. discriminate.
  - intros e. cbn. discriminate.
  - intros ls coll Els Ec. cbn [sys_init y_d d_sched] in Els. rewrite Hm in Els. cbn [s_init s_set_nt] in Els.
    inv Els. discriminate.
  - cbn. discriminate.
  - intros ls n f w Els Ef Hd _. cbn [sys_init y_d d_sched] in Els. rewrite Hm in Els. cbn [s_init s_set_nt] in Els.
    inv Els. cbn [l_set_nt l_nt] in Ef. rewrite (aget_init_nt_dn n f Ef) in Hd. discriminate.
Qed.

(* ---- the one-step lemma ---- *)
Lemma step_cinv s l s' o w :
  no_crash_label l -> CInv s -> sys_step c s l = Some (s', o, w) -> CInv s'.
Proof.
  intros Hl CI H.
  pose proof (step_sinv c s l s' o w Hnc Hng Hne Hl (ci_sinv _ CI) H) as HS.
  pose proof CI as [Inv Ek (ls & DJd & NIs) Eq Eu Edn Ea Er Epm Efn Edw].
  pose proof Inv as [A B (ls0 & Els0 & I & T) D E F G NG].
  pose proof DJd as (J0 & Jss). pose proof J0 as [Els J Jb Jp Jg].
  assert (ls0 = ls) by congruence. subst ls0.
  unfold sys_step in H. destruct (y_result s) eqn:Eres; [discriminate|].
  destruct l as [n0|n0|n0|n0| |n0]; [| | | | |contradiction].
  - (* LDeliver *)
    replace (mem_nat n0 (y_dead s)) with false in H by (rewrite A; reflexivity).
    destruct (aget n0 (y_down s)) as [[|cmd rest]|] eqn:Ed; try discriminate.
    destruct (aget n0 (y_w s)) as [w0|] eqn:Ew; try discriminate.
    fin3 H s' o w.
    apply not_errd_sinv in HS; [|intros e; cbn; discriminate].
    constructor; cbn [y_d y_evq y_down y_up y_w y_dead y_result].
    + exact HS.
    + rewrite akeys_aset_in; [exact Ek|]. eapply aget_some_in; eauto.
    + exists ls. split; [exact DJd|]. intros n w Hw. unfold NInv, sigs.
      cbn [y_d y_down y_evq y_up]. fold (sigs s n).
      destruct (Nat.eq_dec n n0) as [->|Hn].
      * rewrite aget_aset_eq in Hw. inv Hw. rewrite alist_get_aset_eq.
        apply NI_deliver. pose proof (NIs n0 w0 Ew) as X. unfold NInv in X.
        rewrite (alist_get_some [] _ _ _ Ed) in X. exact X.
      * rewrite aget_aset_neq in Hw by exact Hn. rewrite alist_get_aset_neq by exact Hn. apply NIs. exact Hw.
    + exact Eq.
    + exact Eu.
    + intros k Hk. destruct (Nat.eq_dec k n0) as [->|Hkn].
      * exfalso. pose proof (worker_lt s n0 w0 Ek Ew). lia.
      * rewrite alist_get_aset_neq by exact Hkn. apply Edn. exact Hk.
    + exact Ea.
    + intros e. discriminate.
    + intros ls1 coll Els1 Ec1. rewrite <- (Epm ls1 coll Els1 Ec1). apply Permutation_app_head.
      apply wires_perm_pointwise; cbn [y_w].
      * apply akeys_aset_in. eapply aget_some_in; eauto.
      * intros k _. unfold node_tokens. cbn [y_w y_down]. destruct (Nat.eq_dec k n0) as [->|Hk].
        -- rewrite aget_aset_eq, Ew, alist_get_aset_eq, (alist_get_some [] _ _ _ Ed).
           cbn [flat_map]. pose proof (deliver_tokens w0 cmd) as P. permc_with P.
        -- rewrite aget_aset_neq, alist_get_aset_neq by exact Hk. reflexivity.
    + discriminate.
    + intros ls1 n f w Els1 Ef Hd Hw. destruct (Nat.eq_dec n n0) as [->|Hn].
      * rewrite aget_aset_eq in Hw. inv Hw. destruct (Edw ls1 n0 f w0 Els1 Ef Hd Ew) as (X1 & X2).
        split; [exact X1|]. destruct (deliver_owed w0 cmd) as (_ & _ & Ep & _). rewrite Ep. exact X2.
      * rewrite aget_aset_neq in Hw by exact Hn. exact (Edw ls1 n f w Els1 Ef Hd Hw).
  - (* LRecvW *)
    replace (mem_nat n0 (y_dead s)) with false in H by (rewrite A; reflexivity).
    destruct (aget n0 (y_w s)) as [w0|] eqn:Ew; try discriminate.
    destruct (negb (wcb w0)); [discriminate|].
    destruct (recv_step (c_oracle c n0) w0) as [w' evs] eqn:Es. fin3 H s' o w.
    destruct (G _ _ Ew) as (Iw & Gw).
    destruct (NI_recv (c_oracle c n0) _ _ _ _ _ _ _ Gw (NIs n0 w0 Ew)) as (Ev & X). rewrite Es in Ev, X. cbn [fst snd] in Ev, X.
    subst evs.
    apply cinv_push with (w0 := w0); auto.
    + apply not_errd_sinv in HS; [exact HS|]. intros e. cbn. rewrite ?Eres. discriminate.
    + intros ls1 Els1 X1. cbn [flat_map]. rewrite app_nil_r.
      assert (ls1 = ls) by congruence. subst ls1. exact X.
    + pose proof (recv_step_tokens (c_oracle c n0) w0 Gw) as (P & _). rewrite Es in P. exact P.
    + intros Hex. split; [|reflexivity]. rewrite (proj1 (recv_step_facts _ _ _ _ Es)). exact Hex.
  - (* LMain *)
    replace (mem_nat n0 (y_dead s)) with false in H by (rewrite A; reflexivity).
    destruct (aget n0 (y_w s)) as [w0|] eqn:Ew; try discriminate.
    assert (Hd : dies_now c n0 w0 = false).
    { unfold dies_now. destruct (wph w0); auto. }
    rewrite Hd in H.
    destruct (main_step (c_oracle c n0) w0) as [[w' evs]|] eqn:Es; [|discriminate]. fin3 H s' o w.
    destruct (G _ _ Ew) as (Iw & Gw).
    destruct (NI_main _ _ _ _ _ _ _ _ _ _ Iw (NIs n0 w0 Ew) Es) as (X & Hok).
    apply cinv_push with (w0 := w0); auto.
    + apply not_errd_sinv in HS; [exact HS|]. intros e. cbn. rewrite ?Eres. discriminate.
    + intros ls1 Els1 X1. assert (ls1 = ls) by congruence. subst ls1. exact X.
    + exact (proj1 (main_step_tokens _ _ _ _ Es)).
    + intros Hex. exfalso. exact (main_step_not_exited _ _ _ _ Es Hex).
  - (* LRecv *)
    destruct (aget n0 (y_up s)) as [[|m rest]|] eqn:Eup; try discriminate.
    cbn [y_d] in H.
    destruct (process_from_remote n0 m (y_d s)) as [[d' outs] r] eqn:Ep.
    pose proof (E n0) as En. rewrite (alist_get_some [] _ _ _ Eup) in En.
    inversion En as [|m1 r1 Gm Gr]; subst.
    destruct (Eu n0) as (Eu1 & Eu2). rewrite (alist_get_some [] _ _ _ Eup) in Eu1, Eu2.
    inversion Eu1 as [|m2 r2 Gm3 Gr3]; subst.
    assert (HnN : n0 < N).
    { destruct (Nat.lt_ge_cases n0 N) as [X|X]; [exact X|]. specialize (Eu2 X). discriminate. }
    destruct (aget n0 (l_nt ls)) as [f|] eqn:Ef.
    2:{ exfalso. apply (proj2 (lj_ntk _ _ _ J n0)); [exact HnN|exact Ef]. }
    destruct (worker_known s n0 Ek HnN) as (wn & Ewn).
    assert (Hdn : n_down f = true -> up_sig m = []).
    { intros Hd. destruct (Edw ls n0 f wn Els Ef Hd Ewn) as (X & _).
      rewrite (alist_get_some [] _ _ _ Eup) in X. cbn [flat_map] in X. apply app_eq_nil in X. tauto. }
    destruct (pfr_eff _ _ _ _ _ _ _ _ Els Ef Gm Gm3 HnN Hdn Ep)
      as (-> & evs & ls' & -> & Els' & Hsig & Hok3 & S1 & S2 & S3 & P1 & P2 & P3 & P4 & P5 & P6 & P7 & P8 & P9).
    cbn [apply_outs] in H. unfold close_if_dead in H. cbn [set_evq set_d y_dead] in H.
    replace (mem_nat n0 (y_dead s)) with false in H by (rewrite A; reflexivity).
    fin3 H s' o w.
    apply not_errd_sinv in HS; [|intros e; cbn; discriminate].
    assert (FL : forall k g, aget k (l_nt ls) = Some g -> exists g', aget k (l_nt ls') = Some g' /\ n_sdsent g' = n_sdsent g).
    { intros k g Eg. specialize (P7 k). rewrite Eg in P7. destruct (aget k (l_nt ls')) as [g'|]; [|discriminate].
      exists g'. split; [reflexivity|]. cbn in P7. congruence. }
    assert (FL' : forall k g', aget k (l_nt ls') = Some g' -> exists g, aget k (l_nt ls) = Some g /\ n_sdsent g' = n_sdsent g).
    { intros k g' Eg. specialize (P7 k). rewrite Eg in P7. destruct (aget k (l_nt ls)) as [g|]; [|discriminate].
      exists g. split; [reflexivity|]. cbn in P7. congruence. }
    assert (KT : forall k, aget k (l_nt ls') <> None <-> aget k (l_nt ls) <> None).
    { intros k. specialize (P7 k). destruct (aget k (l_nt ls')), (aget k (l_nt ls)); try discriminate; split; intros; congruence. }
    constructor; cbn [set_evq set_d y_d y_evq y_down y_up y_w y_dead y_result].
    + exact HS.
    + exact Ek.
    + exists ls'. split.
      * split; [|rewrite S1, S2; exact Jss]. constructor.
        -- exact Els'.
        -- apply (LJ_ext N (c_coll c) ls ls' J P6 KT); [rewrite P1; reflexivity|exact P2|exact P4|].
           rewrite P3, P5. apply J.
        -- rewrite S1, S2, S3. unfold l_nodes. rewrite P1. exact Jb.
        -- rewrite S1. intros Hsd k g' Eg' Hs. destruct (FL' k g' Eg') as (g & Eg & Es).
           unfold l_collection_is_completed. rewrite P6, P2, P3. apply (Jp Hsd k g Eg). congruence.
        -- rewrite S1, S2. unfold l_collection_is_completed. rewrite P6, P2, P3. exact Jg.
      * intros n w Hw. unfold NInv, sigs. cbn [set_evq set_d y_d y_down y_evq y_up]. rewrite S3, S2.
        assert (Esg : evq_sigs n (y_evq s ++ evs) ++ flat_map up_sig (alist_get [] n (aset n0 rest (y_up s))) = sigs s n).
        { unfold sigs. rewrite evq_sigs_app, Hsig. destruct (Nat.eqb n0 n) eqn:E0.
          - apply Nat.eqb_eq in E0. subst n. rewrite alist_get_aset_eq, (alist_get_some [] _ _ _ Eup).
            cbn [flat_map]. rewrite <- app_assoc. reflexivity.
          - apply Nat.eqb_neq in E0. rewrite alist_get_aset_neq by congruence. rewrite app_nil_r. reflexivity. }
        rewrite Esg. apply (NI_flags_ext ls ls'); [intros g Eg; apply FL; exact Eg|exact P1|exact P2|]. apply NIs. exact Hw.
    + apply Forall_app. split; [exact Eq|exact Hok3].
    + intros k. destruct (Nat.eq_dec k n0) as [->|Hk].
      * rewrite alist_get_aset_eq. split; [exact Gr3|intros; lia].
      * rewrite alist_get_aset_neq by exact Hk. apply Eu.
    + exact Edn.
    + rewrite S3. exact Ea.
    + intros e. discriminate.
    + intros ls1 coll Els1 Ec1. assert (ls1 = ls') by congruence. subst ls1.
      rewrite P3. rewrite P4 in Ec1. exact (Epm ls coll Els Ec1).
    + discriminate.
    + intros ls1 n f' w Els1 Ef' Hd Hw. assert (ls1 = ls') by congruence. subst ls1.
      destruct (Nat.eq_dec n n0) as [->|Hn].
      * rewrite alist_get_aset_eq. assert (w = wn) by congruence. subst w.
        destruct (P9 f' Ef' Hd) as [Hd0|(b & ->)].
        -- destruct (Edw ls n0 f wn Els Ef Hd0 Ewn) as (X & Y). split; [|exact Y].
           rewrite (alist_get_some [] _ _ _ Eup) in X. cbn [flat_map] in X. apply app_eq_nil in X. tauto.
        -- pose proof (ni_chan _ _ _ _ _ _ _ (NIs n0 wn Ewn)) as Ch. unfold sigs in Ch.
           rewrite (alist_get_some [] _ _ _ Eup) in Ch. cbn [flat_map up_sig we_sig app] in Ch.
           destruct (chan_ok_fin_mid _ _ _ _ Ch) as (X & Y). split; [exact X|apply prank_4; exact Y].
      * rewrite alist_get_aset_neq by exact Hn. rewrite (P8 n Hn) in Ef'. exact (Edw ls n f' w Els Ef' Hd Hw).
  - (* LCtl *)
    specialize (Ea eq_refl).
    destruct (d_active (y_d s)) as [|a0 ar] eqn:Eact; [contradiction|].
    destruct (y_evq s) as [|ev q] eqn:Eevq; [discriminate|].
    inversion D as [|ev1 q1 Gev Gq]; subst. inversion Eq as [|ev2 q2 Gev3 Gq3]; subst.
    destruct (d_loop_once ev (y_d s)) as [[d' outs] r] eqn:El.
    assert (Hpre : PRE N (c_coll c) ev (y_d s) ls).
    { eapply pre_from_inv; eauto. }
    assert (Hact : d_active (y_d s) <> []) by (rewrite Eact; discriminate).
    destruct (loop_once_ok N (c_coll c) ev (y_d s) ls d' outs r DJd I Hact Hpre El) as (-> & ls' & LE).
    destruct (ok_loop_once ev (y_d s) Gev _ _ _ El ls Els I) as (ls2 & Els2 & _ & HLT & Go).
    assert (ls2 = ls').
    { destruct (le_dj _ _ _ _ _ _ _ _ LE) as ([E1 _ _ _ _] & _). congruence. }
    subst ls2.
    set (s1 := apply_outs (set_d (set_evq s q) d') outs) in *.
    assert (CORE : forall rr, SInv (set_result s1 rr) -> (forall e, rr <> Some (RError e)) ->
                   (rr = None -> d_active d' <> []) ->
                   (rr = Some RFinished -> d_session_finished d' = true /\ d_shouldstop d' = false) ->
                   CInv (set_result s1 rr)).
    { intros rr Hi Hr Ha Hf. unfold s1. eapply ctl_core; eauto. }
    destruct (d_session_finished d') eqn:Efin.
    + fin3 H s' o w. apply CORE.
      * apply not_errd_sinv in HS; [exact HS|]. intros e. cbn. destruct (d_shouldstop d'); discriminate.
      * intros e. destruct (d_shouldstop d'); discriminate.
      * destruct (d_shouldstop d'); discriminate.
      * destruct (d_shouldstop d'); [discriminate|]. intros _. split; reflexivity.
    + destruct (d_active d') as [|b0 br] eqn:Eact'.
      * exfalso. pose proof (le_fin _ _ _ _ _ _ _ _ LE) as Hf. rewrite Eact' in Hf. specialize (Hf eq_refl).
        unfold d_session_finished in Efin. rewrite Hf, Eact' in Efin. discriminate.
      * fin3 H s' o w.
        assert (Er1 : y_result s1 = None).
        { unfold s1. destruct (apply_outs_eff outs (set_d (set_evq s q) d')) as (_ & _ & _ & _ & _ & R & _); [apply A|exact Go|].
          rewrite R. cbn. exact Eres. }
        rewrite <- (set_result_same s1 None Er1). apply CORE.
        -- rewrite (set_result_same s1 None Er1). apply not_errd_sinv in HS; [exact HS|]. intros e. rewrite Er1. discriminate.
        -- intros e. discriminate.
        -- intros _. discriminate.
        -- discriminate.
Qed.


(* ---- every schedule ---- *)
Lemma cinv_run ls :
  c_mode c = MLoad -> 0 < N -> Forall no_crash_label ls -> CInv (sys_run c ls).
Proof.
  intros Hm Hpos Hls. unfold sys_run.
  assert (G : forall s, CInv s ->
     CInv (fold_left (fun s l => match sys_step c s l with Some (s', _, _) => s' | None => s end) ls s)).
  { induction Hls as [|l ls Hl Hls IH]; intros s Hs; cbn [fold_left]; [exact Hs|].
    apply IH. destruct (sys_step c s l) as [[[s' o] w]|] eqn:E; [|exact Hs].
    eapply step_cinv; eauto. }
  apply G. apply CInv_init; assumption.
Qed.

End Sys.

(* ====================================================================================== *)
(* D.4 the theorems: coupling of books and owed completions; the controller never raises    *)
(* ====================================================================================== *)
Definition book (s : sys) (n : nat) : list nat :=
  match d_sched (y_d s) with StL ls => alist_get [] n (l_n2p ls) | _ => [] end.
Definition owed (s : sys) (n : nat) : list nat :=
  completes (sigs s n) ++
  match aget n (y_w s) with Some w => owed_w w | None => [] end ++
  flat_map cmd_inds (alist_get [] n (y_down s)).
(* the controller's book of every node is, in order, what the worker side still owes *)
Definition Coupled (s : sys) : Prop := forall n, book s n = owed s n.

Lemma evq_sigs_out c n q :
  Forall (ok_ev3 c) q -> c_numnodes c <= n -> evq_sigs n q = [].
Proof.
  intros Hq Hn. induction Hq as [|ev q (_ & Hev) Hq IH]; [reflexivity|].
  cbn [evq_sigs flat_map]. fold (evq_sigs n q). rewrite IH, app_nil_r.
  unfold ev_sigs_for. destruct (ev_sig ev) as [[m g]|]; [|reflexivity].
  destruct (Nat.eqb m n) eqn:E; [|reflexivity]. apply Nat.eqb_eq in E. lia.
Qed.

Lemma cinv_coupled c s : CInv c s -> Coupled s.
Proof.
  intros [Inv Ek (ls & (J0 & _) & NIs) Eq Eu Edn Ea Er _ _ _] n. unfold book, owed.
  rewrite (dj_sched _ _ _ _ J0).
  destruct (aget n (y_w s)) as [w|] eqn:Ew.
  - exact (ni_coupled _ _ _ _ _ _ _ (NIs n w Ew)).
  - assert (Hn : c_numnodes c <= n).
    { destruct (Nat.lt_ge_cases n (c_numnodes c)) as [X|X]; [|exact X]. exfalso.
      destruct (worker_known c s n Ek X) as (w & F). congruence. }
    unfold sigs. rewrite (evq_sigs_out _ _ _ Eq Hn), (proj2 (Eu n) Hn), (Edn n Hn). cbn.
    apply alist_get_none. apply aget_none_keys. intros Hin.
    pose proof (lj_nodes _ _ _ (dj_lj _ _ _ _ J0) n Hin). lia.
Qed.

Section Main.
  Variable c : config.
  Variable ls : list label.
  Hypothesis Hmode : c_mode c = MLoad.
  Hypothesis Hnocrash : forall n i, c_crash_in c n i = false.
  Hypothesis Hnogarbled : no_garbled c.
  Hypothesis Hids : forall n, ~ In ""%string (c_coll c n).
  Hypothesis Hsched : Forall no_crash_label ls.
  Hypothesis Hnodes : 0 < c_numnodes c.

  Lemma run_cinv : CInv c (sys_run c ls).
  Proof. apply cinv_run; assumption. Qed.

  (* Goal 1: the book coupling invariant, in every reachable state *)
  Theorem coupling_invariant : Coupled (sys_run c ls).
  Proof. apply (cinv_coupled c). exact run_cinv. Qed.

  (* Goal 2: the controller never raises *)
  Theorem controller_never_raises : forall e, y_result (sys_run c ls) <> Some (RError e).
  Proof. exact (ci_res _ _ run_cinv). Qed.

  Theorem run_sinv_always : SInv (sys_run c ls).
  Proof. exact (ci_sinv _ _ run_cinv). Qed.

  (* c01_places_nodup and c01_started_are_collected without the not_errored hypothesis *)
  Theorem c01_places_nodup_always : NoDup (places (sys_run c ls)).
  Proof. apply sinv_places_nodup. exact run_sinv_always. Qed.

  Theorem c01_started_are_collected_always : forall i,
    In i (started (sys_run c ls)) ->
    exists lst coll, d_sched (y_d (sys_run c ls)) = StL lst /\ l_coll lst = Some coll /\ i < length coll.
  Proof.
    apply c01_started_are_collected; try assumption. exact controller_never_raises.
  Qed.
End Main.

Print Assumptions coupling_invariant.
Print Assumptions controller_never_raises.
Print Assumptions c01_places_nodup_always.
Print Assumptions c01_started_are_collected_always.
Check coupling_invariant.
Check controller_never_raises.
Check c01_places_nodup_always.
Check c01_started_are_collected_always.


Print Assumptions loop_once_ok.
Print Assumptions step_cinv.
Print Assumptions cinv_run.
Check loop_once_ok.
Check step_cinv.
