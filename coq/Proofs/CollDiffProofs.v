(* CollDiffProofs.v — what a message accepted by CollDiff.message_ok guarantees (C09: the collection
   error "names both workers and shows the difference").  For ALL lists of ids and ALL messages. *)
From XV Require Import Base CollDiff.
From Coq Require Import Arith.
Open Scope nat_scope.

Definition cnt (l : list string) (x : string) : nat := count_occ string_dec l x.

Lemma cnt_app l1 l2 x : cnt (l1 ++ l2) x = cnt l1 x + cnt l2 x.
Proof. unfold cnt. apply count_occ_app. Qed.

Lemma cnt_cons y l x : cnt (y :: l) x = (if string_dec y x then 1 else 0) + cnt l x.
Proof. unfold cnt. cbn [count_occ]. destruct (string_dec y x); reflexivity. Qed.

Lemma list_eqb_str a b : list_eqb String.eqb a b = true <-> a = b.
Proof.
  revert b; induction a as [|x a IH]; intros [|y b]; cbn [list_eqb]; split; intro H;
    try reflexivity; try discriminate.
  - apply andb_true_iff in H as [H1 H2]. apply String.eqb_eq in H1. apply IH in H2. congruence.
  - inversion H; subst. rewrite String.eqb_refl. cbn. apply IH. reflexivity.
Qed.

(* ---- one hunk body ---- *)
Lemma apply_lines_count ls : forall a o rest,
  apply_lines ls a = Some (o, rest) ->
  forall x, cnt a x + cnt (adds_of ls) x = cnt o x + cnt rest x + cnt (dels_of ls) x.
Proof.
  induction ls as [|d ls IH]; intros a o rest H x.
  - cbn in H. inversion H; subst. unfold cnt; cbn. lia.
  - destruct d as [s|s|s]; cbn [apply_lines] in H.
    + destruct a as [|y a]; [discriminate|]. destruct (String.eqb y s) eqn:E; [|discriminate].
      apply String.eqb_eq in E; subst y.
      destruct (apply_lines ls a) as [[o' r']|] eqn:E2; [|discriminate]. inversion H; subst.
      specialize (IH _ _ _ E2 x). cbn [adds_of dels_of flat_map app] in *.
      rewrite !cnt_cons. fold (adds_of ls) (dels_of ls). lia.
    + destruct a as [|y a]; [discriminate|]. destruct (String.eqb y s) eqn:E; [|discriminate].
      apply String.eqb_eq in E; subst y.
      specialize (IH _ _ _ H x). cbn [adds_of dels_of flat_map app] in *.
      fold (adds_of ls) (dels_of ls). rewrite !cnt_cons. lia.
    + destruct (apply_lines ls a) as [[o' r']|] eqn:E2; [|discriminate]. inversion H; subst.
      specialize (IH _ _ _ E2 x). cbn [adds_of dels_of flat_map app] in *.
      fold (adds_of ls) (dels_of ls). rewrite !cnt_cons. lia.
Qed.

(* deleted ids come from the old list, added ids go to the output, what is left was in the old list *)
Lemma apply_lines_incl ls : forall a o rest,
  apply_lines ls a = Some (o, rest) ->
  (forall x, In x (dels_of ls) -> In x a) /\ (forall x, In x (adds_of ls) -> In x o) /\
  (forall x, In x rest -> In x a).
Proof.
  induction ls as [|d ls IH]; intros a o rest H.
  - cbn in H. inversion H; subst. cbn. repeat split; intros; tauto.
  - destruct d as [s|s|s]; cbn [apply_lines] in H.
    + destruct a as [|y a]; [discriminate|]. destruct (String.eqb y s) eqn:E; [|discriminate].
      destruct (apply_lines ls a) as [[o' r']|] eqn:E2; [|discriminate]. inversion H; subst.
      destruct (IH _ _ _ E2) as (I1 & I2 & I3). cbn [adds_of dels_of flat_map app].
      fold (adds_of ls) (dels_of ls). repeat split; intros x Hx.
      * right. apply I1, Hx.
      * right. apply I2, Hx.
      * right. apply I3, Hx.
    + destruct a as [|y a]; [discriminate|]. destruct (String.eqb y s) eqn:E; [|discriminate].
      apply String.eqb_eq in E; subst y.
      destruct (IH _ _ _ H) as (I1 & I2 & I3). cbn [adds_of dels_of flat_map app].
      fold (adds_of ls) (dels_of ls). repeat split; intros x Hx.
      * destruct Hx as [Hx|Hx]; [left; exact Hx | right; apply I1, Hx].
      * apply I2, Hx.
      * right. apply I3, Hx.
    + destruct (apply_lines ls a) as [[o' r']|] eqn:E2; [|discriminate]. inversion H; subst.
      destruct (IH _ _ _ E2) as (I1 & I2 & I3). cbn [adds_of dels_of flat_map app].
      fold (adds_of ls) (dels_of ls). repeat split; intros x Hx.
      * apply I1, Hx.
      * destruct Hx as [Hx|Hx]; [left; exact Hx | right; apply I2, Hx].
      * apply I3, Hx.
Qed.

(* a body without - and + lines copies: output ++ rest is the old list *)
Lemma apply_lines_ctx_only ls : forall a o rest,
  apply_lines ls a = Some (o, rest) -> dels_of ls = [] -> adds_of ls = [] -> o ++ rest = a.
Proof.
  induction ls as [|d ls IH]; intros a o rest H D A.
  - cbn in H. inversion H; subst. reflexivity.
  - destruct d as [s|s|s]; cbn [adds_of dels_of flat_map app] in D, A; try discriminate.
    cbn [apply_lines] in H.
    destruct a as [|y a]; [discriminate|]. destruct (String.eqb y s) eqn:E; [|discriminate].
    apply String.eqb_eq in E; subst y.
    destruct (apply_lines ls a) as [[o' r']|] eqn:E2; [|discriminate]. inversion H; subst.
    cbn. f_equal. eapply IH; eauto.
Qed.

(* ---- all hunks ---- *)
Lemma all_adds_cons h hs : all_adds (h :: hs) = adds_of (h_lines h) ++ all_adds hs.
Proof. reflexivity. Qed.
Lemma all_dels_cons h hs : all_dels (h :: hs) = dels_of (h_lines h) ++ all_dels hs.
Proof. reflexivity. Qed.

Lemma apply_hunks_inv h r pos a b :
  apply_hunks (h :: r) pos a = Some b ->
  exists o rest t, let k := h_skip h - pos in
    apply_lines (h_lines h) (skipn k a) = Some (o, rest) /\
    apply_hunks r (h_skip h + (length (skipn k a) - length rest)) rest = Some t /\
    b = firstn k a ++ o ++ t /\ h_blen h = length o /\
    h_alen h = length (skipn k a) - length rest.
Proof.
  cbn [apply_hunks]. intros H.
  destruct (h_skip h <? pos); [discriminate|].
  destruct (length a <? h_skip h - pos); [discriminate|].
  destruct (apply_lines (h_lines h) (skipn (h_skip h - pos) a)) as [[o rest]|]; [|discriminate].
  destruct (Nat.eqb (h_alen h) (length (skipn (h_skip h - pos) a) - length rest) &&
            Nat.eqb (h_blen h) (length o)) eqn:E; cbn [negb] in H; [|discriminate].
  apply andb_true_iff in E as [E1 E2]. apply Nat.eqb_eq in E1, E2.
  destruct (apply_hunks r _ rest) as [t|] eqn:E3; [|discriminate].
  inversion H; subst. exists o, rest, t. cbn. repeat split; auto.
Qed.

(* THE ACCOUNT: for every id, occurrences in the old list + added = occurrences in the new + deleted *)
Theorem apply_hunks_count hs : forall pos a b,
  apply_hunks hs pos a = Some b ->
  forall x, cnt a x + cnt (all_adds hs) x = cnt b x + cnt (all_dels hs) x.
Proof.
  induction hs as [|h r IH]; intros pos a b H x.
  - cbn in H. inversion H; subst. unfold all_adds, all_dels, cnt; cbn. lia.
  - apply apply_hunks_inv in H as (o & rest & t & H1 & H2 & -> & _ & _). cbn zeta in *.
    specialize (IH _ _ _ H2 x). pose proof (apply_lines_count _ _ _ _ H1 x) as C.
    rewrite all_adds_cons, all_dels_cons, !cnt_app.
    rewrite <- (firstn_skipn (h_skip h - pos) a) at 1. rewrite cnt_app. lia.
Qed.

Theorem apply_hunks_incl hs : forall pos a b,
  apply_hunks hs pos a = Some b ->
  (forall x, In x (all_dels hs) -> In x a) /\ (forall x, In x (all_adds hs) -> In x b).
Proof.
  induction hs as [|h r IH]; intros pos a b H.
  - cbn. split; intros x [].
  - apply apply_hunks_inv in H as (o & rest & t & H1 & H2 & -> & _ & _). cbn zeta in *.
    destruct (IH _ _ _ H2) as [J1 J2]. destruct (apply_lines_incl _ _ _ _ H1) as (I1 & I2 & I3).
    assert (S : forall x, In x (skipn (h_skip h - pos) a) -> In x a).
    { intros x Hx. rewrite <- (firstn_skipn (h_skip h - pos) a). apply in_or_app. right. exact Hx. }
    rewrite all_adds_cons, all_dels_cons. split; intros x Hx; apply in_app_or in Hx as [Hx|Hx].
    + apply S, I1, Hx.
    + apply S, I3, J1, Hx.
    + apply in_or_app. right. apply in_or_app. left. apply I2, Hx.
    + apply in_or_app. right. apply in_or_app. right. apply J2, Hx.
Qed.

Theorem apply_hunks_nothing_marked hs : forall pos a b,
  apply_hunks hs pos a = Some b -> all_dels hs = [] -> all_adds hs = [] -> b = a.
Proof.
  induction hs as [|h r IH]; intros pos a b H D A.
  - cbn in H. congruence.
  - apply apply_hunks_inv in H as (o & rest & t & H1 & H2 & -> & _ & _). cbn zeta in *.
    rewrite all_dels_cons in D. rewrite all_adds_cons in A.
    apply app_eq_nil in D as [D1 D2]. apply app_eq_nil in A as [A1 A2].
    rewrite (IH _ _ _ H2 D2 A2).
    rewrite (apply_lines_ctx_only _ _ _ _ H1 D1 A1). apply firstn_skipn.
Qed.

(* the header of every hunk states the true lengths *)
Theorem apply_hunks_header_lengths hs : forall pos a b,
  apply_hunks hs pos a = Some b ->
  Forall (fun h => h_alen h = length (h_lines h) - length (adds_of (h_lines h)) /\
                   h_blen h = length (h_lines h) - length (dels_of (h_lines h))) hs.
Proof.
  assert (L : forall ls a o rest, apply_lines ls a = Some (o, rest) ->
            length a = length rest + (length ls - length (adds_of ls)) /\
            length o = length ls - length (dels_of ls) /\
            length (adds_of ls) <= length ls /\ length (dels_of ls) <= length ls).
  { induction ls as [|d ls IH]; intros a o rest H.
    - cbn in H. inversion H; subst. cbn. lia.
    - destruct d as [s|s|s]; cbn [apply_lines] in H.
      + destruct a as [|y a]; [discriminate|]. destruct (String.eqb y s); [|discriminate].
        destruct (apply_lines ls a) as [[o' r']|] eqn:E2; [|discriminate]. inversion H; subst.
        specialize (IH _ _ _ E2). cbn [adds_of dels_of flat_map app length] in *.
        fold (adds_of ls) (dels_of ls). lia.
      + destruct a as [|y a]; [discriminate|]. destruct (String.eqb y s); [|discriminate].
        specialize (IH _ _ _ H). cbn [adds_of dels_of flat_map app length] in *.
        fold (adds_of ls) (dels_of ls). lia.
      + destruct (apply_lines ls a) as [[o' r']|] eqn:E2; [|discriminate]. inversion H; subst.
        specialize (IH _ _ _ E2). cbn [adds_of dels_of flat_map app length] in *.
        fold (adds_of ls) (dels_of ls). lia. }
  induction hs as [|h r IH]; intros pos a b H; [constructor|].
  apply apply_hunks_inv in H as (o & rest & t & H1 & H2 & -> & Hb & Ha). cbn zeta in *.
  constructor; [|eapply IH; eauto].
  destruct (L _ _ _ _ H1) as (L1 & L2 & L3 & L4). lia.
Qed.

(* ---- the message ---- *)
Theorem message_none_iff_equal a b f t : message_ok a b f t None = true <-> a = b.
Proof. cbn. apply list_eqb_str. Qed.

Theorem message_some_only_when_different a b f t m : message_ok a b f t (Some m) = true -> a <> b.
Proof.
  cbn [message_ok]. intros H. apply andb_true_iff in H as [H _].
  intros E. apply list_eqb_str in E. unfold str_list_eqb in H. rewrite E in H. discriminate.
Qed.

Lemma message_ok_inv a b f t m :
  message_ok a b f t (Some m) = true ->
  exists hs, read_message f t m = Some hs /\ apply_hunks hs 0 a = Some b.
Proof.
  cbn [message_ok]. intros H. apply andb_true_iff in H as [_ H].
  destruct (read_message f t m) as [hs|]; [|discriminate].
  destruct (apply_hunks hs 0 a) as [b'|] eqn:E; [|discriminate].
  apply list_eqb_str in H. subst. exists hs. split; [reflexivity | exact E].
Qed.

(* an accepted message starts with the sentence naming both workers and the two file lines naming them *)
Theorem message_names_both a b f t m :
  message_ok a b f t (Some m) = true ->
  exists rest, m = first_line f t :: ("--- " ++ f)%string :: rest /\
               In ("+++ " ++ t)%string (firstn 2 rest).
Proof.
  intros H. apply message_ok_inv in H as (hs & R & _). unfold read_message in R.
  destruct m as [|l0 [|l1 rest1]]; try discriminate.
  destruct (String.eqb l0 (first_line f t) && String.eqb l1 ("--- " ++ f)) eqn:E; [|discriminate].
  apply andb_true_iff in E as [E0 E1]. apply String.eqb_eq in E0, E1. subst.
  exists rest1. split; [reflexivity|].
  destruct rest1 as [|x r]; cbn [skip_blank] in R; [discriminate|].
  destruct x as [|c x'].
  - destruct r as [|l2 r2]; [discriminate|].
    destruct (String.eqb l2 ("+++ " ++ t)) eqn:E2; [|discriminate].
    apply String.eqb_eq in E2; subst. cbn. right. left. reflexivity.
  - destruct (String.eqb (String c x') ("+++ " ++ t)) eqn:E2; [|discriminate].
    apply String.eqb_eq in E2. rewrite E2. cbn. left. reflexivity.
Qed.

(* THE PROPERTY: an accepted message shows the difference — every id that occurs more often in the first
   collection stands on a '-' line, every id that occurs more often in the second on a '+' line, the
   message invents nothing (a '-' id is in the first, a '+' id in the second collection), and the exact
   account holds for every id *)
Theorem message_shows_the_difference a b f t m :
  message_ok a b f t (Some m) = true ->
  exists hs, read_message f t m = Some hs /\
    (forall x, cnt a x + cnt (all_adds hs) x = cnt b x + cnt (all_dels hs) x) /\
    (forall x, cnt b x < cnt a x -> In x (all_dels hs)) /\
    (forall x, cnt a x < cnt b x -> In x (all_adds hs)) /\
    (forall x, In x (all_dels hs) -> In x a) /\
    (forall x, In x (all_adds hs) -> In x b) /\
    (all_dels hs <> [] \/ all_adds hs <> []).
Proof.
  intros H. pose proof (message_some_only_when_different _ _ _ _ _ H) as Hne.
  apply message_ok_inv in H as (hs & R & A). exists hs. split; [exact R|].
  pose proof (apply_hunks_count _ _ _ _ A) as C. destruct (apply_hunks_incl _ _ _ _ A) as [I1 I2].
  split; [exact C|]. repeat split; auto.
  - intros x Hx. specialize (C x). apply (count_occ_In string_dec). fold (cnt (all_dels hs) x). lia.
  - intros x Hx. specialize (C x). apply (count_occ_In string_dec). fold (cnt (all_adds hs) x). lia.
  - destruct (all_dels hs) eqn:D; [|left; discriminate]. destruct (all_adds hs) eqn:AA; [|right; discriminate].
    exfalso. apply Hne. symmetry. eapply apply_hunks_nothing_marked; eauto.
Qed.

(* in particular: an id collected by one worker only is shown *)
Corollary message_shows_missing_and_extra a b f t m :
  message_ok a b f t (Some m) = true ->
  exists hs, read_message f t m = Some hs /\
    (forall x, In x a -> ~ In x b -> In x (all_dels hs)) /\
    (forall x, In x b -> ~ In x a -> In x (all_adds hs)).
Proof.
  intros H. apply message_shows_the_difference in H as (hs & R & _ & D & A & _).
  exists hs. split; [exact R|]. split; intros x Hi Hn.
  - apply D. unfold cnt. apply (count_occ_In string_dec) in Hi.
    apply (count_occ_not_In string_dec) in Hn. lia.
  - apply A. unfold cnt. apply (count_occ_In string_dec) in Hi.
    apply (count_occ_not_In string_dec) in Hn. lia.
Qed.

(* non-vacuity: the message of the real implementation for a 11- vs 12-element pair (two hunks) is accepted *)
Open Scope string_scope.
Example message_ok_example :
  message_ok ["a";"b";"c";"d";"e";"f";"g";"h";"i";"j";"k"] ["a";"c";"d";"e";"f";"g";"h";"i";"j";"X";"k";"l"] "gw0" "gw1"
   (Some ["Different tests were collected between gw0 and gw1. The difference is:";"--- gw0";"";"+++ gw1";"";
          "@@ -1,5 +1,4 @@";"";" a";"-b";" c";" d";" e";"@@ -8,4 +7,6 @@";"";" h";" i";" j";"+X";" k";"+l";
          "To see why this happens see 'Known limitations' in documentation for pytest-xdist"]) = true.
Proof. vm_compute. reflexivity. Qed.

(* a message that hides a difference is rejected *)
Example message_hiding_rejected :
  message_ok ["a";"b"] ["a";"c"] "gw0" "gw1"
   (Some ["Different tests were collected between gw0 and gw1. The difference is:";"--- gw0";"";"+++ gw1";"";
          "@@ -1,2 +1,2 @@";"";" a";" b";
          "To see why this happens see 'Known limitations' in documentation for pytest-xdist"]) = false.
Proof. vm_compute. reflexivity. Qed.

(* ---- the full edit script: both collections are the SAME kept list, interleaved (order preserved) with
   the '-' ids for the first and with the '+' ids for the second ---- *)
Close Scope string_scope.
Inductive merge {A : Type} : list A -> list A -> list A -> Prop :=
| merge_nil : merge [] [] []
| merge_l x xs ys zs : merge xs ys zs -> merge (x :: xs) ys (x :: zs)
| merge_r y xs ys zs : merge xs ys zs -> merge xs (y :: ys) (y :: zs).

Lemma merge_left_only {A} (l : list A) : merge l [] l.
Proof. induction l; constructor; assumption. Qed.

Lemma merge_app {A} (x1 y1 z1 x2 y2 z2 : list A) :
  merge x1 y1 z1 -> merge x2 y2 z2 -> merge (x1 ++ x2) (y1 ++ y2) (z1 ++ z2).
Proof. intros H1 H2. induction H1; cbn; try constructor; assumption. Qed.

Lemma apply_lines_script ls : forall a o rest,
  apply_lines ls a = Some (o, rest) ->
  exists kept pre, a = pre ++ rest /\ merge kept (dels_of ls) pre /\ merge kept (adds_of ls) o.
Proof.
  induction ls as [|d ls IH]; intros a o rest H.
  - cbn in H. inversion H; subst. exists [], []. cbn. repeat split; constructor.
  - destruct d as [s|s|s]; cbn [apply_lines] in H.
    + destruct a as [|y a]; [discriminate|]. destruct (String.eqb y s) eqn:E; [|discriminate].
      apply String.eqb_eq in E; subst y.
      destruct (apply_lines ls a) as [[o' r']|] eqn:E2; [|discriminate]. inversion H; subst.
      destruct (IH _ _ _ E2) as (kept & pre & -> & M1 & M2).
      exists (s :: kept), (s :: pre). cbn [adds_of dels_of flat_map app]. fold (adds_of ls) (dels_of ls).
      repeat split; constructor; assumption.
    + destruct a as [|y a]; [discriminate|]. destruct (String.eqb y s) eqn:E; [|discriminate].
      apply String.eqb_eq in E; subst y.
      destruct (IH _ _ _ H) as (kept & pre & -> & M1 & M2).
      exists kept, (s :: pre). cbn [adds_of dels_of flat_map app]. fold (adds_of ls) (dels_of ls).
      repeat split; [constructor|]; assumption.
    + destruct (apply_lines ls a) as [[o' r']|] eqn:E2; [|discriminate]. inversion H; subst.
      destruct (IH _ _ _ E2) as (kept & pre & -> & M1 & M2).
      exists kept, pre. cbn [adds_of dels_of flat_map app]. fold (adds_of ls) (dels_of ls).
      repeat split; [|constructor]; assumption.
Qed.

Theorem apply_hunks_script hs : forall pos a b,
  apply_hunks hs pos a = Some b ->
  exists kept, merge kept (all_dels hs) a /\ merge kept (all_adds hs) b.
Proof.
  induction hs as [|h r IH]; intros pos a b H.
  - cbn in H. inversion H; subst. exists b. split; apply merge_left_only.
  - apply apply_hunks_inv in H as (o & rest & t & H1 & H2 & -> & _ & _). cbn zeta in *.
    destruct (IH _ _ _ H2) as (kr & R1 & R2).
    destruct (apply_lines_script _ _ _ _ H1) as (kh & pre & E & M1 & M2).
    exists (firstn (h_skip h - pos) a ++ kh ++ kr). rewrite all_dels_cons, all_adds_cons. split.
    + rewrite <- (firstn_skipn (h_skip h - pos) a) at 2. rewrite E.
      change (dels_of (h_lines h) ++ all_dels r) with ([] ++ dels_of (h_lines h) ++ all_dels r).
      apply merge_app; [apply merge_left_only|]. apply merge_app; assumption.
    + change (adds_of (h_lines h) ++ all_adds r) with ([] ++ adds_of (h_lines h) ++ all_adds r).
      apply merge_app; [apply merge_left_only|]. apply merge_app; assumption.
Qed.

(* THE PROPERTY at full strength: what an accepted message marks IS an edit script from the first
   collection to the second *)
Theorem message_is_an_edit_script a b f t m :
  message_ok a b f t (Some m) = true ->
  exists hs kept, read_message f t m = Some hs /\
    merge kept (all_dels hs) a /\ merge kept (all_adds hs) b.
Proof.
  intros H. apply message_ok_inv in H as (hs & R & A).
  destruct (apply_hunks_script _ _ _ _ A) as (kept & M1 & M2).
  exists hs, kept. auto.
Qed.
