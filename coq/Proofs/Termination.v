(* Termination.v -- property C02, the termination half: a measure that strictly decreases along every
   useful move of a --dist load session without worker failure.

   mu c s adds up, for everything that still has to happen, the number of moves it can still cause:
   every test in the pool, every command on a wire or in an inbox, every queued item, the rest of
   the protocol of the running test, every message on a wire up, every event on the controller's
   queue, and the shutdown command each node is still to be sent.  Every useful enabled non-crash
   move (Progress.useful: not an idle turn of a worker's receiver thread) makes mu strictly smaller
   (step_mu), hence a schedule of useful moves from the initial state is at most mu c (sys_init c)
   long (c02_terminates). *)
From XV Require Import Base Worker Ctl SchedLoad SchedSteal SchedScope SchedEach Sched DSession System
  NoHook DSessionProofs WorkerProofs LoadProofs FifoProofs ExactlyOnce Coupling Completeness Progress.
From XV Require LivenessLaws.
From Coq Require Import Permutation.
Open Scope nat_scope.

(* ====================================================================================== *)
(* sums                                                                                    *)
(* ====================================================================================== *)
Definition sumf {A} (f : A -> nat) (l : list A) : nat := list_sum (map f l).

Lemma sumf_nil {A} (f : A -> nat) : sumf f [] = 0.
Proof. reflexivity. Qed.
Lemma sumf_cons {A} (f : A -> nat) a l : sumf f (a :: l) = f a + sumf f l.
Proof. reflexivity. Qed.
Lemma sumf_app {A} (f : A -> nat) a b : sumf f (a ++ b) = sumf f a + sumf f b.
Proof. unfold sumf. rewrite map_app, list_sum_app. reflexivity. Qed.
Lemma sumf_map {A B} (f : B -> nat) (g : A -> B) l : sumf f (map g l) = sumf (fun x => f (g x)) l.
Proof. unfold sumf. rewrite map_map. reflexivity. Qed.
Lemma sumf_perm {A} (f : A -> nat) l l' : Permutation l l' -> sumf f l = sumf f l'.
Proof.
  induction 1 as [|x l l' _ IH|x y l|l l' l'' _ IH1 _ IH2]; rewrite ?sumf_cons; lia.
Qed.
Lemma sumf_flat_map {A B} (f : B -> nat) (g : A -> list B) l :
  sumf f (flat_map g l) = sumf (fun x => sumf f (g x)) l.
Proof. induction l as [|a l IH]; [reflexivity|]. cbn [flat_map]. rewrite sumf_app, sumf_cons, IH. reflexivity. Qed.
Lemma sumf_ext_in {A} (f g : A -> nat) l : (forall x, In x l -> f x = g x) -> sumf f l = sumf g l.
Proof.
  induction l as [|a l IH]; intros H; [reflexivity|]. rewrite !sumf_cons, (H a (or_introl eq_refl)), IH; [reflexivity|].
  intros x Hx. apply H. right. exact Hx.
Qed.
Lemma sumf_le_in {A} (f g : A -> nat) l : (forall x, In x l -> f x <= g x) -> sumf f l <= sumf g l.
Proof.
  induction l as [|a l IH]; intros H; [apply le_n|]. rewrite !sumf_cons.
  pose proof (H a (or_introl eq_refl)). assert (sumf f l <= sumf g l) by (apply IH; intros x Hx; apply H; right; exact Hx). lia.
Qed.
Lemma sumf_in_le {A} (f : A -> nat) l x : In x l -> f x <= sumf f l.
Proof. induction l as [|a l IH]; [intros []|]. rewrite sumf_cons. intros [->|H]; [lia|]. specialize (IH H). lia. Qed.
Lemma sumf_add {A} (f g : A -> nat) l : sumf (fun x => f x + g x) l = sumf f l + sumf g l.
Proof. induction l as [|a l IH]; [reflexivity|]. rewrite !sumf_cons, IH. lia. Qed.
Lemma sumf_change_one (f g : nat -> nat) l n0 :
  NoDup l -> In n0 l -> (forall n, In n l -> n <> n0 -> g n = f n) -> sumf g l + f n0 = sumf f l + g n0.
Proof.
  induction l as [|a l IH]; intros ND Hin Hag; [destruct Hin|]. inversion ND as [|a' l' Hna ND']; subst.
  rewrite !sumf_cons. destruct Hin as [->|Hin].
  - assert (E : sumf g l = sumf f l).
    { apply sumf_ext_in. intros x Hx. apply Hag; [right; exact Hx|]. intros ->. contradiction. }
    lia.
  - assert (Ea : g a = f a) by (apply Hag; [left; reflexivity|intros ->; contradiction]).
    assert (IH' : sumf g l + f n0 = sumf f l + g n0).
    { apply IH; auto. intros n Hn. apply Hag. right. exact Hn. }
    lia.
Qed.

(* ====================================================================================== *)
(* the measure                                                                             *)
(* ====================================================================================== *)
Section Mu.
Variable c : config.
Notation N := (c_numnodes c).

(* running test i on worker n: entering (logstart), its reports, logfinish, the completion; each of
   these main-thread steps emits one event that travels two hops (wire up, controller queue) *)
Definition Tst (n i : nat) : nat := 3 * (length (reports_of (c_oracle c n) i) + 3).
Definition icost (n : nat) (it : item) : nat := match it with Idx i => Tst n i | Mark => 0 end.
Definition qcost (n : nat) (e : qent) : nat := 1 + icost n (snd e).
Definition rcost (n : nat) (it : item) : nat := 2 + icost n it.
Definition cmdcost (n : nat) (cm : cmd) : nat := 1 + sumf (rcost n) (cmd_items cm).

Definition phpot (n : nat) (w : wst) : nat :=
  match wph w with
  | PBoot => 3 + 3 + 3 * length (coll_reports (c_oracle c n)) + 3 + 1 + 3
  | PCollStart => 3 + 3 * length (coll_reports (c_oracle c n)) + 3 + 1 + 3
  | PColl rest => 3 * length rest + 3 + 1 + 3
  | PWaitFirst => (if wcb w then 0 else 1) + 3
  | PWaitNext cur => Tst n (snd cur) + 3
  | PGot cur nxt => Tst n (snd cur) + icost n (snd nxt) + 3
  | PRun cur nxt script => 3 * (length script + 1) + icost n (snd nxt) + 3
  | PFinishing _ => 3
  | PExited => 0
  end.
Definition wpot (n : nat) (w : wst) : nat :=
  phpot n w + sumf (qcost n) (wq w) + sumf (rcost n) (wrpend w) + sumf (cmdcost n) (winbox w).

Definition dcost (n : nat) (cs : list cmd) : nat := sumf (fun cm => 1 + cmdcost n cm) cs.
Definition nodepot (s : sys) (n : nat) : nat :=
  2 * length (alist_get [] n (y_up s)) + dcost n (alist_get [] n (y_down s)) +
  match aget n (y_w s) with Some w => wpot n w | None => 0 end.

(* a test in the pool: it may go to any worker, in a command of its own *)
Definition pcost (i : nat) : nat := 4 + sumf (fun n => Tst n i) (seq 0 N).
Definition prepool : nat := sumf (fun n => sumf pcost (seq 0 (length (c_coll c n)))) (seq 0 N).
Definition poolpot (ls : lstate) : nat :=
  match l_coll ls with None => prepool | Some _ => sumf pcost (l_pending ls) end.
Definition SDC : nat := 4.
Definition sdn (ls : lstate) (n : nat) : nat :=
  match option_map n_sdsent (aget n (l_nt ls)) with Some false => SDC | _ => 0 end.
Definition ctlpot (d : dstate) : nat :=
  match d_sched d with StL ls => poolpot ls + sumf (sdn ls) (seq 0 N) | _ => 0 end.

Definition mu (s : sys) : nat :=
  ctlpot (y_d s) + length (y_evq s) + sumf (nodepot s) (seq 0 N).

(* ---- the worker ---- *)
Lemma script_tl_length o i : length (tl (script_of o i)) = length (reports_of o i) + 1.
Proof.
  unfold script_of. cbn [app tl]. rewrite app_length, map_length, combine_length, seq_length, Nat.min_id.
  reflexivity.
Qed.

Lemma main_step_pot n w w' evs :
  main_step (c_oracle c n) w = Some (w', evs) -> wpot n w' + 2 * length evs + 1 <= wpot n w.
Proof.
  intros H. unfold wpot, phpot.
  ms_cases H; wproj; rewrite ?P, ?Q; rewrite ?sumf_cons; cbn [length qcost snd icost]; try lia.
  - destruct (wcb w); lia.
  - destruct (wcb w); unfold qcost; cbn [snd icost]; lia.
  - destruct (wcb w); unfold qcost; cbn [snd icost]; lia.
  - destruct nxt as [t it]. unfold qcost. cbn [snd]. lia.
  - rewrite app_length, map_length, combine_length, seq_length, Nat.min_id. cbn [length]. unfold Tst. lia.
  - destruct (stops_after (c_oracle c n) (snd cur)); [lia|]. destruct nxt as [t [j|]]; cbn [snd fst icost]; lia.
Qed.

Lemma phpot_ext n w w' : wph w' = wph w -> wcb w' = wcb w -> phpot n w' = phpot n w.
Proof. intros E1 E2. unfold phpot. rewrite E1, E2. reflexivity. Qed.

Lemma recv_next_pot o n inbox : forall w,
  Forall good_cmd inbox ->
  let w' := recv_next o w inbox in
  sumf (qcost n) (wq w') + sumf (rcost n) (wrpend w') + sumf (cmdcost n) (winbox w') +
    (match inbox with [] => 0 | _ => 1 end) <= sumf (qcost n) (wq w) + sumf (cmdcost n) inbox.
Proof.
  induction inbox as [|cm r IH]; intros w G; cbv zeta.
  - cbn [recv_next upd_recv wq wrpend winbox]. rewrite !sumf_nil. lia.
  - inversion G as [|c' r' Gc Gr]; subst. destruct cm as [ixs| |s| |]; try contradiction.
    + destruct ixs as [|i ixs].
      * cbn [recv_next]. specialize (IH w Gr). cbv zeta in IH. rewrite sumf_cons. unfold cmdcost at 2. cbn [cmd_items map].
        rewrite sumf_nil. destruct r; lia.
      * cbn [recv_next upd_recv w_put wq wrpend winbox]. rewrite sumf_app, !sumf_cons, sumf_nil.
        unfold cmdcost at 2. cbn [cmd_items map]. rewrite sumf_cons. unfold qcost at 2, rcost at 2. cbn [snd icost]. lia.
    + cbn [recv_next upd_recv w_put wq wrpend winbox]. rewrite sumf_app, !sumf_cons, !sumf_nil.
      unfold cmdcost at 2. cbn [cmd_items]. rewrite sumf_cons, sumf_nil. unfold qcost at 2, rcost. cbn [snd icost]. lia.
    + cbn [recv_next upd_recv w_put wq wrpend winbox]. rewrite sumf_app, !sumf_cons, !sumf_nil.
      unfold cmdcost at 2. cbn [cmd_items]. rewrite sumf_cons, sumf_nil. unfold qcost at 2, rcost. cbn [snd icost]. lia.
Qed.

Lemma recv_step_pot o n w :
  Forall good_cmd (winbox w) -> wreply w = None -> recv_busy w = true ->
  wpot n (fst (recv_step o w)) + 1 <= wpot n w.
Proof.
  intros G Hr Hb. unfold recv_busy in Hb. apply andb_true_iff in Hb. destruct Hb as (Ecb & Hb).
  apply negb_true_iff in Hb.
  destruct (recv_step_cb o w) as (Ep & Ec). unfold wpot. rewrite (phpot_ext n _ _ Ep Ec).
  unfold recv_step. rewrite Ecb. cbn [negb]. rewrite Hr. cbn [upd_recv wrpend winbox].
  destruct (wrpend w) as [|it rest] eqn:Erp; cbn [fst].
  - pose proof (recv_next_pot o n (winbox w) (upd_recv w (winbox w) [] None) G) as X. cbv zeta in X.
    cbn [upd_recv wq] in X. rewrite Hr in Hb. destruct (winbox w) as [|cm r]; [discriminate|].
    rewrite sumf_nil. lia.
  - cbn [upd_recv w_put wq wrpend winbox]. rewrite sumf_app, !sumf_cons, sumf_nil. unfold qcost at 2, rcost at 2.
    cbn [snd]. lia.
Qed.

Lemma deliver_pot n w cm : wpot n (deliver w cm) = wpot n w + cmdcost n cm.
Proof.
  unfold wpot, deliver. cbn [upd_recv wq wrpend winbox]. rewrite sumf_app, sumf_cons, sumf_nil.
  rewrite (phpot_ext n (upd_recv w (winbox w ++ [cm]) (wrpend w) (wreply w)) w eq_refl eq_refl). lia.
Qed.
End Mu.

(* ====================================================================================== *)
(* every useful move makes the measure smaller                                             *)
(* ====================================================================================== *)
Section StepMu.
Variable c : config.
Notation N := (c_numnodes c).
Hypothesis Hnc : forall n i, c_crash_in c n i = false.
Hypothesis Hng : no_garbled c.
Hypothesis Hne : forall k, ~ In ""%string (c_coll c k).

(* only node n0's share changes *)
Lemma mu_node_step s s' n0 k :
  y_d s' = y_d s -> y_evq s' = y_evq s -> n0 < N ->
  (forall n, n <> n0 -> nodepot c s' n = nodepot c s n) ->
  nodepot c s' n0 + k <= nodepot c s n0 -> mu c s' + k <= mu c s.
Proof.
  intros Ed Eq HnN Hoth Hn0. unfold mu. rewrite Ed, Eq.
  pose proof (sumf_change_one (nodepot c s) (nodepot c s') (seq 0 N) n0 (seq_NoDup N 0)) as X.
  assert (Hin : In n0 (seq 0 N)) by (apply in_seq; lia).
  specialize (X Hin (fun n _ Hn => Hoth n Hn)). lia.
Qed.

Lemma nodepot_push s n0 w' ms :
  nodepot c (push_up (set_w s n0 w') n0 ms) n0 =
  2 * (length (alist_get [] n0 (y_up s)) + length ms) + dcost c n0 (alist_get [] n0 (y_down s)) + wpot c n0 w'.
Proof.
  unfold nodepot. cbn [push_up set_w y_up y_down y_w]. rewrite alist_get_aset_eq, aget_aset_eq, app_length. reflexivity.
Qed.

Lemma nodepot_push_other s n0 w' ms n :
  n <> n0 -> nodepot c (push_up (set_w s n0 w') n0 ms) n = nodepot c s n.
Proof.
  intros Hn. unfold nodepot. cbn [push_up set_w y_up y_down y_w].
  rewrite alist_get_aset_neq, aget_aset_neq by exact Hn. reflexivity.
Qed.

(* the controller's receiver thread queues at most one event per message *)
Lemma pfr_len n m d d' o evs :
  ok_up m -> process_from_remote n m d = (d', o, Ok evs) -> length evs <= 1.
Proof.
  intros Hm H.
  unfold process_from_remote, mbind, get, of_opt, ret, raise in H. cbn beta iota zeta in H.
  destruct (aget n (d_nt d)) as [f|] eqn:Ef; cbn beta iota zeta in H; [|discriminate].
  destruct (n_down f) eqn:Edn.
  { assert (H' : (d, @nil out, Ok (@nil cevent)) = (d', o, Ok evs)).
    { destruct m as [e|ids|sk|i ms|dec| | |]; exact H. }
    inv H'. cbn. lia. }
  destruct m as [e|ids|sk|i ms|dec| | |]; cbn [ok_up] in Hm; try contradiction.
  - destruct e; unfold put in H; cbn beta iota zeta in H; inv H; cbn; lia.
  - inv H. cbn. lia.
  - inv H. cbn. lia.
Qed.

(* ---- the cost of what the controller sends is covered by the pool and the shutdown budget ---- *)
Lemma Tst_le_sum n i : n < N -> Tst c n i <= sumf (fun k => Tst c k i) (seq 0 N).
Proof. intros H. apply (sumf_in_le (fun k => Tst c k i)). apply in_seq. lia. Qed.

Lemma run_cost_le n ixs : n < N -> ixs <> [] -> 2 + sumf (rcost c n) (map Idx ixs) <= sumf (pcost c) ixs.
Proof.
  intros HnN Hnil.
  assert (G : forall l, sumf (rcost c n) (map Idx l) + 2 * length l <= sumf (pcost c) l).
  { induction l as [|i l IH]; [cbn; lia|]. cbn [map length]. rewrite !sumf_cons. unfold rcost at 1, pcost at 1.
    cbn [icost]. pose proof (Tst_le_sum n i HnN). lia. }
  destruct ixs as [|i l]; [congruence|]. specialize (G (i :: l)). cbn [length] in G. lia.
Qed.

Definition sdterm (f : nctl) : nat := if n_sdsent f then 0 else SDC.

Lemma NR_cost n f cs f' :
  n < N -> NR f cs f' -> Forall ne_cmd cs ->
  dcost c n cs + sdterm f' <= sdterm f + sumf (pcost c) (flat_map cmd_inds cs).
Proof.
  intros HnN R. induction R as [f|f ixs cs f' Hs R IH|f cs f' Hs R IH]; intros Hnil.
  - unfold dcost. cbn [flat_map]. rewrite !sumf_nil. lia.
  - inversion Hnil as [|x l Hx Hl]; subst. specialize (IH Hl). unfold dcost in *. rewrite sumf_cons.
    cbn [flat_map cmd_inds]. rewrite sumf_app. unfold cmdcost at 1. cbn [cmd_items].
    assert (Hi : ixs <> []) by (destruct ixs as [|i0 l0]; [exact (False_ind _ Hx)|discriminate]).
    pose proof (run_cost_le n ixs HnN Hi). lia.
  - destruct (NR_sdsent_true _ _ _ R eq_refl) as (-> & ->). unfold dcost. rewrite sumf_cons, sumf_nil.
    unfold cmdcost. cbn [cmd_items flat_map cmd_inds]. rewrite sumf_cons, !sumf_nil.
    unfold rcost, sdterm, SDC. cbn. rewrite Hs. lia.
Qed.

Lemma sdn_some ls n f : aget n (l_nt ls) = Some f -> sdn ls n = sdterm f.
Proof. intros E. unfold sdn, sdterm. rewrite E. cbn. destruct (n_sdsent f); reflexivity. Qed.

Theorem step_mu s l s' o w :
  no_crash_label l -> useful s l = true -> CInv c s -> sys_step c s l = Some (s', o, w) ->
  mu c s' + 1 <= mu c s.
Proof.
  intros Hl Hu CI H.
  pose proof CI as [Inv Ek (ls & DJd & NIs) Eq Eu Edn Ea Er Epm Efn Edw].
  pose proof Inv as [A B (ls0 & Els0 & I & T) D E F G NG].
  pose proof DJd as (J0 & Jss). pose proof J0 as [Els J Jb Jp Jg].
  assert (ls0 = ls) by congruence. subst ls0.
  unfold sys_step in H. destruct (y_result s) eqn:Eres; [discriminate|].
  destruct l as [n0|n0|n0|n0| |n0]; [| | | | |contradiction].
  - (* LDeliver *)
    replace (mem_nat n0 (y_dead s)) with false in H by (rewrite A; reflexivity).
    destruct (aget n0 (y_down s)) as [[|cmd rest]|] eqn:Ed; try discriminate.
    destruct (aget n0 (y_w s)) as [w0|] eqn:Ew; try discriminate.
    fin3 H s' o w. pose proof (worker_lt c s n0 w0 Ek Ew) as HnN.
    apply (mu_node_step _ _ n0); auto.
    + intros n Hn. unfold nodepot. cbn [y_up y_down y_w]. rewrite alist_get_aset_neq, aget_aset_neq by exact Hn. reflexivity.
    + unfold nodepot. cbn [y_up y_down y_w]. rewrite alist_get_aset_eq, aget_aset_eq, Ew, (alist_get_some [] _ _ _ Ed).
      rewrite deliver_pot. unfold dcost. rewrite sumf_cons. lia.
  - (* LRecvW *)
    replace (mem_nat n0 (y_dead s)) with false in H by (rewrite A; reflexivity).
    destruct (aget n0 (y_w s)) as [w0|] eqn:Ew; try discriminate.
    cbn [useful] in Hu. rewrite Ew in Hu.
    destruct (negb (wcb w0)); [discriminate|].
    destruct (recv_step (c_oracle c n0) w0) as [w' evs] eqn:Es. fin3 H s' o w.
    pose proof (worker_lt c s n0 w0 Ek Ew) as HnN.
    destruct (G _ _ Ew) as (Iw & Gw).
    pose proof (proj1 (ni_wx _ _ _ _ _ _ _ (NIs n0 w0 Ew))) as Hrep.
    destruct (NI_recv (c_oracle c n0) _ _ _ _ _ _ _ Gw (NIs n0 w0 Ew)) as (Ev & _). rewrite Es in Ev. cbn [snd] in Ev.
    subst evs.
    pose proof (recv_step_pot c (c_oracle c n0) n0 w0 Gw Hrep Hu) as X. rewrite Es in X. cbn [fst] in X.
    apply (mu_node_step _ _ n0); auto.
    + intros n Hn. apply nodepot_push_other. exact Hn.
    + rewrite nodepot_push. unfold nodepot. rewrite Ew. cbn [map length]. lia.
  - (* LMain *)
    replace (mem_nat n0 (y_dead s)) with false in H by (rewrite A; reflexivity).
    destruct (aget n0 (y_w s)) as [w0|] eqn:Ew; try discriminate.
    assert (Hd : dies_now c n0 w0 = false).
    { unfold dies_now. destruct (wph w0); auto. }
    rewrite Hd in H.
    destruct (main_step (c_oracle c n0) w0) as [[w' evs]|] eqn:Es; [|discriminate]. fin3 H s' o w.
    pose proof (worker_lt c s n0 w0 Ek Ew) as HnN.
    pose proof (main_step_pot c n0 w0 w' evs Es) as X.
    apply (mu_node_step _ _ n0); auto.
    + intros n Hn. apply nodepot_push_other. exact Hn.
    + rewrite nodepot_push. unfold nodepot. rewrite Ew, map_length. lia.
  - (* LRecv *)
    destruct (aget n0 (y_up s)) as [[|m rest]|] eqn:Eup; try discriminate.
    cbn [y_d] in H.
    destruct (process_from_remote n0 m (y_d s)) as [[d' outs] r] eqn:Ep.
    pose proof (E n0) as En. rewrite (alist_get_some [] _ _ _ Eup) in En.
    inversion En as [|m1 r1 Gm Gr]; subst.
    destruct (Eu n0) as (Eu1 & Eu2). rewrite (alist_get_some [] _ _ _ Eup) in Eu1, Eu2.
    inversion Eu1 as [|m2 r2 Gm3 Gr3]; subst.
    assert (HnN : n0 < N).
    { destruct (Nat.lt_ge_cases n0 N) as [X|X]; [exact X|]. specialize (Eu2 X). discriminate. }
    destruct (aget n0 (l_nt ls)) as [f|] eqn:Ef.
    2:{ exfalso. apply (proj2 (lj_ntk _ _ _ J n0)); [exact HnN|exact Ef]. }
    destruct (worker_known c s n0 Ek HnN) as (wn & Ewn).
    assert (Hdn : n_down f = true -> up_sig m = []).
    { intros Hd. destruct (Edw ls n0 f wn Els Ef Hd Ewn) as (X & _).
      rewrite (alist_get_some [] _ _ _ Eup) in X. cbn [flat_map] in X. apply app_eq_nil in X. tauto. }
    destruct (pfr_eff c _ _ _ _ _ _ _ _ Els Ef Gm Gm3 HnN Hdn Ep)
      as (-> & evs & ls' & -> & Els' & Hsig & Hok3 & S1 & S2 & S3 & P1 & P2 & P3 & P4 & P5 & P6 & P7 & P8 & P9).
    pose proof (pfr_len _ _ _ _ _ _ Gm Ep) as Hlen.
    cbn [apply_outs] in H. unfold close_if_dead in H. cbn [set_evq set_d y_dead] in H.
    replace (mem_nat n0 (y_dead s)) with false in H by (rewrite A; reflexivity).
    fin3 H s' o w.
    match goal with |- mu c ?x + 1 <= _ => set (s2 := x) end.
    assert (E1 : y_d s2 = d') by reflexivity. assert (E2 : y_evq s2 = y_evq s ++ evs) by reflexivity.
    unfold mu. rewrite E1, E2, app_length.
    assert (Ec : ctlpot c d' = ctlpot c (y_d s)).
    { unfold ctlpot. rewrite Els', Els. f_equal.
      - unfold poolpot. rewrite P4, P3. reflexivity.
      - apply sumf_ext_in. intros k _. unfold sdn. rewrite P7. reflexivity. }
    rewrite Ec.
    pose proof (sumf_change_one (nodepot c s) (nodepot c s2) (seq 0 N) n0 (seq_NoDup N 0)) as X.
    assert (Hin : In n0 (seq 0 N)) by (apply in_seq; lia).
    assert (Hoth : forall n, In n (seq 0 N) -> n <> n0 -> nodepot c s2 n = nodepot c s n).
    { intros n _ Hn. unfold nodepot, s2. cbn [set_evq set_d y_up y_down y_w]. rewrite alist_get_aset_neq by exact Hn. reflexivity. }
    specialize (X Hin Hoth).
    assert (Hn0 : nodepot c s2 n0 + 2 = nodepot c s n0).
    { unfold nodepot, s2. cbn [set_evq set_d y_up y_down y_w]. rewrite alist_get_aset_eq, (alist_get_some [] _ _ _ Eup). cbn [length]. lia. }
    lia.
  - (* LCtl *)
    specialize (Ea eq_refl).
    destruct (d_active (y_d s)) as [|a0 ar] eqn:Eact; [contradiction|].
    destruct (y_evq s) as [|ev q] eqn:Eevq; [discriminate|].
    inversion D as [|ev1 q1 Gev Gq]; subst. inversion Eq as [|ev2 q2 Gev3 Gq3]; subst.
    destruct (d_loop_once ev (y_d s)) as [[d' outs] r] eqn:El.
    assert (Hpre : PRE N (c_coll c) ev (y_d s) ls).
    { eapply pre_from_inv; eauto. }
    assert (Hact : d_active (y_d s) <> []) by (rewrite Eact; discriminate).
    destruct (loop_once_ok N (c_coll c) ev (y_d s) ls d' outs r DJd I Hact Hpre El) as (-> & ls' & LE).
    destruct (ok_loop_once ev (y_d s) Gev _ _ _ El ls Els I) as (ls2 & Els2 & _ & HLT & Go).
    assert (Els' : d_sched d' = StL ls').
    { destruct (le_dj _ _ _ _ _ _ _ _ LE) as ([E1 _ _ _ _] & _). exact E1. }
    assert (ls2 = ls') by congruence. subst ls2.
    pose proof (loop_x N (c_coll c) ev (y_d s) ls d' outs (Ok tt) DJd I Hact Hpre El ls' Els') as LX.
    set (s1 := apply_outs (set_d (set_evq s q) d') outs) in *.
    assert (Hd1 : y_dead (set_d (set_evq s q) d') = []) by (cbn; exact A).
    destruct (apply_outs_eff outs _ Hd1 Go) as (A1 & A2 & A3 & A4 & A5 & A6 & A7).
    cbn [set_d set_evq y_d y_evq y_up y_w y_dead y_result y_down] in A1, A2, A3, A4, A5, A6, A7.
    fold s1 in A1, A2, A3, A4, A5, A6, A7.
    assert (S' : exists rr, s' = set_result s1 rr).
    { destruct (d_session_finished d') eqn:Efin.
      - fin3 H s' o w. eexists. reflexivity.
      - destruct (d_active d') as [|b0 br] eqn:Eact'.
        + exfalso. pose proof (le_fin _ _ _ _ _ _ _ _ LE) as Hf. rewrite Eact' in Hf. specialize (Hf eq_refl).
          unfold d_session_finished in Efin. rewrite Hf, Eact' in Efin. discriminate.
        + fin3 H s' o w. exists (y_result s1). symmetry. apply set_result_same. reflexivity. }
    destruct S' as (rr & ->).
    assert (Emu : mu c (set_result s1 rr) = mu c s1) by reflexivity. rewrite Emu. clear Emu.
    pose proof (le_dj _ _ _ _ _ _ _ _ LE) as ([_ J' _ _ _] & _).
    (* the nodes' shares: what was sent is added to the wires down *)
    assert (Enode : forall n, nodepot c s1 n = nodepot c s n + dcost c n (cmds_to n outs)).
    { intros n. unfold nodepot. rewrite A3, A4, A7. unfold dcost. rewrite sumf_app. lia. }
    (* per node: commands and the shutdown budget *)
    assert (Hnode : forall n, In n (seq 0 N) ->
              dcost c n (cmds_to n outs) + sdn ls' n <=
              sdn ls n + sumf (pcost c) (flat_map cmd_inds (cmds_to n outs))).
    { intros n Hn. apply in_seq in Hn. assert (HnN : n < N) by lia.
      destruct (aget n (l_nt ls)) as [f|] eqn:Ef.
      2:{ exfalso. apply (proj2 (lj_ntk _ _ _ J n)); [exact HnN|exact Ef]. }
      pose proof (le_nt _ _ _ _ _ _ _ _ LE n) as R. rewrite Ef in R.
      destruct (aget n (l_nt ls')) as [f'|] eqn:Ef'; [|destruct R]. cbn in R.
      rewrite (sdn_some ls n f Ef), (sdn_some ls' n f' Ef').
      exact (NR_cost n f _ f' HnN R (lx_ne _ _ _ _ _ _ LX n)). }
    assert (Hsum : sumf (fun n => dcost c n (cmds_to n outs)) (seq 0 N) + sumf (sdn ls') (seq 0 N) <=
                   sumf (sdn ls) (seq 0 N) + sumf (pcost c) (sent_inds outs)).
    { rewrite <- !sumf_add.
      assert (CK : forall k, ~ In k (seq 0 N) -> cmds_to k outs = []).
      { intros k Hk. pose proof (le_nt _ _ _ _ _ _ _ _ LE k) as R.
        destruct (aget k (l_nt ls)) as [f|] eqn:Ef.
        - exfalso. apply Hk. apply in_seq. assert (X : k < N) by (apply (lj_ntk _ _ _ J k); congruence). lia.
        - destruct (aget k (l_nt ls')); [destruct R|exact R]. }
      rewrite <- (sumf_perm (pcost c) _ _ (sent_perm (seq 0 N) outs (seq_NoDup N 0) CK Go)).
      rewrite sumf_flat_map. rewrite <- sumf_add. apply sumf_le_in. exact Hnode. }
    (* the pool *)
    assert (Hpool : sumf (pcost c) (sent_inds outs) + poolpot c ls' <= poolpot c ls).
    { destruct HLT as (T1 & T2 & T3). unfold poolpot.
      destruct (l_coll ls') as [coll|] eqn:Ec'.
      - specialize (T3 coll eq_refl). unfold vp in T3. rewrite Ec' in T3.
        destruct (l_coll ls) as [c0|] eqn:Ec0.
        + rewrite T3, sumf_app. lia.
        + destruct (lx_coll _ _ _ _ _ _ LX coll Ec') as [Fc|(k & others & En2c)]; [congruence|].
          assert (Hk : In (k, coll) (l_n2c ls')) by (rewrite En2c; left; reflexivity).
          pose proof (proj1 (lj_lg _ _ _ J') k coll Hk) as Eck.
          assert (HkN : k < N).
          { apply (lj_n2c _ _ _ J'). unfold akeys. change k with (fst (k, coll)). apply in_map. exact Hk. }
          assert (Hle : sumf (pcost c) (seq 0 (length coll)) <= prepool c).
          { unfold prepool. rewrite Eck.
            apply (sumf_in_le (fun n => sumf (pcost c) (seq 0 (length (c_coll c n))))). apply in_seq. lia. }
          rewrite T3, sumf_app in Hle. lia.
      - rewrite (T2 eq_refl), sumf_nil.
        destruct (l_coll ls) as [c0|] eqn:Ec0; [specialize (T1 c0 eq_refl); discriminate|]. lia. }
    unfold mu. rewrite A1, A2. cbn [length].
    rewrite (sumf_ext_in (nodepot c s1) (fun n => nodepot c s n + dcost c n (cmds_to n outs)) _ (fun n _ => Enode n)).
    rewrite sumf_add. unfold ctlpot. rewrite Els', Els, Eevq. cbn [length]. lia.
Qed.

End StepMu.

(* ====================================================================================== *)
(* the theorems                                                                            *)
(* ====================================================================================== *)

(* a schedule in which every move is enabled, useful and not a crash *)
Fixpoint useful_run (c : config) (s : sys) (ls : list label) : Prop :=
  match ls with
  | [] => True
  | l :: r => no_crash_label l /\ useful s l = true /\
              match sys_step c s l with Some (s', _, _) => useful_run c s' r | None => False end
  end.

Definition run_from (c : config) (s : sys) (ls : list label) : sys :=
  fold_left (fun s l => match sys_step c s l with Some (s', _, _) => s' | None => s end) ls s.

Lemma sys_run_from c ls : sys_run c ls = run_from c (sys_init c) ls.
Proof. reflexivity. Qed.

Lemma useful_run_nocrash c ls : forall s, useful_run c s ls -> Forall no_crash_label ls.
Proof.
  induction ls as [|l r IH]; intros s H; [constructor|]. cbn in H. destruct H as (A & _ & H).
  destruct (sys_step c s l) as [[[s' o] w]|]; [|destruct H]. constructor; [exact A|eapply IH; eauto].
Qed.

Lemma useful_run_snoc c ls l : forall s,
  useful_run c s ls -> no_crash_label l -> useful (run_from c s ls) l = true ->
  sys_step c (run_from c s ls) l <> None -> useful_run c s (ls ++ [l]).
Proof.
  induction ls as [|x r IH]; intros s H Hl Hu He; cbn [app useful_run run_from fold_left] in *.
  - split; [exact Hl|]. split; [exact Hu|]. destruct (sys_step c s l) as [[[s' o] w]|]; [exact I|congruence].
  - destruct H as (A & B & H). split; [exact A|]. split; [exact B|].
    destruct (sys_step c s x) as [[[s' o] w]|]; [|destruct H]. apply IH; assumption.
Qed.

Section MainT.
  Variable c : config.
  Hypothesis Hmode : c_mode c = MLoad.
  Hypothesis Hnocrash : forall n i, c_crash_in c n i = false.
  Hypothesis Hnogarbled : no_garbled c.
  Hypothesis Hids : forall n, ~ In ""%string (c_coll c n).
  Hypothesis Hnodes : 0 < c_numnodes c.

  Lemma useful_run_bound ls : forall s, CInv c s -> useful_run c s ls -> length ls <= mu c s.
  Proof.
    induction ls as [|l r IH]; intros s CI H; [cbn; lia|]. cbn [useful_run] in H. destruct H as (A & B & H).
    destruct (sys_step c s l) as [[[s' o] w]|] eqn:E; [|destruct H].
    pose proof (step_mu c Hnocrash s l s' o w A B CI E) as X.
    pose proof (step_cinv c Hnocrash Hnogarbled Hids s l s' o w A CI E) as CI'.
    specialize (IH s' CI' H). cbn [length]. lia.
  Qed.

  (* C02, termination: a schedule of useful moves is at most mu c (sys_init c) long *)
  Theorem c02_terminates : forall ls, useful_run c (sys_init c) ls -> length ls <= mu c (sys_init c).
  Proof. intros ls H. apply useful_run_bound; [apply CInv_init; assumption|exact H]. Qed.

  Corollary c02_terminates_bound : exists B, forall ls, useful_run c (sys_init c) ls -> length ls <= B.
  Proof. exists (mu c (sys_init c)). exact c02_terminates. Qed.

  (* ... and a schedule of useful moves that cannot be extended by a useful move has ended the session *)
  Theorem c02_maximal_run_ends : forall ls,
    useful_run c (sys_init c) ls -> (forall l, ~ useful_run c (sys_init c) (ls ++ [l])) ->
    y_result (sys_run c ls) <> None.
  Proof.
    intros ls H Hmax Hres.
    pose proof (useful_run_nocrash c ls _ H) as Hnc.
    destruct (c02_no_deadlock_useful c ls Hmode Hnocrash Hnogarbled Hids Hnc Hnodes Hres) as (l & A & B & C).
    apply (Hmax l). apply useful_run_snoc; auto.
  Qed.
End MainT.

Print Assumptions step_mu.
Print Assumptions c02_terminates.
Print Assumptions c02_maximal_run_ends.
Check step_mu.
Check c02_terminates.
Check c02_terminates_bound.
Check c02_maximal_run_ends.

(* ====================================================================================== *)
(* Non-vacuity                                                                             *)
(* ====================================================================================== *)
(* a boolean version of useful_run, and a scheduler that always takes the first useful move *)
Fixpoint useful_runb (c : config) (s : sys) (ls : list label) : bool :=
  match ls with
  | [] => true
  | l :: r => match l with LCrash _ => false | _ => true end && useful s l &&
              match sys_step c s l with Some (s', _, _) => useful_runb c s' r | None => false end
  end.

Lemma useful_runb_ok c ls : forall s, useful_runb c s ls = true -> useful_run c s ls.
Proof.
  induction ls as [|l r IH]; intros s H; [exact I|]. cbn [useful_runb] in H.
  apply andb_true_iff in H. destruct H as (H & H3). apply andb_true_iff in H. destruct H as (H1 & H2).
  cbn [useful_run]. split; [destruct l; try exact I; discriminate|]. split; [exact H2|].
  destruct (sys_step c s l) as [[[s' o] w]|]; [apply IH; exact H3|discriminate].
Qed.

Fixpoint greedy (c : config) (s : sys) (fuel : nat) : list label :=
  match fuel with
  | 0 => []
  | S f => match prog_moves c s with
           | [] => []
           | l :: _ => match sys_step c s l with
                       | Some (s', _, _) => l :: greedy c s' f
                       | None => []
                       end
           end
  end.

(* the bound for the 2-worker, 5-test configuration c01_cfg is 314; the schedule that always takes
   the first useful move ends the session as "finished" after 103 moves, every one of them useful *)
Example term_ex_c01 :
  let ls := greedy c01_cfg (sys_init c01_cfg) 1000 in
  mu c01_cfg (sys_init c01_cfg) = 314 /\ length ls = 103 /\
  useful_run c01_cfg (sys_init c01_cfg) ls /\ y_result (sys_run c01_cfg ls) = Some RFinished.
Proof.
  cbv zeta. split; [vm_compute; reflexivity|]. split; [vm_compute; reflexivity|].
  split; [apply useful_runb_ok; vm_compute; reflexivity|vm_compute; reflexivity].
Qed.

(* the measure along that schedule: it starts at the bound and goes down with every move (sometimes by more than one) *)
Fixpoint mu_trace (c : config) (s : sys) (ls : list label) : list nat :=
  match ls with
  | [] => [mu c s]
  | l :: r => mu c s :: match sys_step c s l with Some (s', _, _) => mu_trace c s' r | None => [] end
  end.
Example term_ex_trace :
  firstn 12 (mu_trace c01_cfg (sys_init c01_cfg) (greedy c01_cfg (sys_init c01_cfg) 1000)) =
  [314; 313; 312; 311; 310; 309; 308; 306; 305; 304; 303; 302].
Proof. vm_compute. reflexivity. Qed.
