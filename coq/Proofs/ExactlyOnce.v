(* ExactlyOnce.v -- C01 (at most once): with --dist load and no worker failure no test index
   is ever in two places at once, hence no test is started twice.
   System-level invariant over Model/System.v, for every configuration in load mode, every
   schedule without crashes.  See the comment before the main theorems for the exact
   hypotheses. *)
From XV Require Import Base Worker Ctl SchedLoad SchedSteal SchedScope SchedEach Sched DSession System
  NoHook DSessionProofs WorkerProofs LoadProofs FifoProofs.
From Coq Require Import Permutation.
Open Scope nat_scope.

(* permutations of concrete app/cons expressions, by counting occurrences *)
Ltac permc_norm := repeat first [rewrite count_occ_app | progress cbn [count_occ]].
Ltac permc :=
  apply (proj2 (Permutation_count_occ Nat.eq_dec _ _)); intros ?x;
  permc_norm; repeat (destruct (Nat.eq_dec _ _)); try lia.
Ltac permc_with H :=
  apply (proj2 (Permutation_count_occ Nat.eq_dec _ _)); intros ?x;
  let Hx := fresh "Hx" in
  pose proof (proj1 (Permutation_count_occ Nat.eq_dec _ _) H x) as Hx;
  repeat first [rewrite count_occ_app in Hx | progress cbn [count_occ] in Hx];
  permc_norm; repeat (destruct (Nat.eq_dec _ _)); try lia.

(* ====================================================================================== *)
(* Part 0: sub-multisets of lists                                                          *)
(* ====================================================================================== *)
Definition sub (a b : list nat) : Prop := exists x, Permutation (a ++ x) b.

Lemma sub_refl a : sub a a.
Proof. exists []. rewrite app_nil_r. reflexivity. Qed.

Lemma sub_perm a b : Permutation a b -> sub a b.
Proof. intros H. exists []. rewrite app_nil_r. exact H. Qed.

Lemma sub_trans a b c : sub a b -> sub b c -> sub a c.
Proof.
  intros (x & Hx) (y & Hy). exists (x ++ y). rewrite app_assoc. rewrite Hx. exact Hy.
Qed.

Lemma sub_app a b c d : sub a b -> sub c d -> sub (a ++ c) (b ++ d).
Proof.
  intros (x & Hx) (y & Hy). exists (x ++ y). rewrite <- Hx, <- Hy.
  rewrite <- !app_assoc. apply Permutation_app_head.
  rewrite !app_assoc. apply Permutation_app_tail. apply Permutation_app_comm.
Qed.

Lemma sub_app_r a x : sub a (x ++ a).
Proof. exists x. apply Permutation_app_comm. Qed.

Lemma sub_app_l a x : sub a (a ++ x).
Proof. exists x. reflexivity. Qed.

Lemma nodup_app_l (a b : list nat) : NoDup (a ++ b) -> NoDup a.
Proof.
  induction a as [|x a IH]; cbn; intros H; [constructor|].
  inversion H as [|y l Hn Hd]; subst. constructor; [|apply IH; exact Hd].
  intros Hi. apply Hn. apply in_or_app. left. exact Hi.
Qed.

Lemma sub_nodup a b : sub a b -> NoDup b -> NoDup a.
Proof.
  intros (x & Hx) ND. apply Permutation_sym in Hx. pose proof (Permutation_NoDup Hx ND) as H.
  apply nodup_app_l in H. exact H.
Qed.

Lemma sub_in a b i : sub a b -> In i a -> In i b.
Proof. intros (x & Hx) Hi. eapply Permutation_in; [exact Hx|]. apply in_or_app. left. exact Hi. Qed.

Lemma sub_nil_inv a : sub a [] -> a = [].
Proof.
  intros (x & Hx). apply Permutation_sym, Permutation_nil in Hx. apply app_eq_nil in Hx. tauto.
Qed.

Lemma sub_flat_map (f g : nat -> list nat) l :
  (forall k, In k l -> sub (f k) (g k)) -> sub (flat_map f l) (flat_map g l).
Proof.
  induction l as [|k l IH]; intros H; cbn; [apply sub_refl|].
  apply sub_app; [apply H; left; reflexivity|apply IH; intros j Hj; apply H; right; exact Hj].
Qed.

Lemma flat_map_ext_in (f g : nat -> list nat) l :
  (forall k, In k l -> f k = g k) -> flat_map f l = flat_map g l.
Proof.
  induction l as [|k l IH]; intros H; cbn; [reflexivity|].
  rewrite (H k (or_introl eq_refl)). f_equal. apply IH. intros j Hj. apply H. right. exact Hj.
Qed.

(* one key [n] gains [x]; all other keys are unchanged *)
Lemma sub_flat_map_one (f f' : nat -> list nat) n x l :
  NoDup l -> (forall k, k <> n -> f' k = f k) -> Permutation (f' n) (x ++ f n) ->
  sub (flat_map f' l) (x ++ flat_map f l).
Proof.
  intros ND Hk Hn. induction l as [|k l IH]; cbn.
  - rewrite app_nil_r. exists x. reflexivity.
  - inversion ND as [|k' l' Hni ND']; subst. destruct (Nat.eq_dec k n) as [->|Hne].
    + rewrite (flat_map_ext_in f' f l).
      * apply sub_perm. rewrite Hn. rewrite app_assoc. reflexivity.
      * intros j Hj. apply Hk. intros ->. contradiction.
    + rewrite (Hk k Hne). eapply sub_trans; [apply sub_app; [apply sub_refl|apply IH; exact ND']|].
      apply sub_perm. apply Permutation_app_swap_app.
Qed.

(* ====================================================================================== *)
(* Part 1: the observation functions of the property                                       *)
(* ====================================================================================== *)
Definition cmd_inds (c : cmd) : list nat := match c with CRun ixs => ixs | _ => [] end.
Definition item_inds (l : list item) : list nat :=
  flat_map (fun it => match it with Idx i => [i] | Mark => [] end) l.
Definition w_tokens (w : wst) : list nat :=
  flat_map cmd_inds (winbox w) ++ item_inds (wrpend w) ++ ents_idx (wq w) ++ ents_idx (wpopped w).
Definition node_tokens (s : sys) (n : nat) : list nat :=
  flat_map cmd_inds (alist_get [] n (y_down s)) ++
  match aget n (y_w s) with Some w => w_tokens w | None => [] end.
Definition pool (s : sys) : list nat :=
  match d_sched (y_d s) with StL ls => l_pending ls | _ => [] end.
Definition wires (s : sys) : list nat := flat_map (node_tokens s) (akeys (y_w s)).
Definition places (s : sys) : list nat := pool s ++ flat_map (node_tokens s) (akeys (y_w s)).
(* indices passed to pytest_runtest_protocol, all workers *)
Definition started (s : sys) : list nat :=
  flat_map (fun p => map (fun r => snd (fst r)) (wran (snd p))) (y_w s).

Lemma places_eq s : places s = pool s ++ wires s.
Proof. reflexivity. Qed.

(* commands that occur in load mode *)
Definition good_cmd (c : cmd) : Prop :=
  match c with CSteal _ | CRunAll => False | _ => True end.

(* ====================================================================================== *)
(* Part 2: one worker: the indices it holds are conserved by each of its steps             *)
(* ====================================================================================== *)
Lemma ents_idx_app a b : ents_idx (a ++ b) = ents_idx a ++ ents_idx b.
Proof.
  induction a as [|e a IH]; cbn; [reflexivity|]. destruct (ent_idx e); cbn; rewrite IH; reflexivity.
Qed.

Lemma item_inds_map_idx ixs : item_inds (map Idx ixs) = ixs.
Proof. induction ixs as [|i r IH]; cbn; [reflexivity|]. unfold item_inds in IH. rewrite IH. reflexivity. Qed.

Lemma item_inds_cons it rest : item_inds (it :: rest) = item_inds [it] ++ item_inds rest.
Proof. unfold item_inds. cbn [flat_map]. rewrite app_nil_r. reflexivity. Qed.

Lemma ents_idx_one t it : ents_idx [(t, it)] = item_inds [it].
Proof. destruct it; reflexivity. Qed.

Lemma fm_cmd_app a b : flat_map cmd_inds (a ++ b) = flat_map cmd_inds a ++ flat_map cmd_inds b.
Proof. apply flat_map_app. Qed.

(* (W1) a delivered command adds exactly its indices *)
Lemma deliver_tokens w c : Permutation (w_tokens (deliver w c)) (cmd_inds c ++ w_tokens w).
Proof.
  unfold w_tokens, deliver. cbn [upd_recv winbox wrpend wq wpopped].
  rewrite fm_cmd_app. cbn [flat_map]. rewrite app_nil_r. permc.
Qed.

Lemma deliver_good w c : good_cmd c -> Forall good_cmd (winbox w) -> Forall good_cmd (winbox (deliver w c)).
Proof. intros Hc Hw. cbn. apply Forall_app. split; [exact Hw|constructor; [exact Hc|constructor]]. Qed.

Lemma recv_next_tokens o inbox : forall w,
  Forall good_cmd inbox ->
  Permutation (w_tokens (recv_next o w inbox))
              (flat_map cmd_inds inbox ++ ents_idx (wq w) ++ ents_idx (wpopped w)) /\
  Forall good_cmd (winbox (recv_next o w inbox)).
Proof.
  induction inbox as [|c r IH]; intros w G.
  - cbn. split; [reflexivity|constructor].
  - inversion G as [|c' r' Gc Gr]; subst. destruct c as [ixs| |s| |]; try contradiction.
    + destruct ixs as [|i ixs]; [exact (IH w Gr)|]. split; [|exact Gr].
      cbn [recv_next]. unfold w_tokens. cbn [upd_recv w_put winbox wrpend wq wpopped flat_map cmd_inds].
      rewrite item_inds_map_idx, ents_idx_app. cbn [ents_idx ent_idx snd].
      permc.
    + split; [|exact Gr]. cbn [recv_next]. unfold w_tokens.
      cbn [upd_recv w_put winbox wrpend wq wpopped flat_map cmd_inds item_inds app].
      rewrite ents_idx_app. cbn [ents_idx ent_idx snd]. rewrite app_nil_r. reflexivity.
    + split; [|exact Gr]. cbn [recv_next]. unfold w_tokens.
      cbn [upd_recv w_put winbox wrpend wq wpopped flat_map cmd_inds item_inds app].
      rewrite ents_idx_app. cbn [ents_idx ent_idx snd]. rewrite app_nil_r. reflexivity.
Qed.

(* (W2) the receiver thread only moves indices from the inbox / the current command into the queue *)
Lemma recv_step_tokens o w :
  Forall good_cmd (winbox w) ->
  Permutation (w_tokens (fst (recv_step o w))) (w_tokens w) /\
  Forall good_cmd (winbox (fst (recv_step o w))).
Proof.
  intros G. unfold recv_step. destruct (negb (wcb w)); [split; [reflexivity|exact G]|].
  cbn [upd_recv wrpend winbox].
  destruct (wrpend w) as [|it rest] eqn:Er; cbn [fst].
  - destruct (recv_next_tokens o (winbox w) (upd_recv w (winbox w) [] None) G) as (P & G').
    split; [|exact G']. rewrite P. unfold w_tokens. rewrite Er. reflexivity.
  - split; [|exact G]. unfold w_tokens. cbn [upd_recv w_put winbox wrpend wq wpopped]. rewrite Er.
    rewrite ents_idx_app, ents_idx_one.
    rewrite (item_inds_cons it rest). permc.
Qed.

Lemma pop_tokens w e q' : wq w = e :: q' -> Permutation (w_tokens (w_pop w e q')) (w_tokens w).
Proof.
  intros Eq. unfold w_tokens. cbn [w_pop winbox wrpend wq wpopped]. rewrite Eq.
  rewrite ents_idx_app. change (e :: q') with ([e] ++ q'). rewrite ents_idx_app.
  permc.
Qed.

(* (W3) the main thread only moves the head of the queue to what it has taken *)
Lemma main_step_tokens o w w' evs :
  main_step o w = Some (w', evs) ->
  Permutation (w_tokens w') (w_tokens w) /\ winbox w' = winbox w.
Proof.
  unfold main_step. destruct (wph w) as [|rest| | |cur|cur nxt|cur nxt script|s|].
  - intros H; inversion H; subst. split; reflexivity.
  - destruct rest as [|[k f] rest]; intros H; inversion H; subst; split; reflexivity.
  - intros H; inversion H; subst. split; reflexivity.
  - destruct (wq w) as [|[t it] q'] eqn:Q.
    + destruct (wcb w); intros H; inversion H; subst. split; reflexivity.
    + destruct it as [i|]; intros H; inversion H; subst; (split; [|reflexivity]).
      * apply (pop_tokens (set_cb w) (t, Idx i) q'). exact Q.
      * apply (pop_tokens (set_cb w) (t, Mark) q'). exact Q.
  - destruct (wq w) as [|nxt q'] eqn:Q; [discriminate|].
    intros H; inversion H; subst. split; [|reflexivity]. apply (pop_tokens w nxt q'). exact Q.
  - intros H; inversion H; subst. split; reflexivity.
  - destruct script as [|e script]; intros H; inversion H; subst; split; reflexivity.
  - intros H; inversion H; subst. split; reflexivity.
  - discriminate.
Qed.

(* what was started is an initial part of what was taken *)
Lemma ents_idx_map_ent (l : list ((nat * nat) * option (nat * nat))) :
  ents_idx (map (fun r => ent (fst r)) l) = map (fun r => snd (fst r)) l.
Proof. induction l as [|r l IH]; cbn; [reflexivity|]. rewrite IH. reflexivity. Qed.

Lemma started_prefix_popped w :
  WInv w -> exists more, ents_idx (wpopped w) = map (fun r => snd (fst r)) (wran w) ++ more.
Proof.
  intros I. destruct (ran_is_pairs w I) as (l & Er & rest & Ep).
  destruct (pairs_ents_prefix l) as (rest' & El).
  exists (ents_idx rest' ++ ents_idx rest). rewrite Ep, Er. rewrite El at 1.
  rewrite !ents_idx_app, ents_idx_map_ent, <- app_assoc. reflexivity.
Qed.

(* ====================================================================================== *)
(* Part 3: the load scheduler                                                              *)
(* ====================================================================================== *)

(* ---- what a load-mode controller ever puts out: CRun / CShutdown sends, no spawn ---- *)
Definition good_out (o : out) : Prop :=
  match o with
  | OSend _ (CRun _) | OSend _ CShutdown => True
  | OSend _ _ => False
  | OHook (HSpawn _ _) => False
  | _ => True
  end.

Section AllOut.
  Variable Q : out -> Prop.
  Definition allout {S A} (m : M S A) : Prop :=
    forall s s' o r, m s = (s', o, r) -> Forall Q o.

  Lemma ao_ret {S A} (a : A) : allout (@ret S A a).
  Proof. intros s s' o r H. inversion H. constructor. Qed.
  Lemma ao_raise {S A} e : allout (@raise S A e).
  Proof. intros s s' o r H. inversion H. constructor. Qed.
  Lemma ao_get {S} : allout (@get S).
  Proof. intros s s' o r H. inversion H. constructor. Qed.
  Lemma ao_put {S} x : allout (@put S x).
  Proof. intros s s' o r H. inversion H. constructor. Qed.
  Lemma ao_massert {S} b : allout (@massert S b).
  Proof. destruct b; [apply ao_ret | apply ao_raise]. Qed.
  Lemma ao_of_opt {S A} (x : option A) e : allout (@of_opt S A x e).
  Proof. destruct x; [apply ao_ret | apply ao_raise]. Qed.
  Lemma ao_emit {S} o : Q o -> allout (@emit S o).
  Proof. intros Ho s s' o' r H. inversion H. constructor; [exact Ho|constructor]. Qed.
  Lemma ao_bind {S A B} (m : M S A) (f : A -> M S B) :
    allout m -> (forall a, allout (f a)) -> allout (mbind m f).
  Proof.
    intros Hm Hf s s' o r H. unfold mbind in H.
    destruct (m s) as [[s1 o1] r1] eqn:E1. specialize (Hm _ _ _ _ E1).
    destruct r1 as [a|e].
    - destruct (f a s1) as [[s2 o2] r2] eqn:E2. inversion H; subst.
      apply Forall_app. split; [exact Hm | exact (Hf a _ _ _ _ E2)].
    - inversion H; subst. exact Hm.
  Qed.
  Lemma ao_mfor {S A} (l : list A) (f : A -> M S unit) :
    (forall a, allout (f a)) -> allout (mfor l f).
  Proof.
    intros Hf. induction l as [|x l IH]; cbn [mfor]; [apply ao_ret|].
    apply ao_bind; [apply Hf | intros _; exact IH].
  Qed.
End AllOut.

Ltac ao Q :=
  repeat first
    [ apply (ao_ret Q) | apply (ao_raise Q) | apply (ao_get Q) | apply (ao_put Q)
    | apply (ao_massert Q) | apply (ao_of_opt Q)
    | apply (ao_emit Q); exact I
    | apply (ao_mfor Q); intros
    | apply (ao_bind Q); [|intros]
    | progress cbv zeta
    | match goal with
      | |- allout _ (match ?x with _ => _ end) => destruct x
      | |- allout _ (if ?x then _ else _) => destruct x
      | |- allout _ (let '(_, _) := ?x in _) => destruct x
      end
    | assumption ].

Section GoNodes.
  Context {S : Type} (nt_of : S -> ntable) (set_nt : S -> ntable -> S).
  Lemma go_node_flags n : allout good_out (node_flags nt_of n).
  Proof. unfold node_flags. ao good_out. Qed.
  Lemma go_node_sd n : allout good_out (node_shutting_down nt_of n).
  Proof. unfold node_shutting_down. ao good_out; apply go_node_flags. Qed.
  Lemma go_node_send_run n ixs : allout good_out (node_send nt_of n (CRun ixs)).
  Proof. unfold node_send. ao good_out; apply go_node_flags. Qed.
  Lemma go_node_send_sd n : allout good_out (node_send nt_of n CShutdown).
  Proof. unfold node_send. ao good_out; apply go_node_flags. Qed.
  Lemma go_node_shutdown n : allout good_out (node_shutdown nt_of set_nt n).
  Proof. unfold node_shutdown. ao good_out; try apply go_node_flags; try apply go_node_send_sd. Qed.
End GoNodes.

Ltac gol := ao good_out; try apply go_node_flags; try apply go_node_sd; try apply go_node_send_run;
            try apply go_node_send_sd; try apply go_node_shutdown.

Lemma go_l_send_tests n num : allout good_out (l_send_tests n num).
Proof. unfold l_send_tests. gol. Qed.
Lemma go_l_check_schedule n d : allout good_out (l_check_schedule n d).
Proof. unfold l_check_schedule. gol; apply go_l_send_tests. Qed.
Lemma go_l_round_robin fuel all cur : allout good_out (l_round_robin fuel all cur).
Proof.
  revert cur. induction fuel as [|f IH]; intros cur; cbn [l_round_robin]; [apply ao_ret|].
  destruct cur as [|n r]; [destruct all as [|n r]; [apply ao_raise|]|];
    (apply ao_bind; [apply go_l_send_tests | intros _; apply IH]).
Qed.
Lemma go_l_same : allout good_out l_same_collection.
Proof. unfold l_same_collection. gol. Qed.
Lemma go_l_schedule : allout good_out l_schedule.
Proof.
  unfold l_schedule. gol; try apply go_l_check_schedule; try apply go_l_same;
    try apply go_l_round_robin; try apply go_l_send_tests.
Qed.
Lemma go_l_add_node n : allout good_out (l_add_node n).
Proof. unfold l_add_node. gol. Qed.
Lemma go_l_add_coll n c : allout good_out (l_add_node_collection n c).
Proof. unfold l_add_node_collection. gol. Qed.
Lemma go_l_complete n i d : allout good_out (l_mark_test_complete n i d).
Proof. unfold l_mark_test_complete. gol; try apply go_l_check_schedule. Qed.
Lemma go_l_pending it : allout good_out (l_mark_test_pending it).
Proof. unfold l_mark_test_pending. gol; try apply go_l_check_schedule. Qed.
Lemma go_l_remove n : allout good_out (l_remove_node n).
Proof. unfold l_remove_node. gol; try apply go_l_check_schedule. Qed.

(* ---- the scheduler-state invariant and the transition relation ---- *)
Definition noemp (ls : lstate) : Prop :=
  (forall c, l_coll ls = Some c -> ~ In ""%string c) /\
  (forall n ids, In (n, ids) (l_n2c ls) -> ~ In ""%string ids).

(* every channel open, no empty test id known, and before the initial distribution the pool and
   all books are empty *)
Definition LI (ls : lstate) : Prop :=
  all_open (l_nt ls) /\ noemp ls /\ (l_coll ls = None -> l_pending ls = [] /\ books ls = []).

(* the pool, with "everything" standing for the pool before the initial distribution *)
Definition vp (coll : list string) (ls : lstate) : list nat :=
  match l_coll ls with None => seq 0 (length coll) | Some _ => l_pending ls end.

(* what is sent is exactly a prefix taken out of the (virtual) pool *)
Definition LT (ls ls' : lstate) (o : list out) : Prop :=
  (forall c, l_coll ls = Some c -> l_coll ls' = Some c) /\
  (l_coll ls' = None -> sent_inds o = []) /\
  (forall coll, l_coll ls' = Some coll -> vp coll ls = sent_inds o ++ vp coll ls').

Lemma LT_refl ls : LT ls ls [].
Proof. split; [auto|]. split; [reflexivity|]. intros coll _. reflexivity. Qed.

Lemma LT_trans a b c o1 o2 : LT a b o1 -> LT b c o2 -> LT a c (o1 ++ o2).
Proof.
  intros (A1 & A2 & A3) (B1 & B2 & B3). split; [|split].
  - intros c0 H. apply B1, A1, H.
  - intros H. rewrite sent_inds_app, (B2 H). destruct (l_coll b) as [cb|] eqn:Eb.
    + rewrite (B1 _ eq_refl) in H. discriminate.
    + rewrite (A2 eq_refl). reflexivity.
  - intros coll H. rewrite sent_inds_app, <- app_assoc, <- (B3 coll H).
    destruct (l_coll b) as [cb|] eqn:Eb.
    + assert (cb = coll) by (pose proof (B1 _ eq_refl) as X; congruence). subst cb. apply A3. reflexivity.
    + rewrite (A2 eq_refl). cbn [app]. unfold vp. rewrite Eb.
      destruct (l_coll a) as [ca|] eqn:Ea; [|reflexivity]. specialize (A1 _ eq_refl). discriminate.
Qed.

Lemma LT_keep ls ls' o :
  LI ls -> l_coll ls' = l_coll ls -> l_pending ls = sent_inds o ++ l_pending ls' -> LT ls ls' o.
Proof.
  intros (_ & _ & I0) Ec Ep. split; [|split].
  - intros c H. congruence.
  - intros H. rewrite Ec in H. destruct (I0 H) as (P0 & _). rewrite P0 in Ep.
    symmetry in Ep. apply app_eq_nil in Ep. tauto.
  - intros coll H. unfold vp. rewrite H. rewrite Ec in H. rewrite H. exact Ep.
Qed.

Lemma in_aset {V} n (v : V) m k x : In (k, x) (aset n v m) -> (k = n /\ x = v) \/ In (k, x) m.
Proof.
  induction m as [|[k' v'] m IH]; cbn.
  - intros [E|[]]. inversion E. auto.
  - destruct (Nat.eqb n k') eqn:E.
    + apply Nat.eqb_eq in E. subst k'. intros [H|H]; [inversion H; auto|auto].
    + intros [H|H]; [auto|]. destruct (IH H); auto.
Qed.

Lemma in_adel {V} n (m : amap V) x : In x (adel n m) -> In x m.
Proof.
  induction m as [|[k' v'] m IH]; cbn; [auto|].
  destruct (Nat.eqb n k'); [auto|]. intros [H|H]; auto.
Qed.

Lemma flat_snd_aset_new n (m : amap (list nat)) :
  aget n m = None -> flat_map snd (aset n [] m) = flat_map snd m.
Proof.
  induction m as [|[k v] m IH]; cbn; intros E; [reflexivity|].
  destruct (Nat.eqb n k); [discriminate|]. cbn. rewrite IH by exact E. reflexivity.
Qed.

(* add_node *)
Lemma l_add_node_LS n s s' outs :
  l_add_node n s = (s', outs, Ok tt) -> LI s -> LI s' /\ LT s s' outs.
Proof.
  intros H I. unfold l_add_node, mbind, get, put, massert, ahas in H. cbn beta iota zeta in H.
  destruct (aget n (l_n2p s)) eqn:E; cbn in H; inv H.
  assert (Eb : books (l_set_n2p s (aset n [] (l_n2p s))) = books s).
  { unfold books. cbn [l_n2p l_set_n2p]. apply flat_snd_aset_new. exact E. }
  split.
  - destruct I as (I1 & I2 & I3). split; [exact I1|]. split; [exact I2|].
    cbn [l_coll l_set_n2p l_pending]. intros Hc. rewrite Eb. apply I3. exact Hc.
  - apply LT_keep; [exact I|reflexivity|reflexivity].
Qed.

(* add_node_collection *)
Lemma l_add_coll_LS n coll s s' outs :
  l_add_node_collection n coll s = (s', outs, Ok tt) -> ~ In ""%string coll -> LI s ->
  LI s' /\ LT s s' outs.
Proof.
  intros H Hc I.
  assert (PUT : LI (l_set_n2c s (aset n coll (l_n2c s))) /\ LT s (l_set_n2c s (aset n coll (l_n2c s))) []).
  { split; [|apply LT_keep; [exact I|reflexivity|reflexivity]].
    destruct I as (I1 & (N1 & N2) & I3). split; [exact I1|]. split; [|exact I3].
    split; [exact N1|]. cbn [l_n2c l_set_n2c]. intros k ids Hin.
    apply in_aset in Hin. destruct Hin as [(_ & ->)|Hin]; [exact Hc|eapply N2; eauto]. }
  unfold l_add_node_collection, mbind, get, put, massert, of_opt, ret, raise, emit in H.
  cbn beta iota zeta in H.
  destruct (ahas n (l_n2p s)); cbn beta iota zeta in H; [|discriminate].
  destruct (l_collection_is_completed s).
  - destruct (l_coll s) as [[|c0 cr]|]; try discriminate.
    destruct (coll_eqb coll (c0 :: cr)).
    + inv H. exact PUT.
    + destruct (first_key (l_n2c s)); cbn beta iota zeta in H; [|discriminate].
      destruct (node_shutdown l_nt l_set_nt n s) as [[s2 o2] r2] eqn:Esd.
      destruct r2 as [[]|e]; inv H.
      apply node_shutdown_effect in Esd. destruct Esd as (Ep & Eb & (Kc & Kn & _) & Es & _ & Ho).
      pose proof I as I0. destruct I as (I1 & (N1 & N2) & I3). split.
      * split; [auto|]. split; [split; intros; [rewrite Kc in *|rewrite Kn in *]; eauto|].
        rewrite Kc, Ep. unfold books. rewrite Eb. exact I3.
      * apply LT_keep; [exact I0|exact Kc|].
        rewrite Ep. unfold sent_inds in *. cbn [flat_map run_inds app]. rewrite Es. reflexivity.
  - inv H. exact PUT.
Qed.

(* schedule(), first call: the collection is fixed, the pool becomes 0..len-1 and a prefix of
   it is sent (script after LoadProofs.l_schedule_L8, with the extra facts needed here) *)
Lemma l_schedule_first s s' outs :
  l_schedule s = (s', outs, Ok tt) -> l_coll s = None -> l_pending s = [] -> books s = [] ->
  all_open (l_nt s) ->
  all_open (l_nt s') /\ l_n2c s' = l_n2c s /\
  ((s' = s /\ sent_inds outs = []) \/
   (exists k coll others, l_n2c s = (k, coll) :: others /\ l_coll s' = Some coll /\
      seq 0 (length coll) = sent_inds outs ++ l_pending s')).
Proof.
  intros H Ec Ep Eb Ho. unfold l_schedule in H.
  mbo H t0 p0 a0 uu0 Hg. unfold get in Hg. injection Hg as <- <- <-. cbn [app].
  mbo H t1 p1 a1 uu1 Ha.
  assert (E1 : t1 = s /\ p1 = []).
  { destruct (l_collection_is_completed s); unfold massert, ret, raise in Ha; inv Ha; auto. }
  destruct E1 as (-> & ->). cbn [app]. clear Ha.
  rewrite Ec in H.
  mbo H t2 p2 same uu2 Hs. apply l_same_collection_effect in Hs. destruct Hs as (-> & Es).
  rewrite sent_inds_app, Es. cbn [app].
  destruct same; cbn [negb] in H.
  2:{ unfold ret in H. inv H. split; [exact Ho|]. split; [reflexivity|]. left. auto. }
  mbo H t3 p3 a3 uu3 Hg. unfold get in Hg. injection Hg as <- <- <-. cbn [app].
  mbo H t4 p4 coll uu4 Ho4.
  destruct (l_n2c s) as [|[k c] others] eqn:En2c; cbn in Ho4; [discriminate|]. injection Ho4 as <- <- <-. cbn [app].
  mbo H t5 p5 a5 uu5 Hp. unfold put in Hp. injection Hp as <- <- <-. cbn [app].
  destruct c as [|c0 cr].
  { unfold ret in H. inv H. cbn [l_nt l_set_pending l_set_coll l_n2c l_coll l_pending length seq].
    split; [exact Ho|]. split; [exact En2c|]. right. exists k, [], others. auto. }
  set (coll := c0 :: cr) in *.
  set (s1 := l_set_pending (l_set_coll s (Some coll)) (seq 0 (length coll))) in *.
  mbo H t6 p6 a6 uu6 Hg. unfold get in Hg. injection Hg as <- <- <-. cbn [app].
  mbo H t7 p7 a7 uu7 Hp. unfold put in Hp. injection Hp as <- <- <-. cbn [app].
  mbo H t8 p8 a8 uu8 Hg. unfold get in Hg. injection Hg as <- <- <-. cbn [app].
  match type of H with context [l_set_chunk s1 (Some ?ch)] => set (chunk := ch) in * end.
  set (s3 := l_set_chunk s1 (Some chunk)) in *.
  mbo H t9 p9 a9 uu9 Hmid.
  mbo H t10 p10 a10 uu10 Hg. unfold get in Hg. injection Hg as <- <- <-. cbn [app].
  assert (Hok : step_ok s3 t9 p9).
  { destruct a9. destruct (zlen (l_pending s3) <? 2 * zlen (l_nodes s3))%Z.
    - eapply l_round_robin_step_ok. exact Hmid.
    - destruct (zlen (l_n2p s3) =? 0)%Z; [unfold raise in Hmid; inv Hmid|].
      eapply mfor_send_tests_step_ok. exact Hmid. }
  assert (Hq : LoadProofs.quiet t9 s' uu10).
  { destruct (l_pending t9).
    - eapply mfor_shutdown_quiet. exact H.
    - unfold ret in H. inv H. apply quiet_refl. }
  clear H Hmid.
  destruct Hok as (_ & (Kc & Kn & _) & Hx).
  destruct Hq as (Qp & Qb & (Qc & Qn & _) & Qs & Qo).
  destruct (Hx Ho) as (Ho9 & Ex).
  split; [apply Qo; exact Ho9|]. split; [rewrite Qn, Kn; exact En2c|].
  right. exists k, coll, others. split; [reflexivity|]. split; [rewrite Qc, Kc; reflexivity|].
  rewrite sent_inds_app, Qs, app_nil_r, Qp. exact Ex.
Qed.

Lemma l_schedule_LS s s' outs :
  l_schedule s = (s', outs, Ok tt) -> LI s -> LI s' /\ LT s s' outs.
Proof.
  intros H I.
  destruct (l_coll s) as [coll|] eqn:Ec; pose proof I as (I1 & (N1 & N2) & I3).
  - destruct (l_schedule_again _ _ _ _ H Ec) as ((_ & (Kc & Kn & _) & Hx) & _).
    destruct (Hx I1) as (Ho' & Ep). split.
    + split; [exact Ho'|]. split; [split; intros; [rewrite Kc in *|rewrite Kn in *]; eauto|].
      intros Hn. rewrite Kc, Ec in Hn. discriminate.
    + apply LT_keep; [exact I|congruence|exact Ep].
  - destruct (I3 Ec) as (P0 & B0).
    destruct (l_schedule_first _ _ _ H Ec P0 B0 I1) as (Ho' & En & [(-> & Es)|(k & coll & others & E2 & Ec' & Ep)]).
    + split; [exact I|]. split; [auto|]. split; [intros _; exact Es|].
      intros coll Hc. congruence.
    + split.
      * split; [exact Ho'|]. split; [|intros Hn; congruence].
        split; [|rewrite En; exact N2]. intros c Hc. rewrite Ec' in Hc. inv Hc.
        apply (N2 k). rewrite E2. left. reflexivity.
      * split; [intros c Hc; congruence|]. split; [intros Hn; congruence|].
        intros coll' Hc. rewrite Ec' in Hc. inv Hc. unfold vp. rewrite Ec, Ec'. exact Ep.
Qed.

(* mark_test_complete *)
Lemma l_complete_LS n idx dur s s' outs :
  l_mark_test_complete n idx dur s = (s', outs, Ok tt) -> LI s -> LI s' /\ LT s s' outs.
Proof.
  intros H I. pose proof I as (I1 & (N1 & N2) & I3).
  pose proof (l_mark_test_complete_keeps _ _ _ _ _ _ _ H) as (Kc & Kn & _).
  assert (Hc : chan_open n s) by (intros c; apply I1).
  destruct (l_mark_test_complete_L5_open _ _ _ _ _ _ H Hc) as (Pm & Ep).
  assert (Ho' : all_open (l_nt s')).
  { apply l_mark_test_complete_cases in H.
    destruct H as [(_ & _ & _ & F)|[(cur & _ & _ & _ & _ & F)|(cur & cur' & _ & _ & H)]]; try discriminate.
    apply l_check_schedule_all_open in H. apply H. exact I1. }
  split.
  - split; [exact Ho'|]. split; [split; intros; [rewrite Kc in *|rewrite Kn in *]; eauto|].
    intros Hn. rewrite Kc in Hn. destruct (I3 Hn) as (P0 & B0). exfalso.
    unfold tokens in Pm at 2. rewrite P0, B0 in Pm. cbn in Pm.
    apply Permutation_sym, Permutation_nil in Pm. discriminate.
  - apply LT_keep; [exact I|exact Kc|exact Ep].
Qed.

(* remove_node: an empty book changes nothing; a non-empty book yields a non-empty crash item *)
Lemma l_remove_LS n s s' outs v :
  l_remove_node n s = (s', outs, Ok v) -> LI s ->
  (v = None /\ outs = [] /\ LI s' /\ LT s s' []) \/ (exists item, v = Some item /\ item <> ""%string).
Proof.
  intros H I. pose proof I as (I1 & (N1 & N2) & I3). apply l_remove_node_cases in H.
  destruct (rm_state_fields n s) as (Fp & Fq & Fc & Fn & _).
  destruct H as [(_ & _ & _ & F)|[(Ep & -> & -> & Ev)|(i & rest & Ep & H)]]; [discriminate| |].
  - inv Ev. left. split; [reflexivity|]. split; [reflexivity|]. split.
    + split; [rewrite Fn; exact I1|]. split.
      * split; [rewrite Fc; exact N1|]. intros k ids Hin. apply (N2 k ids).
        unfold rm_state in Hin. cbv zeta in Hin.
        destruct (l_collection_is_completed (l_set_n2p s (adel n (l_n2p s)))); cbn in Hin; [exact Hin|].
        eapply in_adel; eauto.
      * rewrite Fc, Fq. unfold books. rewrite Fp, (flat_snd_adel_nil _ _ Ep). exact I3.
    + apply LT_keep; [exact I|exact Fc|rewrite Fq; reflexivity].
  - right. destruct H as [(_ & _ & _ & F)|[(c' & _ & _ & _ & _ & F)|(c' & item & r0 & Ec' & En' & _ & Hr)]];
      try discriminate.
    destruct r0 as [[]|e]; [|discriminate]. inv Hr. exists item. split; [reflexivity|].
    intros ->. apply (N1 _ Ec'). eapply nth_error_In; eauto.
Qed.

(* ====================================================================================== *)
(* Part 4: the controller (DSession) in load mode                                          *)
(* ====================================================================================== *)
Definition DI (d : dstate) : Prop := exists ls, d_sched d = StL ls /\ LI ls.

Definition DT (d d' : dstate) (o : list out) : Prop :=
  forall ls, d_sched d = StL ls -> LI ls ->
  exists ls', d_sched d' = StL ls' /\ LI ls' /\ LT ls ls' o /\ Forall good_out o.

Lemma DT_refl d : DT d d [].
Proof. intros ls E I. exists ls. split; [exact E|]. split; [exact I|]. split; [apply LT_refl|constructor]. Qed.

Lemma DT_trans a b c o1 o2 : DT a b o1 -> DT b c o2 -> DT a c (o1 ++ o2).
Proof.
  intros H1 H2 ls E I. destruct (H1 ls E I) as (ls1 & E1 & I1 & T1 & G1).
  destruct (H2 ls1 E1 I1) as (ls2 & E2 & I2 & T2 & G2).
  exists ls2. split; [exact E2|]. split; [exact I2|]. split; [eapply LT_trans; eauto|apply Forall_app; auto].
Qed.

Lemma DT_same d d' : d_sched d' = d_sched d -> DT d d' [].
Proof.
  intros Es ls E I. exists ls. rewrite Es. split; [exact E|]. split; [exact I|]. split; [apply LT_refl|constructor].
Qed.

Lemma LT_quiet ls o : sent_inds o = [] -> LT ls ls o.
Proof. intros Hs. split; [auto|]. split; [auto|]. intros coll _. rewrite Hs. reflexivity. Qed.

Definition okfrom {A} (d0 : dstate) (m : D A) : Prop :=
  forall d' o a, m d0 = (d', o, Ok a) -> DT d0 d' o.

Lemma ok_ret {A} d0 (a : A) : okfrom d0 (ret a).
Proof. intros d' o x H. inversion H; subst. apply DT_refl. Qed.
Lemma ok_raise {A} d0 e : okfrom d0 (@raise dstate A e).
Proof. intros d' o x H. inversion H. Qed.
Lemma ok_massert d0 b : okfrom d0 (@massert dstate b).
Proof. destruct b; [apply ok_ret|apply ok_raise]. Qed.
Lemma ok_of_opt {A} d0 (x : option A) e : okfrom d0 (@of_opt dstate A x e).
Proof. destruct x; [apply ok_ret|apply ok_raise]. Qed.
Lemma ok_emit d0 o : good_out o -> run_inds o = [] -> okfrom d0 (@emit dstate o).
Proof.
  intros Hg Hr d' o' x H. inversion H; subst. intros ls E I. exists ls.
  split; [exact E|]. split; [exact I|]. split; [|constructor; [exact Hg|constructor]].
  apply LT_quiet. unfold sent_inds. cbn [flat_map]. rewrite Hr. reflexivity.
Qed.
Lemma ok_put d0 d1 : d_sched d1 = d_sched d0 -> okfrom d0 (put d1).
Proof. intros Hs d' o x H. inversion H; subst. apply DT_same. exact Hs. Qed.
Lemma ok_bind {A B} d0 (m : D A) (f : A -> D B) :
  okfrom d0 m -> (forall a d1, okfrom d1 (f a)) -> okfrom d0 (mbind m f).
Proof.
  intros Hm Hf d' o x H. unfold mbind in H.
  destruct (m d0) as [[d1 o1] r1] eqn:E1. destruct r1 as [a|e]; [|inversion H].
  destruct (f a d1) as [[d2 o2] r2] eqn:E2. inversion H; subst.
  eapply DT_trans; [eapply Hm; eauto|eapply Hf; eauto].
Qed.
Lemma ok_get {B} d0 (k : dstate -> D B) : okfrom d0 (k d0) -> okfrom d0 (mbind get k).
Proof.
  intros Hk d' o x H. unfold mbind, get in H.
  destruct (k d0 d0) as [[d2 o2] r2] eqn:E2. inversion H; subst. apply (Hk _ _ _ E2).
Qed.
Lemma ok_mfor {A} (l : list A) (f : A -> D unit) : (forall a d, okfrom d (f a)) -> forall d0, okfrom d0 (mfor l f).
Proof.
  intros Hf. induction l as [|x l IH]; intros d0; cbn [mfor]; [apply ok_ret|].
  apply ok_bind; [apply Hf|intros _ d1; apply IH].
Qed.

(* ---- scheduler calls ---- *)
Definition good_op (op : sop) : Prop :=
  match op with
  | SAddNode _ | SSchedule | SComplete _ _ _ | SUnsched _ _ => True
  | SAddColl _ ids => ~ In ""%string ids
  | _ => False
  end.

Lemma lift_ok {S A B} (wrap : S -> sstate) (f : A -> B) (x : S * list out * result A) st' o v :
  lift wrap f x = (st', o, Ok v) -> exists s1 a, x = (s1, o, Ok a) /\ st' = wrap s1 /\ v = f a.
Proof.
  destruct x as [[s1 o1] [a|e]]; cbn; intros H; inversion H; subst. exists s1, a. auto.
Qed.

Lemma ok_sched_op op d0 : good_op op -> okfrom d0 (d_sched_op op).
Proof.
  intros Hop d' o v H ls Els I. unfold d_sched_op in H. rewrite Els in H.
  destruct (s_step (StL ls) op) as [[st' o1] r1] eqn:E. inversion H; subst. clear H.
  destruct op; cbn [good_op] in Hop; try contradiction; cbn [s_step] in E.
  - apply lift_ok in E. destruct E as (s1 & [] & E & -> & _). exists s1. split; [reflexivity|].
    destruct (l_add_node_LS _ _ _ _ E I) as (I' & T). split; [exact I'|]. split; [exact T|].
    eapply go_l_add_node; eauto.
  - apply lift_ok in E. destruct E as (s1 & [] & E & -> & _). exists s1. split; [reflexivity|].
    destruct (l_add_coll_LS _ _ _ _ _ E Hop I) as (I' & T). split; [exact I'|]. split; [exact T|].
    eapply go_l_add_coll; eauto.
  - apply lift_ok in E. destruct E as (s1 & [] & E & -> & _). exists s1. split; [reflexivity|].
    destruct (l_schedule_LS _ _ _ E I) as (I' & T). split; [exact I'|]. split; [exact T|].
    eapply go_l_schedule; eauto.
  - apply lift_ok in E. destruct E as (s1 & [] & E & -> & _). exists s1. split; [reflexivity|].
    destruct (l_complete_LS _ _ _ _ _ _ E I) as (I' & T). split; [exact I'|]. split; [exact T|].
    eapply go_l_complete; eauto.
  - discriminate.
Qed.

Lemma ok_remove_assert n d0 :
  okfrom d0 (r <- d_sched_op (SRemove n) ;;
             massert (match r with None => true | Some s => String.eqb s "" end)).
Proof.
  intros d' o v H ls Els I. unfold mbind in H.
  destruct (d_sched_op (SRemove n) d0) as [[d1 o1] r1] eqn:E1.
  destruct r1 as [r|e]; [|discriminate].
  unfold d_sched_op in E1. rewrite Els in E1.
  destruct (s_step (StL ls) (SRemove n)) as [[st' o2] r2] eqn:E. inversion E1; subst. clear E1.
  cbn [s_step] in E. apply lift_ok in E. destruct E as (s1 & a & E & -> & ->).
  destruct (l_remove_LS _ _ _ _ _ E I) as [(-> & -> & I' & T)|(item & -> & Hne)].
  - cbn in H. inversion H; subst. exists s1. split; [reflexivity|]. split; [exact I'|].
    split; [exact T|constructor].
  - assert (Eq : String.eqb item "" = false) by (apply String.eqb_neq; exact Hne).
    rewrite Eq in H. cbn in H. discriminate.
Qed.

(* ---- node.shutdown() ---- *)
Lemma d_sched_set_nt d v : d_sched (d_set_nt d v) = s_set_nt (d_sched d) v.
Proof. reflexivity. Qed.

Lemma all_open_aset n v nt : all_open nt -> n_closed v = false -> all_open (aset n v nt).
Proof.
  intros Ho Hv k c. rewrite LoadProofs.aget_aset. destruct (Nat.eqb k n); [|apply Ho].
  intros E. inversion E; subst. exact Hv.
Qed.

Lemma LI_set_nt ls v : LI ls -> all_open v -> LI (l_set_nt ls v).
Proof. intros (I1 & I2 & I3) Hv. split; [exact Hv|]. split; [exact I2|exact I3]. Qed.

Lemma d_node_shutdown_cases n d d' o r :
  d_node_shutdown n d = (d', o, r) ->
  (d' = d /\ o = []) \/
  (exists f, aget n (d_nt d) = Some f /\ d' = d_set_nt d (aset n (sd_mark f) (d_nt d)) /\
             (o = [] \/ o = [OSend n CShutdown])).
Proof.
  intros H. unfold d_node_shutdown, node_shutdown, node_send, node_flags, mbind, get, put, of_opt, ret, raise, emit in H.
  cbn -[aset aget] in H.
  destruct (aget n (d_nt d)) as [c|] eqn:En; cbn -[aset aget] in H; [|inversion H; auto].
  destruct (n_down c || n_sdsent c) eqn:Esd; cbn -[aset aget] in H; [inversion H; auto|].
  rewrite En in H. cbn -[aset aget] in H.
  destruct (n_closed c) eqn:Ecl; cbn -[aset aget] in H; inversion H; subst; right; exists c;
    (split; [reflexivity|]); (split; [unfold sd_mark; rewrite Ecl; reflexivity|]); auto.
Qed.

Lemma ok_node_shutdown n d0 : okfrom d0 (d_node_shutdown n).
Proof.
  intros d' o v H. apply d_node_shutdown_cases in H.
  destruct H as [(-> & ->)|(f & Ef & -> & Ho)]; [apply DT_refl|].
  intros ls Els I. rewrite d_sched_set_nt, Els. cbn [s_set_nt].
  eexists. split; [reflexivity|].
  assert (Hnt : d_nt d0 = l_nt ls) by (unfold d_nt; rewrite Els; reflexivity).
  split.
  - apply LI_set_nt; [exact I|]. rewrite Hnt. apply all_open_aset; [apply I|].
    cbn. rewrite Hnt in Ef. destruct I as (I1 & _). exact (I1 _ _ Ef).
  - split.
    + assert (Es : sent_inds o = []) by (destruct Ho as [->| ->]; reflexivity).
      split; [auto|]. split; [auto|]. intros coll Hc. rewrite Es. reflexivity.
    + destruct Ho as [->| ->]; repeat constructor.
Qed.

Lemma ok_triggershutdown d0 : okfrom d0 d_triggershutdown.
Proof.
  unfold d_triggershutdown. apply ok_get. destruct (d_shuttingdown d0); [apply ok_ret|].
  apply ok_bind; [apply ok_put; reflexivity|intros _ d1].
  apply ok_mfor. intros n d. apply ok_node_shutdown.
Qed.

Lemma ok_active_remove n d0 : okfrom d0 (d_active_remove n).
Proof.
  unfold d_active_remove. apply ok_get. destruct (mem_nat n (d_active d0)); [|apply ok_raise].
  apply ok_put. reflexivity.
Qed.

Lemma ok_handlefailures f d0 : okfrom d0 (d_handlefailures f).
Proof.
  unfold d_handlefailures. destruct (negb f); [apply ok_ret|].
  apply ok_get. apply ok_bind; [apply ok_put; reflexivity|intros _ d1].
  apply ok_get. destruct (_ && _); [apply ok_put; reflexivity|apply ok_ret].
Qed.

Lemma ok_hook h d0 : good_out (OHook h) -> okfrom d0 (hook h).
Proof. intros Hg. unfold hook. apply ok_emit; [exact Hg|reflexivity]. Qed.

(* events that occur in a run without worker failure (and with non-empty test ids) *)
Definition ok_ev (ev : cevent) : Prop :=
  match ev with
  | QErrorDown _ => False
  | QFinished _ SKKbd => False
  | QCollFinish _ ids => ~ In ""%string ids
  | _ => True
  end.

Lemma ok_handle ev d0 : ok_ev ev -> okfrom d0 (d_handle ev).
Proof.
  destruct ev as [n|n ids|n key fl|n i|n i|n i k oc|n i ms|n ixs| |n|n sk|n]; cbn [ok_ev d_handle]; intros Hev;
    try contradiction.
  - apply ok_bind; [apply ok_hook; exact I|intros _ d1]. apply ok_get.
    destruct (d_shuttingdown d1); [apply ok_node_shutdown|].
    apply ok_bind; [apply ok_sched_op; exact I|intros _ d2; apply ok_ret].
  - apply ok_get. destruct (d_shuttingdown d0); [apply ok_ret|].
    destruct (negb (mem_nat n (s_nodes (d_sched d0)))); [apply ok_ret|].
    apply ok_bind; [apply ok_hook; exact I|intros _ d1].
    apply ok_bind; [apply ok_sched_op; exact Hev|intros _ d2].
    apply ok_get. destruct (s_collection_is_completed (d_sched d2)); [|apply ok_ret].
    apply ok_bind; [apply ok_sched_op; exact I|intros _ d3; apply ok_ret].
  - apply ok_get. destruct (mem_nat key (d_collect_seen d0)); [apply ok_ret|].
    apply ok_bind; [apply ok_put; reflexivity|intros _ d1].
    apply ok_bind; [apply ok_hook; exact I|intros _ d2]. apply ok_handlefailures.
  - apply ok_hook. exact I.
  - apply ok_hook. exact I.
  - apply ok_bind; [apply ok_hook; exact I|intros _ d1]. apply ok_handlefailures.
  - apply ok_bind; [apply ok_sched_op; exact I|intros _ d2; apply ok_ret].
  - apply ok_bind; [apply ok_sched_op; exact I|intros _ d2; apply ok_ret].
  - apply ok_hook. exact I.
  - apply ok_bind; [apply ok_active_remove|intros _ d1]. apply ok_hook. exact I.
  - unfold d_worker_workerfinished. apply ok_bind; [apply ok_hook; exact I|intros _ d1].
    destruct sk; try contradiction.
    + apply ok_get. apply ok_bind; [|intros _ d2; apply ok_active_remove].
      destruct (mem_nat n (s_nodes (d_sched d1))); [apply ok_remove_assert|apply ok_ret].
    + apply ok_bind; [|intros _ d2; apply ok_active_remove].
      apply ok_get. destruct (d_shouldstop d1); [apply ok_ret|apply ok_put; reflexivity].
Qed.

Lemma ok_loop_once ev d0 : ok_ev ev -> okfrom d0 (d_loop_once ev).
Proof.
  intros Hev. unfold d_loop_once.
  apply ok_bind; [apply ok_handle; exact Hev|intros _ d1].
  apply ok_bind; [|intros _ d2].
  - apply ok_get. destruct (s_tests_finished (d_sched d1)); [apply ok_triggershutdown|apply ok_ret].
  - apply ok_get. destruct (d_shouldstop d2); [apply ok_triggershutdown|apply ok_ret].
Qed.

(* whatever the outcome, no replacement worker is spawned without a death *)
Lemma ok_ev_not_death ev : ok_ev ev -> death_event ev = false.
Proof. destruct ev as [| | | | | | | | | |n sk|]; cbn; try tauto. destruct sk; tauto. Qed.

Lemma loop_once_nospawn ev d d' o r :
  ok_ev ev -> d_loop_once ev d = (d', o, r) -> Forall (fun x => is_spawn x = false) o.
Proof.
  intros Hev H. apply ok_ev_not_death in Hev. unfold d_loop_once in H.
  assert (Q : DSessionProofs.quiet (d_handle ev ;;;
                     (d0 <- get ;; if s_tests_finished (d_sched d0) then d_triggershutdown else ret tt) ;;;
                     (d0 <- get ;; if d_shouldstop d0 then d_triggershutdown else ret tt))).
  { apply (dspec_bind _ _ same_budget_trans); [apply quiet_handle; exact Hev|intros _].
    apply (dspec_bind _ _ same_budget_trans); [intros d0; qs; apply quiet_triggershutdown|].
    intros _ d0. qs. apply quiet_triggershutdown. }
  destruct (Q _ _ _ _ H) as (_ & F). eapply Forall_impl; [|exact F]. intros x (X & _). exact X.
Qed.

Lemma no_active_nospawn d d' o r :
  d_no_active d = (d', o, r) -> Forall (fun x => is_spawn x = false) o.
Proof.
  intros H. destruct (quiet_no_active _ _ _ _ H) as (_ & F).
  eapply Forall_impl; [|exact F]. intros x (X & _). exact X.
Qed.

(* ---- no undecodable report ---- *)
(* A garbled report is a worker failure as far as the controller is concerned: the receiver
   thread writes the worker off (shutdown, errordown, crash report for the head of its book,
   replacement), although the worker lives on and keeps running what it was given.  A run
   "without worker failure" therefore also excludes garbled reports. *)
Definition no_garbled (c : config) : Prop :=
  forall n i, ~ In Garbled (reports_of (c_oracle c n) i).

(* the protocol script of the running test holds no garbled report *)
Definition nogarb (w : wst) : Prop :=
  match wph w with PRun _ _ sc => Forall (fun e => is_garbled e = false) sc | _ => True end.

Lemma nogarb_ph a b : wph a = wph b -> nogarb b -> nogarb a.
Proof. unfold nogarb. intros ->. auto. Qed.

Lemma script_of_nogarb o i :
  ~ In Garbled (reports_of o i) -> Forall (fun e => is_garbled e = false) (tl (script_of o i)).
Proof.
  intros Hn. unfold script_of. cbn [app tl]. apply Forall_app. split; [|repeat constructor].
  apply Forall_forall. intros e Hin. apply in_map_iff in Hin. destruct Hin as ([k oc] & <- & Hp).
  apply in_combine_r in Hp. cbn [fst snd is_garbled]. destruct oc; try reflexivity. contradiction.
Qed.

Lemma main_step_nogarb o w w' evs :
  (forall i, ~ In Garbled (reports_of o i)) -> main_step o w = Some (w', evs) -> nogarb w ->
  nogarb w' /\ Forall (fun e => is_garbled e = false) evs.
Proof.
  intros Ho. unfold main_step, nogarb.
  destruct (wph w) as [|rest| | |cur|cur nxt|cur nxt script|s|] eqn:P; intros H NG.
  - inversion H; subst. cbn. split; [exact I|repeat constructor].
  - destruct rest as [|[k f] rest]; inversion H; subst; cbn; (split; [exact I|repeat constructor]).
  - inversion H; subst. cbn. split; [exact I|repeat constructor].
  - destruct (wq w) as [|[t [i|]] q'].
    + destruct (wcb w); [discriminate|]. inversion H; subst. cbn. rewrite P. split; [exact I|constructor].
    + inversion H; subst. cbn. split; [exact I|constructor].
    + inversion H; subst. cbn. split; [exact I|constructor].
  - destruct (wq w) as [|nxt q']; [discriminate|]. inversion H; subst. cbn. split; [exact I|constructor].
  - inversion H; subst. cbn. split; [apply script_of_nogarb; apply Ho|repeat constructor].
  - destruct script as [|e script].
    + inversion H; subst. cbn. split; [|repeat constructor].
      destruct (stops_after o (snd cur)); [exact I|]. destruct (snd nxt); exact I.
    + inversion H; subst. cbn. inversion NG as [|e' sc' Fe Fs]; subst. split; [exact Fs|]. repeat constructor. exact Fe.
  - inversion H; subst. cbn. split; [exact I|repeat constructor].
  - discriminate.
Qed.

Lemma recv_step_nogarb o w w' evs :
  recv_step o w = (w', evs) -> nogarb w -> nogarb w' /\ Forall (fun e => is_garbled e = false) evs.
Proof.
  intros H NG. destruct (recv_step_facts _ _ _ _ H) as (P & E). split; [eapply nogarb_ph; eauto|].
  destruct E as [->|(ixs & ->)]; repeat constructor.
Qed.

(* what a worker that sends no garbled report puts on its wire *)
Lemma up_of_wevent_not_bad c n e : is_garbled e = false -> up_of_wevent c n e <> UBad.
Proof. destruct e; try discriminate. destruct oc; discriminate. Qed.

(* ---- the controller's receiver thread ---- *)
(* messages a live worker puts on its wire (non-empty test ids) *)
Definition ok_up (m : upmsg) : Prop :=
  match m with
  | UEv _ | UComplete _ _ => True
  | UCollFinish ids => ~ In ""%string ids
  | _ => False
  end.

Lemma pfr_load n m d d' o r :
  ok_up m -> process_from_remote n m d = (d', o, r) ->
  o = [] /\
  (forall ls, d_sched d = StL ls -> LI ls ->
     exists ls', d_sched d' = StL ls' /\ LI ls' /\ l_pending ls' = l_pending ls /\ l_coll ls' = l_coll ls) /\
  (forall evs, r = Ok evs -> Forall ok_ev evs).
Proof.
  intros Hm H.
  assert (SAME : forall (x : result (list cevent)), (d, @nil out, x) = (d', o, r) ->
     (forall evs, x = Ok evs -> Forall ok_ev evs) ->
     o = [] /\
     (forall ls, d_sched d = StL ls -> LI ls ->
        exists ls', d_sched d' = StL ls' /\ LI ls' /\ l_pending ls' = l_pending ls /\ l_coll ls' = l_coll ls) /\
     (forall evs, r = Ok evs -> Forall ok_ev evs)).
  { intros x E Hx. inversion E; subst. split; [reflexivity|]. split; [|exact Hx].
    intros ls Els I. exists ls. auto. }
  unfold process_from_remote, mbind, get, of_opt, ret, raise in H. cbn beta iota zeta in H.
  destruct (aget n (d_nt d)) as [f|] eqn:Ef; cbn beta iota zeta in H.
  2:{ eapply SAME; [exact H|]. discriminate. }
  assert (DOWN : forall (evs0 : list cevent),
     (d_set_nt d (aset n {| n_spec := n_spec f; n_down := true; n_sdsent := n_sdsent f; n_closed := n_closed f |} (d_nt d)),
      @nil out, Ok evs0) = (d', o, r) -> Forall ok_ev evs0 ->
     o = [] /\
     (forall ls, d_sched d = StL ls -> LI ls ->
        exists ls', d_sched d' = StL ls' /\ LI ls' /\ l_pending ls' = l_pending ls /\ l_coll ls' = l_coll ls) /\
     (forall evs, r = Ok evs -> Forall ok_ev evs)).
  { intros evs0 E Hx. inversion E; subst. split; [reflexivity|]. split.
    - intros ls Els I. rewrite d_sched_set_nt, Els. cbn [s_set_nt]. eexists. split; [reflexivity|].
      assert (Hnt : d_nt d = l_nt ls) by (unfold d_nt; rewrite Els; reflexivity).
      split; [|split; reflexivity].
      apply LI_set_nt; [exact I|]. rewrite Hnt. apply all_open_aset; [apply I|].
      cbn. rewrite Hnt in Ef. destruct I as (I1 & _). exact (I1 _ _ Ef).
    - intros evs E'. inversion E'; subst. exact Hx. }
  destruct (n_down f) eqn:Edn.
  { (* a node that is down is not heard any more *)
    assert (H' : (d, @nil out, Ok (@nil cevent)) = (d', o, r)).
    { destruct m as [e|ids|sk|i ms|dec| | |]; exact H. }
    eapply SAME; [exact H'|]. intros evs E. inversion E; subst. constructor. }
  destruct m as [e|ids|sk|i ms|dec| | |]; cbn [ok_up] in Hm; try contradiction.
  - destruct e; unfold put in H; cbn beta iota zeta in H;
      try (eapply SAME; [exact H|]; intros evs E; inversion E; subst; repeat constructor; fail).
    eapply DOWN; [exact H|]. destruct stopreq; repeat constructor.
  - eapply SAME; [exact H|]. intros evs E. inversion E; subst. repeat constructor. exact Hm.
  - eapply SAME; [exact H|]. intros evs E. inversion E; subst. repeat constructor.
Qed.

(* ====================================================================================== *)
(* Part 5: the system                                                                      *)
(* ====================================================================================== *)

(* tokens: pool and wires together hold every index at most once; nothing exists before the
   initial distribution; every index is a valid position in the collection *)
Definition TOK (ls : lstate) (W : list nat) : Prop :=
  NoDup (l_pending ls ++ W) /\
  (l_coll ls = None -> W = []) /\
  (forall coll, l_coll ls = Some coll -> forall i, In i (l_pending ls ++ W) -> i < length coll).

Lemma tok_step ls ls' o W W' :
  LI ls -> LI ls' -> LT ls ls' o -> sub W' (sent_inds o ++ W) -> TOK ls W -> TOK ls' W'.
Proof.
  intros (_ & _ & I3) (_ & _ & I3') (T1 & T2 & T3) Hs (K1 & K2 & K3). unfold TOK.
  destruct (l_coll ls') as [coll|] eqn:Ec'.
  - specialize (T3 coll eq_refl). unfold vp in T3. rewrite Ec' in T3.
    assert (Hsub : sub (l_pending ls' ++ W') (vp coll ls ++ W)).
    { unfold vp. rewrite T3. eapply sub_trans; [apply sub_app; [apply sub_refl|exact Hs]|].
      apply sub_perm. rewrite <- app_assoc. apply Permutation_app_swap_app. }
    destruct (l_coll ls) as [c0|] eqn:Ec.
    + assert (c0 = coll) by (specialize (T1 _ eq_refl); congruence). subst c0.
      unfold vp in Hsub. rewrite Ec in Hsub.
      split; [eapply sub_nodup; eauto|]. split; [discriminate|].
      intros coll' E i Hi. inversion E; subst. apply (K3 coll' eq_refl). eapply sub_in; eauto.
    + unfold vp in Hsub. rewrite Ec in Hsub. rewrite (K2 eq_refl), app_nil_r in Hsub.
      split; [eapply sub_nodup; [exact Hsub|apply seq_NoDup]|]. split; [discriminate|].
      intros coll' E i Hi. inversion E; subst. apply (sub_in _ _ _ Hsub) in Hi. apply in_seq in Hi. lia.
  - destruct (l_coll ls) as [c0|] eqn:Ec; [specialize (T1 _ eq_refl); discriminate|].
    rewrite (T2 eq_refl), (K2 eq_refl) in Hs. cbn in Hs. apply sub_nil_inv in Hs. subst W'.
    destruct (I3' eq_refl) as (P0 & _). rewrite P0. split; [constructor|]. split; [reflexivity|].
    intros coll E. discriminate.
Qed.

Lemma tok_sub ls W W' : LI ls -> sub W' W -> TOK ls W -> TOK ls W'.
Proof. intros I Hs. apply (tok_step ls ls [] W W' I I (LT_refl ls)). exact Hs. Qed.

Record SInv (s : sys) : Prop := {
  si_dead : y_dead s = [];
  si_keys : NoDup (akeys (y_w s));
  si_tok : exists ls, d_sched (y_d s) = StL ls /\ LI ls /\ TOK ls (wires s);
  si_evq : Forall ok_ev (y_evq s);
  si_up : forall n, Forall ok_up (alist_get [] n (y_up s));
  si_down : forall n, Forall good_cmd (alist_get [] n (y_down s));
  si_w : forall n w, aget n (y_w s) = Some w -> WInv w /\ Forall good_cmd (winbox w);
  si_ng : forall n w, aget n (y_w s) = Some w -> nogarb w;
}.

Lemma SInv_set_result s r : SInv s -> SInv (set_result s r).
Proof. intros [A B C D E F G NG]. constructor; assumption. Qed.

Lemma wires_pointwise s s' :
  akeys (y_w s') = akeys (y_w s) ->
  (forall k, In k (akeys (y_w s)) -> sub (node_tokens s' k) (node_tokens s k)) ->
  sub (wires s') (wires s).
Proof. intros Ek H. unfold wires. rewrite Ek. apply sub_flat_map. exact H. Qed.

Lemma alist_get_some {V} (dflt : V) n m v : aget n m = Some v -> alist_get dflt n m = v.
Proof. intros H. unfold alist_get. rewrite H. reflexivity. Qed.

(* ---- a worker step: its own tokens are permuted, its events go onto its wire ---- *)
Lemma worker_step_inv c s n w w' evs :
  (forall k, ~ In ""%string (c_coll c k)) ->
  SInv s -> aget n (y_w s) = Some w -> WInv w' -> Forall good_cmd (winbox w') ->
  nogarb w' -> Forall (fun e => is_garbled e = false) evs ->
  Permutation (w_tokens w') (w_tokens w) ->
  SInv (push_up (set_w s n w') n (map (up_of_wevent c n) evs)).
Proof.
  intros Hne [A B (ls & Els & I & T) D E F G NG] Ew Iw Gw NGw NGe Pw.
  assert (Ek : akeys (aset n w' (y_w s)) = akeys (y_w s)).
  { apply akeys_aset_in. eapply aget_some_in; eauto. }
  constructor; cbn [push_up set_w y_dead y_w y_d y_evq y_up y_down].
  - exact A.
  - rewrite Ek. exact B.
  - exists ls. split; [exact Els|]. split; [exact I|]. eapply tok_sub; [exact I| |exact T].
    apply wires_pointwise; cbn [push_up set_w y_w]; [exact Ek|].
    intros k _. unfold node_tokens. cbn [push_up set_w y_w y_down].
    destruct (Nat.eq_dec k n) as [->|Hk].
    + rewrite aget_aset_eq, Ew. apply sub_perm. apply Permutation_app_head. exact Pw.
    + rewrite aget_aset_neq by exact Hk. apply sub_refl.
  - exact D.
  - intros k. destruct (Nat.eq_dec k n) as [->|Hk].
    + rewrite alist_get_aset_eq. apply Forall_app. split; [apply E|].
      apply Forall_forall. intros m Hm. apply in_map_iff in Hm. destruct Hm as (e & <- & He).
      rewrite Forall_forall in NGe. specialize (NGe e He).
      destruct e; cbn; auto. destruct oc; cbn; auto. discriminate.
    + rewrite alist_get_aset_neq by exact Hk. apply E.
  - exact F.
  - intros k wk. destruct (Nat.eq_dec k n) as [->|Hk].
    + rewrite aget_aset_eq. intros X. inversion X; subst. auto.
    + rewrite aget_aset_neq by exact Hk. apply G.
  - intros k wk. destruct (Nat.eq_dec k n) as [->|Hk].
    + rewrite aget_aset_eq. intros X. inversion X; subst. exact NGw.
    + rewrite aget_aset_neq by exact Hk. apply NG.
Qed.

(* ---- applying the controller's outputs ---- *)
Lemma run_inds_good n cm : good_out (OSend n cm) -> run_inds (OSend n cm) = cmd_inds cm /\ good_cmd cm.
Proof. destruct cm; cbn; intros H; try contradiction; auto. Qed.

Lemma apply_outs_load outs : forall s,
  y_dead s = [] -> NoDup (akeys (y_w s)) -> Forall good_out outs ->
  y_d (apply_outs s outs) = y_d s /\ y_evq (apply_outs s outs) = y_evq s /\
  y_up (apply_outs s outs) = y_up s /\ y_w (apply_outs s outs) = y_w s /\
  y_dead (apply_outs s outs) = y_dead s /\
  ((forall n, Forall good_cmd (alist_get [] n (y_down s))) ->
   forall n, Forall good_cmd (alist_get [] n (y_down (apply_outs s outs)))) /\
  sub (wires (apply_outs s outs)) (sent_inds outs ++ wires s).
Proof.
  induction outs as [|x outs IH]; intros s Hd Hk Hg.
  - cbn. repeat split; auto. apply sub_refl.
  - inversion Hg as [|x' r' Gx Gr]; subst.
    assert (SKIP : run_inds x = [] -> apply_outs s (x :: outs) = apply_outs s outs ->
       y_d (apply_outs s (x :: outs)) = y_d s /\ y_evq (apply_outs s (x :: outs)) = y_evq s /\
       y_up (apply_outs s (x :: outs)) = y_up s /\ y_w (apply_outs s (x :: outs)) = y_w s /\
       y_dead (apply_outs s (x :: outs)) = y_dead s /\
       ((forall n, Forall good_cmd (alist_get [] n (y_down s))) ->
        forall n, Forall good_cmd (alist_get [] n (y_down (apply_outs s (x :: outs))))) /\
       sub (wires (apply_outs s (x :: outs))) (sent_inds (x :: outs) ++ wires s)).
    { intros Hr ->. unfold sent_inds. cbn [flat_map]. rewrite Hr. cbn [app]. apply IH; assumption. }
    destruct x as [h|n cm| |]; try (apply SKIP; reflexivity).
    + destruct h; try (apply SKIP; reflexivity). cbn in Gx. contradiction.
    + destruct (run_inds_good _ _ Gx) as (Er & Gc).
      cbn [apply_outs]. replace (mem_nat n (y_dead s)) with false by (rewrite Hd; reflexivity).
      set (s1 := {| y_d := y_d s; y_evq := y_evq s;
                    y_down := aset n (alist_get [] n (y_down s) ++ [cm]) (y_down s);
                    y_up := y_up s; y_w := y_w s; y_dead := y_dead s; y_result := y_result s |}).
      destruct (IH s1 Hd Hk Gr) as (A1 & A2 & A3 & A4 & A5 & A6 & A7).
      split; [exact A1|]. split; [exact A2|]. split; [exact A3|]. split; [exact A4|]. split; [exact A5|].
      split.
      * intros Hdn. apply A6. intros k. subst s1. cbn [y_down].
        destruct (Nat.eq_dec k n) as [->|Hkn].
        -- rewrite alist_get_aset_eq. apply Forall_app. split; [apply Hdn|repeat constructor; exact Gc].
        -- rewrite alist_get_aset_neq by exact Hkn. apply Hdn.
      * eapply sub_trans; [exact A7|].
        assert (W1 : sub (wires s1) (cmd_inds cm ++ wires s)).
        { unfold wires. change (y_w s1) with (y_w s).
          apply (sub_flat_map_one (node_tokens s) (node_tokens s1) n); [exact Hk| |].
          - intros k Hkn. unfold node_tokens. subst s1. cbn [y_down y_w].
            rewrite alist_get_aset_neq by exact Hkn. reflexivity.
          - unfold node_tokens. subst s1. cbn [y_down y_w]. rewrite alist_get_aset_eq, fm_cmd_app.
            cbn [flat_map]. rewrite app_nil_r. permc. }
        eapply sub_trans; [apply sub_app; [apply sub_refl|exact W1]|].
        apply sub_perm. unfold sent_inds. cbn [flat_map]. rewrite Er.
        fold (sent_inds outs). permc.
Qed.

Lemma apply_outs_yw outs : forall s,
  Forall (fun x => is_spawn x = false) outs -> y_w (apply_outs s outs) = y_w s.
Proof.
  induction outs as [|x outs IH]; intros s Hg; [reflexivity|].
  inversion Hg as [|x' r' Gx Gr]; subst.
  destruct x as [h|n cm| |]; cbn [apply_outs]; try (apply IH; exact Gr).
  - destruct h; try (apply IH; exact Gr). discriminate.
  - destruct (mem_nat n (y_dead s)); rewrite IH by exact Gr; reflexivity.
Qed.

(* ---- the one-step lemma ---- *)
Definition Errd (s : sys) : Prop := exists e, y_result s = Some (RError e).

Definition no_crash_label (l : label) : Prop := match l with LCrash _ => False | _ => True end.

Lemma wires_same s s' : y_down s' = y_down s -> y_w s' = y_w s -> wires s' = wires s.
Proof. intros E1 E2. unfold wires, node_tokens. rewrite E1, E2. reflexivity. Qed.

Ltac fin3 H a b c := injection H as Hs_ Ho_ Hw_; subst a b c.

Lemma step_sinv c s l s' o w :
  (forall n i, c_crash_in c n i = false) -> no_garbled c -> (forall k, ~ In ""%string (c_coll c k)) ->
  no_crash_label l -> SInv s -> sys_step c s l = Some (s', o, w) ->
  SInv s' \/ (y_w s' = y_w s /\ Errd s').
Proof.
  intros Hnc Hng Hne Hl Inv H. pose proof Inv as [A B (ls & Els & I & T) D E F G NG].
  unfold sys_step in H. destruct (y_result s) eqn:Er; [discriminate|].
  destruct l as [n0|n0|n0|n0| |n0]; [| | | | |contradiction].
  - (* LDeliver *)
    replace (mem_nat n0 (y_dead s)) with false in H by (rewrite A; reflexivity).
    destruct (aget n0 (y_down s)) as [[|cmd rest]|] eqn:Ed; try discriminate.
    destruct (aget n0 (y_w s)) as [w0|] eqn:Ew; try discriminate.
    fin3 H s' o w. left.
    assert (Ek : akeys (aset n0 (deliver w0 cmd) (y_w s)) = akeys (y_w s)).
    { apply akeys_aset_in. eapply aget_some_in; eauto. }
    pose proof (F n0) as Fn. rewrite (alist_get_some [] _ _ _ Ed) in Fn.
    inversion Fn as [|c1 r1 Gc Gr]; subst.
    destruct (G _ _ Ew) as (Iw & Gw).
    constructor; cbn [y_dead y_w y_d y_evq y_up y_down].
    + exact A.
    + rewrite Ek. exact B.
    + exists ls. split; [exact Els|]. split; [exact I|]. eapply tok_sub; [exact I| |exact T].
      apply wires_pointwise; cbn [y_w]; [exact Ek|].
      intros k _. unfold node_tokens. cbn [y_w y_down].
      destruct (Nat.eq_dec k n0) as [->|Hk].
      * rewrite aget_aset_eq, Ew, alist_get_aset_eq, (alist_get_some [] _ _ _ Ed).
        apply sub_perm. cbn [flat_map]. pose proof (deliver_tokens w0 cmd) as P. permc_with P.
      * rewrite aget_aset_neq, alist_get_aset_neq by exact Hk. apply sub_refl.
    + exact D.
    + exact E.
    + intros k. destruct (Nat.eq_dec k n0) as [->|Hk].
      * rewrite alist_get_aset_eq. exact Gr.
      * rewrite alist_get_aset_neq by exact Hk. apply F.
    + intros k wk. destruct (Nat.eq_dec k n0) as [->|Hk].
      * rewrite aget_aset_eq. intros X. inversion X; subst. split; [apply upd_recv_inv; exact Iw|].
        apply deliver_good; assumption.
      * rewrite aget_aset_neq by exact Hk. apply G.
    + intros k wk. destruct (Nat.eq_dec k n0) as [->|Hk].
      * rewrite aget_aset_eq. intros X. inversion X; subst. apply (nogarb_ph _ w0); [reflexivity|]. exact (NG _ _ Ew).
      * rewrite aget_aset_neq by exact Hk. apply NG.
  - (* LRecvW *)
    replace (mem_nat n0 (y_dead s)) with false in H by (rewrite A; reflexivity).
    destruct (aget n0 (y_w s)) as [w0|] eqn:Ew; try discriminate.
    destruct (negb (wcb w0)); [discriminate|].
    destruct (recv_step (c_oracle c n0) w0) as [w' evs] eqn:Es. fin3 H s' o w. left.
    destruct (G _ _ Ew) as (Iw & Gw).
    pose proof (recv_step_tokens (c_oracle c n0) w0 Gw) as (P & Gw').
    pose proof (recv_step_inv (c_oracle c n0) w0 Iw) as Iw'. rewrite Es in P, Gw', Iw'. cbn [fst] in *.
    destruct (recv_step_nogarb _ _ _ _ Es (NG _ _ Ew)) as (NGw & NGe).
    eapply worker_step_inv; eauto.
  - (* LMain *)
    replace (mem_nat n0 (y_dead s)) with false in H by (rewrite A; reflexivity).
    destruct (aget n0 (y_w s)) as [w0|] eqn:Ew; try discriminate.
    assert (Hd : dies_now c n0 w0 = false).
    { unfold dies_now. destruct (wph w0); auto. }
    rewrite Hd in H.
    destruct (main_step (c_oracle c n0) w0) as [[w' evs]|] eqn:Es; [|discriminate]. fin3 H s' o w. left.
    destruct (G _ _ Ew) as (Iw & Gw).
    destruct (main_step_tokens _ _ _ _ Es) as (P & Ei).
    destruct (main_step_nogarb _ _ _ _ (Hng n0) Es (NG _ _ Ew)) as (NGw & NGe).
    eapply worker_step_inv; eauto.
    + eapply main_step_inv; eauto.
    + rewrite Ei. exact Gw.
  - (* LRecv *)
    destruct (aget n0 (y_up s)) as [[|m rest]|] eqn:Eu; try discriminate.
    cbn [y_d] in H.
    destruct (process_from_remote n0 m (y_d s)) as [[d' outs] r] eqn:Ep.
    pose proof (E n0) as En. rewrite (alist_get_some [] _ _ _ Eu) in En.
    inversion En as [|m1 r1 Gm Gr]; subst.
    destruct (pfr_load _ _ _ _ _ _ Gm Ep) as (-> & Hd' & Hev).
    cbn [apply_outs] in H.
    destruct r as [evs|e].
    + unfold close_if_dead in H. cbn [set_evq set_d y_dead] in H.
      replace (mem_nat n0 (y_dead s)) with false in H by (rewrite A; reflexivity).
      fin3 H s' o w. left.
      destruct (Hd' ls Els I) as (ls' & Els' & I' & Ep' & Ec').
      constructor; cbn [set_evq set_d y_dead y_w y_d y_evq y_up y_down].
      * exact A.
      * exact B.
      * exists ls'. split; [exact Els'|]. split; [exact I'|].
        change (wires _) with (wires s).
        destruct T as (T1 & T2 & T3). unfold TOK. rewrite Ep', Ec'. auto.
      * apply Forall_app. split; [exact D|apply Hev; reflexivity].
      * intros k. destruct (Nat.eq_dec k n0) as [->|Hk].
        -- rewrite alist_get_aset_eq. exact Gr.
        -- rewrite alist_get_aset_neq by exact Hk. apply E.
      * exact F.
      * exact G.
      * exact NG.
    + fin3 H s' o w. right. split; [reflexivity|]. exists e. reflexivity.
  - (* LCtl *)
    destruct (d_active (y_d s)) as [|a0 ar] eqn:Ea.
    + destruct (d_no_active (y_d s)) as [[d' outs] r0] eqn:En. fin3 H s' o w. right.
      split; [|eexists; reflexivity]. cbn [set_result y_w].
      rewrite apply_outs_yw; [reflexivity|]. eapply no_active_nospawn; eauto.
    + destruct (y_evq s) as [|ev q] eqn:Eq; [discriminate|].
      inversion D as [|ev1 q1 Gev Gq]; subst.
      destruct (d_loop_once ev (y_d s)) as [[d' outs] r] eqn:El.
      pose proof (loop_once_nospawn _ _ _ _ _ Gev El) as NS.
      set (s0 := set_d (set_evq s q) d') in *.
      assert (YW : y_w (apply_outs s0 outs) = y_w s).
      { rewrite apply_outs_yw by exact NS. reflexivity. }
      destruct r as [[]|e].
      2:{ fin3 H s' o w. right. split; [exact YW|eexists; reflexivity]. }
      destruct (ok_loop_once ev (y_d s) Gev _ _ _ El ls Els I) as (ls' & Els' & I' & LTr & Go).
      destruct (apply_outs_load outs s0 A B Go) as (A1 & A2 & A3 & A4 & A5 & A6 & A7).
      assert (S1 : SInv (apply_outs s0 outs)).
      { constructor.
        - rewrite A5. exact A.
        - rewrite A4. exact B.
        - exists ls'. rewrite A1. split; [exact Els'|]. split; [exact I'|].
          eapply tok_step; [exact I|exact I'|exact LTr|exact A7|exact T].
        - rewrite A2. exact Gq.
        - intros k. rewrite A3. apply E.
        - apply A6. exact F.
        - intros k wk. rewrite A4. apply G.
        - intros k wk. rewrite A4. apply NG. }
      destruct (d_session_finished d'); [fin3 H s' o w; left; apply SInv_set_result; exact S1|].
      destruct (d_active d') as [|b0 br] eqn:Ea'.
      * destruct (d_no_active d') as [[d2 outs2] r2] eqn:En. fin3 H s' o w. right.
        split; [|eexists; reflexivity]. cbn [set_result y_w].
        rewrite apply_outs_yw; [exact YW|]. eapply no_active_nospawn; eauto.
      * fin3 H s' o w. left. exact S1.
Qed.

(* ---- the initial state ---- *)
Lemma flat_map_all_nil (f : nat -> list nat) l : (forall k, f k = []) -> flat_map f l = [].
Proof. intros H. induction l as [|k l IH]; cbn; [reflexivity|]. rewrite H, IH. reflexivity. Qed.

Lemma aget_map_const {V} (v : V) l n w : aget n (map (fun k => (k, v)) l) = Some w -> w = v.
Proof.
  induction l as [|k l IH]; cbn; [discriminate|].
  destruct (Nat.eqb n k); [intros E; inversion E; reflexivity|exact IH].
Qed.

Lemma init_nt_open c : all_open (init_nt c).
Proof.
  unfold init_nt. intros n f. induction (seq 0 (c_numnodes c)) as [|k l IH]; cbn; [discriminate|].
  destruct (Nat.eqb n k); [intros E; inversion E; reflexivity|exact IH].
Qed.

Lemma wires_init c : wires (sys_init c) = [].
Proof.
  unfold wires. apply flat_map_all_nil. intros k. unfold node_tokens. cbn [sys_init y_down y_w].
  rewrite alist_get_map_nil. cbn [flat_map app].
  destruct (aget k (map (fun n => (n, w_init)) (seq 0 (c_numnodes c)))) as [w|] eqn:E; [|reflexivity].
  apply aget_map_const in E. subst w. reflexivity.
Qed.

Lemma SInv_init c : c_mode c = MLoad -> SInv (sys_init c).
Proof.
  intros Hm. constructor.
  - reflexivity.
  - cbn [sys_init y_w]. rewrite (akeys_map_seq (fun _ => w_init)). apply seq_NoDup.
  - cbn [sys_init y_d d_sched]. rewrite Hm. cbn [s_init s_set_nt].
    eexists. split; [reflexivity|]. split.
    + split; [apply init_nt_open|]. split; [|intros _; split; reflexivity].
      split; [intros c0 E; discriminate|intros n ids []].
    + rewrite wires_init. split; [constructor|]. split; [reflexivity|]. intros coll E. discriminate.
  - constructor.
  - intros n. cbn [sys_init y_up]. rewrite alist_get_map_nil. constructor.
  - intros n. cbn [sys_init y_down]. rewrite alist_get_map_nil. constructor.
  - intros n w E. cbn [sys_init y_w] in E. apply aget_map_const in E. subst w.
    split; [apply winv_init|constructor].
  - intros n w E. cbn [sys_init y_w] in E. apply aget_map_const in E. subst w. exact I.
Qed.

(* ---- every schedule ---- *)
(* either the invariant holds, or a controller exception ended the session and the workers
   are those of a state in which the invariant held *)
Definition Good (s : sys) : Prop :=
  SInv s \/ (exists s0, SInv s0 /\ y_w s = y_w s0 /\ Errd s).

Definition step_of (c : config) (s : sys) (l : label) : sys :=
  match sys_step c s l with Some (s', _, _) => s' | None => s end.

Lemma good_step c s l :
  (forall n i, c_crash_in c n i = false) -> no_garbled c -> (forall k, ~ In ""%string (c_coll c k)) ->
  no_crash_label l -> Good s -> Good (step_of c s l).
Proof.
  intros Hnc Hng Hne Hl Hg. unfold step_of.
  destruct (sys_step c s l) as [[[s' o] w]|] eqn:E; [|exact Hg].
  destruct Hg as [Inv|(s0 & _ & _ & (e & Er))].
  - destruct (step_sinv _ _ _ _ _ _ Hnc Hng Hne Hl Inv E) as [Inv'|(Ew & Ee)]; [left; exact Inv'|].
    right. exists s. auto.
  - unfold sys_step in E. rewrite Er in E. discriminate.
Qed.

Lemma good_run c ls :
  c_mode c = MLoad -> (forall n i, c_crash_in c n i = false) -> no_garbled c ->
  (forall k, ~ In ""%string (c_coll c k)) ->
  Forall no_crash_label ls -> Good (sys_run c ls).
Proof.
  intros Hm Hnc Hng Hne Hls. unfold sys_run.
  assert (G : forall s, Good s -> Good (fold_left (step_of c) ls s)).
  { induction Hls as [|l ls Hl Hls IH]; intros s Hg; cbn [fold_left]; [exact Hg|].
    apply IH. apply good_step; assumption. }
  apply (G (sys_init c)). left. apply SInv_init. exact Hm.
Qed.

(* ---- from the invariant to the statements ---- *)
Lemma flat_map_keys_vals {V} (g : V -> list nat) (m : amap V) :
  NoDup (akeys m) ->
  flat_map (fun k => match aget k m with Some v => g v | None => [] end) (akeys m) =
  flat_map (fun p => g (snd p)) m.
Proof.
  induction m as [|[k v] m IH]; intros ND; [reflexivity|].
  cbn [akeys map fst] in ND. inversion ND as [|k' l' Hn ND']; subst.
  cbn [akeys map fst flat_map snd aget]. rewrite Nat.eqb_refl. f_equal.
  rewrite <- IH by exact ND'. apply flat_map_ext_in. intros j Hj.
  destruct (Nat.eqb j k) eqn:Ej; [|reflexivity]. apply Nat.eqb_eq in Ej. subst j. contradiction.
Qed.

Lemma started_keys s :
  NoDup (akeys (y_w s)) ->
  started s = flat_map (fun k => match aget k (y_w s) with
                                 | Some w => map (fun r => snd (fst r)) (wran w) | None => [] end)
                       (akeys (y_w s)).
Proof. intros ND. unfold started. symmetry. apply (flat_map_keys_vals (fun w => map (fun r => snd (fst r)) (wran w))). exact ND. Qed.

Lemma started_sub_wires s : SInv s -> sub (started s) (wires s).
Proof.
  intros [A B C D E F G NG]. rewrite (started_keys s B). unfold wires. apply sub_flat_map.
  intros k _. unfold node_tokens. destruct (aget k (y_w s)) as [w|] eqn:Ew; [|exists (flat_map cmd_inds (alist_get [] k (y_down s)) ++ []); reflexivity].
  destruct (G _ _ Ew) as (Iw & _). destruct (started_prefix_popped w Iw) as (more & Em).
  unfold w_tokens. rewrite Em.
  exists (more ++ flat_map cmd_inds (alist_get [] k (y_down s)) ++ flat_map cmd_inds (winbox w) ++
          item_inds (wrpend w) ++ ents_idx (wq w)).
  permc.
Qed.

Lemma sinv_places_nodup s : SInv s -> NoDup (places s).
Proof.
  intros [A B (ls & Els & I & (T1 & _)) D E F G NG]. rewrite places_eq. unfold pool. rewrite Els. exact T1.
Qed.

Lemma sinv_started_nodup s : SInv s -> NoDup (started s).
Proof.
  intros Inv. eapply sub_nodup; [apply started_sub_wires; exact Inv|].
  pose proof (sinv_places_nodup s Inv) as ND. rewrite places_eq in ND.
  eapply WorkerProofs.nodup_app_r. exact ND.
Qed.

Lemma started_yw s s0 : y_w s = y_w s0 -> started s = started s0.
Proof. intros E. unfold started. rewrite E. reflexivity. Qed.

(* ====================================================================================== *)
(* C01 (at most once): the theorems                                                        *)
(*                                                                                          *)
(* Hypotheses, beyond those asked for (load mode, c_crash_in constantly false, no LCrash     *)
(* label in the schedule):                                                                  *)
(*  (H-garbled) no worker sends an undecodable report: no_garbled c, i.e.                    *)
(*        forall n i, ~ In Garbled (reports_of (c_oracle c n) i).                            *)
(*     Reason: an undecodable message makes the receiver thread write the worker off         *)
(*     (shutdown, errordown, crash report, replacement) -- a worker failure as far as the     *)
(*     controller is concerned, although the worker lives on and goes on running its book,    *)
(*     part of which the controller hands to other workers again.                             *)
(*  (H-ids) no worker collects a test with the EMPTY node id:                               *)
(*        forall n, ~ In "" (c_coll c n).                                                   *)
(*     Reason: on workerfinished DSession does  crashitem = sched.remove_node(node);        *)
(*     assert not crashitem.  With a non-empty book remove_node puts the rest of the book    *)
(*     back into the pool and returns the crash item's id; the assertion then ends the run   *)
(*     with an AssertionError -- unless that id is the empty string, which is falsy, in      *)
(*     which case the run would go on with indices both in the pool and in the worker.       *)
(*     Showing that the book is always empty at that point needs the whole report protocol;  *)
(*     instead empty ids (which pytest never produces) are excluded.                         *)
(*  (H-res) c01_places_nodup is stated for states in which no controller exception has       *)
(*     ended the session (y_result is not RError): in the state left behind by such an       *)
(*     exception (e.g. the AssertionError above, a KeyError in the middle of a scheduler     *)
(*     call) the controller's books are half-updated and the statement about the POOL is     *)
(*     not claimed.  The statements about what the WORKERS started hold unconditionally,     *)
(*     error states included.                                                               *)
(* ====================================================================================== *)
Section C01.
  Variable c : config.
  Variable ls : list label.
  Hypothesis Hmode : c_mode c = MLoad.
  Hypothesis Hnocrash : forall n i, c_crash_in c n i = false.
  Hypothesis Hnogarbled : no_garbled c.
  Hypothesis Hids : forall n, ~ In ""%string (c_coll c n).
  Hypothesis Hsched : Forall no_crash_label ls.

  Definition not_errored (s : sys) : Prop := forall e, y_result s <> Some (RError e).

  Lemma run_good : Good (sys_run c ls).
  Proof. apply good_run; assumption. Qed.

  Lemma run_sinv : not_errored (sys_run c ls) -> SInv (sys_run c ls).
  Proof.
    intros Hne. destruct run_good as [Inv|(s0 & _ & _ & (e & Er))]; [exact Inv|].
    exfalso. exact (Hne e Er).
  Qed.

  (* every index is in at most one place: the pool, a wire, a worker's inbox / current command /
     queue, or taken by a worker's main thread *)
  Theorem c01_places_nodup : not_errored (sys_run c ls) -> NoDup (places (sys_run c ls)).
  Proof. intros Hne. apply sinv_places_nodup, run_sinv, Hne. Qed.

  (* no test is started twice, by the same or by different workers -- in every reachable state *)
  Theorem c01_started_at_most_once : NoDup (started (sys_run c ls)).
  Proof.
    destruct run_good as [Inv|(s0 & Inv0 & Ew & _)].
    - apply sinv_started_nodup. exact Inv.
    - rewrite (started_yw _ _ Ew). apply sinv_started_nodup. exact Inv0.
  Qed.

  (* every started index was taken from the queue by that worker's main thread *)
  Theorem c01_started_were_popped : forall i,
    In i (started (sys_run c ls)) ->
    exists n w, In (n, w) (y_w (sys_run c ls)) /\ In i (ents_idx (wpopped w)).
  Proof.
    intros i Hi.
    assert (W : forall n w, In (n, w) (y_w (sys_run c ls)) -> WInv w).
    { assert (X : forall s, SInv s -> forall n w, In (n, w) (y_w s) -> WInv w).
      { intros s [A B C D E F G NG] n w Hin. apply (G n w).
        clear -B Hin. induction (y_w s) as [|[k v] m IH]; [destruct Hin|].
        cbn [akeys map fst] in B. inversion B as [|k' l' Hn ND']; subst. cbn [aget].
        destruct Hin as [Ein|Hin].
        - inversion Ein; subst. rewrite Nat.eqb_refl. reflexivity.
        - destruct (Nat.eqb n k) eqn:Enk.
          + apply Nat.eqb_eq in Enk. subst k. exfalso. apply Hn. unfold akeys.
            change n with (fst (n, w)). apply in_map. exact Hin.
          + apply IH; assumption. }
      destruct run_good as [Inv|(s0 & Inv0 & Ew & _)]; [apply X; exact Inv|].
      rewrite Ew. apply X. exact Inv0. }
    unfold started in Hi. apply in_flat_map in Hi. destruct Hi as ([n w] & Hin & Hi). cbn [snd] in Hi.
    exists n, w. split; [exact Hin|].
    destruct (started_prefix_popped w (W n w Hin)) as (more & Em). rewrite Em.
    apply in_or_app. left. exact Hi.
  Qed.

  (* only collected tests are started: every started index is a position in the collection *)
  Theorem c01_started_are_collected : not_errored (sys_run c ls) -> forall i,
    In i (started (sys_run c ls)) ->
    exists lst coll, d_sched (y_d (sys_run c ls)) = StL lst /\ l_coll lst = Some coll /\ i < length coll.
  Proof.
    intros Hne i Hi. pose proof (run_sinv Hne) as Inv.
    pose proof (sub_in _ _ _ (started_sub_wires _ Inv) Hi) as Hw.
    destruct Inv as [A B (lst & Els & I & (T1 & T2 & T3)) D E F G NG].
    exists lst. destruct (l_coll lst) as [coll|] eqn:Ec.
    - exists coll. split; [exact Els|]. split; [reflexivity|].
      apply (T3 coll eq_refl). apply in_or_app. right. exact Hw.
    - rewrite (T2 eq_refl) in Hw. destruct Hw.
  Qed.
End C01.

Print Assumptions c01_places_nodup.
Print Assumptions c01_started_at_most_once.
Print Assumptions c01_started_were_popped.
Print Assumptions c01_started_are_collected.

Check c01_places_nodup.
Check c01_started_at_most_once.
Check c01_started_were_popped.
Check c01_started_are_collected.

(* ====================================================================================== *)
(* Non-vacuity: a concrete session (load, 2 nodes, 5 tests), evaluated                     *)
(* ====================================================================================== *)
Definition c01_oracle : oracle :=
  {| reports_of := fun _ => [Passed]; stops_after := fun _ => false; ncollected := 5; coll_reports := [] |}.
Definition c01_cfg : config :=
  {| c_mode := MLoad; c_numnodes := 2; c_chunk := None; c_maxfail := 0%Z; c_max_restart := Some 4%Z;
     c_requeue := 0; c_coll := fun _ => ["t0"; "t1"; "t2"; "t3"; "t4"]%string; c_oracle := fun _ => c01_oracle;
     c_dur := fun _ => 0%Z; c_crash_in := fun _ _ => false; c_strict := false; c_spec := fun _ => 0 |}.
Fixpoint c01_rep (k : nat) (l : list label) : list label :=
  match k with 0 => [] | S k => l ++ c01_rep k l end.

(* pool; per node: (id, indices on its wire, (in its inbox / current command, queued, taken));
   started; places; session result *)
Definition c01_view (s : sys) :=
  (pool s,
   map (fun n => (n, flat_map cmd_inds (alist_get [] n (y_down s)),
                  match aget n (y_w s) with
                  | Some w => (flat_map cmd_inds (winbox w) ++ item_inds (wrpend w),
                               ents_idx (wq w), ents_idx (wpopped w))
                  | None => ([], [], []) end)) (akeys (y_w s)),
   started s, places s, y_result s).

(* both workers boot and collect, the controller handles workerready / collectionfinish of both
   and makes the initial distribution *)
Definition c01_dist : list label :=
  c01_rep 4 [LMain 0] ++ c01_rep 4 [LMain 1] ++ c01_rep 3 [LRecv 0] ++ c01_rep 3 [LRecv 1] ++ c01_rep 4 [LCtl].

(* test 4 in the pool, tests 0 1 and 2 3 on the wires *)
Example c01_ex_distributed :
  c01_view (sys_run c01_cfg c01_dist) =
  ([4], [(0, [0; 1], ([], [], [])); (1, [2; 3], ([], [], []))], [], [4; 0; 1; 2; 3], None).
Proof. vm_compute. reflexivity. Qed.

(* worker 0 received its command and runs test 0 (started, 0 and its successor 1 taken);
   4 still in the pool; 2 3 still on worker 1's wire *)
Definition c01_sched_run : list label :=
  c01_dist ++ [LDeliver 0; LRecvW 0; LRecvW 0; LMain 0; LMain 0; LMain 0].
Example c01_ex_pool_wire_run :
  c01_view (sys_run c01_cfg c01_sched_run) =
  ([4], [(0, [], ([], [], [0; 1])); (1, [2; 3], ([], [], []))], [0], [4; 0; 1; 2; 3], None).
Proof. vm_compute. reflexivity. Qed.

(* worker 0 took test 0 and has 1 queued; worker 1 has 2 queued and 3 still in the command
   being unpacked by its receiver thread; 4 in the pool *)
Definition c01_sched_queued : list label :=
  c01_dist ++ [LDeliver 0; LRecvW 0; LRecvW 0; LMain 0] ++ [LDeliver 1; LRecvW 1].
Example c01_ex_pool_queued :
  c01_view (sys_run c01_cfg c01_sched_queued) =
  ([4], [(0, [], ([], [1], [0])); (1, [], ([3], [2], []))], [], [4; 1; 0; 3; 2], None).
Proof. vm_compute. reflexivity. Qed.

(* test 0 completed on worker 0, the controller refilled it with test 4 from the pool (now on
   the wire); worker 1 as before *)
Definition c01_sched_refill : list label :=
  c01_sched_queued ++ c01_rep 6 [LMain 0] ++ c01_rep 6 [LRecv 0] ++ c01_rep 6 [LCtl].
Example c01_ex_refill :
  c01_view (sys_run c01_cfg c01_sched_refill) =
  ([], [(0, [4], ([], [], [0; 1])); (1, [], ([3], [2], []))], [0], [4; 0; 1; 3; 2], None).
Proof. vm_compute. reflexivity. Qed.

(* the hypotheses of the theorems hold of this session, so the theorems are not vacuous *)
Example c01_ex_theorems_apply :
  NoDup (places (sys_run c01_cfg c01_sched_refill)) /\ NoDup (started (sys_run c01_cfg c01_sched_refill)).
Proof.
  assert (H1 : c_mode c01_cfg = MLoad) by reflexivity.
  assert (H2 : forall n i, c_crash_in c01_cfg n i = false) by reflexivity.
  assert (H3 : forall n, ~ In ""%string (c_coll c01_cfg n)).
  { intros n H. cbn in H. repeat (destruct H as [H|H]; [discriminate|]). exact H. }
  assert (H4 : Forall no_crash_label c01_sched_refill) by (vm_compute; repeat constructor).
  assert (H5 : no_garbled c01_cfg).
  { intros n i H. cbn in H. destruct H as [H|[]]. discriminate. }
  split.
  - apply c01_places_nodup; auto. intros e He. vm_compute in He. discriminate.
  - apply c01_started_at_most_once; auto.
Qed.
Print Assumptions c01_ex_theorems_apply.

(* Why (H-ids) is there: at the level of the handler, `assert not crashitem` lets a crash item
   with the EMPTY id through, and the rest of the finished worker's book goes back to the pool.
   (Whether a book can be non-empty when workerfinished is handled in a no-crash run is a
   question about the whole report protocol, not settled here.) *)
Definition c01_quirk_state : dstate :=
  {| d_sched := StL {| l_nt := [(0, {| n_spec := 0; n_down := true; n_sdsent := true; n_closed := false |})];
                       l_numnodes := 1; l_n2c := [(0, [""; "b"]%string)]; l_n2p := [(0, [0; 1])];
                       l_pending := []; l_coll := Some [""; "b"]%string; l_chunk := Some 2%Z |};
     d_shuttingdown := true; d_shouldstop := false; d_countfailures := 0%Z; d_maxfail := 0%Z;
     d_active := [0]; d_failed_nodes := 0%Z; d_max_restart := None; d_collect_seen := [];
     d_next_gw := 1; d_requeue := 0 |}.
Example c01_quirk_empty_id :
  let '(d', _, r) := d_handle (QFinished 0 SKNone) c01_quirk_state in
  r = Ok tt /\ match d_sched d' with StL ls => l_pending ls = [1] | _ => False end.
Proof. vm_compute. split; reflexivity. Qed.

Print Assumptions deliver_tokens.
Print Assumptions recv_step_tokens.
Print Assumptions main_step_tokens.
Print Assumptions ok_loop_once.
Print Assumptions step_sinv.
Print Assumptions good_run.
