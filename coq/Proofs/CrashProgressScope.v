(* CrashProgressScope.v -- property C02 ("the distributed session always terminates"), the no-stand-off
   half, for the scope family of schedulers (--dist loadscope / loadfile / loadgroup: mode [MScope kind])
   WITH worker failures.

   Main theorem (scope_crash_c02_no_deadlock_useful): in EVERY state of Model/System.v reachable by ANY
   schedule (crash labels LCrash allowed at any moment, any c_crash_in, any restart budget -- None
   included --, c_strict or not, stop requests, --maxfail, workers -- replacements included -- collecting
   different lists) in which the session has not ended, some component can make a USEFUL NON-CRASH move.
   Hypotheses: c_mode c = MScope kind, no_garbled c, 0 < c_numnodes c, c_requeue c = 0.  Nothing else.

   The proof adds to the system invariant XInvC of CrashScopeTheorems.v a progress invariant QInvS (the
   analogue of CrashProgress.QInv):
     QCs (controller)  not shutting down => tests_finished is false; the "two tests" law T2 (while the work
                       queue is not empty every registered node that has reported its collection and is not
                       shutting down holds >= 2 pending tests -- a pure scheduler law, stated with
                       pending_of, independent of the collection the invariant XInvC is stated for);
                       shutting down => every registered node was told to shut down or is down; before the
                       collection is complete (no stop request, budget not exhausted) at least numnodes
                       nodes are active;
     QA/QN             those of CrashProgress.v, over the projection [proj coll0 cs] of the scheduler state.
   Organisation: part A the scheduler (frames of every operation, T2 through every operation; no invariant
   is needed, only that the operation returned normally); part B what one controller iteration guarantees
   beyond CrashScope.HEFFx (record LXs, theorem loop_lxs), handler by handler; part C the invariant and its
   preservation by every label; part D quiescent states are impossible, the theorems, examples. *)
From XV Require Import Base Worker Ctl SchedLoad SchedSteal SchedScope SchedEach Sched DSession System
  NoHook DSessionProofs WorkerProofs LoadProofs FifoProofs ExactlyOnce ScopeProofs Coupling ScopeSystem
  ScopeCoupling CrashCoupling CrashTheorems CrashTokens CrashScope CrashScopeTheorems.
From XV Require LivenessLaws Progress CrashProgress.
From Coq Require Import Permutation.
Open Scope nat_scope.

Notation sd_in := LivenessLaws.sd_in.

(* ###################################### part A ###################################### *)

Ltac mbo H t p a q H1 :=
  apply LoadProofs.mbind_inv in H;
  destruct H as [(?e & ?He & ?Hr)|(t & p & a & q & H1 & H & ->)]; [congruence|].

(* ====================================================================================== *)
(* A.1 frames: what a scheduling step may change                                           *)
(* ====================================================================================== *)
Record FR (s s' : scstate) : Prop := {
  fr_reg : sc_reg s' = sc_reg s;
  fr_num : sc_numnodes s' = sc_numnodes s;
  fr_coll : sc_coll s' = sc_coll s;
  fr_keys : akeys (sc_assigned s') = akeys (sc_assigned s);
  fr_wq : exists mv, sc_wq s = mv ++ sc_wq s';
  fr_sd : forall m, sd_in (sc_nt s) m -> sd_in (sc_nt s') m;
  fr_nsd : forall m f', aget m (sc_nt s') = Some f' -> shutting_down f' = false ->
           exists f, aget m (sc_nt s) = Some f /\ shutting_down f = false;
}.
(* only the workloads of the nodes in l may have changed *)
Definition TCH (l : list nat) (s s' : scstate) : Prop :=
  forall m, ~ In m l -> aget m (sc_assigned s') = aget m (sc_assigned s).

Lemma FR_refl s : FR s s.
Proof. constructor; auto. - exists []. reflexivity. - eauto. Qed.

Lemma FR_trans a b c : FR a b -> FR b c -> FR a c.
Proof.
  intros [A1 A2 A3 A4 (m1 & A5) A6 A7] [B1 B2 B3 B4 (m2 & B5) B6 B7]. constructor; try congruence.
  - exists (m1 ++ m2). rewrite A5, B5, app_assoc. reflexivity.
  - auto.
  - intros m f' E H. destruct (B7 m f' E H) as (f1 & E1 & H1). exact (A7 m f1 E1 H1).
Qed.

Lemma TCH_refl l s : TCH l s s.
Proof. intros m _. reflexivity. Qed.
Lemma TCH_trans l a b c : TCH l a b -> TCH l b c -> TCH l a c.
Proof. intros H1 H2 m Hm. rewrite (H2 m Hm). apply H1. exact Hm. Qed.
Lemma TCH_weaken l l' a b : incl l l' -> TCH l a b -> TCH l' a b.
Proof. intros Hi H m Hm. apply H. intros F. apply Hm. apply Hi. exact F. Qed.

(* a change of the node table that only raises "told to shut down" at n *)
Lemma FR_sdm s n c : aget n (sc_nt s) = Some c -> FR s (sc_set_nt s (aset n (LivenessLaws.sdm c) (sc_nt s))).
Proof.
  intros En. constructor; cbn [sc_set_nt sc_reg sc_numnodes sc_coll sc_assigned sc_wq sc_nt]; auto.
  - exists []. reflexivity.
  - intros m (c' & Em & Hs). unfold sd_in. rewrite LoadProofs.aget_aset.
    destruct (Nat.eqb m n); [exists (LivenessLaws.sdm c); split; [reflexivity|apply LivenessLaws.sdm_sd]|exists c'; auto].
  - intros m f'. rewrite LoadProofs.aget_aset. destruct (Nat.eqb m n).
    + intros E. inv E. rewrite LivenessLaws.sdm_sd. discriminate.
    + eauto.
Qed.

Lemma shutdown_fr n s s' o :
  node_shutdown sc_nt sc_set_nt n s = (s', o, Ok tt) ->
  FR s s' /\ sc_assigned s' = sc_assigned s /\ sc_wq s' = sc_wq s /\ sd_in (sc_nt s') n.
Proof.
  intros H. pose proof (LivenessLaws.g_node_shutdown_post scstate sc_nt sc_set_nt (fun _ _ => eq_refl) _ _ _ _ H) as (A1 & _).
  apply (LivenessLaws.g_node_shutdown_cases scstate sc_nt sc_set_nt) in H.
  destruct H as [(_ & _ & _ & F)|[(c & En & Esd & -> & _)|(c & En & Esd & _ & -> & _)]].
  - discriminate.
  - split; [apply FR_refl|]. auto.
  - split; [apply FR_sdm; exact En|]. auto.
Qed.

Lemma mfor_shutdown_fr l : forall s s' o,
  mfor l (fun n => node_shutdown sc_nt sc_set_nt n) s = (s', o, Ok tt) ->
  FR s s' /\ sc_assigned s' = sc_assigned s /\ sc_wq s' = sc_wq s /\ forall n, In n l -> sd_in (sc_nt s') n.
Proof.
  induction l as [|x l IH]; intros s s' o H; cbn [mfor] in H.
  - unfold ret in H. inv H. split; [apply FR_refl|]. split; [reflexivity|]. split; [reflexivity|intros n []].
  - mbo H s1 o1 a o2 H1. destruct a.
    destruct (shutdown_fr _ _ _ _ H1) as (F1 & A1 & W1 & S1).
    destruct (IH _ _ _ H) as (F2 & A2 & W2 & S2).
    split; [eapply FR_trans; eauto|]. split; [congruence|]. split; [congruence|].
    intros n [<-|Hn]; [apply (fr_sd _ _ F2); exact S1|apply S2; exact Hn].
Qed.

(* _assign_work_unit *)
Lemma assign_shape n s s' o :
  sc_assign_work_unit n s = (s', o, Ok tt) ->
  exists x wq' w', sc_wq s = x :: wq' /\ s' = sc_set_assigned (sc_set_wq s wq') (aset n w' (sc_assigned s)).
Proof.
  intros H.
  unfold sc_assign_work_unit, node_send, node_flags, mbind, get, put, of_opt, ret, raise, emit in H.
  destruct (sc_wq s) as [|[scope u] wq'] eqn:Ewq; [inv H|].
  cbn -[aset aget opt_map filter] in H.
  destruct (aget n (sc_reg s)) as [wcoll|]; cbn -[aset aget opt_map filter] in H; [|inv H].
  destruct (opt_map _ _) as [ixs|]; cbn -[aset aget opt_map filter] in H; [|inv H].
  destruct (aget n (sc_nt s)) as [c|]; cbn -[aset aget opt_map filter] in H; [|inv H].
  destruct (n_closed c); cbn -[aset aget opt_map filter] in H; inv H; eexists; eexists; eexists; split; reflexivity.
Qed.

Lemma assign_fr n s s' o :
  In n (akeys (sc_assigned s)) -> sc_assign_work_unit n s = (s', o, Ok tt) -> FR s s' /\ TCH [n] s s'.
Proof.
  intros Hn H. destruct (assign_shape _ _ _ _ H) as (x & wq' & w' & Ewq & ->).
  apply aget_In_keys in Hn. destruct (aget n (sc_assigned s)) as [cur|] eqn:Ec; [|contradiction].
  split.
  - constructor; cbn [sc_set_assigned sc_set_wq sc_reg sc_numnodes sc_coll sc_assigned sc_wq sc_nt]; auto.
    + eapply akeys_aset_has; eauto.
    + exists [x]. exact Ewq.
    + eauto.
  - intros m Hm. cbn [sc_set_assigned sc_assigned]. apply FifoProofs.aget_aset_neq. intros ->. apply Hm. left. reflexivity.
Qed.

Lemma top_up_fr fuel n : forall s s' o,
  In n (akeys (sc_assigned s)) -> sc_top_up fuel n s = (s', o, Ok tt) -> FR s s' /\ TCH [n] s s'.
Proof.
  induction fuel as [|f IH]; intros s s' o Hn H; cbn [sc_top_up] in H.
  - unfold ret in H. inv H. split; [apply FR_refl|apply TCH_refl].
  - rewrite mbind_get_eq in H. destruct (sc_wq s) as [|x wq'] eqn:Ewq.
    { unfold ret in H. inv H. split; [apply FR_refl|apply TCH_refl]. }
    mbo H t2 p3 w p4 Hw.
    destruct (aget n (sc_assigned s)) as [w0|] eqn:Ea; [|unfold of_opt, raise in Hw; inv Hw].
    unfold of_opt, ret in Hw. inv Hw.
    destruct (pending_of w <? 2).
    + mbo H t3 p5 a5 p6 Has. destruct a5.
      destruct (assign_fr _ _ _ _ Hn Has) as (F1 & T1).
      assert (Hn1 : In n (akeys (sc_assigned t3))) by (rewrite (fr_keys _ _ F1); exact Hn).
      destruct (IH _ _ _ Hn1 H) as (F2 & T2').
      split; [eapply FR_trans; eauto|eapply TCH_trans; eauto].
    + unfold ret in H. inv H. split; [apply FR_refl|apply TCH_refl].
Qed.

Lemma shutting_down_same n s t p sd :
  node_shutting_down sc_nt n s = (t, p, Ok sd) ->
  t = s /\ exists c, aget n (sc_nt s) = Some c /\ sd = shutting_down c.
Proof.
  intros H. unfold node_shutting_down, node_flags, mbind, get, of_opt, ret, raise in H.
  destruct (aget n (sc_nt s)) as [c|]; cbn in H; inv H. eauto.
Qed.

(* _reschedule(node) *)
Lemma resched_fr n s s' o : sc_reschedule n s = (s', o, Ok tt) -> FR s s' /\ TCH [n] s s'.
Proof.
  intros H. unfold sc_reschedule in H.
  mbo H t1 p1 sd p2 Hsd. destruct (shutting_down_same _ _ _ _ _ Hsd) as (-> & c & Ec & ->).
  destruct (shutting_down c).
  { unfold ret in H. inv H. split; [apply FR_refl|apply TCH_refl]. }
  rewrite mbind_get_eq in H.
  destruct (sc_wq s) as [|x wq'] eqn:Ewq.
  { destruct (shutdown_fr _ _ _ _ H) as (F & A & _). split; [exact F|]. intros m _. rewrite A. reflexivity. }
  destruct (negb (ahas n (sc_reg s))).
  { unfold ret in H. inv H. split; [apply FR_refl|apply TCH_refl]. }
  mbo H t3 p5 w0 p6 Hw.
  destruct (aget n (sc_assigned s)) as [w1|] eqn:Ea; [|unfold of_opt, raise in Hw; inv Hw].
  unfold of_opt, ret in Hw. injection Hw as <- <- <-. cbn [app] in *.
  destruct (2 <? pending_of w1).
  { unfold ret in H. inv H. split; [apply FR_refl|apply TCH_refl]. }
  assert (Hn : In n (akeys (sc_assigned s))) by (eapply FifoProofs.aget_some_in; eauto).
  mbo H t4 p7 a7 p8 Has. destruct a7.
  destruct (assign_fr _ _ _ _ Hn Has) as (F1 & T1).
  rewrite mbind_get_eq in H.
  assert (Hn1 : In n (akeys (sc_assigned t4))) by (rewrite (fr_keys _ _ F1); exact Hn).
  destruct (top_up_fr _ _ _ _ _ Hn1 H) as (F2 & T2').
  split; [eapply FR_trans; eauto|eapply TCH_trans; eauto].
Qed.

Lemma mfor_resched_fr l : forall s s' o,
  mfor l sc_reschedule s = (s', o, Ok tt) -> FR s s' /\ TCH l s s'.
Proof.
  induction l as [|x l IH]; intros s s' o H; cbn [mfor] in H.
  - unfold ret in H. inv H. split; [apply FR_refl|apply TCH_refl].
  - mbo H s1 o1 a o2 H1. destruct a.
    destruct (resched_fr _ _ _ _ H1) as (F1 & T1). destruct (IH _ _ _ H) as (F2 & T2').
    split; [eapply FR_trans; eauto|].
    eapply TCH_trans; [eapply TCH_weaken; [|exact T1]|eapply TCH_weaken; [|exact T2']].
    + intros y [<-|[]]. left. reflexivity.
    + intros y Hy. right. exact Hy.
Qed.

Lemma mfor_assign_fr l : forall s s' o,
  (forall n, In n l -> In n (akeys (sc_assigned s))) ->
  mfor l sc_assign_work_unit s = (s', o, Ok tt) -> FR s s'.
Proof.
  induction l as [|x l IH]; intros s s' o Hl H; cbn [mfor] in H.
  - unfold ret in H. inv H. apply FR_refl.
  - mbo H s1 o1 a o2 H1. destruct a.
    destruct (assign_fr _ _ _ _ (Hl x (or_introl eq_refl)) H1) as (F1 & _).
    eapply FR_trans; [exact F1|]. eapply IH; [|exact H].
    intros n Hn. rewrite (fr_keys _ _ F1). apply Hl. right. exact Hn.
Qed.

(* ====================================================================================== *)
(* A.2 the "two tests" law                                                                  *)
(* ====================================================================================== *)
(* while the work queue is not empty, every registered node (outside E) that has reported its collection
   and is not shutting down holds at least two pending tests *)
Definition T2 (E : nat -> Prop) (s : scstate) : Prop :=
  sc_wq s <> [] -> forall m f w, ~ E m -> aget m (sc_assigned s) = Some w -> aget m (sc_nt s) = Some f ->
  shutting_down f = false -> ahas m (sc_reg s) = true -> 2 <= pending_of w.
Definition TwoS (s : scstate) : Prop := T2 (fun _ => False) s.

Lemma T2_all s : T2 (fun _ => True) s.
Proof. intros _ m f w F. exfalso. apply F. exact I. Qed.

Lemma T2_weaken (E E' : nat -> Prop) s : (forall m, E m -> E' m) -> T2 E s -> T2 E' s.
Proof. intros H T Hp m f w Hm. apply (T Hp). intros F. apply Hm. apply H. exact F. Qed.

Lemma T2_wq_empty E s : sc_wq s = [] -> T2 E s.
Proof. intros E0 Hp. contradiction. Qed.

Lemma app_ne_r' {A} (a b : list A) : b <> [] -> a ++ b <> [].
Proof. intros H F. apply app_eq_nil in F. tauto. Qed.

(* steps that change flags only *)
Lemma T2_FR_same E s s' : FR s s' -> sc_assigned s' = sc_assigned s -> T2 E s -> T2 E s'.
Proof.
  intros F Ea T Hp m f' w Hm Ew Ef' Hsd Hc. destruct (fr_wq _ _ F) as (mv & Emv).
  assert (Hp0 : sc_wq s <> []) by (rewrite Emv; apply app_ne_r'; exact Hp).
  destruct (fr_nsd _ _ F m f' Ef' Hsd) as (f & Ef & Hs). rewrite Ea in Ew. rewrite (fr_reg _ _ F) in Hc.
  exact (T Hp0 m f w Hm Ew Ef Hs Hc).
Qed.

(* one rescheduling decision for node n repairs the law at n and keeps it elsewhere *)
Lemma T2_resched n E s s' o :
  sc_reschedule n s = (s', o, Ok tt) -> T2 E s -> T2 (fun m => E m /\ m <> n) s'.
Proof.
  intros H T Hp m f' w' Hm Ew' Ef' Hsd Hc.
  destruct (resched_fr _ _ _ _ H) as (F & TC). destruct (fr_wq _ _ F) as (mv & Emv).
  assert (Hp0 : sc_wq s <> []) by (rewrite Emv; apply app_ne_r'; exact Hp).
  destruct (fr_nsd _ _ F m f' Ef' Hsd) as (f & Ef & Hs). rewrite (fr_reg _ _ F) in Hc.
  destruct (Nat.eq_dec m n) as [->|Hne].
  - assert (Hk : In n (akeys (sc_assigned s))) by (rewrite <- (fr_keys _ _ F); eapply FifoProofs.aget_some_in; eauto).
    apply aget_In_keys in Hk. destruct (aget n (sc_assigned s)) as [w|] eqn:Ew; [|contradiction].
    destruct (LivenessLaws.V4_scope_reschedule n s s' o f w H Ef Hs Hc Ew) as [(c' & Ec' & Hs')|[(w2 & Ew2 & Hl)|F0]].
    + congruence.
    + congruence.
    + contradiction.
  - rewrite (TC m) in Ew' by (intros [X|[]]; congruence).
    apply (T Hp0 m f w'); [intros X; apply Hm; split; assumption|exact Ew'|exact Ef|exact Hs|exact Hc].
Qed.

Lemma T2_mfor l : forall E s s' o,
  mfor l sc_reschedule s = (s', o, Ok tt) -> T2 E s -> T2 (fun m => E m /\ ~ In m l) s'.
Proof.
  induction l as [|x l IH]; intros E s s' o H T; cbn [mfor] in H.
  - unfold ret in H. inv H. eapply T2_weaken; [|exact T]. intros m Hm. split; [exact Hm|intros []].
  - mbo H s1 o1 a o2 H1. destruct a.
    pose proof (T2_resched _ _ _ _ _ H1 T) as T1. pose proof (IH _ _ _ _ H T1) as T2'.
    eapply T2_weaken; [|exact T2']. intros m ((A & C) & B). split; [exact A|].
    intros [F|F]; [apply C; symmetry; exact F|exact (B F)].
Qed.

(* the rescheduling loop over all registered nodes establishes the law, whatever held before *)
Lemma two_all s s' o :
  mfor (akeys (sc_assigned s)) sc_reschedule s = (s', o, Ok tt) -> TwoS s'.
Proof.
  intros H. pose proof (T2_mfor _ _ _ _ _ H (T2_all s)) as T.
  destruct (mfor_resched_fr _ _ _ _ H) as (F & _).
  intros Hp m f w _ Ew. apply (T Hp m f w); [|exact Ew]. intros (_ & X). apply X.
  rewrite <- (fr_keys _ _ F). eapply FifoProofs.aget_some_in; eauto.
Qed.

(* ====================================================================================== *)
(* A.3 the operations of the scheduler                                                      *)
(* ====================================================================================== *)
Lemma mbind_raise_eq {St A B} e (k : A -> M St B) s : mbind (raise e) k s = (s, [], Err e).
Proof. reflexivity. Qed.

(* ---- mark_test_complete: the flagging, then _reschedule ---- *)
Lemma complete_shape n i s s' o :
  sc_mark_test_complete n i s = (s', o, Ok tt) ->
  exists w w1, aget n (sc_assigned s) = Some w /\
    sc_reschedule n (sc_set_assigned s (aset n w1 (sc_assigned s))) = (s', o, Ok tt).
Proof.
  intros H. unfold sc_mark_test_complete in H. rewrite mbind_get_eq in H.
  destruct (aget n (sc_reg s)) as [wc|]; cbn [of_opt] in H; [rewrite mbind_ret_eq in H|rewrite mbind_raise_eq in H; discriminate].
  destruct (nth_error wc i) as [nid|]; cbn [of_opt] in H; [rewrite mbind_ret_eq in H|rewrite mbind_raise_eq in H; discriminate].
  cbv zeta in H.
  destruct (aget n (sc_assigned s)) as [w|] eqn:Ew; cbn [of_opt] in H; [rewrite mbind_ret_eq in H|rewrite mbind_raise_eq in H; discriminate].
  destruct (sget (split_of (sc_kind s) nid) w) as [u|]; cbn [of_opt] in H; [rewrite mbind_ret_eq in H|rewrite mbind_raise_eq in H; discriminate].
  rewrite mbind_put_eq in H. eexists. eexists. split; [reflexivity|exact H].
Qed.

Lemma FR_set_assigned s n w w1 :
  aget n (sc_assigned s) = Some w ->
  FR s (sc_set_assigned s (aset n w1 (sc_assigned s))) /\ TCH [n] s (sc_set_assigned s (aset n w1 (sc_assigned s))).
Proof.
  intros Ew. split.
  - constructor; cbn [sc_set_assigned sc_reg sc_numnodes sc_coll sc_assigned sc_wq sc_nt]; auto.
    + eapply akeys_aset_has; eauto.
    + exists []. reflexivity.
    + eauto.
  - intros m Hm. cbn [sc_set_assigned sc_assigned]. apply FifoProofs.aget_aset_neq. intros ->. apply Hm. left. reflexivity.
Qed.

Lemma two_complete n i s s' o :
  sc_mark_test_complete n i s = (s', o, Ok tt) -> FR s s' /\ (TwoS s -> TwoS s').
Proof.
  intros H. destruct (complete_shape _ _ _ _ _ H) as (w & w1 & Ew & Hr).
  destruct (FR_set_assigned s n w w1 Ew) as (F1 & T1). destruct (resched_fr _ _ _ _ Hr) as (F2 & _).
  split; [eapply FR_trans; eauto|]. intros T.
  assert (T0 : T2 (fun m => m = n) (sc_set_assigned s (aset n w1 (sc_assigned s)))).
  { intros Hp m f b Hm Eb Ef Hsd Hc. cbn [sc_set_assigned sc_assigned sc_nt sc_reg sc_wq] in *.
    rewrite FifoProofs.aget_aset_neq in Eb by exact Hm. apply (T Hp m f b); auto. }
  eapply T2_weaken; [|exact (T2_resched _ _ _ _ _ Hr T0)]. intros m (A & B). contradiction.
Qed.

(* ---- remove_node ---- *)
Lemma after_removal_fields n s w :
  sc_nt (after_removal n s w) = sc_nt s /\ sc_numnodes (after_removal n s w) = sc_numnodes s /\
  sc_coll (after_removal n s w) = sc_coll s /\ sc_assigned (after_removal n s w) = adel n (sc_assigned s) /\
  sc_reg (after_removal n s w) = (if sc_collection_is_completed s then sc_reg s else adel n (sc_reg s)).
Proof.
  unfold after_removal. cbv zeta.
  change (sc_collection_is_completed (sc_set_assigned s (adel n (sc_assigned s)))) with (sc_collection_is_completed s).
  destruct (sc_collection_is_completed s); cbn; auto 10.
Qed.

Lemma remove_split n s s' o x :
  sc_remove_node n s = (s', o, Ok x) ->
  exists s1, sc_nt s1 = sc_nt s /\ sc_numnodes s1 = sc_numnodes s /\ sc_coll s1 = sc_coll s /\
    sc_assigned s1 = adel n (sc_assigned s) /\
    sc_reg s1 = (if sc_collection_is_completed s then sc_reg s else adel n (sc_reg s)) /\
    ((s' = s1 /\ sc_wq s1 = sc_wq s) \/ mfor (akeys (sc_assigned s1)) sc_reschedule s1 = (s', o, Ok tt)).
Proof.
  intros H. destruct (aget n (sc_assigned s)) as [w|] eqn:Ew.
  2:{ unfold sc_remove_node in H. rewrite mbind_get_eq, Ew in H. cbn [of_opt] in H. rewrite mbind_raise_eq in H. discriminate. }
  destruct (pending_of w =? 0) eqn:Ep.
  - unfold sc_remove_node in H. rewrite mbind_get_eq, Ew in H. cbn [of_opt] in H.
    rewrite mbind_ret_eq, mbind_put_eq in H.
    set (sA := sc_set_assigned s (adel n (sc_assigned s))) in *.
    set (sB := if sc_collection_is_completed sA then sA else sc_set_reg sA (adel n (sc_reg sA))).
    rewrite mbind_step with (s1 := sB) (a := tt) in H.
    2:{ rewrite mbind_get_eq. subst sB. destruct (sc_collection_is_completed sA); reflexivity. }
    rewrite Ep in H. unfold ret in H. inv H.
    assert (Ecomp : sc_collection_is_completed sA = sc_collection_is_completed s) by reflexivity.
    exists sB. subst sB. rewrite Ecomp. destruct (sc_collection_is_completed s); cbn; auto 10.
  - apply Nat.eqb_neq in Ep. destruct (pending_first_undone w Ep) as (c & Hc).
    rewrite (remove_node_crash_unfold n s w c Ew Ep Hc) in H.
    destruct (after_removal_fields n s w) as (A1 & A2 & A3 & A4 & A5).
    exists (after_removal n s w). repeat (split; [assumption|]). right.
    mbo H s2 o1 a o2 H1. destruct a. unfold ret in H. inv H. rewrite app_nil_r. exact H1.
Qed.

Lemma ahas_adel_back' {V} n m (mp : amap V) : ahas m (adel n mp) = true -> ahas m mp = true.
Proof. apply CrashProgress.ahas_adel_back. Qed.

(* what remove_node keeps *)
Record RM (n : nat) (s s' : scstate) : Prop := {
  rm_num : sc_numnodes s' = sc_numnodes s;
  rm_coll : sc_coll s' = sc_coll s;
  rm_nodes : forall m, In m (sc_nodes s) -> m <> n -> In m (sc_nodes s');
  rm_nodes_b : forall m, In m (sc_nodes s') -> In m (sc_nodes s) /\ m <> n;
  rm_reg : forall m, In m (akeys (sc_reg s)) -> m <> n -> In m (akeys (sc_reg s'));
  rm_comp : sc_collection_is_completed s = true -> sc_collection_is_completed s' = true;
  rm_sd : forall m, sd_in (sc_nt s) m -> sd_in (sc_nt s') m;
  rm_two : TwoS s -> TwoS s';
}.

Lemma remove_rm n s s' o x :
  NoDup (sc_nodes s) -> sc_remove_node n s = (s', o, Ok x) -> RM n s s'.
Proof.
  intros ND H. destruct (remove_split _ _ _ _ _ H) as (s1 & Ent & Enum & Ecoll & Eas & Ereg & Hrest).
  assert (N1 : forall m, In m (sc_nodes s) -> m <> n -> In m (sc_nodes s1)).
  { intros m Hm Hne. unfold sc_nodes in *. rewrite Eas. apply Progress.in_akeys_adel_neq; assumption. }
  assert (N1b : forall m, In m (sc_nodes s1) -> In m (sc_nodes s) /\ m <> n).
  { intros m Hm. unfold sc_nodes in *. rewrite Eas in Hm. apply akeys_adel_neq; assumption. }
  assert (R1 : forall m, In m (akeys (sc_reg s)) -> m <> n -> In m (akeys (sc_reg s1))).
  { intros m Hm Hne. rewrite Ereg. destruct (sc_collection_is_completed s); [exact Hm|].
    apply Progress.in_akeys_adel_neq; assumption. }
  assert (C1 : sc_collection_is_completed s = true -> sc_collection_is_completed s1 = true).
  { intros C. unfold sc_collection_is_completed in *. rewrite Ereg, Enum. unfold sc_collection_is_completed. rewrite C. exact C. }
  assert (T1 : sc_wq s1 = sc_wq s -> TwoS s -> TwoS s1).
  { intros Ewq T Hp m f b _ Eb Ef Hsd Hc. rewrite Ewq in Hp. rewrite Ent in Ef. rewrite Eas in Eb.
    destruct (Nat.eq_dec m n) as [->|Hne].
    - unfold sc_nodes in ND. rewrite (Coupling.aget_adel_eq n _ ND) in Eb. discriminate.
    - rewrite Coupling.aget_adel_neq in Eb by exact Hne. apply (T Hp m f b); auto.
      rewrite Ereg in Hc. destruct (sc_collection_is_completed s); [exact Hc|eapply ahas_adel_back'; eauto]. }
  destruct Hrest as [(-> & Ewq)|Hm].
  - constructor; auto. rewrite Ent. auto.
  - destruct (mfor_resched_fr _ _ _ _ Hm) as (F & _).
    assert (K : sc_nodes s' = sc_nodes s1) by (unfold sc_nodes; apply (fr_keys _ _ F)).
    constructor.
    + rewrite (fr_num _ _ F). exact Enum.
    + rewrite (fr_coll _ _ F). exact Ecoll.
    + intros m A B. rewrite K. auto.
    + intros m A. rewrite K in A. auto.
    + intros m A B. rewrite (fr_reg _ _ F). auto.
    + intros C. unfold sc_collection_is_completed. rewrite (fr_reg _ _ F), (fr_num _ _ F). apply C1. exact C.
    + intros m A. apply (fr_sd _ _ F). rewrite Ent. exact A.
    + intros _. eapply two_all. exact Hm.
Qed.

(* ---- add_node ---- *)
Lemma add_node_shape n s s' o :
  sc_add_node n s = (s', o, Ok tt) ->
  ahas n (sc_assigned s) = false /\ s' = sc_set_assigned s (aset n [] (sc_assigned s)).
Proof.
  intros H. unfold sc_add_node in H. rewrite mbind_get_eq in H.
  destruct (ahas n (sc_assigned s)); cbn [negb massert] in H; [rewrite mbind_raise_eq in H; discriminate|].
  rewrite mbind_ret_eq in H. unfold put in H. inv H. auto.
Qed.

Lemma two_add_node n s s' o :
  sc_add_node n s = (s', o, Ok tt) -> ahas n (sc_reg s) = false -> TwoS s -> TwoS s'.
Proof.
  intros H Hn T. destruct (add_node_shape _ _ _ _ H) as (_ & ->).
  intros Hp m f b _ Eb Ef Hsd Hc. cbn [sc_set_assigned sc_assigned sc_nt sc_reg sc_wq] in *.
  rewrite LoadProofs.aget_aset in Eb. destruct (Nat.eqb m n) eqn:Em.
  - apply Nat.eqb_eq in Em. subst m. congruence.
  - apply (T Hp m f b); auto.
Qed.

(* ---- add_node_collection ---- *)
Lemma add_coll_shape n coll s s' o :
  sc_add_node_collection n coll s = (s', o, Ok tt) ->
  s' = sc_set_reg s (aset n coll (sc_reg s)) \/
  (sc_collection_is_completed s = true /\ sc_coll s <> None /\
   exists o2, node_shutdown sc_nt sc_set_nt n s = (s', o2, Ok tt)).
Proof.
  intros H. unfold sc_add_node_collection in H. rewrite mbind_get_eq in H.
  destruct (ahas n (sc_assigned s)); cbn [massert] in H; [rewrite mbind_ret_eq in H|rewrite mbind_raise_eq in H; discriminate].
  destruct (sc_collection_is_completed s) eqn:Hc.
  - destruct (sc_coll s) as [[|c0 cr]|] eqn:Ecl; try (unfold raise in H; discriminate).
    destruct (coll_eqb coll (c0 :: cr)).
    + unfold put in H. inv H. left. reflexivity.
    + destruct (first_key (sc_reg s)) as [other|]; cbn [of_opt] in H; [|rewrite mbind_raise_eq in H; discriminate].
      rewrite mbind_ret_eq, mbind_emit_eq in H.
      destruct (node_shutdown sc_nt sc_set_nt n s) as [[s2 o2] r2] eqn:En. inv H.
      right. split; [reflexivity|]. split; [discriminate|]. eauto.
  - unfold put in H. inv H. left. reflexivity.
Qed.

(* ---- schedule(): later calls are the rescheduling loop ---- *)
Lemma schedule_again s s' o :
  sc_schedule s = (s', o, Ok tt) -> sc_coll s <> None ->
  mfor (akeys (sc_assigned s)) sc_reschedule s = (s', o, Ok tt).
Proof.
  intros H Hc. unfold sc_schedule in H. rewrite mbind_get_eq in H.
  destruct (sc_collection_is_completed s); cbn [massert] in H; [rewrite mbind_ret_eq in H|rewrite mbind_raise_eq in H; discriminate].
  destruct (sc_coll s); [exact H|contradiction].
Qed.

Lemma mfor_quiet_state {A} (g : A -> bool) (h : A -> out) l : forall (s s1 : scstate) o r,
  mfor l (fun p => if g p then ret tt else emit (h p)) s = (s1, o, r) -> s1 = s.
Proof.
  induction l as [|p l IH]; intros s s1 o r H; cbn [mfor] in H.
  - unfold ret in H. inv H. reflexivity.
  - destruct (g p).
    + rewrite mbind_ret_eq in H. eapply IH; eauto.
    + rewrite mbind_emit_eq in H. destruct (mfor l _ s) as [[s2 o2] r2] eqn:E. inv H. eapply IH; eauto.
Qed.

Lemma same_collection_state s s1 o r : sc_same_collection s = (s1, o, r) -> s1 = s.
Proof.
  intros H. unfold sc_same_collection in H. rewrite mbind_get_eq in H.
  destruct (sc_reg s) as [|[first col] others]; [unfold raise in H; inv H; reflexivity|].
  apply LoadProofs.mbind_inv in H. destruct H as [(e & H1 & _)|(s2 & o1 & a & o2 & H1 & H2 & _)].
  - exact (mfor_quiet_state (fun p => coll_eqb col (snd p)) (fun p => OCollDiff first (fst p)) _ _ _ _ _ H1).
  - apply (mfor_quiet_state (fun p => coll_eqb col (snd p)) (fun p => OCollDiff first (fst p))) in H1. subst s2.
    unfold ret in H2. inv H2. reflexivity.
Qed.

(* ---- schedule(): the first call (the initial distribution) ---- *)
Lemma pop_extra_fr k : forall s s' o,
  sc_pop_extra k s = (s', o, Ok tt) ->
  sc_reg s' = sc_reg s /\ sc_numnodes s' = sc_numnodes s /\ sc_wq s' = sc_wq s /\
  (forall m, sd_in (sc_nt s) m -> sd_in (sc_nt s') m) /\
  (forall m, In m (sc_nodes s) -> In m (sc_nodes s') \/ sd_in (sc_nt s') m).
Proof.
  induction k as [|k IH]; intros s s' o H; cbn [sc_pop_extra] in H.
  - unfold ret in H. inv H. auto 10.
  - rewrite mbind_get_eq in H.
    destruct (rev (sc_assigned s)) as [|[n w] r'] eqn:Er; [unfold raise in H; discriminate|].
    assert (Ea : sc_assigned s = rev r' ++ [(n, w)]).
    { rewrite <- (rev_involutive (sc_assigned s)), Er. reflexivity. }
    rewrite mbind_put_eq in H. rewrite Ea, removelast_last in H.
    mbo H s1 o1 a1 o2 H1. destruct a1.
    destruct (LivenessLaws.g_node_shutdown_post scstate sc_nt sc_set_nt (fun _ _ => eq_refl) _ _ _ _ H1)
      as (A1 & _ & M1 & F1).
    assert (Eas : sc_assigned s1 = rev r') by (apply (F1 _ sc_assigned); reflexivity).
    assert (Er1 : sc_reg s1 = sc_reg s) by (apply (F1 _ sc_reg); reflexivity).
    assert (En1 : sc_numnodes s1 = sc_numnodes s) by (apply (F1 _ sc_numnodes); reflexivity).
    assert (Ew1 : sc_wq s1 = sc_wq s) by (apply (F1 _ sc_wq); reflexivity).
    destruct (IH _ _ _ H) as (B1 & B2 & B3 & M2 & K2).
    split; [congruence|]. split; [congruence|]. split; [congruence|]. split.
    + intros m Hm. apply M2, M1. exact Hm.
    + intros m Hm. unfold sc_nodes in Hm. rewrite Ea, akeys_app in Hm. apply in_app_or in Hm.
      destruct Hm as [Hm|[<-|[]]].
      * apply K2. unfold sc_nodes. rewrite Eas. exact Hm.
      * right. apply M2. exact A1.
Qed.

Lemma schedule_first s s' o :
  sc_schedule s = (s', o, Ok tt) -> sc_coll s = None -> sc_wq s = [] ->
  sc_reg s' = sc_reg s /\ sc_numnodes s' = sc_numnodes s /\
  (forall m, sd_in (sc_nt s) m -> sd_in (sc_nt s') m) /\
  (forall m, In m (sc_nodes s) -> In m (sc_nodes s') \/ sd_in (sc_nt s') m) /\ TwoS s'.
Proof.
  intros H Ec Ewq. unfold sc_schedule in H. rewrite mbind_get_eq in H.
  destruct (sc_collection_is_completed s); cbn [massert] in H; [rewrite mbind_ret_eq in H|rewrite mbind_raise_eq in H; discriminate].
  rewrite Ec in H.
  mbo H t1 p1 same p2 Hs. apply same_collection_state in Hs. subst t1.
  assert (TRIV : forall t, sc_reg t = sc_reg s -> sc_numnodes t = sc_numnodes s -> sc_nt t = sc_nt s ->
            sc_assigned t = sc_assigned s -> sc_wq t = [] ->
            sc_reg t = sc_reg s /\ sc_numnodes t = sc_numnodes s /\
            (forall m, sd_in (sc_nt s) m -> sd_in (sc_nt t) m) /\
            (forall m, In m (sc_nodes s) -> In m (sc_nodes t) \/ sd_in (sc_nt t) m) /\ TwoS t).
  { intros t A B C D E. split; [exact A|]. split; [exact B|]. split; [rewrite C; auto|].
    split; [unfold sc_nodes; rewrite D; auto|]. apply T2_wq_empty. exact E. }
  destruct same; cbn [negb] in H.
  2:{ unfold ret in H. inv H. apply TRIV; auto. }
  rewrite mbind_get_eq in H.
  destruct (sc_reg s) as [|[k0 c] others] eqn:Er; cbn [of_opt] in H; [rewrite mbind_raise_eq in H; discriminate|].
  rewrite mbind_ret_eq, mbind_put_eq in H.
  destruct c as [|c0 cr].
  { unfold ret in H. inv H. apply TRIV; auto. }
  rewrite mbind_get_eq, mbind_put_eq, mbind_get_eq in H.
  match type of H with mbind (sc_pop_extra _) _ ?st = _ => set (s3 := st) in * end.
  mbo H s4 o4 a4 q4 Hpop. destruct a4. rewrite mbind_get_eq in H.
  mbo H s5 o5 a5 q5 Hass. destruct a5. rewrite mbind_get_eq in H.
  mbo H s6 o6 a6 q6 Hres. destruct a6. rewrite mbind_get_eq in H.
  destruct (pop_extra_fr _ _ _ _ Hpop) as (P1 & P2 & P3 & P4 & P5).
  assert (F5 : FR s4 s5) by (eapply mfor_assign_fr; [|exact Hass]; intros n Hn; exact Hn).
  destruct (mfor_resched_fr _ _ _ _ Hres) as (F6 & _).
  pose proof (two_all _ _ _ Hres) as T6.
  assert (FIN : FR s6 s' /\ sc_assigned s' = sc_assigned s6).
  { destruct (sc_wq s6).
    - destruct (mfor_shutdown_fr _ _ _ _ H) as (F7 & A7 & _). auto.
    - unfold ret in H. inv H. split; [apply FR_refl|reflexivity]. }
  destruct FIN as (F7 & A7).
  pose proof (FR_trans _ _ _ F5 (FR_trans _ _ _ F6 F7)) as F.
  assert (E3 : sc_reg s3 = sc_reg s /\ sc_numnodes s3 = sc_numnodes s /\ sc_nt s3 = sc_nt s /\ sc_nodes s3 = sc_nodes s).
  { subst s3. cbn. rewrite Er. auto. }
  destruct E3 as (E31 & E32 & E33 & E34).
  split; [rewrite (fr_reg _ _ F); congruence|]. split; [rewrite (fr_num _ _ F); congruence|]. split; [|split].
  - intros m Hm. apply (fr_sd _ _ F). apply P4. rewrite E33. exact Hm.
  - intros m Hm. rewrite <- E34 in Hm. destruct (P5 m Hm) as [X|X].
    + left. unfold sc_nodes in *. rewrite (fr_keys _ _ F). exact X.
    + right. apply (fr_sd _ _ F). exact X.
  - exact (T2_FR_same _ s6 s' F7 A7 T6).
Qed.

(* ---- triggershutdown / clone: the node table only ---- *)
Lemma T2_new_nt E s G f :
  ~ In G (akeys (sc_assigned s)) -> T2 E s -> T2 E (sc_set_nt s (aset G f (sc_nt s))).
Proof.
  intros HG T Hp m f' b Hm Eb Ef' Hsd Hc. cbn [sc_set_nt sc_assigned sc_nt sc_reg sc_wq] in *.
  rewrite LoadProofs.aget_aset in Ef'. destruct (Nat.eqb m G) eqn:Em.
  - apply Nat.eqb_eq in Em. subst m. exfalso. apply HG. eapply FifoProofs.aget_some_in; eauto.
  - apply (T Hp m f' b); auto.
Qed.


(* ###################################### part B ###################################### *)

Notation fin_or_err := CrashProgress.fin_or_err.

Definition allsd (cs : scstate) : Prop := forall m, In m (sc_nodes cs) -> sd_in (sc_nt cs) m.

Lemma completed_FR s s' : FR s s' -> sc_collection_is_completed s' = sc_collection_is_completed s.
Proof. intros F. unfold sc_collection_is_completed. rewrite (fr_reg _ _ F), (fr_num _ _ F). reflexivity. Qed.

Lemma nodes_FR s s' : FR s s' -> sc_nodes s' = sc_nodes s.
Proof. intros F. exact (fr_keys _ _ F). Qed.

(* triggershutdown: only flags change, every registered node is told (when the flag was not set before) *)
Lemma trigger_shape_s d cs d' o :
  d_sched d = StC cs -> d_triggershutdown d = (d', o, Ok tt) ->
  exists cs', d' = d_withc d true cs' /\ FR cs cs' /\ sc_assigned cs' = sc_assigned cs /\ sc_wq cs' = sc_wq cs /\
    (d_shuttingdown d = true -> cs' = cs) /\ (d_shuttingdown d = false -> allsd cs').
Proof.
  intros Els H. unfold d_triggershutdown in H. unfold mbind at 1, get in H.
  destruct (d_shuttingdown d) eqn:Esd.
  - unfold ret in H. injection H as <- <-. exists cs. split.
    { unfold d_withc. destruct d; cbn in *; subst; reflexivity. }
    split; [apply FR_refl|]. repeat split; auto. discriminate.
  - unfold mbind, put in H.
    rewrite (mfor_liftC d_node_shutdown (fun n => node_shutdown sc_nt sc_set_nt n) _ d_node_shutdown_liftc
               (d_set_shuttingdown d true) cs) in H by exact Els.
    rewrite Els in H. cbn [s_nodes] in H.
    destruct (mfor (sc_nodes cs) (fun n => node_shutdown sc_nt sc_set_nt n) cs) as [[cs2 o2] r2] eqn:Em.
    cbn [liftC app] in H. inv H.
    destruct (mfor_shutdown_fr _ _ _ _ Em) as (F & A & W & S).
    exists cs2. split; [reflexivity|]. split; [exact F|]. split; [exact A|]. split; [exact W|].
    split; [discriminate|]. intros _ m Hm. apply S. unfold sc_nodes in *. rewrite A in Hm. exact Hm.
Qed.

Lemma active_remove_shape n d d' o :
  d_active_remove n d = (d', o, Ok tt) ->
  In n (d_active d) /\ d' = d_set_active d (filter (fun m => negb (Nat.eqb m n)) (d_active d)) /\ o = [].
Proof.
  intros H. unfold d_active_remove in H. rewrite mbind_get in H.
  destruct (mem_nat n (d_active d)) eqn:E; [|unfold raise in H; discriminate].
  unfold put in H. inv H. split; [apply mem_nat_In; exact E|auto].
Qed.

(* ---- what a handler guarantees beyond HEFFx ---- *)
Record HXs (ev : cevent) (d : dstate) (cs : scstate) (d1 : dstate) (cs1 : scstate) : Prop := {
  hs_fin : forall m sk, ev = QFinished m sk -> ~ In m (d_active d1);
  hs_nodes : forall m, In m (sc_nodes cs) -> In m (sc_nodes cs1) \/ fin_or_err ev m \/ sd_in (sc_nt cs1) m;
  hs_ready : forall n, ev = QReady n ->
             if d_shuttingdown d then sd_in (sc_nt cs1) n else In n (sc_nodes cs1);
  hs_cf : forall n ids, ev = QCollFinish n ids -> d_shuttingdown d = false -> In n (sc_nodes cs) ->
          In n (akeys (sc_reg cs1)) \/ sd_in (sc_nt cs1) n;
  hs_n2c : forall m, In m (akeys (sc_reg cs)) -> In m (akeys (sc_reg cs1)) \/ fin_or_err ev m;
  hs_two : (forall n, ev = QReady n -> ~ In n (akeys (sc_reg cs))) -> TwoS cs -> TwoS cs1;
  hs_sdsame : (forall n, ev <> QErrorDown n) -> d_shuttingdown d1 = d_shuttingdown d;
  hs_sderr : d_shuttingdown d = false -> d_shuttingdown d1 = true -> allsd cs1;
  hs_comp : sc_collection_is_completed cs = true -> sc_collection_is_completed cs1 = true;
  hs_clone : forall n, ev = QErrorDown n -> exhausted d1 = false -> d_next_gw d1 = S (d_next_gw d);
}.

Lemma hs_same ev d cs d1 :
  d_shuttingdown d1 = d_shuttingdown d ->
  (forall m sk, ev <> QFinished m sk) -> (forall n, ev <> QReady n) -> (forall n, ev <> QErrorDown n) ->
  (forall n ids, ev = QCollFinish n ids -> d_shuttingdown d = false -> In n (sc_nodes cs) -> False) ->
  HXs ev d cs d1 cs.
Proof.
  intros S2 Hf Hr He Hc. constructor; auto.
  - intros m sk E. exfalso. exact (Hf _ _ E).
  - intros n E. exfalso. exact (Hr _ E).
  - intros n ids E A B. exfalso. exact (Hc _ _ E A B).
  - intros A B. congruence.
  - intros n E. exfalso. exact (He _ E).
Qed.

Lemma ahas_false_notin {V} n (m : amap V) : ~ In n (akeys m) -> ahas n m = false.
Proof. intros H. unfold ahas. apply aget_none_keys in H. rewrite H. reflexivity. Qed.

Lemma ahas_true_in {V} n (m : amap V) : ahas n m = true -> In n (akeys m).
Proof. unfold ahas. destruct (aget n m) eqn:E; [intros _; eapply FifoProofs.aget_some_in; eauto|discriminate]. Qed.

(* ---- workerready ---- *)
Lemma hs_ready_ev n d cs d1 o1 cs1 :
  d_sched d = StC cs -> d_handle (QReady n) d = (d1, o1, Ok tt) -> d_sched d1 = StC cs1 ->
  HXs (QReady n) d cs d1 cs1.
Proof.
  intros Els H Els1.
  cbn [d_handle] in H. unfold hook in H. rewrite mbind_emit, mbind_get in H.
  destruct (d_shuttingdown d) eqn:Esd.
  - rewrite (d_node_shutdown_liftc n d cs Els) in H.
    destruct (node_shutdown sc_nt sc_set_nt n cs) as [[cs2 o2] r2] eqn:En. cbn [liftC] in H. inv H.
    cbn in Els1. inv Els1.
    destruct (shutdown_fr _ _ _ _ En) as (F & A & W & S).
    constructor.
    + intros m sk E. discriminate.
    + intros m Hm. left. rewrite (nodes_FR _ _ F). exact Hm.
    + intros n' E. inv E. rewrite Esd. exact S.
    + intros n' ids E. discriminate.
    + intros m Hm. left. rewrite (fr_reg _ _ F). exact Hm.
    + intros _. apply T2_FR_same; assumption.
    + intros _. reflexivity.
    + intros X. cbn in *. congruence.
    + rewrite (completed_FR _ _ F). auto.
    + intros n' E. discriminate.
  - unfold mbind at 1 in H. rewrite (sched_op_runc _ d cs Els) in H. cbn [s_step] in H.
    destruct (sc_add_node n cs) as [[cs2 o2] r2] eqn:Ea. cbn [lift] in H.
    destruct r2 as [[]|e]; [|discriminate]. unfold no_str, ret in H. inv H. cbn in Els1. inv Els1.
    destruct (add_node_shape _ _ _ _ Ea) as (Hno & E2). pose proof Ea as Ea'. subst cs1.
    constructor; cbn [sc_nodes sc_set_assigned sc_assigned sc_reg sc_nt].
    + intros m sk E. discriminate.
    + intros m Hm. left. apply akeys_aset_incl. exact Hm.
    + intros n' E. inv E. rewrite Esd. eapply FifoProofs.aget_some_in. apply FifoProofs.aget_aset_eq.
    + intros n' ids E. discriminate.
    + intros m Hm. left. exact Hm.
    + intros Hn T. eapply two_add_node; [exact Ea'| |exact T]. apply ahas_false_notin. apply (Hn n eq_refl).
    + intros _. reflexivity.
    + intros _ X. cbn in X. congruence.
    + auto.
    + intros n' E. discriminate.
Qed.

(* ---- runtest_protocol_complete ---- *)
Lemma hs_complete_ev n i ms d cs d1 o1 cs1 :
  d_sched d = StC cs -> d_handle (QComplete n i ms) d = (d1, o1, Ok tt) -> d_sched d1 = StC cs1 ->
  HXs (QComplete n i ms) d cs d1 cs1.
Proof.
  intros Els H Els1.
  cbn [d_handle] in H. unfold mbind at 1 in H. rewrite (sched_op_runc _ d cs Els) in H. cbn [s_step] in H.
  destruct (sc_mark_test_complete n i cs) as [[cs2 o2] r2] eqn:Em. cbn [lift] in H.
  destruct r2 as [[]|e]; [|discriminate]. unfold no_str, ret in H. inv H. cbn in Els1. inv Els1.
  destruct (two_complete _ _ _ _ _ Em) as (F & T).
  constructor.
  - intros m sk E. discriminate.
  - intros m Hm. left. rewrite (nodes_FR _ _ F). exact Hm.
  - intros n' E. discriminate.
  - intros n' ids E. discriminate.
  - intros m Hm. left. rewrite (fr_reg _ _ F). exact Hm.
  - intros _. exact T.
  - intros _. reflexivity.
  - intros A B. cbn in B. congruence.
  - rewrite (completed_FR _ _ F). auto.
  - intros n' E. discriminate.
Qed.

(* ---- calls on the scheduler that returned normally ---- *)
Lemma sched_op_remove_ok n d cs d' o r :
  d_sched d = StC cs -> d_sched_op (SRemove n) d = (d', o, Ok r) ->
  exists cs2, sc_remove_node n cs = (cs2, o, Ok r) /\ d' = d_set_sched d (StC cs2).
Proof.
  intros Els H. rewrite (sched_op_runc _ d cs Els) in H. cbn [s_step] in H.
  destruct (sc_remove_node n cs) as [[cs2 o2] [x|e]]; cbn [lift] in H; inv H. eauto.
Qed.

Lemma sched_op_addcoll_ok n ids d cs d' o r :
  d_sched d = StC cs -> d_sched_op (SAddColl n ids) d = (d', o, Ok r) ->
  exists cs2, sc_add_node_collection n ids cs = (cs2, o, Ok tt) /\ d' = d_set_sched d (StC cs2).
Proof.
  intros Els H. rewrite (sched_op_runc _ d cs Els) in H. cbn [s_step] in H.
  destruct (sc_add_node_collection n ids cs) as [[cs2 o2] [[]|e]]; cbn [lift] in H; inv H. eauto.
Qed.

Lemma sched_op_schedule_ok d cs d' o r :
  d_sched d = StC cs -> d_sched_op SSchedule d = (d', o, Ok r) ->
  exists cs2, sc_schedule cs = (cs2, o, Ok tt) /\ d' = d_set_sched d (StC cs2).
Proof.
  intros Els H. rewrite (sched_op_runc _ d cs Els) in H. cbn [s_step] in H.
  destruct (sc_schedule cs) as [[cs2 o2] [[]|e]]; cbn [lift] in H; inv H. eauto.
Qed.

Lemma let3_inv {S A} (t : S * list out * result A) x d1 o1 r :
  (let '(s2, o2, r2) := t in (s2, x :: o2, r2)) = (d1, o1, r) -> exists o2, t = (d1, o2, r) /\ o1 = x :: o2.
Proof. destruct t as [[s2 o2] r2]. intros H. inv H. eauto. Qed.

Lemma RM_absent n cs : ~ In n (sc_nodes cs) -> RM n cs cs.
Proof.
  intros Hn. constructor; auto. intros m Hm. split; [exact Hm|]. intros ->. contradiction.
Qed.

Section CtlQs.
Variable kind : scope_kind.
Variable coll0 : list string.
Variable collf : nat -> list string.
Variable N : nat.
Hypothesis HN : 0 < N.

Notation SJx := (SJx kind coll0 collf N).
Notation DJx := (DJx kind coll0 collf N).
Notation DJ0x := (DJ0x kind coll0 collf N).
Notation PREx := (PREx coll0 collf).
Notation HEFFx := (HEFFx kind coll0 collf N).

(* ---- workerfinished ---- *)
Lemma hs_finished_ev n sk d cs d1 o1 cs1 :
  DJx d cs -> PREx (QFinished n sk) d cs ->
  d_handle (QFinished n sk) d = (d1, o1, Ok tt) -> d_sched d1 = StC cs1 ->
  HXs (QFinished n sk) d cs d1 cs1.
Proof.
  intros (J0 & _) Hpre H Els1. pose proof J0 as [Els J _ _ _ _ _ _ _ _ _ _].
  cbn [d_handle] in H. unfold d_worker_workerfinished, hook in H. rewrite mbind_emit in H.
  destruct sk; cbn [CrashScope.PREx] in Hpre; [| |contradiction].
  - apply let3_inv in H. destruct H as (o2 & E & ->).
    rewrite mbind_get in E. rewrite Els in E. cbn [s_nodes] in E.
    mbo E da oa a ob E1. destruct a.
    apply active_remove_shape in E. destruct E as (Hina & -> & ->).
    assert (STEP : exists cs2, d_sched da = StC cs2 /\ RM n cs cs2 /\ d_shuttingdown da = d_shuttingdown d /\
                   d_active da = d_active d).
    { destruct (mem_nat n (sc_nodes cs)) eqn:Em.
      - mbo E1 db oc r0 od E2. destruct (sched_op_remove_ok _ _ _ _ _ _ Els E2) as (cs2 & Er & ->).
        assert (da = d_set_sched d (StC cs2)).
        { destruct (match r0 with Some s0 => (s0 =? "")%string | None => true end); cbn [massert] in E1;
            [unfold ret in E1; inv E1; reflexivity|unfold raise in E1; discriminate]. }
        subst da. exists cs2. split; [reflexivity|]. split; [|auto].
        eapply remove_rm; [exact (sx_wf _ _ _ _ _ _ J)|exact Er].
      - unfold ret in E1. inv E1. exists cs. split; [exact Els|]. split; [|auto].
        apply RM_absent. apply mem_nat_false. exact Em. }
    destruct STEP as (cs2 & Els2 & R & Sd & Sa).
    cbn [d_sched d_set_active] in Els1. assert (cs1 = cs2) by congruence. subst cs2.
    constructor; cbn [d_active d_set_active d_shuttingdown d_next_gw].
    + intros m sk E. inv E. intros Hm. apply in_filter_neq in Hm. tauto.
    + intros m Hm. destruct (Nat.eq_dec m n) as [->|Hne]; [right; left; left; eexists; reflexivity|left; apply (rm_nodes _ _ _ R); assumption].
    + intros n' E. discriminate.
    + intros n' ids E. discriminate.
    + intros m Hm. destruct (Nat.eq_dec m n) as [->|Hne]; [right; left; eexists; reflexivity|left; apply (rm_reg _ _ _ R); assumption].
    + intros _. exact (rm_two _ _ _ R).
    + intros _. exact Sd.
    + intros A B. congruence.
    + exact (rm_comp _ _ _ R).
    + intros n' E. discriminate.
  - apply let3_inv in H. destruct H as (o2 & E & ->).
    mbo E da oa a ob E1. destruct a.
    apply active_remove_shape in E. destruct E as (Hina & -> & ->).
    assert (STEP : d_sched da = d_sched d /\ d_shuttingdown da = d_shuttingdown d).
    { rewrite mbind_get in E1. destruct (d_shouldstop d); [unfold ret in E1; inv E1; auto|unfold put in E1; inv E1; auto]. }
    destruct STEP as (S1 & S2).
    cbn [d_sched d_set_active] in Els1. assert (cs1 = cs) by congruence. subst cs1.
    constructor; cbn [d_active d_set_active d_shuttingdown d_next_gw]; auto.
    + intros m sk E. inv E. intros Hm. apply in_filter_neq in Hm. tauto.
    + intros n' E. discriminate.
    + intros n' ids E. discriminate.
    + intros A B. congruence.
    + intros n' E. discriminate.
Qed.

Lemma length_aset_ge'' {V} n (v : V) m : length m <= length (aset n v m).
Proof. apply CrashProgress.length_aset_ge'. Qed.

(* ---- collectionfinish ---- *)
Lemma hs_collfinish_ev n ids d cs d1 o1 cs1 :
  DJx d cs -> d_handle (QCollFinish n ids) d = (d1, o1, Ok tt) -> d_sched d1 = StC cs1 ->
  HXs (QCollFinish n ids) d cs d1 cs1.
Proof.
  intros (J0 & _) H Els1. pose proof J0 as [Els J _ _ _ _ _ _ _ _ _ _].
  assert (SAMEST : forall x, (d, @nil out, x) = (d1, o1, Ok tt) ->
                 (d_shuttingdown d = false -> In n (sc_nodes cs) -> False) ->
                 HXs (QCollFinish n ids) d cs d1 cs1).
  { intros x E Hno. inv E. assert (cs1 = cs) by congruence. subst cs1. apply hs_same.
    - reflexivity.
    - intros m sk E. discriminate.
    - intros k E. discriminate.
    - intros k E. discriminate.
    - intros k ids' E A B. inv E. exact (Hno A B). }
  cbn [d_handle] in H. rewrite mbind_get in H.
  destruct (d_shuttingdown d) eqn:Esd; [eapply SAMEST; [exact H|discriminate]|].
  rewrite Els in H. cbn [s_nodes] in H.
  destruct (mem_nat n (sc_nodes cs)) eqn:Em; cbn [negb] in H.
  2:{ eapply SAMEST; [exact H|]. intros _ Hin. apply mem_nat_false in Em. contradiction. }
  clear SAMEST. apply mem_nat_In in Em.
  unfold hook in H. rewrite mbind_emit in H.
  apply let3_inv in H. destruct H as (o2 & E & ->).
  mbo E da oa a ob Ea. destruct (sched_op_addcoll_ok _ _ _ _ _ _ _ Els Ea) as (csa & Eadd & ->).
  rewrite mbind_get in E. cbn [d_sched d_set_sched s_collection_is_completed] in E.
  (* what add_node_collection did *)
  assert (WQ0 : sc_coll cs = None -> sc_wq cs = []) by (intros Hc; exact (proj1 (sx_none _ _ _ _ _ _ J Hc))).
  assert (ADD : sc_numnodes csa = sc_numnodes cs /\ sc_coll csa = sc_coll cs /\ sc_wq csa = sc_wq cs /\
                sc_nodes csa = sc_nodes cs /\
                (forall m, In m (akeys (sc_reg cs)) -> In m (akeys (sc_reg csa))) /\
                (sc_collection_is_completed cs = true -> sc_collection_is_completed csa = true) /\
                (forall m, sd_in (sc_nt cs) m -> sd_in (sc_nt csa) m) /\
                (In n (akeys (sc_reg csa)) \/ sd_in (sc_nt csa) n) /\
                (TwoS cs -> T2 (fun m => m = n) csa) /\
                (sc_collection_is_completed csa = false -> sc_wq csa = [])).
  { destruct (add_coll_shape _ _ _ _ _ Eadd) as [->|(Hc & Hcoll & o3 & En)].
    - cbn [sc_set_reg sc_numnodes sc_coll sc_wq sc_nodes sc_assigned sc_reg sc_nt].
      split; [reflexivity|]. split; [reflexivity|]. split; [reflexivity|]. split; [reflexivity|].
      split; [intros m Hm; apply akeys_aset_incl; exact Hm|].
      assert (CM : sc_collection_is_completed cs = true ->
                   sc_collection_is_completed (sc_set_reg cs (aset n ids (sc_reg cs))) = true).
      { unfold sc_collection_is_completed. cbn [sc_set_reg sc_reg sc_numnodes].
        intros C. apply Nat.leb_le in C. apply Nat.leb_le. pose proof (length_aset_ge'' n ids (sc_reg cs)). lia. }
      split; [exact CM|]. split; [auto|].
      split; [left; eapply FifoProofs.aget_some_in; apply FifoProofs.aget_aset_eq|]. split.
      + intros T Hp m f b Hm Eb Ef Hsd Hc. cbn [sc_set_reg sc_assigned sc_nt sc_reg sc_wq] in *.
        apply (T Hp m f b); auto. unfold ahas in *. rewrite FifoProofs.aget_aset_neq in Hc by exact Hm. exact Hc.
      + intros Hc. apply WQ0. destruct (sc_coll cs) as [cl|] eqn:Ecl; [|reflexivity].
        destruct (sx_coll _ _ _ _ _ _ J cl Ecl) as (_ & C & _). rewrite (CM C) in Hc. discriminate.
    - destruct (shutdown_fr _ _ _ _ En) as (F & A & W & S).
      split; [exact (fr_num _ _ F)|]. split; [exact (fr_coll _ _ F)|]. split; [exact W|].
      split; [exact (nodes_FR _ _ F)|]. split; [intros m Hm; rewrite (fr_reg _ _ F); exact Hm|].
      split; [rewrite (completed_FR _ _ F); auto|]. split; [exact (fr_sd _ _ F)|]. split; [right; exact S|]. split.
      + intros T. eapply T2_weaken; [|apply (T2_FR_same _ cs csa F A T)]. intros m [].
      + rewrite (completed_FR _ _ F), Hc. discriminate. }
  destruct ADD as (Anum & Acoll & Awq & Anodes & Areg & Acomp & Asd & Acf & Atwo & Awq0).
  destruct (sc_collection_is_completed csa) eqn:Eca.
  - mbo E db oc r0 od Es. destruct (sched_op_schedule_ok (d_set_sched d (StC csa)) csa _ _ _ eq_refl Es) as (cs2 & Esch & ->).
    unfold ret in E. inv E. cbn in Els1. inv Els1.
    (* what schedule() did *)
    assert (SCH : sc_reg cs1 = sc_reg csa /\ sc_numnodes cs1 = sc_numnodes csa /\
                  (forall m, sd_in (sc_nt csa) m -> sd_in (sc_nt cs1) m) /\
                  (forall m, In m (sc_nodes csa) -> In m (sc_nodes cs1) \/ sd_in (sc_nt cs1) m) /\ TwoS cs1).
    { destruct (sc_coll csa) as [cl|] eqn:Ecl.
      - assert (Hm : mfor (akeys (sc_assigned csa)) sc_reschedule csa = (cs1, oc, Ok tt))
          by (apply schedule_again; [exact Esch|rewrite Ecl; discriminate]).
        destruct (mfor_resched_fr _ _ _ _ Hm) as (F & _).
        split; [exact (fr_reg _ _ F)|]. split; [exact (fr_num _ _ F)|]. split; [exact (fr_sd _ _ F)|].
        split; [intros m X; left; rewrite (nodes_FR _ _ F); exact X|]. eapply two_all. exact Hm.
      - apply (schedule_first csa cs1 oc); [exact Esch|exact Ecl|]. rewrite Awq. apply WQ0. congruence. }
    destruct SCH as (Sreg & Snum & Ssd & Snodes & Stwo).
    constructor; cbn [d_shuttingdown d_set_sched d_next_gw].
    + intros m sk E. discriminate.
    + intros m Hm. rewrite <- Anodes in Hm. destruct (Snodes m Hm) as [X|X]; [left; exact X|right; right; exact X].
    + intros k E. discriminate.
    + intros k ids' E _ _. inv E. destruct Acf as [X|X]; [left; rewrite Sreg; exact X|right; apply Ssd; exact X].
    + intros m Hm. left. rewrite Sreg. apply Areg. exact Hm.
    + intros _ _. exact Stwo.
    + intros _. reflexivity.
    + intros _ X. congruence.
    + intros _. unfold sc_collection_is_completed. rewrite Sreg, Snum. exact Eca.
    + intros k E. discriminate.
  - unfold ret in E. inv E. cbn in Els1. inv Els1.
    constructor; cbn [d_shuttingdown d_set_sched d_next_gw].
    + intros m sk E. discriminate.
    + intros m Hm. left. rewrite Anodes. exact Hm.
    + intros k E. discriminate.
    + intros k ids' E _ _. inv E. exact Acf.
    + intros m Hm. left. apply Areg. exact Hm.
    + intros _ _. apply T2_wq_empty. apply Awq0. reflexivity.
    + intros _. reflexivity.
    + intros _ X. congruence.
    + intros C. specialize (Acomp C). congruence.
    + intros k E. discriminate.
Qed.

(* ---- errordown ---- *)
Lemma try_shape_s n d cs da oa :
  DJ0x d cs -> try_block n d = (da, oa, Ok tt) ->
  exists csa, da = d_set_sched d (StC csa) /\ SJx (d_next_gw d) csa /\ RM n cs csa /\ ~ In n (sc_nodes csa).
Proof.
  intros J0 Ht. pose proof J0 as [Els J _ _ _ _ _ RQ _ _ _ _].
  destruct (try_block_effx kind coll0 collf N HN _ _ _ _ _ _ J0 Ht) as (_ & csx & vo & Eda & _ & Ja & _ & _ & Tnodes & _).
  assert (R : exists csa, da = d_set_sched d (StC csa) /\ RM n cs csa).
  { unfold try_block in Ht. rewrite (sched_op_runc _ d cs Els) in Ht. cbn [s_step] in Ht.
    destruct (in_dec Nat.eq_dec n (sc_nodes cs)) as [Hin|Hni].
    - destruct (sc_remove_node n cs) as [[cs2 o2] r2] eqn:Er. cbn [lift] in Ht.
      assert (Hr : exists x, r2 = Ok x).
      { destruct (remove_effx kind coll0 collf N _ _ _ _ _ _ J Hin Er)
          as (cq & _ & _ & _ & _ & _ & _ & _ & [(_ & -> & _)|(c & rest & add & _ & _ & -> & _)]); eauto. }
      destruct Hr as (x & ->).
      assert (RMx : RM n cs cs2) by (eapply remove_rm; [exact (sx_wf _ _ _ _ _ _ J)|exact Er]).
      exists cs2. split; [|exact RMx]. destruct x as [item|].
      + destruct (d_handle_crashitem item n (d_set_sched d (StC cs2))) as [[d2 o3] r3] eqn:Eh. inv Ht.
        unfold d_handle_crashitem, hook in Eh. rewrite mbind_emit, mbind_get in Eh. cbn [d_requeue d_set_sched] in Eh.
        rewrite RQ in Eh. rewrite mbind_ret in Eh. unfold emit in Eh. inv Eh. reflexivity.
      + inv Ht. reflexivity.
    - rewrite (sc_remove_unknown n cs) in Ht by (apply aget_none_keys; exact Hni). cbn [lift] in Ht. inv Ht.
      exists cs. split; [reflexivity|apply RM_absent; exact Hni]. }
  destruct R as (csa & E2 & RMx). exists csa. split; [exact E2|].
  assert (csx = csa).
  { rewrite E2 in Eda. apply (f_equal d_sched) in Eda. cbn in Eda. congruence. }
  subst csx. split; [exact Ja|]. split; [exact RMx|]. intros Hin. destruct (Tnodes n Hin) as (_ & F). apply F. reflexivity.
Qed.

Lemma hs_errordown_ev n d cs d1 o1 cs1 :
  DJx d cs -> PREx (QErrorDown n) d cs ->
  d_handle (QErrorDown n) d = (d1, o1, Ok tt) -> d_sched d1 = StC cs1 ->
  HXs (QErrorDown n) d cs d1 cs1.
Proof.
  intros (J0 & _) Hina H Els1. cbn [CrashScope.PREx] in Hina. pose proof J0 as [Els J Jb K1 RS K2 EX RQ AL FN CC ACT].
  cbn [d_handle] in H. rewrite errordown_unfold in H.
  apply LoadProofs.mbind_inv in H. destruct H as [(e & Hh & F)|(d0 & o0 & [] & oR & Hh & E & ->)]; [discriminate|].
  rewrite hook_run in Hh. injection Hh as <- <-. rename d1 into dx.
  apply LoadProofs.mbind_inv in E. destruct E as [(e & Ht & F)|(da & oa & [] & ob & Ht & E & ->)]; [discriminate|].
  destruct (try_shape_s _ _ _ _ _ J0 Ht) as (csa & -> & Ja & R & Hnn).
  assert (HnG : n < d_next_gw d) by (apply AL; exact Hina).
  assert (Efn : exists fn, aget n (sc_nt csa) = Some fn).
  { destruct (aget n (sc_nt csa)) as [fn|] eqn:Ef; [eauto|]. exfalso. apply (proj2 (sx_ntk _ _ _ _ _ _ Ja n) HnG). exact Ef. }
  destruct Efn as (fn & Efn).
  rewrite mbind_get in E. cbv zeta in E. rewrite mbind_put in E.
  set (da := d_set_sched d (StC csa)) in *.
  set (db := d_set_failed_nodes da (d_failed_nodes da + 1)%Z) in *.
  assert (Eex : exhausted db = match d_max_restart d with Some m => (m <? d_failed_nodes d + 1)%Z | None => false end /\
                (exhausted d = true -> exhausted db = true)).
  { apply (exhausted_succ N HN); [reflexivity|reflexivity|exact FN]. }
  destruct Eex as (Eex & Emono).
  assert (DEC :
    (exhausted db = true /\
     exists m0, d_max_restart d = Some m0 /\
     ((hook (HSummary (m0 =? 0)%Z) ;;; d_triggershutdown) ;;; d_active_remove n) db = (dx, ob, Ok tt)) \/
    (exhausted db = false /\
     (((d2 <- get ;; put (d_set_shuttingdown d2 false)) ;;; d_clone_node n) ;;; d_active_remove n) db = (dx, ob, Ok tt))).
  { pose proof E as E'.
    clear E. change (d_max_restart da) with (d_max_restart d) in E'. change (d_failed_nodes da) with (d_failed_nodes d) in E'.
    destruct (d_max_restart d) as [m0|] eqn:Emr.
    - destruct (m0 <? d_failed_nodes d + 1)%Z eqn:Elt.
      + left. split; [exact Eex|]. exists m0. split; [reflexivity|]. exact E'.
      + right. split; [exact Eex|exact E'].
    - right. split; [exact Eex|exact E']. }
  clear E. destruct DEC as [(Hexh & m0 & Emr & E)|(Hexh & E)].
  - (* the budget is used up *)
    apply LoadProofs.mbind_inv in E. destruct E as [(e & Hg & F)|(dc & oc & [] & od & Hg & E2 & ->)]; [discriminate|].
    apply LoadProofs.mbind_inv in Hg. destruct Hg as [(e & Hh & F)|(d0 & o0 & [] & oR & Hh & Hg & ->)]; [discriminate|].
    rewrite hook_run in Hh. injection Hh as <- <-.
    destruct (trigger_shape_s db csa dc oR eq_refl Hg) as (cs2 & -> & F2 & A2 & W2 & Same2 & All2).
    apply active_remove_shape in E2. destruct E2 as (_ & -> & _). cbn in Els1. inv Els1.
    constructor.
    + intros m sk E0. discriminate.
    + intros m Hm. destruct (Nat.eq_dec m n) as [->|Hne]; [right; left; right; reflexivity|left].
      rewrite (nodes_FR _ _ F2). apply (rm_nodes _ _ _ R); assumption.
    + intros k E0. discriminate.
    + intros k ids E0. discriminate.
    + intros m Hm. destruct (Nat.eq_dec m n) as [->|Hne]; [right; right; reflexivity|left].
      rewrite (fr_reg _ _ F2). apply (rm_reg _ _ _ R); assumption.
    + intros _ T. apply (T2_FR_same _ csa cs1 F2 A2). apply (rm_two _ _ _ R). exact T.
    + intros X. exfalso. apply (X n). reflexivity.
    + intros Hsd _. apply All2. exact Hsd.
    + intros C. rewrite (completed_FR _ _ F2). apply (rm_comp _ _ _ R). exact C.
    + intros k _ X. change (exhausted db = false) in X. congruence.
  - (* a replacement worker is started *)
    assert (CL : ((d2 <- get ;; put (d_set_shuttingdown d2 false)) ;;; d_clone_node n) db =
                 (d_set_active (d_set_next_gw (d_set_sched (d_set_shuttingdown db false)
                     (StC (sc_set_nt csa (aset (d_next_gw d) (mkfresh (n_spec fn)) (sc_nt csa))))) (S (d_next_gw d)))
                    (d_active d ++ [d_next_gw d]),
                  [OHook (HSpawn (d_next_gw d) (n_spec fn))], Ok tt)).
    { unfold mbind at 1. rewrite mbind_get. unfold put.
      rewrite (clone_runx n (d_set_shuttingdown db false) csa fn eq_refl Efn). reflexivity. }
    apply LoadProofs.mbind_inv in E. destruct E as [(e & Hg & F)|(dc & oc & [] & od & Hg & E2 & ->)]; [discriminate|].
    rewrite CL in Hg. injection Hg as <- <-. clear CL.
    set (G := d_next_gw d) in *.
    set (csn := sc_set_nt csa (aset G (mkfresh (n_spec fn)) (sc_nt csa))) in *.
    apply active_remove_shape in E2. destruct E2 as (_ & -> & _). cbn in Els1. inv Els1.
    assert (SDN : forall m, sd_in (sc_nt csa) m -> sd_in (sc_nt csn) m).
    { intros m (f & Ef & Hs). exists f. split; [|exact Hs]. unfold csn. cbn [sc_set_nt sc_nt].
      rewrite LoadProofs.aget_aset. destruct (Nat.eqb m G) eqn:Em; [|exact Ef].
      apply Nat.eqb_eq in Em. subst m. exfalso.
      assert (X : G < G) by (apply (sx_ntk _ _ _ _ _ _ Ja); congruence). lia. }
    constructor.
    + intros m sk E0. discriminate.
    + intros m Hm. destruct (Nat.eq_dec m n) as [->|Hne]; [right; left; right; reflexivity|left].
      change (sc_nodes csn) with (sc_nodes csa). apply (rm_nodes _ _ _ R); assumption.
    + intros k E0. discriminate.
    + intros k ids E0. discriminate.
    + intros m Hm. destruct (Nat.eq_dec m n) as [->|Hne]; [right; right; reflexivity|left].
      change (sc_reg csn) with (sc_reg csa). apply (rm_reg _ _ _ R); assumption.
    + intros _ T. apply T2_new_nt; [|apply (rm_two _ _ _ R); exact T].
      intros Hin. pose proof (sx_nodes _ _ _ _ _ _ Ja G Hin). lia.
    + intros X. exfalso. apply (X n). reflexivity.
    + intros _ X. cbn in X. discriminate.
    + intros C. change (sc_collection_is_completed csn) with (sc_collection_is_completed csa). apply (rm_comp _ _ _ R). exact C.
    + intros k _ _. reflexivity.
Qed.

(* ---- every handler ---- *)
Lemma handle_heffx ev d cs d1 o1 r :
  DJx d cs -> d_active d <> [] -> PREx ev d cs ->
  (forall n ids, ev = QCollFinish n ids -> sc_coll cs = None ->
     match sc_reg cs with (k0, c) :: _ => c = coll0 | [] => collf n = coll0 end) ->
  d_handle ev d = (d1, o1, r) ->
  r = Ok tt /\ exists cs1 vo, HEFFx ev d cs d1 cs1 vo.
Proof.
  intros DJd Hact Hpre Hfirst H1.
  assert (QUIET : match ev with
                  | QLogStart _ _ | QLogFinish _ _ | QWarning | QReport _ _ _ _ | QCollectReport _ _ _ => True
                  | _ => False end -> r = Ok tt /\ exists cs1 vo, HEFFx ev d cs d1 cs1 vo).
  { intros Hq. destruct (handle_quiet' ev d d1 o1 r Hq H1) as (-> & S & C). split; [reflexivity|]. exists cs, o1.
    apply heff_samex; auto; try apply DJd; destruct ev; try contradiction; try reflexivity; try (intros m b E; discriminate);
      intros ? E; discriminate. }
  destruct ev; try (apply QUIET; exact Logic.I); try (cbn in Hpre; contradiction).
  - destruct (handle_readyx _ _ _ _ HN _ _ _ _ _ _ DJd Hact Hpre H1) as (-> & cs1 & vo & _ & X). eauto.
  - destruct (handle_collfinishx _ _ _ _ HN _ _ _ _ _ _ _ DJd Hact Hpre (Hfirst _ _ eq_refl) H1) as (-> & cs1 & vo & _ & X). eauto.
  - destruct (handle_completex _ _ _ _ HN _ _ _ _ _ _ _ _ DJd Hact Hpre H1) as (-> & cs1 & vo & _ & X). eauto.
  - destruct (handle_finishedx _ _ _ _ HN _ _ _ _ _ _ _ DJd Hact Hpre H1) as (-> & cs1 & vo & _ & X). eauto.
  - destruct (handle_errordownx _ _ _ _ HN _ _ _ _ _ _ DJd Hact Hpre H1) as (-> & cs1 & vo & _ & X & _). eauto.
Qed.

Lemma handle_hxs ev d cs d1 o1 cs1 :
  DJx d cs -> PREx ev d cs -> d_handle ev d = (d1, o1, Ok tt) -> d_sched d1 = StC cs1 ->
  HXs ev d cs d1 cs1.
Proof.
  intros DJd Hpre H Els1. pose proof DJd as ([Els _ _ _ _ _ _ _ _ _ _ _] & _).
  assert (QUIET : match ev with
                  | QLogStart _ _ | QLogFinish _ _ | QWarning | QReport _ _ _ _ | QCollectReport _ _ _ => True
                  | _ => False end -> HXs ev d cs d1 cs1).
  { intros Hq. destruct (handle_quiet' ev d d1 o1 _ Hq H) as (_ & S & _). pose proof S as (S1 & S2 & _).
    assert (cs1 = cs) by congruence. subst cs1.
    apply hs_same; auto; destruct ev; try contradiction; intros; discriminate. }
  destruct ev; try (apply QUIET; exact Logic.I); try (cbn in Hpre; contradiction).
  - eapply hs_ready_ev; eauto.
  - eapply hs_collfinish_ev; eauto.
  - eapply hs_complete_ev; eauto.
  - eapply hs_finished_ev; eauto.
  - eapply hs_errordown_ev; eauto.
Qed.

(* ---- flags through a handler ---- *)
Lemma heffx_flag_fwd ev d cs d1 cs1 vo m f :
  HEFFx ev d cs d1 cs1 vo -> m < d_next_gw d -> aget m (sc_nt cs) = Some f ->
  exists f1, aget m (sc_nt cs1) = Some f1 /\ n_down f1 = n_down f /\ (n_sdsent f = true -> n_sdsent f1 = true).
Proof.
  intros E Hm Ef. pose proof (hx_nt _ _ _ _ _ _ _ _ _ _ E m Hm) as R. rewrite Ef in R.
  destruct (aget m (sc_nt cs1)) as [f1|]; [|destruct R]. cbn in R.
  destruct (NR_fields _ _ _ R) as (_ & Bd & _ & Dsd & _). exists f1. split; [reflexivity|]. split; [exact Bd|].
  intros Hs. apply Dsd. left. exact Hs.
Qed.

Lemma heffx_sd_in ev d cs d1 cs1 vo m :
  HEFFx ev d cs d1 cs1 vo -> m < d_next_gw d -> sd_in (sc_nt cs) m -> sd_in (sc_nt cs1) m.
Proof.
  intros E Hm (f & Ef & Hs). destruct (heffx_flag_fwd _ _ _ _ _ _ _ _ E Hm Ef) as (f1 & Ef1 & Bd & Sd).
  exists f1. split; [exact Ef1|]. unfold shutting_down in *. rewrite Bd.
  destruct (n_down f); [reflexivity|]. cbn in Hs |- *. apply Sd. exact Hs.
Qed.

(* ---- the end of the iteration ---- *)
Lemma loop_rest_shape d cs d' o :
  d_sched d = StC cs -> loop_rest d = (d', o, Ok tt) ->
  exists cs', d_sched d' = StC cs' /\ FR cs cs' /\ sc_assigned cs' = sc_assigned cs /\ sc_wq cs' = sc_wq cs /\
    d_active d' = d_active d /\ exhausted d' = exhausted d /\ d_next_gw d' = d_next_gw d /\
    (d_shuttingdown d = true -> cs' = cs) /\
    (d_shuttingdown d = false -> d_shuttingdown d' = true -> allsd cs').
Proof.
  intros Els H. unfold loop_rest in H.
  mbo H da oa a ob H1. destruct a. rewrite mbind_get in H1, H.
  assert (S1 : exists csa, d_sched da = StC csa /\ FR cs csa /\ sc_assigned csa = sc_assigned cs /\ sc_wq csa = sc_wq cs /\
                d_active da = d_active d /\ exhausted da = exhausted d /\ d_next_gw da = d_next_gw d /\
                d_shouldstop da = d_shouldstop d /\
                (d_shuttingdown d = true -> csa = cs /\ d_shuttingdown da = true) /\
                (d_shuttingdown d = false -> (da = d \/ (d_shuttingdown da = true /\ allsd csa)))).
  { destruct (s_tests_finished (d_sched d)).
    - destruct (trigger_shape_s d cs da oa Els H1) as (cs2 & -> & F & A & W & Same & All).
      exists cs2. split; [reflexivity|]. split; [exact F|]. split; [exact A|]. split; [exact W|].
      split; [reflexivity|]. split; [reflexivity|]. split; [reflexivity|]. split; [reflexivity|].
      split; [intros X; split; [apply Same; exact X|reflexivity]|]. intros X. right. split; [reflexivity|apply All; exact X].
    - unfold ret in H1. inv H1. exists cs. split; [exact Els|]. split; [apply FR_refl|]. repeat (split; [reflexivity|]).
      split; [auto|]. intros _. left. reflexivity. }
  destruct S1 as (csa & Elsa & Fa & Aa & Wa & Acta & Exa & Gwa & Ssa & Samea & Alla).
  assert (S2 : exists cs', d_sched d' = StC cs' /\ FR csa cs' /\ sc_assigned cs' = sc_assigned csa /\ sc_wq cs' = sc_wq csa /\
                d_active d' = d_active da /\ exhausted d' = exhausted da /\ d_next_gw d' = d_next_gw da /\
                (d_shuttingdown da = true -> cs' = csa) /\
                (d_shuttingdown da = false -> (d' = da \/ (d_shuttingdown d' = true /\ allsd cs')))).
  { destruct (d_shouldstop da).
    - destruct (trigger_shape_s da csa d' ob Elsa H) as (cs2 & -> & F & A & W & Same & All).
      exists cs2. split; [reflexivity|]. split; [exact F|]. split; [exact A|]. split; [exact W|].
      split; [reflexivity|]. split; [reflexivity|]. split; [reflexivity|].
      split; [exact Same|]. intros X. right. split; [reflexivity|apply All; exact X].
    - unfold ret in H. inv H. exists csa. split; [exact Elsa|]. split; [apply FR_refl|]. repeat (split; [reflexivity|]).
      intros _. left. reflexivity. }
  destruct S2 as (cs' & Els' & Fb & Ab & Wb & Actb & Exb & Gwb & Sameb & Allb).
  exists cs'. split; [exact Els'|]. split; [eapply FR_trans; eauto|]. split; [congruence|]. split; [congruence|].
  split; [congruence|]. split; [congruence|]. split; [congruence|]. split.
  - intros X. destruct (Samea X) as (-> & Y). apply Sameb. exact Y.
  - intros X Y. destruct (Alla X) as [->|(Z & All1)].
    + destruct (Allb X) as [->|(_ & All2)]; [congruence|exact All2].
    + rewrite (Sameb Z). exact All1.
Qed.

(* ---- one iteration of the controller loop ---- *)
Record LXs (ev : cevent) (d : dstate) (cs : scstate) (d' : dstate) (cs' : scstate) : Prop := {
  ls_fin : forall m sk, ev = QFinished m sk -> ~ In m (d_active d');
  ls_nodes : forall m, In m (sc_nodes cs) -> In m (sc_nodes cs') \/ fin_or_err ev m \/ sd_in (sc_nt cs') m;
  ls_ready : forall n, ev = QReady n -> In n (sc_nodes cs') \/ sd_in (sc_nt cs') n;
  ls_cf : forall n ids, ev = QCollFinish n ids -> d_shuttingdown d = false -> In n (sc_nodes cs) ->
          In n (akeys (sc_reg cs')) \/ sd_in (sc_nt cs') n;
  ls_n2c : forall m, In m (akeys (sc_reg cs)) -> In m (akeys (sc_reg cs')) \/ fin_or_err ev m;
  ls_two : (forall n, ev = QReady n -> ~ In n (akeys (sc_reg cs))) -> TwoS cs -> TwoS cs';
  ls_tf : d_shuttingdown d' = false -> sc_tests_finished cs' = false;
  ls_sd : d_shuttingdown d' = true -> (d_shuttingdown d = true -> allsd cs) -> allsd cs';
  ls_comp : sc_collection_is_completed cs = true -> sc_collection_is_completed cs' = true;
  ls_exh : exhausted d = true -> exhausted d' = true;
  ls_clone : forall n, ev = QErrorDown n -> exhausted d' = false -> d_next_gw d' = S (d_next_gw d);
}.

Lemma exhausted_mono d d' :
  d_max_restart d' = d_max_restart d -> (d_failed_nodes d <= d_failed_nodes d')%Z ->
  exhausted d = true -> exhausted d' = true.
Proof.
  intros A B. unfold exhausted. rewrite A. destruct (d_max_restart d) as [m|]; [|auto].
  intros H. apply andb_true_iff in H. destruct H as (H1 & H2). apply Z.ltb_lt in H1. apply Z.ltb_lt in H2.
  apply andb_true_iff. split; apply Z.ltb_lt; lia.
Qed.

Theorem loop_lxs ev d cs d' o cs' :
  DJx d cs -> d_active d <> [] -> PREx ev d cs ->
  (forall n ids, ev = QCollFinish n ids -> sc_coll cs = None ->
     match sc_reg cs with (k0, c) :: _ => c = coll0 | [] => collf n = coll0 end) ->
  d_loop_once ev d = (d', o, Ok tt) -> d_sched d' = StC cs' -> LXs ev d cs d' cs'.
Proof.
  intros DJd Hact Hpre Hfirst H Els'. pose proof H as Hfull. rewrite loop_once_unfold in H.
  apply LoadProofs.mbind_inv in H. destruct H as [(e & _ & F)|(d1 & o1 & [] & o2 & H1 & H2 & ->)]; [discriminate|].
  destruct (handle_heffx _ _ _ _ _ _ DJd Hact Hpre Hfirst H1) as (_ & cs1 & vo1 & E1).
  pose proof (hx_dj _ _ _ _ _ _ _ _ _ _ E1) as J1. pose proof J1 as [Els1 JJ1 _ _ _ _ _ _ _ _ _ _].
  pose proof (handle_hxs _ _ _ _ _ _ DJd Hpre H1 Els1) as X1.
  pose proof DJd as ([Els J _ _ _ _ _ _ AL _ _ _] & _).
  destruct (loop_rest_shape _ _ _ _ Els1 H2) as (cs2 & Els2 & F & A & W & Eact & Eexh & Egw & Same1 & All1).
  assert (cs2 = cs') by congruence. subst cs2.
  pose proof (nodes_FR _ _ F) as Knodes.
  constructor.
  - intros m sk E. rewrite Eact. exact (hs_fin _ _ _ _ _ X1 m sk E).
  - intros m Hm. rewrite Knodes. destruct (hs_nodes _ _ _ _ _ X1 m Hm) as [Y|[Y|Y]]; auto.
    right. right. apply (fr_sd _ _ F). exact Y.
  - intros n E. pose proof (hs_ready _ _ _ _ _ X1 n E) as Y. destruct (d_shuttingdown d).
    + right. apply (fr_sd _ _ F). exact Y.
    + left. rewrite Knodes. exact Y.
  - intros n ids E Hsd Hin. destruct (hs_cf _ _ _ _ _ X1 n ids E Hsd Hin) as [Y|Y].
    + left. rewrite (fr_reg _ _ F). exact Y.
    + right. apply (fr_sd _ _ F). exact Y.
  - intros m Hm. rewrite (fr_reg _ _ F). exact (hs_n2c _ _ _ _ _ X1 m Hm).
  - intros Hr T0. apply (T2_FR_same _ cs1 cs' F A). exact (hs_two _ _ _ _ _ X1 Hr T0).
  - intros Hsd. destruct (sc_tests_finished cs') eqn:Etf; [|reflexivity].
    pose proof (LivenessLaws.V5b_loop_once _ _ _ _ Hfull) as V. rewrite Els' in V. cbn [s_tests_finished] in V.
    rewrite (V Etf) in Hsd. discriminate.
  - intros Hsd' Hold. destruct (d_shuttingdown d1) eqn:Esd1.
    + rewrite (Same1 eq_refl).
      destruct (d_shuttingdown d) eqn:Esd.
      * intros m Hm. destruct (hx_nodes _ _ _ _ _ _ _ _ _ _ E1 m Hm) as [Hin|Hev].
        -- eapply heffx_sd_in; [exact E1|apply (sx_nodes _ _ _ _ _ _ J); exact Hin|apply (Hold eq_refl); exact Hin].
        -- apply Progress.ev_sig_ready in Hev. pose proof (hs_ready _ _ _ _ _ X1 m Hev) as Y. rewrite Esd in Y. exact Y.
      * exact (hs_sderr _ _ _ _ _ X1 Esd Esd1).
    + exact (All1 eq_refl Hsd').
  - intros C. rewrite (completed_FR _ _ F). exact (hs_comp _ _ _ _ _ X1 C).
  - pose proof (loop_once_step _ _ _ _ _ Hfull) as (Smax & Sfail & _). apply exhausted_mono; assumption.
  - intros n E C. rewrite Egw. rewrite Eexh in C. exact (hs_clone _ _ _ _ _ X1 n E C).
Qed.

End CtlQs.


(* ###################################### part C ###################################### *)

Notation QA := CrashProgress.QA.
Notation QN := CrashProgress.QN.

(* ---- the controller part ---- *)
Record QCs (N : nat) (d : dstate) (cs : scstate) : Prop := {
  qs_tf : d_shuttingdown d = false -> sc_tests_finished cs = false;
  qs_two : TwoS cs;
  qs_sd : d_shuttingdown d = true -> allsd cs;
  (* before the collection is complete (and without stop / exhausted budget) there are at least N active nodes *)
  qs_cnt : sc_collection_is_completed cs = false -> d_shouldstop d = false -> exhausted d = false ->
           exists l, NoDup l /\ incl l (d_active d) /\ N <= length l;
}.

(* the progress invariant; coll0 is the collection the system invariant XInvC is stated for (it only enters
   through the projection of the books, which QN does not look at) *)
Definition QInvS (N : nat) (coll0 : list string) (s : sys) : Prop :=
  exists cs, d_sched (y_d s) = StC cs /\ QCs N (y_d s) cs /\
    forall n w, aget n (y_w s) = Some w -> QN s (proj coll0 cs) n w.

Lemma QN_transfer coll0 coll1 s cs n w : QN s (proj coll0 cs) n w -> QN s (proj coll1 cs) n w.
Proof.
  intros (A & B). split; [exact A|]. intros Hd. destruct (B Hd) as [B1 B2 B3 B4 B5].
  constructor; rewrite ?proj_nodes in *; cbn [proj l_nt l_n2c] in *; auto.
Qed.

Lemma QInvS_transfer N coll0 coll1 s : QInvS N coll0 s -> QInvS N coll1 s.
Proof.
  intros (cs & Els & QCd & QNs). exists cs. split; [exact Els|]. split; [exact QCd|].
  intros n w Hw. apply (QN_transfer coll0). apply QNs. exact Hw.
Qed.

Lemma QCs_flags N coll0 d d' cs cs' :
  Progress.FlagsUp (proj coll0 cs) (proj coll0 cs') -> sc_assigned cs' = sc_assigned cs -> sc_reg cs' = sc_reg cs ->
  sc_wq cs' = sc_wq cs -> sc_numnodes cs' = sc_numnodes cs ->
  d_shuttingdown d' = d_shuttingdown d -> d_shouldstop d' = d_shouldstop d -> exhausted d' = exhausted d ->
  d_active d' = d_active d ->
  QCs N d cs -> QCs N d' cs'.
Proof.
  intros FU Ea Ec Eq Em S1 S2 S3 S4 [A B C D].
  assert (Ecomp : sc_collection_is_completed cs' = sc_collection_is_completed cs).
  { unfold sc_collection_is_completed. rewrite Ec, Em. reflexivity. }
  constructor; rewrite ?S1, ?S2, ?S3, ?S4, ?Ecomp.
  - intros Hs. rewrite <- (A Hs). unfold sc_tests_finished. rewrite Ecomp, Eq, Ea. reflexivity.
  - intros Hp m f' b Hm Eb Ef' Hsd Hc. rewrite Eq in Hp. rewrite Ea in Eb. rewrite Ec in Hc.
    specialize (FU m). cbn [proj l_nt] in FU. rewrite Ef' in FU.
    destruct (aget m (sc_nt cs)) as [f|] eqn:Ef; [|destruct FU]. destruct FU as (X1 & X2).
    apply (B Hp m f b Hm Eb Ef); [|exact Hc].
    unfold shutting_down in *. apply orb_false_iff in Hsd. destruct Hsd as (H1 & H2).
    rewrite <- X1, H2, orb_false_r. destruct (n_down f); [rewrite (X2 eq_refl) in H1; discriminate|reflexivity].
  - intros Hs m Hm. apply (Progress.flagsup_sd_in (proj coll0 cs) (proj coll0 cs') m FU). cbn [proj l_nt]. apply (C Hs).
    unfold sc_nodes in *. rewrite <- Ea. exact Hm.
  - exact D.
Qed.

Section SysQs.
Variable c : config.
Variable kind : scope_kind.
Variable coll0 : list string.
Notation N := (c_numnodes c).
Notation X0 := (c_coll c).
Hypothesis Hmode : c_mode c = MScope kind.
Hypothesis Hng : no_garbled c.
Hypothesis Hpos : 0 < N.
Hypothesis Hrq : c_requeue c = 0.

Notation XInvCc := (XInvC c kind coll0).
Notation projc := (proj coll0).

Lemma QInvS_init : QInvS N coll0 (sys_init c).
Proof.
  unfold QInvS. cbn [sys_init y_d d_sched]. rewrite Hmode. cbn [s_init s_set_nt].
  eexists. split; [reflexivity|]. split.
  - constructor; cbn [d_shuttingdown d_shouldstop d_active].
    + intros _. unfold sc_tests_finished, sc_collection_is_completed. cbn [sc_set_nt sc_init sc_numnodes sc_reg length].
      destruct N; [lia|]. reflexivity.
    + apply T2_wq_empty. reflexivity.
    + discriminate.
    + intros _ _ _. exists (seq 0 N). split; [apply seq_NoDup|]. split; [apply incl_refl|rewrite seq_length; lia].
  - intros n w Ew. cbn [sys_init y_w] in Ew. apply aget_map_const in Ew. subst w. split.
    + cbn. intros [].
    + intros _. constructor; cbn [w_init wph prank].
      * intros _ Fb. exfalso. apply Fb. reflexivity.
      * intros _ Fb. lia.
      * discriminate.
      * intros f Ef Hs. cbn [proj l_nt sc_set_nt sc_nt sc_init] in Ef. destruct (aget_init_nt_freshx c n f Ef) as (X & _). congruence.
      * exact Progress.CB_init.
Qed.

(* a step of one worker: the controller does not move *)
Lemma qinvs_upd s s' n0 w' :
  y_d s' = y_d s -> y_evq s' = y_evq s -> y_dead s' = y_dead s -> y_w s' = aset n0 w' (y_w s) ->
  (forall n, n <> n0 -> alist_get [] n (y_up s') = alist_get [] n (y_up s)) ->
  (forall n, n <> n0 -> alist_get [] n (y_down s') = alist_get [] n (y_down s)) ->
  QInvS N coll0 s -> (forall cs, d_sched (y_d s) = StC cs -> QN s' (projc cs) n0 w') -> QInvS N coll0 s'.
Proof.
  intros Ed Eq Edd Ew Eu Edn (cs & Els & QCd & QNs) Hn0. exists cs. rewrite Ed.
  split; [exact Els|]. split; [exact QCd|]. intros n w Hw. rewrite Ew in Hw.
  destruct (Nat.eq_dec n n0) as [->|Hne].
  - rewrite FifoProofs.aget_aset_eq in Hw. inv Hw. apply Hn0. exact Els.
  - rewrite FifoProofs.aget_aset_neq in Hw by exact Hne. destruct (QNs n w Hw) as (A & B). unfold CrashProgress.QN.
    assert (Es : sigs s' n = sigs s n) by (unfold sigs; rewrite Eq, (Eu n Hne); reflexivity).
    rewrite Es, Edd, Ed, (Edn n Hne). split; assumption.
Qed.

(* a step that only changes flags of the controller *)
Lemma qinvs_flagstep s s' cs cs' :
  d_sched (y_d s) = StC cs -> d_sched (y_d s') = StC cs' ->
  Progress.FlagsUp (projc cs) (projc cs') -> sc_assigned cs' = sc_assigned cs -> sc_reg cs' = sc_reg cs ->
  sc_wq cs' = sc_wq cs -> sc_numnodes cs' = sc_numnodes cs ->
  d_shuttingdown (y_d s') = d_shuttingdown (y_d s) -> d_shouldstop (y_d s') = d_shouldstop (y_d s) ->
  exhausted (y_d s') = exhausted (y_d s) -> d_active (y_d s') = d_active (y_d s) ->
  y_w s' = y_w s -> (forall n, sigs s' n = sigs s n) ->
  (forall n, mem_nat n (y_dead s') = false ->
     mem_nat n (y_dead s) = false /\ alist_get [] n (y_down s') = alist_get [] n (y_down s)) ->
  QCs N (y_d s) cs -> (forall n w, aget n (y_w s) = Some w -> QN s (projc cs) n w) -> QInvS N coll0 s'.
Proof.
  intros Els Els' FU Ea Ec Eq Em S1 S2 S3 S4 Ew Es Edn QCd QNs.
  exists cs'. split; [exact Els'|]. split.
  - eapply QCs_flags; eauto.
  - intros n w Hw. rewrite Ew in Hw. destruct (QNs n w Hw) as (A & B). split.
    + cbn [proj l_n2c]. rewrite Ec, Es. exact A.
    + intros Hd. destruct (Edn n Hd) as (Hd0 & Ed0). rewrite Es, Ed0, S4.
      eapply CrashProgress.QA_flags; [exact FU| | |exact (B Hd0)].
      * cbn [proj l_n2p]. rewrite Ea. reflexivity.
      * cbn [proj l_n2c]. exact Ec.
Qed.

Lemma d_nt_c d cs : d_sched d = StC cs -> d_nt d = sc_nt cs.
Proof. intros E. unfold d_nt. rewrite E. reflexivity. Qed.

Lemma FlagsUp_reflc cs : Progress.FlagsUp (projc cs) (projc cs).
Proof. intros k. destruct (aget k (l_nt (projc cs))); auto. Qed.

Lemma FlagsUp_updc cs n f f' :
  aget n (sc_nt cs) = Some f -> n_sdsent f' = n_sdsent f -> (n_down f = true -> n_down f' = true) ->
  Progress.FlagsUp (projc cs) (projc (upd_flagc cs n f')).
Proof. intros Ef A B. rewrite proj_upd_flagc. apply (CrashProgress.FlagsUp_upd (projc cs) n f f'); assumption. Qed.

(* ---- a worker process dies ---- *)
Lemma qinvs_crash s n0 w0 :
  XInvCc s -> QInvS N coll0 s -> mem_nat n0 (y_dead s) = false -> aget n0 (y_w s) = Some w0 ->
  QInvS N coll0 (crash_worker c s n0).
Proof.
  intros X (cs & Els & QCd & QNs) Hd Ew.
  pose proof X as [Lo Hi (cs0 & DJd & NIs) Eq Eu Ea Er Edead].
  destruct (dj_els c kind coll0 _ _ DJd) as (Els0 & J). assert (cs0 = cs) by congruence. subst cs0.
  pose proof (worker_ltx c kind coll0 s n0 w0 X Ew) as HnG.
  destruct (aget n0 (sc_nt cs)) as [f0|] eqn:Ef0; [|exfalso; apply (proj2 (sx_ntk _ _ _ _ _ _ J n0) HnG); exact Ef0].
  set (s' := crash_worker c s n0).
  assert (SG : forall n, sigs s' n = sigs s n).
  { intros n. unfold sigs, s', crash_worker. cbn [y_evq y_up]. destruct (Nat.eq_dec n n0) as [->|Hn].
    - rewrite alist_get_aset_eq, flat_map_app. cbn. rewrite app_nil_r. reflexivity.
    - rewrite alist_get_aset_neq by exact Hn. reflexivity. }
  assert (DN : forall n, mem_nat n (y_dead s') = false ->
             mem_nat n (y_dead s) = false /\ alist_get [] n (y_down s') = alist_get [] n (y_down s)).
  { intros n Hn. change (y_dead s') with (n0 :: y_dead s) in Hn. rewrite mem_nat_cons in Hn.
    apply orb_false_iff in Hn. destruct Hn as (A & B). split; [exact B|].
    apply Nat.eqb_neq in A. unfold s', crash_worker. cbn [y_down]. apply alist_get_aset_neq. exact A. }
  unfold s', crash_worker in *. cbn [y_d] in *. destruct (c_strict c).
  - rewrite (d_nt_c _ _ Els), Ef0 in *.
    eapply (qinvs_flagstep s _ cs (upd_flagc cs n0 (closed_flag f0))); try reflexivity; eauto.
    + cbn [y_d]. rewrite <- (d_nt_c _ _ Els). apply d_set_nt_schedc. exact Els.
    + apply (FlagsUp_updc cs n0 f0); auto.
  - eapply (qinvs_flagstep s _ cs cs); try reflexivity; eauto. apply FlagsUp_reflc.
Qed.

(* ---- the channel of a dead worker is closed ---- *)
Lemma qinvs_close s n : QInvS N coll0 s -> QInvS N coll0 (close_if_dead s n).
Proof.
  intros (cs & Els & QCd & QNs). unfold close_if_dead. destruct (mem_nat n (y_dead s)) eqn:Hd; [|exists cs; auto].
  destruct (aget n (d_nt (y_d s))) as [f|] eqn:Ef; [|exists cs; auto].
  destruct (n_down f) eqn:Edn; [|exists cs; auto].
  rewrite (d_nt_c _ _ Els) in Ef.
  set (fc := {| n_spec := n_spec f; n_down := true; n_sdsent := n_sdsent f; n_closed := true |}).
  eapply (qinvs_flagstep s _ cs (upd_flagc cs n fc)); try reflexivity; eauto.
  - cbn [set_d y_d]. apply d_set_nt_schedc. exact Els.
  - apply (FlagsUp_updc cs n f); auto.
Qed.

(* ---- all labels but LCtl ---- *)
Lemma step_qinvs_worker s l s' o w :
  l <> LCtl -> XInvCc s -> QInvS N coll0 s -> sys_step c s l = Some (s', o, w) -> QInvS N coll0 s'.
Proof.
  intros Hl X Q H. pose proof X as [Lo Hi (cs & DJd & NIs) Eq Eu Ea Er Edead].
  destruct (dj_els c kind coll0 _ _ DJd) as (Els & J).
  pose proof Q as (csq & Elsq & QCd & QNs). assert (csq = cs) by congruence. subst csq.
  unfold sys_step in H. destruct (y_result s) eqn:Eres; [discriminate|].
  destruct l as [n0|n0|n0|n0| |n0]; [| | | |contradiction|].
  - (* LDeliver *)
    destruct (mem_nat n0 (y_dead s)) eqn:Hd; [discriminate|].
    destruct (aget n0 (y_down s)) as [[|cmd rest]|] eqn:Ed; try discriminate.
    destruct (aget n0 (y_w s)) as [w0|] eqn:Ew; try discriminate.
    inv H. eapply (qinvs_upd s _ n0 (deliver w0 cmd)); try reflexivity; eauto.
    + intros n Hn. cbn [y_down]. apply alist_get_aset_neq. exact Hn.
    + intros cs0 E0. assert (cs0 = cs) by congruence. subst cs0.
      destruct (QNs n0 w0 Ew) as (A & B). split; [exact A|]. cbn [y_dead y_d y_down]. intros _.
      rewrite alist_get_aset_eq. change (sigs _ n0) with (sigs s n0).
      apply CrashProgress.QA_deliver. specialize (B Hd). rewrite (alist_get_some [] _ _ _ Ed) in B. exact B.
  - (* LRecvW *)
    destruct (mem_nat n0 (y_dead s)) eqn:Hd; [discriminate|].
    destruct (aget n0 (y_w s)) as [w0|] eqn:Ew; try discriminate.
    destruct (negb (wcb w0)); [discriminate|].
    destruct (recv_step (c_oracle c n0) w0) as [w' evs] eqn:Es. inv H.
    destruct (NIs n0 w0 Ew) as (Iw & Gw & NGw & D). rewrite Hd in D. destruct D as [D1 _ _ _ _ _].
    destruct (NI_recv (c_oracle c n0) _ _ _ _ _ _ _ Gw D1) as (Ev & _). rewrite Es in Ev. cbn [snd] in Ev. subst evs.
    eapply (qinvs_upd s _ n0 w'); try reflexivity; eauto.
    + intros n Hn. cbn [push_up set_w y_up]. apply alist_get_aset_neq. exact Hn.
    + intros cs0 E0. assert (cs0 = cs) by congruence. subst cs0.
      destruct (QNs n0 w0 Ew) as (A & B).
      assert (Sg : sigs (push_up (set_w s n0 w') n0 (map (up_of_wevent c n0) [])) n0 = sigs s n0).
      { unfold sigs. cbn [push_up set_w y_evq y_up map]. rewrite alist_get_aset_eq, app_nil_r. reflexivity. }
      split; [rewrite Sg; exact A|]. cbn [push_up set_w y_dead y_d y_down]. intros _. rewrite Sg.
      pose proof (CrashProgress.QA_recv (c_oracle c n0) _ _ _ _ _ _ Gw (proj1 (ni_wx _ _ _ _ _ _ _ D1)) (B Hd)) as Y.
      rewrite Es in Y. exact Y.
  - (* LMain *)
    destruct (mem_nat n0 (y_dead s)) eqn:Hd; [discriminate|].
    destruct (aget n0 (y_w s)) as [w0|] eqn:Ew; try discriminate.
    destruct (dies_now c n0 w0) eqn:Edie.
    + inv H. eapply qinvs_crash; eauto.
    + destruct (main_step (c_oracle c n0) w0) as [[w' evs]|] eqn:Es; [|discriminate]. inv H.
      destruct (NIs n0 w0 Ew) as (Iw & Gw & NGw & D). rewrite Hd in D. destruct D as [D1 _ _ _ _ _].
      eapply (qinvs_upd s _ n0 w'); try reflexivity; eauto.
      * intros n Hn. cbn [push_up set_w y_up]. apply alist_get_aset_neq. exact Hn.
      * intros cs0 E0. assert (cs0 = cs) by congruence. subst cs0.
        destruct (QNs n0 w0 Ew) as (A & B).
        assert (Sg : sigs (push_up (set_w s n0 w') n0 (map (up_of_wevent c n0) evs)) n0 = sigs s n0 ++ flat_map we_sig evs).
        { unfold sigs. cbn [push_up set_w y_evq y_up]. rewrite alist_get_aset_eq, flat_map_app, up_sigs_of_wevents, app_assoc. reflexivity. }
        split.
        -- rewrite Sg. intros Hin Hi2. apply in_app_or in Hi2. destruct Hi2 as [Hi2|Hi2]; [exact (A Hin Hi2)|].
           destruct (Progress.main_step_boot _ _ _ _ (ni_wx _ _ _ _ _ _ _ D1) Es) as (_ & Bt2 & _).
           apply Bt2 in Hi2. destruct (ni_n2c _ _ _ _ _ _ _ D1 Hin) as (_ & Hr). rewrite Hi2 in Hr. cbn in Hr. lia.
        -- cbn [push_up set_w y_dead y_d y_down]. intros _. rewrite Sg. eapply CrashProgress.QA_main; [exact D1|exact (B Hd)|exact Es].
  - (* LRecv *)
    destruct (aget n0 (y_up s)) as [[|m rest]|] eqn:Eup; try discriminate.
    cbn [y_d] in H.
    destruct (process_from_remote n0 m (y_d s)) as [[d' outs] r] eqn:Ep.
    destruct (step_recvx c kind coll0 Hpos Hrq s n0 m rest d' outs r X Eup Ep) as (-> & evs & -> & _ & _ & SGS).
    cbn [apply_outs] in H. inv H. apply qinvs_close.
    pose proof (Eu n0) as En. rewrite (alist_get_some [] _ _ _ Eup) in En. inversion En as [|m1 r1 Gm Gr]; subst.
    assert (Hm : m <> UBad) by (intros ->; exact Gm).
    match goal with |- QInvS N coll0 ?S2 => set (s2 := S2) end.
    assert (SG : forall k, sigs s2 k = sigs s k) by (intros k; exact (SGS k)).
    destruct (CrashProgress.pfr_shape' _ _ _ _ _ _ Hm Ep) as [->|(f & Ef & ->)].
    + eapply (qinvs_flagstep s s2 cs cs); try reflexivity; eauto. apply FlagsUp_reflc.
    + rewrite (d_nt_c _ _ Els) in Ef.
      eapply (qinvs_flagstep s s2 cs (upd_flagc cs n0 (down_flag' f))); try reflexivity; eauto.
      * cbn [s2 set_evq set_d y_d]. apply d_set_nt_schedc. exact Els.
      * apply (FlagsUp_updc cs n0 f); auto.
  - (* LCrash *)
    destruct (mem_nat n0 (y_dead s)) eqn:Hd; [discriminate|].
    destruct (aget n0 (y_w s)) as [w0|] eqn:Ew; try discriminate.
    destruct (wph w0) eqn:Eph; try discriminate; inv H; eapply qinvs_crash; eauto.
Qed.

Lemma filter_neq_length' n (l : list nat) :
  NoDup l -> length l <= S (length (filter (fun m => negb (Nat.eqb m n)) l)).
Proof.
  induction 1 as [|x l Hx ND IH]; cbn; [lia|].
  destruct (Nat.eqb x n) eqn:E; cbn.
  - apply Nat.eqb_eq in E. subst x.
    assert (Ef : filter (fun m => negb (Nat.eqb m n)) l = l).
    { clear IH ND. induction l as [|y l IH]; [reflexivity|]. cbn.
      destruct (Nat.eqb y n) eqn:Ey; cbn.
      - apply Nat.eqb_eq in Ey. subst y. exfalso. apply Hx. left. reflexivity.
      - f_equal. apply IH. intros F. apply Hx. right. exact F. }
    rewrite Ef. lia.
  - lia.
Qed.

Lemma ev_sig_fin' ev k b : ev_sig ev = Some (k, SgFin b) -> exists sk, ev = QFinished k sk.
Proof. destruct ev; cbn; intros E; try discriminate; inv E. eexists. reflexivity. Qed.

(* ---- LCtl ---- *)
Lemma step_qinvs_ctl s ev q d' outs :
  XInvCc s -> FIRSTx c coll0 s -> QInvS N coll0 s -> y_result s = None -> y_evq s = ev :: q ->
  d_loop_once ev (y_d s) = (d', outs, Ok tt) ->
  forall rr, QInvS N coll0 (set_result (apply_outs (set_d (set_evq s q) d') outs) rr).
Proof.
  intros X HF Q Eres Eevq El rr. pose proof X as [Lo Hi (cs & DJd & NIs) Eq Eu Ea Er Edead].
  specialize (Ea Eres).
  pose proof (pre_from_invx c kind coll0 s cs ev q X DJd NIs Eevq) as Hpre.
  destruct (dj_els c kind coll0 _ _ DJd) as (Els & J).
  pose proof (first_of_FIRSTx c coll0 s cs ev q HF Eevq Els) as Hfirst.
  destruct (loop_once_okx kind coll0 (c_coll c) N Hpos ev _ cs d' outs _ DJd Ea Hpre Hfirst El) as (_ & cs' & vo & Eo & E & DJ2 & _ & _).
  pose proof DJ2 as ([Els' J' _ K1' _ _ _ _ AL' _ _ _] & _).
  pose proof (loop_lxs kind coll0 (c_coll c) N Hpos ev _ cs d' outs cs' DJd Ea Hpre Hfirst El Els') as LXx.
  pose proof (loop_once_step _ _ _ _ _ El) as (_ & _ & _ & SP).
  pose proof DJd as ([_ _ _ _ _ _ _ _ AL _ _ _] & _).
  destruct Q as (csq & Elsq & QCd & QNs). assert (csq = cs) by congruence. subst csq.
  set (G := d_next_gw (y_d s)) in *.
  assert (SPW : (d_next_gw d' = G /\ forall id sp, ~ In (OHook (HSpawn id sp)) outs) \/
                (d_next_gw d' = S G /\ (exists sp, In (OHook (HSpawn G sp)) outs) /\
                 forall id sp, In (OHook (HSpawn id sp)) outs -> id = G)).
  { destruct SP as [(C0 & G0)|(C1 & G1 & _ & _ & sp & SPx)].
    - left. split; [exact G0|]. intros id sp Hin. pose proof (count_zero_notin _ _ _ C0 Hin) as F. discriminate.
    - right. split; [exact G1|]. split.
      + destruct (count_pos_in _ _ C1) as (x & Hx & Fx). exists sp. rewrite <- (SPx x Hx Fx). exact Hx.
      + intros id sp' Hin. specialize (SPx _ Hin eq_refl). inv SPx. reflexivity. }
  assert (SPID : forall id sp, In (OHook (HSpawn id sp)) outs -> id = G /\ d_next_gw d' = S G).
  { intros id sp Hin. destruct SPW as [(_ & F)|(A & _ & B)]; [exfalso; exact (F _ _ Hin)|]. split; [eapply B; eauto|exact A]. }
  assert (OUTG : forall m, G <= m -> cmds_to m outs = []).
  { intros m Hm. rewrite Eo, cmds_to_vfilter, (hx_out _ _ _ _ _ _ _ _ _ _ E m Hm). destruct (closedb (sc_nt cs) m); reflexivity. }
  set (sA := set_d (set_evq s q) d').
  destruct (apply_outs_frame outs sA) as (F1 & F2 & F3). cbn [sA set_d set_evq y_evq y_d y_dead] in F1, F2, F3.
  assert (UP : forall k, alist_get [] k (y_up (apply_outs sA outs)) = alist_get [] k (y_up s)).
  { intros k. rewrite apply_outs_up; [reflexivity|]. intros id sp Hin. destruct (SPID _ _ Hin) as (-> & _).
    cbn [sA set_d set_evq y_up]. apply (Hi G). lia. }
  assert (DOWN : forall k, alist_get [] k (y_down (apply_outs sA outs)) =
            if mem_nat k (y_dead s) then alist_get [] k (y_down s) else alist_get [] k (y_down s) ++ cmds_to k outs).
  { intros k. rewrite apply_outs_down; [reflexivity|]. intros id sp Hin. destruct (SPID _ _ Hin) as (-> & _).
    split; [apply OUTG; lia|]. cbn [sA set_d set_evq y_down]. apply (Hi G). lia. }
  assert (WOLD : forall k, k < G -> aget k (y_w (apply_outs sA outs)) = aget k (y_w s)).
  { intros k Hk. rewrite apply_outs_w_none; [reflexivity|]. intros sp Hin. destruct (SPID _ _ Hin) as (-> & _). lia. }
  assert (SIGS : forall k, sigs s k = ev_sigs_for k ev ++ sigs (set_result (apply_outs sA outs) rr) k).
  { intros k. rewrite (sigs_head' s ev q k Eevq). unfold sigs. cbn [set_result y_evq y_up]. rewrite F1, UP. reflexivity. }
  assert (Hok : ok_evx X0 G ev) by (rewrite Eevq in Eq; inversion Eq; assumption).
  exists cs'. cbn [set_result y_d]. rewrite F2. split; [exact Els'|]. split.
  - (* the controller part *)
    constructor.
    + exact (ls_tf _ _ _ _ _ LXx).
    + apply (ls_two _ _ _ _ _ LXx); [|exact (qs_two _ _ _ QCd)].
      intros n -> Hin. destruct Hok as (_ & HnG). cbn in HnG.
      destruct (aget n (y_w s)) as [wn|] eqn:Ewn; [|exact (Lo n HnG Ewn)].
      destruct (QNs n wn Ewn) as (A & _). apply (A Hin). rewrite (sigs_head' s _ q n Eevq).
      unfold ev_sigs_for. cbn [ev_sig]. rewrite Nat.eqb_refl. left. reflexivity.
    + intros Hsd. apply (ls_sd _ _ _ _ _ LXx Hsd). exact (qs_sd _ _ _ QCd).
    + intros Hc' Hss' Hex'.
      assert (Hc : sc_collection_is_completed cs = false).
      { apply not_true_false. intros C. rewrite (ls_comp _ _ _ _ _ LXx C) in Hc'. discriminate. }
      assert (Hss : d_shouldstop (y_d s) = false).
      { apply not_true_false. intros C. rewrite (hx_ss _ _ _ _ _ _ _ _ _ _ E C) in Hss'. discriminate. }
      assert (Hex : exhausted (y_d s) = false).
      { apply not_true_false. intros C. rewrite (ls_exh _ _ _ _ _ LXx C) in Hex'. discriminate. }
      destruct (qs_cnt _ _ _ QCd Hc Hss Hex) as (l & ND & Hincl & Hlen).
      assert (KEEP : (forall m b, ev_sig ev <> Some (m, SgFin b)) -> (forall m, ev <> QErrorDown m) ->
                     exists l0, NoDup l0 /\ incl l0 (d_active d') /\ N <= length l0).
      { intros Hnf Hne. exists l. split; [exact ND|]. split; [|exact Hlen]. intros m Hm.
        destruct (hx_act _ _ _ _ _ _ _ _ _ _ E m (Hincl m Hm)) as [Y|[(b & Y)|Y]]; [exact Y| |].
        - exfalso. exact (Hnf _ _ Y).
        - exfalso. exact (Hne _ Y). }
      destruct ev as [n|n ids|n key fl|n i|n i|n i k0 oc|n i ms|n ixs| |n|n sk|n];
        try (apply KEEP; intros; discriminate).
      * (* finished: impossible before the collection is complete *)
        exfalso. destruct sk; cbn [CrashScope.PREx] in Hpre.
        -- destruct Hpre as (Hina & _ & (f & Ef & Hsf)).
           destruct (heffx_flag_fwd _ _ _ _ _ _ _ _ _ _ _ _ E (AL n Hina) Ef) as (f1 & Ef1 & _ & Sd).
           rewrite (K1' Hc' Hss' Hex' n f1 Ef1) in Sd. specialize (Sd Hsf). discriminate.
        -- rewrite (hx_stop _ _ _ _ _ _ _ _ _ _ E n eq_refl) in Hss'. discriminate.
        -- contradiction.
      * (* errordown: the replacement takes the place of the dead node *)
        pose proof (ls_clone _ _ _ _ _ LXx n eq_refl Hex') as Hgw.
        destruct (hx_gw _ _ _ _ _ _ _ _ _ _ E) as [Y|(_ & _ & HinG & _)]; [fold G in Y; lia|]. fold G in HinG, Hgw.
        exists (G :: filter (fun m => negb (Nat.eqb m n)) l). split; [|split].
        -- constructor; [|apply NoDup_filter; exact ND]. intros F. apply in_filter_neq in F. destruct F as (F & _).
           pose proof (AL G (Hincl G F)) as HH. fold G in HH. lia.
        -- intros m [<-|Hm]; [exact HinG|]. apply in_filter_neq in Hm. destruct Hm as (Hm & Hne).
           destruct (hx_act _ _ _ _ _ _ _ _ _ _ E m (Hincl m Hm)) as [Y|[(b & Y)|Y]]; [exact Y|discriminate|].
           injection Y as Y. congruence.
        -- cbn [length]. pose proof (filter_neq_length' n l ND). lia.
  - (* the workers *)
    intros k w Hw. cbn [set_result y_w] in Hw.
    destruct (Nat.lt_ge_cases k G) as [Hlt|Hge].
    + rewrite (WOLD k Hlt) in Hw. destruct (QNs k w Hw) as (A & B). destruct (NIs k w Hw) as (_ & _ & _ & D).
      assert (CH : chan_ok (prank (wph w)) (sigs s k)).
      { destruct (mem_nat k (y_dead s)); [destruct D as [D1 _ _]; exact (nd_chan _ _ _ _ D1)|].
        destruct D as [D1 _ _ _ _ _]. exact (ni_chan _ _ _ _ _ _ _ D1). }
      assert (NOREADY_AFTER_CF : ev_sig ev = Some (k, SgCF) ->
                ~ In SgReady (sigs (set_result (apply_outs sA outs) rr) k) /\ ~ In SgReady (sigs s k)).
      { intros Hev. rewrite (SIGS k), (Progress.ev_sigs_for_self _ _ _ Hev) in CH. cbn [app] in CH.
        destruct (chan_ok_head _ _ _ CH) as (_ & Fa). rewrite Forall_forall in Fa.
        assert (Z : ~ In SgReady (sigs (set_result (apply_outs sA outs) rr) k)).
        { intros Hi2. specialize (Fa _ Hi2). unfold prec in Fa. cbn in Fa. lia. }
        split; [exact Z|]. rewrite (SIGS k), (Progress.ev_sigs_for_self _ _ _ Hev). intros [F|F]; [discriminate|exact (Z F)]. }
      split.
      * cbn [proj l_n2c]. intros Hin' Hi2. destruct (hx_n2c _ _ _ _ _ _ _ _ _ _ E k Hin') as [Hin|Hev].
        -- apply (A Hin). rewrite (SIGS k). apply in_or_app. right. exact Hi2.
        -- exact (proj1 (NOREADY_AFTER_CF Hev) Hi2).
      * cbn [set_result y_dead y_d y_down]. rewrite F3, F2. intros Hd. specialize (B Hd). rewrite Hd in D.
        destruct D as [D1 D2 D3 D4 D5 D6]. rewrite (SIGS k) in B.
        rewrite Eevq in D4. destruct (no_errd_cons_inv _ _ _ D4) as (Hev & Hq).
        rewrite DOWN, Hd.
        cbn [proj l_nt] in D5.
        assert (CM : cmds_to k outs = cmds_to k vo) by (rewrite Eo, cmds_to_vfilter, D5; reflexivity).
        assert (ACTB : In k (d_active d') -> In k (d_active (y_d s))).
        { intros Hin. destruct (hx_actb _ _ _ _ _ _ _ _ _ _ E k Hin) as [Y|(Y & _)]; [exact Y|]. fold G in Y. lia. }
        assert (NOFE : In k (d_active d') -> fin_or_err ev k -> False).
        { intros Hin [(sk & ->)| ->].
          - exact (ls_fin _ _ _ _ _ LXx k sk eq_refl Hin).
          - exact (is_errd_false _ _ Hev k eq_refl eq_refl). }
        assert (SDM : sd_in (sc_nt cs) k -> sd_in (sc_nt cs') k).
        { intros Y. eapply heffx_sd_in; [exact E|exact Hlt|exact Y]. }
        destruct B as [Ba Bb Bc Bd Be]. rewrite proj_nodes in Ba. cbn [proj l_nt l_n2c] in Ba, Bb, Bd.
        constructor; rewrite ?proj_nodes; cbn [proj l_nt l_n2c].
        -- intros Hact' Hnb Hnx. destruct (Ba (ACTB Hact') Hnb Hnx) as [Hi2|[Hi2|Hi2]].
           ++ apply in_app_or in Hi2. destruct Hi2 as [Hi2|Hi2]; [|left; exact Hi2].
              apply Progress.ev_sigs_for_in, Progress.ev_sig_ready in Hi2. right. exact (ls_ready _ _ _ _ _ LXx k Hi2).
           ++ destruct (ls_nodes _ _ _ _ _ LXx k Hi2) as [Y|[Y|Y]]; [right; left; exact Y|exfalso; exact (NOFE Hact' Y)|right; right; exact Y].
           ++ right. right. exact (SDM Hi2).
        -- intros Hact' Hr Hnx. destruct (Bb (ACTB Hact') Hr Hnx) as [Hi2|[Hi2|Hi2]].
           ++ apply in_app_or in Hi2. destruct Hi2 as [Hi2|Hi2]; [|left; exact Hi2].
              apply Progress.ev_sigs_for_in in Hi2. pose proof Hi2 as Hcf. apply Progress.ev_sig_cf in Hi2. destruct Hi2 as (ids & ->).
              right.
              assert (Hnb : wph w <> PBoot) by (intros Eb; rewrite Eb in Hr; cbn in Hr; lia).
              assert (REG : In k (sc_nodes cs) \/ sd_in (sc_nt cs) k).
              { destruct (Ba (ACTB Hact') Hnb Hnx) as [Y|[Y|Y]]; [|left; exact Y|right; exact Y].
                exfalso. rewrite <- (SIGS k) in Y. exact (proj2 (NOREADY_AFTER_CF Hcf) Y). }
              destruct REG as [Hreg|Hsdk]; [|right; exact (SDM Hsdk)].
              destruct (d_shuttingdown (y_d s)) eqn:Esd.
              ** right. apply SDM. exact (qs_sd _ _ _ QCd Esd k Hreg).
              ** exact (ls_cf _ _ _ _ _ LXx k ids eq_refl Esd Hreg).
           ++ destruct (ls_n2c _ _ _ _ _ LXx k Hi2) as [Y|Y]; [right; left; exact Y|exfalso; exact (NOFE Hact' Y)].
           ++ right. right. exact (SDM Hi2).
        -- intros Hex Hact'. destruct (Bc Hex (ACTB Hact')) as (b & Hi2).
           apply in_app_or in Hi2. destruct Hi2 as [Hi2|Hi2]; [|exists b; exact Hi2].
           exfalso. apply Progress.ev_sigs_for_in, ev_sig_fin' in Hi2. destruct Hi2 as (sk & ->).
           exact (ls_fin _ _ _ _ _ LXx k sk eq_refl Hact').
        -- intros f' Ef' Hs. pose proof (hx_nt _ _ _ _ _ _ _ _ _ _ E k Hlt) as HNT. rewrite Ef' in HNT.
           destruct (aget k (sc_nt cs)) as [f|] eqn:Ef; [|destruct HNT]. cbn in HNT.
           destruct (NR_fields _ _ _ HNT) as (_ & _ & _ & Dsd & _). apply Dsd in Hs.
           rewrite CM, flat_map_app, app_assoc. apply in_or_app. destruct Hs as [Hs|Hs].
           ++ left. exact (Bd f eq_refl Hs).
           ++ right. apply in_flat_map. exists CShutdown. split; [exact Hs|left; reflexivity].
        -- exact Be.
    + (* the replacement worker that has just been started *)
      destruct SPW as [(A & Fno)|(A & (sp & Hin) & _)].
      { exfalso. rewrite apply_outs_w_none in Hw by (intros sp Hin; exact (Fno _ _ Hin)).
        destruct (Hi k Hge) as (F & _). cbn [sA set_d set_evq y_w] in Hw. congruence. }
      destruct (Nat.eq_dec k G) as [->|Hne].
      2:{ exfalso. rewrite apply_outs_w_none in Hw.
          - destruct (Hi k Hge) as (F & _). cbn [sA set_d set_evq y_w] in Hw. congruence.
          - intros sp' Hin'. destruct (SPID _ _ Hin') as (-> & _). contradiction. }
      rewrite (apply_outs_spawned outs sA G) in Hw by (right; eauto). injection Hw as <-.
      destruct (hx_gw _ _ _ _ _ _ _ _ _ _ E) as [Y|(_ & (f & Ef & (Hf1 & Hf2 & Hf3)) & Hina & Hnn & Hnc)]; [fold G in Y; lia|].
      fold G in Ef, Hina, Hnn, Hnc.
      split; [cbn [proj l_n2c]; intros F; contradiction|]. intros _. constructor; cbn [w_init wph prank].
      * intros _ Fb. exfalso. apply Fb. reflexivity.
      * intros _ Fb. lia.
      * discriminate.
      * cbn [proj l_nt]. intros g Eg Hg. assert (g = f) by congruence. subst g. congruence.
      * exact Progress.CB_init.
Qed.

(* ---- every label ---- *)
Lemma step_qinvs s l s' o w :
  XInvCc s -> FIRSTx c coll0 s -> QInvS N coll0 s -> sys_step c s l = Some (s', o, w) ->
  QInvS N coll0 s' \/ y_result s' <> None.
Proof.
  intros X HF Q H. destruct l as [n0|n0|n0|n0| |n0];
    try (left; eapply step_qinvs_worker; [| | |exact H]; [discriminate|exact X|exact Q]).
  pose proof X as [_ _ _ _ _ Ea _ _].
  unfold sys_step in H. destruct (y_result s) eqn:Eres; [discriminate|]. specialize (Ea eq_refl).
  destruct (d_active (y_d s)) as [|a0 ar] eqn:Eact; [contradiction|].
  destruct (y_evq s) as [|ev q] eqn:Eevq; [discriminate|].
  destruct (d_loop_once ev (y_d s)) as [[d' outs] r] eqn:El.
  destruct (step_ctl_corex_g c kind coll0 Hpos Hrq s ev q d' outs r X HF Eres Eevq El) as (-> & _ & _).
  pose proof (step_qinvs_ctl s ev q d' outs X HF Q Eres Eevq El) as CORE.
  destruct (d_session_finished d').
  - inv H. left. apply CORE.
  - destruct (d_active d') as [|b0 br].
    + right. destruct (d_no_active d') as [[d2 o2] r2]. inv H. cbn. discriminate.
    + assert (Er1 : y_result (apply_outs (set_d (set_evq s q) d') outs) = None).
      { rewrite apply_outs_result. cbn. exact Eres. }
      rewrite <- (set_result_same' _ None Er1) in H. inv H. left. apply CORE.
Qed.

End SysQs.


(* ###################################### part D ###################################### *)

Section SysDs.
Variable c : config.
Variable kind : scope_kind.
Notation N := (c_numnodes c).
Notation X0 := (c_coll c).
Hypothesis Hmode : c_mode c = MScope kind.
Hypothesis Hng : no_garbled c.
Hypothesis Hpos : 0 < N.
Hypothesis Hrq : c_requeue c = 0.

Notation Good_label := (CrashProgress.Good_label c).
Notation quietx := (CrashProgress.quietx c).

(* ---- the argument: a state in which nothing useful can move, but the session has not ended ---- *)
Lemma quiescent_xs coll0 s :
  XInvC c kind coll0 s -> QInvS N coll0 s -> y_result s = None -> y_evq s = [] ->
  (forall n w, aget n (y_w s) = Some w -> quietx s n w) -> False.
Proof.
  intros X Q Hres Hevq HQ.
  pose proof X as [Lo Hi (cs & DJd & NIs) Eq Eu Ea Er Edead]. specialize (Ea Hres).
  pose proof DJd as ([Els J Jb K1 RS K2 EX RQ AL FN CC ACTn] & Jss & Jemp & Jmis).
  destruct Q as (csq & Elsq & QCd & QNs). assert (csq = cs) by congruence. subst csq.
  destruct QCd as [Qtf Qtwo Qsd Qcnt].
  assert (SG : forall n w, aget n (y_w s) = Some w -> sigs s n = []).
  { intros n w Hw. destruct (HQ n w Hw) as (Hu & _). unfold sigs. rewrite Hevq, Hu. reflexivity. }
  (* dead workers: their errordown has been handled *)
  assert (DEADX : forall n w, aget n (y_w s) = Some w -> mem_nat n (y_dead s) = true -> ~ In n (d_active (y_d s))).
  { intros n w Hw Hd. destruct (NIs n w Hw) as (_ & _ & _ & D). rewrite Hd in D. destruct D as [_ D2 _].
    destruct (HQ n w Hw) as (Hu & _).
    destruct D2 as [pre f X1 X2 X3 X4 X5 X6 X7|q1 q2 X1 X2 X3 X4 X5 X6 X7|X1 X2 X3 X4 X5].
    - rewrite Hu in X1. destruct pre; discriminate.
    - rewrite Hevq in X2. destruct q1; discriminate.
    - exact X4. }
  (* an active node: alive, waits at an empty queue, not shutting down, registered, collection recorded, holds <= 1 *)
  assert (ACT : forall n, In n (d_active (y_d s)) -> exists f,
            aget n (sc_nt cs) = Some f /\ shutting_down f = false /\
            length (bookn coll0 cs n) <= 1 /\ In n (sc_nodes cs) /\ In n (akeys (sc_reg cs))).
  { intros n Hact. pose proof (AL n Hact) as HnG.
    destruct (aget n (y_w s)) as [w|] eqn:Ew; [|exfalso; exact (Lo n HnG Ew)].
    destruct (mem_nat n (y_dead s)) eqn:Hd; [exfalso; exact (DEADX n w Ew Hd Hact)|].
    destruct (NIs n w Ew) as (Iw & _ & _ & D). rewrite Hd in D. destruct D as [D1 D2 D3 D4 D5 D6].
    destruct (QNs n w Ew) as (_ & B). specialize (B Hd). rewrite (SG n w Ew) in D1, B.
    destruct (HQ n w Ew) as (Hu & HQ2). destruct (HQ2 Hd) as (Hdn & Hb & Hm). rewrite Hdn in D1, B.
    destruct B as [Ba Bb Bc Bd Be]. rewrite proj_nodes in Ba. cbn [proj l_nt l_n2c] in Ba, Bb, Bd.
    destruct (ni_flags _ _ _ _ _ _ _ D1) as (f & Ef & Mk). cbn [proj l_nt] in Ef. exists f. split; [exact Ef|].
    assert (Hnx : wph w <> PExited).
    { intros Ex. destruct (Bc Ex Hact) as (b & []). }
    apply LivenessLaws.V6_main_step_blocked in Hm.
    pose proof (inv_phase w Iw) as PI. unfold phase_inv in PI.
    assert (BL : wq w = [] /\ wcb w = true /\ 2 <= prank (wph w) /\ wph w <> PBoot /\
                 ~ In Mark (map snd (wpopped w)) /\ length (owed_main w) <= 1).
    { destruct Hm as [(Ep & Eq0 & Ecb)|[(cur & Ep & Eq0)|Ep]]; [| |contradiction].
      - rewrite Ep in PI. destruct PI as (Epop & _). rewrite Epop. unfold owed_main. rewrite Ep. cbn.
        repeat split; auto; try lia; try discriminate.
      - pose proof Be as Cb. unfold Progress.CB in Cb. rewrite Ep in Cb, PI.
        destruct PI as (pre & Epop & Hnm & _). unfold owed_main. rewrite Ep, Epop. cbn [prank length].
        repeat split; auto; try lia; try discriminate.
        intros Hin. apply in_map_iff in Hin. destruct Hin as (e & Ee & Hin). apply in_app_or in Hin.
        destruct Hin as [Hin|[<-|[]]].
        + specialize (Hnm e Hin). unfold is_idx in Hnm. rewrite Ee in Hnm. discriminate.
        + discriminate Ee. }
    destruct BL as (Eq0 & Ecb & Hr & Hnb & Hnm & Hom).
    unfold Progress.recv_busy in Hb. rewrite Ecb in Hb. cbn [andb] in Hb. apply negb_false_iff in Hb.
    destruct (wrpend w) eqn:Erp; [|discriminate]. destruct (winbox w) eqn:Eib; [|discriminate].
    assert (Estr : wstream w ++ flat_map cmd_items [] = map snd (wpopped w)).
    { unfold wstream. rewrite Eq0, Erp, Eib. cbn. rewrite !app_nil_r. reflexivity. }
    assert (Hsf : n_sdsent f = false).
    { destruct (n_sdsent f) eqn:Es; [|reflexivity]. exfalso. apply Hnm. rewrite <- Estr. exact (Bd f Ef Es). }
    assert (Hdf : n_down f = false).
    { destruct (n_down f) eqn:Ed0; [|reflexivity]. exfalso. apply Hnx. exact (proj2 (D6 f Ef Ed0)). }
    assert (Hsh : shutting_down f = false) by (unfold shutting_down; rewrite Hsf, Hdf; reflexivity).
    assert (NSD : ~ sd_in (sc_nt cs) n).
    { intros (f' & Ef' & Hs'). assert (f' = f) by congruence. subst f'. congruence. }
    split; [exact Hsh|]. split; [|split].
    - rewrite <- proj_bk. rewrite (ni_coupled _ _ _ _ _ _ _ D1). cbn [completes flat_map app]. unfold owed_w. rewrite Eq0, Erp, Eib.
      cbn. rewrite !app_nil_r. exact Hom.
    - destruct (Ba Hact Hnb Hnx) as [[]|[Hin|Hin]]; [exact Hin|contradiction].
    - destruct (Bb Hact Hr Hnx) as [[]|[Hin|Hin]]; [exact Hin|contradiction]. }
  destruct (d_active (y_d s)) as [|a ar] eqn:Eact; [contradiction|].
  assert (Hacta : In a (a :: ar)) by (left; reflexivity).
  destruct (ACT a Hacta) as (fa & Efa & Hsha & Hbka & Hina & Hn2ca).
  destruct (d_shuttingdown (y_d s)) eqn:Esd.
  - (* shutting down: the registered node a was told to shut down, or is down *)
    destruct (Qsd eq_refl a Hina) as (f' & Ef' & Hs'). congruence.
  - assert (Hss : d_shouldstop (y_d s) = false).
    { destruct (d_shouldstop (y_d s)) eqn:E1; [|reflexivity]. specialize (Jss eq_refl). discriminate. }
    assert (Hex : exhausted (y_d s) = false).
    { destruct (exhausted (y_d s)) eqn:E1; [|reflexivity]. specialize (EX eq_refl). congruence. }
    (* every worker has reported its collection *)
    assert (Hcomp : sc_collection_is_completed cs = true).
    { destruct (sc_collection_is_completed cs) eqn:Ec; [reflexivity|]. exfalso.
      destruct (Qcnt eq_refl Hss Hex) as (l & ND & Hincl & Hlen).
      assert (Hinc : incl l (akeys (sc_reg cs))).
      { intros m Hm. destruct (ACT m (Hincl m Hm)) as (_ & _ & _ & _ & _ & X1). exact X1. }
      pose proof (NoDup_incl_length ND Hinc) as Hl2. rewrite akeys_length in Hl2.
      unfold sc_collection_is_completed in Ec. rewrite (sx_num _ _ _ _ _ _ J) in Ec. apply Nat.leb_gt in Ec. lia. }
    pose proof (Qtf eq_refl) as Htf. unfold sc_tests_finished in Htf. rewrite Hcomp in Htf. cbn [andb] in Htf.
    destruct (sc_wq cs) as [|p0 pr] eqn:Epend.
    + (* the work queue is empty: somebody holds >= 2 pending tests *)
      cbn [andb] in Htf. destruct (Progress.forallb_false_ex _ _ Htf) as ([k b] & Hin & Hf). cbn [snd] in Hf.
      apply Nat.ltb_ge in Hf.
      assert (Hk : In k (sc_nodes cs)).
      { unfold sc_nodes, akeys. change k with (fst (k, b)). apply in_map. exact Hin. }
      pose proof (Jb Hss k Hk) as Hka.
      destruct (ACT k Hka) as (_ & _ & _ & Hbk & _).
      unfold bookn in Hbk. rewrite (Progress.in_nodup_aget _ _ _ (sx_wf _ _ _ _ _ _ J) Hin) in Hbk.
      rewrite <- (pending_of_book coll0) in Hbk. lia.
    + (* the work queue is not empty: every registered node that has reported holds >= 2 pending tests *)
      assert (Hpne : sc_wq cs <> []) by (rewrite Epend; discriminate).
      destruct (aget a (sc_assigned cs)) as [b|] eqn:Eb; [|apply aget_In_keys in Hina; contradiction].
      assert (Hc : ahas a (sc_reg cs) = true).
      { unfold ahas. apply aget_In_keys in Hn2ca. destruct (aget a (sc_reg cs)); [reflexivity|contradiction]. }
      pose proof (Qtwo Hpne a fa b (fun F => F) Eb Efa Hsha Hc) as H2.
      unfold bookn in Hbka. rewrite Eb in Hbka. rewrite <- (pending_of_book coll0) in Hbka. lia.
Qed.

(* in every state satisfying the invariants in which the session has not ended, a useful non-crash move exists *)
Theorem progress_xs coll0 s :
  XInvC c kind coll0 s -> QInvS N coll0 s -> y_result s = None -> exists l, Good_label s l.
Proof.
  intros X Q Hres.
  destruct (y_evq s) as [|ev q] eqn:Eevq.
  - destruct (CrashProgress.findl c s (seq 0 (d_next_gw (y_d s)))) as [l|] eqn:Ef.
    + destruct (CrashProgress.findl_some _ _ _ _ Ef) as (n & Hn). exists l. eapply CrashProgress.nlab_ok; eauto.
    + exfalso. apply (quiescent_xs coll0 s X Q Hres Eevq). intros n w Ew.
      apply CrashProgress.nlab_none; [|exact Ew]. apply (CrashProgress.findl_none _ _ _ Ef). apply in_seq.
      pose proof (worker_ltx c kind coll0 s n w X Ew). lia.
  - exists LCtl. split; [exact I|]. split; [reflexivity|].
    unfold sys_step. rewrite Hres, Eevq.
    destruct (d_active (y_d s)).
    + destruct (d_no_active (y_d s)) as [[d' outs] r]. discriminate.
    + destruct (d_loop_once ev (y_d s)) as [[d' outs] r]. destruct r; [|discriminate].
      destruct (d_session_finished d'); [discriminate|].
      destruct (d_active d'); [|discriminate].
      destruct (d_no_active d') as [[d2 outs2] r2]. discriminate.
Qed.

(* every reachable state satisfies both invariants for some collection, or the session has ended *)
Definition GQ (s : sys) : Prop :=
  (exists coll0, XInvC c kind coll0 s /\ QInvS N coll0 s) \/ y_result s <> None.

Lemma qinvs_run ls : GQ (sys_run c ls).
Proof.
  unfold sys_run.
  assert (G : forall s, GQ s ->
     GQ (fold_left (fun s l => match sys_step c s l with Some (s', _, _) => s' | None => s end) ls s)).
  { induction ls as [|l ls IH]; intros s Hs; cbn [fold_left]; [exact Hs|].
    apply IH. destruct (sys_step c s l) as [[[s' o] w]|] eqn:E; [|exact Hs].
    destruct Hs as [(coll1 & Xs & Qs)|Hr].
    - destruct (pickx_ok c kind coll1 s Xs) as (X1 & F1).
      pose proof (QInvS_transfer N coll1 (pickx c coll1 s) s Qs) as Q1.
      destruct (step_xinvc_g c kind (pickx c coll1 s) Hng Hpos Hrq s l s' o w X1 F1 E) as [X'|(R & _)].
      + destruct (step_qinvs c kind (pickx c coll1 s) Hpos Hrq s l s' o w X1 F1 Q1 E) as [Q'|R].
        * left. eauto.
        * right. exact R.
      + right. rewrite R. discriminate.
    - exfalso. unfold sys_step in E. destruct (y_result s); [discriminate|]. apply Hr. reflexivity. }
  apply G. left. exists (c_coll c 0). split; [apply XInvC_init; assumption|apply (QInvS_init c kind); assumption].
Qed.

End SysDs.

(* ====================================================================================== *)
(* The theorems                                                                            *)
(* ====================================================================================== *)
Section MainS.
  Variable c : config.
  Variable ls : list label.
  Variable kind : scope_kind.
  Hypothesis Hmode : c_mode c = MScope kind.
  Hypothesis Hnogarbled : no_garbled c.
  Hypothesis Hnodes : 0 < c_numnodes c.
  Hypothesis Hrequeue : c_requeue c = 0.

  (* C02 with worker failures, no stand-off, scope family: whatever the schedule (crash labels included),
     whichever workers died (LCrash, c_crash_in), whatever the restart budget (None included), c_strict and
     the collections (replacement workers may collect something else): while the session has not ended some
     component can make a useful NON-crash move *)
  Theorem scope_crash_c02_no_deadlock_useful :
    y_result (sys_run c ls) = None ->
    exists l, no_crash_label l /\ Progress.useful (sys_run c ls) l = true /\ sys_step c (sys_run c ls) l <> None.
  Proof.
    intros Hres. destruct (qinvs_run c kind Hmode Hnogarbled Hnodes Hrequeue ls) as [(coll0 & X & Q)|R]; [|contradiction].
    eapply (progress_xs c kind); eassumption.
  Qed.

  Theorem scope_crash_c02_no_deadlock :
    y_result (sys_run c ls) = None ->
    exists l, no_crash_label l /\ sys_step c (sys_run c ls) l <> None.
  Proof.
    intros Hres. destruct (scope_crash_c02_no_deadlock_useful Hres) as (l & A & _ & B). exists l. split; assumption.
  Qed.
End MainS.

Check scope_crash_c02_no_deadlock_useful.
Print Assumptions scope_crash_c02_no_deadlock_useful.
Check scope_crash_c02_no_deadlock.
Print Assumptions scope_crash_c02_no_deadlock.
Check progress_xs.
Check loop_lxs.

(* ====================================================================================== *)
(* Non-vacuity: concrete sessions with crashes, evaluated                                  *)
(* ====================================================================================== *)
(* crp_moves / crp_idle / crp_greedy of CrashProgress.v do not depend on the scheduling mode: the useful
   enabled non-crash moves of a state, the idle receiver turns, and the scheduler "always the first useful
   move" with a plan of external kills *)
Notation crp_moves := CrashProgress.crp_moves.
Notation crp_idle := CrashProgress.crp_idle.
Notation crp_greedy := CrashProgress.crp_greedy.

Open Scope string_scope.
Open Scope list_scope.

(* what the scheduler holds: the scope keys in the work queue, pending tests per registered node, the nodes
   whose collection is recorded *)
Definition cps_sched (s : sys) :=
  match d_sched (y_d s) with
  | StC cs => (map fst (sc_wq cs), map (fun p => (fst p, pending_of (snd p))) (sc_assigned cs), akeys (sc_reg cs))
  | _ => ([], [], [])
  end.

(* (a) THE HISTORICAL STAND-OFF, repaired.  --dist loadfile, ONE worker, files a (tests 0 1) and b (test 2).
   Worker 0 is handed everything (and, the queue being empty, told to shut down); it dies on entering test 1.
   Its errordown resets the shutdown flag, test 1 is the crash item, file b goes back to the queue, and the
   replacement worker 1 is started.  When worker 1 reports its collection it is handed file b: it holds ONE
   test, the queue is empty -- a worker holding one test waits for a successor.  The repaired scheduler
   reports "tests finished" in this state, so the same controller turn tells worker 1 to shut down: the
   marker is the successor, the test runs, the session ends as "finished". *)
Definition cps_cfg1 : config :=
  {| c_mode := MScope KFile; c_numnodes := 1; c_chunk := None; c_maxfail := 0%Z; c_max_restart := Some 4%Z;
     c_requeue := 0; c_coll := fun _ => ["a::1"; "a::2"; "b::1"]; c_oracle := fun _ => csx_oracle 3;
     c_dur := fun _ => 0%Z; c_crash_in := fun n i => Nat.eqb n 0 && Nat.eqb i 1; c_strict := false; c_spec := fun _ => 0 |}.
Definition cps_run1 : list label := crp_greedy cps_cfg1 (sys_init cps_cfg1) 3000 0 [].

Lemma cps_hyps1 :
  c_mode cps_cfg1 = MScope KFile /\ no_garbled cps_cfg1 /\ 0 < c_numnodes cps_cfg1 /\ c_requeue cps_cfg1 = 0.
Proof.
  split; [reflexivity|]. split; [|split; [cbn; lia|reflexivity]].
  intros n i H. cbn in H. destruct H as [H|[]]. discriminate.
Qed.

Example cps_ex_one_test_replacement :
  let c := cps_cfg1 in
  (* the whole session: 64 moves, one death, "finished" *)
  length cps_run1 = 64 /\ y_result (sys_run c cps_run1) = Some RFinished /\ y_dead (sys_run c cps_run1) = [0] /\
  (* before move 42 (the controller handles worker 1's collection): file b is queued, worker 1 holds nothing *)
  (let s := sys_run c (firstn 42 cps_run1) in
   y_result s = None /\ d_shuttingdown (y_d s) = false /\ cps_sched s = (["b"], [(1, 0)], [0]) /\
   crp_moves c s = [LCtl]) /\
  (* after it: worker 1 holds ONE test, the queue is empty, and worker 1 has been told to shut down *)
  (let s := sys_run c (firstn 43 cps_run1) in
   y_result s = None /\ d_shuttingdown (y_d s) = true /\ cps_sched s = ([], [(1, 1)], [0; 1]) /\
   alist_get [] 1 (y_down s) = [CRun [2]; CShutdown] /\
   crp_moves c s = [LDeliver 1] /\
   exists l, no_crash_label l /\ Progress.useful s l = true /\ sys_step c s l <> None).
Proof.
  cbv zeta. split; [vm_compute; reflexivity|]. split; [vm_compute; reflexivity|]. split; [vm_compute; reflexivity|].
  split; [vm_compute; repeat split; reflexivity|].
  split; [vm_compute; reflexivity|]. split; [vm_compute; reflexivity|]. split; [vm_compute; reflexivity|].
  split; [vm_compute; reflexivity|]. split; [vm_compute; reflexivity|].
  destruct cps_hyps1 as (H1 & H2 & H3 & H4).
  apply (scope_crash_c02_no_deadlock_useful cps_cfg1 (firstn 43 cps_run1) KFile); try assumption.
  vm_compute. reflexivity.
Qed.
Print Assumptions cps_ex_one_test_replacement.

(* (b) the session of CrashScopeTheorems.csx_ex_two_crashes (2 workers, files a b c, worker 0 has died entering
   test 4) in the state RIGHT AFTER worker 1 was killed from outside too: BOTH workers are dead and both are
   still active for the controller; file c is still queued.  The useful moves are the controller's (4 events
   are queued) and its receiver thread's (worker 1's last messages and its end marker); the theorem applies *)
Definition cps_after_crash : list label := rounds 14 crx_round ++ [LCrash 1].
Example cps_ex_after_crash :
  let c := csx_cfg csx_crash04 in
  let s := sys_run c cps_after_crash in
  y_result s = None /\ y_dead s = [1; 0] /\ d_active (y_d s) = [0; 1] /\ cps_sched s = (["c"], [(0, 4); (1, 3)], [0; 1]) /\
  crp_moves c s = [LCtl; LRecv 1] /\ crp_idle c s = [] /\
  exists l, no_crash_label l /\ Progress.useful s l = true /\ sys_step c s l <> None.
Proof.
  cbv zeta. split; [vm_compute; reflexivity|]. split; [vm_compute; reflexivity|].
  split; [vm_compute; reflexivity|]. split; [vm_compute; reflexivity|].
  split; [vm_compute; reflexivity|]. split; [vm_compute; reflexivity|].
  destruct (csx_hyps csx_crash04) as (H1 & H2 & H3 & _ & H5).
  apply (scope_crash_c02_no_deadlock_useful _ _ KFile); try assumption. vm_compute. reflexivity.
Qed.

(* (c) whole sessions driven by "always the first useful move": two deaths and two replacements; both workers
   dead with the budget exhausted (--max-worker-restart 0); a replacement that collects a different list
   (the documented RuntimeError("no active workers") -- the theorem needs no hypothesis on the collections) *)
Example cps_ex_greedy_two_crashes :
  let c := csx_cfg csx_crash04 in
  let ls := crp_greedy c (sys_init c) 3000 0 [(60, 1)] in
  y_result (sys_run c ls) = Some RFinished /\ y_dead (sys_run c ls) = [1; 0] /\ d_next_gw (y_d (sys_run c ls)) = 4.
Proof. vm_compute. repeat split. Qed.

Definition cps_cfg0 : config :=
  {| c_mode := MScope KFile; c_numnodes := 2; c_chunk := None; c_maxfail := 0%Z; c_max_restart := Some 0%Z;
     c_requeue := 0; c_coll := fun _ => csx_coll; c_oracle := fun _ => csx_oracle 8;
     c_dur := fun _ => 0%Z; c_crash_in := fun _ _ => false; c_strict := false; c_spec := fun _ => 0 |}.
Example cps_ex_all_dead :
  let c := cps_cfg0 in
  crp_moves c (sys_run c [LCrash 0; LCrash 1]) = [LRecv 0; LRecv 1] /\
  crp_moves c (sys_run c [LCrash 0; LCrash 1; LRecv 0; LRecv 1]) = [LCtl] /\
  y_result (sys_run c [LCrash 0; LCrash 1; LRecv 0; LRecv 1; LCtl]) = None /\
  y_result (sys_run c [LCrash 0; LCrash 1; LRecv 0; LRecv 1; LCtl; LCtl]) = Some RFinished.
Proof. vm_compute. repeat split. Qed.

Example cps_ex_greedy_no_active_workers :
  let ls := crp_greedy csx_cfg_diff (sys_init csx_cfg_diff) 3000 0 [] in
  y_result (sys_run csx_cfg_diff ls) = Some (RError ERuntimeNoWorkers) /\
  (* the theorem applies to every state on the way, e.g. after 40 moves *)
  (y_result (sys_run csx_cfg_diff (firstn 40 ls)) = None /\
   exists l, no_crash_label l /\ Progress.useful (sys_run csx_cfg_diff (firstn 40 ls)) l = true /\
             sys_step csx_cfg_diff (sys_run csx_cfg_diff (firstn 40 ls)) l <> None).
Proof.
  cbv zeta. split; [vm_compute; reflexivity|]. split; [vm_compute; reflexivity|].
  apply (scope_crash_c02_no_deadlock_useful csx_cfg_diff _ KFile).
  - reflexivity.
  - intros n i H. cbn in H. destruct H as [H|[]]. discriminate.
  - cbn. lia.
  - reflexivity.
  - vm_compute. reflexivity.
Qed.
Close Scope string_scope.
